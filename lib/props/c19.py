"""C19 — soil temperature stays within the envelope of its boundary temperatures (DESIGN.md §6 C19)."""
import os, re
from core import Corr, Fail
from props import waterlib
from props.waterlib import fl, fls

PROP_FILES = ["Prop_C19"]
RULE = ("synthetic Soiltemp calls (1-20 layers, horizons, class / measured / organic bulk densities, humus 0-0.6, water "
        "content 0.01-0.6, bare soil with high radiation (albedo branch), canopy, negative LAI, other grid spacing and "
        "time step, linear and random start profiles), sampled days of synthetic multi-year runs and of traced real runs; "
        "a case is non-trivial when its inputs are distinct and some interior layer temperature changes")
TRUSTED = ["binary64 semantics of Go on amd64 (no fused multiply-add) = Coq primitive floats",
           "math.Exp / math.Pow(x,1.5) are oracles: the theorems use only 0 <= exp(-50*p) <= 1; the harness evaluates them at "
           "the arguments the model computes (argument bits compared)",
           "R->F gap: envelope proved in exact real arithmetic; at binary64 checked on every traced/synthetic day with "
           "tolerance 1e-9*(1+scale)"]
ASSUMPTIONS = ["bulk density 0.567 <= BD <= 2.3 g/cm3, HUMUS >= 0, WG >= 0, DT = 1, DZ = 10 (hypotheses of the envelope theorem; "
               "below 0.567 the theorem is refuted: F17)",
               "the surface value is whatever soiltemp.go:41-45 imposes (it may exceed TMAX when 0.0003*radiat > 1); the "
               "envelope is taken over the imposed values"]
LEVEL_TEXT = ("Coq proof over the reals that the explicit scheme of Soiltemp (24 hourly steps, daily means carried over) keeps "
              "every layer temperature between the minimum and maximum of the start profile, TBASE and all surface values "
              "imposed so far, for every layer count and every run length (induction over layers, hours and days), given "
              "the diffusion number bound 0 <= r < 1/2 which is proved from 0.567 <= BD <= 2.3, HUMUS >= 0, WG >= 0; "
              "the same Gallina definition runs on binary64 and is compared bit for bit with hermes.Soiltemp; the envelope "
              "is evaluated on the real code on synthetic multi-year runs and traced real runs.")
LEVEL_NOTE = ("Trusted: Coq kernel/vm_compute, Reals axioms of the standard library, primitive floats; exp/pow enter as oracle "
              "values; no rounding-error bound between the real and binary64 semantics (oracle tolerance 1e-9). "
              "diffusion_number_refuted: BD = 0.3 gives r < 0 (F17, known finding).")
TECHNIQUE = "Coq proof (convex-combination invariant, induction over layers/hours/days, nra) + bit-exact kernel correspondence + envelope oracle on runs"

HDR = ["From Coq Require Import ZArith List Bool Floats.", "From Hermes Require Import Num SoilTempModel C01Corr C19Corr.",
       "Import ListNotations.", "Open Scope float_scope."]
GROUPS = ["surface", "HEATCOND", "HEATCAP", "TDSUM", "TD", "TSOIL0", "TSOIL1", "oracle-arguments"]

# batch lines for traced runs (shipped examples, scratch copy)
TRACE = [
    ("project=ex1 WeatherFolder=historical soilId=075 fcode=109_120 plotNr=10001 Altitude=73 Latitude=52.6732 poligonID=29872", "EN"),
    ("project=zuc WeatherFolder=historical fcode=109_120 plotNr=10001 soilId=001 Altitude=73 Latitude=52.6732 poligonID=29872 ETpot=4", "DE"),
    ("project=bulk WeatherFolder=historical soilId=002 fcode=109_120 plotNr=10001 Altitude=73 Latitude=52.6732 poligonID=29872", "EN"),
    ("project=ex3 WeatherFolder=historical soilId=075 fcode=109_120 plotNr=10001 Altitude=73 Latitude=52.6732 poligonID=29872 ETpot=2", "EN"),
    ("project=rue WeatherFolder=historical fcode=109_121 plotNr=10002 soilId=001 Altitude=46 Latitude=52.6431 poligonID=30169", "DE"),
    ("project=ex1 WeatherFolder=historical soilId=160 fcode=109_120 plotNr=10002 Altitude=73 Latitude=52.6728 poligonID=29873 ETpot=1", "EN"),
    ("project=myP WeatherFolder=historical soilId=075 plotNr=10001 Altitude=73 Latitude=52.6732 poligonID=29872 ETpot=2", "EN"),
    ("project=ex1 WeatherFolder=historical soilId=041 fcode=109_121 plotNr=10001 Altitude=73 Latitude=52.6680 poligonID=29876 ETpot=4", "EN"),
]


def case_record(c):
    i, a, o = c["in"], c["args"], c["out"]
    return ("({| d_lai := %s; d_rad := %s; d_eta := %s; d_temp := %s; d_tmin := %s; d_tmax := %s; d_tbase := %s; d_dt := %s; "
            "d_dz := %s; d_elai := %s; d_layers := mk_layers %s %s %s %s %s |}, %s, "
            "{| ob_surf := %s; ob_heatcond := %s; ob_heatcap := %s; ob_tdsum := %s; ob_td := %s; ob_tsoil0 := %s; "
            "ob_tsoil1 := %s; ob_elai_arg := %s; ob_pw_args := %s; ob_ex_args := %s |})"
            % (fl(i["lai"]), fl(i["rad"]), fl(i["eta"]), fl(i["temp"]), fl(i["tmin"]), fl(i["tmax"]), fl(i["tbase"]),
               fl(i["dt"]), fl(i["dz"]), fl(i["elai"]), fls(i["bd"]), fls(i["wg"]), fls(i["hum"]), fls(i["pw"]), fls(i["ex"]),
               fls(i["tsoil0"]), fl(o["surf"]), fls(o["heatcond"]), fls(o["heatcap"]), fls(o["tdsum"]), fls(o["td"]),
               fls(o["tsoil0"]), fls(o["tsoil1"]), fl(a["elai"]), fls(a["pw"]), fls(a["ex"])))


def parse_M(o):
    """(ok, pairs): anything other than `M = []` or a list of (nat, nat) pairs is not ok"""
    m = re.search(r"M\s*=\s*(.*?)\s*:\s*list \(nat \* nat\)", o, re.S)
    if not m:
        return False, []
    body = m.group(1).strip()
    if body == "[]":
        return True, []
    pairs = re.findall(r"\(\s*(\d+)(?:%nat)?\s*,\s*(\d+)(?:%nat)?\s*\)", body)
    return bool(pairs), [(int(a), int(b)) for a, b in pairs]


def eval_cases(ctx, corr, cases, inits, shard=40):
    ok, out = ctx.coq_make(["C19Corr"])      # the driver builds only Prop_C19 and what it imports
    if not ok:
        corr.mismatches.append({"kind": "coq-build C19Corr", "output": out[-1500:]})
        return corr
    recs = [case_record(c) for c in cases]
    items = []
    for k in range(0, len(recs), shard):
        body = HDR + ["Definition cases : list (day_in float * list float * soiltemp_obs) := [\n%s\n]." % ";\n".join(recs[k:k + shard]),
                      "Definition M := Eval vm_compute in mismatches soiltemp_check %d%%nat cases." % k, "Print M."]
        items.append(("Cases_soiltemp_%d" % (k // shard), "\n".join(body) + "\n"))
    if inits:
        irecs = ["(%s, %s, %s, %d%%nat, %s)" % (fl(c["tmin"]), fl(c["tmax"]), fl(c["tbase"]), c["n"], fls(c["tsoil0"])) for c in inits]
        body = HDR + ["Definition cases : list (float * float * float * nat * list float) := [\n%s\n]." % ";\n".join(irecs),
                      "Definition M := Eval vm_compute in mismatches init_check 0%nat cases.", "Print M."]
        items.append(("Cases_soiltemp_init", "\n".join(body) + "\n"))
    for nm, rc, o in ctx.coq_eval_many(items, timeout=900):
        ok, pairs = parse_M(o)
        if rc != 0 or not ok:
            corr.mismatches.append({"kind": "coq-eval", "shard": nm, "output": o[-1200:]})
            continue
        for idx, mask in pairs:
            if nm == "Cases_soiltemp_init":
                corr.mismatches.append({"kind": "init-profile", "case": inits[idx]})
            else:
                corr.mismatches.append({"kind": "soiltemp-kernel", "case": idx, "tag": cases[idx]["in"]["tag"],
                                        "differs": [GROUPS[j] for j in range(8) if mask >> j & 1], "input": cases[idx]["in"]})
    corr.cases += len(recs) + len(inits)
    return corr


def _run(ctx):
    ex = waterlib.prepare_examples(ctx, extreme_rain=False)
    nl, endy = (8, 2000) if ctx.thorough else (3, 1984)
    lines = []
    for i, (ln, fmt) in enumerate(TRACE[:nl]):
        end = ("1231%d" if fmt == "EN" else "3112%d") % endy
        lines.append("%s EndDate=%s resultfolder=R/c19_%d" % (ln, end, i))
    lf = os.path.join(ctx.work, "c19_lines.txt")
    with open(lf, "w") as f:
        f.write("\n".join(lines) + "\n")
    synth, runs, days, every = (8000, 300, 3000, 40) if ctx.thorough else (400, 16, 2000, 8)
    return waterlib.run_harness(ctx, "c19", ["-seed", str(ctx.seed), "-synth", str(synth), "-runs", str(runs), "-days", str(days),
                                             "-work", ex, "-lines", lf, "-every", str(every)], timeout=3000)


def correspond(ctx):
    c = Corr()
    rc, rows, oracle_lines, other, err = _run(ctx)
    if rc != 0:
        c.mismatches.append({"kind": "harness-crash", "stderr": err[-1500:]})
        return c
    cases = [x for x in rows if x["k"] == "soiltemp"]
    inits = [x for x in rows if x["k"] == "init"]
    runs = [x for x in rows if x["k"] == "run"]
    for r_ in runs:
        if not r_["success"] or r_["days"] == 0:
            c.mismatches.append({"kind": "traced-run-failed", "run": r_})
    for x in rows:
        if x["k"] == "replaydiff":
            c.mismatches.append({"kind": "trace-replay-differs (state between the probes is not Soiltemp's alone)", "at": x})
    eval_cases(ctx, c, cases, inits)
    seen = set()
    for cs in cases:
        i, o = cs["in"], cs["out"]
        key = (i["lai"], i["rad"], tuple(i["wg"]), tuple(i["tsoil0"]))
        if key not in seen and o["tsoil0"][1:-1] != i["tsoil0"][1:-1]:
            seen.add(key)
        c.bump("layers=%d" % i["n"])
        fh = lambda x: float.fromhex(x) if x[0] in "-0" else float(x.replace("infinity", "inf").replace("neg_", "-"))
        c.bump("surface=" + ("mean-of-tmin-tmax" if fh(o["surf"]) == (fh(i["tmin"]) + fh(i["tmax"])) / 2 else "albedo-mix"))
        c.bump("canopy=" + ("closed(LAI>=3)" if fh(i["lai"]) >= 3 else "open"))
        c.bump("tag=" + re.sub(r"\d+", "", i["tag"].split("-")[0]) + ("-" + "-".join(i["tag"].split("-")[1:]) if "-" in i["tag"] else ""))
    c.nontrivial = len(seen)
    synth_runs = [x for x in rows if x["k"] == "synthrun"]
    ctx.extra["traced_runs"] = len(runs)
    ctx.extra["traced_days"] = sum(r_["days"] for r_ in runs)
    ctx.extra["traced_bd_range"] = [min([r_.get("minbd", 9) for r_ in runs] or [0]), max([r_.get("maxbd", 0) for r_ in runs] or [0])]
    ctx.extra["f17_bd_0.3_run"] = [{"failed": x["failed"], "first_nonfinite_day": x["first_nonfinite_day"]} for x in synth_runs if x["bdmode"] == 3]
    ctx.extra["synthetic_runs"] = len(synth_runs)
    ctx.extra["synthetic_run_days"] = sum(x["days"] for x in synth_runs)
    c.samples = [{k: (v if not isinstance(v, list) else v[:4]) for k, v in cases[j]["in"].items()} for j in (0, len(cases) // 2)] if cases else []
    return c


def oracle(ctx, search):
    rc, rows, oracle_lines, other, err = _run(ctx)
    fails = []
    if rc != 0:
        fails.append(Fail(key="harness-crash", what="Soiltemp run aborted", stderr=err[-800:]))
    for l in oracle_lines:
        fails.append(Fail(key=l.split(" ")[0][:90], what=l[:600]))
    return fails
