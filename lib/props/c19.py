"""C19 — soil temperature stays within the envelope of its boundary temperatures (DESIGN.md §6 C19)."""
import os, re
from core import Corr, Fail
from props import waterlib
from props.waterlib import fl, fls

PROP_FILES = ["Prop_C19"]
RULE = ("synthetic Soiltemp calls (1-20 layers, horizons, class / measured / organic bulk densities, humus 0-0.6, water "
        "content 0.01-0.6, bare soil with high radiation (albedo branch), canopy, negative LAI, other grid spacing and "
        "time step, linear and random start profiles), sampled days of synthetic multi-year runs and of traced real runs; "
        "a case is non-trivial when its inputs are distinct and some interior layer temperature changes")
TRUSTED = ["binary64 semantics of Go on amd64 (no fused multiply-add) = Coq primitive floats",
           "math.Exp / math.Pow(x,1.5) are oracles: the theorems use only 0 <= exp(-50*p) <= 1; the harness evaluates them at "
           "the arguments the model computes (argument bits compared)",
           "R->F gap: envelope proved in exact real arithmetic; at binary64 checked on every traced/synthetic day with "
           "tolerance 1e-9*(1+scale)"]
ASSUMPTIONS = ["bulk density 0.567 <= BD <= 2.3 g/cm3, HUMUS >= 0, WG >= 0, DT = 1, DZ = 10 (hypotheses of the envelope theorem; "
               "below 0.567 the theorem is refuted: F17)",
               "the surface value is whatever soiltemp.go:41-45 imposes (it may exceed TMAX when 0.0003*radiat > 1); the "
               "envelope is taken over the imposed values"]
LEVEL_TEXT = ("Coq proof over the reals that the explicit scheme of Soiltemp (24 hourly steps, daily means carried over) keeps "
              "every layer temperature between the minimum and maximum of the start profile, TBASE and all surface values "
              "imposed so far, for every layer count and every run length (induction over layers, hours and days), given "
              "the diffusion number bound 0 <= r < 1/2 which is proved from 0.567 <= BD <= 2.3, HUMUS >= 0, WG >= 0; "
              "the same Gallina definition runs on binary64 and is compared bit for bit with hermes.Soiltemp; the envelope "
              "is evaluated on the real code on synthetic multi-year runs and traced real runs.")
LEVEL_NOTE = ("Trusted: Coq kernel/vm_compute, Reals axioms of the standard library, primitive floats; exp/pow enter as oracle "
              "values; no rounding-error bound between the real and binary64 semantics (oracle tolerance 1e-9). "
              "diffusion_number_refuted: BD = 0.3 gives r < 0 (F17, known finding).")
TECHNIQUE = "Coq proof (convex-combination invariant, induction over layers/hours/days, nra) + bit-exact kernel correspondence + envelope oracle on runs"

HDR = ["From Coq Require Import ZArith List Bool Floats.", "From Hermes Require Import Num SoilTempModel C01Corr C19Corr.",
       "Import ListNotations.", "Open Scope float_scope."]
GROUPS = ["surface", "HEATCOND", "HEATCAP", "TDSUM", "TD", "TSOIL0", "TSOIL1", "oracle-arguments"]

# batch lines for traced runs (shipped examples, scratch copy)
TRACE = [
    ("project=ex1 WeatherFolder=historical soilId=075 fcode=109_120 plotNr=10001 Altitude=73 Latitude=52.6732 poligonID=29872", "EN"),
    ("project=zuc WeatherFolder=historical fcode=109_120 plotNr=10001 soilId=001 Altitude=73 Latitude=52.6732 poligonID=29872 ETpot=4", "DE"),
    ("project=bulk WeatherFolder=historical soilId=002 fcode=109_120 plotNr=10001 Altitude=73 Latitude=52.6732 poligonID=29872", "EN"),
    ("project=ex3 WeatherFolder=historical soilId=075 fcode=109_120 plotNr=10001 Altitude=73 Latitude=52.6732 poligonID=29872 ETpot=2", "EN"),
    ("project=rue WeatherFolder=historical fcode=109_121 plotNr=10002 soilId=001 Altitude=46 Latitude=52.6431 poligonID=30169", "DE"),
    ("project=ex1 WeatherFolder=historical soilId=160 fcode=109_120 plotNr=10002 Altitude=73 Latitude=52.6728 poligonID=29873 ETpot=1", "EN"),
    ("project=myP WeatherFolder=historical soilId=075 plotNr=10001 Altitude=73 Latitude=52.6732 poligonID=29872 ETpot=2", "EN"),
    ("project=ex1 WeatherFolder=historical soilId=041 fcode=109_121 plotNr=10001 Altitude=73 Latitude=52.6680 poligonID=29876 ETpot=4", "EN"),
]


def case_record(c):
    i, a, o = c["in"], c["args"], c["out"]
    return ("({| d_lai := %s; d_rad := %s; d_eta := %s; d_temp := %s; d_tmin := %s; d_tmax := %s; d_tbase := %s; d_dt := %s; "
            "d_dz := %s; d_elai := %s; d_layers := mk_layers %s %s %s %s %s |}, %s, "
            "{| ob_surf := %s; ob_heatcond := %s; ob_heatcap := %s; ob_tdsum := %s; ob_td := %s; ob_tsoil0 := %s; "
            "ob_tsoil1 := %s; ob_elai_arg := %s; ob_pw_args := %s; ob_ex_args := %s |})"
            % (fl(i["lai"]), fl(i["rad"]), fl(i["eta"]), fl(i["temp"]), fl(i["tmin"]), fl(i["tmax"]), fl(i["tbase"]),
               fl(i["dt"]), fl(i["dz"]), fl(i["elai"]), fls(i["bd"]), fls(i["wg"]), fls(i["hum"]), fls(i["pw"]), fls(i["ex"]),
               fls(i["tsoil0"]), fl(o["surf"]), fls(o["heatcond"]), fls(o["heatcap"]), fls(o["tdsum"]), fls(o["td"]),
               fls(o["tsoil0"]), fls(o["tsoil1"]), fl(a["elai"]), fls(a["pw"]), fls(a["ex"])))


def parse_M(o):
    """(ok, pairs): anything other than `M = []` or a list of (nat, nat) pairs is not ok"""
    m = re.search(r"M\s*=\s*(.*?)\s*:\s*list \(nat \* nat\)", o, re.S)
    if not m:
        return False, []
    body = m.group(1).strip()
    if body == "[]":
        return True, []
    pairs = re.findall(r"\(\s*(\d+)(?:%nat)?\s*,\s*(\d+)(?:%nat)?\s*\)", body)
    return bool(pairs), [(int(a), int(b)) for a, b in pairs]


def eval_cases(ctx, corr, cases, inits, shard=40):
    ok, out = ctx.coq_make(["C19Corr"])      # the driver builds only Prop_C19 and what it imports
    if not ok:
        corr.mismatches.append({"kind": "coq-build C19Corr", "output": out[-1500:]})
        return corr
    recs = [case_record(c) for c in cases]
    items = []
    for k in range(0, len(recs), shard):
        body = HDR + ["Definition cases : list (day_in float * list float * soiltemp_obs) := [\n%s\n]." % ";\n".join(recs[k:k + shard]),
                      "Definition M := Eval vm_compute in mismatches soiltemp_check %d%%nat cases." % k, "Print M."]
        items.append(("Cases_soiltemp_%d" % (k // shard), "\n".join(body) + "\n"))
    if inits:
        irecs = ["(%s, %s, %s, %d%%nat, %s)" % (fl(c["tmin"]), fl(c["tmax"]), fl(c["tbase"]), c["n"], fls(c["tsoil0"])) for c in inits]
        body = HDR + ["Definition cases : list (float * float * float * nat * list float) := [\n%s\n]." % ";\n".join(irecs),
                      "Definition M := Eval vm_compute in mismatches init_check 0%nat cases.", "Print M."]
        items.append(("Cases_soiltemp_init", "\n".join(body) + "\n"))
    for nm, rc, o in ctx.coq_eval_many(items, timeout=900):
        ok, pairs = parse_M(o)
        if rc != 0 or not ok:
            corr.mismatches.append({"kind": "coq-eval", "shard": nm, "output": o[-1200:]})
            continue
        for idx, mask in pairs:
            if nm == "Cases_soiltemp_init":
                corr.mismatches.append({"kind": "init-profile", "case": inits[idx]})
            else:
                corr.mismatches.append({"kind": "soiltemp-kernel", "case": idx, "tag": cases[idx]["in"]["tag"],
                                        "differs": [GROUPS[j] for j in range(8) if mask >> j & 1], "input": cases[idx]["in"]})
    corr.cases += len(recs) + len(inits)
    return corr


CLASS_DENSITY = {1: 1.1, 2: 1.3, 3: 1.5, 4: 1.7, 5: 1.85}      # only for naming a failing input after its soil file


def gen_soils(rnd, thorough):
    """soil profiles for whole runs: both readers (csv: project bulk, txt: project ex1), KA5 classes 1..5, measured
    densities (csv only), stone contents 0..95 %.  horizon = (lower boundary dm, class, measured string or None, stone %)"""
    soils = [
        {"reader": "csv", "hs": [(3, 3, "1.52", 0), (20, 5, None, 0)], "why": "class 5 subsoil"},
        {"reader": "csv", "hs": [(3, 3, None, 0), (20, 3, None, 70)], "why": "stony subsoil, class 3"},
        {"reader": "txt", "hs": [(2, 5, None, 10), (9, 1, None, 60), (20, 4, None, 95)], "why": "classes 5/1/4, stones up to 95 %"},
        {"reader": "txt", "hs": [(4, 2, None, 0), (16, 5, None, 0)], "why": "class 5 subsoil"},
        {"reader": "csv", "hs": [(3, 1, "0.3", 0), (20, 3, None, 0)], "why": "F17: measured density of an organic topsoil"},
        {"reader": "csv", "hs": [(3, 2, "1.41", 0), (20, 4, None, 20)], "why": "groundwater inside the profile (soil file level 8 dm)", "gw": "08"},
        {"reader": "csv", "hs": [(3, 2, "1.38", 0), (11, 4, None, 0), (20, 5, None, 10)], "why": "texture-table route (no FC/WP/PV columns)", "table": True},
        {"reader": "csv", "hs": [(3, 2, None, 0), (20, 3, None, 0)], "why": "drain at 8 dm inside the profile, share as a fraction", "drain": ("08", "0.8")},
        {"reader": "csv", "hs": [(3, 2, None, 0), (20, 3, None, 0)], "why": "drain at 8 dm inside the profile, share in percent", "drain": ("08", "80")},
        {"reader": "txt", "hs": [(3, 2, None, 0), (20, 3, None, 0)], "why": "drain at 8 dm inside the profile, share as a fraction", "drain": ("08", "0.8")},
        {"reader": "txt", "hs": [(3, 2, None, 0), (20, 3, None, 0)], "why": "drain at 8 dm inside the profile, share in percent", "drain": ("08", " 80")},
        {"reader": "txt", "hs": [(3, 1, None, 0), (12, 3, None, 0), (20, 5, None, 0)], "why": "texture-table route (no FC/WP/PV columns)", "table": True},
    ]
    for k in range(40 if thorough else 3):
        reader = "csv" if k % 2 == 0 else "txt"
        nh = rnd.randint(1, 4)
        n = rnd.choice([20, 20, rnd.randint(6, 20)])
        cuts = sorted(rnd.sample(range(1, n), min(nh - 1, n - 1))) + [n]
        hs = []
        for u in cuts:
            m = None
            if reader == "csv" and rnd.random() < 0.5:
                m = rnd.choice(["0.567", "2.3", "%.2f" % rnd.uniform(0.567, 2.3), "%.3f" % rnd.uniform(0.6, 2.0), "%.1f" % rnd.uniform(0.6, 2.3)])
            hs.append((u, rnd.randint(1, 5), m, rnd.choice([0, 0, 5, 30, 62, 70, 85, 95, rnd.randint(0, 95)])))
        soils.append({"reader": reader, "hs": hs, "why": "random"})
    for i, so in enumerate(soils):
        so["sid"] = "S%02d" % i if so["reader"] == "csv" else "%03d" % (900 + i)
        so["input_density"] = [float(m) if m is not None else CLASS_DENSITY[c] for (_, c, m, _) in so["hs"]]
    return soils


def write_soils(ex, soils):
    csvp = os.path.join(ex, "project", "bulk", "soil_bulk.csv")
    txtp = os.path.join(ex, "project", "ex1", "soil_ex1.txt")
    with open(csvp, "a") as fc, open(txtp, "a") as ft:
        fc.write("\n"); ft.write("\n")
        for so in soils:
            nh = len(so["hs"])
            for k, (u, c, m, st) in enumerate(so["hs"]):
                if so["reader"] == "csv":
                    # SID,C_org,Texture,LayerDepth,BulkDensityClass,BulkDensity,Stone,C/N,C/S,RootDepth,NumberHorizon,FC,WP,PV,Sand,Silt,Clay,DrainageDepth,Drainage%,GW
                    fwp = (",,", ",,") if so.get("table") else ("20,09,40", "18,09,40")   # no FC/WP/PV columns: texture-table route
                    dr = so.get("drain", ("20", "00"))                                      # drainage depth (dm), share (fraction or percent)
                    if k == 0:
                        fc.write("%s,0.70,SL3,%02d,%d,%s,%02d,10,00,05,%02d,%s,78,13,09,%s,%s,%s\n" % (so["sid"], u, c, m or "", st, nh, fwp[0], dr[0], dr[1], so.get("gw", "99")))
                    else:
                        fc.write("%s,0.31,SL3,%02d,%d,%s,%02d,10,00,,,%s,77,13,10,20,00,   \n" % (so["sid"], u, c, m or "", st, fwp[1]))
                else:
                    # fixed columns: [0:3] SID [4:8] Corg [9:12] texture [13:15] depth [16:17] class [18:20] stone ... [32:34] root depth [35:37] horizons
                    f1, f2 = ("        ", "        ") if so.get("table") else ("31 16 45", "29 19 45")
                    dr = so.get("drain", ("20", "00"))
                    if k == 0:
                        ft.write("%s 1.14 ULS %02d %d %02d 10      00 05 %02d   %s 26 63 11 00  %s   %-3s%s 01\n" % (so["sid"], u, c, st, nh, f1, dr[0], dr[1], "99"))
                    else:
                        ft.write("%s 0.40 ULS %02d %d %02d 10      00         %s 26 63 11 00  20   00       \n" % (so["sid"], u, c, st, f2))


def write_weather(ex, rnd):
    """weather scenarios next to weather/historical: 'radgap' = global radiation missing (none value 999.9 of the
    example configs) in runs of 1, 2 and 5 days, also on the first and last day of the file; 'sunonly' = no globrad
    column at all, a sunshine-hours column instead"""
    src = os.path.join(ex, "weather", "historical")
    info = {}
    for scen in ("radgap", "sunonly"):
        dst = os.path.join(ex, "weather", scen)
        os.makedirs(dst, exist_ok=True)
        for fn in sorted(os.listdir(src)):
            if not fn.endswith(".csv"):
                continue
            lines = open(os.path.join(src, fn)).read().split("\n")
            hdr = lines[0].split(",")
            if "globrad" not in hdr:
                continue
            gi = hdr.index("globrad")
            rows = [ln.split(",") for ln in lines[2:] if ln.strip()]
            if scen == "radgap":
                gaps = {1: 0, 2: 0, 5: 0}
                starts = [0, len(rows) - 1] + [rnd.randrange(10, min(len(rows), 1800) - 10) for _ in range(60)]
                for k, st in enumerate(starts):
                    ln_ = 1 if k < 2 else (1, 2, 5)[k % 3]
                    for j in range(st, min(st + ln_, len(rows))):
                        rows[j][gi] = "999.9"
                    gaps[ln_] += 1
                # the mean temperature missing on isolated single days (the loader closes them from the neighbours)
                ti = hdr.index("tavg")
                for st in range(40, min(len(rows), 1800) - 10, 97):
                    rows[st][ti] = "999.9"
                info[fn] = gaps
                out = lines[:2] + [",".join(r) for r in rows]
                # the same gaps with a NEGATIVE none value (WeatherNoneValue=-99.9 on the batch line)
                os.makedirs(os.path.join(ex, "weather", "radgapneg"), exist_ok=True)
                open(os.path.join(ex, "weather", "radgapneg", fn), "w").write(
                    "\n".join(lines[:2] + [",".join("-99.9" if v == "999.9" else v for v in r) for r in rows]) + "\n")
            else:
                hdr2 = list(hdr); hdr2[gi] = "sunhours"
                units = lines[1].split(","); units[gi] = "h"
                for r in rows:
                    r[gi] = "%.1f" % min(15.0, max(0.0, float(r[gi]) / 2))
                out = [",".join(hdr2), ",".join(units)] + [",".join(r) for r in rows]
            open(os.path.join(dst, fn), "w").write("\n".join(out) + "\n")
    # the same data with the columns in another order and with extra columns whose names CONTAIN the name of a column the
    # loader reads (relhumid_tmin/_tmax are in the shipped files; tmax_night, precip_corr, globrad_clear, tavg_soil added):
    # a column is identified by its exact header name
    for scen in ("colalpha", "colrev", "colrand"):
        dst = os.path.join(ex, "weather", scen)
        os.makedirs(dst, exist_ok=True)
        for fn in sorted(os.listdir(src)):
            if not fn.endswith(".csv"):
                continue
            lines = open(os.path.join(src, fn)).read().split("\n")
            hdr, units = lines[0].split(","), lines[1].split(",")
            if "globrad" not in hdr or len(units) != len(hdr):
                continue
            rows = [ln.split(",") for ln in lines[2:] if ln.strip()]
            ix = {h: i for i, h in enumerate(hdr)}
            extra = {"tmax_night": lambda r: "%.1f" % (float(r[ix["tmax"]]) + 40), "precip_corr": lambda r: "%.1f" % (float(r[ix["precip"]]) + 7),
                     "globrad_clear": lambda r: "%.1f" % (float(r[ix["globrad"]]) + 30), "tavg_soil": lambda r: "%.1f" % (float(r[ix["tavg"]]) + 25)}
            names = hdr + sorted(extra)
            if scen == "colalpha":
                order = sorted(names)
            elif scen == "colrev":
                order = sorted(names, reverse=True)
            else:
                order = names[:]
                rnd.shuffle(order)
                # make sure a containing name stands before the contained one
                for big, small in (("relhumid_tmin", "tmin"), ("tmax_night", "tmax"), ("precip_corr", "precip"), ("tavg_soil", "tavg")):
                    a_, b_ = order.index(big), order.index(small)
                    if a_ > b_:
                        order[a_], order[b_] = order[b_], order[a_]
            val = lambda r, nme: r[ix[nme]] if nme in ix else extra[nme](r)
            out = [",".join(order), ",".join(units[ix[nme]] if nme in ix else "-" for nme in order)] + \
                  [",".join(val(r, nme) for nme in order) for r in rows if len(r) == len(hdr)]
            open(os.path.join(dst, fn), "w").write("\n".join(out) + "\n")
            info[scen + "/" + fn] = order
    return info


def write_automan(ex, rnd):
    """the automatic-sowing tables get a non-zero 'Tbase' column (base temperature of the sowing temperature sum,
    automan.txt[74:76]) that differs from every configured annual mean temperature: it must never reach TBASE"""
    done = {}
    for proj in sorted(os.listdir(os.path.join(ex, "project"))):
        p = os.path.join(ex, "project", proj, "automan.txt")
        if not os.path.exists(p):
            continue
        lines = open(p).read().split("\n")
        vals = []
        for i, ln in enumerate(lines[1:], 1):
            if len(ln) > 76 and ln[:3].strip():
                v = rnd.choice([2, 3, 4, 5, 12, 15])
                lines[i] = ln[:74] + "%-2d" % v + ln[76:]
                vals.append(v)
        open(p, "w").write("\n".join(lines))
        done[proj] = vals
    return done


def plan_runs(ctx):
    """(examples dir, [{line, soil or None}])"""
    import json, random
    ex = waterlib.prepare_examples(ctx, extreme_rain=False)
    mark = os.path.join(ex, ".c19.json")
    if os.path.exists(mark):
        return ex, json.load(open(mark))
    nl, endy = (8, 2000) if ctx.thorough else (3, 1982)
    plan = []
    csv_weather = lambda ln: " @weather-ref=csv" if re.search(r"project=(ex1|zuc|bulk|ex3) ", ln) and "fcode=" in ln else ""
    for i, (ln, fmt) in enumerate(TRACE[:nl]):
        end = ("1231%d" if fmt == "EN" else "3112%d") % endy
        plan.append({"line": "%s EndDate=%s resultfolder=R/c19_%d%s" % (ln, end, i, csv_weather(ln)), "soil": None})
    rnd = random.Random(ctx.seed)
    write_weather(ex, rnd)
    # weather with missing radiation: the surface value must be the one a correct normalisation (missing -> 0) gives
    scen = [("ex1", "EN", "radgap", "109_120", "soilId=075 plotNr=10001"), ("bulk", "EN", "sunonly", "109_121", "soilId=005 plotNr=10002"),
            ("ex1", "EN", "colalpha", "109_120", "soilId=075 plotNr=10002"), ("zuc", "DE", "colrand", "109_121", "soilId=001 plotNr=10001"),
            ("zuc", "DE", "radgap", "109_121", "soilId=001 plotNr=10002"), ("ex1", "EN", "sunonly", "109_120", "soilId=160 plotNr=10002"),
            ("bulk", "EN", "colrev", "109_120", "soilId=002 plotNr=10001")]
    for k, (proj, fmt, folder, fcode, rest) in enumerate(scen if ctx.thorough else scen[:5]):
        end = ("1231%d" if fmt == "EN" else "3112%d") % (1995 if ctx.thorough else 1981)
        plan.append({"line": "project=%s WeatherFolder=%s fcode=%s %s Altitude=73 Latitude=52.6732 poligonID=29872 EndDate=%s resultfolder=R/c19_%d "
                             "@every=%d @weather-ref=csv" % (proj, folder, fcode, rest, end, len(plan), 60 if ctx.thorough else 24),
                     "soil": None, "weather": folder})
    # configuration sweep: ONE key (or one pair of switches) away from the project's configuration per run
    pz = os.path.join(ex, "project", "zuc", "poly_zuc.txt")        # groundwater oscillating inside the profile
    ptxt = open(pz).read()
    open(pz, "w").write(re.sub(r"(?m)^(10001\s+\S+\s+\S+\s+)\S+(\s+)\S+", r"\g<1>7\g<2>13", ptxt))
    e1 = "project=ex1 WeatherFolder=historical soilId=075 fcode=109_120 plotNr=10001 Altitude=73 Latitude=52.6732 poligonID=29872"
    e1b = "project=ex1 WeatherFolder=historical soilId=160 fcode=109_121 plotNr=10002 Altitude=73 Latitude=52.6728 poligonID=29873"
    # a real precipitation correction table in every weather folder (only read with CorrectionPrecipitation=1)
    for folder in ("historical", "MUN"):
        if os.path.isdir(os.path.join(ex, "weather", folder)):
            open(os.path.join(ex, "weather", folder, "preco.txt"), "w").write(
                "Mo corr\n" + "".join("%02d %4.2f\n" % (m_, f_) for m_, f_ in enumerate([1.24, 1.22, 1.2, 1.14, 1.1, 1.08, 1.08, 1.08, 1.1, 1.12, 1.18, 1.22], 1)))
    sweep = [(e1 + " AutoIrrigation=1", "EN", 1981, True, "AutoIrrigation=1"),
             (e1 + " CorrectionPrecipitation=1", "EN", 1981, True, "CorrectionPrecipitation=1 with preco.txt, csv weather"),
             ("project=rue WeatherFolder=historical fcode=109_121 plotNr=10002 soilId=001 Altitude=46 Latitude=52.6431 poligonID=30169 CorrectionPrecipitation=1", "DE", 1981, False,
              "CorrectionPrecipitation=1 with preco.txt, .w6d weather"),
             ("project=MUN WeatherFolder=MUN soilId=001 fcode=NEU plotNr=00001 Altitude=55 Latitude=54.00 poligonID=MUN parameter=./parameter StartYear=2009 CorrectionPrecipitation=1", "DE0531", 2010, False,
              "CorrectionPrecipitation=1 with preco.txt, one weather file per year"),
             ("project=bulk WeatherFolder=historical soilId=002 fcode=109_120 plotNr=10001 Altitude=73 Latitude=52.6732 poligonID=29872 AutoIrrigation=0", "EN", 1981, True, "AutoIrrigation=0"),
             (e1 + " InitSelection=1", "EN", 1981, True, "InitSelection=1"), (e1 + " InitSelection=2", "EN", 1981, True, "InitSelection=2"),
             ("project=rue WeatherFolder=historical fcode=109_121 plotNr=10002 soilId=001 Altitude=46 Latitude=52.6431 poligonID=30169", "DE", 1981, False, "WeatherFileFormat 2 (.w6d)"),
             ("project=MUN WeatherFolder=MUN soilId=001 fcode=NEU plotNr=00001 Altitude=55 Latitude=54.00 poligonID=MUN parameter=./parameter StartYear=2009", "DE0531", 2011, False,
              "WeatherFileFormat 0 (one file per year), StartYear=2009"),
             ("project=zuc WeatherFolder=historical fcode=109_120 plotNr=10001 soilId=001 Altitude=73 Latitude=52.6732 poligonID=29872", "DE", 1981, True,
              "polygon-file groundwater 7..13 dm inside the profile"),
             (e1.replace("WeatherFolder=historical", "WeatherFolder=radgapneg") + " WeatherNoneValue=-99.9", "EN", 1981, True, "WeatherNoneValue=-99.9 with missing radiation / tavg"),
             (e1 + " AnnualAverageTemperature=6.1 @session=1", "EN", 1981, True, "two runs in one session (1/2)"), (e1b + " @session=1", "EN", 1981, True, "two runs in one session (2/2)"),
             (e1b + " @session=2", "EN", 1981, True, "two runs in one session, other order (1/2)"),
             (e1 + " AnnualAverageTemperature=6.1 @session=2", "EN", 1981, True, "two runs in one session, other order (2/2)")]
    for base, fmt, ey, ref, why in sweep:
        end = "3105%d" % ey if fmt == "DE0531" else ("1231%d" if fmt == "EN" else "3112%d") % ey
        plan.append({"line": "%s EndDate=%s resultfolder=R/c19_%d @every=%d%s" % (base, end, len(plan), 60 if ctx.thorough else 30, " @weather-ref=csv" if ref else ""),
                     "soil": None, "weather": "radgapneg" if "radgapneg" in base else "historical", "sweep": why})
    # lower boundary: TBASE is the CONFIGURED annual mean temperature with automatic sowing on and off
    write_automan(ex, rnd)
    tb = [("ex1", "EN", "109_120", "soilId=075 plotNr=10001 AutoSowingHarvest=1", None),
          ("ex3", "EN", "109_120", "soilId=075 plotNr=10001 AnnualAverageTemperature=%.1f" % rnd.uniform(4, 7.5), "on"),
          ("zuc", "DE", "109_120", "soilId=001 plotNr=10001 AutoSowingHarvest=0 AnnualAverageTemperature=%.1f" % rnd.uniform(9.5, 13), "off"),
          ("ex1", "EN", "109_121", "soilId=160 plotNr=10002 AutoSowingHarvest=0 AnnualAverageTemperature=10.4", "off")]
    for k, (proj, fmt, fcode, rest, _) in enumerate(tb if ctx.thorough else tb[:3]):
        end = ("1231%d" if fmt == "EN" else "3112%d") % (1990 if ctx.thorough else 1981)
        plan.append({"line": "project=%s WeatherFolder=historical fcode=%s %s Altitude=73 Latitude=52.6732 poligonID=29872 EndDate=%s resultfolder=R/c19_%d "
                             "@every=%d @weather-ref=csv" % (proj, fcode, rest, end, len(plan), 60 if ctx.thorough else 24),
                     "soil": None, "weather": "historical", "tbase": rest})
    soils = gen_soils(rnd, ctx.thorough)
    write_soils(ex, soils)
    for so in soils:
        base = ("project=bulk WeatherFolder=historical soilId=%s fcode=109_120 plotNr=10002 Altitude=73 Latitude=52.6732 poligonID=29872"
                if so["reader"] == "csv" else
                "project=ex1 WeatherFolder=historical soilId=%s fcode=109_120 plotNr=10001 Altitude=73 Latitude=52.6732 poligonID=29872") % so["sid"]
        plan.append({"line": "%s EndDate=12311981 resultfolder=R/c19_%d @every=%d @weather-ref=csv" % (base, len(plan), 60 if ctx.thorough else 16), "soil": so})
    # texture-table route soils under a MOVING groundwater table (the capacities are re-derived per layer whenever the level
    # changes, run.go:375-412): polygon-file sinusoid and a series, csv and txt soil; the density tie holds on every day
    import datetime
    for proj, fmt_ in (("bulk", "%m%d%Y"), ("ex1", "%m%d%Y")):
        pp = os.path.join(ex, "project", proj, "poly_%s.txt" % proj)
        ptxt = open(pp).read()
        open(pp, "w").write(re.sub(r"(?m)^(\d+\s+\S+\s+\S+\s+)\S+(\s+)\S+", r"\g<1>6\g<2>15", ptxt))
        with open(os.path.join(ex, "project", proj, "gw_%s.csv" % proj), "w") as f:
            f.write("SID,DATE,Level\n")
            for so in soils:
                if so.get("table"):
                    d = datetime.date(1980, 9, 1)
                    while d < datetime.date(1982, 2, 1):
                        f.write("%s,%s,%.1f\n" % (so["sid"], d.strftime(fmt_), rnd.uniform(5, 16)))
                        d += datetime.timedelta(days=rnd.randint(10, 50))
    for so in soils:
        if not so.get("table"):
            continue
        for src, name in ((0, "polygon-file sinusoid 6..15 dm"), (2, "series 5..16 dm")):
            base = ("project=bulk WeatherFolder=historical soilId=%s fcode=109_120 plotNr=10002 Altitude=73 Latitude=52.6732 poligonID=29872"
                    if so["reader"] == "csv" else
                    "project=ex1 WeatherFolder=historical soilId=%s fcode=109_120 plotNr=10001 Altitude=73 Latitude=52.6732 poligonID=29872") % so["sid"]
            plan.append({"line": "%s GroundWaterFrom=%d EndDate=12311981 resultfolder=R/c19_%d @every=%d @weather-ref=csv" % (base, src, len(plan), 60 if ctx.thorough else 30),
                         "soil": so, "moving_gw": name})
    # the same tie and oracle with the pedotransfer routes PTF = 1..4 (non-default water-retention source): csv soils with a
    # measured density and class-only horizons, txt soils (class only)
    adm = [so for so in soils if min(so["input_density"]) >= 0.567]
    pick = [so for so in adm if so["reader"] == "csv"][:2] + [so for so in adm if so["reader"] == "txt"][:2]
    for k in range(8 if ctx.thorough else 4):
        so = pick[k % len(pick)] if not ctx.thorough or k < 4 else adm[(5 + k) % len(adm)]
        ptf = k % 4 + 1
        base = ("project=bulk WeatherFolder=historical soilId=%s fcode=109_120 plotNr=10002 Altitude=73 Latitude=52.6732 poligonID=29872"
                if so["reader"] == "csv" else
                "project=ex1 WeatherFolder=historical soilId=%s fcode=109_120 plotNr=10001 Altitude=73 Latitude=52.6732 poligonID=29872") % so["sid"]
        plan.append({"line": "%s PTF=%d EndDate=12311981 resultfolder=R/c19_%d @every=%d @weather-ref=csv" % (base, ptf, len(plan), 60 if ctx.thorough else 24),
                     "soil": so, "ptf": ptf})
    json.dump(plan, open(mark, "w"))
    return ex, plan


def _run(ctx):
    ex, plan = plan_runs(ctx)
    lf = os.path.join(ctx.work, "c19_lines.txt")
    with open(lf, "w") as f:
        f.write("\n".join(p["line"] for p in plan) + "\n")
    synth, runs, days, every = (8000, 300, 3000, 40) if ctx.thorough else (400, 16, 2000, 8)
    res = waterlib.run_harness(ctx, "c19", ["-seed", str(ctx.seed), "-synth", str(synth), "-runs", str(runs), "-days", str(days),
                                            "-work", ex, "-lines", lf, "-every", str(every)], timeout=3000)
    return res + (plan,)


def dec_lit(m):
    """decimal string of the soil file -> the float strconv.ParseFloat yields: m*10^-k as one correctly rounded division"""
    ip, _, fp = m.partition(".")
    return "(dec %d%%Z %d%%nat)" % (int(ip + fp), len(fp))


def eval_bd(ctx, corr, inits, plan, bddays=()):
    """g.BD of every 10-cm layer after Input against the soil file of the generated runs"""
    recs, meta = [], []
    for it in list(inits) + [dict(x, bulk=[], ld=[], ukt=[], stein=[]) for x in bddays]:
        so = plan[it["line"]]["soil"]
        if so is None:
            continue
        hs = "[" + "; ".join("(%d%%Z, %d%%Z, %s)" % (u, c, "Some " + dec_lit(m) if m is not None else "None") for (u, c, m, st) in so["hs"]) + "]"
        recs.append("(%s, %s)" % (hs, fls(it["bd"])))
        meta.append({"soil": so, "observed_bd": [float.fromhex(x) for x in it["bd"]], "bulk": [float.fromhex(x) for x in it["bulk"]],
                     "ld": it["ld"], "ukt": it["ukt"], "stein": [float.fromhex(x) for x in it["stein"]]})
    if not recs:
        corr.mismatches.append({"kind": "coverage-missing", "what": "no generated-soil run reached the day loop"})
        return
    body = HDR + ["Definition cases : list (list (Z * Z * option float) * list float) := [\n%s\n]." % ";\n".join(recs),
                  "Definition M := Eval vm_compute in mismatches bd_check 0%nat cases.", "Print M."]
    rc, o = ctx.coq_eval("Cases_soiltemp_bd", "\n".join(body) + "\n", timeout=600)
    ok, pairs = parse_M(o)
    if rc != 0 or not ok:
        corr.mismatches.append({"kind": "coq-eval", "shard": "Cases_soiltemp_bd", "output": o[-1200:]})
        return
    for idx, _ in pairs:
        corr.mismatches.append(dict({"kind": "layer-bulk-density (g.BD is not the soil file's density of that horizon)"}, **meta[idx]))
    corr.cases += len(recs)
    for m in meta:
        corr.bump("soil-reader=" + m["soil"]["reader"])
        for (u, c_, ms, st) in m["soil"]["hs"]:
            corr.bump("horizon=" + ("measured" if ms is not None else "class%d" % c_))
            corr.bump("stones=" + ("0" if st == 0 else "1-49%" if st < 50 else "50-95%"))


def fail_key(line_key, plan):
    """name a failing traced run after its soil FILE: only an input density below 0.567 is the recorded finding F17"""
    m = re.match(r"(envelope|surface-value|lower-boundary|bulk-density):traced-line-(\d+)$", line_key)
    if not m or int(m.group(2)) >= len(plan):
        return line_key, None
    p = plan[int(m.group(2))]
    if m.group(1) == "bulk-density":
        return "bulk-density:changed-during-the-run:line-%s%s" % (m.group(2), ":" + p["moving_gw"].split(" ")[0] if p.get("moving_gw") else ""), p.get("soil")
    if m.group(1) == "lower-boundary":
        return "lower-boundary:not-the-configured-annual-mean:line-%s" % m.group(2), None
    if m.group(1) == "surface-value" or p["soil"] is None:
        return "%s:weather-%s:line-%s" % (m.group(1), p.get("weather", "historical"), m.group(2)), None
    so = p["soil"]
    lowest = min(so["input_density"])
    desc = "%s-reader:%s" % (so["reader"], "/".join("%s%s-stone%d" % ("bd" + ms if ms is not None else "class%d" % c, "", st) for (u, c, ms, st) in so["hs"]))
    if lowest < 0.567:
        return "bulk-density-below-0.567:input-density=%s" % lowest, so
    return "envelope:generated-soil:%s%s" % (desc, ":PTF=%d" % p["ptf"] if p.get("ptf") else ""), so


def correspond(ctx):
    c = Corr()
    rc, rows, oracle_lines, other, err, plan = _run(ctx)
    if rc != 0:
        c.mismatches.append({"kind": "harness-crash", "stderr": err[-1500:]})
        return c
    cases = [x for x in rows if x["k"] == "soiltemp"]
    inits = [x for x in rows if x["k"] == "init"]
    runs = [x for x in rows if x["k"] == "run"]
    for r_ in runs:
        if not r_["success"] or r_["days"] == 0:
            c.mismatches.append({"kind": "traced-run-failed", "run": r_})
    for x in rows:
        if x["k"] == "replaydiff":
            c.mismatches.append({"kind": "trace-replay-differs (state between the probes is not Soiltemp's alone)", "at": x})
    eval_cases(ctx, c, cases, inits)
    eval_bd(ctx, c, inits, plan, [x for x in rows if x["k"] == "bdday"])
    for r_ in runs:
        if r_.get("bd_changed_days"):
            c.mismatches.append({"kind": "layer-bulk-density changed during the run", "days": r_["bd_changed_days"], "line": plan[r_["line"]]["line"]})
    mv = [plan[r_["line"]] for r_ in runs if plan[r_["line"]].get("moving_gw") and r_["success"] and r_["days"] > 300]
    ctx.extra["table_route_soils_under_moving_groundwater"] = ["%s soil, %s" % (p_["soil"]["reader"], p_["moving_gw"]) for p_ in mv]
    if len({(p_["soil"]["reader"], p_["moving_gw"]) for p_ in mv}) < 4:
        c.mismatches.append({"kind": "coverage-missing", "what": "texture-table soils (csv, txt) x moving groundwater (sinusoid, series)"})
    seen = set()
    for cs in cases:
        i, o = cs["in"], cs["out"]
        key = (i["lai"], i["rad"], tuple(i["wg"]), tuple(i["tsoil0"]))
        if key not in seen and o["tsoil0"][1:-1] != i["tsoil0"][1:-1]:
            seen.add(key)
        c.bump("layers=%d" % i["n"])
        fh = lambda x: float.fromhex(x) if x[0] in "-0" else float(x.replace("infinity", "inf").replace("neg_", "-"))
        c.bump("surface=" + ("mean-of-tmin-tmax" if fh(o["surf"]) == (fh(i["tmin"]) + fh(i["tmax"])) / 2 else "albedo-mix"))
        c.bump("canopy=" + ("closed(LAI>=3)" if fh(i["lai"]) >= 3 else "open"))
        c.bump("tag=" + re.sub(r"\d+", "", i["tag"].split("-")[0]) + ("-" + "-".join(i["tag"].split("-")[1:]) if "-" in i["tag"] else ""))
    c.nontrivial = len(seen)
    synth_runs = [x for x in rows if x["k"] == "synthrun"]
    ctx.extra["weather_reference"] = {"days_checked_against_weather_file": sum(r_.get("weather_ref_days", 0) for r_ in runs),
                                      "days_with_missing_radiation": sum(r_.get("radiation_missing_days", 0) for r_ in runs),
                                      "scenario_runs": [{"weather": plan[r_["line"]].get("weather"), "days": r_["days"],
                                                         "radiation_missing_days": r_.get("radiation_missing_days")} for r_ in runs if plan[r_["line"]].get("weather")]}
    # TBASE of every traced run is the configured annual mean temperature
    trecs = ["(%s, %s)" % (fl(r_["tbase_configured"]), fls(r_.get("tbase_seen") or [])) for r_ in runs]
    if trecs:
        body = HDR + ["Definition cases : list (float * list float) := [\n%s\n]." % ";\n".join(trecs),
                      "Definition M := Eval vm_compute in mismatches tbase_check 0%nat cases.", "Print M."]
        rc_, o_ = ctx.coq_eval("Cases_soiltemp_tbase", "\n".join(body) + "\n", timeout=600)
        ok_, pairs_ = parse_M(o_)
        if rc_ != 0 or not ok_:
            c.mismatches.append({"kind": "coq-eval", "shard": "Cases_soiltemp_tbase", "output": o_[-1200:]})
        for idx, _ in pairs_:
            r_ = runs[idx]
            c.mismatches.append({"kind": "lower-boundary-temperature (g.TBASE is not the configured AnnualAverageTemperature)",
                                 "configured": r_["tbase_configured_value"], "from": r_["tbase_from"],
                                 "seen": [float.fromhex(v) for v in r_.get("tbase_seen") or []], "line": plan[r_["line"]]["line"]})
        c.cases += len(trecs)
    ctx.extra["lower_boundary"] = [{"line": r_["line"], "configured": r_["tbase_configured_value"], "from": r_["tbase_from"],
                                    "auto_sowing": ("AutoSowingHarvest=1" in plan[r_["line"]]["line"] and "on (batch line)") or
                                                   ("AutoSowingHarvest=0" in plan[r_["line"]]["line"] and "off (batch line)") or "project config"}
                                   for r_ in runs]
    if len({r_["tbase_configured_value"] for r_ in runs}) < 3:
        c.mismatches.append({"kind": "coverage-missing", "what": "fewer than three different configured annual mean temperatures"})
    for x in rows:
        if x["k"] == "noweatherref":
            c.mismatches.append({"kind": "weather-file-not-readable-by-the-reference", "line": plan[x["line"]]["line"]})
    ptf_runs = sorted({(plan[r_["line"]]["ptf"], plan[r_["line"]]["soil"]["reader"]) for r_ in runs if plan[r_["line"]].get("ptf") and r_["success"] and r_["days"] > 300})
    ctx.extra["ptf_runs"] = ["PTF=%d %s soil" % t for t in ptf_runs]
    if {t[0] for t in ptf_runs} != {1, 2, 3, 4} or {t[1] for t in ptf_runs} != {"csv", "txt"}:
        c.mismatches.append({"kind": "coverage-missing", "what": "traced runs with PTF 1..4 on csv and txt soils", "have": ctx.extra["ptf_runs"]})
    if not any(str(plan[r_["line"]].get("weather", "")).startswith("col") and r_.get("weather_ref_days", 0) > 300 for r_ in runs):
        c.mismatches.append({"kind": "coverage-missing", "what": "no traced run on a weather file with permuted / name-containing columns"})
    if not any(r_.get("radiation_missing_days", 0) > 0 for r_ in runs):
        c.mismatches.append({"kind": "coverage-missing", "what": "no traced day with missing global radiation"})
    ctx.extra["configuration_sweep"] = [{"what": plan[r_["line"]]["sweep"], "days": r_["days"], "run_error": r_["err"][:80],
                                         "days_checked_against_weather_file": r_.get("weather_ref_days", 0), "envelope_failed": r_.get("failed")}
                                        for r_ in runs if plan[r_["line"]].get("sweep")]
    ctx.extra["traced_runs"] = len(runs)
    ctx.extra["traced_days"] = sum(r_["days"] for r_ in runs)
    ctx.extra["traced_bd_range"] = [min([r_.get("minbd", 9) for r_ in runs] or [0]), max([r_.get("maxbd", 0) for r_ in runs] or [0])]
    ctx.extra["f17_bd_0.3_run"] = [{"failed": x["failed"], "first_nonfinite_day": x["first_nonfinite_day"]} for x in synth_runs if x["bdmode"] == 3]
    ctx.extra["synthetic_runs"] = len(synth_runs)
    ctx.extra["synthetic_run_days"] = sum(x["days"] for x in synth_runs)
    c.samples = [{k: (v if not isinstance(v, list) else v[:4]) for k, v in cases[j]["in"].items()} for j in (0, len(cases) // 2)] if cases else []
    return c


def oracle(ctx, search):
    rc, rows, oracle_lines, other, err, plan = _run(ctx)
    fails = []
    if rc != 0:
        fails.append(Fail(key="harness-crash", what="Soiltemp run aborted", stderr=err[-800:]))
    for l in oracle_lines:
        key, soil = fail_key(l.split(" ")[0], plan)
        f = Fail(key=key[:160], what=l[:600])
        if soil is not None:
            f["soil_file"] = {k: soil[k] for k in ("reader", "sid", "hs", "input_density", "why")}
        mm = re.search(r"traced-line-(\d+)", l)
        if mm and int(mm.group(1)) < len(plan):
            f["batch_line"] = plan[int(mm.group(1))]["line"]
        fails.append(f)
    return fails
