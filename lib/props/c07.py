"""C07 — nitrogen pools stay non-negative, organic/fertiliser bookkeeping is exact (DESIGN.md §6 C07)."""
import re
from core import Corr, Fail
from props import waterlib, nitrolib, c02

PROP_FILES = ["Prop_C07", "Prop_C07b"]
# Coq-Interval (used for the numeric bound of the Arrhenius constants at 60 degC) is taken as compiled by coqchk
COQCHK_ADMIT = ["Interval.Tactic"]
RULE = c02.RULE
TRUSTED = c02.TRUSTED + ["dead-root inputs of the crop module to the pools are taken as given (harvest residues are modelled: HarvestModel)"]
ASSUMPTIONS = ["pool non-negativity is proved under 0 <= kt <= 1 for the daily rate constants (oracle values); observed on every traced day",
               "permanent crops: the residue amounts are proved >= 0, not bounded by the crop's N (the code computes them from biomass and N content)"]
LEVEL_TEXT = ("Coq proof over the reals of the mineralisation bookkeeping identities (pool + counter invariant, both temperature "
              "branches), pool non-negativity under rate constants <= 1, dissolved <= applied fertiliser, non-negative mineral "
              "N after transport, and 'uptake and fixation are credited on the first sub-step only' for any number of "
              "sub-steps; bit-exact kernel correspondence as C02; pool/counter invariants and once-per-day crediting are "
              "evaluated on every traced day of real runs.")
LEVEL_NOTE = c02.LEVEL_NOTE
TECHNIQUE = "Coq proof (per-layer algebraic identities, lra/nra) + bit-exact kernel correspondence + trace oracle"

ORACLE_KEYS = ("uptake-credit", "uptake-credited-in-later-substep", "mineral-bookkeeping", "organic-pool-negative",
               "dissolved-exceeds-applied", "c1-negative", "state-not-finite", "fixation-credit",
               "tillage-mixing-not-conservative", "tillage-run-error", "booked-in-later-substep", "applied-fertiliser-decreases", "prognosis-dressing-removes-n", "crop-n-negative", "resprouting-creates-n", "per-crop-fixation", "harvest-run-error", "harvest-pool-not-finite-or-negative",
               "harvest-removes-organic-n", "harvest-residues-exceed-crop-n", "harvest-first-entry-books-residues", "crop-n-credit", "mineral-n-below-profile",
               "nitrified-exceeds-ammonium-applied", "n2o-counter-negative", "source-term-without-pool-loss")


def correspond(ctx):
    return c02.correspond(ctx)


def oracle(ctx, search):
    fails = []
    rc, cases, orc, other, err = waterlib.run_harness(ctx, "c02", c02._args(ctx))
    if rc != 0:
        fails.append(Fail(key="harness-crash", what="nitrogen kernel aborted", stderr=err[-800:]))
    trc, tcases, torc, terr = c02.n_trace(ctx)
    if trc != 0:
        fails.append(Fail(key="trace-crash", what="traced run aborted", stderr=terr[-800:]))
    for l in orc + torc:
        if l.startswith(ORACLE_KEYS):
            fails.append(Fail(key=re.sub(r"(value|before|after|naos|nfos|ums0|ums|dsumm|aufnasum-delta|sum-pe|dPESUM|dAUFNASUM|fast-before|slow-before|gain|crop-n|subd|pool-gain|crop-loss|reported|fixed-since-the-previous-harvest)=\S+", "", l)[:100].strip(), what=l))
    from props import daynlib
    fails += daynlib.oracle_day(ctx, daynlib.C07_KEYS) or []
    return fails
