#!/usr/bin/env python3
"""Confirms a seeded change and runs the checks against it, in a scratch worktree of /repo.

usage: seedtest.py <PROPERTY> <patch.diff> [--demo-test <file_test.go> | --demo-cmd '<shell cmd run in worktree>'] [--checks C01,C06] [--keep]

Steps (all in /tmp/seedwt_<pid>, removed afterwards together with /verif/.build/<key>):
  1. git worktree add (HEAD of /repo), git apply the patch, go build of every module
  2. the pinned suite (lib/baseline.py) must still pass
  3. the demonstration must FAIL with the change and PASS without it
  4. VERIF_REPO=<worktree> ./check <P> for the property (and any extra checks): records exit code and the VIOLATION line
Prints one JSON object.
"""
import argparse, hashlib, json, os, shutil, subprocess, sys, time

V = os.path.dirname(os.path.dirname(os.path.abspath(__file__)))
ENV = dict(os.environ, GOPROXY="off", GOSUMDB="off", GOTOOLCHAIN="local")


def sh(cmd, cwd=None, env=None, timeout=3600):
    p = subprocess.run(cmd, cwd=cwd, env=env or ENV, shell=isinstance(cmd, str), stdout=subprocess.PIPE,
                       stderr=subprocess.STDOUT, text=True, timeout=timeout)
    return p.returncode, p.stdout


def run_demo(wt, a):
    if a.demo_test:
        # the demonstration may come with helper files: every *_test.go beside it goes along
        import glob
        dsts = []
        for f in glob.glob(os.path.join(os.path.dirname(os.path.abspath(a.demo_test)), "*_test.go")):
            dst = os.path.join(wt, "hermes", os.path.basename(f))
            shutil.copy(f, dst); dsts.append(dst)
        tags = ("-tags %s " % a.demo_tags) if a.demo_tags else ""
        rc, out = sh("go test %s-vet=off -count=1 -run '%s' ." % (tags, a.demo_run or "Seed|seed|Zz|ZZ"), cwd=os.path.join(wt, "hermes"))
        for dst in dsts:
            os.remove(dst)
        return rc, out
    if a.demo_cmd:
        return sh(a.demo_cmd, cwd=wt)
    return None, ""


def main():
    ap = argparse.ArgumentParser()
    ap.add_argument("prop"); ap.add_argument("patch")
    ap.add_argument("--demo-test"); ap.add_argument("--demo-run"); ap.add_argument("--demo-cmd"); ap.add_argument("--demo-tags")
    ap.add_argument("--demo-dir", help="directory copied into the worktree as seed_demo/ before running --demo-cmd")
    ap.add_argument("--checks"); ap.add_argument("--tier", default="quick"); ap.add_argument("--keep", action="store_true")
    ap.add_argument("--skip-baseline", action="store_true")
    a = ap.parse_args()
    wt = "/tmp/seedwt_%d" % os.getpid()
    res = {"property": a.prop, "patch": a.patch}
    sh(["git", "-C", "/repo", "worktree", "add", "-q", "--detach", wt, "HEAD"])
    try:
        if a.demo_dir:
            shutil.copytree(a.demo_dir, os.path.join(wt, "seed_demo"))
        # demo on the unchanged tree must pass
        rc0, out0 = run_demo(wt, a)
        res["demo_passes_without_change"] = (rc0 == 0) if rc0 is not None else None
        rc, out = sh(["git", "-C", wt, "apply", "--whitespace=nowarn", os.path.abspath(a.patch)])
        res["applies"] = rc == 0
        if rc:
            res["apply_output"] = out[-500:]
            print(json.dumps(res, indent=1)); return 1
        rc, out = sh("for m in hermes src/hermes2go src/calcHermesBatch src/cropfileconverter; do (cd $m && go build ./... ) || exit 1; done", cwd=wt)
        res["compiles"] = rc == 0
        if rc:
            res["build_output"] = out[-800:]
        if not a.skip_baseline:
            rc, out = sh([sys.executable, os.path.join(V, "lib", "baseline.py"), wt])
            res["suite_still_passes"] = rc == 0
            res["suite"] = out.strip().split("\n")[0]
        rc1, out1 = run_demo(wt, a)
        res["demo_fails_with_change"] = (rc1 != 0) if rc1 is not None else None
        if rc1 is not None:
            res["demo_output_with_change"] = out1[-600:]
        checks = [c for c in (a.checks.split(",") if a.checks else [a.prop])]
        res["checks"] = {}
        env = dict(os.environ, VERIF_REPO=wt)
        for c in checks:
            t = time.time()
            rc, out = sh([os.path.join(V, "check"), c, "--tier", a.tier], cwd=V, env=env, timeout=7200)
            lines = [l for l in out.split("\n") if l.startswith(("VIOLATION", "KNOWN-FINDING"))]
            res["checks"][c] = {"exit": rc, "lines": lines, "wall_s": round(time.time() - t, 1),
                                "stages": [l for l in out.split("\n") if "] S" in l]}
            # keep the replay for the record
            for l in lines:
                if l.startswith("VIOLATION") and "replay=" in l:
                    rp = l.split("replay=")[1].split()[0]
                    if os.path.exists(rp):
                        try:
                            r = json.load(open(rp))
                            res["checks"][c]["replay_kind"] = r.get("kind")
                            fi = r.get("failing_inputs") or r.get("no_longer_checks") or []
                            res["checks"][c]["replay_first"] = json.dumps(fi[:1])[:600]
                        except Exception:
                            pass
    finally:
        if not a.keep:
            sh(["git", "-C", "/repo", "worktree", "remove", "--force", wt])
            key = hashlib.sha1(os.path.abspath(wt).encode()).hexdigest()[:10]
            shutil.rmtree(os.path.join(V, ".build", key), ignore_errors=True)
    print(json.dumps(res, indent=1))
    return 0


if __name__ == "__main__":
    sys.exit(main())
