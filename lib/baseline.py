#!/usr/bin/env python3
"""runs the pinned suite (guard off) in REPO (default /repo) and checks every stable_pass test of BASELINE.json passes"""
import json, os, subprocess, sys
repo = sys.argv[1] if len(sys.argv) > 1 else "/repo"
b = json.load(open("/root/.vp/BASELINE.json"))
mods = ["hermes", "src/calcHermesBatch", "src/calcSoil", "src/climatefileconverter", "src/cropfileconverter", "src/hermes2go",
        "src/hermes_service", "src/hermes_service/capnp/hermes_service_capnp", "src/producer_consumer", "src/ptf_testing",
        "src/renderservice", "src/verify_project"]
passed, failed, buildfail = set(), set(), []
env = dict(os.environ, GOPROXY="off", GOSUMDB="off", GOTOOLCHAIN="local")
for m in mods:
    d = os.path.join(repo, m)
    if not os.path.isdir(d):
        continue
    gw = subprocess.run(["go", "env", "GOWORK"], cwd=d, env=env, capture_output=True, text=True).stdout.strip()
    mf = ["-mod=mod"] if gw in ("", "off") else []
    p = subprocess.run(["go", "test"] + mf + ["-json", "-vet=off", "-count=1", "-timeout", "25m", "./..."], cwd=d, env=env,
                       capture_output=True, text=True)
    for line in p.stdout.split("\n"):
        if not line.startswith("{"):
            continue
        ev = json.loads(line)
        a, t, pkg = ev.get("Action"), ev.get("Test"), ev.get("Package", "")
        if a == "fail" and t is None and "build failed" in json.dumps(ev):
            buildfail.append(pkg)
        if t is None or a not in ("pass", "fail"):
            continue
        (passed if a == "pass" else failed).add(pkg + "::" + t)
passed -= failed
missing = [t for t in b["stable_pass"] if t not in passed]
print("stable_pass: %d, passing now: %d, missing: %d" % (len(b["stable_pass"]), len(b["stable_pass"]) - len(missing), len(missing)))
for t in missing[:20]:
    print("  MISSING", t)
sys.exit(1 if missing else 0)
