#!/usr/bin/env python3
"""Shared machinery of the Hermes2Go verification checks (see DESIGN.md §2, §5).

A property module (lib/props/cXX.py) provides
    PROP_FILES   = ["Prop_C12"]            Coq files holding the property theorems
    GEN          (optional) callable(ctx)  regenerates Coq sources from /repo (tie 3)
    correspond(ctx) -> Corr                runs model and implementation on the same inputs (tie 1/2)
    oracle(ctx, search) -> list[Fail]      evaluates the property itself on the real code (S3)
and this module supplies building, Coq evaluation, hygiene, the violation protocol,
known findings and the evidence file.
"""
import argparse, fcntl, hashlib, importlib, json, os, re, shutil, subprocess, sys, time, fnmatch

VERIF = os.path.dirname(os.path.dirname(os.path.abspath(__file__)))
REPO = os.environ.get("VERIF_REPO", "/repo")
COQ = os.path.join(VERIF, "coq")
THEORIES = os.path.join(COQ, "theories")
KEY = hashlib.sha1(os.path.abspath(REPO).encode()).hexdigest()[:10]
BUILD = os.path.join(VERIF, ".build", KEY)
GOENV = dict(os.environ, GOWORK="off", GOFLAGS="-mod=mod", GOPROXY="off", GOSUMDB="off",
             GOTOOLCHAIN="local", CGO_ENABLED="0")
GUARD = "verif"
# evidence and replays of the registered checks come from /repo itself; runs against a scratch worktree
# (VERIF_REPO, used to test the checks against seeded changes) write theirs under .build/<key>/
OUTDIR = os.path.join(VERIF, "evidence") if os.path.abspath(REPO) == "/repo" else os.path.join(BUILD, "evidence")

ALLOWED_AXIOMS = {
    # axioms declared by Coq's own standard library (Reals, functional extensionality)
    "ClassicalDedekindReals.sig_forall_dec", "ClassicalDedekindReals.sig_not_dec",
    "FunctionalExtensionality.functional_extensionality_dep",
    "Classical_Prop.classic", "Eqdep.Eq_rect_eq.eq_rect_eq",
    "ProofIrrelevance.proof_irrelevance", "JMeq.JMeq_eq",
}
# primitive float/int operations and their stdlib specification axioms (FloatAxioms, Uint63)
ALLOWED_PREFIXES = ("PrimFloat.", "FloatAxioms.", "Uint63.", "PrimInt63.", "Uint63Axioms.", "FloatOps.",
                    "SpecFloat.", "PArray.", "Sint63.", "Uint63Axioms")

# Coq's primitive float / 63-bit integer operations (Print Assumptions lists them; they are not axioms of ours)
PRIMITIVES = set("float classify abs sqrt opp eqb ltb leb compare mul add sub div of_uint63 normfr_mantissa frshiftexp "
                 "ldshiftexp next_up next_down int lsl lsr land lor lxor asr mulc mod divs mods ltsb lesb addc addcarryc "
                 "subc subcarryc diveucl diveucl_21 addmuldiv compares head0 tail0".split())

FORBIDDEN = [r"\bAdmitted\b", r"\badmit\b", r"\bAxiom\b", r"\bAxioms\b", r"\bParameter\b", r"\bParameters\b",
             r"\bConjecture\b", r"\bUnset\s+Guard", r"bypass_check", r"\bAdmit\s+Obligations\b",
             r"type-in-type", r"impredicative-set", r"Unset\s+Universe\s+Checking",
             r"Unset\s+Positivity\s+Checking", r"\bgive_up\b", r"native_compute"]


def sh(cmd, cwd=None, env=None, timeout=None, stdin=None):
    p = subprocess.run(cmd, cwd=cwd, env=env, timeout=timeout, input=stdin,
                       stdout=subprocess.PIPE, stderr=subprocess.STDOUT, text=True,
                       shell=isinstance(cmd, str))
    return p.returncode, p.stdout


class Lock:
    def __init__(self, name):
        os.makedirs(os.path.join(VERIF, ".build"), exist_ok=True)
        self.path = os.path.join(VERIF, ".build", name + ".lock")
    def __enter__(self):
        self.f = open(self.path, "w")
        fcntl.flock(self.f, fcntl.LOCK_EX)
    def __exit__(self, *a):
        fcntl.flock(self.f, fcntl.LOCK_UN)
        self.f.close()


def strip_coq_comments(s):
    """removes (nested) comments and string literals, so that the hygiene scan sees only code"""
    out, depth, i, n = [], 0, 0, len(s)
    while i < n:
        if s.startswith("(*", i):
            depth += 1; i += 2
        elif s.startswith("*)", i) and depth:
            depth -= 1; i += 2
        elif s[i] == '"':
            # Coq string literal: "" is an escaped quote (strings inside comments are lexed too)
            j = i + 1
            while j < n:
                if s[j] == '"':
                    if j + 1 < n and s[j + 1] == '"':
                        j += 2; continue
                    break
                j += 1
            if not depth:
                out.append('""')
            i = j + 1
        else:
            if not depth:
                out.append(s[i])
            i += 1
    return "".join(out)


class Fail(dict):
    """a concrete input on which the property fails on the real code (key = stable identity)"""


class Corr:
    def __init__(self):
        self.cases = 0; self.nontrivial = 0; self.mismatches = []; self.samples = []
        self.dist = {}; self.notes = []
    def bump(self, k, n=1):
        self.dist[k] = self.dist.get(k, 0) + n


class Ctx:
    def __init__(self, pid, tier, seed):
        self.id, self.tier, self.seed = pid, tier, seed
        self.t0 = time.time()
        # per-process directories: two runs of the same check (e.g. a developer's and a harness') must not share them
        self.gen = os.path.join(BUILD, "gen", "%s.%d" % (pid, os.getpid()))
        self.work = os.path.join(BUILD, "work", "%s.%d" % (pid, os.getpid()))
        for d in (self.gen, self.work):
            shutil.rmtree(d, ignore_errors=True)
            os.makedirs(d, exist_ok=True)
        os.makedirs(os.path.join(OUTDIR, "replays"), exist_ok=True)
        self.extra = {}
        self.assumptions = []
        self.thorough = tier == "thorough"

    def log(self, *a):
        print("[%s %6.1fs]" % (self.id, time.time() - self.t0), *a, flush=True)

    # ---------------- S0 hygiene ----------------
    def hygiene(self, extra_dirs=()):
        bad = []
        dirs = [THEORIES] + list(extra_dirs)
        for d in dirs:
            for root, _, files in os.walk(d):
                for fn in files:
                    if not fn.endswith(".v"):
                        continue
                    p = os.path.join(root, fn)
                    txt = strip_coq_comments(open(p).read())
                    for pat in FORBIDDEN:
                        m = re.search(pat, txt)
                        if m:
                            bad.append("%s: forbidden token %r" % (os.path.relpath(p, VERIF), m.group(0)))
                    # Variable/Hypothesis/Context outside a Section
                    depth = 0
                    for line in txt.split("\n"):
                        ls = line.strip()
                        if re.match(r"(Section|Module)\s+\w+", ls) and not re.match(r"Module\s+\w+\s*:=", ls):
                            depth += 1 if ls.startswith("Section") else 0
                        elif re.match(r"End\s+\w+\s*\.", ls) and depth:
                            depth -= 1
                        elif depth == 0 and re.match(r"(Variable|Variables|Hypothesis|Hypotheses|Context)\b", ls):
                            bad.append("%s: %s outside a section" % (os.path.relpath(p, VERIF), ls.split()[0]))
        for fn in ("_CoqProject",):
            t = open(os.path.join(COQ, fn)).read()
            if re.search(r"type-in-type|impredicative-set|-vos|-vok|-noinit", t):
                bad.append("_CoqProject: forbidden flag")
        return bad

    # ---------------- S1 build + property theorems ----------------
    def coq_make(self, targets=()):
        """full .vo build of the hand-written development (no-op when up to date)"""
        with Lock("coqmake"):
            changed = write_coqproject()
            if changed or not os.path.exists(os.path.join(COQ, "Makefile.coq")):
                rc, out = sh(["coq_makefile", "-f", "_CoqProject", "-o", "Makefile.coq"], cwd=COQ)
                if rc:
                    return False, out
            tg = ["theories/%s.vo" % t for t in targets]
            rc, out = sh(["timeout", "3000", "make", "-f", "Makefile.coq", "-j16"] + tg, cwd=COQ)
            if rc == 0 and tg:
                # the correspondence files (*Corr.v) are loaded by the generated case files, not by the property files:
                # bring them up to date with the models as well (a stale .vo would show up as an evaluation error)
                corr = ["theories/%s.vo" % f[:-2] for f in sorted(os.listdir(THEORIES)) if f.endswith("Corr.v")]
                sh(["timeout", "3000", "make", "-k", "-f", "Makefile.coq", "-j16"] + corr, cwd=COQ)
            return rc == 0, out

    def coqc(self, vfile, timeout=1800, extra_q=()):
        args = ["timeout", str(timeout), "coqc", "-Q", THEORIES, "Hermes", "-Q", self.gen, "HermesGen"]
        for d, n in extra_q:
            args += ["-Q", d, n]
        args.append(vfile)
        rc, out = sh("ulimit -s unlimited 2>/dev/null; exec " + " ".join(map(shquote, args)), cwd=os.path.dirname(vfile))
        return rc, out

    def check_prop_file(self, name):
        """re-check theories/<name>.v (statements + exact lemma) and parse Print Assumptions.
        returns (ok, theorems, axioms_by_theorem, problems, output)"""
        src = os.path.join(THEORIES, name + ".v")
        txt = strip_coq_comments(open(src).read())
        theorems = re.findall(r"^\s*Theorem\s+(\w+)", txt, re.M)
        examples = re.findall(r"^\s*Example\s+(\w+)", txt, re.M)
        problems = []
        # statements file discipline: only Theorem/Example closed by exact/vm_compute, plus Print Assumptions
        for th in theorems:
            if not re.search(r"Print Assumptions\s+%s\s*\." % re.escape(th), txt):
                problems.append("%s: no Print Assumptions for %s" % (name, th))
        tmp = os.path.join(self.work, name + ".v")
        shutil.copy(src, tmp)
        rc, out = self.coqc(tmp)
        if rc:
            problems.append("%s: does not check:\n%s" % (name, out[-2000:]))
            return False, theorems, {}, problems, out
        blocks = re.split(r"(?m)^(?=Closed under the global context|Axioms:)", out)
        blocks = [b for b in blocks if b.startswith("Closed") or b.startswith("Axioms:")]
        axioms = {}
        if len(blocks) != len(theorems):
            problems.append("%s: %d Print Assumptions outputs for %d theorems" % (name, len(blocks), len(theorems)))
        for th, b in zip(theorems, blocks):
            ax = []
            if b.startswith("Axioms:"):
                for nm, ty in re.findall(r"(?m)^([A-Za-z_][\w.']*)\s*:\s*([^\n]*)", b[len("Axioms:"):]):
                    # an unqualified primitive is recognised by its name AND by a type over float/int/bool only
                    if nm in PRIMITIVES and re.fullmatch(r"[\s\->()*]*((PrimInt63\.)?int|float|bool|Set|comparison|float_class|PrimFloat\.float_class|carry)?([\s\->()*]+((PrimInt63\.)?int|float|bool|Set|comparison|float_class|carry\s*\(?(PrimInt63\.)?int\)?))*[\s()]*", ty):
                        ax.append("PrimFloat." + nm if "float" in ty or nm == "float" else "PrimInt63." + nm)
                    else:
                        ax.append(nm)
                ax += [a for a in re.findall(r"(?m)^([A-Za-z_][\w.']*)\s*$", b[len("Axioms:"):])]
            axioms[th] = ax
            for a in ax:
                if a in ALLOWED_AXIOMS or a.startswith(ALLOWED_PREFIXES):
                    continue
                problems.append("%s: theorem %s depends on non-allowed axiom %s" % (name, th, a))
        return not problems, theorems + examples, axioms, problems, out

    # ---------------- Coq evaluation of generated case files ----------------
    def coq_eval(self, name, text, timeout=1800):
        """writes gen/<name>.v, compiles it, returns (rc, output)"""
        p = os.path.join(self.gen, name + ".v")
        with open(p, "w") as f:
            f.write(text)
        return self.coqc(p, timeout=timeout)

    def coq_eval_many(self, items, timeout=1800, jobs=16):
        """items: [(name, text)]; compiles them in parallel; returns [(name, rc, output)]"""
        from concurrent.futures import ThreadPoolExecutor
        with ThreadPoolExecutor(max_workers=jobs) as ex:
            res = list(ex.map(lambda it: (it[0],) + tuple(self.coq_eval(it[0], it[1], timeout)), items))
        return res

    # ---------------- Go builds from /repo's working tree ----------------
    def harness(self):
        """build /verif/harness against REPO/hermes with -tags verif; returns binary path or raises"""
        with Lock("gobuild-" + KEY):
            src = os.path.join(BUILD, "hsrc")
            shutil.rmtree(src, ignore_errors=True)
            shutil.copytree(os.path.join(VERIF, "harness"), src)
            with open(os.path.join(src, "go.mod"), "w") as f:
                f.write("module verifharness\n\ngo 1.19\n\nrequire github.com/zalf-rpm/Hermes2Go/hermes v0.0.0\n\n"
                        "replace github.com/zalf-rpm/Hermes2Go/hermes => %s/hermes\n" % REPO)
            shutil.copy(os.path.join(REPO, "hermes", "go.sum"), os.path.join(src, "go.sum"))
            out_bin = os.path.join(BUILD, "vh")
            rc, out = sh(["go", "build", "-tags", GUARD, "-o", out_bin, "."], cwd=src, env=GOENV, timeout=900)
            if rc:
                raise BuildError("harness build failed:\n" + out[-4000:])
            return out_bin

    def repo_bin(self, moddir, name, tags=GUARD, race=False):
        """build a main package of /repo (e.g. src/hermes2go) from the working tree"""
        with Lock("gobuild-" + KEY):
            out_bin = os.path.join(BUILD, name + ("-race" if race else ""))
            env = dict(GOENV)
            env.pop("GOWORK"); env.pop("GOFLAGS")     # /repo is a go.work workspace
            if race:
                env["CGO_ENABLED"] = "1"
            cmd = ["go", "build", "-tags", tags, "-o", out_bin] + (["-race"] if race else []) + ["."]
            rc, out = sh(cmd, cwd=os.path.join(REPO, moddir), env=env, timeout=900)
            if rc:
                raise BuildError("%s build failed:\n%s" % (moddir, out[-4000:]))
            return out_bin

    def replay_file(self, tag, obj):
        p = os.path.join(OUTDIR, "replays", "%s_%s.json" % (self.id, tag))
        with open(p, "w") as f:
            json.dump(obj, f, indent=1, default=str)
        return p


class BuildError(Exception):
    pass


def shquote(s):
    return "'" + s.replace("'", "'\\''") + "'"


def write_coqproject():
    """(re)writes coq/_CoqProject from the files present; returns True when it changed"""
    files = sorted(f for f in os.listdir(THEORIES) if f.endswith(".v"))
    txt = "-Q theories Hermes\n" + "".join("theories/%s\n" % fn for fn in files)
    p = os.path.join(COQ, "_CoqProject")
    if os.path.exists(p) and open(p).read() == txt:
        return False
    with open(p, "w") as f:
        f.write(txt)
    return True


# ---------------- Coq source emission helpers ----------------
def chunked_list(items, ty, chunk=500):
    """Coq term for a long list, built from chunks to keep the parser's stack shallow"""
    chunks = ["[" + "; ".join(items[i:i + chunk]) + "]" for i in range(0, len(items), chunk)]
    if not chunks:
        return "(@nil %s)" % ty
    return "(List.concat (A:=%s) [\n  " % ty + ";\n  ".join(chunks) + "])"


def load_known():
    p = os.path.join(VERIF, "known_findings.json")
    if not os.path.exists(p):
        return {"findings": [], "fixed": []}
    return json.load(open(p))


def match_known(pid, fail, known):
    for k in known.get("findings", []):
        if k["property"] != pid:
            continue
        if fnmatch.fnmatchcase(fail.get("key", ""), k["key"]):
            return k
    return None


def ok_build(broken):
    return not any(b.get("stage") in ("proof-build", "proof", "hygiene") for b in broken)


def run_property(pid, tier, seed):
    mod = importlib.import_module("props." + pid.lower())
    ctx = Ctx(pid, tier, seed)
    known = load_known()
    broken = []          # proof obligations / correspondence that no longer check
    corr = Corr()
    fails = []
    theorems, axioms = [], {}
    obligations = discharged = 0
    try:
        # S0
        for b in ctx.hygiene():
            broken.append({"stage": "hygiene", "what": b})
        # tie 3: regenerate model parts from source
        gen_dirs = []
        if hasattr(mod, "generate"):
            try:
                mod.generate(ctx)
            except BuildError as e:
                broken.append({"stage": "generate", "what": str(e)})
        # S1
        ok, out = ctx.coq_make(getattr(mod, "PROP_FILES", []) )
        if not ok:
            broken.append({"stage": "proof-build", "what": out[-3000:]})
        else:
            pfs = list(getattr(mod, "PROP_FILES", []))
            from concurrent.futures import ThreadPoolExecutor as _TPE      # the property files are re-checked side by side (one coqc each)
            with _TPE(max_workers=max(1, min(6, len(pfs)))) as _ex:
                results = list(_ex.map(ctx.check_prop_file, pfs))
            for pf, (ok, ths, ax, probs, out) in zip(pfs, results):
                theorems += ths; axioms.update(ax)
                obligations += len(ths)
                if ok:
                    discharged += len(ths)
                for p in probs:
                    broken.append({"stage": "proof", "theorem_file": pf, "what": p})
        if ctx.thorough and ok_build(broken) and getattr(mod, "PROP_FILES", []):
            # independent re-check of the compiled property files and everything they depend on
            # COQCHK_ADMIT: library modules (and what they depend on) that coqchk takes as compiled by coqc instead of
            # re-checking them (Coq-Interval's tactic stack alone takes > 50 min); recorded in the evidence
            admit = []
            for m in getattr(mod, "COQCHK_ADMIT", []):
                admit += ["-admit", m]
            rc, out = sh(["timeout", "3000", "coqchk", "-silent", "-o", "-Q", THEORIES, "Hermes"] + admit +
                         ["Hermes." + pf for pf in mod.PROP_FILES], cwd=COQ)
            summ = out[out.find("CONTEXT SUMMARY"):] if "CONTEXT SUMMARY" in out else out[-1500:]
            ctx.extra["coqchk"] = {"exit": rc, "summary": " ".join(summ.split())[:3000],
                                   "admitted_library_modules": getattr(mod, "COQCHK_ADMIT", [])}
            if rc != 0:
                broken.append({"stage": "coqchk", "what": out[-2000:]})
            ctx.log("coqchk: exit %d" % rc)
        if hasattr(mod, "gen_proofs"):
            g_obl, g_dis, g_broken, g_ths = mod.gen_proofs(ctx)
            obligations += g_obl; discharged += g_dis; theorems += g_ths
            broken += g_broken
        ctx.log("S1 proof: %d/%d obligations discharged" % (discharged, obligations))
        # S2
        try:
            corr = mod.correspond(ctx) or corr
            for m in corr.mismatches:
                broken.append({"stage": "correspondence", "what": m})
        except BuildError as e:
            broken.append({"stage": "build", "what": str(e)})
        ctx.log("S2 correspondence: %d cases, %d mismatches" % (corr.cases, len(corr.mismatches)))
        # S3
        try:
            fails = mod.oracle(ctx, bool(broken)) or []
        except BuildError as e:
            broken.append({"stage": "build", "what": str(e)})
        ctx.log("S3 oracle: %d failing inputs" % len(fails))
    except Exception as e:   # machinery error: never silently pass
        import traceback
        broken.append({"stage": "driver", "what": traceback.format_exc()[-3000:]})

    # ---- decide ----
    lines, violations = [], 0
    unknown = []
    for f in fails:
        k = match_known(pid, f, known)
        if k:
            msg = "KNOWN-FINDING: property=%s %s" % (pid, k["what"])
            if msg not in lines:
                lines.append(msg)
        else:
            unknown.append(f)
    if unknown:
        violations += 1
        path = ctx.replay_file("violation", {"property": pid, "kind": "failing-input", "failing_inputs": unknown[:20],
                                             "broken": broken[:10]})
        lines.append("VIOLATION property=%s replay=%s" % (pid, path))
    elif broken:
        violations += 1
        path = ctx.replay_file("unproved", {"property": pid, "kind": "no-failing-input-found",
                                            "no_longer_checks": broken[:20],
                                            "note": "a proof obligation or the model/implementation correspondence broke; "
                                                    "the oracle search found no input on which the property fails"})
        lines.append("VIOLATION property=%s replay=%s no-failing-input-found" % (pid, path))

    wall = time.time() - ctx.t0
    cov = {
        "obligations": obligations, "discharged": discharged,
        "checker_cmd": "coqc 8.16.1 (make -f Makefile.coq; coqc theories/<Prop_Cxx>.v with Print Assumptions); vm_compute only",
        "trusted_base": sorted(set(["Coq 8.16.1 kernel + vm_compute", "primitive Uint63/float evaluation in generated case files",
                                    "Go harness + python driver (correspondence)"] +
                                   [("primitive:" if a.startswith(("PrimFloat.", "PrimInt63.")) else "axiom:") + a for axs in axioms.values() for a in axs] +
                                   list(getattr(mod, "TRUSTED", [])))),
        "theorems": theorems,
        "axioms_by_theorem": axioms,
        "evaluations": max(corr.cases, 1),
        "distinct_nontrivial": max(corr.nontrivial, 0),
        "rule": getattr(mod, "RULE", ""),
        "samples": corr.samples[:8] if corr.samples else ["(no correspondence cases this run)"],
        "correspondence_cases": corr.cases,
        "correspondence_mismatches": len(corr.mismatches),
        "input_distribution": corr.dist,
        "oracle_failing_inputs": len(fails),
        "oracle_known_findings": len(fails) - len(unknown),
        "notes": corr.notes,
    }
    cov.update(ctx.extra)
    ev = {"property_id": pid, "tier": tier, "seed": seed, "level": "proof", "coverage": cov,
          "assumptions": list(getattr(mod, "ASSUMPTIONS", [])) + ctx.assumptions,
          "wall_s": round(wall, 2), "violations": violations}
    os.makedirs(OUTDIR, exist_ok=True)
    with open(os.path.join(OUTDIR, pid + ".json"), "w") as f:
        json.dump(ev, f, indent=1, default=str)
    for l in lines:
        print(l)
    shutil.rmtree(ctx.work, ignore_errors=True)
    if not (violations or os.environ.get("VERIF_KEEP")):
        shutil.rmtree(ctx.gen, ignore_errors=True)      # kept after a violation for inspection
    print("%s %s: %s (%.1fs)" % (pid, tier, "FAIL" if violations else "ok", wall))
    return 1 if violations else 0


def main():
    ap = argparse.ArgumentParser()
    ap.add_argument("prop")
    ap.add_argument("--tier", default=os.environ.get("VERIF_TIER", "quick"), choices=["quick", "thorough"])
    ap.add_argument("--replay")
    a = ap.parse_args()
    seed = int(os.environ.get("VERIF_SEED", "20261001") or 0)
    sys.path.insert(0, os.path.join(VERIF, "lib"))
    if a.replay:
        mod = importlib.import_module("props." + a.prop.lower())
        r = json.load(open(a.replay))
        if hasattr(mod, "replay"):
            sys.exit(mod.replay(Ctx(a.prop, a.tier, seed), r))
        print(json.dumps(r, indent=1)); sys.exit(0)
    sys.exit(run_property(a.prop.upper(), a.tier, seed))
