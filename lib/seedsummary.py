#!/usr/bin/env python3
"""writes seeded/SUMMARY.md from the meta.json files"""
import glob, json, os
V = os.path.dirname(os.path.dirname(os.path.abspath(__file__)))
rows = []
for f in sorted(glob.glob(V + "/seeded/*/meta.json"), key=lambda p: (p.split("/")[-2].split("-")[0], int(p.split("/")[-2].split("-")[1]))):
    m = json.load(open(f)); sid = f.split("/")[-2]
    c = m.get("checks") or {}
    res = []
    for k, v in c.items():
        if v["exit"] == 0:
            if not sid.startswith("FREE"):
                res.append("%s: NOT caught" % k)
        else:
            res.append("%s: VIOLATION (%s)" % (k, "failing input" if v.get("replay_kind") == "failing-input" else "no failing input found"))
    if sid.startswith("FREE"):     # all twenty checks were run: list the ones that report it
        silent = sum(1 for v in c.values() if v["exit"] == 0)
        res.append(("%d other checks silent" % silent) if res else "NOT caught by any of the %d checks" % silent)
    conf = m.get("confirmed_by_lead", {})
    okc = all(conf.get(x) for x in ("applies", "compiles", "suite_still_passes", "demo_passes_without_change", "demo_fails_with_change"))
    rows.append("| %s | %s | %s | %s | %s |" % (sid, (m.get("breaks") or "").replace("|", "/").replace("\n", " ")[:260],
                                               (m.get("needs_to_manifest") or "").replace("|", "/").replace("\n", " ")[:200],
                                               "yes" if okc else "partly (see meta.json)", "; ".join(res)))
hist = ""
hp = V + "/seeded/HISTORY.md"
if os.path.exists(hp):
    hist = "\n" + open(hp).read()
open(V + "/seeded/SUMMARY.md", "w").write(
    "# Seeded changes and what the checks did with them\n\nEach row: an independently written change (fresh sub-agent given only the property text and a scratch "
    "worktree) that compiles, passes the pinned suite and breaks the property; confirmed by the lead with lib/seedtest.py; last column = result of "
    "`VERIF_REPO=<worktree> ./check <id> --tier quick` with the CURRENT checks.\n\n| id | what breaks | needs to manifest | confirmed | check result |\n|---|---|---|---|---|\n"
    + "\n".join(rows) + "\n" + hist)
print(len(rows), "seeded changes;", sum(1 for r in rows if "NOT caught" in r), "not caught")

# ---- compact per-property table (for DESIGN.md section 10) ----
import collections
stat = collections.OrderedDict()
for f in sorted(glob.glob(V + "/seeded/*/meta.json")):
    sid = f.split("/")[-2]
    if sid.startswith("FREE"):     # free-form round: listed separately (all twenty checks were run)
        continue
    m = json.load(open(f))
    P = m.get("property") or sid.split("-")[0]
    own = lambda checks: (checks or {}).get(P) or (list((checks or {}).values()) or [None])[0]
    cur = own(m.get("checks"))
    hist = m.get("check_history") or []
    first = own(hist[0]["checks"]) if hist else cur
    st = stat.setdefault(P, {"n": 0, "first_fi": 0, "first_nofi": 0, "first_miss": 0, "now_fi": 0, "now_nofi": 0, "now_miss": 0, "missed_ids": [], "still": []})
    st["n"] += 1
    def kind(v):
        if not v: return "miss"
        if v.get("exit") == 0: return "miss"
        return "fi" if v.get("replay_kind") == "failing-input" else "nofi"
    st["first_" + kind(first)] += 1
    st["now_" + kind(cur)] += 1
    if kind(first) == "miss": st["missed_ids"].append(sid)
    if kind(cur) == "miss": st["still"].append(sid)
lines = ["| property | seeded | first run: failing input / no failing input / not caught | current checks: failing input / no failing input / not caught | got through first (strengthened since) |",
         "|---|---|---|---|---|"]
tot = collections.Counter()
for P, st in stat.items():
    lines.append("| %s | %d | %d / %d / %d | %d / %d / %d | %s |" % (P, st["n"], st["first_fi"], st["first_nofi"], st["first_miss"],
                 st["now_fi"], st["now_nofi"], st["now_miss"], ", ".join(st["missed_ids"]) + ((" — STILL: " + ", ".join(st["still"])) if st["still"] else "")))
    for k in ("n", "first_fi", "first_nofi", "first_miss", "now_fi", "now_nofi", "now_miss"):
        tot[k] += st[k]
lines.append("| all | %d | %d / %d / %d | %d / %d / %d | |" % (tot["n"], tot["first_fi"], tot["first_nofi"], tot["first_miss"], tot["now_fi"], tot["now_nofi"], tot["now_miss"]))
open(V + "/seeded/BY_PROPERTY.md", "w").write("\n".join(lines) + "\n")
print("by property:", dict(tot))
