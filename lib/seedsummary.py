#!/usr/bin/env python3
"""writes seeded/SUMMARY.md from the meta.json files"""
import glob, json, os
V = os.path.dirname(os.path.dirname(os.path.abspath(__file__)))
rows = []
for f in sorted(glob.glob(V + "/seeded/*/meta.json"), key=lambda p: (p.split("/")[-2].split("-")[0], int(p.split("/")[-2].split("-")[1]))):
    m = json.load(open(f)); sid = f.split("/")[-2]
    c = m.get("checks") or {}
    res = []
    for k, v in c.items():
        if v["exit"] == 0:
            res.append("%s: NOT caught" % k)
        else:
            res.append("%s: VIOLATION (%s)" % (k, "failing input" if v.get("replay_kind") == "failing-input" else "no failing input found"))
    conf = m.get("confirmed_by_lead", {})
    okc = all(conf.get(x) for x in ("applies", "compiles", "suite_still_passes", "demo_passes_without_change", "demo_fails_with_change"))
    rows.append("| %s | %s | %s | %s | %s |" % (sid, (m.get("breaks") or "").replace("|", "/").replace("\n", " ")[:260],
                                               (m.get("needs_to_manifest") or "").replace("|", "/").replace("\n", " ")[:200],
                                               "yes" if okc else "partly (see meta.json)", "; ".join(res)))
hist = ""
hp = V + "/seeded/HISTORY.md"
if os.path.exists(hp):
    hist = "\n" + open(hp).read()
open(V + "/seeded/SUMMARY.md", "w").write(
    "# Seeded changes and what the checks did with them\n\nEach row: an independently written change (fresh sub-agent given only the property text and a scratch "
    "worktree) that compiles, passes the pinned suite and breaks the property; confirmed by the lead with lib/seedtest.py; last column = result of "
    "`VERIF_REPO=<worktree> ./check <id> --tier quick` with the CURRENT checks.\n\n| id | what breaks | needs to manifest | confirmed | check result |\n|---|---|---|---|---|\n"
    + "\n".join(rows) + "\n" + hist)
print(len(rows), "seeded changes;", sum(1 for r in rows if "NOT caught" in r), "not caught")
