#!/usr/bin/env python3
"""rewrites section 10 of DESIGN.md from seeded/BY_PROPERTY.md (lib/seedsummary.py) and seeded/harmless/RESULTS.md (lib/refsummary.py)"""
import os, re, json, glob
V = os.path.dirname(os.path.dirname(os.path.abspath(__file__)))
d = open(V + "/DESIGN.md").read()
a = d.index("## 10. Seeded changes")
b = d.index("## 11. Corrections made to the machinery itself")
bp = open(V + "/seeded/BY_PROPERTY.md").read()
hr = open(V + "/seeded/harmless/RESULTS.md").read()
rows = [l for l in hr.split("\n") if re.match(r"\| [A-D]\d ", l)]
alarms = [l for l in rows if "ALARM" in l]
free = []
for f in sorted(glob.glob(V + "/seeded/FREE*/meta.json")):
    m = json.load(open(f)); sid = f.split("/")[-2]
    c = m.get("checks") or {}
    hit = [k for k, v in c.items() if v["exit"] != 0]
    free.append("| %s | %s | %s | %d |" % (sid, (m.get("breaks") or "").replace("|", "/").replace("\n", " ")[:230], ", ".join(hit) or "NONE", len(c) - len(hit)))
new = """## 10. Seeded changes: which checks catch which changes

**Property rounds.**  In nine rounds, fresh sub-agents were given only a property's text and a scratch worktree (nothing
from `/verif`) and asked for two independent changes each that break the property while compiling and passing the
pinned suite, needing something specific to manifest, with a demonstration; rounds 2 and 3 had to differ in site and
kind from the earlier ones and were steered towards the glue between the kernels; round 4 was steered OUTSIDE the
anchored files (values computed elsewhere, readers, configuration defaults, resets, output paths) and towards effects
that appear only after a long history; round 5 at BOUNDARY VALUES of valid inputs (exact equality at a threshold, the
values 0 and 1, first/last element, largest size, empty and single-element inputs, events exactly on a boundary day);
rounds 6 and 7 at NON-DEFAULT CONFIGURATION AND FEATURE INTERACTION (the change manifests only under a configuration
value, override, input-file variant or pair of features that the shipped projects do not use; every shipped run stays
bit-identical); round 8 at ARITHMETIC, TYPE AND INDEX SUBTLETIES inside a realistic clean-up (integer versus floating-point
division, truncation versus rounding, a moved parenthesis, < versus <=, a unit factor, 0- versus 1-based index, a value
taken before versus after an update, a shadowed variable, a copied array, a named integer type missed by a type switch); round 9 (all twenty properties, two changes each) at TWO COOPERATING SITES that each look fine alone (a producer and a consumer changed to slightly different conventions, a reset moved relative to its reader, a value derived in one place and not refreshed by another) and at MULTI-STEP HISTORIES (harvest followed by the next crop, a year roll-over, the second run of a session re-using cached data, a groundwater change followed by a return, a failing batch line followed by good ones, a measurement day followed by fertilisation).  Each change was confirmed by the
lead (`lib/seedtest.py`: applies, compiles, pinned suite passes, demonstration passes without / fails with) in a scratch
worktree and run against the property's check (`VERIF_REPO=<worktree> ./check <id>`).  A change that got through was
sent to the owner of the check with the instruction to strengthen model, tie and oracle — never to special-case the
change — and re-run (`lib/seedrecheck.py`; the first result stays in `meta.json` under `check_history`).
`seeded/SUMMARY.md` has one row per change (what breaks, what it needs, result), `seeded/<id>-<k>/` the patch, the
demonstration and the details.  ("first run" below is the first recorded result; a few round-1 misses predate the
history field and are listed in `seeded/HISTORY.md`.)

""" + bp + """
What the misses had in common (and what was changed in general, not per seed): (i) a scenario dimension that no
generated or shipped input covered (groundwater table inside the profile, peat soil, stones with explicit values,
interleaved fields, roots down to the last layer, option order, a used result folder, phase 0, plateaus in a series,
a run across the year 2000) — the generators now enumerate these dimensions and several checks carry *coverage
guards* that fail when a dimension is absent from a run set; (ii) a kernel tied in isolation while the glue that
feeds it was only exercised (groundwater-change block, readers in front of a model, converters as installed by
readConfig) — the glue is now modelled or compared at the probe points; (iii) an oracle that read its reference from
the same arrays the seeded change corrupts — references are now computed from the input FILES independently of the
loader.

**Free-form round.**  Six further agents were given ALL twenty property texts and one region of the source each and
asked for two changes breaking any property; every change was run against all twenty checks:

| id | what breaks | checks that report it | checks silent |
|---|---|---|---|
""" + "\n".join(free) + """

**Harmless-refactoring rounds (false-alarm test).**  Four agents wrote twenty-four behaviour-preserving refactorings
(switch for if-chains, extracted helpers — among them the argument parsing at the top of `Run` —, split functions,
loop forms, hoisted invariants, renamed locals, read-only package-level tables, accessors, helpers moved between
files, named constants, simplified conditions) across the modelled files, verified byte-identical on all shipped
batches; all twenty checks were run against each (`seeded/harmless/`): %d patches, %d alarms with the current
checks%s.  The first run of the second round found ONE false alarm: C14 treated the text of seven glue statements
of `run.go` as a proof obligation and reported the extraction of the argument parsing into a helper; the tie now
goes through the real `Run` (probe `VerifConfig`, §2.3) and the text comparison is an information line only (§11).  After rounds 5-7 (new scenarios, oracles, configuration sweeps) 22 of the 24 refactorings were applied TOGETHER to one scratch worktree of the final /repo HEAD and all twenty quick checks run against it: 0 alarms (`seeded/harmless/COMBINED_RERUN.md`); a third round of twelve new refactorings (sets E, F: readers / configuration / glue / command-line programs, and kernels) against the final HEAD, applied set-wise: 0 alarms in 40 check runs; a fourth set (G: six refactorings of exactly the regions of `crop.go` / `nitro.go` that round 9 brought into the model — `radia`, `vern`, the root distribution, the development-rate block, the N-supply block, `mineral` — each verified by a bit-level hash of the whole state at every day end) against the checks that model them: 0 alarms in 12 check runs (`seeded/harmless/ROUND_G.md`).

""" % (len(rows), len(alarms), "" if not alarms else " (see RESULTS.md)")
open(V + "/DESIGN.md", "w").write(d[:a] + new + "\n" + d[b:])
print("section 10 rewritten:", len(free), "free-form rows,", len(rows), "harmless rows")
