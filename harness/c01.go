package main

import (
	"flag"
	"math"

	"github.com/zalf-rpm/Hermes2Go/hermes"
)

func init() { commands["c01"] = c01 }

// waterCase runs hermes.Water on the given state and emits inputs and outputs
func waterCase(tag string, g *hermes.GlobalVarsMain, l *hermes.WaterSharedVars, wdt float64, subd, zeit int) {
	n := g.N
	in := jobj{
		"tag": tag, "n": n, "subd1": subd == 1, "wdt": hx(wdt),
		"after_sow": zeit > g.SAAT[g.AKF.Index],
		"fluss0":    hx(g.FLUSS0), "grw": hx(g.GRW), "draidep": g.DRAIDEP, "draifak": hx(g.DRAIFAK), "outn": g.OUTN,
		"gwauf": hx(l.GWAUF), "eta": hx(g.ETA),
		"tp": hxs(g.TP[:n]), "w": hxs(g.W[:n]), "wmin": hxs(g.WMIN[:n]), "nfk": hxs(l.NFK[:n]),
		"ev": hxs(l.EV[:n+1]), "q1": hxs(g.Q1[:n+1]), "caps": hxs(g.CAPS[:21]),
		"cnt": hxs([]float64{g.PFTRANS, g.TRAY, g.TRAG, g.ETAG, g.TP3, g.TP6, g.TP9, g.DRAISUM, g.SICKER, g.CAPSUM, g.PERG, g.INFILT}),
	}
	if subd == 1 {
		in["wg0"] = hxs(g.WG[0][:n])
	} else {
		in["wg0"] = hxs(g.WG[1][:n])
	}
	// storage before (for the oracle): what the sub-step starts from
	var s0 float64
	wg0 := g.WG[0][:n]
	if subd != 1 {
		wg0 = g.WG[1][:n]
	}
	start := make([]float64, n)
	copy(start, wg0)
	for i := 0; i < n; i++ {
		s0 += start[i] * g.DZ.Num
	}
	q10 := g.Q1[0]
	tp0 := append([]float64{}, g.TP[:n]...)
	// independent of the kernel: which layer may receive capillary rise, and the tabulated amount
	capLayer, capInc := 0, 0.0
	for i := 0; i < n; i++ {
		if l.NFK[i] < 0.7 {
			capLayer = i + 1
		}
	}
	if capLayer > 0 {
		dist := g.GRW + 1 - float64(capLayer)
		if dist < 21 {
			if dist < 0 {
				dist = 0
			}
			if dist > 0.9 {
				idx := int(math.Round(math.Max(dist, 1))) - 1
				if idx >= 0 && idx < len(g.CAPS) {
					capInc = g.CAPS[idx] * wdt
				}
			}
		}
	}
	hermes.Water(wdt, subd, zeit, g, l)
	// C06 on the real kernel: per-layer bounds of the sub-step
	maxCaps := 0.0
	for _, c := range g.CAPS {
		maxCaps = math.Max(maxCaps, c)
	}
	for i := 0; i < n; i++ {
		wg1 := g.WG[1][i]
		if !finite(wg1) {
			continue
		}
		tp := g.TP[i] // clamped uptake (sub-step 1) or the day's uptake
		_ = tp0
		after := start[i]*g.DZ.Num - tp*wdt
		lim := g.WMIN[i] / 3
		if after >= lim*g.DZ.Num && g.W[i] >= lim && g.DRAIFAK >= 0 && g.DRAIFAK <= 1 && wg1 < lim-1e-12 {
			oracleFail("substep-below-dryness-limit tag=%s layer=%d start=%v end=%v limit=%v fluss0=%v", tag, i+1, start[i], wg1, lim, g.FLUSS0)
		}
		if wg1 > g.W[i]+maxCaps*wdt+1e-12 {
			oracleFail("substep-above-field-capacity tag=%s layer=%d end=%v fc=%v", tag, i+1, wg1, g.W[i])
		}
		// the tabulated increment itself: only the deepest layer with NFK < 0.7 may exceed field capacity, and by the
		// table entry of its rounded distance to the groundwater table (the property's "tabulated capillary-rise increment")
		inc := 0.0
		if i+1 == capLayer {
			inc = capInc
		}
		if wg1 > g.W[i]+inc+1e-12 {
			oracleFail("substep-above-tabulated-increment tag=%s layer=%d end=%v fc=%v increment=%v grw=%v", tag, i+1, wg1, g.W[i], inc, g.GRW)
		}
	}
	out := jobj{
		"tp": hxs(g.TP[:n]), "wg1": hxs(g.WG[1][:n+1]), "q1": hxs(g.Q1[:n+1]), "ev": hxs(l.EV[:n+1]),
		"qdrain": hx(g.QDRAIN),
		"cnt":    hxs([]float64{g.PFTRANS, g.TRAY, g.TRAG, g.ETAG, g.TP3, g.TP6, g.TP9, g.DRAISUM, g.SICKER, g.CAPSUM, g.PERG, g.INFILT}),
	}
	emit(jobj{"k": "water", "in": in, "out": out})
	// ---- property oracle on the real code: the sub-step's water balance (C01) and bounds (C06)
	var s1, tps float64
	for i := 0; i < n; i++ {
		s1 += g.WG[1][i] * g.DZ.Num
		tps += g.TP[i] * wdt
	}
	surf := g.FLUSS0 * wdt
	if g.FLUSS0 == 0 {
		surf = 0
	}
	_ = q10
	res := s1 - (s0 - tps + surf - g.Q1[n] - g.QDRAIN)
	scale := math.Abs(s0) + math.Abs(surf) + math.Abs(g.Q1[n]) + math.Abs(tps)
	if finite(s0, s1, tps, surf) && finite(g.Q1[:n+1]...) && math.Abs(res) > 1e-9*(1+scale) {
		oracleFail("water-balance tag=%s subd=%d wdt=%v fluss0=%v residual=%g", tag, subd, wdt, g.FLUSS0, res)
	}
}

func synthWater(r *rng, idx int) {
	g := hermes.NewGlobalVarsMain()
	var l hermes.WaterSharedVars
	p := genProfile(r)
	n := p.N
	g.N = n
	copy(g.W[:], p.W)
	copy(g.WMIN[:], p.WMIN)
	copy(g.PORGES[:], p.PORGES)
	copy(g.WNOR[:], p.WNOR)
	g.OUTN = n
	if r.chance(0.3) {
		g.OUTN = 1 + r.intn(n)
	}
	g.AKF.SetByIndex(0)
	g.SAAT[0] = 100
	zeit := 50 + r.intn(100)
	// drainage
	g.DRAIDEP = 0
	if r.chance(0.5) {
		g.DRAIDEP = 1 + r.intn(n)
		g.DRAIFAK = math.Round(r.float()*100) / 100
	}
	// groundwater and capillary table
	g.GRW = float64(r.intn(30)) + 1
	if r.chance(0.3) {
		g.GRW = r.between(0.5, 25)
	}
	for i := 0; i < 21; i++ {
		g.CAPS[i] = math.Round(r.between(0, 0.5)*1000) / 1000 / (1 + float64(i)/3)
	}
	// water contents: regimes
	regime := r.intn(5)
	for i := 0; i < n; i++ {
		var wg float64
		switch regime {
		case 0: // around field capacity
			wg = p.W[i] * r.between(0.9, 1.05)
		case 1: // dry, around the dryness limit
			wg = p.WMIN[i] * r.between(0.25, 1.2)
		case 2: // anywhere
			wg = r.between(p.WMIN[i]/3, p.PORGES[i])
		case 3: // saturated below, dry above
			if i > n/2 {
				wg = p.W[i]
			} else {
				wg = r.between(p.WMIN[i]/3, p.W[i])
			}
		default:
			wg = r.between(p.WMIN[i], p.W[i])
		}
		g.WG[0][i] = wg
		g.WG[1][i] = wg
		if r.chance(0.2) {
			g.WG[1][i] = r.between(p.WMIN[i]/3, p.PORGES[i])
		}
		l.NFK[i] = (wg - p.WMIN[i]) / (p.WNOR[i] - p.WMIN[i])
		if l.NFK[i] < 0 {
			l.NFK[i] = 0
		}
		if r.chance(0.5) {
			g.TP[i] = r.between(0, 0.08)
		}
		g.Q1[i+1] = 0
	}
	g.WG[0][n] = g.WG[0][n-1]
	g.WG[1][n] = g.WG[1][n-1]
	// surface flux: infiltration (small..extreme), evaporation, zero
	switch r.intn(6) {
	case 0:
		g.FLUSS0 = 0
	case 1, 2:
		g.FLUSS0 = -r.between(0, 0.65)
		sum := 0.0
		ws := make([]float64, n)
		for i := 0; i < n; i++ {
			ws[i] = math.Exp(-float64(i)) * r.float()
			sum += ws[i]
		}
		for i := 0; i < n; i++ {
			l.EV[i] = -g.FLUSS0 * ws[i] / sum
		}
	case 3:
		g.FLUSS0 = r.between(0, 1)
	case 4:
		g.FLUSS0 = r.between(1, 8)
	default:
		g.FLUSS0 = r.between(0, 25)
	}
	g.Q1[0] = r.between(-1, 1)
	if r.chance(0.3) {
		l.GWAUF = r.between(0, 0.05)
	}
	g.ETA = r.between(0, 0.6)
	g.PFTRANS, g.TRAY, g.TRAG, g.ETAG = r.float(), r.float(), r.float(), r.float()
	g.TP3, g.TP6, g.TP9, g.DRAISUM, g.SICKER, g.CAPSUM, g.PERG, g.INFILT = r.float(), r.float(), r.float(), r.float(), r.float(), -r.float(), r.float(), r.float()
	steps := []float64{1, 2, 4, 8, 3, 93, 17}
	nst := steps[r.intn(len(steps))]
	wdt := 1 / nst
	subd := 1
	if r.chance(0.4) {
		subd = 2 + r.intn(3)
	}
	waterCase("synth", &g, &l, wdt, subd, zeit)
	// a second sub-step from the resulting state (exercises the WG[1] -> WG[0] copy)
	if r.chance(0.5) {
		waterCase("synth2", &g, &l, wdt, subd+1, zeit)
	}
}

func c01(args []string) {
	fs := flag.NewFlagSet("c01", flag.ExitOnError)
	seed := fs.Uint64("seed", 1, "seed")
	nsynth := fs.Int("synth", 300, "synthetic Water cases")
	fs.Parse(args)
	defer stdout.Flush()
	r := newRng(*seed)
	evapDayWitness()
	for i := 0; i < *nsynth; i++ {
		synthWater(r, i)
	}
}

// evapDayWitness replays the input of WaterDayBounds.evap_day_witness (two evaporation sub-steps with a freely chosen
// evaporation profile) on the real kernel: both sub-steps go through the bit-exact comparison, and the observation
// the Coq lemma evap_day_refuted_lemma states about the model (layer 3 above its dryness limit after sub-step 1,
// below it after sub-step 2) is reported for the real code.
func evapDayWitness() {
	g := hermes.NewGlobalVarsMain()
	var l hermes.WaterSharedVars
	g.N, g.OUTN = 3, 3
	g.AKF.SetByIndex(0)
	g.SAAT[0] = 100
	g.GRW = 99
	g.FLUSS0 = -0.6
	copy(g.WG[0][:], []float64{0.03, 0.2, 0.0035, 0.0035})
	copy(g.WG[1][:], []float64{0.03, 0.2, 0.0035, 0.0035})
	copy(g.TP[:], []float64{0, 0, 0.005})
	copy(g.W[:], []float64{0.3, 0.3, 0.3})
	copy(g.WMIN[:], []float64{0.03, 0.03, 0.003})
	copy(g.PORGES[:], []float64{0.4, 0.4, 0.4})
	copy(g.WNOR[:], []float64{0.3, 0.3, 0.3})
	copy(l.NFK[:], []float64{1, 1, 1})
	copy(l.EV[:], []float64{0.3, 0.253, 0.044, 0})
	waterCase("witness", &g, &l, 0.5, 1, 120)
	after1 := g.WG[1][2]
	waterCase("witness", &g, &l, 0.5, 2, 120)
	after2 := g.WG[1][2]
	emit(jobj{"k": "evap-day-witness", "after1": after1, "after2": after2, "limit": g.WMIN[2] / 3,
		"as_stated": after1 >= g.WMIN[2]/3 && after2 < g.WMIN[2]/3})
}
