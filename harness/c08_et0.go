package main

// c08_et0.go — SHADOW of the potential-ET part of hermes.Evatra (hermes/water.go:36-61, 132-468), of stomat
// (water.go) and of CalculateDayLenght (solar.go): the source text copied verbatim with every call of a
// transcendental math function routed through a recorder, so that the harness can hand the Coq model
// (Et0Model.v) the table of oracle values at exactly the argument bits the code used, and the value of
// the potential ET BEFORE the cap, which the real function keeps in a local.  The shadow is compared with
// the real hermes.Evatra on every case (c08.go: "shadow-differs"); it is never the object of a claim.

import (
	"math"

	"github.com/zalf-rpm/Hermes2Go/hermes"
)

// one recorded oracle call: kind 1 exp, 2 log, 3 sin, 4 cos, 5 tan, 6 asin, 7 acos, 8 pow (b = exponent)
type orcCall struct {
	kind    int
	a, b, v float64
}

type orcRec struct{ calls []orcCall }

func (o *orcRec) rec(kind int, a, b, v float64) float64 {
	o.calls = append(o.calls, orcCall{kind, a, b, v})
	return v
}
func (o *orcRec) Exp(x float64) float64    { return o.rec(1, x, 0, math.Exp(x)) }
func (o *orcRec) Log(x float64) float64    { return o.rec(2, x, 0, math.Log(x)) }
func (o *orcRec) Sin(x float64) float64    { return o.rec(3, x, 0, math.Sin(x)) }
func (o *orcRec) Cos(x float64) float64    { return o.rec(4, x, 0, math.Cos(x)) }
func (o *orcRec) Tan(x float64) float64    { return o.rec(5, x, 0, math.Tan(x)) }
func (o *orcRec) Asin(x float64) float64   { return o.rec(6, x, 0, math.Asin(x)) }
func (o *orcRec) Acos(x float64) float64   { return o.rec(7, x, 0, math.Acos(x)) }
func (o *orcRec) Pow(x, y float64) float64 { return o.rec(8, x, y, math.Pow(x, y)) }

// ---- solar.go: CalculateDayLenght ----
func shDayLength(o *orcRec, tag float64, lat float64) (DL, DLE, DLP, EXT, RDN, DRC, DEC float64) {

	// -------- BERECHNUNG VON TAGLAENGE UND EINSTRAHLUNG -----
	// calculation of day length an radiation
	// ----------------------- DECLINATION -----------------------
	DEC = 0.409 * o.Sin(2*math.Pi/365*tag-1.39) * 180 / math.Pi
	SINLD := o.Sin(DEC*math.Pi/180.) * o.Sin(lat*math.Pi/180.)
	COSLD := o.Cos(DEC*math.Pi/180.) * o.Cos(lat*math.Pi/180.)
	// -------------------- ASTRONOMISCHE TAGESLäNGE ------------
	// astronomical daylenth
	DL = 12. * (math.Pi + 2.*o.Asin(hermes.Limit(SINLD/COSLD, 1, -1))) / math.Pi
	// -------------------- EFFEKTIVE TAGESLäNGE ----------------
	// effective day length
	DLE = 12. * (math.Pi + 2.*o.Asin(hermes.Limit((-o.Sin(8.*math.Pi/180.)+SINLD)/COSLD, 1, -1))) / math.Pi
	DLP = 12. * (math.Pi + 2.*o.Asin(hermes.Limit((-o.Sin(-6.*math.Pi/180.)+SINLD)/COSLD, 1, -1))) / math.Pi

	SC := 24. * 60. / math.Pi * 8.20 * (1 + 0.033*o.Cos(2*math.Pi*tag/365.))
	SHA := o.Acos(hermes.Limit(-o.Tan(lat*math.Pi/180)*o.Tan(DEC*math.Pi/180), 1, -1))
	EXT = SC * (SHA*SINLD + COSLD*o.Sin(SHA)) / 100.0 // from J cm-2 to MJ m-2

	// ----- MITTLERE PHOTOSYNTHETISCH AKTIVE EINSTRAHLUNG ------
	// average photosynthetic active radiation
	if DL > 0 {
		RDN = 3600. * (SINLD*DL + 24./math.Pi*COSLD*math.Sqrt(1.-o.Pow(hermes.Limit(SINLD/COSLD, 1, -1), 2)))
		// ------------Strahlung klarer Tag (in Joule/m^2)------------
		// radiation on a clear day (in Joule/m^2)
		DRC = 0.5 * 1300. * RDN * o.Exp(-.14/(RDN/(DL*3600.)))
	}

	return DL, DLE, DLP, EXT, RDN, DRC, DEC
}

// ---- water.go: stomat ----
func shStomat(o *orcRec, l *hermes.WaterSharedVars, g *hermes.GlobalVarsMain) {

	// ! Inputs:
	// ! AMAX            = maximale C-Assimilation bei Lichtsättigung
	// ! TEMP(TAG)       = Tagesmitteltemperatur (°C)
	// ! RAD(TAG)        = PAR (MJ/m^2/d)
	// ! SUND(TAG)       = Sonnenscheindauer (h)
	// ! LAT             = Breitengrad
	// ! CO2Konz         = CO2-Konzentration (ppm)
	// ! SATDEF          = Sättigungsdefizit der Luft (kPa?)

	DL, DLE, _, _, RDN, DRC, DEC := shDayLength(o, g.TAG.Num, g.LAT)
	if DLE <= 0 {
		return
	}
	DRO := .2 * DRC
	EFF0 := .5
	// ! ++++++++++++++  Auswahl mehrerer Methoden zum CO2 Effect +++++++++++++++
	var EFF float64
	var COcomp float64
	if g.CO2METH == 1 {
		COcomp := 17.5 * o.Pow(2, ((g.TEMP[g.TAG.Index]-10)/10))
		EFF = (g.CO2KONZ - COcomp) / (g.CO2KONZ + 2*COcomp) * EFF0
	} else {
		EFF = EFF0
	}
	MAXAMAXG := 30.
	var amax float64
	if g.TEMP[g.TAG.Index] < g.MINTMP {
		amax = 0
	} else if g.TEMP[g.TAG.Index] < 10 {
		amax = MAXAMAXG * g.TEMP[g.TAG.Index] / 10 * .4
	} else if g.TEMP[g.TAG.Index] < 15 {
		amax = MAXAMAXG * (.4 + (g.TEMP[g.TAG.Index]-10)/5*.5)
	} else if g.TEMP[g.TAG.Index] < 25 {
		amax = MAXAMAXG * (.9 + (g.TEMP[g.TAG.Index]-15)/10*.1)
	} else if g.TEMP[g.TAG.Index] < 35 {
		amax = MAXAMAXG * (1 - (g.TEMP[g.TAG.Index]-25)/10)
	} else {
		amax = 0
	}
	if g.CO2METH == 1 {
		amax = amax * (g.CO2KONZ - COcomp) / (350 - COcomp)
	} else if g.CO2METH == 2 {
		var KCo1 float64
		var coco float64
		if g.RAD[g.TAG.Index] > 0 {
			KCo1 = 220 + 0.158*g.RAD[g.TAG.Index]*20
			coco = 80 - 0.0036*g.RAD[g.TAG.Index]*20
		} else {
			SC := 1367 * (1 + 0.033*o.Cos(2*math.Pi*g.TAG.Num/365))
			EXT := SC * RDN / 10000
			var Glob float64
			if DL > 0 {
				Glob = EXT * (0.19 + 0.55*g.SUND[g.TAG.Index]/DL)
			} else {
				Glob = EXT * 0.19
			}
			KCo1 = 220 + 0.158*Glob
			coco = 80 - 0.0036*Glob
		}
		KCO2 := ((g.CO2KONZ - coco) / (KCo1 + g.CO2KONZ - coco)) / ((350 - coco) / (KCo1 + 350 - coco))
		amax = amax * KCO2
	}
	// ! ----------------------- STrahlungsinterception nach Penning de Vries ---------------------
	if amax < .1 {
		amax = .1
	}
	if DLE == 0 && DL > 0 {
		DLE = 0.1
	}
	REFLC := .08
	EFFE := (1. - REFLC) * EFF
	SSLAE := o.Sin((90. + DEC - g.LAT) * math.Pi / 180.)
	X := o.Log(1. + .45*DRC/(DLE*3600.)*EFFE/(SSLAE*amax))
	PHCH1 := SSLAE * amax * DLE * X / (1. + X)
	// ! Aenderung nach P.d. Vries am 25.5.93
	Y := o.Log(1. + .55*DRC/(DLE*3600.)*EFFE/((5-SSLAE)*amax))
	PHCH2 := (5. - SSLAE) * amax * DLE * Y / (1. + Y)
	PHCH := 0.95*(PHCH1+PHCH2) + 20.5
	// 1.44 = LAI kurzgeschnittenes Gras
	PHC3 := PHCH * (1. - o.Exp(-.8*1.44))

	//  1.44 = LAI kurzgeschnittenes Gras
	PHC4 := DL * 1.44 * amax
	var MIPHC float64
	var MAPHC float64
	if PHC3 < PHC4 {
		MIPHC = PHC3
		MAPHC = PHC4
	} else {
		MIPHC = PHC4
		MAPHC = PHC3
	}
	PHCL := MIPHC * (1. - o.Exp(-MAPHC/MIPHC))
	Z := DRO / (DLE * 3600.) * EFFE / (5. * amax)
	PHOH1 := 5. * amax * DLE * Z / (1. + Z)
	PHOH := 0.9935*PHOH1 + 1.1
	// ! Aenderung nach P.d. Vries am 25.5.93
	PHO3 := PHOH * (1. - o.Exp(-.8*1.44))
	var MIPHO float64
	var MAPHO float64
	if PHO3 < PHC4 {
		MIPHO = PHO3
		MAPHO = PHC4
	} else {
		MIPHO = PHC4
		MAPHO = PHO3
	}
	PHOL := MIPHO * (1. - o.Exp(-MAPHO/MIPHO))
	DGAC := PHCL
	DGAO := PHOL
	var DTGA float64
	// !----------- BERUECKSICHTIGUNG DER SONNENSCHEINDAUER -------
	if g.RAD[g.TAG.Index] == 0 {
		if g.SUND[g.TAG.Index] > DLE {
			g.SUND[g.TAG.Index] = DLE
		}
		DTGA = g.SUND[g.TAG.Index]/DLE*DGAC + (1.-g.SUND[g.TAG.Index]/DLE)*DGAO
	} else {
		KOREK := 1.
		g.RADSUM = g.RADSUM + g.RAD[g.TAG.Index]*g.DT.Num*KOREK
		//! Fraktion bedeckter Tag, DRC = Fraktion klarer tag
		FOV := (DRC - 1000000*g.RAD[g.TAG.Index]*KOREK) / (.8 * DRC)
		if FOV > 1 {
			FOV = 1
		}
		if FOV < 0 {
			FOV = 0
		}
		DTGA = FOV*DGAO + (1-FOV)*DGAC
	}
	// ------- PHOTOSYNTHESERATE IN KG GLUCOSE/HA BLATT/TAG------
	Agross := DTGA / (10 * 3600 * 24 * 44) * 22414
	g.RSTOM = 1 / (g.ALPH * Agross / (g.CO2KONZ * (1 + l.SATDEF/g.SATBETA)))
}

// ---- water.go:36-61 (month of the Haude factor) and 132-468 (the five methods, both branches, cap and floor);
// returns the potential ET before and after the cap/floor step ----
func shEt0(o *orcRec, l *hermes.WaterSharedVars, g *hermes.GlobalVarsMain, zeit int) (precap, capped float64) {
	var VERDU [366]float64
	var RADn float64
	var RADRatio float64
	var FKM int
	var FK float64
	// ! Berücksichtigung der verschiedenen Verdunstungsfaktoren n. Heger
	if g.TAG.Num > 212 && g.TAG.Num < 244 {
		FKM = 8
	} else if g.TAG.Num > 243 && g.TAG.Num < 274 {
		FKM = 9
	} else if g.TAG.Num > 273 && g.TAG.Num < 305 {
		FKM = 10
	} else if g.TAG.Num > 304 && g.TAG.Num < 335 {
		FKM = 11
	} else if g.TAG.Num > 334 {
		FKM = 12
	} else if g.TAG.Num < 32 {
		FKM = 1
	} else if g.TAG.Num > 31 && g.TAG.Num < 60 {
		FKM = 2
	} else if g.TAG.Num > 59 && g.TAG.Num < 91 {
		FKM = 3
	} else if g.TAG.Num > 90 && g.TAG.Num < 121 {
		FKM = 4
	} else if g.TAG.Num > 120 && g.TAG.Num < 152 {
		FKM = 5
	} else if g.TAG.Num > 151 && g.TAG.Num < 182 {
		FKM = 6
	} else {
		FKM = 7
	}
	if zeit > g.SAAT[g.AKF.Index] && g.INTWICK.Num > 1 &&
		((g.ERNTE[g.AKF.Index] > 0 && zeit < g.ERNTE[g.AKF.Index]) || (g.ERNTE[g.AKF.Index] == 0 && zeit < g.ERNTE2[g.AKF.Index])) {
		FK = g.FKF[FKM-1] //!(HAUDE (Heger)-Faktor für Frucht)
		if g.ETMETH == 1 {
			VERDU[g.TAG.Index] = g.VERD[g.TAG.Index] * FK * .1 //ETp (cm) für Frucht
		} else if g.ETMETH == 2 {
			//! ETP nach Turc-Wendling
			if g.RAD[g.TAG.Index] > 0 {
				VERDU[g.TAG.Index] = (g.RAD[g.TAG.Index]*200 + 93*g.KCOA) * (g.TEMP[g.TAG.Index] + 22) / (150 * (g.TEMP[g.TAG.Index] + 123)) * g.FKC * .1
			} else {
				DL, _, _, EXT, _, _, _ := shDayLength(o, g.TAG.Num, g.LAT)
				EXT = EXT * 100 // ETP by Turc-Wendling requires extraterrestic radiation in J cm-2, so we multiply with 100
				var GLOB float64
				if DL > 0 {
					GLOB = EXT * (0.19 + 0.55*g.SUND[g.TAG.Index]/DL)
				} else {
					GLOB = EXT * 0.19
				}
				VERDU[g.TAG.Index] = (GLOB + 93*g.KCOA) * (g.TEMP[g.TAG.Index] + 22) / (150 * (g.TEMP[g.TAG.Index] - 1 + 123)) * g.FKC * .1
			}
		} else if g.ETMETH == 5 {
			//! Einlesen Referenzverdustung aus Datei (Spalte Saettdef)
			VERDU[g.TAG.Index] = g.ETNULL[g.TAG.Index] * g.FKC * .1
		} else if g.ETMETH == 4 {
			//  ! ----------------------- Berechnung der Referenzverdunstung Gras nach Priestley Taylor --------------
			//  ! -- Notwendige inputs: Temp(Tag) (Tagesmitteltemperatur)
			//  !                       Tmin(TAG) (Tagesminimumtemperatur)
			//  !                       Tmax(TAG) (Tagesmaximumtemperatur)
			//  !                       Alti (Standorthöhe über Normal Null m)
			//  !                       SUND(TAG) ( Sonnenscheindauer, h), alternativ zu Strahlung
			//  !                       LAT       (Breitengrad, °)
			//  !                       RAD(TAG)  (PAR Einstrahlung MJ/m^2/d)
			//  ! -- Vordefinierte Konstante
			Albedo := 0.23
			Bolz := 0.0000000049
			DL, _, _, EXT, _, _, _ := shDayLength(o, g.TAG.Num, g.LAT)
			RS0 := (0.75 + 0.00002*g.ALTI) * EXT
			//  ! ---- Berechnung Atmosphärendruck in kPa
			ATMPress := 101.3 * o.Pow(((293-(0.0065*g.ALTI))/293), 5.26)
			//  ! ---- Berechnung Psychrometer-Konstante
			Psych := 0.000665 * ATMPress
			//  ! ---- Berechnung Sättigungsdampfdruck bei Tmax
			Vapres := 0.6108 * o.Exp(17.27*g.TMIN[g.TAG.Index]/(g.TMIN[g.TAG.Index]+237.3))
			//  ! Deltsat = Steigung der Sättigungsdampfdruck-Temperatur Beziehung
			Deltsat := (4098. * (0.6108 * o.Exp((17.27*g.TEMP[g.TAG.Index])/(g.TEMP[g.TAG.Index]+237.3)))) / o.Pow((g.TEMP[g.TAG.Index]+237.3), 2)
			if g.RAD[g.TAG.Index] > 0 {
				//     ! Berechnung der Nettostrahlung aus Globalstrahlung
				RADRatio = g.RAD[g.TAG.Index] * 2 / RS0
				if RADRatio > 1 {
					RADRatio = 1
				}
				RADn = (1-Albedo)*g.RAD[g.TAG.Index]*2 - Bolz*(o.Pow((g.TMIN[g.TAG.Index]+273.16), 4)+o.Pow((g.TMAX[g.TAG.Index]+273.16), 4))/2*(1.35*RADRatio-0.35)*(0.34-0.14*math.Sqrt(Vapres))
			} else {
				var Glob float64
				if DL > 0 {
					Glob = EXT * (0.19 + 0.55*g.SUND[g.TAG.Index]/DL)
				} else {
					Glob = EXT * 0.19
				}
				RADRatio = 1
				if RS0 > 0 {
					RADRatio = Glob / RS0
				}
				if RADRatio > 1 {
					RADRatio = 1
				}
				RADn = (1-Albedo)*Glob - Bolz*(o.Pow((g.TMIN[g.TAG.Index]+273.16), 4)+o.Pow((g.TMAX[g.TAG.Index]+273.16), 4))/2*(1.35*RADRatio-0.35)*(0.34-0.14*math.Sqrt(Vapres))
			}
			g.ET0 = (0.408 * Deltsat * RADn) / (Deltsat + Psych) * 1.26
			if g.ET0 < 0 {
				g.ET0 = 0
			}
			VERDU[g.TAG.Index] = g.ET0 * g.FKC * 0.1
		} else if g.ETMETH == 3 {
			//  ! ----------------------- Berechnung der Referenzverdunstung Gras nach Penman-Monteith --------------
			//  ! -- Notwendige inputs: Temp(Tag) (Tagesmitteltemperatur)
			//  !                       Tmin(TAG) (Tagesminimumtemperatur)
			//  !                       Tmax(TAG) (Tagesmaximumtemperatur)
			//  !                       RH(TAG)   (relative Luftfeuchte %)
			//  !                       Alti (Standorthöhe über Normal Null m)
			//  !                       Wind(TAG) (mittl. Windgeschw. m/s)
			//  !                       WINDHI    (Messhöhe Wind, m)
			//  !                       SUND(TAG) ( Sonnenscheindauer, h), alternativ zu Strahlung
			//  !                       LAT       (Breitengrad, )
			//  !                       RAD(TAG)  (PAR Einstrahlung MJ/m^2/d)
			//  ! -- Vordefinierte Konstante
			RSTOM0 := 100.0
			g.RSTOM = 100.
			Albedo := 0.23
			Bolz := 0.0000000049
			DL, _, _, EXT, _, _, _ := shDayLength(o, g.TAG.Num, g.LAT)
			RS0 := (0.75 + 0.00002*g.ALTI) * EXT
			//  ! ---- Berechnung Atmosphärendruck in kPa
			ATMPress := 101.3 * o.Pow(((293-(0.0065*g.ALTI))/293), 5.26)
			//  ! ---- Berechnung Psychrometer-Konstante
			Psych := 0.000665 * ATMPress
			//  ! ---- Berechnung Sättigungsdampfdruck bei Tmax
			SatPmax := 0.6108 * o.Exp(((17.27 * g.TMAX[g.TAG.Index]) / (237.3 + g.TMAX[g.TAG.Index])))
			//  ! ---- Berechnung Sättigungsdampfdruck bei Tmin
			SatPmin := 0.6108 * o.Exp(((17.27 * g.TMIN[g.TAG.Index]) / (237.3 + g.TMIN[g.TAG.Index])))
			//  ! ---- Berechnung mittlerer Sättigungsdampfdruck
			SatP := (SatPmin + SatPmax) / 2
			//  ! ---- Berechnung aktueller Dampfdruck
			Vapres := SatP * g.RH[g.TAG.Index] / 100
			//  ! ---- Berechnung Sättigungsdefizit der Luft
			l.SATDEF = SatP * (1 - g.RH[g.TAG.Index]/100)
			//  ! Deltsat = Steigung der Sättigungsdampfdruck-Temperatur Beziehung
			Deltsat := (4098 * (0.6108 * o.Exp((17.27*g.TEMP[g.TAG.Index])/(g.TEMP[g.TAG.Index]+237.3)))) / o.Pow((g.TEMP[g.TAG.Index]+237.3), 2)
			//  ! ----- wenn Windgeschwindigkeit Messung nicht in 2m Höhe, dann Umrechnung auf 2m
			//  ! --- Berechnung des Stomatawiderstands in Abh.von CO2 ---
			shStomat(o, l, g)
			//  ! --------------------------------------------------------
			//  ! ----------- Umrechnung Wind auf 2 m, wenn Messhöhe Wind <> 2 m -------------
			if g.WINDHI != 2 {
				g.WIND[g.TAG.Index] = g.WIND[g.TAG.Index] * (4.87 / (o.Log(67.8*g.WINDHI - 5.42)))
			}
			//  ! ----------------------------------------------------------------------------
			//  ! ----- Berechnung des aerodynamischen Widerstands ra (Raero)
			if g.WIND[g.TAG.Index] < 0.5 { // fixed lower bound for wind speed to 0.5
				g.WIND[g.TAG.Index] = 0.5
			}
			//  ! ----- Berechnung des Oberflächenwiderstands rs mit Stomatawiderstand = 100 s/m (Rsurf)
			Rsurf0 := RSTOM0 / 1.44
			Rsurf := g.RSTOM / 1.44
			if g.RAD[g.TAG.Index] > 0 {
				// ! Berechnung der Nettostrahlung aus Globalstrahlung
				RADRatio = g.RAD[g.TAG.Index] * 2 / RS0
				if RADRatio > 1 {
					RADRatio = 1
				}
				RADn = (1-Albedo)*g.RAD[g.TAG.Index]*2 - Bolz*(o.Pow((g.TMIN[g.TAG.Index]+273.16), 4)+o.Pow((g.TMAX[g.TAG.Index]+273.16), 4))/2*(1.35*RADRatio-0.35)*(0.34-0.14*math.Sqrt(Vapres))
			} else {
				var Glob float64
				if DL > 0 {
					Glob = EXT * (0.19 + 0.55*g.SUND[g.TAG.Index]/DL)
				} else {
					Glob = EXT * 0.19
				}
				RADRatio = 1
				if RS0 > 0 {
					RADRatio = Glob / RS0
				}
				if RADRatio > 1 {
					RADRatio = 1
				}

				RADn = (1-Albedo)*Glob - Bolz*(o.Pow((g.TMIN[g.TAG.Index]+273.16), 4)+o.Pow((g.TMAX[g.TAG.Index]+273.16), 4))/2*(1.35*RADRatio-0.35)*(0.34-0.14*math.Sqrt(Vapres))
			}
			//  ! ------------------------ Berechnung der Referenzevapotranspiration --------------------
			if !g.CTRANS {
				g.ET0 = ((0.408 * Deltsat * RADn) + (Psych * (900 / (g.TEMP[g.TAG.Index] + 273)) * g.WIND[g.TAG.Index] * l.SATDEF)) / (Deltsat + Psych*(1+(Rsurf0/208)*g.WIND[g.TAG.Index]))
			} else {
				g.ET0 = ((0.408 * Deltsat * RADn) + (Psych * (900 / (g.TEMP[g.TAG.Index] + 273)) * g.WIND[g.TAG.Index] * l.SATDEF)) / (Deltsat + Psych*(1+(Rsurf/208)*g.WIND[g.TAG.Index]))
			}
			if g.ET0 < 0 {
				g.ET0 = 0
			}
			VERDU[g.TAG.Index] = g.ET0 * g.FKC * 0.1
		}
		// ! -- Begrenzung Verdunstung auf 6.5 mm/Tag --
		precap = VERDU[g.TAG.Index]
		if VERDU[g.TAG.Index] > 0.65 {
			VERDU[g.TAG.Index] = 0.65
		}
		if VERDU[g.TAG.Index] < 0 {
			VERDU[g.TAG.Index] = 0
		}
	} else {
		// ! Berechnungen wie oben für unbedeckten Boden
		// ! FKU(FKM)     = Haudefaktor unbedeckt
		// ! FKB          = kc Faktor unbedeckt
		// LET FK = FKU(FKM)
		FK = g.FKU[FKM-1]
		// IF ETMETH = 1 then
		if g.ETMETH == 1 {
			//LET VERDU(TAG) = VERD(TAG)*FK*.1
			VERDU[g.TAG.Index] = g.VERD[g.TAG.Index] * FK * .1
			// ELSE IF ETMETH = 2 then
		} else if g.ETMETH == 2 {
			//LET FKC = FKB       !0.65
			g.FKC = g.FKB
			//! ETP nach Turc-Wendling
			//!LET FKUE = 1
			//IF RAD(TAG) > 0 then
			if g.RAD[g.TAG.Index] > 0 {
				//LET VERDU(TAG) = (RAD(TAG)*200+93 * kcoa) *(TEMP(TAG)+22)/(150*(TEMP(TAG)+123)) *FKC*.1
				VERDU[g.TAG.Index] = (g.RAD[g.TAG.Index]*200 + 93*g.KCOA) * (g.TEMP[g.TAG.Index] + 22) / (150 * (g.TEMP[g.TAG.Index] + 123)) * g.FKC * .1
				//ELSE
			} else {
				DL, _, _, EXT, _, _, _ := shDayLength(o, g.TAG.Num, g.LAT)
				EXT = EXT * 100 // ETP by Turc-Wendling requires extraterrestic radiation in J cm-2, so we multiply with 100
				var Glob float64
				if DL > 0 {
					Glob = EXT * (0.19 + 0.55*g.SUND[g.TAG.Index]/DL)
				} else {
					Glob = EXT * 0.19
				}
				VERDU[g.TAG.Index] = (Glob + 93*g.KCOA) * (g.TEMP[g.TAG.Index] + 22) / (150 * (g.TEMP[g.TAG.Index] + 123)) * g.FKC * .1
			}
		} else if g.ETMETH == 5 { // external read from weather file
			g.FKC = g.FKB
			//! ETP nach Penman (unfertig)
			VERDU[g.TAG.Index] = g.ETNULL[g.TAG.Index] * g.FKC * .1
		} else if g.ETMETH == 4 {
			g.FKC = g.FKB
			//! ----------------------- Berechnung der Referenzverdunstung Gras nach Priestley Taylor --------------
			//! -- Notwendige inputs: Temp(Tag) (Tagesmitteltemperatur)
			//!                       Tmin(TAG) (Tagesminimumtemperatur)
			//!                       Tmax(TAG) (Tagesmaximumtemperatur)
			//!                       Alti (Standorthöhe über Normal Null m)
			//!                       SUND(TAG) ( Sonnenscheindauer, h), alternativ zu Strahlung
			//!                       LAT       (Breitengrad)
			//!                       RAD(TAG)  (PAR Einstrahlung MJ/m^2/d)
			//! -- Vordefinierte Konstante
			Albedo := 0.23
			Bolz := 0.0000000049
			DL, _, _, EXT, _, _, _ := shDayLength(o, g.TAG.Num, g.LAT)
			RS0 := (0.75 + 0.00002*g.ALTI) * EXT
			Vapres := 0.6108 * o.Exp(17.27*g.TMIN[g.TAG.Index]/(g.TMIN[g.TAG.Index]+237.3))
			Deltsat := (4098. * (0.6108 * o.Exp((17.27*g.TEMP[g.TAG.Index])/(g.TEMP[g.TAG.Index]+237.3)))) / o.Pow((g.TEMP[g.TAG.Index]+237.3), 2)
			if g.RAD[g.TAG.Index] > 0 {
				// ! Berechnung der Nettostrahlung aus Globalstrahlung
				RADRatio = g.RAD[g.TAG.Index] * 2 / RS0
				if RADRatio > 1 {
					RADRatio = 1
				}
				RADn = (1-Albedo)*g.RAD[g.TAG.Index]*2 - Bolz*(o.Pow((g.TMIN[g.TAG.Index]+273.16), 4)+o.Pow((g.TMAX[g.TAG.Index]+273.16), 4))/2*(1.35*RADRatio-0.35)*(0.34-0.14*math.Sqrt(Vapres))
			} else {
				var Glob float64
				if DL > 0 {
					Glob = EXT * (0.19 + 0.55*g.SUND[g.TAG.Index]/DL)
				} else {
					Glob = EXT * 0.19
				}
				RADRatio = 1
				if RS0 > 0 {
					RADRatio = Glob / RS0
				}
				if RADRatio > 1 {
					RADRatio = 1
				}

				RADn = (1-Albedo)*Glob - Bolz*(o.Pow((g.TMIN[g.TAG.Index]+273.16), 4)+o.Pow((g.TMAX[g.TAG.Index]+273.16), 4))/2*(1.35*RADRatio-0.35)*(0.34-0.14*math.Sqrt(Vapres))
			}
			g.ET0 = (0.408 * Deltsat * RADn)
			if g.ET0 < 0 {
				g.ET0 = 0
			}
			VERDU[g.TAG.Index] = g.ET0 * g.FKC * 0.1
		} else if g.ETMETH == 3 {
			// ! ----------------------- Berechnung der Referenzverdunstung Gras nach Penman-Monteith --------------
			// ! -- Notwendige inputs: Temp(Tag) (Tagesmitteltemperatur)
			// !                       Tmin(TAG) (Tagesminimumtemperatur)
			// !                       Tmax(TAG) (Tagesmaximumtemperatur)
			// !                       RH(TAG)   (relative Luftfeuchte %)
			// !                       Alti (Standorthöhe über Normal Null m)
			// !                       Wind(TAG) (mittl. Windgeschw. m/s)
			// !                       WINDHI    (Messhöhe Wind, m)
			// !                       SUND(TAG) ( Sonnenscheindauer, h), alternativ zu Strahlung
			// !                       LAT       (Breitengrad, )
			// !                       RAD(TAG)  (PAR Einstrahlung MJ/m^2/d)
			// ! -- Vordefinierte Konstante
			g.RSTOM = 100.
			Albedo := 0.23
			Bolz := 0.0000000049
			g.FKC = g.FKB
			DL, _, _, EXT, _, _, _ := shDayLength(o, g.TAG.Num, g.LAT)
			RS0 := (0.75 + 0.00002*g.ALTI) * EXT
			//! ---- Berechnung Atmosphärendruck
			ATMPress := 101.3 * o.Pow(((293-(0.0065*g.ALTI))/293), 5.26)
			//! ---- Berechnung Psychrometer-Konstante
			Psych := 0.000665 * ATMPress
			//! ---- Berechnung Sättigungsdampfdruck bei Tmax
			SatPmax := 0.6108 * o.Exp(((17.27 * g.TMAX[g.TAG.Index]) / (237.3 + g.TMAX[g.TAG.Index])))
			//! ---- Berechnung Sättigungsdampfdruck bei Tmin
			SatPmin := 0.6108 * o.Exp(((17.27 * g.TMIN[g.TAG.Index]) / (237.3 + g.TMIN[g.TAG.Index])))
			//! ---- Berechnung mittlerer Sättigungsdampfdruck
			SatP := (SatPmin + SatPmax) / 2
			//! ---- Berechnung aktueller Dampfdruck
			Vapres := SatP * g.RH[g.TAG.Index] / 100
			//! ---- Berechnung Sättigungsdefizit der Luft
			l.SATDEF = SatP * (1 - g.RH[g.TAG.Index]/100)
			//! Deltsat = Steigung der Sättigungsdampfdruck-Temperatur Beziehung
			Deltsat := (4098. * (0.6108 * o.Exp((17.27*g.TEMP[g.TAG.Index])/(g.TEMP[g.TAG.Index]+237.3)))) / o.Pow((g.TEMP[g.TAG.Index]+237.3), 2)
			//! ----- wenn Windgeschwindigkeit Messung nicht in 2m Höhe, dann Umrechnung auf 2m
			if g.WINDHI != 2 {
				g.WIND[g.TAG.Index] = g.WIND[g.TAG.Index] * (4.87 / (o.Log(67.8*g.WINDHI - 5.42)))
			}
			//    ! ----- Berechnung des aerodynamischen Widerstands ra (Raero)
			if g.WIND[g.TAG.Index] < 0.5 { // fixed lower bound for wind speed to 0.5
				g.WIND[g.TAG.Index] = 0.5
			}
			//    ! ----- Berechnung des Oberflächenwiderstands rs mit Stomatawiderstand = 100 s/m (Rsurf)
			Rsurf := g.RSTOM / 1.44
			if g.RAD[g.TAG.Index] > 0 {
				// ! Berechnung der Nettostrahlung aus Globalstrahlung und Sonnenscheindauer
				if RS0 > 0 {
					RADRatio = g.RAD[g.TAG.Index] * 2 / RS0
					if RADRatio > 1 {
						RADRatio = 1
					}
				} else {
					RADRatio = 1
				}
				RADn = (1-Albedo)*g.RAD[g.TAG.Index]*2 - Bolz*(o.Pow((g.TMIN[g.TAG.Index]+273.16), 4)+o.Pow((g.TMAX[g.TAG.Index]+273.16), 4))/2*(1.35*RADRatio-0.35)*(0.34-0.14*math.Sqrt(Vapres))
			} else {
				var Glob float64
				if DL > 0 {
					Glob = EXT * (0.19 + 0.55*g.SUND[g.TAG.Index]/DL)
				} else {
					Glob = EXT * 0.19
				}
				RADRatio = 1
				if RS0 > 0 {
					RADRatio = Glob / RS0
				}
				if RADRatio > 1 {
					RADRatio = 1
				}
				RADn = (1-Albedo)*Glob - Bolz*(o.Pow((g.TMIN[g.TAG.Index]+273.16), 4)+o.Pow((g.TMAX[g.TAG.Index]+273.16), 4))/2*(1.35*RADRatio-0.35)*(0.34-0.14*math.Sqrt(Vapres))
			}
			//    ! ------------------------ Berechnung der Referenzevapotranspiration --------------------
			g.ET0 = ((0.408 * Deltsat * RADn) + (Psych * (900 / (g.TEMP[g.TAG.Index] + 273)) * g.WIND[g.TAG.Index] * l.SATDEF)) / (Deltsat + Psych*(1+(Rsurf/208)*g.WIND[g.TAG.Index]))
			if g.ET0 < 0 {
				g.ET0 = 0
			}
			VERDU[g.TAG.Index] = g.ET0 * g.FKC * 0.1
		}
		precap = VERDU[g.TAG.Index]
		if VERDU[g.TAG.Index] > 0.6 {
			VERDU[g.TAG.Index] = 0.6
		}
		if VERDU[g.TAG.Index] < 0 {
			VERDU[g.TAG.Index] = 0
		}
	}
	_ = FK
	return precap, VERDU[g.TAG.Index]
}
