package main

import (
	"bufio"
	"math"
	"os"
	"path/filepath"
	"strconv"
	"strings"
	"time"
)

// weatherRef is what a CORRECT loader hands to Soiltemp, derived from the weather FILE alone
// (csv layout of the examples: iso-date,tmin,tavg,tmax,precip,globrad,... ; 2 header lines):
// PAR = globrad/2, a missing globrad (none value or no such column) = 0, TMIN/TMAX swapped when
// tmin > tmax+0.5 (weather_input.go:604, 671-673, 684-709).
type weatherDay struct {
	tmin, tavg, tmax, par float64
	radMissing, tavgOK    bool
}

type weatherRef map[string]weatherDay // key: 2006-01-02

func loadWeatherRef(work string, args []string, none float64) weatherRef {
	folder, fcode := "historical", ""
	for _, a := range args {
		if strings.HasPrefix(a, "WeatherFolder=") {
			folder = a[len("WeatherFolder="):]
		} else if strings.HasPrefix(a, "fcode=") {
			fcode = a[len("fcode="):]
		}
	}
	f, err := os.Open(filepath.Join(work, "weather", folder, fcode+".csv"))
	if err != nil {
		return nil
	}
	defer f.Close()
	sc := bufio.NewScanner(f)
	if !sc.Scan() {
		return nil
	}
	col := map[string]int{}
	for i, h := range strings.Split(strings.TrimSpace(sc.Text()), ",") {
		col[h] = i
	}
	for _, need := range []string{"iso-date", "tmin", "tavg", "tmax"} {
		if _, ok := col[need]; !ok {
			return nil
		}
	}
	sc.Scan() // units
	ref := weatherRef{}
	for sc.Scan() {
		t := strings.Split(strings.TrimSpace(sc.Text()), ",")
		if len(t) <= col["tmax"] {
			continue
		}
		num := func(name string) (float64, bool) {
			i, ok := col[name]
			if !ok || i >= len(t) {
				return 0, false
			}
			v, err := strconv.ParseFloat(t[i], 64)
			return v, err == nil
		}
		var d weatherDay
		d.tmin, _ = num("tmin")
		d.tmax, _ = num("tmax")
		d.tavg, d.tavgOK = num("tavg")
		if d.tavg == none {
			d.tavgOK = false
		}
		if d.tmin > d.tmax+0.5 {
			d.tmin, d.tmax = d.tmax, d.tmin
		}
		if g, ok := num("globrad"); ok && g != none {
			d.par = g / 2
		} else {
			d.radMissing = true
		}
		ref[t[col["iso-date"]]] = d
	}
	return ref
}

func (w weatherRef) day(year, doy int) (weatherDay, bool) {
	if w == nil {
		return weatherDay{}, false
	}
	d, ok := w[time.Date(year, 1, 1, 0, 0, 0, 0, time.UTC).AddDate(0, 0, doy-1).Format("2006-01-02")]
	return d, ok
}

// surfaceRef: the surface value of soiltemp.go:27-45 for the given radiation and air temperatures
func surfaceRef(lai, eta, par, temp, tmin, tmax, t00 float64) float64 {
	radiat := 0.0
	if lai < 3 {
		scov := 1 - math.Exp(-lai)
		if scov < 0 {
			scov = 0
		}
		radiat = par*200*(1-scov) - eta*10*(2.498-0.00242*temp)*10
	}
	if radiat > 833 {
		return (1-0.31)*(tmin+(tmax-tmin)*math.Sqrt(0.0003*radiat)) + 0.31*t00
	}
	return (tmin + tmax) / 2
}

// configuredTBase: the lower-boundary temperature the CONFIGURATION asks for — AnnualAverageTemperature of the batch
// line, else of the project's config.yml, else the default 8.7 (config.go:120, 218); read independently of hermes
func configuredTBase(work string, args []string) (float64, string) {
	project := ""
	for _, a := range args {
		if strings.HasPrefix(a, "project=") {
			project = a[len("project="):]
		}
	}
	for _, a := range args {
		if strings.HasPrefix(a, "AnnualAverageTemperature=") {
			if v, err := strconv.ParseFloat(a[len("AnnualAverageTemperature="):], 64); err == nil {
				return v, "batch line"
			}
		}
	}
	if f, err := os.Open(filepath.Join(work, "project", project, "config.yml")); err == nil {
		defer f.Close()
		sc := bufio.NewScanner(f)
		for sc.Scan() {
			l := sc.Text()
			if strings.HasPrefix(l, "AnnualAverageTemperature:") {
				t := strings.TrimSpace(l[len("AnnualAverageTemperature:"):])
				if i := strings.Index(t, "#"); i >= 0 {
					t = strings.TrimSpace(t[:i])
				}
				if v, err := strconv.ParseFloat(strings.Trim(t, "\"'"), 64); err == nil {
					return v, "config.yml"
				}
			}
		}
	}
	return 8.7, "default"
}
