package main

import (
	"bufio"
	"flag"
	"fmt"
	"math"
	"os"
	"path/filepath"
	"reflect"
	"strconv"
	"strings"

	"github.com/zalf-rpm/Hermes2Go/hermes"
)

func init() { commands["trace"] = traceCmd }

// traceCmd runs batch lines in-process (working dir = scratch copy of the examples tree) with the
// day-loop probe and emits
//   {"k":"water",...}   sampled Water transitions of reachable states (same format as c01)
//   {"k":"day",...}     per simulated day: sub-step count, wdt, storage before/after, flux sums, residual
//   {"k":"run",...}     per line: success/error
// plus ORACLE lines when the day's water balance does not close / a state value is not finite / out of bounds.
func traceCmd(args []string) {
	fs := flag.NewFlagSet("trace", flag.ExitOnError)
	work := fs.String("work", ".", "scratch copy of the examples tree")
	linesFile := fs.String("lines", "", "file with batch lines")
	seed := fs.Uint64("seed", 1, "seed")
	waterEvery := fs.Int("water-every", 25, "emit about one Water transition in this many")
	nEvery := fs.Int("nitro-every", 0, "emit about one mineral/nmove transition in this many (0 = none)")
	firstLine := fs.Int("first-line", 0, "number given to the first batch line (records and oracle lines carry line=<n>)")
	fs.Parse(args)
	defer stdout.Flush()
	r := newRng(*seed)
	f, err := os.Open(*linesFile)
	if err != nil {
		panic(err)
	}
	sc := bufio.NewScanner(f)
	lineNo := *firstLine
	for sc.Scan() {
		line := sc.Text()
		if len(line) == 0 {
			continue
		}
		nitroEvery = *nEvery
		traceLine(*work, line, lineNo, r, *waterEvery)
		lineNo++
	}
}

var nitroEvery int

type dayAcc struct {
	zeit                       int
	s0, fluss0                 float64
	sumTP, sumQ, sumQD, sumWdt float64
	notFits                     bool
	steps                      int
	wdt                        float64
	excluded                   bool
	grw0                       float64
	wgStart                    [21]float64
	// nitrogen budget of the day (from the "evatra-pre" probe to "dayend")
	nC1, nAufna, nMin, nUms, nN2o, nOut, nDrain, nDenit float64
	nMinC1                                              float64
	nPesum, nNfixsum, nAufna1                           float64
	nAkf                                                int
	nUnstable, nUnstableEarly                           bool
	nDsumm, nDungbed                                    float64
}

var prevDayEndC1 = math.NaN()
var prevDayEndCnt [3]float64
var unstableDays, unstableEarlyDays, laterSubstepNitroCalls int
var bookPre [5]float64
var minPre [4][2]float64
var prevStage, prevNaos0, prevCropN float64
var prevAkf, resprouts, perCropFixChecked int
var preHarvestNfix, perCropFixWant float64
var perCropFixPending bool
var perCropFixIdx int
var tableParams = map[uint64][3][21]float64{}
var tableLevelRepeats int

func bookSums(g *hermes.GlobalVarsMain) [5]float64 {
	var a, b float64
	for z := 0; z < len(g.NFOS); z++ {
		a += g.NFOS[z] + g.MINFOS[z]
		b += g.NAOS[z] + g.MINAOS[z]
	}
	return [5]float64{a, b, g.DSUMM, g.NH4Sum, g.NFERTSIM}
}
var prevDayEndZeit = -1
var prevDayEndStorage = math.NaN()
var prevDayEndGRW = math.NaN()
var gwfcPrevZeit = -10
var gwfcPrevGRW = math.NaN()
var gwfcChanged = false

func nsum(g *hermes.GlobalVarsMain) (c1, minp, minC1 float64) {
	minC1 = math.Inf(1)
	for i := 0; i < g.N; i++ {
		c1 += g.C1[i]
		minC1 = math.Min(minC1, g.C1[i])
	}
	for i := 0; i < len(g.MINAOS); i++ {
		minp += g.MINAOS[i] + g.MINFOS[i]
	}
	return
}

func storage(g *hermes.GlobalVarsMain, which int) float64 {
	s := 0.0
	for i := 0; i < g.N; i++ {
		s += g.WG[which][i] * g.DZ.Num
	}
	return s
}

// irrigationFile reads the project's irrigation schedule for the plot of a batch line independently of the model's
// reader: rows "field mm mg/l date" of irr_<project>.txt whose field id is the one the polygon file gives the plot.
// Returns date text -> (mm, mg/l); nil when the plot has no file irrigation.
func irrigationFile(work, line string) map[string][2]float64 {
	var project, plot string
	for _, tok := range strings.Fields(line) {
		if strings.HasPrefix(tok, "project=") {
			project = strings.TrimPrefix(tok, "project=")
		}
		if strings.HasPrefix(tok, "plotNr=") {
			plot = strings.TrimPrefix(tok, "plotNr=")
		}
	}
	dir := filepath.Join(work, "project", project)
	pf, err := os.ReadFile(filepath.Join(dir, "poly_"+project+".txt"))
	if err != nil {
		return nil
	}
	field := ""
	for _, l := range strings.Split(string(pf), "\n") {
		t := strings.Fields(l)
		if len(t) >= 6 && t[0] == plot && t[5] == "1" {
			field = t[2]
		}
	}
	if field == "" {
		return nil
	}
	irf, err := os.ReadFile(filepath.Join(dir, "irr_"+project+".txt"))
	if err != nil {
		return nil
	}
	out := map[string][2]float64{}
	for _, l := range strings.Split(string(irf), "\n") {
		t := strings.Fields(l)
		if len(t) >= 4 && t[0] == field {
			mm, e1 := strconv.ParseFloat(t[1], 64)
			mgl, e2 := strconv.ParseFloat(t[2], 64)
			if e1 == nil && e2 == nil {
				out[t[3]] = [2]float64{mm, mgl}
			}
		}
	}
	return out
}

func traceLine(work, line string, lineNo int, r *rng, waterEvery int) {
	var day, nday dayAcc
	prevDayEndZeit = -1
	tableParams = map[uint64][3][21]float64{}
	preHarvestNfix, perCropFixPending = 0, false
	gwfcPrevZeit, gwfcPrevGRW, gwfcChanged = -10, math.NaN(), false
	irrFile := irrigationFile(work, line)
	irrByZeit := map[int][2]float64(nil)
	irrSeen := 0
	var pre struct {
		g  hermes.GlobalVarsMain
		l  hermes.WaterSharedVars
		ok bool
	}
	days, sub := 0, 0
	hermes.VerifProbe = func(stage string, zeit, subd int, wdt float64, g *hermes.GlobalVarsMain, w *hermes.WaterSharedVars, n *hermes.NitroSharedVars) {
		switch stage {
		case "evatra-pre":
			if perCropFixPending {
				perCropFixPending = false
				if g.NfixP != 0 || perCropFixWant == 0 {
					perCropFixChecked++
					if math.Abs(g.NfixP-perCropFixWant) > 1e-9*(1+math.Abs(g.NFIXSUM)) {
						oracleFail("per-crop-fixation line=%d zeit=%d crop-index=%d reported=%v fixed-since-the-previous-harvest=%v", lineNo, zeit-1, perCropFixIdx, g.NfixP, perCropFixWant)
					}
				}
			}
			// C06/C15: the groundwater-change block of run.go on the backup route (explicit values or a PTF):
			// after a change the capacities are set_fc_gw(level, saved values); nothing else moves them
			if g.PTF != 0 || g.CAPPAR != 0 {
				if zeit == gwfcPrevZeit+1 && g.GRW != gwfcPrevGRW {
					gwfcChanged = true
					emit(jobj{"k": "gwfc", "line": lineNo, "zeit": zeit, "in": jobj{"grw": hx(g.GRW), "w": hxs(g.W_Backup[:g.N]), "porges": hxs(g.PORGES_Backup[:g.N])}, "out": hxs(g.W[:g.N])})
				}
				if gwfcChanged {
					first := int(g.GRW + 1)
					for l := 1; l <= g.N; l++ {
						w, fc, ps := g.W[l-1], g.W_Backup[l-1], g.PORGES_Backup[l-1]
						bad := (l < first && w != fc) || (l > first && w != ps) ||
							(l == first && (w < math.Min(fc, ps)-1e-12 || w > math.Max(fc, ps)+1e-12)) ||
							g.WMIN[l-1] != g.WMIN_Backup[l-1] || g.PORGES[l-1] != ps || g.WNOR[l-1] != g.WNOR_Backup[l-1]
						if bad {
							oracleFail("fc-after-gw-change line=%d zeit=%d layer=%d grw=%v w=%v soil-fc=%v pore-volume=%v wmin=%v soil-wmin=%v", lineNo, zeit, l, g.GRW, w, fc, ps, g.WMIN[l-1], g.WMIN_Backup[l-1])
							break
						}
					}
				}
			}
			// C06 (every route): capacities, pore volume, dryness limit and water content of a layer are volume fractions:
			// finite and within [0, 1]; on the texture-table route (Hydro is re-read at every level change) a layer's
			// parameters are a function of the level: the same level later in the run gives the same values
			for l := 0; l < g.N; l++ {
				for vi, v := range []float64{g.W[l], g.PORGES[l], g.WMIN[l], g.WG[0][l]} {
					if math.IsNaN(v) || v < 0 || v > 1 {
						oracleFail("volume-fraction-out-of-range line=%d zeit=%d layer=%d what=%s value=%v grw=%v", lineNo, zeit, l+1,
							[]string{"field-capacity", "pore-volume", "wilting-point", "water-content"}[vi], v, g.GRW)
						l = g.N
						break
					}
				}
			}
			if g.PTF == 0 && g.CAPPAR == 0 {
				key := math.Float64bits(g.GRW)
				cur := [3][21]float64{g.W, g.PORGES, g.WMIN}
				if was, ok := tableParams[key]; ok {
					for l := 0; l < g.N; l++ {
						if was[0][l] != cur[0][l] || was[1][l] != cur[1][l] || was[2][l] != cur[2][l] {
							oracleFail("table-params-not-a-function-of-level line=%d zeit=%d layer=%d grw=%v fc=%v was=%v pore-volume=%v was=%v", lineNo, zeit, l+1, g.GRW, cur[0][l], was[0][l], cur[1][l], was[1][l])
							break
						}
					}
					tableLevelRepeats++
				} else {
					tableParams[key] = cur
				}
			}
			gwfcPrevZeit, gwfcPrevGRW = zeit, g.GRW
			c1, minp, minC1 := nsum(g)
			nday = dayAcc{nDungbed: g.DUNGBED, nDsumm: g.DSUMM, nC1: c1, nAufna: g.AUFNASUM, nMin: minp, nUms: g.UMS, nN2o: g.N2onitsum, nOut: g.OUTSUM, nDrain: g.DRAINLOSS, nDenit: g.CUMDENIT, nMinC1: minC1, nPesum: g.PESUM, nNfixsum: g.NFIXSUM, nAkf: g.AKF.Index}
			// deposition / irrigation N since yesterday's end of day (C02)
			meas := false
			for _, m := range g.MESS {
				if m == zeit && m != 0 {
					meas = true
				}
			}
			// C02 over a run: the three counters of the balance are carried over the day boundary unchanged (or reset to
			// zero by the annual reset) - the carried state of DayNitroRun.nrun
			if prevDayEndZeit == zeit-1 {
				for ci, pair := range [][2]float64{{g.OUTSUM, prevDayEndCnt[0]}, {g.DRAINLOSS, prevDayEndCnt[1]}, {g.CUMDENIT, prevDayEndCnt[2]}} {
					if pair[0] != pair[1] && pair[0] != 0 {
						oracleFail("n-counter-not-carried line=%d zeit=%d counter=%s value=%v end-of-yesterday=%v", lineNo, zeit, []string{"OUTSUM", "DRAINLOSS", "CUMDENIT"}[ci], pair[0], pair[1])
					}
				}
			}
			if prevDayEndZeit == zeit-1 && !meas {
				d := c1 - prevDayEndC1
				dep := g.DEPOS / 365 * g.DT.Num
				if g.EffectiveIRRIG == 0 && math.Abs(d-dep) > 1e-9*(1+math.Abs(c1)) {
					oracleFail("deposition line=%d zeit=%d delta=%v expected=%v", lineNo, zeit, d, dep)
				}
				if g.EffectiveIRRIG > 0 && d < dep-1e-9*(1+math.Abs(c1)) {
					oracleFail("irrigation-n line=%d zeit=%d delta=%v deposition=%v", lineNo, zeit, d, dep)
				}
				// C02 "plus N in irrigation water": with irrigation from file the soil gains exactly amount x concentration
				// of the file's entry for THIS date (read here independently of the model's reader)
				if irrFile != nil && !g.AUTOIRRI { // with automatic irrigation the file is not read
					if irrByZeit == nil {
						irrByZeit = map[int][2]float64{}
						for dateText, v := range irrFile {
							if _, mas := g.Datum(dateText); mas > 0 {
								irrByZeit[mas] = v
							}
						}
					}
					if v, ok := irrByZeit[zeit]; ok {
						want := v[0] * v[1] * 0.01
						if math.Abs(g.EffectiveIRRIG-v[0]/10) > 1e-12 || math.Abs(d-dep-want) > 1e-9*(1+math.Abs(c1)) {
							oracleFail("irrigation-file-n line=%d zeit=%d water=%v file-mm=%v delta-minus-deposition=%v file-n=%v", lineNo, zeit, g.EffectiveIRRIG*10, v[0], d-dep, want)
						}
						irrSeen++
					} else if g.EffectiveIRRIG > 0 {
						oracleFail("irrigation-not-in-file line=%d zeit=%d water=%v", lineNo, zeit, g.EffectiveIRRIG*10)
					}
				}
			}
		case "nitro-pre":
			if subd == 1 {
				nday.nPesum, nday.nAufna1 = g.PESUM, g.AUFNASUM
			}
			bookPre = bookSums(g)
			if subd == 1 {
				for z := 0; z < 4; z++ {
					minPre[z] = [2]float64{g.MINAOS[z], g.MINFOS[z]}
				}
			}
			if nitroEvery > 0 && (r.intn(nitroEvery) == 0 || (subd > 1 && r.intn(3) == 0)) {
				gg, ll := *g, *n
				if subd == 1 {
					mineralCase("trace", &gg, &ll)
				}
				nmoveCase("trace", &gg, &ll, wdt, subd, zeit)
			}
		case "nitro":
			// C07 "uptake and fixation are credited to the crop exactly once per day": over the Nitro call of sub-step 1 the
			// crop's N sum gains the uptake counter's gain plus TODAY's fixation as the crop module computed it (g.NFIX; zero
			// for a non-legume) while a crop stands, over later sub-steps nothing
			if subd == 1 && g.AKF.Index == nday.nAkf {
				dP, dA := g.PESUM-nday.nPesum, g.AUFNASUM-nday.nAufna1
				want := 0.0
				if zeit >= g.SAAT[g.AKF.Index] && zeit <= g.ERNTE2[g.AKF.Index] {
					want = g.NFIX
				}
				if dP >= -1e-12 && math.Abs(dP-dA-want) > 1e-9*(1+math.Abs(g.PESUM)) {
					oracleFail("crop-n-credit line=%d zeit=%d crop-n-gain=%v uptake-counter-gain=%v fixation-of-the-day=%v legume=%v", lineNo, zeit, dP, dA, want, g.LEGUM)
				}
			}
			// C07 "organic and fertiliser bookkeeping exact ... regardless of how many sub-steps the day is split into":
			// fertiliser (manual, automatic, organic after harvest / sowing), residues and tillage are booked on sub-step 1;
			// over the Nitro call of a LATER sub-step the pool + counter sums, applied fertiliser, applied ammonium and the
			// simulated-fertiliser total do not move
			// C07 "what mineralisation removes from the organic pools is exactly what the counters gain": a layer whose mineralised-amount
			// counters did not move today and that dissolved / nitrified nothing has NO source term for the transport step (a source
			// term left over from an earlier day would feed mineral N that no pool lost)
			if subd == 1 {
				for z := 0; z < g.IZM/g.DZ.Index && z < 4; z++ {
					if g.MINAOS[z] == minPre[z][0] && g.MINFOS[z] == minPre[z][1] && n.DUMS[z] == 0 && n.DNH4UMS[z] == 0 && math.Abs(g.DN[z]) > 1e-12 {
						oracleFail("source-term-without-pool-loss line=%d zeit=%d layer=%d dn=%v wg=%v porges=%v", lineNo, zeit, z+1, g.DN[z], g.WG[0][z], g.PORGES[z])
					}
				}
			}
			if subd > 1 {
				bp := bookSums(g)
				for bi := range bp {
					if math.Abs(bp[bi]-bookPre[bi]) > 1e-9*(1+math.Abs(bookPre[bi])) {
						oracleFail("booked-in-later-substep line=%d zeit=%d subd=%d what=%s before=%v after=%v", lineNo, zeit, subd,
							[]string{"NFOS+MINFOS", "NAOS+MINAOS", "DSUMM", "NH4Sum", "NFERTSIM"}[bi], bookPre[bi], bp[bi])
						break
					}
				}
				laterSubstepNitroCalls++
			}
			if g.C1NotStable != "" {
				nday.nUnstable = true
				if subd < day.steps {
					nday.nUnstableEarly = true
				}
			}
			if nitroEvery > 0 && subd == day.steps && g.BART[0][0] != 'H' && r.intn(nitroEvery*2) == 0 {
				gg := *g
				denitCase("trace", &gg)
			}
			// peat soils: run.go calls Denitmo instead (three 30 cm blocks): replayed on the day's pre-call state
			if nitroEvery > 0 && subd == day.steps && g.BART[0][0] == 'H' && g.N >= 9 && r.intn(nitroEvery) == 0 {
				gg := *g
				denitmoCase("trace", &gg)
			}
		case "evatra":
			day = dayAcc{zeit: zeit, s0: storage(g, 0), fluss0: g.FLUSS0, grw0: g.GRW}
			// C01: nothing creates or removes water between the end of one day and the start of the next
			// (constant groundwater level; measurement-overwrite days excluded)
			if prevDayEndZeit == zeit-1 && math.Abs(g.GRW-prevDayEndGRW) <= 1e-9 {
				isMeas := false
				for _, m := range g.MESS {
					if m == zeit && m != 0 {
						isMeas = true
					}
				}
				if !isMeas && !(math.Abs(day.s0-prevDayEndStorage) <= 1e-12*(1+math.Abs(day.s0))) {
					oracleFail("day-boundary-storage line=%d zeit=%d end-of-yesterday=%v start-of-today=%v grw=%v", lineNo, zeit, prevDayEndStorage, day.s0, g.GRW)
				}
			}
			day.wgStart = g.WG[0]
			for _, m := range g.MESS {
				if m == zeit && m != 0 {
					day.excluded = true
				}
			}
		case "steps":
			day.steps, day.wdt = subd, wdt
			if subd > 1 || r.intn(40) == 0 {
				emit(jobj{"k": "steps", "line": lineNo, "zeit": zeit, "fluss0": hx(g.FLUSS0), "regen": hx(g.REGEN[g.TAG.Index]),
					"w": hxs(g.W[:g.N]), "wg0": hxs(g.WG[0][:g.N]), "n": subd, "wdt": hx(wdt)})
			}
		case "water-pre":
			pre.ok = false
			if waterEvery <= 1 || r.intn(waterEvery) == 0 || (subd > 1 && r.intn(4) == 0) {
				pre.g, pre.l, pre.ok = *g, *w, true
			}
		case "water":
			sub++
			if pre.ok {
				// replay the kernel on the saved pre-state so that inputs and outputs are emitted together
				gg, ll := pre.g, pre.l
				waterCase("trace", &gg, &ll, wdt, subd, zeit)
			}
			for i := 0; i < g.N; i++ {
				day.sumTP += g.TP[i] * wdt
				// hypothesis of C06_lower_bound_day_nonevap: the clamped uptake of the day, less one sub-step, fits between
				// field capacity and the dryness limit
				if subd == 1 && g.TP[i]*(1-wdt) > (g.W[i]-g.WMIN[i]/3)*10 {
					day.notFits = true
				}
			}
			day.sumQ += g.Q1[g.N]
			day.sumQD += g.QDRAIN
			day.sumWdt += wdt
		case "dayend":
			days++
			{
				c1, minp, minC1 := nsum(g)
				dC1 := c1 - nday.nC1
				rhs := -(g.AUFNASUM - nday.nAufna) + (minp - nday.nMin) + (g.UMS - nday.nUms) - (g.N2onitsum - nday.nN2o) -
					(g.OUTSUM - nday.nOut) - (g.DRAINLOSS - nday.nDrain) - (g.CUMDENIT - nday.nDenit) + (g.DUNGBED - nday.nDungbed)
				res := dC1 - rhs
				scale := math.Abs(c1) + math.Abs(g.AUFNASUM-nday.nAufna) + math.Abs(g.OUTSUM-nday.nOut) + math.Abs(minp-nday.nMin)
				clean := minC1 >= 1 && nday.nMinC1 >= 1 && !nday.nUnstable
				emit(jobj{"k": "nday", "line": lineNo, "zeit": zeit, "res": res, "clean": clean, "outn_bottom": g.OUTN == g.N, "unstable": nday.nUnstable, "steps": day.steps, "ums": g.UMS, "dsumm": g.DSUMM, "mz": g.MZ, "meas": day.excluded})
				if g.OUTN == g.N && g.N >= 2 {
					if !(res >= -1e-8*(1+scale)) {
						oracleFail("n-balance-loss line=%d zeit=%d steps=%d residual=%g", lineNo, zeit, day.steps, res)
					} else if clean && !(res <= 1e-8*(1+scale)) {
						oracleFail("n-balance-gain line=%d zeit=%d steps=%d residual=%g", lineNo, zeit, day.steps, res)
					}
				}
				// C02 "instability flag": a sub-step whose transport raised the per-step flag marks the run (the flag that is
				// reported with the crop results), whichever sub-step of the day it was
				if nday.nUnstable && g.C1NotStableErr == "" {
					oracleFail("instability-flag-lost line=%d zeit=%d steps=%d", lineNo, zeit, day.steps)
				}
				if nday.nUnstable {
					unstableDays++
					if nday.nUnstableEarly {
						unstableEarlyDays++
					}
				}
				// nothing lives below the profile: mineral N of the array cells beyond layer N stays zero
				for i := g.N; i < len(g.C1); i++ {
					if g.C1[i] != 0 {
						oracleFail("mineral-n-below-profile line=%d zeit=%d cell=%d value=%v layers=%d", lineNo, zeit, i+1, g.C1[i], g.N)
						break
					}
				}
				// C02 "plus dissolved mineral fertiliser": the dissolved total never goes down on an ordinary day
				if !day.excluded && g.UMS < nday.nUms-1e-9*(1+math.Abs(nday.nUms)) {
					oracleFail("negative-dissolution line=%d zeit=%d ums-before=%v ums-after=%v dsumm=%v", lineNo, zeit, nday.nUms, g.UMS, g.DSUMM)
				}
				// C07: the crop's N is never negative; when a permanent crop re-sprouts on its own (stage falls back from > 4
				// outside a harvest) the N of the dying organs moves from the crop to the slow pool of the top layer: the pool
				// does not gain more than the crop loses
				if g.PESUM < -1e-9 || math.IsNaN(g.PESUM) {
					oracleFail("crop-n-negative line=%d zeit=%d value=%v", lineNo, zeit, g.PESUM)
				}
				if g.DAUERKULT && prevStage > 4 && g.INTWICK.Num <= 2 && prevAkf == g.AKF.Index && prevDayEndZeit == zeit-1 {
					resprouts++
					if gain, loss := g.NAOS[0]-prevNaos0, prevCropN-g.PESUM; gain > loss+5 {
						oracleFail("resprouting-creates-n line=%d zeit=%d pool-gain=%v crop-loss=%v", lineNo, zeit, gain, loss)
					}
				}
				prevStage, prevAkf, prevNaos0, prevCropN = g.INTWICK.Num, g.AKF.Index, g.NAOS[0], g.PESUM
				// C07 "N fixation is credited to the crop exactly once": the per-crop fixation figure the day loop derives on the
				// day before a harvest (g.NfixP, written with the pre-harvest / daily outputs) is what was fixed since the
				// previous such day - no crop is credited with an earlier crop's fixation again
				// (the figure is written after the end-of-day probe: it is read at the first probe of the next day)
				if zeit == g.ERNTE[g.AKF.Index]-1 {
					perCropFixWant, perCropFixPending, perCropFixIdx = g.NFIXSUM-preHarvestNfix, true, g.AKF.Index
					preHarvestNfix = g.NFIXSUM
				}
				// C07: fertiliser applied is a cumulative total: it does not go down on an ordinary day
				if !day.excluded && g.DSUMM < nday.nDsumm-1e-9*(1+math.Abs(nday.nDsumm)) {
					oracleFail("applied-fertiliser-decreases line=%d zeit=%d before=%v after=%v autofert=%v", lineNo, zeit, nday.nDsumm, g.DSUMM, g.AUTOFERT)
				}
				// C07: dissolved fertiliser never exceeds fertiliser applied (also across measurement-overwrite days)
				if g.UMS > g.DSUMM+1e-9*(1+math.Abs(g.DSUMM)) || g.UMS < -1e-9 {
					oracleFail("dissolved-exceeds-applied line=%d zeit=%d ums=%v dsumm=%v", lineNo, zeit, g.UMS, g.DSUMM)
				}
				// C07, the ammonium pair of the same clause: what has been nitrified of the ammonium fertiliser never exceeds the ammonium
				// applied (also across measurement-overwrite days), and the N2O counters fed by it are finite and never negative
				if g.NH4UMS > g.NH4Sum+1e-9*(1+math.Abs(g.NH4Sum)) || g.NH4UMS < -1e-9 {
					oracleFail("nitrified-exceeds-ammonium-applied line=%d zeit=%d nh4ums=%v nh4sum=%v mz=%d", lineNo, zeit, g.NH4UMS, g.NH4Sum, g.MZ)
				}
				if !(g.N2onitsum >= -1e-9) || !(g.N2onitDaily >= -1e-9) || !finite(g.N2onitsum, g.N2onitDaily) {
					oracleFail("n2o-counter-negative line=%d zeit=%d n2onitsum=%v n2onitdaily=%v", lineNo, zeit, g.N2onitsum, g.N2onitDaily)
				}
				prevDayEndC1, prevDayEndZeit = c1, zeit
				prevDayEndCnt = [3]float64{g.OUTSUM, g.DRAINLOSS, g.CUMDENIT}
				prevDayEndStorage, prevDayEndGRW = storage(g, 1), g.GRW
			}
			s1 := storage(g, 1)
			expect := day.s0 + day.fluss0*day.sumWdt - day.sumTP - day.sumQ - day.sumQD
			res := s1 - expect
			scale := math.Abs(day.s0) + math.Abs(day.fluss0) + math.Abs(day.sumQ) + math.Abs(day.sumTP)
			emit(jobj{"k": "day", "line": lineNo, "zeit": zeit, "steps": day.steps, "wdt": hx(day.wdt), "s0": hx(day.s0), "s1": hx(s1),
				"grw": g.GRW, "wurz": g.WURZ, "akf": g.AKF.Index, "crop": fmt.Sprint(g.FRUCHT[g.AKF.Index]), "saat": g.SAAT[g.AKF.Index], "ernte": g.ERNTE[g.AKF.Index], "fluss0": hx(day.fluss0), "tp": hx(day.sumTP), "q": hx(day.sumQ), "qd": hx(day.sumQD), "res": res, "excluded": day.excluded, "uptake_fits": !day.notFits})
			// C06: bounds and finiteness at the end of the day
			maxCaps := 0.0
			for _, c := range g.CAPS {
				maxCaps = math.Max(maxCaps, c)
			}
			for i := 0; i < g.N; i++ {
				wg := g.WG[1][i]
				if !finite(wg) {
					oracleFail("wg-not-finite line=%d zeit=%d layer=%d value=%v", lineNo, zeit, i+1, wg)
					continue
				}
				if wg > g.W[i]+maxCaps+1e-12 {
					oracleFail("wg-above-fc line=%d zeit=%d layer=%d wg=%v fc=%v maxcaps=%v", lineNo, zeit, i+1, wg, g.W[i], maxCaps)
				}
				if !day.excluded && day.wgStart[i] >= g.WMIN[i]/3 && wg < g.WMIN[i]/3-1e-12 {
					oracleFail("wg-below-dryness-limit line=%d zeit=%d layer=%d start=%v end=%v limit=%v steps=%d", lineNo, zeit, i+1, day.wgStart[i], wg, g.WMIN[i]/3, day.steps)
				}
			}
			// cheap check of the core state every day, full reflection walk over every float of the state every 16th day
			core := [][]float64{g.WG[0][:g.N], g.WG[1][:g.N], g.C1[:g.N], g.TD[:g.N], g.TSOIL[0][:g.N], g.NAOS[:4], g.NFOS[:4], g.WORG[:],
				{g.LAI, g.OBMAS, g.WUMAS, g.PESUM, g.ASPOO, g.GEHOB, g.WUGEH, g.FLUSS0, g.ETA, g.SICKER, g.CAPSUM, g.OUTSUM, g.UMS, g.DSUMM, g.GRW, g.REDUK, g.TRREL}}
			for ci, arr := range core {
				if !finite(arr...) {
					oracleFail("state-not-finite line=%d zeit=%d field=core-group-%d", lineNo, zeit, ci)
				}
			}
			if days%16 == 1 {
				if p := firstNonFinite(reflect.ValueOf(g).Elem(), "g", 0); p != "" {
					oracleFail("state-not-finite line=%d zeit=%d field=%s", lineNo, zeit, p)
				}
			}
			if !day.excluded {
				if !(math.Abs(res) <= 1e-9*(1+scale)) {
					oracleFail("day-water-balance line=%d zeit=%d steps=%d wdt=%v fluss0=%v residual=%g", lineNo, zeit, day.steps, day.wdt, day.fluss0, res)
				}
				if !(math.Abs(day.sumWdt-1) <= 1e-12) {
					oracleFail("substeps-cover-day line=%d zeit=%d steps=%d wdt=%v sum=%v", lineNo, zeit, day.steps, day.wdt, day.sumWdt)
				}
			}
		}
	}
	res := runProject(work, splitArgs(line))
	hermes.VerifProbe = nil
	emit(jobj{"k": "run", "line": lineNo, "success": res.Success, "err": res.Err, "days": days, "substeps": sub, "file_irrigations_checked": irrSeen, "per_crop_fixation_checked": perCropFixChecked, "resprouting_events": resprouts, "table_route_level_repeats": tableLevelRepeats, "later_substep_nitro_calls": laterSubstepNitroCalls, "unstable_days": unstableDays, "unstable_early_days": unstableEarlyDays})
}
