package main

import (
	"math"

	"github.com/zalf-rpm/Hermes2Go/hermes"
)

// c09NcOracle evaluates the transcendental calls of the N-content functions (crop.go:317-419) for N-content
// function fkt exactly as the source writes them: the arguments (a1 behind GEHMIN, a2 behind GEHMAX; for Pow the
// base) and the values Go's math library returns for them.  The formulas around them are modelled in Coq.
func c09NcOracle(fkt int, wrsg bool, phyllo, obmas, worg3, suborg, rgb, tendsum float64) (a1, a2, o1, o2, lg float64) {
	lg = math.Log(1 - math.Sqrt2/2)
	switch fkt {
	case 1:
		if wrsg {
			a1, a2 = -.00165*phyllo, -.0017*phyllo
		} else {
			a1, a2 = -.0014*phyllo, -.00147*phyllo
		}
		o1, o2 = math.Exp(a1), math.Exp(a2)
	case 2:
		a1 = -(phyllo - 152.30391*lg - 438.63545) / 152.30391
		a2 = -(phyllo - 201.50354*lg - 385.8318) / 201.50354
		o1, o2 = math.Exp(a1), math.Exp(a2)
	case 3, 7:
		a1 = obmas / 1000
		a2 = a1
		o1 = math.Pow(a1, (-0.25))
		o2 = o1
	case 4:
		a1 = -0.26 * (obmas + worg3) / 1000
		a2 = a1
		o1 = math.Exp(a1)
		o2 = o1
	case 5:
		a1 = (obmas + suborg) / 1000
		a2 = a1
		o1 = math.Pow(a1, rgb)
		o2 = o1
	case 6:
		a1 = -.0007 * phyllo
		a2 = a1
		o1 = math.Exp(a1)
		o2 = o1
	case 8:
		dvkor := 1 / ((tendsum - 200) / (1260 - 200))
		if wrsg {
			a1, a2 = -.00165*dvkor*phyllo, -.0017*dvkor*phyllo
		} else {
			a1, a2 = -.0014*dvkor*phyllo, -.00147*dvkor*phyllo
		}
		o1, o2 = math.Exp(a1), math.Exp(a2)
	case 9:
		a1 = -0.26 * obmas / 1000
		a2 = a1
		o1 = math.Exp(a1)
		o2 = o1
	}
	return
}

func c09Suborg(g *hermes.GlobalVarsMain) float64 {
	if g.SubOrgan > 0 {
		return g.WORG[g.SubOrgan-1]
	}
	return 0
}

// c09NcCase: inputs / oracle values / observed GEHMIN, GEHMAX of one evaluation of the N-content functions
func c09NcCase(pre, post *hermes.GlobalVarsMain, fkt int, wrsg bool, tendsum float64) jobj {
	sub := c09Suborg(pre)
	a1, a2, o1, o2, lg := c09NcOracle(fkt, wrsg, post.PHYLLO, pre.OBMAS, pre.WORG[3], sub, pre.RGB, tendsum)
	return jobj{"fkt": fkt, "wrsg": wrsg, "phyllo": hx(post.PHYLLO), "obmas": hx(pre.OBMAS), "worg3": hx(pre.WORG[3]), "suborg": hx(sub),
		"rga": hx(pre.RGA), "rgb": hx(pre.RGB), "tendsum": hx(tendsum), "lg": hx(lg), "a1": hx(a1), "a2": hx(a2), "o1": hx(o1), "o2": hx(o2),
		"min0": hx(pre.GEHMIN), "max0": hx(pre.GEHMAX), "o_min": hx(post.GEHMIN), "o_max": hx(post.GEHMAX)}
}

type c09Fail func(what string, format string, a ...interface{})

// c09GrowthOracle: dry-matter and nitrogen accounting of one growth day evaluated on the real run
// (pre / post = state before / after PhytoOut, l = shadow CropSharedVars after the call)
func c09GrowthOracle(pre, g *hermes.GlobalVarsMain, l *hermes.CropSharedVars, gtw float64, mterm [5]float64, k1 int, zrk bool,
	maxup float64, cnt int, mass, diff []float64, fail c09Fail) {
	dt, dz := pre.DT.Num, pre.DZ.Num
	n := pre.NRKOM
	if n > 5 {
		n = 5
	}
	last := !(k1+1 < l.NRENTW)
	// ---- N-content thresholds
	for _, v := range []struct {
		n string
		v float64
	}{{"GEHMIN", g.GEHMIN}, {"GEHMAX", g.GEHMAX}} {
		if !finite(v.v) {
			fail(v.n+"-not-finite", "value=%v", v.v)
		} else if v.v <= 0 {
			fail(v.n+"-not-positive", "value=%v NGEFKT=%d", v.v, pre.NGEFKT)
		}
	}
	// ---- dry matter: organ increments = growth - death + transfer of dead mass to organs 4, 5 + the 0.1 kg floors
	lhs, sumG, sumD, tr, floors, scale := 0.0, 0.0, 0.0, 0.0, 0.0, 0.0
	for i := 0; i < n; i++ {
		lhs += g.WORG[i] - pre.WORG[i]
		sumG += l.GORG[i] * dt
		sumD += l.DGORG[i] * dt
		scale += math.Abs(pre.WORG[i]) + math.Abs(g.WORG[i])
		if i < 3 && g.WORG[i] == 0.1 && sameF(l.DGORG[i], pre.WORG[i]/dt+l.GORG[i]) {
			floors += 0.1
		}
		if i >= 3 && !last {
			tr += 0.3 * (l.DGORG[i-1]*dt + l.DGORG[i-2]*dt + l.DGORG[i-3]*dt)
		}
	}
	res := lhs - (sumG - sumD + tr + floors)
	if !(math.Abs(res) <= 1e-9*(1+scale+math.Abs(sumG)+math.Abs(sumD))) {
		fail("dry-matter-balance", "residual=%g increments=%v growth=%v death=%v transfer=%v floors=%v", res, lhs, sumG, sumD, tr, floors)
	}
	// ---- partitioning: what the organs receive = 0.7 * GTW * REDUK * (interpolated row sum) - maintenance
	ratio := g.SUM[k1] / g.TSUM[k1]
	if k1 >= 1 && !(ratio > 1) {
		share, sumM, sumGr := 0.0, 0.0, 0.0
		for i := 0; i < n; i++ {
			share += pre.PRO[k1-1][i] + (pre.PRO[k1][i]-pre.PRO[k1-1][i])*ratio
			sumM += mterm[i]
			sumGr += l.GORG[i]
		}
		want := gtw * 0.7 * share * g.REDUK
		if !(math.Abs(sumGr+sumM-want) <= 1e-9*(1+math.Abs(gtw)+math.Abs(sumM))) {
			fail("partition-balance", "organs=%v maintenance=%v expected=%v share=%v", sumGr, sumM, want, share)
		}
		// assimilates: growth + growth respiration + pool = GTW
		if !(math.Abs(gtw*0.7*g.REDUK+gtw*0.3*g.REDUK+g.ASPOO-gtw) <= 1e-9*(1+math.Abs(gtw))) {
			fail("assimilate-balance", "GTW=%v REDUK=%v ASPOO=%v", gtw, g.REDUK, g.ASPOO)
		}
	}
	// ---- N uptake against the demand of the day and the supply of the soil
	d := 0.0
	if zrk {
		d = (g.GEHMAX*g.OBMAS + (g.WUMAS+g.WORG[3])*pre.WGMAX[k1] - g.PESUM) * dt
	} else {
		d = (g.GEHMAX*g.OBMAS + g.WUMAS*pre.WGMAX[k1] - g.PESUM) * dt
	}
	if d > 6*dt {
		d = 6 * dt
	}
	if d < 0 {
		d = 0
	}
	wulaen := 0.0
	for i := 0; i < g.WURZ; i++ {
		wulaen += g.WUDICH[i] * dz
	}
	if d > wulaen*maxup*dt && !pre.LEGUM {
		d = wulaen * maxup * dt
	}
	sumpe := 0.0
	allNonneg := true
	for i := 0; i < cnt; i++ {
		sumpe += g.PE[i]
		if mass[i] < 0 || diff[i] < 0 {
			allNonneg = false
		}
		lim := math.Max(0, g.C1[i]-.75)
		if g.PE[i] > lim+1e-9*(1+math.Abs(g.C1[i])) {
			fail("uptake-below-soil-minimum", "layer=%d PE=%v C1=%v", i+1, g.PE[i], g.C1[i])
		}
		if mass[i] >= 0 && diff[i] >= 0 && g.PE[i] > mass[i]+diff[i]+1e-9*(1+mass[i]+diff[i]) {
			fail("uptake-above-supply", "layer=%d PE=%v massflow=%v diffusion=%v", i+1, g.PE[i], mass[i], diff[i])
		}
	}
	if allNonneg && sumpe > math.Max(d, 0)+1e-9*(1+math.Abs(d)) {
		fail("uptake-above-demand", "uptake=%v demand=%v", sumpe, d)
	}
}
