package main

import (
	"flag"
	"fmt"
	"math"
	"reflect"

	"github.com/zalf-rpm/Hermes2Go/hermes"
)

func init() { commands["c06"] = c06 }

// c06 emits setFieldCapacityWithGW cases (kernel tie) on synthetic profiles and groundwater levels
func c06(args []string) {
	fs := flag.NewFlagSet("c06", flag.ExitOnError)
	seed := fs.Uint64("seed", 1, "seed")
	n := fs.Int("n", 200, "cases")
	fs.Parse(args)
	defer stdout.Flush()
	r := newRng(*seed)
	for i := 0; i < *n; i++ {
		g := hermes.NewGlobalVarsMain()
		p := genProfile(r)
		g.N = p.N
		copy(g.W[:], p.W)
		copy(g.PORGES[:], p.PORGES)
		switch r.intn(4) {
		case 0:
			g.GRW = float64(r.intn(p.N + 3))
		case 1:
			g.GRW = r.between(0, float64(p.N)+2)
		case 2:
			g.GRW = float64(r.intn(p.N+1)) + []float64{0.25, 0.5, 0.75, 0.999999, 1e-9}[r.intn(5)]
		default:
			g.GRW = r.between(0, 3)
		}
		in := jobj{"grw": hx(g.GRW), "w": hxs(g.W[:p.N]), "porges": hxs(g.PORGES[:p.N])}
		hermes.VerifSetFieldCapacityWithGW(&g)
		emit(jobj{"k": "gwfc", "in": in, "out": hxs(g.W[:p.N])})
		// oracle: below the table FC = pore volume
		first := int(g.GRW + 1)
		for l := first + 1; l <= p.N; l++ {
			if g.W[l-1] != g.PORGES[l-1] {
				oracleFail("fc-below-gw grw=%v layer=%d w=%v porges=%v", g.GRW, l, g.W[l-1], g.PORGES[l-1])
			}
		}
	}
}

// firstNonFinite walks every float64 reachable from v (fields, arrays, slices) and returns the path of the first NaN/Inf
func firstNonFinite(v reflect.Value, path string, depth int) string {
	if depth > 6 {
		return ""
	}
	switch v.Kind() {
	case reflect.Float64:
		f := v.Float()
		if math.IsNaN(f) || math.IsInf(f, 0) {
			return path
		}
	case reflect.Struct:
		for i := 0; i < v.NumField(); i++ {
			if !v.Type().Field(i).IsExported() {
				continue
			}
			if p := firstNonFinite(v.Field(i), path+"."+v.Type().Field(i).Name, depth+1); p != "" {
				return p
			}
		}
	case reflect.Array, reflect.Slice:
		for i := 0; i < v.Len(); i++ {
			if p := firstNonFinite(v.Index(i), fmt.Sprintf("%s[%d]", path, i), depth+1); p != "" {
				return p
			}
		}
	}
	return ""
}
