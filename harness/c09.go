package main

import (
	"bufio"
	"encoding/json"
	"flag"
	"fmt"
	"math"
	"os"
	"path/filepath"
	"reflect"

	"github.com/zalf-rpm/Hermes2Go/hermes"
)

func init() { commands["c09"] = c09Cmd }

// c09Cmd runs batch lines in-process with the day-loop probe and observes hermes.PhytoOut through the
// states before ("water", sub-step 1) and after ("nitro-pre", sub-step 1) the call.
//
// CropSharedVars is private to the run, so the harness keeps a SHADOW of it: on the sowing day it reads
// the crop parameter file with the real reader into its own CropSharedVars, on every later day it runs
// the real hermes.PhytoOut on a copy of the pre-state with that shadow and checks that the copy ends in
// exactly the state the run itself reached (else the shadow is declared lost and reported).  The shadow
// exposes FV, FP, GORG, DGORG.  The values produced by the photosynthesis/respiration code (GTW and the
// maintenance terms MAINT*MANT[i]*0.7) are extracted by a second replay of the real code on a copy
// whose GEHOB is set below every threshold: then REDUK = 0, so ASPOO' = GTW and GORG[i] = -(MAINT*MANT[i]*0.7).
//
// Output:
//   {"k":"day",...}   one PhytoOut transition (inputs, oracle values, observed outputs) for the Coq model
//   {"k":"crop",...}  per harvested crop: sowing date, stage dates, harvest date
//   {"k":"run",...}   per line: success, days, crop days, shadow statistics
//   ORACLE ...        the property itself evaluated on the real run
func c09Cmd(args []string) {
	fs := flag.NewFlagSet("c09", flag.ExitOnError)
	work := fs.String("work", ".", "scratch copy of the examples tree")
	linesFile := fs.String("lines", "", "file with one JSON object per run: {\"args\":..., \"yml\":bool, \"tag\":...}")
	seed := fs.Uint64("seed", 1, "seed")
	every := fs.Int("every", 10, "emit about one plain growth day in this many (days that hit a clamp are always emitted)")
	maxInteresting := fs.Int("max-interesting", 40, "per run and kind of clamp: at most this many always-emitted days")
	fs.Parse(args)
	defer stdout.Flush()
	r := newRng(*seed)
	f, err := os.Open(*linesFile)
	if err != nil {
		panic(err)
	}
	sc := bufio.NewScanner(f)
	sc.Buffer(make([]byte, 1<<20), 1<<20)
	lineNo := 0
	for sc.Scan() {
		if len(sc.Text()) == 0 {
			continue
		}
		var spec struct {
			Args   string `json:"args"`
			Yml    bool   `json:"yml"`
			Tag    string `json:"tag"`
			Every  int    `json:"every"`  // per-line sampling (0 = the command's)
			MaxInt int    `json:"maxint"` // per-line cap of always-emitted days per kind (0 = the command's)
			MaxAll int    `json:"maxall"` // per-line cap of emitted days (0 = none)
		}
		if err := json.Unmarshal(sc.Bytes(), &spec); err != nil {
			panic(err)
		}
		ev, mi := *every, *maxInteresting
		if spec.Every > 0 {
			ev = spec.Every
		}
		if spec.MaxInt > 0 {
			mi = spec.MaxInt
		}
		c09Line(*work, spec.Args, spec.Yml, spec.Tag, lineNo, r, ev, mi, spec.MaxAll)
		lineNo++
	}
}

// c09Perennial: permanent crops by crop code (grass land, pasture, alfalfa); everything else shipped is an annual crop
func c09Perennial(code string) bool { return code == "GR" || code == "GRE" || code == "AA" }

func bits(f float64) uint64 { return math.Float64bits(f) }

func sameF(a, b float64) bool { return bits(a) == bits(b) || (math.IsNaN(a) && math.IsNaN(b)) }

func sameFs(a, b []float64) bool {
	for i := range a {
		if !sameF(a[i], b[i]) {
			return false
		}
	}
	return true
}

// c09Qrez mirrors root() of crop.go:981-990 (oracle value; validated against POTROOTINGDEPTH = 4.5/qrez)
func c09Qrez(veloc, tempsum float64) float64 {
	Tsumbase := math.Log(math.Pow(0.35, 1/1.8)-0.081476) / math.Log(math.Exp(-veloc))
	return math.Max(math.Pow((0.081476+math.Exp(-veloc*(tempsum+Tsumbase))), 1.8), 0.022)
}

// c09RootPow is the power term of root() before the floor 0.022 (oracle input of DevModel.root_qrez)
func c09RootPow(veloc, tempsum float64) float64 {
	Tsumbase := math.Log(math.Pow(0.35, 1/1.8)-0.081476) / math.Log(math.Exp(-veloc))
	return math.Pow((0.081476 + math.Exp(-veloc*(tempsum+Tsumbase))), 1.8)
}

// radiaOracles lists the recorded transcendental values of one radia() call in the order RadiaModel expects them
func radiaOracles(r *radiaRec) map[string]string {
	out := map[string]string{}
	for _, k := range []string{"p2", "ktv", "ktc", "kto", "cossc", "sslae", "logx", "logy", "elai", "ec", "eo", "xarg", "yarg", "ecarg", "eoarg"} {
		out[k] = hx(r.O[k])
	}
	return out
}

func isZRK(c hermes.CropType) bool { return c == hermes.ZR || c == hermes.K }

// c09Maxup mirrors crop.go:663-681 (oracle value)
func c09Maxup(c hermes.CropType, phyllo, tendsum float64) float64 {
	var maxup float64
	if c == hermes.ORH || c == hermes.WRA || c == hermes.SE || c == hermes.LET || c == hermes.WCA ||
		c == hermes.ONI || c == hermes.CEL || c == hermes.GAR || c == hermes.CAR || c == hermes.PMK {
		maxup = 0.09145 - 0.015725*(phyllo/1300)
	} else if c == hermes.SM {
		maxup = 0.074 - 0.01*(phyllo/tendsum)
	} else if c == hermes.ZR {
		maxup = 0.05645 - 0.01*(phyllo/tendsum)
	} else {
		maxup = 0.03145 - 0.015725*(phyllo/1300)
	}
	return maxup
}

func c09Line(work, line string, yml bool, tag string, lineNo int, r *rng, every, maxInteresting, maxAll int) {
	var pre hermes.GlobalVarsMain
	havePre := false
	var shadow hermes.CropSharedVars
	shadowOK := false
	type cropTrack struct {
		akf      int
		sow      int
		lastIdx  int
		stages   [10]int
		stageDoy [10]int
		active   bool
		crop     string
		variety  string
		harvest  int
		maxStage int
		gehobNeg string // cause of the current episode of negative GEHOB ("" = none)
	}
	var tr cropTrack
	days, cropDays, tied, shadowLost, shadowDays, emitted := 0, 0, 0, 0, 0, 0
	interesting := map[string]int{}
	readerCases := map[string]int{}
	dumpFrom, dumpTo := 0, 0
	fmt.Sscanf(os.Getenv("C09_DUMP"), "%d,%d", &dumpFrom, &dumpTo)

	cropName := func(g *hermes.GlobalVarsMain) string {
		return g.CropTypeToString(g.FRUCHT[g.AKF.Index], false)
	}
	ofail := func(g *hermes.GlobalVarsMain, zeit int, what string, format string, a ...interface{}) {
		oracleFail("crop-state:%s crop=%s tag=%s line=%d zeit=%d date=%s %s", what, cropName(g), tag, lineNo, zeit, g.Kalender(zeit), fmt.Sprintf(format, a...))
	}

	hermes.VerifProbe = func(stage string, zeit, subd int, wdt float64, g *hermes.GlobalVarsMain, w *hermes.WaterSharedVars, n *hermes.NitroSharedVars) {
		if subd != 1 {
			if stage == "dayend" {
				days++
			}
			return
		}
		switch stage {
		case "water":
			pre = *g
			havePre = true
		case "nitro-pre":
			if !havePre {
				return
			}
			havePre = false
			ai := pre.AKF.Index
			ran := pre.AKF.Num > 1 && pre.SAAT[ai] > 0 && zeit >= pre.SAAT[ai] && zeit <= pre.ERNTE2[ai]
			if !ran {
				return
			}
			sowing := zeit == pre.SAAT[ai]
			crop := cropName(g)
			if sowing {
				// shadow of CropSharedVars: the real reader on a copy of the state
				g2 := pre
				pn := "PARAM." + crop
				if v := pre.CVARIETY[ai]; len(v) > 0 {
					pn = "PARAM_" + v + "." + crop
				}
				if yml {
					pn += ".yml"
				}
				pn = filepath.Join(work, "parameter", pn)
				if yml {
					hermes.ReadCropParamYml(pn, &shadow, &g2)
				} else {
					hermes.ReadCropParamClassic(pn, &shadow, &g2)
				}
				if pre.CropOverwrite != nil {
					pre.CropOverwrite.OverwriteCropParameters(pn, &g2, &shadow)
				}
				shadowOK = sameFs(g2.TSUM[:], g.TSUM[:]) && sameFs(g2.BAS[:], g.BAS[:]) && g2.NRKOM == g.NRKOM
				// initial organ masses and N concentrations: a second read of the same file into a FRESH state (no rotation history)
				// gives the values of the file; the read at this rotation position must install exactly these unless a
				// PERENNIAL stand is carried over (same crop as the entry before, third or later entry), which keeps its state
				{
					var g0 hermes.GlobalVarsMain
					g0.Session = pre.Session
					var l0 hermes.CropSharedVars
					if yml {
						hermes.ReadCropParamYml(pn, &l0, &g0)
					} else {
						hermes.ReadCropParamClassic(pn, &l0, &g0)
					}
					if pre.CropOverwrite != nil {
						pre.CropOverwrite.OverwriteCropParameters(pn, &g0, &l0)
					}
					if g2.DAUERKULT != c09Perennial(crop) {
						ofail(g, zeit, "permanent-crop-flag-wrong", "read DAUERKULT=%v LEGUM=%v for crop code %s format-yml=%v", g2.DAUERKULT, g2.LEGUM, crop, yml)
					}
					carried := c09Perennial(crop) && pre.AKF.Num > 2 && pre.FRUCHT[ai] == pre.FRUCHT[ai-1]
					wantW, wantG, wantR := g0.WORG, g0.GEHOB, g0.WUGEH
					if carried {
						wantW, wantG, wantR = pre.WORG, pre.GEHOB, pre.WUGEH
					}
					repeat := pre.AKF.Num > 2 && pre.FRUCHT[ai] == pre.FRUCHT[ai-1]
					for i := 0; i < g2.NRKOM && i < 5; i++ {
						if !sameF(g2.WORG[i], wantW[i]) {
							ofail(g, zeit, "initial-organ-mass-not-installed", "organ=%d read=%v expected=%v perennial=%v repeat=%v format-yml=%v", i+1, g2.WORG[i], wantW[i], g2.DAUERKULT, repeat, yml)
							break
						}
					}
					if !sameF(g2.GEHOB, wantG) || !sameF(g2.WUGEH, wantR) {
						ofail(g, zeit, "initial-N-concentration-not-installed", "GEHOB=%v expected=%v WUGEH=%v expected=%v perennial=%v repeat=%v format-yml=%v", g2.GEHOB, wantG, g2.WUGEH, wantR, g2.DAUERKULT, repeat, yml)
					}
					readerCases[fmt.Sprintf("perennial=%v repeat=%v yml=%v", c09Perennial(crop), repeat, yml)]++
				}
				if !c09Perennial(crop) {
					// the real reader run on the copy: the stage days of the crop before must be cleared (initial state of the stage model)
					for k := 0; k < 10; k++ {
						if g2.DEV[k] != 0 {
							ofail(g, zeit, "stage-days-not-cleared-by-reader", "stage=%d DEV=%d", k+1, g2.DEV[k])
							break
						}
					}
				}
				if !shadowOK {
					shadowLost++
					emit(jobj{"k": "shadow-lost", "line": lineNo, "zeit": zeit, "why": "parameter read differs"})
				}
				if tr.active && tr.akf == ai && tr.sow < zeit {
					// the crop of this rotation position was sown before and has not been harvested: sowing it again throws the
					// standing crop back to stage 1 (development runs backwards)
					ofail(g, zeit, "stage-decreased", "resown-while-standing first-sowing=%s stage-before=%d stage-now=%d", g.Kalender(tr.sow), tr.lastIdx+1, g.INTWICK.Index+1)
				}
				if !c09Perennial(crop) {
					// the per-crop reset at sowing: no stage day of a stage this crop has not reached may survive from the crop before
					for k := g.INTWICK.Index + 1; k < 10; k++ {
						if k >= 1 && g.DEV[k] != 0 {
							ofail(g, zeit, "stage-day-not-reset-at-sowing", "stage=%d DEV=%d", k+1, g.DEV[k])
							break
						}
					}
				}
				tr = cropTrack{akf: ai, sow: zeit, lastIdx: g.INTWICK.Index, active: true, crop: crop, variety: pre.CVARIETY[ai]}
				tr.stages[0] = zeit
				if g.INTWICK.Index > 0 {
					// stage reached on the sowing day itself
					for k := 1; k <= g.INTWICK.Index && k < 10; k++ {
						tr.stages[k], tr.stageDoy[k] = zeit, g.TAG.Index+1
					}
				}
			}
			if dumpFrom > 0 && zeit >= dumpFrom && zeit <= dumpTo {
				emit(jobj{"k": "dump", "zeit": zeit, "date": g.Kalender(zeit), "crop": crop, "stage": g.INTWICK.Index, "GEHOB": g.GEHOB, "WUGEH": g.WUGEH,
					"PESUM": g.PESUM, "OBMAS": g.OBMAS, "WUMAS": g.WUMAS, "WORG": g.WORG[:], "LAI": g.LAI, "REDUK": g.REDUK, "GEHMIN": g.GEHMIN,
					"GEHMAX": g.GEHMAX, "PE": g.PE[:g.WURZ], "NFIX": g.NFIX, "WURZ": g.WURZ, "TEMP": g.TEMP[g.TAG.Index], "pre_PESUM": pre.PESUM,
					"pre_GEHOB": pre.GEHOB, "pre_WUGEH": pre.WUGEH, "pre_WORG": pre.WORG[:], "pre_OBMAS": pre.OBMAS, "pre_WUMAS": pre.WUMAS})
			}
			if c09Perennial(crop) {
				// permanent crops are outside the claim (regrowth resets the stage): reader-level checks above only.
				// 'Permanent' is judged by the crop CODE, never by the flag the parameter reader delivered.
				tr.active = false
				return
			}
			if g.DAUERKULT {
				ofail(g, zeit, "annual-crop-flagged-permanent", "DAUERKULT=true LEGUM=%v format-yml=%v", g.LEGUM, yml)
			}
			growing := tr.active && tr.akf == ai && zeit > pre.SAAT[ai] && (g.ERNTE[ai] == 0 || zeit <= g.ERNTE[ai])
			if growing || sowing {
				cropDays++
				// cause of a negative above-ground N concentration: crop.go:741-763 gives the roots the share
				// dWUMAS/(dOBMAS+dWUMAS) of the day's uptake; with shrinking shoot and growing root that share exceeds 1
				if finite(g.GEHOB) && g.GEHOB < 0 {
					if tr.gehobNeg == "" {
						dW := g.WUMAS - pre.WUMAS
						dO := g.OBMAS - pre.OBMAS
						if !sowing && pre.GEHOB >= 0 && g.SUM[0] >= g.TSUM[0] && dW > 0 && dO < 0 && dO+dW > 0 && g.WUGEH > pre.WUGEH {
							tr.gehobNeg = "root-share-above-1"
						} else {
							tr.gehobNeg = "other"
						}
					}
				} else {
					tr.gehobNeg = ""
				}
				c09Oracle(g, zeit, tr.gehobNeg, ofail)
			}
			if growing {
				// development never runs backwards; stage dates
				if g.INTWICK.Index < tr.lastIdx {
					ofail(g, zeit, "stage-decreased", "from=%d to=%d", tr.lastIdx, g.INTWICK.Index)
				}
				if g.INTWICK.Index > tr.lastIdx {
					for k := tr.lastIdx + 1; k <= g.INTWICK.Index && k < 10; k++ {
						tr.stages[k], tr.stageDoy[k] = zeit, g.TAG.Index+1
					}
					if g.DEV[g.INTWICK.Index] != g.TAG.Index+1 {
						ofail(g, zeit, "stage-date-not-today", "stage=%d DEV=%d doy=%d", g.INTWICK.Index, g.DEV[g.INTWICK.Index], g.TAG.Index+1)
					}
					if g.DevStateDate[g.INTWICK.Index] != g.Kalender(zeit) {
						ofail(g, zeit, "stage-date-string", "stage=%d recorded=%s", g.INTWICK.Index, g.DevStateDate[g.INTWICK.Index])
					}
				}
				tr.lastIdx = g.INTWICK.Index
				if g.INTWICK.Index > tr.maxStage {
					tr.maxStage = g.INTWICK.Index
				}
			}
			if tr.active && tr.akf == ai && g.ERNTE[ai] > 0 && zeit == g.ERNTE[ai] {
				// harvest day: reported phenology
				tr.harvest = zeit
				st := []int{}
				last := tr.sow
				for k := 0; k <= tr.maxStage && k < 10; k++ {
					st = append(st, tr.stages[k])
					if tr.stages[k] < last {
						ofail(g, zeit, "phenology-order", "stage=%d date=%d before=%d", k, tr.stages[k], last)
					}
					last = tr.stages[k]
				}
				if zeit < last {
					ofail(g, zeit, "phenology-order", "harvest=%d before stage date %d", zeit, last)
				}
				// the stage days the crop record reports (DEV) are the days THIS crop reached the stages; a stage it did not reach is 0
				wantDev := make([]int, 10)
				for k := 1; k < 10; k++ {
					if k <= tr.maxStage && tr.stages[k] > 0 {
						wantDev[k] = tr.stageDoy[k]
					}
					if g.DEV[k] != wantDev[k] {
						ofail(g, zeit, "stage-day-not-of-this-crop", "stage=%d reported-DOY=%d expected=%d (stage reached: %v) sown=%s", k+1, g.DEV[k], wantDev[k], k <= tr.maxStage, g.Kalender(tr.sow))
					}
				}
				// season means of the crop record as nitro.go:327-328 forms them (sum / (ERNTE - SAAT))
				nd := g.ERNTE[ai] - g.SAAT[ai]
				rmean, tmean := g.REDUKSUM/float64(nd), g.TRRELSUM/float64(nd)
				for _, v := range []struct {
					n string
					v float64
				}{{"Reduk", rmean}, {"TRRel", tmean}} {
					if !(v.v >= -1e-9 && v.v <= 1+1e-9) {
						ofail(g, zeit, "season-mean-outside-0-1", "%s=%v sum-days=%d", v.n, v.v, nd)
					}
				}
				emit(jobj{"k": "crop", "line": lineNo, "tag": tag, "crop": tr.crop, "variety": tr.variety, "sow": tr.sow, "stages": st, "harvest": zeit,
					"reduk_mean": rmean, "trrel_mean": tmean, "days": nd, "want_dev": wantDev,
					"dev": g.DEV[:], "doy": g.TAG.Index + 1, "sowdate": g.Kalender(tr.sow), "harvestdate": g.Kalender(zeit)})
				tr.active = false
			}
			if sowing || !shadowOK {
				return
			}
			if pre.INTWICK.Index < 0 {
				return
			}
			// ---- shadow replay of the real PhytoOut on a copy of the pre-state ----
			lPre := shadow
			lPre.AboveGroundOrgans = append([]int(nil), shadow.AboveGroundOrgans...)
			g2 := pre
			func() {
				defer func() {
					if e := recover(); e != nil {
						shadowOK = false
					}
				}()
				hermes.PhytoOut(&g2, &shadow, nil, zeit, nil, nil)
			}()
			same := shadowOK && g2.INTWICK.Index == g.INTWICK.Index && sameFs(g2.SUM[:], g.SUM[:]) && sameFs(g2.WORG[:], g.WORG[:]) &&
				sameFs(g2.WDORG[:], g.WDORG[:]) && sameF(g2.LAI, g.LAI) && sameF(g2.ASPOO, g.ASPOO) && sameF(g2.PESUM, g.PESUM) &&
				sameF(g2.REDUK, g.REDUK) && sameFs(g2.PE[:], g.PE[:]) && g2.WURZ == g.WURZ && sameF(g2.GEHOB, g.GEHOB) &&
				sameF(g2.WUGEH, g.WUGEH) && sameF(g2.NFIX, g.NFIX) && sameFs(g2.C1[:], g.C1[:]) && sameF(g2.PHYLLO, g.PHYLLO) &&
				sameFs(g2.WUDICH[:], g.WUDICH[:]) && sameF(g2.OBMAS, g.OBMAS) && sameF(g2.VERNTAGE, g.VERNTAGE)
			if !same {
				shadowOK = false
				shadowLost++
				emit(jobj{"k": "shadow-lost", "line": lineNo, "zeit": zeit, "why": "replay differs from the run"})
				return
			}
			shadowDays++
			// ---- second replay: GEHOB below every threshold -> REDUK = 0 exposes GTW and the maintenance terms ----
			k1 := g.INTWICK.Index
			grown := g.SUM[0] >= g.TSUM[0]
			gtw := 0.0
			var mterm [5]float64
			if grown {
				g3 := pre
				l3 := lPre
				l3.AboveGroundOrgans = append([]int(nil), lPre.AboveGroundOrgans...)
				g3.GEHOB = -1
				func() {
					defer func() { recover() }()
					hermes.PhytoOut(&g3, &l3, nil, zeit, nil, nil)
				}()
				if g3.REDUK != 0 {
					emit(jobj{"k": "probe-failed", "line": lineNo, "zeit": zeit})
					return
				}
				gtw = g3.ASPOO
				for i := 0; i < 5; i++ {
					mterm[i] = -l3.GORG[i]
				}
			}
			// ---- oracle values mirrored from crop.go (functions that are not modelled) ----
			ct := pre.FRUCHT[ai]
			temp := pre.TEMP[pre.TAG.Index]
			var nprog, wprog float64
			if ct == hermes.ZR || ct == hermes.SM {
				nprog = 1
			} else {
				nprog = 1 + math.Pow((1-pre.REDUK), 2)
			}
			if k1 >= 0 && pre.TRREL < pre.DRYSWELL[k1] {
				if pre.LURED < 1 {
					wprog = 1
				} else {
					wprog = 1 + 0.2*math.Pow((1-pre.TRREL), 2)
				}
			} else {
				wprog = 1
			}
			devprog := math.Max(nprog, wprog)
			_, _, devDLP, _, _, _, _ := hermes.CalculateDayLenght(pre.TAG.Num, pre.LAT)
			minin := 0.004
			if pre.NGEFKT == 1 {
				minin = 0.005
			}
			eArg, eVal := 0.0, 0.0
			if grown && pre.GEHOB < g.GEHMIN && !(pre.GEHOB <= minin) {
				aux := (pre.GEHOB - minin) / (g.GEHMIN - minin)
				eArg = 1 + 1/(aux-1)
				eVal = math.Exp(eArg)
			}
			qrez := c09Qrez(pre.VELOC, g.PHYLLO+g.SUM[0])
			if !sameF(4.5/qrez, g.POTROOTINGDEPTH) {
				emit(jobj{"k": "mirror-mismatch", "line": lineNo, "zeit": zeit, "what": "root()"})
				return
			}
			// effective Qrez of crop.go:597-603 and the exponentials of the layer loop 604-626 (oracle inputs of RootDistModel)
			wurmEff := math.Round(float64(pre.WURZMAX) * (pre.WUMAXPF / 11.))
			if wurmEff > float64(pre.N) {
				wurmEff = float64(pre.N)
			}
			if wurmEff < 1 {
				wurmEff = 1
			}
			qeff := qrez
			if qeff > .35 {
				qeff = .35
			}
			if qeff < 4.5/(wurmEff*pre.DZ.Num) {
				qeff = 4.5 / (wurmEff * pre.DZ.Num)
			}
			wurzN := g.WURZ
			if wurzN < 0 {
				wurzN = 0
			}
			poolN := wurzN
			if poolN < 1 {
				poolN = 1
			}
			// the pools below the rooted layers are not touched by PhytoOut
			poolRestSame := sameFs(pre.NFOS[poolN:], g.NFOS[poolN:]) && sameFs(pre.NAOS[poolN:], g.NAOS[poolN:])
			rootOK := int(4.5/qeff/pre.DZ.Num) == g.WURZ
			esHi := make([]float64, wurzN)
			esLo := make([]float64, wurzN)
			for i := 1; i <= wurzN; i++ {
				tiefe := float64(i) * pre.DZ.Num
				esHi[i-1] = math.Exp(-qeff * tiefe)
				esLo[i-1] = math.Exp(-qeff * (tiefe - pre.DZ.Num))
			}
			// ---- radia(): shadow copy with recorder vs the real kernel (hook VerifRadia), on the state PhytoOut hands it ----
			var rrec radiaRec
			radiaOK := true
			var rGPHOT, rMAINT, radiaLAI, radiaDLE0 float64
			var radiaMANT [5]float64
			if grown {
				gs, gr := pre, pre
				gs.INTWICK, gr.INTWICK = g.INTWICK, g.INTWICK // the stage index after today's advance (DRYSWELL lookup)
				if gs.LAI <= 0 {
					gs.LAI, gr.LAI = 0.001, 0.001
				}
				ls, lr := lPre, lPre
				radiaLAI = gs.LAI
				_, radiaDLE0, _, _, _, _, _ = hermes.CalculateDayLenght(gs.TAG.Num, gs.LAT)
				a1, a2, a3, a4 := radiaShadow(&gs, &ls, int(reflect.ValueOf(lPre).FieldByName("temptyp").Int()), &rrec)
				b1, b2, b3, b4 := hermes.VerifRadia(&gr, &lr)
				rGPHOT, rMAINT = b3, b4
				radiaMANT = lr.MANT
				radiaOK = sameF(a1, b1) && sameF(a2, b2) && sameF(a3, b3) && sameF(a4, b4) && sameFs(ls.MANT[:], lr.MANT[:]) &&
					sameF(gs.SUND[gs.TAG.Index], gr.SUND[gr.TAG.Index]) && sameF(gs.PARi, gr.PARi) && sameF(gs.RADSUM, gr.RADSUM) && sameF(gs.PARSUM, gr.PARSUM)
				// and the real kernel agrees with the run: GPPdaily = GPHOT*12/30/10 (crop.go:218)
				if radiaOK && !sameF(b3*12/30/10, g.GPPdaily) {
					radiaOK = false
				}
				if !radiaOK {
					emit(jobj{"k": "mirror-mismatch", "line": lineNo, "zeit": zeit, "what": "radia() shadow / hook / run disagree"})
					return
				}
			}
			cropLoc := hermes.VerifGetCropLocal(&shadow)
			kPrev := k1 - 1
			if kPrev < 0 {
				kPrev = 0
			}
			tendsum := reflect.ValueOf(shadow).FieldByName("tendsum").Float()
			maxup := c09Maxup(ct, g.PHYLLO, tendsum)
			wurz := g.WURZ
			dz, dt := pre.DZ.Num, pre.DT.Num
			cnt := int(math.Min(float64(wurz), pre.GRW))
			if cnt < 0 {
				cnt = 0
			}
			mass := make([]float64, cnt)
			diff := make([]float64, cnt)
			// raw inputs of the supply terms for SupplyModel (the model recomputes MASS / DIFF / maxup from these)
			supN := cnt
			if supN > 10 {
				supN = 10
			}
			supE := make([]float64, supN)
			for index := 0; index < supN; index++ {
				supE[index] = math.Exp(pre.WG[0][index] * 10)
			}
			mxClass := 3
			switch ct {
			case hermes.ORH, hermes.WRA, hermes.SE, hermes.LET, hermes.WCA, hermes.ONI, hermes.CEL, hermes.GAR, hermes.CAR, hermes.PMK:
				mxClass = 0
			case hermes.SM:
				mxClass = 1
			case hermes.ZR:
				mxClass = 2
			}
			for index := 0; index < cnt; index++ {
				if index+1 < 11 {
					var wrad float64
					i := index + 1
					if isZRK(ct) {
						wrad = .01
					} else {
						wrad = .020 - float64(i)*.001
						if wrad <= 0 {
							wrad = (.020 - float64(19)*.001) / 2
						}
					}
					mass[index] = pre.TP[index] * (pre.C1[index] / (pre.WG[0][index] * dz)) * dt
					D := 2.14 * (pre.AD[index] * math.Exp(pre.WG[0][index]*10)) / pre.WG[0][index]
					diff[index] = (D * pre.WG[0][index] * 2 * math.Pi * wrad * (pre.C1[index]/1000/pre.WG[0][index] - .000014) * math.Sqrt(math.Pi*g.WUDICH[index])) * g.WUDICH[index] * 1000 * dt
				}
			}
			tied++
			if grown && growing {
				// hypothesis of C09_assimilation_nonneg_partial: the sunshine duration / radiation of the day handed to radia()
				// is a valid non-negative value; conclusion: the assimilates of the day GTW = GPHOT + ASPOO are >= 0
				sund, rad := pre.SUND[pre.TAG.Index], pre.RAD[pre.TAG.Index]
				if !finite(sund) || sund < 0 || sund > 24 {
					ofail(g, zeit, "sunshine-input-invalid", "SUND=%v RAD=%v", sund, rad)
				}
				if !finite(rad) || rad < 0 {
					ofail(g, zeit, "radiation-input-invalid", "RAD=%v SUND=%v", rad, sund)
				}
				if !finite(gtw) {
					ofail(g, zeit, "GTW-not-finite", "value=%v", gtw)
				} else if gtw < 0 {
					ofail(g, zeit, "GTW-negative", "value=%v SUND=%v RAD=%v ASPOO=%v", gtw, sund, rad, pre.ASPOO)
				}
				c09GrowthOracle(&pre, g, &shadow, gtw, mterm, k1, isZRK(ct), maxup, cnt, mass, diff,
					func(what string, format string, a ...interface{}) { ofail(g, zeit, what, format, a...) })
			}
			// ---- which clamps / branches does this day exercise ----
			kinds := []string{}
			if g.INTWICK.Index != pre.INTWICK.Index {
				kinds = append(kinds, "advance")
			}
			if grown {
				for i := 0; i < pre.NRKOM && i < 3; i++ {
					if g.WORG[i] == 0.1 {
						kinds = append(kinds, "organ-floor")
					}
				}
				for i := 3; i < pre.NRKOM; i++ {
					if g.WORG[i] == 0 && pre.WORG[i] != 0 {
						kinds = append(kinds, "organ-zero")
					}
				}
				if g.LAI == 0 {
					kinds = append(kinds, "lai-zero")
				}
				if g.REDUK < 1 {
					kinds = append(kinds, "reduk")
				}
				if g.SUM[k1]/g.TSUM[k1] > 1 {
					kinds = append(kinds, "stage-overrun")
				}
			}
			wurm := math.Round(float64(pre.WURZMAX) * (pre.WUMAXPF / 11.))
			if float64(wurz) >= math.Min(wurm, float64(pre.N)) {
				kinds = append(kinds, "root-limit")
			}
			if wurz >= 20 {
				kinds = append(kinds, "root-layer-20") // root radius 0.020 - 0.001*i reaches 0: the guard of crop.go:616
			}
			if wurm > float64(pre.N) && wurz >= pre.N {
				// the scaled soil limit lies below the profile: only the clamp to N holds the roots inside it
				kinds = append(kinds, "root-clamp-N")
			}
			for i := 0; i < cnt; i++ {
				if g.PE[i] == 0 && grown {
					kinds = append(kinds, "pe-zero")
					break
				}
			}
			for i := 0; i < cnt; i++ {
				if g.PE[i] > 0 && sameF(g.PE[i], g.C1[i]-.75) {
					kinds = append(kinds, "pe-c1-cap")
					break
				}
			}
			if pre.LEGUM && g.NFIX > 0 {
				kinds = append(kinds, "nfix")
			}
			if grown {
				// branches of the root / shoot N concentration update (crop.go:741-763)
				if g.WUMAS > pre.WUMAS {
					if g.OBMAS-pre.OBMAS+g.WUMAS-pre.WUMAS > 0 && !isZRK(ct) {
						kinds = append(kinds, "wugeh-update")
					}
					if g.WUGEH == 0.005 {
						kinds = append(kinds, "wugeh-floor")
					} else if g.WUGEH == pre.WGMAX[k1] {
						kinds = append(kinds, "wugeh-cap")
					}
				}
				if isZRK(ct) {
					kinds = append(kinds, "beet-potato-quota")
					if g.GEHOB*(g.OBMAS+g.WORG[3]) < (pre.OBMAS+g.WORG[3])*pre.GEHOB {
						kinds = append(kinds, "zrk-correction")
					}
				}
			}
			take := every <= 1 || r.intn(every) == 0
			for _, kd := range kinds {
				if interesting[kd] < maxInteresting {
					interesting[kd]++
					take = true
				}
			}
			if !take || (maxAll > 0 && emitted >= maxAll && r.intn(8) != 0) {
				return
			}
			emitted++
			above := []int{}
			for _, a := range shadow.AboveGroundOrgans {
				above = append(above, a)
			}
			km := k1 - 1
			if km < 0 {
				km = 0
			}
			// ---- N-content functions: the day's own evaluation and, by replaying the real code on copies with another
			// NGEFKT, all other N-content functions on the same state (0 = none: GEHMIN/GEHMAX keep their values)
			wrsg := ct == hermes.WR || ct == hermes.SG
			ncs := []jobj{}
			if grown {
				ncs = append(ncs, c09NcCase(&pre, g, pre.NGEFKT, wrsg, tendsum))
				allFkt := r.intn(4) == 0 // the other N-content functions on one emitted day in four
				for f := 0; f <= 9 && allFkt; f++ {
					if f == pre.NGEFKT {
						continue
					}
					g4 := pre
					g4.NGEFKT = f
					l4 := lPre
					l4.AboveGroundOrgans = append([]int(nil), lPre.AboveGroundOrgans...)
					ok4 := true
					func() {
						defer func() {
							if e := recover(); e != nil {
								ok4 = false
							}
						}()
						hermes.PhytoOut(&g4, &l4, nil, zeit, nil, nil)
					}()
					if ok4 && sameF(g4.PHYLLO, g.PHYLLO) {
						ncs = append(ncs, c09NcCase(&pre, &g4, f, wrsg, tendsum))
					}
				}
			}
			wumalt, obalt, gehalt := 0.0, 0.0, 0.0
			if grown {
				wumalt, gehalt = pre.WUMAS, pre.GEHOB
				if isZRK(ct) {
					// crop.go:507 runs after the organ loop: old shoot mass + the already updated storage organ
					obalt = pre.OBMAS + g.WORG[3]
				} else {
					obalt = pre.OBMAS
				}
			}
			proT, deadT := [][]string{}, [][]string{}
			for s := 0; s < shadow.NRENTW && s < 10; s++ {
				proT = append(proT, hxs(pre.PRO[s][:]))
				deadT = append(deadT, hxs(pre.DEAD[s][:]))
			}
			emit(jobj{"k": "day", "line": lineNo, "zeit": zeit, "crop": crop, "kinds": kinds,
				// N content, N quota, tables
				"nc": ncs, "wumalt": hx(wumalt), "obalt": hx(obalt), "gehalt": hx(gehalt), "wugeh0": hx(pre.WUGEH),
				"o_gehob": hx(g.GEHOB), "o_wugeh": hx(g.WUGEH), "pro": proT, "dead": deadT,
				// stage
				"k0": pre.INTWICK.Index, "sum": hxs(pre.SUM[:]), "tsum": hxs(pre.TSUM[:]), "dev": pre.DEV[:], "nrentw": shadow.NRENTW,
				"doy": pre.TAG.Index + 1, "temp": hx(temp), "bas": hxs(pre.BAS[:]), "wg00": hx(pre.WG[0][0]), "w0": hx(pre.W[0]), "wmin0": hx(pre.WMIN[0]),
				"dt": hx(dt), "fv": hx(shadow.FV), "fp": hx(shadow.FP), "devprog": hx(devprog), "phyllo": hx(pre.PHYLLO),
				"o_k": g.INTWICK.Index, "o_sum": hxs(g.SUM[:]), "o_dev": g.DEV[:], "o_phyllo": hx(g.PHYLLO),
				// development-rate block (DevModel): inputs of vern / FP / devprog for the stage reached, root() power oracle
				"d_vt0": hx(pre.VERNTAGE), "d_vschwell": hx(pre.VSCHWELL[k1]), "d_dlp": hx(devDLP), "d_dayl": hx(pre.DAYL[k1]), "d_dlbas": hx(pre.DLBAS[k1]),
				"d_nons": ct == hermes.ZR || ct == hermes.SM, "d_trrel": hx(pre.TRREL), "d_dry": hx(pre.DRYSWELL[k1]), "d_lured": hx(pre.LURED),
				"d_o_vt": hx(g.VERNTAGE), "d_o_fv": hx(shadow.FV), "d_o_fp": hx(shadow.FP),
				"d_p": hx(c09RootPow(pre.VELOC, g.PHYLLO+g.SUM[0])), "d_o_pot": hx(g.POTROOTINGDEPTH),
				// root distribution block (RootDistModel): effective Qrez, exponentials per layer, observed root shares
				"r_ok": rootOK, "r_pi": hx(math.Pi), "r_hi": hxs(esHi), "r_lo": hxs(esLo), "r_o_wuant": hxs(g.WUANT[:wurzN]),
				"r_wumalt": hx(pre.WUMAS), "r_wugeh": hx(pre.WUGEH),
				// assimilation kernel of radia() (CropNModel.assim_of): recorded locals of the shadow, results of the real kernel
				"a_ok": rrec.Reached, "a_rad": hx(rrec.RAD), "a_sund": hx(rrec.SUND), "a_dle": hx(rrec.DLE), "a_dgac": hx(rrec.DGAC), "a_dgao": hx(rrec.DGAO),
				"a_drc": hx(rrec.DRC), "a_trrel": hx(rrec.TRREL), "a_vswell": hx(rrec.VSWELL), "a_mpot": hx(rrec.MAINTPOT), "a_cold": rrec.COLD,
				"a_o_gphot": hx(rGPHOT), "a_o_maint": hx(rMAINT), "a_dl": hx(rrec.DL),
				// head of radia() (RadiaModel.rd_light): inputs, oracle values by call site (0 where a site was not reached), recorded results
				"h_temp": hx(temp), "h_mintmp": hx(pre.MINTMP), "h_maxamax": hx(pre.MAXAMAX), "h_co2": hx(pre.CO2KONZ), "h_meth": pre.CO2METH,
				"h_temptyp": int(reflect.ValueOf(lPre).FieldByName("temptyp").Int()), "h_lai": hx(radiaLAI), "h_rdn": hx(rrec.RDN),
				"m_worg": hxs(pre.WORG[:pre.NRKOM]), "m_mairt": hxs(pre.MAIRT[:pre.NRKOM]), "m_teff": hx(rrec.O["teff"]), "m_o_mant": hxs(radiaMANT[:pre.NRKOM]),
				"h_dle0": hx(radiaDLE0), "h_o": radiaOracles(&rrec), "h_o_amax": hx(rrec.AMAX), "h_o_effe": hx(rrec.EFFE),
				// supply terms (SupplyModel): raw inputs of MASS / DIFF for the first min(cnt, 10) layers, the class and inputs of maxup
				"s_n": supN, "s_tp": hxs(pre.TP[:supN]), "s_c1": hxs(pre.C1[:supN]), "s_wg": hxs(pre.WG[0][:supN]), "s_ad": hxs(pre.AD[:supN]), "s_e": hxs(supE),
				"s_wud": hxs(g.WUDICH[:supN]), "s_class": mxClass, "s_phyllo": hx(g.PHYLLO), "s_tendsum": hx(tendsum),
				// pool inputs of the day (RootDistModel.pools_after): organic pools of the rooted layers before / after the call
				"p_n": poolN, "p_nfos0": hxs(pre.NFOS[:poolN]), "p_naos0": hxs(pre.NAOS[:poolN]), "p_o_nfos": hxs(g.NFOS[:poolN]), "p_o_naos": hxs(g.NAOS[:poolN]),
				"p_rest_same": poolRestSame,
				// crop coefficient / BBCH (DevModel.fkc_of, bbch_of): tabulated values of the stage reached and the one before, observed FKC / BBCH
				"k_kcini": hx(cropLoc.Kcini), "k_kc": hx(cropLoc.Kc[k1]), "k_kcprev": hx(cropLoc.Kc[kPrev]), "k_end": hx(shadow.ENDBBCH[k1]), "k_endprev": hx(shadow.ENDBBCH[kPrev]),
				"k_o_fkc": hx(g.FKC), "k_o_bbch": g.BBCH,
				// reduk
				"gehob": hx(pre.GEHOB), "gehmin": hx(g.GEHMIN), "ngefkt1": pre.NGEFKT == 1, "earg": hx(eArg), "e": hx(eVal), "reduk0": hx(pre.REDUK), "o_reduk": hx(g.REDUK),
				// organs
				"nrkom": pre.NRKOM, "worg": hxs(pre.WORG[:]), "wdorg": hxs(pre.WDORG[:5]), "lai": hx(pre.LAI), "aspoo0": hx(pre.ASPOO), "pesum": hx(pre.PESUM),
				"gtw": hx(gtw), "mterm": hxs(mterm[:]), "dgorg0": hxs(lPre.DGORG[:5]), "gorg0": hxs(lPre.GORG[:5]),
				"pro_lo": hxs(pre.PRO[km][:]), "pro_hi": hxs(pre.PRO[k1][:]), "dead_lo": hxs(pre.DEAD[km][:]), "dead_hi": hxs(pre.DEAD[k1][:]),
				"laifkt_lo": hx(pre.LAIFKT[km]), "laifkt_hi": hx(pre.LAIFKT[k1]), "laifkt0": hx(pre.LAIFKT[0]), "above": above,
				"o_worg": hxs(g.WORG[:]), "o_wdorg": hxs(g.WDORG[:5]), "o_lai": hx(g.LAI), "o_aspoo": hx(g.ASPOO), "o_pesum": hx(g.PESUM),
				"o_dgorg": hxs(shadow.DGORG[:5]), "o_gorg": hxs(shadow.GORG[:5]), "o_obmas": hx(g.OBMAS), "o_wumas": hx(g.WUMAS),
				// root depth
				"wurzmax": pre.WURZMAX, "wumaxpf": hx(pre.WUMAXPF), "n": pre.N, "qrez": hx(qrez), "dz": hx(dz), "o_wurz": g.WURZ,
				// N uptake
				"grown": grown, "zrk": isZRK(ct), "gehmax": hx(g.GEHMAX), "wgmax": hx(pre.WGMAX[k1]), "wudich": hxs(g.WUDICH[:wurz]),
				"maxup": hx(maxup), "legum": pre.LEGUM, "grw": hx(pre.GRW), "mass": hxs(mass), "diff": hxs(diff), "c1": hxs(g.C1[:cnt]),
				"o_pe": hxs(g.PE[:cnt]), "o_nfix": hx(g.NFIX),
			})
		}
	}
	var res runResult
	func() {
		// a panic inside the day loop (e.g. an index past the layer arrays) is a failing input, not a harness crash
		defer func() {
			if e := recover(); e != nil {
				res = runResult{Success: false, Err: fmt.Sprintf("panic: %v", e)}
				oracleFail("crop-state:run-panicked crop=%s tag=%s line=%d zeit=%d date=- %v", tr.crop, tag, lineNo, 0, e)
			}
		}()
		res = runProject(work, splitArgs(line))
	}()
	hermes.VerifProbe = nil
	emit(jobj{"k": "run", "line": lineNo, "tag": tag, "success": res.Success, "err": res.Err, "days": days, "cropdays": cropDays,
		"tied": tied, "emitted": emitted, "shadow_days": shadowDays, "shadow_lost": shadowLost, "kinds": interesting, "reader": readerCases})
}

// c09Oracle: the property itself on the state after PhytoOut of a day on which a crop grows
func c09Oracle(g *hermes.GlobalVarsMain, zeit int, gehobCause string, ofail func(g *hermes.GlobalVarsMain, zeit int, what string, format string, a ...interface{})) {
	chk := func(name string, v float64) {
		if !finite(v) {
			ofail(g, zeit, name+"-not-finite", "value=%v", v)
		} else if v < 0 {
			ofail(g, zeit, name+"-negative", "value=%v", v)
		}
	}
	for i := 0; i < g.NRKOM && i < 5; i++ {
		chk(fmt.Sprintf("WORG%d", i+1), g.WORG[i])
	}
	chk("OBMAS", g.OBMAS)
	chk("WUMAS", g.WUMAS)
	chk("LAI", g.LAI)
	chk("ASPOO", g.ASPOO)
	chk("PESUM", g.PESUM)
	if finite(g.GEHOB) && g.GEHOB < 0 {
		ofail(g, zeit, "GEHOB-negative", "cause=%s value=%v WUGEH=%v PESUM=%v OBMAS=%v WUMAS=%v", gehobCause, g.GEHOB, g.WUGEH, g.PESUM, g.OBMAS, g.WUMAS)
	} else {
		chk("GEHOB", g.GEHOB)
	}
	chk("WUGEH", g.WUGEH)
	unit := func(name string, v float64) {
		if !finite(v) {
			ofail(g, zeit, name+"-not-finite", "value=%v", v)
		} else if v < -1e-9 || v > 1+1e-9 {
			ofail(g, zeit, name+"-outside-0-1", "value=%v", v)
		}
	}
	unit("REDUK", g.REDUK)
	unit("TRREL", g.TRREL)
	unit("ETREL", g.ETREL)
	wurm := math.Round(float64(g.WURZMAX) * (g.WUMAXPF / 11.))
	if wurm < 1 {
		wurm = 1
	}
	if g.WURZ > g.N {
		ofail(g, zeit, "WURZ-above-profile", "WURZ=%d N=%d", g.WURZ, g.N)
	}
	if float64(g.WURZ) > wurm {
		ofail(g, zeit, "WURZ-above-soil-root-limit", "WURZ=%d limit=%v WURZMAX=%d WUMAXPF=%v", g.WURZ, wurm, g.WURZMAX, g.WUMAXPF)
	}
	if g.WURZ < 1 {
		ofail(g, zeit, "WURZ-below-1", "WURZ=%d", g.WURZ)
	}
	for i := 0; i < g.N; i++ {
		if !finite(g.PE[i]) || g.PE[i] < 0 {
			ofail(g, zeit, "PE-negative-or-not-finite", "layer=%d value=%v", i+1, g.PE[i])
			break
		}
	}
}
