package main

// c09radia.go — shadow of hermes.radia (crop.go:767-979): a verbatim copy of the source with a recorder for the locals the
// Coq model CropNModel.assim_of takes as inputs (DGAC, DGAO, DLE, DRC, the sunshine / radiation of the day, TRREL, the
// stress threshold, MAINTS*TEFF).  The copy is compared with the real function (hook hermes.VerifRadia) on every case:
// a difference in any of the four results, in MANT, SUND, PARi or RADSUM is reported as a mismatch, so a change to
// radia() cannot hide behind the copy.

import (
	"math"

	"github.com/zalf-rpm/Hermes2Go/hermes"
)

type radiaRec struct {
	DGAC, DGAO, DLE, DRC, DL, SUND, RAD, VSWELL, TRREL, DTGA, AMAX, EFFE, MAINTPOT float64
	RDN                                                                      float64
	COLD, Reached                                                            bool
	O                                                                        map[string]float64 // results (and some arguments) of the transcendental calls, by site
}

func (r *radiaRec) o(name string, v float64) float64 {
	if r.O == nil {
		r.O = map[string]float64{}
	}
	r.O[name] = v
	return v
}

func radiaShadow(g *hermes.GlobalVarsMain, l *hermes.CropSharedVars, temptyp int, rec *radiaRec) (DLE, DLP, GPHOT, MAINT float64) {
	//! Inputs:
	//! LAT              = geogr. Breite (°)
	//! TEMP(TAG)        = Tagesmitteltemperatur (°C)
	//! RAD(TAG)         = PAR (Mj/m^2/d)
	//! CO2KONZ          = CO2 Konzentration der Atmosphäre (ppm)
	//! CO2METH          = Methode für CO2 Response
	//! MAXAMAX          = maximale C-Assimilationsrate bei Lichtsättigung und Optimaltemperatur (kg CO2/ha leave/h)
	var DL, RDN, DRC, DEC float64
	DL, DLE, DLP, _, RDN, DRC, DEC = hermes.CalculateDayLenght(g.TAG.Num, g.LAT)
	if DL <= 0 {
		return DLE, DLP, 0, 0
	}

	DRO := .2 * DRC
	EFF0 := .5
	var EFF float64
	var amax float64
	var cocomp float64
	// ! ++++++++++++++  Auswahl mehrerer Methoden zum CO2 Effect +++++++++++++++
	if g.CO2METH == 1 {
		cocomp = 17.5 * rec.o("p2", math.Pow(2, ((g.TEMP[g.TAG.Index]-10)/10)))
		EFF = (g.CO2KONZ - cocomp) / (g.CO2KONZ + 2*cocomp) * EFF0
	} else if g.CO2METH == 3 {
		// ********* Gleichungen von Long 1991 und Mitchel et al. 1995 **************************
		KTvmax := rec.o("ktv", math.Exp(68800 * ((g.TEMP[g.TAG.Index] + 273) - 298) / (298 * (g.TEMP[g.TAG.Index] + 273) * 8.314)))
		Ktkc := rec.o("ktc", math.Exp(65800 * ((g.TEMP[g.TAG.Index] + 273) - 298) / (298 * (g.TEMP[g.TAG.Index] + 273) * 8.314)))
		Ktko := rec.o("kto", math.Exp(1400 * ((g.TEMP[g.TAG.Index] + 273) - 298) / (298 * (g.TEMP[g.TAG.Index] + 273) * 8.314)))
		// Berechnung des Transformationsfaktors für pflanzenspez. AMAX bei 25 grad *********
		Fakamax := g.MAXAMAX / 34.695
		vcmax := 98 * Fakamax * KTvmax
		// **************************************************************************************
		MKC := 460 * Ktkc
		Mko := 210 * Ktko
		Oi := 210 + (0.047-0.0013087*g.TEMP[g.TAG.Index]+0.000025603*math.Pow(g.TEMP[g.TAG.Index], 2)-0.00000021441*math.Pow(g.TEMP[g.TAG.Index], 3))/0.026934
		Ci := g.CO2KONZ * 0.7 * (1.674 - 0.061294*g.TEMP[g.TAG.Index] + 0.0011688*math.Pow(g.TEMP[g.TAG.Index], 2) - 0.0000088741*math.Pow(g.TEMP[g.TAG.Index], 3)) / 0.73547
		cocomp = 0.5 * 0.21 * vcmax * Oi / (vcmax * Mko)
		amax = (Ci - cocomp) * vcmax / (Ci + MKC*(1+Oi/Mko)) * 1.656
		if g.TEMP[g.TAG.Index] < g.MINTMP {
			amax = 0
		}
		EFF = EFF0
	} else {
		EFF = EFF0
	}
	if temptyp == 1 {
		if g.CO2METH != 3 {
			if g.TEMP[g.TAG.Index] < g.MINTMP {
				amax = 0
			} else if g.TEMP[g.TAG.Index] < 10 {
				amax = g.MAXAMAX * g.TEMP[g.TAG.Index] / 10 * .4
			} else if g.TEMP[g.TAG.Index] < 15 {
				amax = g.MAXAMAX * (.4 + (g.TEMP[g.TAG.Index]-10)/5*.5)
			} else if g.TEMP[g.TAG.Index] < 25 {
				amax = g.MAXAMAX * (.9 + (g.TEMP[g.TAG.Index]-15)/10*.1)
			} else if g.TEMP[g.TAG.Index] < 35 {
				amax = g.MAXAMAX * (1 - (g.TEMP[g.TAG.Index]-25)/10)
			} else {
				amax = 0
			}
		}
		if g.CO2METH == 1 {
			amax = amax * (g.CO2KONZ - cocomp) / (350 - cocomp)
		} else if g.CO2METH == 2 {
			var KCo1 float64
			var Coco float64
			if g.RAD[g.TAG.Index] > 0 {
				KCo1 = 220 + 0.158*g.RAD[g.TAG.Index]*20
				Coco = 80 - 0.0036*g.RAD[g.TAG.Index]*20
			} else {
				SC := 1367. * (1 + 0.033*rec.o("cossc", math.Cos(2*math.Pi*g.TAG.Num/365)))
				EXT := SC * RDN / 10000
				Glob := EXT * (0.19 + 0.55*g.SUND[g.TAG.Index]/DL)
				KCo1 = 220 + 0.158*Glob
				Coco = 80 - 0.0036*Glob
			}
			kco2 := ((g.CO2KONZ - Coco) / (KCo1 + g.CO2KONZ - Coco)) / ((350 - Coco) / (KCo1 + 350 - Coco))
			amax = amax * kco2
		}
	} else {
		if g.TEMP[g.TAG.Index] < g.MINTMP {
			amax = 0
		} else if g.TEMP[g.TAG.Index] < 9 {
			amax = g.MAXAMAX * g.TEMP[g.TAG.Index] / 10 * .0555
		} else if g.TEMP[g.TAG.Index] < 16 {
			amax = g.MAXAMAX * (.05 + (g.TEMP[g.TAG.Index]-9)/7*.75)
		} else if g.TEMP[g.TAG.Index] < 18 {
			amax = g.MAXAMAX * (.8 + (g.TEMP[g.TAG.Index]-16)*.07)
		} else if g.TEMP[g.TAG.Index] < 20 {
			amax = g.MAXAMAX * (.94 + (g.TEMP[g.TAG.Index]-18)*.03)
		} else if g.TEMP[g.TAG.Index] >= 20 && g.TEMP[g.TAG.Index] <= 30 {
			amax = g.MAXAMAX
		} else if g.TEMP[g.TAG.Index] < 36 {
			amax = g.MAXAMAX * (1 - (g.TEMP[g.TAG.Index]-30)*.0083)
		} else if g.TEMP[g.TAG.Index] < 42 {
			amax = g.MAXAMAX * (1 - (g.TEMP[g.TAG.Index]-36)*.0065)
		} else {
			amax = 0
		}
	}
	if amax < 0.1 {
		amax = 0.1
	}
	if DLE == 0 && DL > 0 {
		DLE = 0.1
	}
	REFLC := .08
	EFFE := (1. - REFLC) * EFF
	SSLAE := rec.o("sslae", math.Sin((90. + DEC - g.LAT) * math.Pi / 180.))
	xArg := rec.o("xarg", 1. + .45*DRC/(DLE*3600.)*EFFE/(SSLAE*amax))
	X := rec.o("logx", math.Log(xArg))
	PHCH1 := SSLAE * amax * DLE * X / (1. + X)
	yArg := rec.o("yarg", 1. + .55*DRC/(DLE*3600.)*EFFE/((5-SSLAE)*amax))
	Y := rec.o("logy", math.Log(yArg))
	PHCH2 := (5. - SSLAE) * amax * DLE * Y / (1. + Y)
	PHCH := 0.95*(PHCH1+PHCH2) + 20.5
	PHC3 := PHCH * (1. - rec.o("elai", math.Exp(-.8*g.LAI)))
	PHC4 := DL * g.LAI * amax
	var MIPHC, MAPHC float64
	if PHC3 < PHC4 {
		MIPHC = PHC3
		MAPHC = PHC4
	} else {
		MIPHC = PHC4
		MAPHC = PHC3
	}
	if MIPHC == 0 {
		MIPHC = 0.000001
	}
	PHCL := MIPHC * (1. - rec.o("ec", math.Exp(rec.o("ecarg", -MAPHC/MIPHC))))
	Z := DRO / (DLE * 3600.) * EFFE / (5. * amax)
	PHOH1 := 5. * amax * DLE * Z / (1. + Z)
	PHOH := 0.9935*PHOH1 + 1.1
	PHO3 := PHOH * (1. - rec.o("elai", math.Exp(-.8*g.LAI)))
	var MIPHO, MAPHO float64
	if PHO3 < PHC4 {
		MIPHO = PHO3
		MAPHO = PHC4
	} else {
		MIPHO = PHC4
		MAPHO = PHO3
	}
	if MIPHO == 0 {
		MIPHO = 0.000001
	}
	PHOL := MIPHO * (1. - rec.o("eo", math.Exp(rec.o("eoarg", -MAPHO/MIPHO))))
	var DGAC, DGAO float64
	if g.LAI-5 < 0 {
		DGAC = PHCL
		DGAO = PHOL
	} else {
		DGAC = PHCH
		DGAO = PHOH
	}
	rec.DGAC, rec.DGAO, rec.DLE, rec.DRC, rec.DL = DGAC, DGAO, DLE, DRC, DL
	rec.SUND, rec.RAD, rec.RDN = g.SUND[g.TAG.Index], g.RAD[g.TAG.Index], RDN
	var DTGA float64
	// ----------- BERÜCKSICHTIGUNG DER SONNENSCHEINDAUER -------
	if g.RAD[g.TAG.Index] == 0 {
		if g.SUND[g.TAG.Index] > DLE {
			g.SUND[g.TAG.Index] = DLE
		}
		DTGA = g.SUND[g.TAG.Index]/DLE*DGAC + (1.-g.SUND[g.TAG.Index]/DLE)*DGAO
	} else {
		KOREK := 1.
		g.RADSUM = g.RADSUM + g.RAD[g.TAG.Index]*g.DT.Num*KOREK
		FOV := (DRC - 1000000*g.RAD[g.TAG.Index]*KOREK) / (.8 * DRC)
		if FOV > 1 {
			FOV = 1
		}
		if FOV < 0 {
			FOV = 0
		}
		DTGA = FOV*DGAO + (1-FOV)*DGAC
	}
	// calucation of intercepted PAR
	g.PARi = DTGA / amax * EFFE
	g.PARSUM = g.PARSUM + g.PARi

	// !     ------- PHOTOSYNTHESERATE IN KG GLUCOSE/HA BLATT/TAG------
	GPHOT = DTGA * 30. / 44
	var vswell float64
	if g.LURED == 1 {
		vswell = g.DRYSWELL[g.INTWICK.Index]
	} else {
		if g.FRUCHT[g.AKF.Index] == hermes.SM || g.FRUCHT[g.AKF.Index] == hermes.K || g.FRUCHT[g.AKF.Index] == hermes.WR || g.FRUCHT[g.AKF.Index] == hermes.SG || g.FRUCHT[g.AKF.Index] == hermes.WW || g.FRUCHT[g.AKF.Index] == hermes.WG {
			vswell = 1
		} else {
			vswell = 0.8
		}
	}
	rec.VSWELL, rec.TRREL, rec.DTGA, rec.AMAX, rec.EFFE = vswell, g.TRREL, DTGA, amax, EFFE
	if g.TRREL < vswell {
		GPHOT = GPHOT * g.TRREL
	}

	// ! ----------- MAINTENANCE IN ABH. VON TEMPERATUR -----------
	TEFF := rec.o("teff", math.Pow(2., (.1*g.TEMP[g.TAG.Index] - 2.5)))
	MAINORG := make([]float64, g.NRKOM)
	var MAINTS float64
	for i := 0; i < g.NRKOM; i++ {
		MAINTS = MAINTS + g.WORG[i]*g.MAIRT[i]
		MAINORG[i] = g.WORG[i] * g.MAIRT[i]
	}
	for i := 0; i < g.NRKOM; i++ {
		l.MANT[i] = MAINORG[i] / MAINTS
	}

	rec.MAINTPOT, rec.COLD, rec.Reached = MAINTS*TEFF, g.TEMP[g.TAG.Index] < g.MINTMP, true
	if GPHOT < MAINTS*TEFF {
		MAINT = GPHOT
	} else {
		MAINT = MAINTS * TEFF
	}
	if g.TEMP[g.TAG.Index] < g.MINTMP {
		GPHOT = MAINT
	}
	return DLE, DLP, GPHOT, MAINT
}

