// sharedstate: tie-3 translator for C03/C11.  Lists, from the sources of /repo (standard
// library go/parser + go/ast + go/types only; imports are stubbed, type errors ignored):
//
//	VAR  <pkg>.<name> <file>:<line>
//	SITE <pkg>.<name> <kind> <func> <file>:<line> <locked 0|1>
//
// for every package-level variable of package hermes and of the batch main package
// (test files and files carrying a verif build constraint excluded) and for every field
// of the structs HermesSession and FilePool.  kind: assign incdec addr delete ptrcall:<method> synctype,
// and read (struct fields only).  A site is "locked" when it lies after a call
// <x>.mux.Lock() of the same function with no non-deferred <x>.mux.Unlock() in between.
//
//	LOOPVAR <what> <func> <file>:<line> <inloop 0|1> <detail>
//
// for every site that can change the bounds of the day loop / sub-step loop of run.go
// (fields ENDE, BEGINN, DT of the run state; the loop variables ZEIT, SUBD; STEPS).
package main

import (
	"bufio"
	"fmt"
	"go/ast"
	"go/parser"
	"go/token"
	"go/types"
	"os"
	"path/filepath"
	"sort"
	"strings"
)

func init() { commands["sharedstate"] = sharedStateCmd }

type stubImporter struct{ pk map[string]*types.Package }

func (s *stubImporter) Import(path string) (*types.Package, error) {
	if p, ok := s.pk[path]; ok {
		return p, nil
	}
	name := path[strings.LastIndex(path, "/")+1:]
	if strings.HasPrefix(name, "yaml.v") {
		name = "yaml"
	}
	p := types.NewPackage(path, name)
	p.MarkComplete()
	s.pk[path] = p
	return p, nil
}

func hasVerifConstraint(path string) bool {
	f, err := os.Open(path)
	if err != nil {
		return false
	}
	defer f.Close()
	sc := bufio.NewScanner(f)
	for sc.Scan() {
		t := strings.TrimSpace(sc.Text())
		if strings.HasPrefix(t, "package ") {
			return false
		}
		if (strings.HasPrefix(t, "//go:build") || strings.HasPrefix(t, "// +build")) && strings.Contains(t, "verif") {
			return true
		}
	}
	return false
}

type ssOut struct{ lines []string }

func (o *ssOut) add(format string, a ...interface{}) { o.lines = append(o.lines, fmt.Sprintf(format, a...)) }

func sharedStateCmd(args []string) {
	if len(args) < 1 {
		fmt.Fprintln(os.Stderr, "usage: vh sharedstate <repo>")
		os.Exit(2)
	}
	repo := args[0]
	out := &ssOut{}
	imp := &stubImporter{pk: map[string]*types.Package{}}
	hp := scanPackage(filepath.Join(repo, "hermes"), "hermes", imp, out, []string{"HermesSession", "FilePool"})
	if hp != nil {
		imp.pk["github.com/zalf-rpm/Hermes2Go/hermes"] = hp
	}
	scanPackage(filepath.Join(repo, "src", "hermes2go"), "main", imp, out, nil)
	sort.Strings(out.lines)
	for _, l := range out.lines {
		fmt.Println(l)
	}
}

// root identifier of an lvalue-like expression: x, x[i], x.f, *x, (x)
func rootIdent(e ast.Expr) *ast.Ident {
	for {
		switch v := e.(type) {
		case *ast.Ident:
			return v
		case *ast.IndexExpr:
			e = v.X
		case *ast.SelectorExpr:
			e = v.X
		case *ast.StarExpr:
			e = v.X
		case *ast.ParenExpr:
			e = v.X
		case *ast.SliceExpr:
			e = v.X
		default:
			return nil
		}
	}
}

// selector expressions on the path from an lvalue-like expression to its root
func selectorsOnPath(e ast.Expr) []*ast.SelectorExpr {
	var r []*ast.SelectorExpr
	for {
		switch v := e.(type) {
		case *ast.IndexExpr:
			e = v.X
		case *ast.SelectorExpr:
			r = append(r, v)
			e = v.X
		case *ast.StarExpr:
			e = v.X
		case *ast.ParenExpr:
			e = v.X
		case *ast.SliceExpr:
			e = v.X
		default:
			return r
		}
	}
}

func scanPackage(dir, label string, imp types.Importer, out *ssOut, structs []string) *types.Package {
	fset := token.NewFileSet()
	ents, err := os.ReadDir(dir)
	if err != nil {
		fmt.Fprintln(os.Stderr, "sharedstate:", err)
		os.Exit(1)
	}
	var files []*ast.File
	for _, e := range ents {
		n := e.Name()
		if e.IsDir() || !strings.HasSuffix(n, ".go") || strings.HasSuffix(n, "_test.go") {
			continue
		}
		p := filepath.Join(dir, n)
		if hasVerifConstraint(p) {
			continue
		}
		f, err := parser.ParseFile(fset, p, nil, parser.SkipObjectResolution)
		if err != nil {
			fmt.Fprintln(os.Stderr, "sharedstate: parse:", err)
			os.Exit(1)
		}
		files = append(files, f)
	}
	info := &types.Info{Defs: map[*ast.Ident]types.Object{}, Uses: map[*ast.Ident]types.Object{},
		Selections: map[*ast.SelectorExpr]*types.Selection{}}
	conf := types.Config{Importer: imp, Error: func(error) {}, DisableUnusedImportCheck: true}
	pkg, _ := conf.Check(label, fset, files, info)
	if pkg == nil {
		fmt.Fprintln(os.Stderr, "sharedstate: type check produced no package for", dir)
		os.Exit(1)
	}
	pos := func(p token.Pos) string {
		q := fset.Position(p)
		return fmt.Sprintf("%s:%d", filepath.Base(q.Filename), q.Line)
	}
	// package-level variables
	tracked := map[types.Object]string{}
	for _, f := range files {
		for _, d := range f.Decls {
			gd, ok := d.(*ast.GenDecl)
			if !ok || gd.Tok != token.VAR {
				continue
			}
			for _, sp := range gd.Specs {
				vs := sp.(*ast.ValueSpec)
				decl := ""
				if vs.Type != nil {
					decl = types.ExprString(vs.Type)
				}
				for _, v := range vs.Values {
					decl += " " + types.ExprString(v)
				}
				for _, id := range vs.Names {
					if id.Name == "_" {
						continue
					}
					if o := info.Defs[id]; o != nil {
						name := label + "." + id.Name
						tracked[o] = name
						out.add("VAR %s %s", name, pos(id.Pos()))
						// a variable whose type comes from sync / sync/atomic exists to be written concurrently
						if strings.Contains(decl, "sync.") || strings.Contains(decl, "atomic.") {
							out.add("SITE %s synctype declaration %s 0", name, pos(id.Pos()))
						}
					}
				}
			}
		}
	}
	// fields of the shared structs
	fields := map[types.Object]string{}
	muxField := map[types.Object]bool{}
	for _, sn := range structs {
		o := pkg.Scope().Lookup(sn)
		if o == nil {
			continue
		}
		st, ok := o.Type().Underlying().(*types.Struct)
		if !ok {
			continue
		}
		for i := 0; i < st.NumFields(); i++ {
			fld := st.Field(i)
			if strings.Contains(fld.Type().String(), "sync.Mutex") || fld.Name() == "mux" {
				muxField[fld] = true
				continue
			}
			name := label + "." + sn + "." + fld.Name()
			fields[fld] = name
			out.add("VAR %s %s", name, pos(fld.Pos()))
		}
	}
	for _, f := range files {
		for _, d := range f.Decls {
			fd, ok := d.(*ast.FuncDecl)
			if !ok || fd.Body == nil {
				continue
			}
			scanFunc(fd, info, tracked, fields, muxField, out, pos)
			if label == "hermes" {
				scanLoopVars(fd, info, out, pos)
			}
		}
	}
	if label == "hermes" {
		scanBounds(files, out, pos)
	}
	return pkg
}

type lockEv struct {
	p      token.Pos
	unlock bool
}

func scanFunc(fd *ast.FuncDecl, info *types.Info, tracked, fields map[types.Object]string, muxField map[types.Object]bool,
	out *ssOut, pos func(token.Pos) string) {
	fn := fd.Name.Name
	// lock / unlock events (non-deferred) in source order
	var evs []lockEv
	deferred := map[*ast.CallExpr]bool{}
	ast.Inspect(fd.Body, func(n ast.Node) bool {
		if ds, ok := n.(*ast.DeferStmt); ok {
			deferred[ds.Call] = true
		}
		return true
	})
	ast.Inspect(fd.Body, func(n ast.Node) bool {
		ce, ok := n.(*ast.CallExpr)
		if !ok {
			return true
		}
		se, ok := ce.Fun.(*ast.SelectorExpr)
		if !ok || (se.Sel.Name != "Lock" && se.Sel.Name != "Unlock") {
			return true
		}
		inner, ok := se.X.(*ast.SelectorExpr)
		if !ok {
			return true
		}
		isMux := inner.Sel.Name == "mux"
		if s := info.Selections[inner]; s != nil && muxField[s.Obj()] {
			isMux = true
		}
		if !isMux {
			return true
		}
		if se.Sel.Name == "Lock" {
			evs = append(evs, lockEv{ce.Pos(), false})
		} else if !deferred[ce] {
			evs = append(evs, lockEv{ce.Pos(), true})
		}
		return true
	})
	sort.Slice(evs, func(i, j int) bool { return evs[i].p < evs[j].p })
	locked := func(p token.Pos) int {
		st := 0
		for _, e := range evs {
			if e.p >= p {
				break
			}
			if e.unlock {
				st = 0
			} else {
				st = 1
			}
		}
		return st
	}
	written := map[ast.Node]bool{} // selector / ident nodes already reported as changed
	report := func(e ast.Expr, kind string) {
		if id := rootIdent(e); id != nil {
			if name, ok := tracked[info.Uses[id]]; ok {
				out.add("SITE %s %s %s %s %d", name, kind, fn, pos(e.Pos()), locked(e.Pos()))
				written[id] = true
			}
		}
		for _, se := range selectorsOnPath(e) {
			if s := info.Selections[se]; s != nil {
				if name, ok := fields[s.Obj()]; ok {
					out.add("SITE %s %s %s %s %d", name, kind, fn, pos(se.Pos()), locked(se.Pos()))
					written[se] = true
				}
			}
		}
	}
	ast.Inspect(fd.Body, func(n ast.Node) bool {
		switch v := n.(type) {
		case *ast.AssignStmt:
			if v.Tok != token.DEFINE {
				for _, l := range v.Lhs {
					report(l, "assign")
				}
			}
		case *ast.IncDecStmt:
			report(v.X, "incdec")
		case *ast.RangeStmt:
			if v.Tok == token.ASSIGN {
				if v.Key != nil {
					report(v.Key, "assign")
				}
				if v.Value != nil {
					report(v.Value, "assign")
				}
			}
		case *ast.UnaryExpr:
			if v.Op == token.AND {
				report(v.X, "addr")
			}
		case *ast.CallExpr:
			if id, ok := v.Fun.(*ast.Ident); ok && id.Name == "delete" && len(v.Args) > 0 {
				report(v.Args[0], "delete")
			}
			if se, ok := v.Fun.(*ast.SelectorExpr); ok {
				if s := info.Selections[se]; s != nil && s.Kind() == types.MethodVal {
					if f, ok := s.Obj().(*types.Func); ok {
						if r := f.Type().(*types.Signature).Recv(); r != nil {
							if _, isPtr := r.Type().(*types.Pointer); isPtr {
								report(se.X, "ptrcall:"+se.Sel.Name)
							}
						}
					}
				} else if s == nil {
					// no type information (the type comes from a stubbed import, e.g. sync.Map,
					// atomic.Int64): a method call on a package-level variable counts as a write
					if id := rootIdent(se.X); id != nil {
						if _, ok := tracked[info.Uses[id]]; ok {
							report(se.X, "ptrcall:"+se.Sel.Name)
						}
					}
				}
			}
		}
		return true
	})
	// reads of the shared struct fields
	ast.Inspect(fd.Body, func(n ast.Node) bool {
		se, ok := n.(*ast.SelectorExpr)
		if !ok || written[se] {
			return true
		}
		if s := info.Selections[se]; s != nil {
			if name, ok := fields[s.Obj()]; ok {
				out.add("SITE %s read %s %s %d", name, fn, pos(se.Pos()), locked(se.Pos()))
			}
		}
		return true
	})
}

// scanLoopVars reports every site that can change what bounds the day loop and the
// sub-step loop of Run: fields ENDE / BEGINN / DT (any receiver), identifiers ZEIT, SUBD, STEPS.
func scanLoopVars(fd *ast.FuncDecl, info *types.Info, out *ssOut, pos func(token.Pos) string) {
	fn := fd.Name.Name
	var dayLoop *ast.ForStmt
	ast.Inspect(fd.Body, func(n ast.Node) bool {
		if fs, ok := n.(*ast.ForStmt); ok && dayLoop == nil {
			if as, ok := fs.Init.(*ast.AssignStmt); ok && len(as.Lhs) == 1 {
				if id, ok := as.Lhs[0].(*ast.Ident); ok && id.Name == "ZEIT" {
					dayLoop = fs
				}
			}
		}
		return true
	})
	inBody := func(p token.Pos) int {
		if dayLoop != nil && p >= dayLoop.Body.Pos() && p < dayLoop.Body.End() {
			return 1
		}
		return 0
	}
	if dayLoop != nil {
		out.add("LOOPVAR dayloop %s %s %d %s", fn, pos(dayLoop.Pos()), 0, exprString(dayLoop.Cond)+";"+stmtString(dayLoop.Post))
	}
	what := func(e ast.Expr) string {
		for _, se := range selectorsOnPath(e) {
			switch se.Sel.Name {
			case "ENDE", "BEGINN", "DT":
				return se.Sel.Name
			}
		}
		if id, ok := e.(*ast.Ident); ok {
			switch id.Name {
			case "ZEIT", "SUBD", "STEPS":
				return id.Name
			}
		}
		return ""
	}
	ast.Inspect(fd.Body, func(n ast.Node) bool {
		switch v := n.(type) {
		case *ast.ForStmt:
			if as, ok := v.Init.(*ast.AssignStmt); ok && len(as.Lhs) == 1 {
				if id, ok := as.Lhs[0].(*ast.Ident); ok && id.Name == "SUBD" {
					out.add("LOOPVAR subloop %s %s %d %s", fn, pos(v.Pos()), inBody(v.Pos()), exprString(v.Cond)+";"+stmtString(v.Post))
				}
			}
		case *ast.AssignStmt:
			for _, l := range v.Lhs {
				if w := what(l); w != "" {
					detail := "assign"
					if v.Tok == token.DEFINE {
						detail = "define"
					}
					out.add("LOOPVAR %s %s %s %d %s", w, fn, pos(l.Pos()), inBody(l.Pos()), detail)
				}
			}
		case *ast.IncDecStmt:
			if w := what(v.X); w != "" {
				out.add("LOOPVAR %s %s %s %d incdec", w, fn, pos(v.X.Pos()), inBody(v.X.Pos()))
			}
		case *ast.UnaryExpr:
			if v.Op == token.AND {
				if w := what(v.X); w != "" {
					out.add("LOOPVAR %s %s %s %d addr", w, fn, pos(v.X.Pos()), inBody(v.X.Pos()))
				}
			}
		case *ast.CallExpr:
			// g.DT.SetByIndex(1), g.DT.Add(..), g.DT.Inc()
			if se, ok := v.Fun.(*ast.SelectorExpr); ok {
				if inner, ok := se.X.(*ast.SelectorExpr); ok && inner.Sel.Name == "DT" {
					arg := ""
					for _, a := range v.Args {
						arg += exprString(a)
					}
					out.add("LOOPVAR DT %s %s %d call:%s(%s)", fn, pos(v.Pos()), inBody(v.Pos()), se.Sel.Name, arg)
				}
			}
		case *ast.KeyValueExpr:
			if id, ok := v.Key.(*ast.Ident); ok && (id.Name == "DT" || id.Name == "ENDE" || id.Name == "BEGINN") {
				out.add("LOOPVAR %s %s %s %d literal:%s", id.Name, fn, pos(v.Pos()), inBody(v.Pos()), exprString(v.Value))
			}
		}
		return true
	})
}

func exprString(e ast.Expr) string {
	if e == nil {
		return ""
	}
	return strings.ReplaceAll(types.ExprString(e), " ", "")
}

func stmtString(s ast.Stmt) string {
	switch v := s.(type) {
	case *ast.AssignStmt:
		r := ""
		for _, l := range v.Lhs {
			r += exprString(l)
		}
		r += v.Tok.String()
		for _, l := range v.Rhs {
			r += exprString(l)
		}
		return r
	case *ast.IncDecStmt:
		return exprString(v.X) + v.Tok.String()
	}
	return "?"
}

// scanBounds lists the fixed sizes that an event counter or a day index can run into:
//
//	BOUND make <target> <n> <file:line>      make([]T, n) with a literal n >= 32
//	BOUND array <Struct.Field> <n> <file:line>  struct field of type [n]T (or [n][m]T) with a literal n >= 50
func scanBounds(files []*ast.File, out *ssOut, pos func(token.Pos) string) {
	lit := func(e ast.Expr) (int, bool) {
		bl, ok := e.(*ast.BasicLit)
		if !ok || bl.Kind != token.INT {
			return 0, false
		}
		n := 0
		fmt.Sscanf(bl.Value, "%d", &n)
		return n, true
	}
	isMake := func(e ast.Expr) (int, bool) {
		ce, ok := e.(*ast.CallExpr)
		if !ok || len(ce.Args) < 2 {
			return 0, false
		}
		if id, ok := ce.Fun.(*ast.Ident); !ok || id.Name != "make" {
			return 0, false
		}
		if _, ok := ce.Args[0].(*ast.ArrayType); !ok {
			return 0, false
		}
		return lit(ce.Args[1])
	}
	for _, f := range files {
		ast.Inspect(f, func(n ast.Node) bool {
			switch v := n.(type) {
			case *ast.KeyValueExpr:
				if k, ok := isMake(v.Value); ok && k >= 32 {
					out.add("BOUND make %s %d %s", exprString(v.Key), k, pos(v.Pos()))
				}
			case *ast.AssignStmt:
				for i, r := range v.Rhs {
					if k, ok := isMake(r); ok && k >= 32 && i < len(v.Lhs) {
						out.add("BOUND make %s %d %s", exprString(v.Lhs[i]), k, pos(v.Pos()))
					}
				}
			case *ast.TypeSpec:
				st, ok := v.Type.(*ast.StructType)
				if !ok {
					return true
				}
				for _, fl := range st.Fields.List {
					at, ok := fl.Type.(*ast.ArrayType)
					if !ok || at.Len == nil {
						continue
					}
					if k, ok := lit(at.Len); ok && k >= 50 {
						for _, nm := range fl.Names {
							out.add("BOUND array %s.%s %d %s", v.Name.Name, nm.Name, k, pos(fl.Pos()))
						}
					}
				}
			}
			return true
		})
	}
}
