// c11: correspondence cases for LongdayModel (hermes/longday.go).  For a set of latitudes
// (fixed edge values + random) prints the day-length oracle (days 1..367 with DL > 14 resp.
// DL > 16, from the real hermes.CalculateDayLenght) and what the real LangTag returned:
//
//	L <lat %x> <year> <tag> <p1> <p2> <days14,...>|<days16,...>
//
// and evaluates the property on the real code: every call returns (the python driver
// enforces a timeout), the result is (0,0,0) or TAG <= 367.
package main

import (
	"flag"
	"fmt"
	"strconv"
	"strings"

	"github.com/zalf-rpm/Hermes2Go/hermes"
)

func init() { commands["c11"] = c11Cmd }

func c11Cmd(args []string) {
	fs := flag.NewFlagSet("c11", flag.ExitOnError)
	seed := fs.Uint64("seed", 1, "seed")
	n := fs.Int("n", 40, "number of random latitudes")
	fs.Parse(args)
	r := newRng(*seed)
	lats := []float64{0, 10, 29.9, 30.5, 40, -40, 48.5, 48.7, 49, 52.5, 52.6732, 54, 60, 65.5, 66.6, 70, 80, 89.9, -52.5, -66.6, -89}
	for i := 0; i < *n; i++ {
		switch r.intn(3) {
		case 0:
			lats = append(lats, r.between(-90, 90))
		case 1:
			lats = append(lats, r.between(28, 32)) // around the 14 h threshold
		default:
			lats = append(lats, r.between(47, 50)) // around the 16 h threshold
		}
	}
	for _, lat := range lats {
		var d14, d16 []string
		for tag := 1; tag <= 367; tag++ {
			dl, _, _, _, _, _, _ := hermes.CalculateDayLenght(float64(tag), lat)
			if dl > 14 {
				d14 = append(d14, strconv.Itoa(tag))
			}
			if dl > 16 {
				d16 = append(d16, strconv.Itoa(tag))
			}
		}
		var progDat string
		var year, anjahr int
		var f func(float64, string, int) (int, int, int)
		switch r.intn(3) {
		case 0: // no date: the start year is used
			progDat = "--------"
			anjahr = 1950 + r.intn(100)
			year = anjahr
			f = hermes.LangTagConverter(50, hermes.DateDElong)
		case 1: // ddmmyyyy
			y := 1951 + r.intn(100)
			progDat = fmt.Sprintf("0401%04d", y)
			anjahr = 1980
			year = y - 1900
			f = hermes.LangTagConverter(50, hermes.DateDElong)
		default: // ddmmyy with century split 50
			yy := r.intn(100)
			progDat = fmt.Sprintf("0401%02d", yy)
			anjahr = 1980
			if yy < 50 {
				year = 100 + yy
			} else {
				year = yy
			}
			f = hermes.LangTagConverter(50, hermes.DateDEshort)
		}
		tag, p1, p2 := f(lat, progDat, anjahr)
		fmt.Printf("L %x %d %d %d %d %s|%s\n", lat, year, tag, p1, p2, strings.Join(d14, ","), strings.Join(d16, ","))
		if !((tag == 0 && p1 == 0 && p2 == 0) || (tag >= 2 && tag <= 367)) {
			fmt.Printf("ORACLE longday:lat=%v returned TAG=%d P1=%d P2=%d (neither (0,0,0) nor a TAG in 2..367)\n", lat, tag, p1, p2)
		}
	}
}
