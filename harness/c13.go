// c13 / c18: loaded-state dumps of the REAL crop-parameter code for the CropParamModel /
// OverrideModel correspondence.
//
//	vh cropstate -jobs <file.json> [-from k]
//
// jobs: [{"id":..,"kind":"classic"|"yaml"|"convert"|"record","file":path,"prior":0|1,"cont":bool,
//         "cropfile":name,"args":[[key,value],...]}]
//   classic  ReadCropParamClassic (+ OverwriteCropParameters when args are given) -> state
//   yaml     ReadCropParamYml     (+ override)                                     -> state
//   convert  ConvertCropParamClassicToYml                                          -> record
//   record   ReadCropParamFromFile (the decoded YAML record)                       -> record
// One JSON line per job: {"id":..,"f":[hex floats],"z":[ints]} in the order of C13Corr.flat_state /
// flat_rec, or {"id":..,"err":..}.  A log.Fatal inside the real code ends the process; the driver
// restarts after the job that died.
package main

import (
	"bufio"
	"encoding/json"
	"flag"
	"fmt"
	"os"
	"strconv"

	"github.com/zalf-rpm/Hermes2Go/hermes"
)

func init() { commands["cropstate"] = cropStateCmd }

type cropJob struct {
	ID       int         `json:"id"`
	Kind     string      `json:"kind"`
	File     string      `json:"file"`
	Prior    int         `json:"prior"`
	Cont     bool        `json:"cont"`
	Mode     int         `json:"mode"` // 0: from cont; 2: rotation position 2 after the same crop; 3: position 3 after another crop
	CropFile string      `json:"cropfile"`
	Args     [][2]string `json:"args"`
}

// junk prior state: float field f (flatten order), element i -> (1000+64f+i)/8
func jf(f, i int) float64 { return float64(1000+64*f+i) / 8 }

func priorState(g *hermes.GlobalVarsMain, l *hermes.CropSharedVars, junk bool) {
	if !junk {
		return
	}
	g.MAXAMAX, g.MINTMP, g.WUMAXPF, g.VELOC, g.RGA, g.RGB, g.YIFAK = jf(0, 0), jf(1, 0), jf(2, 0), jf(3, 0), jf(4, 0), jf(5, 0), jf(6, 0)
	g.PHYLLO, g.VERNTAGE, g.TROOTSUM, g.GEHOB, g.WUGEH = jf(7, 0), jf(8, 0), jf(9, 0), jf(10, 0), jf(11, 0)
	loc := hermes.VerifCropLocal{Temptyp: 3, Kcini: jf(12, 0), Tendsum: jf(13, 0), UseBBCH: true}
	for i := 0; i < 10; i++ {
		g.SUM[i] = jf(14, i)
		for j := 0; j < 5; j++ {
			g.PRO[i][j] = jf(15, i*5+j) / 1024
			g.DEAD[i][j] = jf(16, i*5+j) / 1024
		}
		g.MAIRT[i], g.WDORG[i], l.ENDBBCH[i] = jf(18, i), jf(19, i), jf(20, i)
		g.TSUM[i], g.BAS[i], g.VSCHWELL[i], g.DAYL[i], g.DLBAS[i] = jf(21, i), jf(22, i), jf(23, i), jf(24, i), jf(25, i)
		g.DRYSWELL[i], g.LUKRIT[i], g.LAIFKT[i], g.WGMAX[i] = jf(26, i), jf(27, i), jf(28, i), jf(29, i)
		loc.Kc[i] = jf(30, i)
		g.DEV[i] = 21 + i
	}
	for i := 0; i < 5; i++ {
		g.WORG[i] = jf(17, i)
	}
	g.NGEFKT, g.SubOrgan, g.YORGAN, g.NRKOM, g.DAUERKULT, g.LEGUM = 3, 3, 3, 3, true, true
	l.NRENTW = 3
	g.DOUBLE, g.ASIP, g.BLUET, g.REIF, g.ENDPRO = 11, 12, 13, 14, 15
	l.AboveGroundOrgans = []int{1, 2}
	hermes.VerifSetCropLocal(l, loc)
}

func b2i(b bool) int {
	if b {
		return 1
	}
	return 0
}

func flatState(g *hermes.GlobalVarsMain, l *hermes.CropSharedVars) ([]string, []int) {
	loc := hermes.VerifGetCropLocal(l)
	f := []float64{g.MAXAMAX, g.MINTMP, g.WUMAXPF, g.VELOC, g.RGA, g.RGB, g.YIFAK, g.PHYLLO, g.VERNTAGE, g.TROOTSUM,
		g.GEHOB, g.WUGEH, loc.Kcini, loc.Tendsum}
	f = append(f, g.SUM[:]...)
	for i := 0; i < 10; i++ {
		f = append(f, g.PRO[i][:]...)
	}
	for i := 0; i < 10; i++ {
		f = append(f, g.DEAD[i][:]...)
	}
	f = append(f, g.WORG[:]...)
	f = append(f, g.MAIRT[:]...)
	f = append(f, g.WDORG[:]...)
	f = append(f, l.ENDBBCH[:]...)
	for _, a := range [][10]float64{g.TSUM, g.BAS, g.VSCHWELL, g.DAYL, g.DLBAS, g.DRYSWELL, g.LUKRIT, g.LAIFKT, g.WGMAX, loc.Kc} {
		f = append(f, a[:]...)
	}
	z := []int{loc.Temptyp, g.NGEFKT, g.SubOrgan, g.YORGAN, g.NRKOM, b2i(g.DAUERKULT), b2i(g.LEGUM), l.NRENTW, b2i(loc.UseBBCH),
		g.DOUBLE, g.ASIP, g.BLUET, g.REIF, g.ENDPRO}
	z = append(z, g.DEV[:]...)
	z = append(z, len(l.AboveGroundOrgans))
	z = append(z, l.AboveGroundOrgans...)
	return hxs(f), z
}

func flatRec(c *hermes.CropParam) ([]string, []int) {
	f := []float64{c.MAXAMAX, c.MINTMP, c.WUMAXPF, c.VELOC, c.RGA, c.RGB, c.YIFAK, c.INITCONCNBIOM, c.INITCONCNROOT, c.KcIni}
	f = append(f, c.WORG...)
	f = append(f, c.MAIRT...)
	z := []int{c.TempTyp, c.NGEFKT, c.SubOrgan, c.YORGAN, c.NRKOM, len(c.CompartmentNames), b2i(bool(c.DAUERKULT)), b2i(bool(c.LEGUM)),
		c.NRENTW, len(c.AboveGroundOrgans)}
	z = append(z, c.AboveGroundOrgans...)
	z = append(z, len(c.WORG), len(c.MAIRT), len(c.CropDevelopmentStages))
	for _, s := range c.CropDevelopmentStages {
		f = append(f, s.TSUM, s.BAS, s.VSCHWELL, s.DAYL, s.DLBAS, s.DRYSWELL, s.LUKRIT, s.LAIFKT, s.WGMAX, s.Kc)
		f = append(f, s.PRO...)
		f = append(f, s.DEAD...)
		z = append(z, s.ENDBBCH, len(s.PRO), len(s.DEAD))
	}
	return hxs(f), z
}

func cropStateCmd(args []string) {
	fs := flag.NewFlagSet("cropstate", flag.ExitOnError)
	jobsFile := fs.String("jobs", "", "json job list")
	from := fs.Int("from", 0, "first job index")
	fs.Parse(args)
	raw, err := os.ReadFile(*jobsFile)
	if err != nil {
		panic(err)
	}
	var jobs []cropJob
	if err := json.Unmarshal(raw, &jobs); err != nil {
		panic(err)
	}
	session := hermes.NewHermesSession()
	defer session.Close()
	for k := *from; k < len(jobs); k++ {
		j := jobs[k]
		fmt.Fprintf(os.Stderr, "JOB %d\n", k) // the driver learns which job a Fatal belongs to
		switch j.Kind {
		case "convert":
			c, err := hermes.ConvertCropParamClassicToYml(j.File, session)
			if err != nil {
				emit(jobj{"id": j.ID, "err": err.Error()})
			} else {
				f, z := flatRec(&c)
				emit(jobj{"id": j.ID, "f": f, "z": z})
			}
		case "record":
			c, err := hermes.ReadCropParamFromFile(j.File)
			if err != nil {
				emit(jobj{"id": j.ID, "err": err.Error()})
			} else {
				f, z := flatRec(&c)
				emit(jobj{"id": j.ID, "f": f, "z": z})
			}
		default:
			g := hermes.NewGlobalVarsMain()
			g.Session = session
			l := hermes.CropSharedVars{}
			priorState(&g, &l, j.Prior == 1)
			switch {
			case j.Mode == 2: // second rotation entry after the same crop: not a continuing stand (AKF.Num = 2)
				g.AKF.SetByIndex(1)
				g.FRUCHT[0], g.FRUCHT[1] = 7, 7
			case j.Mode == 3: // third entry after a different crop
				g.AKF.SetByIndex(2)
				g.FRUCHT[0], g.FRUCHT[1], g.FRUCHT[2] = 7, 8, 7
			case j.Cont: // the perennial crop continues: AKF.Num > 2 and the same crop as before
				g.AKF.SetByIndex(2)
				g.FRUCHT[1], g.FRUCHT[2] = 7, 7
			default:
				g.AKF.SetByIndex(1)
				g.FRUCHT[0], g.FRUCHT[1] = 7, 8
			}
			if j.Kind == "yaml" {
				hermes.ReadCropParamYml(j.File, &l, &g)
			} else {
				hermes.ReadCropParamClassic(j.File, &l, &g)
			}
			if j.Args != nil {
				m := map[string]string{"CropFile": j.CropFile}
				for _, kv := range j.Args {
					m[kv[0]] = kv[1]
				}
				ow, err := hermes.ParseCropOverwrites(m)
				if err != nil {
					emit(jobj{"id": j.ID, "err": "parse: " + err.Error()})
					continue
				}
				ow.OverwriteCropParameters(j.File, &g, &l)
			}
			f, z := flatState(&g, &l)
			emit(jobj{"id": j.ID, "f": f, "z": z})
		}
		stdout.Flush()
	}
}

// ---------------------------------------------------------------------------------------------
//	vh soilstate -jobs <file.json> [-from k]
// jobs: [{"id":..,"file":path,"csv":bool,"sid":"001","gw":bool}] -> the SoilFileData of the REAL LoadSoil /
// LoadSoilCSV: {"id":..,"z":[AZHO,WURZMAX,useGW(GRHI),DRAIDEP,N, UKT[1],LD[0], UKT[2],LD[1],..],
// "f":[DRAIFAK, per horizon BULK CGEHALT CNRATIO NGEHALT HUMUS STEIN FKA WP GPV SSAND SLUF TON],"s":[BART..]}
// or {"id":..,"err":..} for an error return.

func init() { commands["soilstate"] = soilStateCmd }

type soilJob struct {
	ID   int    `json:"id"`
	File string `json:"file"`
	CSV  bool   `json:"csv"`
	SID  string `json:"sid"`
	GW   bool   `json:"gw"`
}

func soilStateCmd(args []string) {
	fs := flag.NewFlagSet("soilstate", flag.ExitOnError)
	jobsFile := fs.String("jobs", "", "json job list")
	from := fs.Int("from", 0, "first job index")
	fs.Parse(args)
	raw, err := os.ReadFile(*jobsFile)
	if err != nil {
		panic(err)
	}
	var jobs []soilJob
	if err := json.Unmarshal(raw, &jobs); err != nil {
		panic(err)
	}
	session := hermes.NewHermesSession()
	defer session.Close()
	for k := *from; k < len(jobs); k++ {
		j := jobs[k]
		fmt.Fprintf(os.Stderr, "JOB %d\n", k)
		hp := hermes.NewHermesFilePath(".", "x", "x", "", "")
		hp.OverrideBofile(j.File)
		var sd hermes.SoilFileData
		var err error
		if j.CSV {
			sd, err = hermes.LoadSoilCSV(j.GW, "[v]", &hp, j.SID, session)
		} else {
			sd, err = hermes.LoadSoil(j.GW, "[v]", &hp, j.SID, session)
		}
		if err != nil {
			emit(jobj{"id": j.ID, "err": err.Error()})
			stdout.Flush()
			continue
		}
		z := []int{sd.AZHO, sd.WURZMAX, sd.GRHI, sd.DRAIDEP, sd.N}
		f := []float64{sd.DRAIFAK}
		s := []string{}
		n := sd.AZHO
		if n > 10 {
			n = 10
		}
		for i := 0; i < n; i++ {
			z = append(z, sd.UKT[i+1], sd.LD[i])
			f = append(f, sd.BULK[i], sd.CGEHALT[i], sd.CNRATIO[i], sd.NGEHALT[i], sd.HUMUS[i], sd.STEIN[i], sd.FKA[i], sd.WP[i],
				sd.GPV[i], sd.SSAND[i], sd.SLUF[i], sd.TON[i])
			s = append(s, sd.BART[i])
		}
		consistent := sd.GRLO == sd.GRHI && sd.GRW == float64(sd.GRHI) && sd.GW == float64(sd.GRHI) && (n == 0 || sd.CNRAT1 == sd.CNRATIO[0])
		emit(jobj{"id": j.ID, "z": z, "f": hxs(f), "s": s, "consistent": consistent})
		stdout.Flush()
	}
}

// ---------------------------------------------------------------------------------------------
//	vh inputstate -work <examples tree> -lines <file> [-from k] [-n 12]
// runs each batch line in-process and prints what the REAL Input left in the rotation arrays and the drain
// parameters, captured by the probe on the first simulated day:
// {"line":k,"crop":[..],"variety":[..],"saat":[..],"ernte":[..],"ernte2":[..],"saat1":[..],"saat2":[..],
//  "odu":[hex],"jn":[hex],"ertr":[hex],"itag":..,"beginn":..,"draidep":..,"draifak":hex,"success":..,"err":..}

func init() { commands["inputstate"] = inputStateCmd }

func inputStateCmd(args []string) {
	fs := flag.NewFlagSet("inputstate", flag.ExitOnError)
	work := fs.String("work", ".", "scratch copy of the examples tree")
	linesFile := fs.String("lines", "", "file with batch lines")
	from := fs.Int("from", 0, "first line index")
	n := fs.Int("n", 12, "rotation entries to print")
	fs.Parse(args)
	raw, err := os.ReadFile(*linesFile)
	if err != nil {
		panic(err)
	}
	var lines []string
	for _, l := range splitLinesKeep(string(raw)) {
		if len(l) > 0 {
			lines = append(lines, l)
		}
	}
	for k := *from; k < len(lines); k++ {
		fmt.Fprintf(os.Stderr, "JOB %d\n", k)
		var o jobj
		hermes.VerifProbe = func(stage string, zeit, subd int, wdt float64, g *hermes.GlobalVarsMain, w *hermes.WaterSharedVars, nn *hermes.NitroSharedVars) {
			if o != nil {
				return
			}
			o = jobj{"line": k, "itag": g.ITAG, "beginn": g.BEGINN, "draidep": g.DRAIDEP, "draifak": hx(g.DRAIFAK)}
			var crop, variety []string
			var saat, ernte, ernte2, saat1, saat2 []int
			var odu, jn, ertr []float64
			for i := 0; i < *n; i++ {
				c := ""
				if g.FRUCHT[i] != 0 {
					c = g.CropTypeToString(g.FRUCHT[i], false)
				}
				crop = append(crop, c)
				variety = append(variety, g.CVARIETY[i])
				saat, ernte, ernte2 = append(saat, g.SAAT[i]), append(ernte, g.ERNTE[i]), append(ernte2, g.ERNTE2[i])
				saat1, saat2 = append(saat1, g.SAAT1[i]), append(saat2, g.SAAT2[i])
				odu, jn, ertr = append(odu, g.ODU[i]), append(jn, g.JN[i]), append(ertr, g.ERTR[i])
			}
			o["crop"], o["variety"], o["saat"], o["ernte"], o["ernte2"], o["saat1"], o["saat2"] = crop, variety, saat, ernte, ernte2, saat1, saat2
			o["odu"], o["jn"], o["ertr"] = hxs(odu), hxs(jn), hxs(ertr)
		}
		res := runProject(*work, splitArgs(lines[k]))
		hermes.VerifProbe = nil
		if o == nil {
			o = jobj{"line": k}
		}
		o["success"], o["err"] = res.Success, res.Err
		emit(o)
		stdout.Flush()
	}
}

func splitLinesKeep(s string) []string {
	var out []string
	cur := ""
	for _, c := range s {
		if c == '\n' {
			out = append(out, cur)
			cur = ""
		} else if c != '\r' {
			cur += string(c)
		}
	}
	if cur != "" {
		out = append(out, cur)
	}
	return out
}

// ---------------------------------------------------------------------------------------------
//	vh measstate -jobs <file.json> [-from k]
// jobs: [{"id":..,"file":path,"csv":bool,"ident":"ALLE","n":17,"fmt":1,"cent":60,"w":[hex..],"wmin":[hex..]}] -> what the REAL
// ExtractMeasuredDataTxt / ExtractMeasuredDataCSV leave: {"id":..,"nmess":..,"mes":"..","mess":..,"f":[WG[2][0..N], WNZ[0],
// KNZ1..6[0], CN[1][0..N-1]]}

func init() { commands["measstate"] = measStateCmd }

type measJob struct {
	ID    int      `json:"id"`
	File  string   `json:"file"`
	CSV   bool     `json:"csv"`
	Ident string   `json:"ident"`
	N     int      `json:"n"`
	Fmt   int      `json:"fmt"`
	Cent  int      `json:"cent"`
	W     []string `json:"w"`
	WMIN  []string `json:"wmin"`
}

func measStateCmd(args []string) {
	fs := flag.NewFlagSet("measstate", flag.ExitOnError)
	jobsFile := fs.String("jobs", "", "json job list")
	from := fs.Int("from", 0, "first job index")
	fs.Parse(args)
	raw, err := os.ReadFile(*jobsFile)
	if err != nil {
		panic(err)
	}
	var jobs []measJob
	if err := json.Unmarshal(raw, &jobs); err != nil {
		panic(err)
	}
	for k := *from; k < len(jobs); k++ {
		j := jobs[k]
		fmt.Fprintf(os.Stderr, "JOB %d\n", k)
		g := hermes.NewGlobalVarsMain()
		g.N = j.N
		for i := range j.W {
			g.W[i], _ = strconv.ParseFloat(j.W[i], 64)
			g.WMIN[i], _ = strconv.ParseFloat(j.WMIN[i], 64)
		}
		g.BEGINN = 29000
		g.Datum = hermes.DateConverter(j.Cent, hermes.DateFormat(j.Fmt))
		f, err := os.Open(j.File)
		if err != nil {
			panic(err)
		}
		sc := bufio.NewScanner(f)
		if j.CSV {
			hermes.ExtractMeasuredDataCSV(sc, &g, j.Ident, j.File)
		} else {
			hermes.ExtractMeasuredDataTxt(sc, &g, j.Ident, j.File)
		}
		f.Close()
		var fl []float64
		fl = append(fl, g.WG[2][:j.N+1]...)
		fl = append(fl, g.WNZ[0], g.KNZ1[0], g.KNZ2[0], g.KNZ3[0], g.KNZ4[0], g.KNZ5[0], g.KNZ6[0])
		fl = append(fl, g.CN[1][:j.N]...)
		emit(jobj{"id": j.ID, "nmess": g.NMESS, "mes": g.MES[0], "mess": g.MESS[0], "f": hxs(fl)})
		stdout.Flush()
	}
}

// ---------------------------------------------------------------------------------------------
//	vh predyear -jobs <file>   (lines: "<fmt 0..3> <cent> <date text>")
// the year (from 1900) the REAL LangTagConverter takes from a prediction date: P2 of the call with the date is compared
// with P2 of calls without a date and start year a = 0..250 (P2 = (a-1)*365 + a/4 + P2base is strictly increasing in a)

func init() { commands["predyear"] = predYearCmd }

func predYearCmd(args []string) {
	fs := flag.NewFlagSet("predyear", flag.ExitOnError)
	jobsFile := fs.String("jobs", "", "job lines")
	fs.Parse(args)
	raw, err := os.ReadFile(*jobsFile)
	if err != nil {
		panic(err)
	}
	for k, l := range splitLinesKeep(string(raw)) {
		t := splitArgs(l)
		if len(t) != 3 {
			continue
		}
		f, _ := strconv.Atoi(t[0])
		cent, _ := strconv.Atoi(t[1])
		lt := hermes.LangTagConverter(cent, hermes.DateFormat(f))
		_, _, p2 := lt(52.5, t[2], 80)
		yr := -1
		for a := 0; a <= 250; a++ {
			if _, _, q := lt(52.5, "--------", a); q == p2 {
				yr = a
				break
			}
		}
		emit(jobj{"k": k, "year": yr})
	}
	stdout.Flush()
}

// ---------------------------------------------------------------------------------------------
//	vh stalerun -work <examples tree> -lines <file> [-perturb]
// runs each batch line in-process; with -perturb the parameters of N-content function 5 (RGA, RGB, SubOrgan) — which the
// classic crop reader leaves at the previous crop's values for crops of another N function — are overwritten every day
// while the current crop's N function is not 5.  The results must not depend on them ("does not read what the reader did not set").

func init() { commands["stalerun"] = staleRunCmd }

func staleRunCmd(args []string) {
	fs := flag.NewFlagSet("stalerun", flag.ExitOnError)
	work := fs.String("work", ".", "scratch copy of the examples tree")
	linesFile := fs.String("lines", "", "file with batch lines")
	perturb := fs.Bool("perturb", false, "overwrite the stale fields")
	from := fs.Int("from", 0, "first line index")
	fs.Parse(args)
	raw, err := os.ReadFile(*linesFile)
	if err != nil {
		panic(err)
	}
	var lines []string
	for _, l := range splitLinesKeep(string(raw)) {
		if len(l) > 0 {
			lines = append(lines, l)
		}
	}
	for k := *from; k < len(lines); k++ {
		fmt.Fprintf(os.Stderr, "JOB %d\n", k)
		days := 0
		if *perturb {
			hermes.VerifProbe = func(stage string, zeit, subd int, wdt float64, g *hermes.GlobalVarsMain, w *hermes.WaterSharedVars, nn *hermes.NitroSharedVars) {
				if stage == "evatra-pre" && g.NGEFKT != 5 {
					g.RGA, g.RGB, g.SubOrgan = 7.25, -3.5, 2
					days++
				}
			}
		}
		res := runProject(*work, splitArgs(lines[k]))
		hermes.VerifProbe = nil
		emit(jobj{"line": k, "success": res.Success, "err": res.Err, "perturbed_days": days})
		stdout.Flush()
	}
}
