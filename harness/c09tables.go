package main

import (
	"flag"
	"os"
	"path/filepath"
	"reflect"
	"sort"
	"strconv"
	"strings"

	"github.com/zalf-rpm/Hermes2Go/hermes"
)

func init() { commands["c09tables"] = c09TablesCmd }

// c09TablesCmd reads every crop parameter file PARAM* below the given directories with the REAL readers
// (ReadCropParamClassic / ReadCropParamYml) and prints, per file, the partition table PRO and the death-rate
// table DEAD the growth loop will use: every entry as the exact binary64 (hex) and as the shortest decimal
// text that parses to that binary64 (the text of the file for <= 15 significant digits).
func c09TablesCmd(args []string) {
	fs := flag.NewFlagSet("c09tables", flag.ExitOnError)
	dirs := fs.String("dirs", "", "comma separated directories")
	fs.Parse(args)
	defer stdout.Flush()
	var files []string
	for _, d := range strings.Split(*dirs, ",") {
		ents, err := os.ReadDir(d)
		if err != nil {
			continue
		}
		for _, e := range ents {
			if !e.IsDir() && strings.HasPrefix(e.Name(), "PARAM") {
				files = append(files, filepath.Join(d, e.Name()))
			}
		}
	}
	sort.Strings(files)
	for _, fn := range files {
		func() {
			session := hermes.NewHermesSession()
			defer session.Close()
			var g hermes.GlobalVarsMain
			g.Session = session
			var l hermes.CropSharedVars
			yml := strings.HasSuffix(fn, ".yml")
			defer func() {
				if e := recover(); e != nil {
					emit(jobj{"k": "table-error", "file": fn, "err": e})
				}
			}()
			if yml {
				hermes.ReadCropParamYml(fn, &l, &g)
			} else {
				hermes.ReadCropParamClassic(fn, &l, &g)
			}
			dec := func(fs []float64) []string {
				r := make([]string, len(fs))
				for i, f := range fs {
					r[i] = strconv.FormatFloat(f, 'f', -1, 64)
				}
				return r
			}
			pro, dead, proD, deadD := [][]string{}, [][]string{}, [][]string{}, [][]string{}
			for s := 0; s < l.NRENTW && s < 10; s++ {
				pro = append(pro, hxs(g.PRO[s][:]))
				dead = append(dead, hxs(g.DEAD[s][:]))
				proD = append(proD, dec(g.PRO[s][:]))
				deadD = append(deadD, dec(g.DEAD[s][:]))
			}
			lv := reflect.ValueOf(l)
			kc := lv.FieldByName("kc")
			kcs := []string{}
			for i := 0; i < l.NRENTW && i < kc.Len(); i++ {
				kcs = append(kcs, hx(kc.Index(i).Float()))
			}
			n := l.NRENTW
			if n > 10 {
				n = 10
			}
			params := jobj{"MAXAMAX": hx(g.MAXAMAX), "MINTMP": hx(g.MINTMP), "WUMAXPF": hx(g.WUMAXPF), "VELOC": hx(g.VELOC), "NGEFKT": g.NGEFKT,
				"RGA": hx(g.RGA), "RGB": hx(g.RGB), "SubOrgan": g.SubOrgan, "YORGAN": g.YORGAN, "YIFAK": hx(g.YIFAK), "NRKOM": g.NRKOM, "NRENTW": l.NRENTW,
				"DAUERKULT": g.DAUERKULT, "LEGUM": g.LEGUM, "WORG": hxs(g.WORG[:]), "MAIRT": hxs(g.MAIRT[:]), "GEHOB": hx(g.GEHOB), "WUGEH": hx(g.WUGEH),
				"TSUM": hxs(g.TSUM[:n]), "BAS": hxs(g.BAS[:n]), "VSCHWELL": hxs(g.VSCHWELL[:n]), "DAYL": hxs(g.DAYL[:n]), "DLBAS": hxs(g.DLBAS[:n]),
				"DRYSWELL": hxs(g.DRYSWELL[:n]), "LUKRIT": hxs(g.LUKRIT[:n]), "LAIFKT": hxs(g.LAIFKT[:n]), "WGMAX": hxs(g.WGMAX[:n]),
				"AboveGroundOrgans": l.AboveGroundOrgans, "kc": kcs, "kcini": hx(lv.FieldByName("kcini").Float()),
				"temptyp": lv.FieldByName("temptyp").Int(), "tendsum": hx(lv.FieldByName("tendsum").Float())}
			emit(jobj{"k": "table", "file": fn, "yml": yml, "nrentw": l.NRENTW, "nrkom": g.NRKOM, "dauerkult": g.DAUERKULT, "params": params,
				"pro": pro, "dead": dead, "pro_dec": proD, "dead_dec": deadD})
		}()
	}
}
