package main

import (
	"bufio"
	"flag"
	"fmt"
	"os"
	"path/filepath"
	"strings"
	"time"

	"github.com/zalf-rpm/Hermes2Go/hermes"
)

func init() { commands["c12"] = c12 }

// c12 prints, for the real converters,
//
//	N n y m d zt mas ty tm td tdoy      KalenderDate(n), DateConverter(DElong) of the Go-time text, Go time's date
//	T fmt sep cent n text zt mas        Kalender(fmt,sep)(n) and Datum(cent,fmt)(text)
//
// and lines "ORACLE <what>" for every deviation from Go's time package / the round trip.
func c12(args []string) {
	fs := flag.NewFlagSet("c12", flag.ExitOnError)
	seed := fs.Uint64("seed", 1, "seed")
	textEvery := fs.Int("text-every", 20, "emit text cases for about one day number in this many")
	work := fs.String("work", "", "scratch copy of the examples tree for the whole run crossing the year 2000 (empty: skip)")
	fs.Parse(args)
	r := newRng(*seed)
	w := bufio.NewWriterSize(os.Stdout, 1<<20)
	defer w.Flush()
	base := time.Date(1900, 12, 31, 0, 0, 0, 0, time.UTC)
	const last = 72684
	fmts := []hermes.DateFormat{hermes.DateDEshort, hermes.DateDElong, hermes.DateENshort, hermes.DateENlong}
	seps := []string{"", "."}
	long := hermes.DateConverter(0, hermes.DateDElong)
	oracleFails := 0
	fail := func(format string, a ...interface{}) {
		oracleFails++
		if oracleFails <= 50 {
			fmt.Fprintf(w, "ORACLE "+format+"\n", a...)
		}
	}
	kals := make([][]hermes.KalenderConverterFunc, len(fmts))
	for fi, f := range fmts {
		for _, sep := range seps {
			kals[fi] = append(kals[fi], hermes.KalenderConverter(f, sep))
		}
	}
	prevMas := 0
	for n := 1; n <= last; n++ {
		t := base.AddDate(0, 0, n)
		y, m, d := hermes.KalenderDate(n)
		zt, mas := long(fmt.Sprintf("%02d%02d%d", t.Day(), int(t.Month()), t.Year()))
		fmt.Fprintf(w, "N %d %d %d %d %d %d %d %d %d %d\n", n, y, m, d, zt, mas, t.Year(), int(t.Month()), t.Day(), t.YearDay())
		// property oracle on the real code, exhaustive
		if y != t.Year() || m != int(t.Month()) || d != t.Day() {
			fail("n=%d KalenderDate=%d-%d-%d civil=%s", n, y, m, d, t.Format("2006-01-02"))
		}
		if mas != n || zt != t.YearDay() {
			fail("date=%s masdat=%d doy=%d expected %d %d", t.Format("2006-01-02"), mas, zt, n, t.YearDay())
		}
		if n > 1 && mas != prevMas+1 {
			fail("date=%s not consecutive: %d after %d", t.Format("2006-01-02"), mas, prevMas)
		}
		prevMas = mas
		emit := *textEvery <= 1 || r.intn(*textEvery) == 0 || (m == 2 && d >= 28) || (m == 3 && d == 1) || (m == 12 && d == 31) || (m == 1 && d == 1)
		for fi, f := range fmts {
			for si, sep := range seps {
				short := f == hermes.DateDEshort || f == hermes.DateENshort
				Y := t.Year() - 1900
				// the century splits that keep the year unambiguous: Y-99 <= cent <= Y, within 0..100
				lo, hi := Y-99, Y
				if lo < 0 {
					lo = 0
				}
				if hi > 100 {
					hi = 100
				}
				cents := []int{lo, hi, lo + r.intn(hi-lo+1)}
				if !short {
					cents = []int{r.intn(101)}
				}
				// ONE converter instance per format and separator serves all day numbers in ascending order (as the day loop
				// uses g.Kalender); a second, fresh instance is asked out of order
				kal := kals[fi][si]
				text := kal(n)
				if fresh := hermes.KalenderConverter(f, sep)(n); fresh != text {
					fail("fmt=%d sep=%q n=%d converter used for consecutive days gives %s, a fresh one %s", fi, sep, n, text, fresh)
				}
				for ci, cent := range cents {
					zt2, mas2 := hermes.DateConverter(cent, f)(text)
					if mas2 != n || zt2 != t.YearDay() {
						fail("fmt=%d sep=%q cent=%d n=%d text=%s -> masdat=%d doy=%d", fi, sep, cent, n, text, mas2, zt2)
					}
					if emit && ci == 2 || emit && !short {
						fmt.Fprintf(w, "T %d %d %d %d %s %d %d\n", fi, si, cent, n, text, zt2, mas2)
					}
				}
				// an ambiguous split (outside the window): model and code must still agree
				if emit && short && r.intn(4) == 0 {
					cent := r.intn(101)
					zt2, mas2 := hermes.DateConverter(cent, f)(text)
					fmt.Fprintf(w, "T %d %d %d %d %s %d %d\n", fi, si, cent, n, text, zt2, mas2)
				}
				// the expected text from Go's time package
				var want string
				switch f {
				case hermes.DateDEshort:
					want = fmt.Sprintf("%02d%s%02d%s%02d", t.Day(), sep, int(t.Month()), sep, t.Year()%100)
				case hermes.DateDElong:
					want = fmt.Sprintf("%02d%s%02d%s%d", t.Day(), sep, int(t.Month()), sep, t.Year())
				case hermes.DateENshort:
					want = fmt.Sprintf("%02d%s%02d%s%02d", int(t.Month()), sep, t.Day(), sep, t.Year()%100)
				case hermes.DateENlong:
					want = fmt.Sprintf("%02d%s%02d%s%d", int(t.Month()), sep, t.Day(), sep, t.Year())
				}
				if text != want {
					fail("fmt=%d sep=%q n=%d text=%s want=%s", fi, sep, n, text, want)
				}
			}
		}
	}
	// the converters as a run gets them: readConfig installs g.Datum / g.Kalender per configuration; several
	// configurations with different date formats live in one process (one session, several projects) and are
	// asked for the same day numbers in turn
	tmp, err := os.MkdirTemp("", "c12cfg")
	if err == nil {
		defer os.RemoveAll(tmp)
		type cfgCase struct {
			name, end string
			cent      int
			lo, hi    int // day numbers whose year is unambiguous under this split
		}
		// day numbers: 1950-01-01 = 17898 (two-digit year 50 = the split: 19yy), 2049-12-31 = 54422, 2000-01-01 = 36160, 1999-12-31 = 36159
		cfgs := []cfgCase{
			{"DateDEshort", "311299", 50, 17898, 54422}, {"DateDElong", "31121999", 50, 17898, 54422},
			{"DateENshort", "123199", 50, 17898, 54422}, {"DateENlong", "12311999", 50, 17898, 54422},
			{"DateDEshort", "311299", 100, 36160, 72684}, {"DateENshort", "123199", 100, 36160, 72684}, // all two-digit years are 20yy
			{"DateDEshort", "311299", 0, 1, 36159}, {"DateENshort", "123199", 0, 1, 36159}, // all are 19yy
		}
		gs := make([]hermes.GlobalVarsMain, len(cfgs))
		// ONE session for all configurations (a batch that mixes projects): anything the session caches across runs
		// is shared by them
		shared := hermes.NewHermesSession()
		overridden := 0
		for i, c := range cfgs {
			pn := fmt.Sprintf("p%d", i)
			proj := filepath.Join(tmp, "project", pn)
			os.MkdirAll(proj, 0o755)
			// every second configuration gets format and century split from the BATCH LINE (numeric format code) while the
			// project file names another format and split
			args := map[string]string{}
			yml := fmt.Sprintf("Dateformat: %s\nDivideCentury: %d\nEndDate: '%s'\n", c.name, c.cent, c.end)
			if i%2 == 1 {
				code := map[string]int{"DateDEshort": 0, "DateDElong": 1, "DateENshort": 2, "DateENlong": 3}[c.name]
				decoy := []string{"DateENlong", "DateDEshort", "DateDElong", "DateENshort"}[code]
				yml = fmt.Sprintf("Dateformat: %s\nDivideCentury: %d\nEndDate: '%s'\n", decoy, (c.cent+37)%100, c.end)
				args["Dateformat"] = fmt.Sprint(code)
				args["DivideCentury"] = fmt.Sprint(c.cent)
				overridden++
			}
			os.WriteFile(filepath.Join(proj, "config.yml"), []byte(yml), 0o644)
			gs[i] = hermes.NewGlobalVarsMain()
			gs[i].Session = shared
			hp := hermes.NewHermesFilePath(tmp, pn, "u", "", "")
			hermes.VerifReadConfig(&gs[i], args, &hp)
		}
		checked, langChecked := 0, 0
		checkDay := func(n int) {
			t := base.AddDate(0, 0, n)
			order := []int{0, 1, 2, 3, 4, 5, 6, 7, 7, 6, 5, 4, 3, 2, 1, 0, 2, 0, 5, 7}
			for _, i := range order {
				c := cfgs[i]
				if n < c.lo || n > c.hi {
					continue
				}
				var want string
				switch c.name {
				case "DateDEshort":
					want = fmt.Sprintf("%02d.%02d.%02d", t.Day(), int(t.Month()), t.Year()%100)
				case "DateDElong":
					want = fmt.Sprintf("%02d.%02d.%d", t.Day(), int(t.Month()), t.Year())
				case "DateENshort":
					want = fmt.Sprintf("%02d.%02d.%02d", int(t.Month()), t.Day(), t.Year()%100)
				case "DateENlong":
					want = fmt.Sprintf("%02d.%02d.%d", int(t.Month()), t.Day(), t.Year())
				}
				bare := strings.ReplaceAll(want, ".", "")
				if got := gs[i].Kalender(n); got != want {
					fail("configured Kalender format=%s split=%d n=%d text=%s want=%s (several configurations in one process)", c.name, c.cent, n, got, want)
				}
				if zt, mas := gs[i].Datum(bare); mas != n || zt != t.YearDay() {
					fail("configured Datum format=%s split=%d text=%s -> masdat=%d doy=%d want %d %d", c.name, c.cent, bare, mas, zt, n, t.YearDay())
				}
				// the third converter readConfig installs (longday.go, fertiliser prediction date): the day numbers it
				// returns for a date text lie in the civil year of that text (its own century fold agrees with Datum's)
				if _, p1, p2 := gs[i].LangTag(52.5, bare, 0); p1 > 0 && p2 > 0 {
					if y1, y2 := base.AddDate(0, 0, p1).Year(), base.AddDate(0, 0, p2).Year(); y1 != t.Year() || y2 != t.Year() {
						fail("configured LangTag format=%s split=%d text=%s -> day numbers %d %d in years %d %d, the text's year is %d", c.name, c.cent, bare, p1, p2, y1, y2, t.Year())
					}
					langChecked++
				}
				checked++
			}
		}
		for n := 1; n <= 72684; n += 1 + r.intn(60) {
			checkDay(n)
		}
		// the years on both sides of the century split 50 (two-digit year == split, split - 1) and of 2000
		for _, d := range [][3]int{{1950, 1, 1}, {1950, 6, 15}, {1950, 12, 31}, {2049, 1, 1}, {2049, 12, 31}, {1951, 1, 1}, {1999, 12, 31}, {2000, 1, 1}, {2000, 2, 29}} {
			checkDay(int(time.Date(d[0], time.Month(d[1]), d[2], 0, 0, 0, 0, time.UTC).Sub(base).Hours() / 24))
		}
		fmt.Fprintf(w, "CONFIGURED %d\n", checked)
		fmt.Fprintf(w, "LANGTAG %d\n", langChecked)
		fmt.Fprintf(w, "OVERRIDDEN %d\n", overridden)
	}
	// the day loop's own day of year and year length against the calendar on a run that crosses the end of the year
	// 2000 (a leap year divisible by 100): g.TAG is what sowing/harvest day-of-year outputs and the weather index use
	if *work != "" {
		days, first := 0, true
		hermes.VerifProbe = func(stage string, zeit, subd int, wdt float64, g *hermes.GlobalVarsMain, ws *hermes.WaterSharedVars, ns *hermes.NitroSharedVars) {
			if stage != "dayend" {
				return
			}
			days++
			t := base.AddDate(0, 0, zeit)
			yearLen := 365
			if t.Year()%4 == 0 {
				yearLen = 366
			}
			if first && (g.TAG.Index+1 != t.YearDay() || g.JTAG != yearLen) {
				first = false
				fail("run day-of-year zeit=%d date=%s loop-day-of-year=%d true=%d year-length=%d true=%d", zeit, t.Format("2006-01-02"), g.TAG.Index+1, t.YearDay(), g.JTAG, yearLen)
			}
		}
		res := runProject(*work, splitArgs("project=ex1 WeatherFolder=historical soilId=075 fcode=109_120 plotNr=10001 Altitude=73 Latitude=52.6732 poligonID=29872 EndDate=03012001 resultfolder="+filepath.Join(*work, "R", "c12")))
		hermes.VerifProbe = nil
		if !res.Success {
			fail("run crossing 2000 failed: %s", res.Err)
		}
		fmt.Fprintf(w, "RUNDAYS %d\n", days)
	}
	fmt.Fprintf(w, "ORACLE_TOTAL %d\n", oracleFails)
}
