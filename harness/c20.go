package main

import (
	"bufio"
	"flag"
	"fmt"
	"math"
	"os"
	"path/filepath"
	"sort"
	"strconv"
	"strings"

	"github.com/zalf-rpm/Hermes2Go/hermes"
)

func init() { commands["c20"] = c20 }

// gwRef evaluates property C20 itself for a strictly ascending series with positive dates:
// kind "hit" (value of that date), "between" (neighbours a < q < b), "before"/"after" (nearest value)
func gwRef(dates []int, vals []float64, q int) (kind string, lo, hi, lin float64) {
	i := sort.SearchInts(dates, q)
	switch {
	case i < len(dates) && dates[i] == q:
		return "hit", vals[i], vals[i], vals[i]
	case i == 0:
		return "before", vals[0], vals[0], vals[0]
	case i == len(dates):
		return "after", vals[i-1], vals[i-1], vals[i-1]
	}
	a, b, va, vb := dates[i-1], dates[i], vals[i-1], vals[i]
	t := float64(q-a) / float64(b-a)
	return "between", math.Min(va, vb), math.Max(va, vb), va*(1-t) + vb*t
}

func gwOracle(where string, dates []int, vals []float64, q int, level float64, err error) {
	if err != nil {
		c20Fail("gw-series:"+where+":error-on-nonempty-series", "q=%d dates=%v err=%v", q, dates, err)
		return
	}
	kind, lo, hi, lin := gwRef(dates, vals, q)
	switch kind {
	case "hit", "before", "after":
		if level != lo {
			c20Fail("gw-series:"+where+":"+kind, "q=%d level=%v expected=%v dates=%v vals=%v", q, level, lo, dates, vals)
		}
	default:
		tol := 1e-12 * (1 + math.Abs(lo) + math.Abs(hi))
		if !finite(level) || level < lo-tol || level > hi+tol {
			c20Fail("gw-series:"+where+":between-outside-interval", "q=%d level=%v interval=[%v,%v] dates=%v vals=%v", q, level, lo, hi, dates, vals)
		} else if math.Abs(level-lin) > 1e-9*(1+math.Abs(lo)+math.Abs(hi)) {
			c20Fail("gw-series:"+where+":between-not-linear", "q=%d level=%v interpolant=%v dates=%v vals=%v", q, level, lin, dates, vals)
		}
	}
}

// at most 3 ORACLE lines per (where, kind): a broken search fails on thousands of days
var c20Seen = map[string]int{}

func c20Fail(key, format string, a ...interface{}) {
	c20Seen[key]++
	if c20Seen[key] <= 3 {
		oracleFail(key+" "+format, a...)
	}
}

func strictlyAscendingPositive(dates []int) bool {
	for i, d := range dates {
		if d <= 0 || (i > 0 && dates[i-1] >= d) {
			return false
		}
	}
	return len(dates) > 0
}

// phases every run set contains explicitly: 0 and the neighbours of the default 80 and of the period 360
var boundaryPhases = []int{0, 1, 79, 80, 81, 200, 359, 360, 361, -1, -360, 720}

func c20(args []string) {
	fs := flag.NewFlagSet("c20", flag.ExitOnError)
	seed := fs.Uint64("seed", 1, "seed")
	nser := fs.Int("series", 150, "synthetic series")
	nq := fs.Int("queries", 30, "queries per series")
	ninit := fs.Int("init", 90, "hermes.Init cases")
	work := fs.String("work", "", "scratch copy of the examples tree (traced runs)")
	linesFile := fs.String("lines", "", "file with batch lines (traced runs)")
	fs.Parse(args)
	defer stdout.Flush()
	r := newRng(*seed)

	for c := 0; c < *nser; c++ {
		// shape: 0-5 strictly ascending (arbitrary gaps), 6 with duplicate dates, 7 unsorted, 8 contains date 0 / negative, 9 empty
		shape := c % 10
		n := 1 + r.intn(12)
		if r.chance(0.2) {
			n = 1 + r.intn(3)
		}
		base := 1 + r.intn(40000)
		if r.chance(0.1) {
			base = 1
		}
		var dates []int
		d := base
		for i := 0; i < n; i++ {
			dates = append(dates, d)
			gap := 1 + r.intn(3)
			if r.chance(0.5) {
				gap = 1 + r.intn(400)
			}
			d += gap
		}
		tag := "ascending"
		switch shape {
		case 6:
			tag = "duplicates"
			for k := 0; k < 1+r.intn(3) && n > 1; k++ {
				i := 1 + r.intn(n-1)
				dates[i] = dates[i-1]
			}
		case 7:
			tag = "unsorted"
			for i := n - 1; i > 0; i-- {
				j := r.intn(i + 1)
				dates[i], dates[j] = dates[j], dates[i]
			}
		case 8:
			tag = "zero-or-negative-date"
			off := dates[r.intn(n)]
			if r.chance(0.5) {
				off += r.intn(50)
			}
			for i := range dates {
				dates[i] -= off
			}
		case 9:
			tag = "empty"
			dates = nil
		}
		vals := make([]float64, len(dates))
		for i := range vals {
			switch r.intn(3) {
			case 0:
				vals[i] = float64(1 + r.intn(25))
			case 1:
				vals[i] = math.Round(r.between(1, 25)*10) / 10
			default:
				vals[i] = r.between(0.5, 30)
			}
		}
		g := new(hermes.GlobalVarsMain)
		g.GWTimeSeriesValues = make(map[int]float64)
		g.GWTimestamps = make([]int, 0)
		for i, dt := range dates { // as ReadGroundWaterTimeSeries fills them (soil.go:721-722)
			g.GWTimeSeriesValues[dt] = vals[i]
			g.GWTimestamps = append(g.GWTimestamps, dt)
		}
		lo, hi := base-30, d+30
		if len(dates) > 0 {
			lo, hi = dates[0], dates[0]
			for _, x := range dates {
				if x < lo {
					lo = x
				}
				if x > hi {
					hi = x
				}
			}
		}
		var qs []int
		var levels []string
		var errs []bool
		for k := 0; k < *nq; k++ {
			var q int
			switch r.intn(5) {
			case 0:
				if len(dates) > 0 {
					q = dates[r.intn(len(dates))] // exactly on a date
				}
			case 1:
				q = lo - 1 - r.intn(20) // before
			case 2:
				q = hi + 1 + r.intn(20) // after
			default:
				q = lo + r.intn(hi-lo+1) // inside the span
			}
			if r.chance(0.03) {
				q = 0
			}
			level, err := hermes.GetGroundWaterLevel(g, q)
			qs, levels, errs = append(qs, q), append(levels, hx(level)), append(errs, err != nil)
			if shape <= 5 && strictlyAscendingPositive(dates) {
				gwOracle("synthetic", dates, vals, q, level, err)
			}
			if len(dates) == 0 && err == nil {
				oracleFail("gw-series:synthetic:empty-series-no-error q=%d level=%v", q, level)
			}
		}
		emit(jobj{"k": "gwseries", "tag": tag, "dates": dates, "vals": hxs(vals), "q": qs, "level": levels, "err": errs})
	}

	// ---- hermes.Init (init.go:10-15): the level before the first day — sinusoid of TAG = ITAG-2 resp. the series at BEGINN-2
	for c := 0; c < *ninit; c++ {
		g := new(hermes.GlobalVarsMain)
		g.N = 1 + r.intn(20)
		g.TAG = hermes.DualType{Offset: 1}
		g.DZ = hermes.DualType{Index: 10, Num: 10}
		g.ITAG = 1 + r.intn(366)
		if c%3 != 2 {
			phase := boundaryPhases[(c/3*2+c%3)%len(boundaryPhases)]
			if c >= 3*len(boundaryPhases) {
				phase = -400 + r.intn(1201)
			}
			g.GROUNDWATERFROM = hermes.Polygonfile
			g.GRLO, g.GRHI = 1+r.intn(25), 1+r.intn(25)
			g.GW, g.AMPL = float64(g.GRLO+g.GRHI)/2, float64(g.GRLO-g.GRHI)/2 // input.go:73-75
			g.GWPhase = phase
			hermes.Init(g)
			arg := (g.TAG.Num + float64(phase)) * math.Pi / 180
			sn := math.Sin(arg)
			emit(jobj{"k": "gwsin", "line": -1, "zeit": 0, "tag": hx(g.TAG.Num), "phase": phase, "gphase": g.GWPhase, "gw": hx(g.GW), "ampl": hx(g.AMPL),
				"arg": hx(arg), "s": hx(sn), "grw": hx(g.GRW), "itag": g.ITAG})
			if g.TAG.Index != g.ITAG-2 {
				oracleFail("gw-sinus:init:day-of-year ITAG=%d TAG.Index=%d", g.ITAG, g.TAG.Index)
			}
			if expect := g.GW - (g.AMPL * sn); !(math.Abs(g.GRW-expect) <= 1e-9*(1+math.Abs(g.GW)+math.Abs(g.AMPL))) {
				c20Fail("gw-sinus:init:not-the-configured-phase", "ITAG=%d tag=%v configured-phase=%d gw=%v ampl=%v grw=%v expected=%v", g.ITAG, g.TAG.Num, phase, g.GW, g.AMPL, g.GRW, expect)
			}
		} else {
			n := r.intn(8)
			var dates []int
			var vals []float64
			d := 20000 + r.intn(15000)
			for i := 0; i < n; i++ {
				dates, vals = append(dates, d), append(vals, math.Round(r.between(1, 25)*10)/10)
				d += 1 + r.intn(200)
			}
			g.GROUNDWATERFROM = hermes.GWTimeSeries
			g.GWTimeSeriesValues = make(map[int]float64)
			g.GWTimestamps = make([]int, 0)
			for i, dt := range dates {
				g.GWTimeSeriesValues[dt] = vals[i]
				g.GWTimestamps = append(g.GWTimestamps, dt)
			}
			g.BEGINN = 20000 - 100 + r.intn(d-20000+200)
			if n > 0 && r.chance(0.3) {
				g.BEGINN = dates[r.intn(n)] + 2
			}
			hermes.Init(g)
			// an empty series: init.go:14 ignores the error and the level is 0
			emit(jobj{"k": "gwseries", "tag": "init", "dates": dates, "vals": hxs(vals), "q": []int{g.BEGINN - 2}, "level": []string{hx(g.GRW)}, "err": []bool{n == 0}})
			if n > 0 {
				gwOracle("init", dates, vals, g.BEGINN-2, g.GRW, nil)
			}
		}
	}

	if *linesFile != "" {
		f, err := os.Open(*linesFile)
		if err != nil {
			panic(err)
		}
		sc := bufio.NewScanner(f)
		lineNo := 0
		// consecutive lines with the same "@session=<k>" token run in ONE HermesSession (batch mode), the others alone
		var sess *hermes.HermesSession
		sessKey := ""
		for sc.Scan() {
			if line := sc.Text(); len(line) > 0 {
				key := ""
				for _, t := range splitArgs(line) {
					if strings.HasPrefix(t, "@session=") {
						key = t
					}
				}
				if key != sessKey && sess != nil {
					sess.Close()
					sess = nil
				}
				if key != "" && sess == nil {
					sess = hermes.NewHermesSession()
				}
				sessKey = key
				c20TraceLine(*work, line, lineNo, sess)
				lineNo++
			}
		}
		if sess != nil {
			sess.Close()
		}
	}
}

// the level of the day is set at run.go:362-371, before the probe "evatra-pre" of the same day; nothing
// else assigns GRW inside the day loop
// tokens "@phase=<n>" of a batch line are harness metadata: the CONFIGURED GroundWaterPhase of that run
// (config.yml or command line), against which the sinusoid is evaluated
func c20Meta(line string) (args []string, confPhase int, havePhase bool) {
	for _, t := range splitArgs(line) {
		if strings.HasPrefix(t, "@config-phase=") {
			continue // handled by c20SetConfigPhase
		}
		if strings.HasPrefix(t, "@phase=") {
			confPhase, _ = strconv.Atoi(t[len("@phase="):])
			havePhase = true
		} else if !strings.HasPrefix(t, "@") {
			args = append(args, t)
		}
	}
	return
}

// "@config-phase=<n>": write GroundWaterPhase: <n> into the config.yml of the run's project (scratch copy) before the run
func c20SetConfigPhase(work, line string) {
	project, phase, have := "", "", false
	for _, t := range splitArgs(line) {
		if strings.HasPrefix(t, "project=") {
			project = t[len("project="):]
		} else if strings.HasPrefix(t, "@config-phase=") {
			phase, have = t[len("@config-phase="):], true
		}
	}
	if !have {
		return
	}
	p := filepath.Join(work, "project", project, "config.yml")
	raw, err := os.ReadFile(p)
	if err != nil {
		panic(err)
	}
	lines := strings.Split(string(raw), "\n")
	done := false
	for i, l := range lines {
		if strings.HasPrefix(l, "GroundWaterPhase:") {
			lines[i], done = "GroundWaterPhase: "+phase, true
		}
	}
	if !done {
		lines = append(lines, "GroundWaterPhase: "+phase)
	}
	if err := os.WriteFile(p, []byte(strings.Join(lines, "\n")), 0o644); err != nil {
		panic(err)
	}
}

// the rows of the groundwater FILE (all ids, file order), read independently of hermes: id, date converted with the
// run's own date converter (property C12), level
type gwRow struct {
	id    string
	date  int
	level float64
}

func readGwFile(work string, args []string, g *hermes.GlobalVarsMain) (rows []gwRow, id string) {
	project, soil, gwid := "", "", ""
	for _, a := range args {
		switch {
		case strings.HasPrefix(a, "project="):
			project = a[len("project="):]
		case strings.HasPrefix(a, "soilId="):
			soil = a[len("soilId="):]
		case strings.HasPrefix(a, "gwId="):
			gwid = a[len("gwId="):]
		}
	}
	id = gwid
	if id == "" {
		id = soil
	}
	f, err := os.Open(filepath.Join(work, "project", project, "gw_"+project+".csv"))
	if err != nil {
		return nil, id
	}
	defer f.Close()
	sc := bufio.NewScanner(f)
	sc.Scan() // header
	for sc.Scan() {
		t := strings.FieldsFunc(sc.Text(), func(r rune) bool { return r == ',' || r == ';' })
		if len(t) < 3 {
			continue
		}
		lv, err := strconv.ParseFloat(strings.TrimSpace(t[2]), 64)
		if err != nil {
			continue
		}
		_, d := g.Datum(t[1])
		rows = append(rows, gwRow{strings.TrimSpace(t[0]), d, lv})
	}
	return rows, id
}

// runInSession: one batch line in the given (shared) session — as hermes2go does for the lines of a batch file
func c20RunInSession(session *hermes.HermesSession, workdir string, args []string, logID string) runResult {
	out := make(chan *hermes.RunReturn, 1)
	logs := make(chan string, 1000)
	done := make(chan struct{})
	var collected []string
	go func() {
		for l := range logs {
			collected = append(collected, l)
		}
		close(done)
	}()
	session.Run(workdir, args, logID, out, logs)
	res := <-out
	close(logs)
	<-done
	rr := runResult{Success: res.Success, Logs: collected}
	if res.Err != nil {
		rr.Err = res.Err.Error()
	}
	return rr
}

func c20TraceLine(work, line string, lineNo int, session *hermes.HermesSession) {
	c20SetConfigPhase(work, line)
	runArgs, confPhase, havePhase := c20Meta(line)
	// "@gw=series" / "@gw=polygon": the CONFIGURED groundwater source of the run (GroundWaterFrom of its config.yml)
	// "@gw=soil:<level>": static level of the soil file's groundwater column; "@poly=<GH>,<GL>": the polygon file's levels;
	// "@expect=error:<text>": the run must end with a run error containing the text
	expected, haveExpected := hermes.Soilfile, false
	soilLevel, polyGH, polyGL, havePoly, expectErr := 0.0, 0, 0, false, ""
	for _, t := range splitArgs(line) {
		switch {
		case t == "@gw=series":
			expected, haveExpected = hermes.GWTimeSeries, true
		case t == "@gw=polygon":
			expected, haveExpected = hermes.Polygonfile, true
		case strings.HasPrefix(t, "@gw=soil:"):
			expected, haveExpected = hermes.Soilfile, true
			soilLevel, _ = strconv.ParseFloat(t[len("@gw=soil:"):], 64)
		case strings.HasPrefix(t, "@poly="):
			if p := strings.Split(t[len("@poly="):], ","); len(p) == 2 {
				polyGH, _ = strconv.Atoi(p[0])
				polyGL, _ = strconv.Atoi(p[1])
				havePoly = true
			}
		case strings.HasPrefix(t, "@expect=error:"):
			expectErr = t[len("@expect=error:"):]
		}
	}
	soilFails, polyFails := 0, 0
	sourceFails := 0
	var fileRows []gwRow
	fileID := ""
	days := 0
	first := true
	var dates []int
	var vals []float64
	from := ""
	var minL, maxL = math.Inf(1), math.Inf(-1)
	var zeits []int
	var grws []string
	var stamps []int
	var svals []float64
	hermes.VerifProbe = func(stage string, zeit, subd int, wdt float64, g *hermes.GlobalVarsMain, w *hermes.WaterSharedVars, n *hermes.NitroSharedVars) {
		if stage != "evatra-pre" {
			return
		}
		days++
		minL, maxL = math.Min(minL, g.GRW), math.Max(maxL, g.GRW)
		mode := g.GROUNDWATERFROM
		if haveExpected {
			mode = expected
			if g.GROUNDWATERFROM != expected {
				if sourceFails == 0 {
					oracleFail("gw-source:traced-line-%d:not-the-configured-source zeit=%d configured=%v used=%v grw=%v", lineNo, zeit, expected, g.GROUNDWATERFROM, g.GRW)
				}
				sourceFails++
			}
		}
		switch mode {
		case hermes.GWTimeSeries:
			if first {
				from = "gwTimeSeries"
				// the series of the FILE: the rows of the id in file order, nothing dropped
				fileRows, fileID = readGwFile(work, runArgs, g)
				for _, rw := range fileRows {
					if rw.id == fileID {
						dates, vals = append(dates, rw.date), append(vals, rw.level)
					}
				}
				stamps = append([]int{}, g.GWTimestamps...)
				for _, d := range stamps {
					svals = append(svals, g.GWTimeSeriesValues[d])
				}
			}
			zeits, grws = append(zeits, zeit), append(grws, hx(g.GRW))
			if strictlyAscendingPositive(dates) {
				gwOracle(fmt.Sprintf("traced-line-%d", lineNo), dates, vals, zeit, g.GRW, nil)
			}
		case hermes.Polygonfile:
			if first {
				from = "polygonfile"
				emit(jobj{"k": "gwpoly", "line": lineNo, "grlo": g.GRLO, "grhi": g.GRHI, "gw": hx(g.GW), "ampl": hx(g.AMPL)})
			}
			if !havePhase {
				confPhase = g.GWPhase
			}
			// the sinusoid of the CONFIGURED phase (run.go:364)
			arg := (g.TAG.Num + float64(confPhase)) * math.Pi / 180
			s := math.Sin(arg)
			emit(jobj{"k": "gwsin", "line": lineNo, "zeit": zeit, "tag": hx(g.TAG.Num), "phase": confPhase, "gphase": g.GWPhase, "gw": hx(g.GW), "ampl": hx(g.AMPL),
				"arg": hx(arg), "s": hx(s), "grw": hx(g.GRW)})
			if expect := g.GW - (g.AMPL * s); !(math.Abs(g.GRW-expect) <= 1e-9*(1+math.Abs(g.GW)+math.Abs(g.AMPL))) {
				c20Fail(fmt.Sprintf("gw-sinus:traced-line-%d:not-the-configured-phase", lineNo), "zeit=%d tag=%v configured-phase=%d phase-used=%d gw=%v ampl=%v grw=%v expected=%v",
					zeit, g.TAG.Num, confPhase, g.GWPhase, g.GW, g.AMPL, g.GRW, expect)
			}
			lo, hi := math.Min(float64(g.GRLO), float64(g.GRHI)), math.Max(float64(g.GRLO), float64(g.GRHI))
			tol := 1e-12 * (1 + math.Abs(lo) + math.Abs(hi))
			if !finite(g.GRW) || g.GRW < lo-tol || g.GRW > hi+tol {
				c20Fail(fmt.Sprintf("gw-sinus:traced-line-%d:outside-interval", lineNo), "zeit=%d tag=%v grw=%v interval=[%v,%v]", zeit, g.TAG.Num, g.GRW, lo, hi)
			}
			if !(math.Abs(s) <= 1) {
				oracleFail("gw-sinus:traced-line-%d:sin-oracle-fact |sin(%v)| = %v > 1", lineNo, arg, s)
			}
			if s == 0 && g.GRW != (float64(g.GRLO)+float64(g.GRHI))/2 {
				oracleFail("gw-sinus:traced-line-%d:not-mean-at-zero-crossing zeit=%d grw=%v", lineNo, zeit, g.GRW)
			}
		default:
			from = "soilfile"
			if haveExpected && g.GRW != soilLevel {
				if soilFails == 0 {
					oracleFail("gw-soilfile:traced-line-%d:not-the-soil-file-level zeit=%d grw=%v soil file groundwater column=%v", lineNo, zeit, g.GRW, soilLevel)
				}
				soilFails++
			}
		}
		if mode == hermes.Polygonfile && havePoly && (g.GRHI != polyGH || g.GRLO != polyGL) {
			if polyFails == 0 {
				oracleFail("gw-polygon-levels:traced-line-%d:not-the-polygon-file-levels zeit=%d GH=%d GL=%d file: GH=%d GL=%d", lineNo, zeit, g.GRHI, g.GRLO, polyGH, polyGL)
			}
			polyFails++
		}
		first = false
	}
	var res runResult
	if session != nil {
		res = c20RunInSession(session, work, runArgs, fmt.Sprintf("[%d]", lineNo))
	} else {
		res = runProject(work, runArgs)
	}
	hermes.VerifProbe = nil
	if from == "gwTimeSeries" {
		ids, rd, rl := []string{}, []int{}, []float64{}
		for _, rw := range fileRows {
			ids, rd, rl = append(ids, rw.id), append(rd, rw.date), append(rl, rw.level)
		}
		emit(jobj{"k": "gwtrace", "line": lineNo, "dates": dates, "vals": hxs(vals), "q": zeits, "level": grws,
			"id": fileID, "row_ids": ids, "row_dates": rd, "row_levels": hxs(rl), "stamps": stamps, "stamp_vals": hxs(svals)})
	}
	o := jobj{"k": "run", "line": lineNo, "success": res.Success, "err": res.Err, "days": days, "from": from, "source_mismatch_days": sourceFails,
		"shared_session": session != nil, "soil_level_mismatch_days": soilFails, "polygon_level_mismatch_days": polyFails, "expect_error": expectErr}
	if days > 0 {
		o["min"], o["max"] = minL, maxL
	}
	emit(o)
}
