package main

import (
	"bufio"
	"bytes"
	"flag"
	"fmt"
	"os"
	"path/filepath"
)

func init() { commands["c17"] = c17 }

// c17 writes generated batch files into -dir and prints one line per file
//
//	F <name> <kind> <clean> <scan> <rle...>
//
// clean = 1 when every '\r' is immediately followed by '\n' (LF/CRLF line endings only),
// scan  = number of lines bufio.Scanner(ScanLines) returns with len > 0 — exactly what
//
//	hermes_main.go:63-69 keeps — or -1 when the scanner rejects the file (token too long),
//
// rle   = the file as runs  byte+256*repeat.
// The real calcHermesBatch binary is run on these files by the python driver (package main
// cannot be imported); this command only generates inputs and evaluates the reader's side.
func c17(args []string) {
	fs := flag.NewFlagSet("c17", flag.ExitOnError)
	seed := fs.Uint64("seed", 1, "seed")
	dir := fs.String("dir", "", "output directory")
	nSmall := fs.Int("small", 300, "random small files over {a,b,' ',CR,LF}")
	nClean := fs.Int("clean", 300, "random LF/CRLF files built from lines")
	nBig := fs.Int("big", 40, "files with lines placed around the 32 KiB buffer boundaries")
	fs.Parse(args)
	if *dir == "" {
		fmt.Fprintln(os.Stderr, "c17: -dir required")
		os.Exit(2)
	}
	r := newRng(*seed)
	w := bufio.NewWriterSize(os.Stdout, 1<<20)
	defer w.Flush()
	idx := 0
	emit := func(kind string, data []byte) {
		name := fmt.Sprintf("f%05d.txt", idx)
		idx++
		if err := os.WriteFile(filepath.Join(*dir, name), data, 0o644); err != nil {
			fmt.Fprintln(os.Stderr, err)
			os.Exit(1)
		}
		clean := 1
		for i, b := range data {
			if b == '\r' && (i+1 >= len(data) || data[i+1] != '\n') {
				clean = 0
			}
		}
		scan := 0
		sc := bufio.NewScanner(bytes.NewReader(data))
		for sc.Scan() {
			if len(sc.Text()) > 0 {
				scan++
			}
		}
		if sc.Err() != nil {
			scan = -1
		}
		fmt.Fprintf(w, "F %s %s %d %d", name, kind, clean, scan)
		for i := 0; i < len(data); {
			j := i
			for j < len(data) && data[j] == data[i] {
				j++
			}
			fmt.Fprintf(w, " %d", int(data[i])+256*(j-i))
			i = j
		}
		fmt.Fprintln(w)
	}

	// fixed corpus: the shapes the property text names, and the edge shapes of the reading notes
	for _, s := range []string{
		"", "\n", "\r\n", "a", "a\n", "a\r\n", "a\n\nb\n", "a\r\n\r\nb\r\n", "a\r\n\r\nb", "\n\na", "\r\n\r\na\r\n",
		"a\nb\r\nc\n\r\n\nd", "\r", "a\n\r", "a\r\n\r", "\r\r\n", "\r\r", "a\rb\n", "\ra\n", "a\r", "a\r\r\n", "\n\r\n\r\n\n",
		" \n", " \r\n", "x=1 y=2\r\n\r\n\r\nx=2 y=3\r\n",
	} {
		emit("fixed", []byte(s))
	}
	alphabet := []byte{'a', 'b', ' ', '\r', '\n', '\n', '\r'}
	for k := 0; k < *nSmall; k++ {
		n := r.intn(24)
		b := make([]byte, n)
		for i := range b {
			b[i] = alphabet[r.intn(len(alphabet))]
		}
		emit("small", b)
	}
	line := func(maxLen int) []byte {
		n := 0
		if !r.chance(0.35) { // 35 % blank lines
			n = 1 + r.intn(maxLen)
		}
		b := make([]byte, n)
		for i := range b {
			b[i] = "ab =1"[r.intn(5)]
		}
		return b
	}
	for k := 0; k < *nClean; k++ {
		mode := r.intn(3) // 0 LF, 1 CRLF, 2 mixed
		var buf bytes.Buffer
		nl := r.intn(12)
		for i := 0; i < nl; i++ {
			buf.Write(line(6))
			last := i == nl-1
			if last && r.chance(0.3) {
				break // no final newline
			}
			if mode == 1 || (mode == 2 && r.chance(0.5)) {
				buf.WriteString("\r\n")
			} else {
				buf.WriteString("\n")
			}
		}
		emit("clean", buf.Bytes())
	}
	// lines straddling the 32 KiB buffer: terminators at offsets B*k-2 .. B*k+1, lines spanning a whole
	// buffer, blank lines right at the boundary, with and without final newline
	const B = 32 * 1024
	for k := 0; k < *nBig; k++ {
		var buf bytes.Buffer
		crlf := r.chance(0.6)
		eol := func() {
			if crlf {
				buf.WriteString("\r\n")
			} else {
				buf.WriteString("\n")
			}
		}
		for i := r.intn(4); i > 0; i-- {
			buf.Write(line(6))
			eol()
		}
		nb := 1 + r.intn(3)
		for j := 0; j < nb; j++ {
			// next terminator so that it ends at boundary + d
			next := (buf.Len()/B + 1) * B
			if r.chance(0.3) {
				next += B // the line spans a whole buffer (three reads)
			}
			d := r.intn(5) - 2
			eolLen := 1
			if crlf {
				eolLen = 2
			}
			fill := next + d - eolLen - buf.Len()
			if fill < 0 {
				fill = 0
			}
			if fill > 60000 {
				fill = 60000
			}
			buf.Write(bytes.Repeat([]byte{"abx"[r.intn(3)]}, fill))
			eol()
			for i := r.intn(3); i > 0; i-- { // blank or short lines right after the boundary
				buf.Write(line(3))
				eol()
			}
		}
		switch r.intn(4) {
		case 0:
			buf.Write(line(5)) // unterminated rest (possibly empty)
		case 1:
			buf.Write(bytes.Repeat([]byte{'z'}, 1+r.intn(3)))
		}
		kind := "big"
		data := buf.Bytes()
		if r.chance(0.25) { // same shapes with a stray CR planted at a buffer edge (outside the clean class)
			pos := (1+r.intn(len(data)/B+1))*B - 1 - r.intn(2)
			if pos < len(data) && data[pos] != '\n' {
				data[pos] = '\r'
				kind = "bigstray"
			}
		}
		emit(kind, data)
	}
}
