package main

import (
	"bufio"
	"encoding/json"
	"fmt"
	"math"
	"os"
	"strconv"
	"strings"

	"github.com/zalf-rpm/Hermes2Go/hermes"
)

// hx renders a float64 exactly (hex) in a form Coq's float_scope parses
func hx(f float64) string {
	switch {
	case math.IsNaN(f):
		return "nan"
	case math.IsInf(f, 1):
		return "infinity"
	case math.IsInf(f, -1):
		return "neg_infinity"
	}
	return strconv.FormatFloat(f, 'x', -1, 64)
}

func hxs(fs []float64) []string {
	r := make([]string, len(fs))
	for i, f := range fs {
		r[i] = hx(f)
	}
	return r
}

type jobj map[string]interface{}

var stdout = bufio.NewWriterSize(os.Stdout, 1<<20)

func emit(o jobj) {
	b, err := json.Marshal(o)
	if err != nil {
		panic(err)
	}
	stdout.Write(b)
	stdout.WriteByte('\n')
}

func oracleFail(format string, a ...interface{}) {
	fmt.Fprintf(stdout, "ORACLE "+format+"\n", a...)
}

func finite(fs ...float64) bool {
	for _, f := range fs {
		if math.IsNaN(f) || math.IsInf(f, 0) {
			return false
		}
	}
	return true
}

// ---------------------------------------------------------------------------
// synthetic soil profiles: 0 < WMIN < W <= PORGES < 1 per layer, horizons of equal parameters

type profile struct {
	N      int
	W      []float64
	WMIN   []float64
	PORGES []float64
	WNOR   []float64
}

func genProfile(r *rng) profile {
	n := 1 + r.intn(20)
	if r.chance(0.3) {
		n = 20
	}
	p := profile{N: n, W: make([]float64, n), WMIN: make([]float64, n), PORGES: make([]float64, n), WNOR: make([]float64, n)}
	i := 0
	for i < n {
		h := 1 + r.intn(6)
		wmin := math.Round(r.between(0.02, 0.25)*1000) / 1000
		w := wmin + math.Round(r.between(0.03, 0.25)*1000)/1000
		por := w + math.Round(r.between(0.0, 0.15)*1000)/1000
		stone := 1.0
		if r.chance(0.3) {
			stone = 1 - float64(r.intn(40))/100
		}
		for k := 0; k < h && i < n; k++ {
			p.WMIN[i], p.W[i], p.PORGES[i], p.WNOR[i] = wmin*stone, w*stone, por*stone, w*stone
			i++
		}
	}
	return p
}

// ---------------------------------------------------------------------------
// in-process runs of real projects with the probe

type runResult struct {
	Success bool
	Err     string
	Logs    []string
}

// runProject runs one batch line in-process (working dir = a scratch copy of the examples tree)
func runProject(workdir string, args []string) runResult {
	session := hermes.NewHermesSession()
	out := make(chan *hermes.RunReturn, 1)
	logs := make(chan string, 1000)
	done := make(chan struct{})
	var collected []string
	go func() {
		for l := range logs {
			collected = append(collected, l)
		}
		close(done)
	}()
	session.Run(workdir, args, "[0]", out, logs)
	res := <-out
	close(logs)
	<-done
	session.Close()
	rr := runResult{Success: res.Success, Logs: collected}
	if res.Err != nil {
		rr.Err = res.Err.Error()
	}
	return rr
}

func splitArgs(line string) []string { return strings.Fields(line) }
