// Command vh is the Go side of the correspondence checks: it runs the real Hermes2Go
// code (built from /repo's working tree with -tags verif) on generated inputs and
// prints inputs and observed outputs in a line format the python driver turns into
// Coq case files.  Every random choice derives from one splitmix64 state (-seed).
package main

import (
	"fmt"
	"os"
	"sort"
)

var commands = map[string]func(args []string){}

func main() {
	if len(os.Args) < 2 {
		names := []string{}
		for k := range commands {
			names = append(names, k)
		}
		sort.Strings(names)
		fmt.Fprintln(os.Stderr, "usage: vh <command> [args]; commands:", names)
		os.Exit(2)
	}
	cmd, ok := commands[os.Args[1]]
	if !ok {
		fmt.Fprintln(os.Stderr, "unknown command", os.Args[1])
		os.Exit(2)
	}
	cmd(os.Args[2:])
}

// splitmix64: the single PRNG of the harness
type rng struct{ s uint64 }

func newRng(seed uint64) *rng { return &rng{s: seed} }
func (r *rng) next() uint64 {
	r.s += 0x9e3779b97f4a7c15
	z := r.s
	z = (z ^ (z >> 30)) * 0xbf58476d1ce4e5b9
	z = (z ^ (z >> 27)) * 0x94d049bb133111eb
	return z ^ (z >> 31)
}
func (r *rng) intn(n int) int        { return int(r.next() % uint64(n)) }
func (r *rng) float() float64        { return float64(r.next()>>11) / (1 << 53) }
func (r *rng) between(a, b float64) float64 { return a + (b-a)*r.float() }
func (r *rng) chance(p float64) bool { return r.float() < p }
