package main

import (
	"bufio"
	"encoding/binary"
	"hash/fnv"
	"flag"
	"fmt"
	"math"
	"os"
	"path/filepath"
	"strings"

	"github.com/zalf-rpm/Hermes2Go/hermes"
)

func init() { commands["c15"] = c15 }

// c15 kernels : PTF1-4, calcWRed, Hydro (every texture of both tables x LD x Corg x GW representatives), PTF grid scan
// c15 trace   : whole runs under moving groundwater, parameters per layer every day
func c15(args []string) {
	if len(args) == 0 {
		fmt.Fprintln(os.Stderr, "c15 kernels|trace")
		os.Exit(2)
	}
	defer stdout.Flush()
	switch args[0] {
	case "kernels":
		c15Kernels(args[1:])
	case "trace":
		c15Trace(args[1:])
	default:
		fmt.Fprintln(os.Stderr, "c15 kernels|trace")
		os.Exit(2)
	}
}

// thresholds of Hydro's corrections; class = number of thresholds exceeded / reached
var c15CorgThr = []float64{0.58, 1.16, 2.3, 3.5, 4.6, 5.2}

// representative organic carbon contents (percent), one per class 0..6
var c15CorgRep = []float64{0.3, 0.9, 1.7, 3, 4, 5, 5.6}

// representative groundwater levels (dm), one per class 0..5: <8, [8,9), [9,20), [20,30), [30,35], >35
var c15GwRep = []float64{5, 8.5, 15, 25, 32, 40}

func c15CorgClass(c float64) int {
	k := 0
	for _, t := range c15CorgThr {
		if c > t {
			k++
		}
	}
	return k
}

func c15GwClass(g float64) int {
	switch {
	case g < 8:
		return 0
	case g < 9:
		return 1
	case g < 20:
		return 2
	case g < 30:
		return 3
	case g <= 35:
		return 4
	}
	return 5
}

// textures (first three characters, upper case) of a fixed-column table file, every `step`-th line from `from`
func c15Textures(path string, from, step int) []string {
	f, err := os.Open(path)
	if err != nil {
		panic(err)
	}
	defer f.Close()
	var out []string
	sc := bufio.NewScanner(f)
	i := 0
	for sc.Scan() {
		t := sc.Text()
		if i >= from && (i-from)%step == 0 && len(t) >= 3 {
			out = append(out, strings.ToUpper(t[0:3]))
		}
		i++
	}
	return out
}

type hydroOut struct {
	feldw, lim, prges, normfk, wred, ad float64
}

func c15Hydro(sess *hermes.HermesSession, hp *hermes.HFilePath, tex string, ld int, corg, grw, stein float64) hydroOut {
	g := hermes.NewGlobalVarsMain()
	g.Session = sess
	g.N = 20
	g.AZHO = 1
	g.BART[0] = tex
	g.LD[0] = ld
	g.CGEHALT[0] = corg
	g.STEIN[0] = stein
	g.GRW = grw
	var l hermes.InputSharedVars
	ad, err := hermes.Hydro(1, &g, &l, hp)
	if err != nil {
		panic(err)
	}
	return hydroOut{g.FELDW[0], g.LIM[0], g.PRGES[0], g.NORMFK[0], g.WRED, ad}
}

func c15Kernels(args []string) {
	fs := flag.NewFlagSet("c15 kernels", flag.ExitOnError)
	seed := fs.Uint64("seed", 1, "seed")
	n := fs.Int("n", 400, "random PTF / calcWRed cases")
	root := fs.String("root", "", "examples root (contains parameter/)")
	bnd := fs.Int("boundary", 300, "Hydro cases at/around the thresholds (random sample); -1 = all")
	grid := fs.Int("grid", 60, "PTF grid scan resolution per axis")
	fs.Parse(args)
	r := newRng(*seed)

	// ---------------- PTF1-4 ----------------
	ptf := func(tag string, k int, c, ton, x float64) {
		var fc, wm float64
		switch k {
		case 1:
			fc, wm = hermes.PTF1(c, ton, x)
		case 2:
			fc, wm = hermes.PTF2(c, ton, x)
		case 3:
			fc, wm = hermes.PTF3(c, ton, x)
		case 4:
			fc, wm = hermes.PTF4(c, ton, x)
		}
		emit(jobj{"k": "ptf", "tag": tag, "w": k, "c": hx(c), "ton": hx(ton), "x": hx(x), "fc": hx(fc), "wm": hx(wm)})
	}
	triple := func() (sand, silt, clay float64) {
		// a point of the property's domain: every fraction >= 5, sand <= 85, sum 100
		for {
			clay = r.between(5, 90)
			silt = r.between(5, 90)
			sand = 100 - clay - silt
			if sand >= 5 && sand <= 85 {
				if r.chance(0.5) { // soil files carry integers
					clay, silt = math.Round(clay), math.Round(silt)
					sand = 100 - clay - silt
					if sand < 5 || sand > 85 {
						continue
					}
				}
				return
			}
		}
	}
	for i := 0; i < *n; i++ {
		sand, silt, clay := triple()
		c := r.between(0, 6)
		if r.chance(0.3) {
			c = math.Round(c*100) / 100
		}
		if r.chance(0.05) {
			c = []float64{0, 6}[r.intn(2)]
		}
		for k := 1; k <= 3; k++ {
			ptf("domain", k, c, clay, silt)
		}
		ptf("domain", 4, c, clay, sand)
	}
	for i := 0; i < *n/8; i++ { // outside the domain: the model must still agree
		c, a, b := r.between(-2, 30), r.between(-10, 120), r.between(-10, 120)
		for k := 1; k <= 4; k++ {
			ptf("outside", k, c, a, b)
		}
	}
	// grid scan of the property on the real functions (oracle): 0 < WP < FC < 1 on the whole domain
	minMargin := [5][3]float64{}
	for k := range minMargin {
		minMargin[k] = [3]float64{math.Inf(1), math.Inf(1), math.Inf(1)}
	}
	G := *grid
	scanned := 0
	for ic := 0; ic <= G; ic++ {
		c := 6 * float64(ic) / float64(G)
		for ia := 0; ia <= G; ia++ {
			clay := 5 + 85*float64(ia)/float64(G)
			for ib := 0; ib <= G; ib++ {
				silt := 5 + 85*float64(ib)/float64(G)
				sand := 100 - clay - silt
				if sand < 5 || sand > 85 {
					continue
				}
				scanned++
				for k := 1; k <= 4; k++ {
					var fc, wm float64
					switch k {
					case 1:
						fc, wm = hermes.PTF1(c, clay, silt)
					case 2:
						fc, wm = hermes.PTF2(c, clay, silt)
					case 3:
						fc, wm = hermes.PTF3(c, clay, silt)
					case 4:
						fc, wm = hermes.PTF4(c, clay, sand)
					}
					m := &minMargin[k]
					m[0] = math.Min(m[0], wm)
					m[1] = math.Min(m[1], fc-wm)
					m[2] = math.Min(m[2], 1-fc)
					if !(0 < wm && wm < fc && fc < 1) {
						oracleFail("ptf-order ptf=%d corg=%v clay=%v silt=%v sand=%v wp=%v fc=%v", k, c, clay, silt, sand, wm, fc)
					}
				}
			}
		}
	}
	for k := 1; k <= 4; k++ {
		emit(jobj{"k": "ptfscan", "w": k, "points": scanned, "min_wp": minMargin[k][0], "min_fc_minus_wp": minMargin[k][1], "min_one_minus_fc": minMargin[k][2]})
	}

	// ---------------- calcWRed ----------------
	for i := 0; i < *n; i++ {
		g := hermes.NewGlobalVarsMain()
		sand := r.chance(0.5)
		g.BART[0] = []string{"UU ", "LT2", "TT ", "HH1", "US "}[r.intn(5)]
		if sand {
			g.BART[0] = []string{"SS ", "SL2", "SU3", "SG "}[r.intn(4)]
		}
		wp := r.between(1, 40)
		fc := wp + r.between(0.5, 40)
		switch r.intn(3) {
		case 0: // as the soil file gives it: integers
			wp, fc = math.Round(wp), math.Round(wp)+1+math.Round(fc-wp)
		case 1: // as the PTF route / the restore hand it over: fraction * 100
			wp, fc = (wp/100)*100, (fc/100)*100
		}
		hermes.VerifCalcWRed(wp, fc, &g)
		emit(jobj{"k": "wred", "sand": sand, "wp": hx(wp), "fc": hx(fc), "out": hx(g.WRED)})
		if !(wp/100 < g.WRED && g.WRED < fc/100) {
			oracleFail("wred-kernel-not-between sand=%v wp=%v fc=%v wred=%v", sand, wp, fc, g.WRED)
		}
	}

	// ---------------- Hydro over the shipped tables ----------------
	if *root == "" {
		return
	}
	hp := hermes.NewHermesFilePath(*root, "none", "0", "", "")
	sess := hermes.NewHermesSession()
	defer sess.Close()
	hy := c15Textures(filepath.Join(*root, "parameter", "HYPAR.TRU"), 1, 1)
	pc := map[string]bool{}
	for _, t := range c15Textures(filepath.Join(*root, "parameter", "PARCAP.TRU"), 0, 2) {
		pc[t] = true
	}
	seen := map[string]bool{}
	var both []string
	for _, t := range hy {
		if pc[t] && !seen[t] {
			both = append(both, t)
			seen[t] = true
		}
	}
	hcase := func(tag, tex string, ld int, corg, grw float64) {
		// stone fraction of the horizon (enters the threshold Hydro computes): none for the class scan, else mixed
		stein := 0.0
		if tag != "class" {
			switch r.intn(4) {
			case 1:
				stein = float64(r.intn(60)) / 100 // as the soil file gives it: percent / 100
			case 2:
				stein = 0.3
			case 3:
				stein = r.between(0, 0.95)
			}
		}
		o := c15Hydro(sess, &hp, tex, ld, corg, grw, stein)
		emit(jobj{"k": "hydro", "tag": tag, "tex": tex, "ld": ld, "c": hx(corg), "grw": hx(grw), "stein": hx(stein),
			"feldw": hx(o.feldw), "lim": hx(o.lim), "prges": hx(o.prges), "normfk": hx(o.normfk), "wred": hx(o.wred), "ad": hx(o.ad)})
		// the property on this point; its class identifies it (the outcome is a function of the class: hydro_classes)
		cls := fmt.Sprintf("%s:LD%d:corgclass%d:gwclass%d", strings.TrimSpace(tex), ld, c15CorgClass(corg), c15GwClass(grw))
		at := fmt.Sprintf("texture=%q LD=%d corg=%v grw=%v", tex, ld, corg, grw)
		if !(0 < o.lim) {
			oracleFail("table-wp-not-positive:%s %s wp=%v", cls, at, o.lim)
		}
		if !(o.lim < o.feldw) {
			oracleFail("table-wp-not-below-fc:%s %s wp=%v fc=%v", cls, at, o.lim, o.feldw)
		}
		if !(o.feldw <= o.prges+1e-12) {
			oracleFail("table-fc-above-pore-volume:%s %s fc=%v pv=%v", cls, at, o.feldw, o.prges)
		}
		if !(o.prges < 1) {
			oracleFail("table-pore-volume-not-below-one:%s %s pv=%v", cls, at, o.prges)
		}
		// the threshold Hydro computes for the top horizon: WMIN[0] < WRED < W[0], all with the stone factor
		if !(o.lim*(1-stein) < o.wred && o.wred < o.feldw*(1-stein)) {
			oracleFail("table-wred-not-between:%s %s stones=%v wmin0=%v wred=%v w0=%v", cls, at, stein, o.lim*(1-stein), o.wred, o.feldw*(1-stein))
		}
	}
	for _, tex := range both {
		for ld := 1; ld <= 5; ld++ {
			for _, c := range c15CorgRep {
				for _, gw := range c15GwRep {
					hcase("class", tex, ld, c, gw)
				}
			}
		}
	}
	// at and just around every threshold
	var cb, gb []float64
	for _, t := range c15CorgThr {
		cb = append(cb, t, math.Nextafter(t, 10), math.Nextafter(t, 0))
	}
	cb = append(cb, 0, 6, 12)
	for _, t := range []float64{8, 9, 20, 30, 35} {
		gb = append(gb, t, math.Nextafter(t, 100), math.Nextafter(t, 0))
	}
	gb = append(gb, 0, 0.5, 99)
	if *bnd < 0 {
		for _, tex := range both {
			for ld := 1; ld <= 5; ld++ {
				for _, c := range cb {
					for _, gw := range gb {
						hcase("boundary", tex, ld, c, gw)
					}
				}
			}
		}
	} else {
		for i := 0; i < *bnd; i++ {
			c, gw := cb[r.intn(len(cb))], gb[r.intn(len(gb))]
			if r.chance(0.3) {
				c = r.between(0, 7)
			}
			if r.chance(0.3) {
				gw = r.between(0, 45)
			}
			hcase("boundary", both[r.intn(len(both))], 1+r.intn(5), c, gw)
		}
	}
	// sweeps across the whole range for every texture (a moved threshold shows up wherever it lies)
	cstep, gstep := 0.1, 0.5
	if *bnd < 0 {
		cstep, gstep = 0.02, 0.125
	}
	for _, tex := range both {
		for c := 0.0; c <= 7; c += cstep {
			hcase("sweep", tex, 1+r.intn(5), c, c15GwRep[r.intn(len(c15GwRep))])
		}
		for gw := 0.0; gw <= 45; gw += gstep {
			hcase("sweep", tex, 1+r.intn(5), c15CorgRep[r.intn(len(c15CorgRep))], gw)
		}
	}
	emit(jobj{"k": "tables", "hypar": hy, "both": both})
}

// ---------------------------------------------------------------------------
// whole runs

type c15Day struct {
	zeit             int
	grw              float64
	w, wm, por, wnor []float64
	wred             float64
	initial          bool
}

func c15Trace(args []string) {
	fs := flag.NewFlagSet("c15 trace", flag.ExitOnError)
	work := fs.String("work", ".", "scratch copy of the examples tree")
	linesFile := fs.String("lines", "", "file with batch lines")
	seed := fs.Uint64("seed", 1, "seed")
	maxCases := fs.Int("cases", 60, "groundwater-update transitions emitted per run for the model comparison")
	pairs := fs.Int("session-pairs", 0, "pairs of lines re-run in one shared session and compared with their fresh-session runs")
	fs.Parse(args)
	r := newRng(*seed)
	f, err := os.Open(*linesFile)
	if err != nil {
		panic(err)
	}
	sc := bufio.NewScanner(f)
	lineNo := 0
	var allLines, digests []string
	for sc.Scan() {
		line := sc.Text()
		if len(line) == 0 {
			continue
		}
		allLines = append(allLines, line)
		digests = append(digests, c15TraceLine(*work, line, lineNo, r, *maxCases, nil, false))
		lineNo++
	}
	// several runs in ONE session (as the batch executable runs them): nothing saved by a run (parameter backups, table
	// values, groundwater series) may reach the next one — the second run of a pair must reproduce its fresh-session digest
	for k := 0; k < *pairs && len(allLines) > 1; k++ {
		j, i := r.intn(len(allLines)), r.intn(len(allLines))
		if i == j {
			i = (j + 1) % len(allLines)
		}
		sess := hermes.NewHermesSession()
		c15TraceLine(*work, allLines[j]+" resultfolder=R/pair_a", j, r, 0, sess, true)
		d := c15TraceLine(*work, allLines[i]+" resultfolder=R/pair_b", i, r, 0, sess, true)
		sess.Close()
		emit(jobj{"k": "sessionpair", "first": j, "second": i, "same": d == digests[i]})
		if d != digests[i] {
			oracleFail("session-carry-over second_line=%d after_line=%d fresh=%s in_shared_session=%s", i, j, digests[i], d)
		}
	}
}

func cp(a []float64) []float64 { return append([]float64(nil), a...) }

// runIn runs one batch line in a given session (several lines per session, as the batch executable does)
func c15RunIn(session *hermes.HermesSession, workdir string, args []string) runResult {
	out := make(chan *hermes.RunReturn, 1)
	logs := make(chan string, 1000)
	done := make(chan struct{})
	go func() {
		for range logs {
		}
		close(done)
	}()
	session.Run(workdir, args, "[0]", out, logs)
	res := <-out
	close(logs)
	<-done
	rr := runResult{Success: res.Success}
	if res.Err != nil {
		rr.Err = res.Err.Error()
	}
	return rr
}

// c15TraceLine returns a digest of every day's parameters (quiet = nothing is emitted: used for the session carry-over comparison)
func c15TraceLine(work, line string, lineNo int, r *rng, maxCases int, session *hermes.HermesSession, quiet bool) string {
	emit := func(o jobj) {
		if !quiet {
			emit(o)
		}
	}
	oracleFail := func(format string, a ...interface{}) {
		if !quiet {
			oracleFail(format, a...)
		}
	}
	var days []c15Day
	first := true
	initial := true
	var initGRW float64
	var route string
	emitted := 0
	nDays, nChanged, nSlow := 0, 0, 0
	var prevGRW float64
	var static jobj
	fails := map[string]int{}
	fail := func(key, format string, a ...interface{}) {
		fails[key]++
		if fails[key] <= 3 {
			oracleFail(key+" "+format, a...)
		}
	}
	hermes.VerifProbe = func(stage string, zeit, subd int, wdt float64, g *hermes.GlobalVarsMain, w *hermes.WaterSharedVars, n *hermes.NitroSharedVars) {
		if stage != "evatra-pre" {
			return
		}
		N := g.N
		nDays++
		if first {
			first = false
			// the level Init computed (init.go:11-15) — the parameters are still Input's + Init's when the level has not moved since
			switch g.GROUNDWATERFROM {
			case hermes.Polygonfile:
				initGRW = g.GW - (g.AMPL * math.Sin((float64(g.ITAG-1)+float64(g.GWPhase))*math.Pi/180))
			case hermes.GWTimeSeries:
				initGRW, _ = hermes.GetGroundWaterLevel(g, g.BEGINN-2)
			default:
				initGRW = g.GRW
			}
			prevGRW = initGRW
			route = "restore"
			if g.PTF == 0 && g.CAPPAR == 0 {
				route = "table"
			}
			hz := []jobj{}
			for h := 0; h < g.AZHO; h++ {
				hz = append(hz, jobj{"tex": g.BART[h], "ld": g.LD[h], "c": hx(g.CGEHALT[h]), "stein": hx(g.STEIN[h]), "ukt": g.UKT[h+1],
					"fka": hx(g.FKA[h]), "wp": hx(g.WP[h]), "gpv": hx(g.GPV[h])})
			}
			static = jobj{"line": lineNo, "route": route, "ptf": g.PTF, "cappar": g.CAPPAR, "n": N, "azho": g.AZHO, "gw": hx(g.GW), "initgrw": hx(initGRW),
				"hz": hz, "wb": hxs(g.W_Backup[:N]), "wmb": hxs(g.WMIN_Backup[:N]), "pb": hxs(g.PORGES_Backup[:N]), "wnb": hxs(g.WNOR_Backup[:N]),
				"sand": g.BART[0][0] == 'S', "gwfrom": g.GROUNDWATERFROM.String(), "autoirri": g.AUTOIRRI, "gwphase": g.GWPhase}
			s2 := jobj{"k": "static"}
			for k, v := range static {
				s2[k] = v
			}
			emit(s2)
		}
		changed := g.GRW != prevGRW
		lastGRW := prevGRW
		if changed {
			initial = false
			nChanged++
		}
		prevGRW = g.GRW
		d := c15Day{zeit: zeit, grw: g.GRW, w: cp(g.W[:N]), wm: cp(g.WMIN[:N]), por: cp(g.PORGES[:N]), wnor: cp(g.WNOR[:N]), wred: g.WRED, initial: initial}
		days = append(days, d)
		// model comparison cases: the initial state once, then a sample of the days on which the update fired
		slow := changed && math.Abs(g.GRW-lastGRW) <= 0.01
		if slow {
			nSlow++
		}
		// (slow drifts are sampled more densely: an update that is skipped for small steps shows up there)
		if nDays == 1 || (changed && emitted < maxCases && (nChanged <= 24 || (slow && r.intn(14) == 0) || r.intn(40) == 0)) {
			emitted++
			emit(jobj{"k": "gwday", "line": lineNo, "zeit": zeit, "initial": initial, "grw": hx(g.GRW),
				"w": hxs(d.w), "wmin": hxs(d.wm), "porges": hxs(d.por), "wnor": hxs(d.wnor), "wred": hx(d.wred)})
		}
		// ---- the property on this day ----
		horizonOf := func(layer int) int { // 0-based horizon of a 1-based layer
			for h := 0; h < g.AZHO; h++ {
				if layer <= g.UKT[h+1] {
					return h
				}
			}
			return g.AZHO - 1
		}
		for i := 0; i < N; i++ {
			okLow := 0 < d.wm[i] && d.wm[i] < d.w[i]
			okHigh := d.w[i] <= d.por[i]+1e-12 && d.por[i] < 1
			if okLow && okHigh {
				continue
			}
			h := horizonOf(i + 1)
			if okLow && d.por[i] < 1 && route == "table" && g.FKA[h] <= 0 {
				// field capacity above pore volume on the table route: identified by the class of the table lookup
				cls := fmt.Sprintf("%s:LD%d:corgclass%d:gwclass%d", strings.TrimSpace(g.BART[h]), g.LD[h], c15CorgClass(g.CGEHALT[h]), c15GwClass(g.GRW))
				if initial { // Input ran Hydro with the level it read, Init moved the level afterwards without a new lookup
					cls = fmt.Sprintf("%s:LD%d:corgclass%d:gwclass%d", strings.TrimSpace(g.BART[h]), g.LD[h], c15CorgClass(g.CGEHALT[h]), c15GwClass(g.GW))
				}
				fail("table-fc-above-pore-volume:"+cls, "run line=%d zeit=%d layer=%d grw=%v wmin=%v w=%v porges=%v", lineNo, zeit, i+1, g.GRW, d.wm[i], d.w[i], d.por[i])
				continue
			}
			fail(fmt.Sprintf("run-order:%s:%s", route, strings.TrimSpace(g.BART[h])), "line=%d zeit=%d layer=%d grw=%v wmin=%v w=%v porges=%v", lineNo, zeit, i+1, g.GRW, d.wm[i], d.w[i], d.por[i])
		}
		if !(d.wm[0] < d.wred && d.wred < d.w[0]) {
			fail("run-wred-not-between:"+route, "line=%d zeit=%d grw=%v wmin0=%v wred=%v w0=%v stein0=%v", lineNo, zeit, g.GRW, d.wm[0], d.wred, d.w[0], g.STEIN[0])
		}
		// restore route (explicit values / pedotransfer function) after a groundwater change: the parameters are the ones the
		// route assigned (Input's backups) — WMIN, PORGES, WNOR in every layer, W above the layer the table lies in
		if route == "restore" && !initial {
			for i := 0; i < N; i++ {
				above := i+1 < int(g.GRW+1)
				if d.wm[i] != g.WMIN_Backup[i] || d.por[i] != g.PORGES_Backup[i] || d.wnor[i] != g.WNOR_Backup[i] || (above && d.w[i] != g.W_Backup[i]) {
					fail(fmt.Sprintf("run-params-not-from-route:restore:ptf%d", g.PTF), "line=%d zeit=%d layer=%d grw=%v w=%v wmin=%v porges=%v wnor=%v assigned_w=%v assigned_wmin=%v assigned_porges=%v assigned_wnor=%v",
						lineNo, zeit, i+1, g.GRW, d.w[i], d.wm[i], d.por[i], d.wnor[i], g.W_Backup[i], g.WMIN_Backup[i], g.PORGES_Backup[i], g.WNOR_Backup[i])
					break
				}
			}
		}
		// below the CURRENT table (every day, whether or not the day loop saw a change): FC = PS ...
		for l := int(g.GRW+1) + 1; l <= N; l++ {
			if l >= 1 && d.w[l-1] != d.por[l-1] {
				fail("run-fc-below-gw", "line=%d zeit=%d layer=%d grw=%v w=%v porges=%v", lineNo, zeit, l, g.GRW, d.w[l-1], d.por[l-1])
			}
		}
		// ... and the layer the table lies in holds the mix of pore volume and its own field capacity for today's level
		// (init.go:93; not in the initial phase, whose saturation rule differs: F7)
		if l := int(g.GRW + 1); !initial && l >= 1 && l <= N {
			own := g.W_Backup[l-1]
			if route == "table" {
				h := horizonOf(l)
				own = g.FELDW[h] * (1 - g.STEIN[h])
			}
			fr := math.Mod(g.GRW+1, 1)
			want := (1-fr)*d.por[l-1] + own*fr
			if d.w[l-1] != want {
				fail("run-gw-table-layer-mix:"+route, "line=%d zeit=%d layer=%d grw=%v w=%v expected=%v porges=%v own_fc=%v", lineNo, zeit, l, g.GRW, d.w[l-1], want, d.por[l-1], own)
			}
		}
	}
	var res runResult
	if session != nil {
		res = c15RunIn(session, work, splitArgs(line))
	} else {
		res = runProject(work, splitArgs(line))
	}
	hermes.VerifProbe = nil
	// ---- return to a previous level: same parameters ----
	same := func(a, b c15Day) int {
		for i := range a.w {
			if a.w[i] != b.w[i] || a.wm[i] != b.wm[i] || a.por[i] != b.por[i] || a.wnor[i] != b.wnor[i] {
				return i + 1
			}
		}
		if a.wred != b.wred {
			return -1
		}
		return 0
	}
	firstAt := map[uint64]int{}
	pairs, levels := 0, 0
	for j, d := range days {
		key := math.Float64bits(d.grw)
		i, ok := firstAt[key]
		if !ok {
			firstAt[key] = j
			levels++
			continue
		}
		pairs++
		a := days[i]
		if l := same(a, d); l != 0 {
			idx := l - 1
			if l < 0 {
				idx = 0
			}
			kind := "gw-return"
			if a.initial != d.initial {
				kind = "gw-return-initial-state"
			}
			fail(kind+":"+route, "line=%d level=%v day_a=%d(initial=%v) day_b=%d layer=%d w_a=%v w_b=%v wmin_a=%v wmin_b=%v porges_a=%v porges_b=%v wred_a=%v wred_b=%v",
				lineNo, d.grw, a.zeit, a.initial, d.zeit, l, a.w[idx], d.w[idx], a.wm[idx], d.wm[idx], a.por[idx], d.por[idx], a.wred, d.wred)
			if a.initial && !d.initial { // compare later days with the first non-initial day of this level
				firstAt[key] = j
			}
		}
	}
	counts := jobj{}
	for k, v := range fails {
		counts[k] = v
	}
	hsh := fnv.New64a()
	for _, d := range days {
		for _, arr := range [][]float64{d.w, d.wm, d.por, d.wnor, {d.wred, d.grw}} {
			for _, v := range arr {
				var b [8]byte
				binary.LittleEndian.PutUint64(b[:], math.Float64bits(v))
				hsh.Write(b[:])
			}
		}
	}
	digest := fmt.Sprintf("%d:%x", len(days), hsh.Sum64())
	defer func() {}()
	emit(jobj{"k": "run", "line": lineNo, "success": res.Success, "err": res.Err, "days": nDays, "gw_changes": nChanged, "gw_slow_changes": nSlow, "levels": levels,
		"return_pairs": pairs, "route": route, "fail_counts": counts})
	return digest
}
