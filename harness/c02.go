package main

import (
	"flag"
	"math"

	"github.com/zalf-rpm/Hermes2Go/hermes"
)

func init() { commands["c02"] = c02 }

func sumN(a []float64) float64 {
	s := 0.0
	for _, v := range a {
		s += v
	}
	return s
}

// nmoveCase runs the real transport kernel and emits inputs (incl. the exp oracle values) and outputs
func nmoveInputs(tag string, g *hermes.GlobalVarsMain, wdt float64, subd, zeit int) jobj {
	n := g.N
	expo := make([]float64, n)
	for z := 0; z < n; z++ {
		expo[z] = math.Exp((g.WG[0][z] + g.WG[0][z+1]) * 5)
	}
	growing := zeit >= g.SAAT[g.AKF.Index] && zeit <= g.ERNTE2[g.AKF.Index]
	return jobj{"tag": tag, "n": n, "subd1": subd == 1, "wdt": hx(wdt), "after_sow": zeit > g.SAAT[g.AKF.Index], "growing": growing,
		"fluss0": hx(g.FLUSS0), "dv": hx(g.DV), "draidep": g.DRAIDEP, "qdrain": hx(g.QDRAIN), "outn": g.OUTN, "stab": hx(g.C1stabilityVal),
		"schnorr": hx(g.SCHNORR), "ad": hxs(g.AD[:n]), "expo": hxs(expo), "wg0": hxs(g.WG[0][:n+1]), "w": hxs(g.W[:n+1]),
		"pe": hxs(g.PE[:n]), "c1": hxs(g.C1[:n]), "dn": hxs(g.DN[:n]), "q1": hxs(g.Q1[:n+1]),
		"cnt": hxs([]float64{g.PESUM, g.AUFNASUM, g.OUTSUM, g.NLEAG, g.DRAINLOSS})}
}

func nmoveCase(tag string, g *hermes.GlobalVarsMain, l *hermes.NitroSharedVars, wdt float64, subd, zeit int) {
	n := g.N
	in := nmoveInputs(tag, g, wdt, subd, zeit)
	c1Before := append([]float64{}, g.C1[:n]...)
	dn := append([]float64{}, g.DN[:n]...)
	wg0 := append([]float64{}, g.WG[0][:n+1]...)
	out0, drain0, pesum0, aufna0 := g.OUTSUM, g.DRAINLOSS, g.PESUM, g.AUFNASUM
	g.C1NotStable = ""
	hermes.VerifNmove(wdt, subd, zeit, g, l)
	out := jobj{"pe": hxs(g.PE[:n]), "c1": hxs(g.C1[:n]), "q10": hx(g.Q1[0]), "d": hxs(l.D[:n]), "v": hxs(l.V[:n]), "db": hxs(l.DB[:n]),
		"disp": hxs(l.DISP[:n]), "konv": hxs(l.KONV[:n]), "unstable": g.C1NotStable != "",
		"cnt": hxs([]float64{g.PESUM, g.AUFNASUM, g.OUTSUM, g.NLEAG, g.DRAINLOSS})}
	emit(jobj{"k": "nmove", "in": in, "out": out})
	// ---- property oracle on the real kernel (C02 transport balance, C07 uptake crediting)
	pe := 0.0
	if subd == 1 {
		pe = sumN(g.PE[:n])
		if math.Abs((g.AUFNASUM-aufna0)-pe) > 1e-9*(1+math.Abs(pe)) {
			oracleFail("uptake-credit tag=%s aufnasum-delta=%v sum-pe=%v", tag, g.AUFNASUM-aufna0, pe)
		}
		// the day's fixation is credited to the crop once, in full, whatever the sub-step length
		fix := 0.0
		if zeit >= g.SAAT[g.AKF.Index] && zeit <= g.ERNTE2[g.AKF.Index] {
			fix = g.SCHNORR
		}
		if math.Abs((g.PESUM-pesum0)-(pe+fix)) > 1e-9*(1+math.Abs(pe)+math.Abs(fix)+math.Abs(pesum0)) {
			oracleFail("fixation-credit tag=%s wdt=%v dPESUM=%v sum-pe=%v fixation=%v", tag, wdt, g.PESUM-pesum0, pe, fix)
		}
	} else if g.AUFNASUM != aufna0 || g.PESUM != pesum0 {
		oracleFail("uptake-credited-in-later-substep tag=%s subd=%d dPESUM=%v dAUFNASUM=%v", tag, subd, g.PESUM-pesum0, g.AUFNASUM-aufna0)
	}
	// clamp engagement, recomputed from the observable arrays
	clamp := false
	minCk := 0.0
	for z := 0; z < n; z++ {
		cu := c1Before[z]
		if subd == 1 {
			cu = c1Before[z] - g.PE[z]
		}
		pre := cu + dn[z]*wdt/2
		carr := pre / (wg0[z] * 10 * 100)
		if pre < 0 {
			clamp = true
			carr = 0
		}
		ck := (carr*wg0[z] + l.DISP[z] - l.KONV[z]) * 10 * 100
		if ck < 0 {
			clamp = true
			minCk = math.Min(minCk, ck)
		}
		if ck+dn[z]*wdt/2 < 0 {
			clamp = true
		}
	}
	if (minCk < g.C1stabilityVal) != (g.C1NotStable != "") {
		oracleFail("instability-flag tag=%s min-preclamp=%v threshold=%v flag=%q", tag, minCk, g.C1stabilityVal, g.C1NotStable)
	}
	if g.OUTN == n && n >= 2 {
		lhs := sumN(g.C1[:n])
		rhs := sumN(c1Before) - pe + sumN(dn)*wdt - (g.OUTSUM - out0) - (g.DRAINLOSS - drain0)
		scale := math.Abs(lhs) + math.Abs(sumN(c1Before)) + math.Abs(g.OUTSUM-out0) + math.Abs(g.DRAINLOSS-drain0)
		if finite(lhs, rhs) {
			if lhs < rhs-1e-9*(1+scale) {
				oracleFail("transport-removes-n tag=%s subd=%d residual=%g", tag, subd, lhs-rhs)
			} else if !clamp && math.Abs(lhs-rhs) > 1e-9*(1+scale) {
				oracleFail("transport-balance tag=%s subd=%d residual=%g", tag, subd, lhs-rhs)
			}
		}
	}
	for z := 0; z < n; z++ {
		if !(g.C1[z] >= 0) {
			oracleFail("c1-negative tag=%s layer=%d value=%v", tag, z+1, g.C1[z])
		}
	}
}

func mineralCase(tag string, g *hermes.GlobalVarsMain, l *hermes.NitroSharedVars) {
	num := g.IZM / g.DZ.Index
	layers := make([][]string, num)
	for z := 1; z <= num; z++ {
		zi := z - 1
		tb := (g.TD[z] + g.TD[z-1]) / 2
		layers[zi] = hxs([]float64{g.TD[z-1], g.TD[z], math.Exp(-8400. / (tb + 273.16)), math.Exp(-9800. / (tb + 273.16)),
			g.WG[0][zi], g.WNOR[zi], g.WMIN[zi], g.PORGES[zi], g.W[zi], g.NAOS[zi], g.NFOS[zi], g.MINAOS[zi], g.MINFOS[zi]})
	}
	glob := func() []string {
		return hxs([]float64{g.WRED, g.PORGES[0], g.DSUMM, g.UMS, g.NH4Sum, g.NH4UMS, g.N2onitsum, g.N2onitDaily, g.MINSUM})
	}
	gin := glob()
	pools0 := make([]float64, num)
	for z := 0; z < num; z++ {
		pools0[z] = g.NAOS[z] + g.MINAOS[z] + g.NFOS[z] + g.MINFOS[z]
	}
	ums0, dsumm := g.UMS, g.DSUMM
	// the per-layer outputs of the call are poisoned first (g and l are copies): a layer the kernel skips keeps the poison instead of
	// looking right by accident (stale source terms of an earlier day would be fed to the transport step; seeded C07-17, C02-17)
	for z := 0; z < num; z++ {
		g.DN[z], l.DUMS[z], l.DNH4UMS[z] = 7.25+float64(z), -3.5-float64(z), 11.125+float64(z)
	}
	hermes.VerifMineral(g, l)
	outs := make([][]string, num)
	for z := 0; z < num; z++ {
		outs[z] = hxs([]float64{g.NAOS[z], g.NFOS[z], g.MINAOS[z], g.MINFOS[z], g.DN[z], l.DUMS[z], l.DNH4UMS[z]})
		// C07 oracle: what leaves the pools is what the counters gain
		p1 := g.NAOS[z] + g.MINAOS[z] + g.NFOS[z] + g.MINFOS[z]
		if math.Abs(p1-pools0[z]) > 1e-9*(1+math.Abs(p1)) {
			oracleFail("mineral-bookkeeping tag=%s layer=%d before=%v after=%v", tag, z+1, pools0[z], p1)
		}
		if g.NAOS[z] < -1e-12 || g.NFOS[z] < -1e-12 {
			oracleFail("organic-pool-negative tag=%s layer=%d naos=%v nfos=%v", tag, z+1, g.NAOS[z], g.NFOS[z])
		}
	}
	if ums0 <= dsumm && ums0 >= 0 && (g.UMS > dsumm+1e-9 || g.UMS < ums0-1e-12) {
		oracleFail("dissolved-exceeds-applied tag=%s ums0=%v ums=%v dsumm=%v", tag, ums0, g.UMS, dsumm)
	}
	emit(jobj{"k": "mineral", "tag": tag, "layers": layers, "glob": gin, "out_layers": outs, "out_glob": glob()})
}

func denitCase(tag string, g *hermes.GlobalVarsMain) {
	thetaOb30 := (g.WG[1][0] + g.WG[1][1] + g.WG[1][2]) / 3
	thetasat := 1 - (1.45 / 2.65)
	thetarel := thetaOb30 / thetasat
	nit := g.C1[0] + g.C1[1] + g.C1[2]
	tempOb30 := (g.TSOIL[0][0] + g.TSOIL[0][1] + g.TSOIL[0][2] + g.TSOIL[0][3]) / 4
	if tempOb30 < 0 {
		tempOb30 = 0
	}
	nq := math.Pow(nit, 2)
	fth := 1 - math.Exp(-1*math.Pow((thetarel/0.766), 6))
	fte := 1 - math.Exp(-1*math.Pow((tempOb30/15.5), 4.6))
	in := jobj{"c1": hxs(g.C1[:3]), "nq": hx(nq), "fth": hx(fth), "fte": hx(fte), "cum": hx(g.CUMDENIT)}
	s0, cum0 := nit, g.CUMDENIT
	hermes.Denitr(g, false)
	s1 := g.C1[0] + g.C1[1] + g.C1[2]
	if s1 < s0-(g.CUMDENIT-cum0)-1e-9*(1+s0) {
		oracleFail("denit-removes-more-than-counted tag=%s before=%v after=%v counted=%v", tag, s0, s1, g.CUMDENIT-cum0)
	}
	emit(jobj{"k": "denit", "tag": tag, "in": in, "out": jobj{"c1": hxs(g.C1[:3]), "cum": hx(g.CUMDENIT)}})
}

// denitmoCase: peat soils (first horizon texture 'H'): three 30 cm blocks
func denitmoCase(tag string, g *hermes.GlobalVarsMain) {
	nq, fth, fte := make([]float64, 3), make([]float64, 3), make([]float64, 3)
	temp := g.TEMP[g.TAG.Index]
	if temp < 0 {
		temp = 0
	}
	temps := []float64{temp, temp, 8.}
	s0 := 0.0
	for b := 0; b < 3; b++ {
		theta := (g.WG[1][3*b] + g.WG[1][3*b+1] + g.WG[1][3*b+2]) / 3
		sat := (g.PORGES[3*b] + g.PORGES[3*b+1] + g.PORGES[3*b+2]) / 3
		rel := theta / sat
		nit := g.C1[3*b] + g.C1[3*b+1] + g.C1[3*b+2]
		s0 += nit
		nq[b] = math.Pow(nit, 2)
		fth[b] = 1 - math.Exp(-1*math.Pow((rel/0.766), 6))
		fte[b] = 1 - math.Exp(-1*math.Pow((temps[b]/15.5), 4.6))
	}
	in := jobj{"c1": hxs(g.C1[:9]), "nq": hxs(nq), "fth": hxs(fth), "fte": hxs(fte), "cum": hx(g.CUMDENIT)}
	cum0 := g.CUMDENIT
	hermes.Denitmo(g)
	s1 := 0.0
	for z := 0; z < 9; z++ {
		s1 += g.C1[z]
		if !(g.C1[z] >= 0) {
			oracleFail("c1-negative tag=%s layer=%d value=%v", tag, z+1, g.C1[z])
		}
	}
	counted := g.CUMDENIT - cum0
	if s1 < s0-counted-1e-9*(1+s0) {
		oracleFail("denit-removes-more-than-counted tag=%s before=%v after=%v counted=%v", tag, s0, s1, counted)
	}
	// without an engaged clamp the soil loses exactly what the counter gains
	clampFree := true
	for z := 0; z < 9; z++ {
		if g.C1[z] == 0 {
			clampFree = false
		}
	}
	if clampFree && math.Abs((s0-s1)-counted) > 1e-9*(1+s0) {
		oracleFail("denit-balance tag=%s before=%v after=%v counted=%v", tag, s0, s1, counted)
	}
	emit(jobj{"k": "denitmo", "tag": tag, "in": in, "out": jobj{"c1": hxs(g.C1[:9]), "cum": hx(g.CUMDENIT)}})
}

// tillCase: the tillage block of Nitro on sub-step 1 (mineralisation switched off with IZM = 0, no fertiliser, no harvest)
func tillCase(tag string, r *rng, g *hermes.GlobalVarsMain, l *hermes.NitroSharedVars, wdt float64, zeit int) {
	n := g.N
	g.IZM = 0
	g.Kalender = hermes.KalenderConverter(hermes.DateDElong, ".")
	g.AUTOFERT = false
	g.NDG.SetByIndex(0)
	g.ZTDG[0] = zeit + 1000
	g.AKF.SetByIndex(0)
	g.SAAT[0] = 0
	g.ERNTE[0] = zeit + 500
	g.ERNTE2[0] = zeit + 600
	g.NTIL.SetByIndex(0)
	g.EINTE[1] = zeit - 1
	depths := []float64{5, 10, 15, 20, 25, 28, 30, 35, 45, 50, 8, 12.5}
	g.EINT[0] = depths[r.intn(len(depths))]
	if int(math.Round(g.EINT[0]/10)) > n {
		g.EINT[0] = 10
	}
	g.TILART[0] = 1
	if r.chance(0.15) {
		g.TILART[0] = 2
	}
	for z := 0; z < n; z++ {
		g.DN[z] = 0
	}
	k := 6
	if k > n {
		k = n
	}
	in := nmoveInputs(tag, g, wdt, 1, zeit)
	pre := jobj{"eint": hx(g.EINT[0]), "tilart": g.TILART[0], "nfos": hxs(g.NFOS[:k]), "naos": hxs(g.NAOS[:k]),
		"minfos": hxs(g.MINFOS[:k]), "minaos": hxs(g.MINAOS[:k])}
	sum := func() (float64, float64) {
		a, b := 0.0, 0.0
		for z := 0; z < k; z++ {
			a += g.NFOS[z] + g.MINFOS[z]
			b += g.NAOS[z] + g.MINAOS[z]
		}
		return a, b
	}
	a0, b0 := sum()
	var ln hermes.NitroBBBSharedVars
	var hp hermes.HFilePath
	var out hermes.CropOutputVars
	_, err := hermes.Nitro(wdt, 1, zeit, g, l, &ln, &hp, &out)
	if err != nil {
		oracleFail("tillage-run-error tag=%s err=%v", tag, err)
		return
	}
	a1, b1 := sum()
	if math.Abs(a1-a0) > 1e-9*(1+math.Abs(a0)) || math.Abs(b1-b0) > 1e-9*(1+math.Abs(b0)) {
		oracleFail("tillage-mixing-not-conservative tag=%s depth=%v type=%d fast-before=%v after=%v slow-before=%v after=%v", tag, g.EINT[0], g.TILART[0], a0, a1, b0, b1)
	}
	emit(jobj{"k": "till", "tag": tag, "in": in, "pre": pre, "out": jobj{"nfos": hxs(g.NFOS[:k]), "naos": hxs(g.NAOS[:k]),
		"minfos": hxs(g.MINFOS[:k]), "minaos": hxs(g.MINAOS[:k]), "c1": hxs(g.C1[:n])}})
}

func synthNitro(r *rng) {
	g := hermes.NewGlobalVarsMain()
	var l hermes.NitroSharedVars
	p := genProfile(r)
	n := p.N
	if n < 3 {
		n = 3
		p = genProfile(r)
		for p.N < 3 {
			p = genProfile(r)
		}
		n = p.N
	}
	g.N = n
	copy(g.W[:], p.W)
	copy(g.WMIN[:], p.WMIN)
	copy(g.PORGES[:], p.PORGES)
	copy(g.WNOR[:], p.WNOR)
	g.OUTN = n
	if r.chance(0.25) {
		g.OUTN = 1 + r.intn(n)
	}
	g.AKF.SetByIndex(0)
	g.SAAT[0] = 100
	g.ERNTE2[0] = 200
	zeit := 50 + r.intn(200)
	g.DRAIDEP = 0
	if r.chance(0.5) {
		g.DRAIDEP = 1 + r.intn(n)
	}
	for i := 0; i <= n; i++ {
		ii := i
		if ii >= n {
			ii = n - 1
		}
		g.WG[0][i] = r.between(p.WMIN[ii]/3+0.005, p.PORGES[ii])
		if r.chance(0.08) {
			g.WG[0][i] = p.PORGES[ii] // a water-logged layer (groundwater inside the mineralisation depth)
		}
	}
	for i := 0; i < n && i < 20; i++ {
		g.AD[i] = []float64{0.002, 0.004, 0.0015}[r.intn(3)]
	}
	// fluxes: every sign pattern incl. upward flow at the drain layer
	mode := r.intn(5)
	for i := 1; i <= n; i++ {
		switch mode {
		case 0:
			g.Q1[i] = r.between(0, 2)
		case 1:
			g.Q1[i] = -r.between(0, 0.3)
		case 2:
			g.Q1[i] = r.between(-0.5, 1.5)
		case 3:
			g.Q1[i] = 0
		default:
			g.Q1[i] = r.between(-0.05, 0.05)
		}
	}
	g.FLUSS0 = r.between(-0.6, 6)
	if mode == 1 {
		g.FLUSS0 = -r.between(0, 0.6)
	}
	if g.DRAIDEP > 0 && g.FLUSS0 > 0 {
		g.QDRAIN = r.between(0, 0.5)
	}
	for i := 0; i < n; i++ {
		g.C1[i] = r.between(0, 60)
		if r.chance(0.15) {
			g.C1[i] = r.between(0, 0.6)
		}
		g.DN[i] = 0
		if i < 3 {
			g.DN[i] = r.between(-0.2, 1.5)
		}
		if r.chance(0.5) {
			g.PE[i] = r.between(0, 3)
		}
	}
	g.SCHNORR = 0
	if r.chance(0.3) {
		g.SCHNORR = r.between(0, 5)
	}
	g.PESUM, g.AUFNASUM, g.OUTSUM, g.NLEAG, g.DRAINLOSS = r.between(0, 100), r.between(0, 100), r.between(-5, 50), r.between(0, 30), r.between(0, 10)
	steps := []float64{1, 2, 4, 8, 3, 13}
	wdt := 1 / steps[r.intn(len(steps))]
	subd := 1
	if r.chance(0.45) {
		subd = 2 + r.intn(3)
	}
	// mineral first (as Nitro does on sub-step 1) on a fresh pool state
	for z := 0; z <= 3; z++ {
		g.TD[z] = r.between(-5, 25)
	}
	g.WRED = p.WMIN[0] + 0.66*(p.W[0]-p.WMIN[0])
	for z := 0; z < 3; z++ {
		g.NAOS[z], g.NFOS[z], g.MINAOS[z], g.MINFOS[z] = r.between(0, 3000), r.between(0, 60), r.between(0, 200), r.between(0, 50)
	}
	g.DSUMM = r.between(0, 200)
	g.UMS = g.DSUMM * r.float()
	g.NH4Sum = r.between(0, 100)
	g.NH4UMS = g.NH4Sum * r.float()
	g.N2onitsum, g.MINSUM = r.between(0, 5), r.between(0, 100)
	if r.chance(0.25) {
		gt, lt := g, l
		for z := 0; z < 6; z++ {
			gt.NFOS[z], gt.NAOS[z], gt.MINFOS[z], gt.MINAOS[z] = r.between(0, 60), r.between(0, 3000), r.between(0, 50), r.between(0, 200)
		}
		tillCase("synth", r, &gt, &lt, wdt, zeit)
	}
	if r.chance(0.5) {
		gh, lh := g, l
		harvCase("synth", r, &gh, &lh, wdt, zeit)
	}
	if r.chance(0.5) {
		progCase("synth", r)
	}
	if r.chance(0.6) {
		mineralCase("synth", &g, &l)
	}
	nmoveCase("synth", &g, &l, wdt, subd, zeit)
	if r.chance(0.4) {
		nmoveCase("synth2", &g, &l, wdt, subd+1, zeit)
	}
	// denitrification on the resulting state
	for i := 0; i < 3; i++ {
		g.WG[1][i] = g.WG[0][i]
	}
	for i := 0; i < 4; i++ {
		g.TSOIL[0][i] = r.between(-3, 25)
	}
	g.CUMDENIT = r.between(0, 20)
	if r.chance(0.2) {
		g.C1[0], g.C1[1], g.C1[2] = r.between(0, 0.3), 0, r.between(0, 0.2)
	}
	denitCase("synth", &g)
	// peat-soil denitrification: three blocks with different moisture / nitrate
	if g.N >= 9 && r.chance(0.5) {
		gp := g
		for z := 0; z < 9; z++ {
			gp.WG[1][z] = r.between(gp.PORGES[z]*0.3, gp.PORGES[z])
			gp.C1[z] = r.between(0, 40)
			if r.chance(0.2) {
				gp.C1[z] = r.between(0, 0.05)
			}
		}
		gp.TAG.SetByIndex(r.intn(300))
		gp.TEMP[gp.TAG.Index] = r.between(-5, 28)
		denitmoCase("synth", &gp)
	}
}

func c02(args []string) {
	fs := flag.NewFlagSet("c02", flag.ExitOnError)
	seed := fs.Uint64("seed", 1, "seed")
	n := fs.Int("synth", 200, "synthetic cases")
	fs.StringVar(&harvWork, "work", "", "scratch directory for the generated CROP_N.TXT of the harvest cases")
	fs.Parse(args)
	defer stdout.Flush()
	r := newRng(*seed)
	for i := 0; i < *n; i++ {
		synthNitro(r)
	}
}
