package main

import (
	"bufio"
	"flag"
	"math"
	"os"

	"github.com/zalf-rpm/Hermes2Go/hermes"
)

func init() { commands["dayn"] = daynCmd }

// daynCmd: whole-day tie of the nitrogen path (DayNitroModel.v / DayNitroCorr.v).  Runs batch lines in-process
// with the day-loop probe and emits per simulated day everything day_nitro needs as inputs plus the real end-of-day
// state:
//
//	{"k":"dayn", "in":{...}, "out":{...}}        one traced day
//	{"k":"dayn-skip", "reason":...}              a day outside the model (harvest, automatic fertilisation, ...)
//	{"k":"dayn-run", ...}                        per line
//
// and ORACLE lines: the day-level statements of C02b / C07b evaluated on the real run.
func daynCmd(args []string) {
	fs := flag.NewFlagSet("dayn", flag.ExitOnError)
	work := fs.String("work", ".", "scratch copy of the examples tree")
	linesFile := fs.String("lines", "", "file with batch lines")
	seed := fs.Uint64("seed", 1, "seed")
	every := fs.Int("every", 1, "emit about one ordinary day (one sub-step, no event) in this many; other days always")
	multi := fs.Int("multi-every", 1, "emit about one day with several sub-steps (no event) in this many")
	fs.Parse(args)
	defer stdout.Flush()
	r := newRng(*seed)
	f, err := os.Open(*linesFile)
	if err != nil {
		panic(err)
	}
	sc := bufio.NewScanner(f)
	lineNo := 0
	for sc.Scan() {
		line := sc.Text()
		if len(line) == 0 {
			continue
		}
		daynLine(*work, line, lineNo, r, *every, *multi)
		lineNo++
	}
}

func cpf(a []float64) []float64 { return append([]float64{}, a...) }

// the 13 scalar counters in the order DayNitroCorr.v expects
func daynCounters(g *hermes.GlobalVarsMain) []float64 {
	return []float64{g.PESUM, g.AUFNASUM, g.OUTSUM, g.NLEAG, g.DRAINLOSS, g.DSUMM, g.UMS, g.NH4Sum, g.NH4UMS,
		g.N2onitsum, g.N2onitDaily, g.MINSUM, g.CUMDENIT}
}

type daynEnd struct {
	ok    bool
	zeit  int
	c1    []float64
	nbr   int
	sumC1 float64
	minC1 float64
}

func daynLine(work, line string, lineNo int, r *rng, every, multiEvery int) {
	var prev daynEnd
	type subRec struct {
		in      jobj
		c1After []string
	}
	var d struct {
		zeit      int
		n         int
		meas      bool
		c1Pre     []float64 // at "evatra-pre"
		nbrPre    int
		in        jobj
		subs      []subRec
		skip      string
		special   bool
		steps     int
		peTaken   []float64
		unstable  bool
		nq, fth   []float64
		fte       []float64
		cnt1      []float64 // counters at "nitro-pre" of sub-step 1
		schnorr   float64
		growing   bool
		evCnt     []float64 // counters at "evatra-pre"
		minp0     float64
		anyUnstab bool
		harvest   bool
		autofert  bool
		dsumm1    float64
		nfertsim1 float64
	}
	days, emitted := 0, 0
	skips := map[string]int{}
	hermes.VerifProbe = func(stage string, zeit, subd int, wdt float64, g *hermes.GlobalVarsMain, w *hermes.WaterSharedVars, nl *hermes.NitroSharedVars) {
		n := g.N
		switch stage {
		case "evatra-pre":
			d.zeit, d.n, d.in, d.subs, d.skip, d.special, d.steps = zeit, n, nil, nil, "", false, 0
			d.anyUnstab = false
			d.c1Pre, d.nbrPre = cpf(g.C1[:n]), g.NBR
			d.meas = false
			for _, m := range g.MESS {
				if m == zeit && m != 0 {
					d.meas = true
				}
			}
			d.evCnt = daynCounters(g)
			_, d.minp0, _ = nsum(g)
		case "steps":
			d.steps = subd
		case "nitro-pre":
			if subd == 1 {
				d.harvest = zeit == g.ERNTE[g.AKF.Index]
				if d.harvest {
					d.skip = "harvest"
				}
				d.autofert, d.dsumm1, d.nfertsim1 = g.AUTOFERT, g.DSUMM, g.NFERTSIM
				if g.AUTOFERT && d.skip == "" {
					// organic part of the automatic-fertilisation branch (nitro.go:73-106): conditions evaluated here (superset);
					// the mineral parts (nitro.go:108-231) are recognised after the call by DSUMM / NFERTSIM having moved
					a := g.AKF.Index
					if g.AKF.Num > 1 && a >= 1 && g.ODU[a-1] == 1 && g.ORGTIME[a-1] == "H" && zeit == g.ZTDG[a-1] {
						d.skip = "automatic-fertilisation-event"
					}
					if g.SAAT[a] > 0 && zeit >= g.SAAT[a] && g.ODU[a] == 1 && (zeit == g.ZTDG[a] || zeit == g.SAAT[a]) {
						d.skip = "automatic-fertilisation-event"
					}
				}
				growing := zeit >= g.SAAT[g.AKF.Index] && zeit <= g.ERNTE2[g.AKF.Index]
				changed := false
				for z := 0; z < n; z++ {
					if math.Float64bits(g.C1[z]) != math.Float64bits(d.c1Pre[z]) {
						changed = true
					}
				}
				if changed && zeit > g.PROGNOS && growing {
					d.skip = "prognosis-fertilisation"
				}
				add := prev.ok && prev.zeit == zeit-1 && !d.meas && len(prev.c1) == n
				start := d.c1Pre
				why := ""
				if add {
					start = prev.c1
				} else if d.meas {
					why = "measurement-overwrite"
				} else if !prev.ok {
					why = "first-day"
				} else {
					why = "not-consecutive"
				}
				irr := add && g.NBR == prev.nbr+1 && prev.nbr >= 1
				brkz, breg := 0.0, 0.0
				if irr {
					brkz, breg = g.BRKZ[prev.nbr-1], g.BREG[prev.nbr-1]
				}
				fert := !g.AUTOFERT && zeit == g.ZTDG[g.NDG.Index]+1
				till := zeit == g.EINTE[g.NTIL.Index+1]+1
				num := g.IZM / g.DZ.Index
				menv := make([][]string, num)
				for z := 1; z <= num; z++ {
					zi := z - 1
					tb := (g.TD[z] + g.TD[z-1]) / 2
					menv[zi] = hxs([]float64{g.TD[z-1], g.TD[z], math.Exp(-8400. / (tb + 273.16)), math.Exp(-9800. / (tb + 273.16)),
						g.WNOR[zi], g.WMIN[zi], g.PORGES[zi], g.W[zi]})
				}
				d.cnt1 = daynCounters(g)
				d.schnorr, d.growing = g.SCHNORR, growing
				d.special = !add || irr || fert || till
				d.in = jobj{"n": n, "add": add, "start": why, "irr": irr, "brkz": hx(brkz), "breg": hx(breg), "depos": hx(g.DEPOS), "dt": hx(g.DT.Num),
					"c1": hxs(start), "nfos": hxs(g.NFOS[:n]), "naos": hxs(g.NAOS[:n]), "minfos": hxs(g.MINFOS[:n]), "minaos": hxs(g.MINAOS[:n]),
					"pe": hxs(g.PE[:n]), "cnt": hxs(d.cnt1),
					"fert": fert, "nsas": hx(g.NSAS[g.NDG.Index]), "nlas": hx(g.NLAS[g.NDG.Index]), "ndir": hx(g.NDIR[g.NDG.Index]), "nh4n": hx(g.NH4N[g.NDG.Index]),
					"till": till, "eint": hx(g.EINT[g.NTIL.Index]), "tilart": g.TILART[g.NTIL.Index],
					"menv": menv, "wred": hx(g.WRED), "porges0": hx(g.PORGES[0]),
					"wdt": hx(wdt), "after_sow": zeit > g.SAAT[g.AKF.Index], "growing": growing, "dv": hx(g.DV), "draidep": g.DRAIDEP, "outn": g.OUTN,
					"stab": hx(g.C1stabilityVal), "schnorr": hx(g.SCHNORR), "ad": hxs(g.AD[:n]), "w": hxs(g.W[:n+1]),
					"peat": g.BART[0][0] == 'H'}
			}
			if d.in != nil {
				expo := make([]float64, n)
				for z := 0; z < n; z++ {
					expo[z] = math.Exp((g.WG[0][z] + g.WG[0][z+1]) * 5)
				}
				d.subs = append(d.subs, subRec{in: jobj{"subd": subd, "fluss0": hx(g.FLUSS0), "qdrain": hx(g.QDRAIN), "q1": hxs(g.Q1[:n+1]),
					"wg0": hxs(g.WG[0][:n+1]), "expo": hxs(expo)}})
			}
		case "nitro":
			if d.in == nil || len(d.subs) == 0 {
				break
			}
			d.subs[len(d.subs)-1].c1After = hxs(g.C1[:n])
			d.peTaken = cpf(g.PE[:n])
			d.unstable = g.C1NotStable != ""
			if d.unstable {
				d.anyUnstab = true
			}
			// C07b on the real run: nothing is credited after the first sub-step
			if subd == 1 {
				pe := sumN(g.PE[:n])
				fix := 0.0
				if d.growing {
					fix = d.schnorr
				}
				if d.autofert && d.skip == "" && (g.DSUMM != d.dsumm1 || g.NFERTSIM != d.nfertsim1) {
					d.skip = "automatic-fertilisation-event"
				}
				if !d.harvest {
					if math.Abs((g.AUFNASUM-d.cnt1[1])-pe) > 1e-9*(1+math.Abs(pe)) {
						oracleFail("day-uptake-credit line=%d zeit=%d dAUFNASUM=%v sum-pe=%v", lineNo, zeit, g.AUFNASUM-d.cnt1[1], pe)
					}
					if math.Abs((g.PESUM-d.cnt1[0])-(pe+fix)) > 1e-9*(1+math.Abs(pe)+math.Abs(fix)+math.Abs(d.cnt1[0])) {
						oracleFail("day-fixation-credit line=%d zeit=%d dPESUM=%v sum-pe=%v fixation=%v", lineNo, zeit, g.PESUM-d.cnt1[0], pe, fix)
					}
				}
				d.cnt1 = daynCounters(g) // from here on PESUM / AUFNASUM must stay
			} else if g.PESUM != d.cnt1[0] || g.AUFNASUM != d.cnt1[1] {
				oracleFail("day-credited-in-later-substep line=%d zeit=%d subd=%d dPESUM=%v dAUFNASUM=%v", lineNo, zeit, subd, g.PESUM-d.cnt1[0], g.AUFNASUM-d.cnt1[1])
			}
			// oracle factors of the denitrification that follows the last sub-step
			if g.BART[0][0] == 'H' {
				d.nq, d.fth, d.fte = make([]float64, 3), make([]float64, 3), make([]float64, 3)
				temp := g.TEMP[g.TAG.Index]
				if temp < 0 {
					temp = 0
				}
				temps := []float64{temp, temp, 8.}
				for b := 0; b < 3; b++ {
					theta := (g.WG[1][3*b] + g.WG[1][3*b+1] + g.WG[1][3*b+2]) / 3
					sat := (g.PORGES[3*b] + g.PORGES[3*b+1] + g.PORGES[3*b+2]) / 3
					rel := theta / sat
					nit := g.C1[3*b] + g.C1[3*b+1] + g.C1[3*b+2]
					d.nq[b] = math.Pow(nit, 2)
					d.fth[b] = 1 - math.Exp(-1*math.Pow((rel/0.766), 6))
					d.fte[b] = 1 - math.Exp(-1*math.Pow((temps[b]/15.5), 4.6))
				}
			} else {
				thetaOb30 := (g.WG[1][0] + g.WG[1][1] + g.WG[1][2]) / 3
				thetasat := 1 - (1.45 / 2.65)
				thetarel := thetaOb30 / thetasat
				nit := g.C1[0] + g.C1[1] + g.C1[2]
				tempOb30 := (g.TSOIL[0][0] + g.TSOIL[0][1] + g.TSOIL[0][2] + g.TSOIL[0][3]) / 4
				if tempOb30 < 0 {
					tempOb30 = 0
				}
				d.nq = []float64{math.Pow(nit, 2)}
				d.fth = []float64{1 - math.Exp(-1*math.Pow((thetarel/0.766), 6))}
				d.fte = []float64{1 - math.Exp(-1*math.Pow((tempOb30/15.5), 4.6))}
			}
		case "dayend":
			days++
			c1, minp, minC1 := nsum(g)
			// ---- C02b on the real run: the day's budget from yesterday's end state, additions included
			if prev.ok && prev.zeit == zeit-1 && !d.meas && g.OUTN == n && n >= 2 && !g.AUTOFERT && d.evCnt != nil {
				dep := g.DEPOS / 365 * g.DT.Num
				irrn := 0.0
				if g.NBR == prev.nbr+1 && prev.nbr >= 1 {
					if v := g.BRKZ[prev.nbr-1] * g.BREG[prev.nbr-1] * 0.01; v > 0 {
						irrn = v
					}
				}
				e := d.evCnt
				rhs := dep + irrn + (minp - d.minp0) + (g.UMS - e[6]) - (g.N2onitsum - e[9]) - (g.AUFNASUM - e[1]) - (g.OUTSUM - e[2]) -
					(g.DRAINLOSS - e[4]) - (g.CUMDENIT - e[12])
				res := (c1 - prev.sumC1) - rhs
				scale := math.Abs(c1) + math.Abs(g.AUFNASUM-e[1]) + math.Abs(g.OUTSUM-e[2]) + math.Abs(minp-d.minp0) + math.Abs(irrn)
				clean := minC1 >= 1 && prev.minC1 >= 1 && !d.anyUnstab
				if !(res >= -1e-8*(1+scale)) {
					oracleFail("day-n-balance-loss line=%d zeit=%d steps=%d residual=%g", lineNo, zeit, d.steps, res)
				} else if clean && !(res <= 1e-8*(1+scale)) {
					oracleFail("day-n-balance-gain line=%d zeit=%d steps=%d residual=%g", lineNo, zeit, d.steps, res)
				}
			}
			for z := 0; z < n; z++ {
				if g.PE[z] != 0 {
					oracleFail("day-pe-not-reset line=%d zeit=%d layer=%d value=%v", lineNo, zeit, z+1, g.PE[z])
					break
				}
			}
			if d.in != nil && len(d.subs) > 0 && d.zeit == zeit {
				switch {
				case d.skip != "":
					skips[d.skip]++
					emit(jobj{"k": "dayn-skip", "line": lineNo, "zeit": zeit, "reason": d.skip})
				case len(d.subs) != d.steps:
					skips["sub-steps-not-all-probed"]++
					emit(jobj{"k": "dayn-skip", "line": lineNo, "zeit": zeit, "reason": "sub-steps-not-all-probed"})
				case d.special || (len(d.subs) > 1 && (multiEvery <= 1 || r.intn(multiEvery) == 0)) || (len(d.subs) == 1 && (every <= 1 || r.intn(every) == 0)):
					subs := make([]jobj, len(d.subs))
					after := make([][]string, len(d.subs))
					for i, s := range d.subs {
						subs[i], after[i] = s.in, s.c1After
					}
					d.in["subs"] = subs
					d.in["nq"], d.in["fth"], d.in["fte"] = hxs(d.nq), hxs(d.fth), hxs(d.fte)
					out := jobj{"c1_add": hxs(d.c1Pre), "dn": hxs(g.DN[:n]), "c1_subs": after, "pe_taken": hxs(d.peTaken),
						"c1": hxs(g.C1[:n]), "pe": hxs(g.PE[:n]), "nfos": hxs(g.NFOS[:n]), "naos": hxs(g.NAOS[:n]),
						"minfos": hxs(g.MINFOS[:n]), "minaos": hxs(g.MINAOS[:n]), "cnt": hxs(daynCounters(g)), "unstable": d.unstable}
					emit(jobj{"k": "dayn", "line": lineNo, "zeit": zeit, "steps": d.steps, "in": d.in, "out": out})
					emitted++
				default:
					skips["not-sampled"]++
				}
			}
			prev = daynEnd{ok: true, zeit: zeit, c1: cpf(g.C1[:n]), nbr: g.NBR, sumC1: c1, minC1: minC1}
			d.in = nil
		}
	}
	res := runProject(work, splitArgs(line))
	hermes.VerifProbe = nil
	emit(jobj{"k": "dayn-run", "line": lineNo, "success": res.Success, "err": res.Err, "days": days, "emitted": emitted, "skipped": skips})
}
