package main

import (
	"bufio"
	"flag"
	"fmt"
	"math"
	"os"
	"sort"

	"github.com/zalf-rpm/Hermes2Go/hermes"
)

// dayw — whole-day tie of the water path (DayWaterModel.day_water): real projects run in-process;
// for every simulated day the state at the "evatra-pre" probe (inputs), the "steps" probe, every
// "water" probe and the "dayend" probe (observations) are emitted as one case.  Between the probes
// every value a later Water call reads is watched: a write by code outside the model is reported
// (FOREIGN line), never absorbed.  The day-level property (C01 as stated: rain + irrigation - actual
// evaporation ...) is evaluated on every day of the real run.
func init() { commands["dayw"] = daywCmd }

func daywCmd(args []string) {
	fs := flag.NewFlagSet("dayw", flag.ExitOnError)
	work := fs.String("work", ".", "scratch copy of the examples tree")
	linesFile := fs.String("lines", "", "file with batch lines")
	seed := fs.Uint64("seed", 1, "seed")
	every := fs.Int("every", 10, "emit about one ordinary day in this many (days with >1 sub-steps, irrigation, season reset: always up to -special)")
	special := fs.Int("special", 100000, "at most this many special days per line are emitted unconditionally")
	fs.Parse(args)
	defer stdout.Flush()
	r := newRng(*seed)
	f, err := os.Open(*linesFile)
	if err != nil {
		panic(err)
	}
	sc := bufio.NewScanner(f)
	lineNo := 0
	for sc.Scan() {
		line := sc.Text()
		if len(line) == 0 {
			continue
		}
		daywTrace(*work, line, lineNo, r, *every, *special)
		lineNo++
	}
}

func daywCounters(g *hermes.GlobalVarsMain) []float64 {
	return []float64{g.PFTRANS, g.TRAY, g.TRAG, g.ETAG, g.TP3, g.TP6, g.TP9, g.DRAISUM, g.SICKER, g.CAPSUM, g.PERG, g.INFILT}
}

func daywSame(a, b float64) bool { return math.Float64bits(a) == math.Float64bits(b) }

func daywSameN(a, b []float64) bool {
	for i := range a {
		if !daywSame(a[i], b[i]) {
			return false
		}
	}
	return true
}

// daywDiff: first value read by a later Water call (or reported by the day model) that differs
// between two states; season = also the season counters and the crop index
func daywDiff(a, b *hermes.GlobalVarsMain, la, lb *hermes.WaterSharedVars, season bool) string {
	n := a.N
	ti := a.TAG.Index
	switch {
	case a.N != b.N:
		return "N"
	case !daywSameN(a.WG[0][:n+1], b.WG[0][:n+1]):
		return "WG0"
	case !daywSameN(a.WG[1][:n+1], b.WG[1][:n+1]):
		return "WG1"
	case !daywSameN(a.TP[:n], b.TP[:n]):
		return "TP"
	case !daywSameN(la.EV[:n+1], lb.EV[:n+1]):
		return "EV"
	case !daywSameN(la.NFK[:n], lb.NFK[:n]):
		return "NFK"
	case !daywSameN(a.W[:n], b.W[:n]):
		return "W"
	case !daywSameN(a.WMIN[:n], b.WMIN[:n]):
		return "WMIN"
	case !daywSameN(a.Q1[1:n+1], b.Q1[1:n+1]):
		return "Q1"
	case !daywSameN(a.CAPS[:], b.CAPS[:]):
		return "CAPS"
	case !daywSame(a.GRW, b.GRW):
		return "GRW"
	case !daywSame(a.FLUSS0, b.FLUSS0):
		return "FLUSS0"
	case !daywSame(a.ETA, b.ETA):
		return "ETA"
	case !daywSame(la.GWAUF, lb.GWAUF):
		return "GWAUF"
	case !daywSame(a.REGEN[ti], b.REGEN[ti]) || a.TAG.Index != b.TAG.Index:
		return "REGEN"
	case a.DRAIDEP != b.DRAIDEP || !daywSame(a.DRAIFAK, b.DRAIFAK) || a.OUTN != b.OUTN:
		return "DRAIN/OUTN"
	case !daywSame(a.DT.Num, b.DT.Num) || !daywSame(a.DZ.Num, b.DZ.Num):
		return "DT/DZ"
	}
	ca, cb := daywCounters(a), daywCounters(b)
	for i := range ca {
		seasonal := i == 2 || i == 3 || i == 10
		if (season || !seasonal) && !daywSame(ca[i], cb[i]) {
			return fmt.Sprintf("counter%d", i)
		}
	}
	if season && a.AKF.Index != b.AKF.Index {
		return "AKF"
	}
	return ""
}

func daywTrace(work, line string, lineNo int, r *rng, every, special int) {
	type dayT struct {
		active               bool
		skip                 string
		pre                  hermes.GlobalVarsMain
		prel                 hermes.WaterSharedVars
		snapG                hermes.GlobalVarsMain
		snapL                hermes.WaterSharedVars
		haveSnap             bool
		in                   jobj
		subs                 []interface{}
		steps                int
		wdt                  float64
		afterSow, afterLater bool
		reset                bool
		foreign              string
		sumQ, sumQD          float64
		s0, rain, irr        float64
	}
	var d dayT
	days, emitted, specials := 0, 0, 0
	skipped := map[string]int{}
	foreign := map[string]int{}
	hist := map[int]int{}
	irrDays, resetDays, akfDays, measDays := 0, 0, 0, 0
	maxRes := 0.0
	markForeign := func(where, field string) {
		if field != "" && d.foreign == "" {
			d.foreign = where + ":" + field
		}
	}
	hermes.VerifProbe = func(stage string, zeit, subd int, wdt float64, g *hermes.GlobalVarsMain, w *hermes.WaterSharedVars, nv *hermes.NitroSharedVars) {
		switch stage {
		case "evatra-pre":
			d = dayT{active: true}
			d.pre, d.prel = *g, *w
		case "evatra":
			if !d.active {
				return
			}
			days++
			n := g.N
			pg := &d.pre
			if zeit <= g.BEGINN {
				d.skip = "first-day-no-start-of-day-copy"
				return
			}
			if g.OUTN < 1 || g.OUTN > n {
				d.skip = "leaching-depth-outside-1..N"
				return
			}
			res := evatraCase("dayw", &d.pre, &d.prel, zeit, false, nil)
			if !res.ok {
				if zeit == pg.SAAT[pg.AKF.Index] && pg.ETMETH == 1 {
					d.skip = "haude-sowing-day-reads-factor-file"
				} else {
					d.skip = "evatra-outside-model-domain"
				}
				return
			}
			if m := daywDiff(&res.g, g, &res.l, w, true); m != "" {
				d.skip = "evatra-replay-differs:" + m
				return
			}
			// irrigation of the day (run.go:454-468 ran before the probe: NBR is already advanced)
			due, breg := false, 0.0
			if pg.NBR >= 2 && pg.NBR-2 < len(pg.ZTBR) && pg.ZTBR[pg.NBR-2] == zeit {
				due, breg = true, pg.BREG[pg.NBR-2]
			}
			d.rain = pg.REGENdaily
			if due {
				d.irr = breg / 10
				irrDays++
			}
			for _, m := range pg.MESS {
				if m == zeit && m != 0 {
					measDays++
				}
			}
			lukrit, wurz := 0.0, 0
			if res.crop {
				lukrit, wurz = pg.LUKRIT[pg.INTWICK.Index], pg.WURZ
			}
			expw := make([]float64, n)
			for i := 0; i < n; i++ {
				expw[i] = math.Exp(-pg.PROP * .1 * (float64((i+1)*10) - pg.DZ.Num/2))
			}
			d.s0 = 0
			for i := 0; i < n; i++ {
				d.s0 += pg.WG[1][i] * pg.DZ.Num
			}
			d.in = jobj{
				"line": lineNo, "zeit": zeit, "n": n, "meth": pg.ETMETH,
				"rain": hx(pg.REGENdaily), "irr_due": due, "breg": hx(breg),
				"wg1": hxs(pg.WG[1][:n]), "ev_last": hx(d.prel.EV[n]), "q10": hx(pg.Q1[0]), "cnt": hxs(daywCounters(pg)),
				"crop": res.crop, "verdu": hx(res.verdu), "elai": hx(math.Exp(-.5 * pg.LAI)), "expw": hxs(expw),
				"wmin": hxs(pg.WMIN[:n]), "w": hxs(pg.W[:n]), "wnor": hxs(pg.WNOR[:n]), "porges": hxs(pg.PORGES[:n]),
				"wurz": wurz, "wudich": hxs(pg.WUDICH[:n]), "grw": hx(pg.GRW), "lukrit": hx(lukrit),
				"lumday": pg.LUMDAY, "lured": hx(pg.LURED), "etrel": hx(pg.ETREL), "trrel": hx(pg.TRREL),
				"draidep": pg.DRAIDEP, "draifak": hx(pg.DRAIFAK), "outn": pg.OUTN, "caps": hxs(pg.CAPS[:21]),
			}
			d.snapG, d.snapL, d.haveSnap = *g, *w, true
		case "steps":
			if !d.active || d.skip != "" {
				return
			}
			d.steps, d.wdt = subd, wdt
			d.afterSow = zeit > g.SAAT[g.AKF.Index]
			d.afterLater = d.afterSow
		case "water-pre":
			if !d.active || d.skip != "" {
				return
			}
			switch {
			case subd == 1:
				// Soiltemp and the automatic sowing block ran since "evatra"
				markForeign("before-water-1", daywDiff(&d.snapG, g, &d.snapL, w, true))
			case subd == 2:
				markForeign("before-water-2", daywDiff(&d.snapG, g, &d.snapL, w, false))
				daywSeason(&d.snapG, g, zeit, &d.reset, &d.afterLater, &d.skip)
			default:
				markForeign(fmt.Sprintf("before-water-%d", subd), daywDiff(&d.snapG, g, &d.snapL, w, true))
			}
		case "water":
			if !d.active || d.skip != "" {
				return
			}
			n := g.N
			d.subs = append(d.subs, jobj{"q1": hxs(g.Q1[1 : n+1]), "qdrain": hx(g.QDRAIN)})
			d.sumQ += g.Q1[n]
			d.sumQD += g.QDRAIN
			d.snapG, d.snapL = *g, *w
		case "dayend":
			if !d.active {
				return
			}
			d.active = false
			if d.skip != "" {
				skipped[d.skip]++
				return
			}
			n := g.N
			if len(d.subs) == 1 {
				markForeign("after-water-1", daywDiff(&d.snapG, g, &d.snapL, w, false))
				daywSeason(&d.snapG, g, zeit, &d.reset, &d.afterLater, &d.skip)
				if d.skip != "" {
					skipped[d.skip]++
					return
				}
			} else if len(d.subs) > 1 {
				markForeign("after-last-water", daywDiff(&d.snapG, g, &d.snapL, w, true))
			}
			if d.foreign != "" {
				foreign[d.foreign]++
				fmt.Fprintf(stdout, "FOREIGN line=%d zeit=%d %s\n", lineNo, zeit, d.foreign)
			}
			hist[d.steps]++
			if d.reset {
				resetDays++
			}
			if d.afterLater != d.afterSow {
				akfDays++
			}
			// ---- the property on the real code: storage change = rain + irrigation - ETA - uptake - bottom flux - drain
			s1, tps := 0.0, 0.0
			for i := 0; i < n; i++ {
				s1 += g.WG[1][i] * g.DZ.Num
				tps += g.TP[i]
			}
			expect := d.s0 + (d.rain + d.irr) - g.ETA - tps - d.sumQ - d.sumQD
			resid := s1 - expect
			scale := math.Abs(d.s0) + math.Abs(d.rain+d.irr) + math.Abs(g.ETA) + math.Abs(d.sumQ) + math.Abs(tps)
			if finite(resid) {
				maxRes = math.Max(maxRes, math.Abs(resid))
			}
			if d.foreign == "" && !(math.Abs(resid) <= 1e-9*(1+scale)) {
				oracleFail("day-water-balance-full line=%d zeit=%d steps=%d wdt=%v rain=%v irrigation=%v eta=%v residual=%g", lineNo, zeit, d.steps, d.wdt, d.rain, d.irr, g.ETA, resid)
			}
			if float64(len(d.subs))*d.wdt != 1 && math.Abs(float64(len(d.subs))*d.wdt-1) > 1e-12 {
				oracleFail("substeps-cover-day-full line=%d zeit=%d steps=%d substeps-run=%d wdt=%v", lineNo, zeit, d.steps, len(d.subs), d.wdt)
			}
			// ---- the case
			isSpecial := d.steps != 1 || d.irr != 0 || d.reset || d.afterLater != d.afterSow || d.foreign != ""
			em := false
			if isSpecial && specials < special {
				specials++
				em = true
			} else if every <= 1 || r.intn(every) == 0 {
				em = true
			}
			if !em {
				return
			}
			emitted++
			d.in["after_sow"], d.in["after_sow_later"], d.in["season_reset"] = d.afterSow, d.afterLater, d.reset
			obs := jobj{
				"regen": hx(g.REGEN[g.TAG.Index]), "fluss0": hx(g.FLUSS0), "eta": hx(g.ETA), "gwauf": hx(w.GWAUF), "nfk": hxs(w.NFK[:n]),
				"steps": d.steps, "wdt": hx(d.wdt), "wg1": hxs(g.WG[1][:n+1]), "subs": d.subs, "cnt": hxs(daywCounters(g)),
				"tp": hxs(g.TP[:n]), "ev": hxs(w.EV[:n+1]),
			}
			emit(jobj{"k": "dayw", "in": d.in, "obs": obs})
		}
	}
	rr := runProject(work, splitArgs(line))
	hermes.VerifProbe = nil
	hk := []int{}
	for k := range hist {
		hk = append(hk, k)
	}
	sort.Ints(hk)
	h := jobj{}
	for _, k := range hk {
		h[fmt.Sprint(k)] = hist[k]
	}
	emit(jobj{"k": "daywrun", "line": lineNo, "success": rr.Success, "err": rr.Err, "days": days, "emitted": emitted,
		"skipped": skipped, "foreign": foreign, "hist": h, "irrigation_days": irrDays, "season_reset_days": resetDays,
		"crop_index_advanced_days": akfDays, "measurement_days": measDays, "max_abs_residual": maxRes})
}

// daywSeason: what the crop code / Nitro of sub-step 1 did to the season counters and the crop index
// since the first Water call (state a): reset = ETAG, TRAG, PERG zeroed; afterLater = "zeit > SAAT[AKF]" now
func daywSeason(a, g *hermes.GlobalVarsMain, zeit int, reset, afterLater *bool, skip *string) {
	if !daywSame(a.ETAG, g.ETAG) || !daywSame(a.TRAG, g.TRAG) || !daywSame(a.PERG, g.PERG) {
		if g.ETAG == 0 && g.TRAG == 0 && g.PERG == 0 {
			*reset = true
		} else {
			*skip = "season-counters-changed-other-than-reset"
		}
	}
	*afterLater = zeit > g.SAAT[g.AKF.Index]
}
