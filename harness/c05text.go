package main

import (
	"bytes"
	"flag"
	"go/ast"
	"go/parser"
	"go/printer"
	"go/token"
	"os"
	"path/filepath"
	"reflect"
	"sort"
	"strconv"
	"strings"
	"unsafe"

	"github.com/zalf-rpm/Hermes2Go/hermes"
)

func init() {
	commands["c05strings"] = c05stringsCmd
	commands["c05text"] = c05textCmd
}

// textFields: the string-typed fields (and string arrays) of the two structs output columns bind to
func textFields() map[string]bool {
	out := map[string]bool{}
	for _, t := range []reflect.Type{reflect.TypeOf(hermes.GlobalVarsMain{}), reflect.TypeOf(hermes.CropOutputVars{})} {
		for i := 0; i < t.NumField(); i++ {
			ft := t.Field(i).Type
			if ft.Kind() == reflect.Array || ft.Kind() == reflect.Slice {
				ft = ft.Elem()
			}
			if ft.Kind() == reflect.String && ft == reflect.TypeOf("") {
				out[t.Field(i).Name] = true
			}
		}
	}
	return out
}

// c05stringsCmd walks the source of package hermes (go/ast) and lists every assignment to a text
// field an output column can show: string literals and literal format strings of fmt.Sprintf with
// their text, anything else as "dynamic" with its source expression.  One JSON object per line.
func c05stringsCmd(args []string) {
	fs := flag.NewFlagSet("c05strings", flag.ExitOnError)
	src := fs.String("src", "", "directory of package hermes")
	fs.Parse(args)
	defer stdout.Flush()
	fields := textFields()
	fset := token.NewFileSet()
	files, _ := filepath.Glob(filepath.Join(*src, "*.go"))
	sort.Strings(files)
	parsed := map[string]*ast.File{}
	// pass 1: what is assigned to every struct field (by field name) and to every local variable (by function and name),
	// so that  notStable := fmt.Sprintf(...); g.C1NotStable = notStable  and  ln.DODAT = "----"; output.Orgdat = ln.DODAT
	// are followed to their texts
	for _, fn := range files {
		if strings.HasSuffix(fn, "_test.go") {
			continue
		}
		f, err := parser.ParseFile(fset, fn, nil, 0)
		if err != nil {
			emit(jobj{"error": err.Error(), "file": fn})
			continue
		}
		parsed[fn] = f
		for _, d := range f.Decls {
			fd, ok := d.(*ast.FuncDecl)
			if !ok || fd.Body == nil {
				continue
			}
			fname := filepath.Base(fn) + ":" + fd.Name.Name
			ast.Inspect(fd.Body, func(n ast.Node) bool {
				if x, ok := n.(*ast.AssignStmt); ok && len(x.Rhs) == len(x.Lhs) {
					for i, l := range x.Lhs {
						if id, ok := l.(*ast.Ident); ok {
							localDefs[fname+"."+id.Name] = append(localDefs[fname+"."+id.Name], x.Rhs[i])
						} else if nm := fieldName(l); nm != "" {
							fieldDefs[nm] = append(fieldDefs[nm], x.Rhs[i])
						}
					}
				}
				return true
			})
		}
	}
	for _, fn := range files {
		f := parsed[fn]
		if f == nil {
			continue
		}
		report := func(field string, rhs ast.Expr, pos token.Pos) {
			o := jobj{"field": field, "file": filepath.Base(fn), "line": fset.Position(pos).Line}
			kind, texts := classify(rhs)
			o["kind"] = kind
			o["texts"] = texts
			var buf bytes.Buffer
			printer.Fprint(&buf, fset, rhs)
			o["expr"] = buf.String()
			emit(o)
		}
		curFunc = ""
		ast.Inspect(f, func(n ast.Node) bool {
			switch x := n.(type) {
			case *ast.FuncDecl:
				curFunc = filepath.Base(fn) + ":" + x.Name.Name
			case *ast.AssignStmt:
				for i, l := range x.Lhs {
					name := fieldName(l)
					if name == "" || !fields[name] {
						continue
					}
					if len(x.Rhs) == len(x.Lhs) {
						report(name, x.Rhs[i], x.Pos())
					} else {
						emit(jobj{"field": name, "file": filepath.Base(fn), "line": fset.Position(x.Pos()).Line, "kind": "dynamic", "texts": []string{}, "expr": "(multi-value)"})
					}
				}
			case *ast.KeyValueExpr:
				if id, ok := x.Key.(*ast.Ident); ok && fields[id.Name] {
					report(id.Name, x.Value, x.Pos())
				}
			}
			return true
		})
	}
}

func fieldName(e ast.Expr) string {
	for {
		switch x := e.(type) {
		case *ast.IndexExpr:
			e = x.X
		case *ast.ParenExpr:
			e = x.X
		case *ast.SelectorExpr:
			return x.Sel.Name
		default:
			return ""
		}
	}
}

var localDefs = map[string][]ast.Expr{}
var fieldDefs = map[string][]ast.Expr{}
var curFunc string
var depth int

// follow: the texts of everything assigned to a local variable / to a struct field of that name
func follow(defs []ast.Expr) (string, []string) {
	if depth > 3 || len(defs) == 0 {
		return "dynamic", []string{}
	}
	depth++
	defer func() { depth-- }()
	kind, texts := "literal", []string{}
	for _, d := range defs {
		k, t := classify(d)
		texts = append(texts, t...)
		if k == "dynamic" || k == "mixed" {
			kind = "mixed"
		} else if k == "format" && kind == "literal" {
			kind = "format"
		}
	}
	if len(texts) == 0 {
		return "dynamic", texts
	}
	return kind, texts
}

// classify: "literal" (all text known), "format" (fmt.Sprintf with a literal format: the format text),
// "mixed" (literals concatenated with something else), "dynamic"
func classify(e ast.Expr) (string, []string) {
	switch x := e.(type) {
	case *ast.Ident:
		return follow(localDefs[curFunc+"."+x.Name])
	case *ast.SelectorExpr:
		return follow(fieldDefs[x.Sel.Name])
	case *ast.BasicLit:
		if x.Kind == token.STRING {
			s, err := strconv.Unquote(x.Value)
			if err == nil {
				return "literal", []string{s}
			}
		}
	case *ast.ParenExpr:
		return classify(x.X)
	case *ast.BinaryExpr:
		if x.Op == token.ADD {
			k1, t1 := classify(x.X)
			k2, t2 := classify(x.Y)
			k := "mixed"
			if k1 == "literal" && k2 == "literal" {
				k = "literal"
			}
			if k1 == "dynamic" && k2 == "dynamic" {
				k = "dynamic"
			}
			return k, append(t1, t2...)
		}
	case *ast.CallExpr:
		if sel, ok := x.Fun.(*ast.SelectorExpr); ok {
			if id, ok := sel.X.(*ast.Ident); ok && id.Name == "fmt" && strings.HasPrefix(sel.Sel.Name, "Sprint") && len(x.Args) > 0 {
				if k, t := classify(x.Args[0]); k == "literal" {
					return "format", t
				}
			}
		}
	}
	return "dynamic", []string{}
}

// c05textCmd produces the one text a run can put into a text column that none of the example runs ever shows:
// the instability flag of the nitrate transport.  It calls the real hermes.Nitro on a state with a strong water
// front through an N-rich top layer (every field set is exported), then writes one record with every given
// output configuration in the CSV style through the real WriteLine and prints the lines.
func c05textCmd(args []string) {
	fs := flag.NewFlagSet("c05text", flag.ExitOnError)
	examples := fs.String("examples", "", "examples directory")
	outDir := fs.String("out", "", "scratch directory")
	fs.Parse(args)
	defer stdout.Flush()
	session := hermes.NewHermesSession()
	defer session.Close()
	g := hermes.NewGlobalVarsMain()
	g.Session = session
	g.Kalender = hermes.KalenderConverter(hermes.DateDElong, ".")
	g.Datum = hermes.DateConverter(50, hermes.DateDElong)
	g.N = 20
	g.IZM = 0
	g.OUTN = 15
	g.DRAIDEP = 0
	fill := func(a []float64, v float64) {
		for i := range a {
			a[i] = v
		}
	}
	fill(g.W[:], 0.30)
	fill(g.WMIN[:], 0.10)
	fill(g.WNOR[:], 0.30)
	fill(g.PORGES[:], 0.45)
	fill(g.WG[0][:], 0.25)
	fill(g.AD[:], 0.002)
	fill(g.C1[:], 5)
	g.C1[0] = 80
	g.FLUSS0 = 6
	fill(g.Q1[:], 6)
	var cropOut hermes.CropOutputVars
	var ns hermes.NitroSharedVars
	var nb hermes.NitroBBBSharedVars
	hPath := hermes.NewHermesFilePath(*examples, "ex3", "x", "", "")
	zeit := 40000
	g.AKTUELL = g.Kalender(zeit)
	_, err := hermes.Nitro(1, 1, zeit, &g, &ns, &nb, &hPath, &cropOut)
	o := jobj{"C1NotStable": g.C1NotStable, "C1NotStableErr": g.C1NotStableErr}
	if err != nil {
		o["err"] = err.Error()
	}
	cropOut.NotStableErr = g.C1NotStableErr // what the harvest branch of Nitro copies into the crop record
	recs := []jobj{}
	write := func(name string, conf hermes.OutputConfig) {
		// the style is an unexported field run.go sets from ResultFileFormat: 1 = CSV
		f := reflect.ValueOf(&conf).Elem().FieldByName("formatType")
		reflect.NewAt(f.Type(), unsafe.Pointer(f.UnsafeAddr())).Elem().SetInt(1)
		p := filepath.Join(*outDir, strings.NewReplacer("/", "_", ":", "_").Replace(name)+".csv")
		w := session.OpenResultFile(p, false)
		werr := conf.WriteLine(w)
		w.Close()
		data, _ := os.ReadFile(p)
		r := jobj{"config": name, "ncols": len(conf.DataColumns), "line": string(data), "sep": conf.SeperatorCharacter}
		if werr != nil {
			r["err"] = werr.Error()
		}
		recs = append(recs, r)
	}
	loadAndWrite := func(name, path string, ref interface{}) {
		conf, err := hermes.LoadHermesOutputConfig(path, ref, session)
		if err != nil {
			recs = append(recs, jobj{"config": name, "err": err.Error()})
			return
		}
		write(name, conf)
	}
	// the built-in configurations go through their yml form like in a first run of a project
	for _, d := range []struct {
		name string
		conf hermes.OutputConfig
		ref  interface{}
	}{{"default:daily", hermes.NewDefaultDailyOutputConfig(&g), &g}, {"default:yearly", hermes.NewDefaultOutputConfigYearly(&g), &g},
		{"default:crop", hermes.NewDefaultCropOutputConfig(&cropOut), &cropOut}} {
		p := filepath.Join(*outDir, strings.Replace(d.name, ":", "_", 1)+".yml")
		session.WriteYamlConfig(p, d.conf)
		loadAndWrite(d.name, p, d.ref)
	}
	files, _ := filepath.Glob(filepath.Join(*examples, "project", "*", "*out_conf.yml"))
	sort.Strings(files)
	for _, f := range files {
		base := filepath.Base(f)
		if strings.HasPrefix(base, "management") {
			continue
		}
		var ref interface{} = &g
		if strings.Contains(base, "cropout") {
			ref = &cropOut
		}
		loadAndWrite("shipped:"+rel(f, filepath.Join(*examples, "project")), f, ref)
	}
	o["records"] = recs
	emit(o)
}
