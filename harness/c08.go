package main

import (
	"bufio"
	"flag"
	"fmt"
	"math"
	"os"

	"github.com/zalf-rpm/Hermes2Go/hermes"
)

// c08: property C08 (actual ET <= potential ET, uptake only from rooted layers above the groundwater).
// hermes.Evatra is run on a COPY of a pre-state with VERDUNST = ETC0 = 0, so that VERDUNST after the
// call is exactly the day's capped potential ET (VERDU*DT, DT = 1).  Emits
//
//	{"k":"evatra","in":{...},"out":{...}}   inputs of EvatraModel.evatra_struct and the observed outputs
//	{"k":"c08run",...}                      per traced batch line
//
// plus ORACLE lines (the property on the real code) and HARNESS lines (bookkeeping problems).
func init() { commands["c08"] = c08 }

var c08Emit = true
var c08Edge = ""

func harnessNote(format string, a ...interface{}) {
	fmt.Fprintf(stdout, "HARNESS "+format+"\n", a...)
}

// the crop-branch condition of water.go:132 and 523
func cropBranch(g *hermes.GlobalVarsMain, zeit int) bool {
	a := g.AKF.Index
	return zeit > g.SAAT[a] && g.INTWICK.Num > 1 &&
		((g.ERNTE[a] > 0 && zeit < g.ERNTE[a]) || (g.ERNTE[a] == 0 && zeit < g.ERNTE2[a]))
}

type c08Result struct {
	ok     bool
	precap float64
	verdu  float64
	crop   bool
	g      hermes.GlobalVarsMain
	l      hermes.WaterSharedVars
}

// evatraCase replays hermes.Evatra on a copy of the pre-state (gpre, lpre are not modified), emits the
// case (when emitCase) and evaluates the property on the result.
func evatraCase(tag string, gpre *hermes.GlobalVarsMain, lpre *hermes.WaterSharedVars, zeit int, emitCase bool, extra jobj) c08Result {
	g, l := *gpre, *lpre
	res := c08Result{}
	if g.DT.Num != 1 || g.DT.Index != 1 || g.DZ.Num != 10 {
		harnessNote("dt-or-dz-not-default tag=%s zeit=%d dt=%v dz=%v", tag, zeit, g.DT.Num, g.DZ.Num)
		return res
	}
	if zeit == g.SAAT[g.AKF.Index] && g.ETMETH == 1 {
		return res // verdun would read the Haude factor file through hPath
	}
	n := g.N
	crop := cropBranch(&g, zeit)
	if n < 3 || (crop && g.WURZ > n) {
		harnessNote("outside-model-domain tag=%s zeit=%d n=%d wurz=%d", tag, zeit, n, g.WURZ)
		return res
	}
	g.VERDUNST, g.ETC0 = 0, 0
	lai := g.LAI
	// method 5 (reference ET read from the weather file): the uncapped value is one product
	uncapped, haveUncapped := 0.0, false
	if g.ETMETH == 5 {
		haveUncapped = true
		if crop {
			uncapped = g.ETNULL[g.TAG.Index] * g.FKC * .1
		} else {
			uncapped = g.ETNULL[g.TAG.Index] * g.FKB * .1
		}
	}
	prop := g.PROP
	in := jobj{
		"tag": tag, "n": n, "crop": crop, "meth": g.ETMETH, "zeit": zeit,
		"regen": hx(g.REGEN[g.TAG.Index]), "wurz": g.WURZ, "wudich": hxs(g.WUDICH[:n]), "grw": hx(g.GRW),
		"lumday": g.LUMDAY, "lured": hx(g.LURED), "etrel": hx(g.ETREL), "trrel": hx(g.TRREL),
		"wmin": hxs(g.WMIN[:n]), "w": hxs(g.W[:n]), "wnor": hxs(g.WNOR[:n]), "porges": hxs(g.PORGES[:n]),
	}
	lukrit := 0.0
	if crop {
		lukrit = g.LUKRIT[g.INTWICK.Index]
	} else {
		in["wurz"] = 0
	}
	in["lukrit"] = hx(lukrit)
	for k, v := range extra {
		in[k] = v
	}
	// shadow of the potential-ET part on a second copy: oracle table and the value before the cap
	gs, ls := *gpre, *lpre
	var orc orcRec
	precap, shCapped := shEt0(&orc, &ls, &gs, zeit)
	t := g.TAG.Index
	et0in := jobj{
		"tag": tag, "crop": crop, "meth": g.ETMETH, "day": int(g.TAG.Num), "zeit": zeit,
		"lat": hx(g.LAT), "alti": hx(g.ALTI), "kcoa": hx(g.KCOA), "fkc": hx(g.FKC), "fkb": hx(g.FKB),
		"fkf": hxs(g.FKF[:]), "fku": hxs(g.FKU[:]), "verd": hx(g.VERD[t]), "temp": hx(g.TEMP[t]), "tmin": hx(g.TMIN[t]),
		"tmax": hx(g.TMAX[t]), "rad": hx(g.RAD[t]), "sund": hx(g.SUND[t]), "rh": hx(g.RH[t]), "wind": hx(g.WIND[t]),
		"windhi": hx(g.WINDHI), "etnull": hx(g.ETNULL[t]), "ctrans": g.CTRANS, "co2meth": g.CO2METH, "co2konz": hx(g.CO2KONZ),
		"mintmp": hx(g.MINTMP), "alph": hx(g.ALPH), "satbeta": hx(g.SATBETA), "radsum": hx(g.RADSUM), "rstom": hx(g.RSTOM),
		"et0": hx(g.ET0), "satdef": hx(l.SATDEF),
	}
	hermes.Evatra(&l, &g, nil, zeit)
	verdu := g.VERDUNST
	if g.ETC0 != verdu {
		harnessNote("verdunst-etc0-differ tag=%s zeit=%d", tag, zeit)
	}
	same := func(a, b float64) bool { return a == b || (a != a && b != b) }
	if !(same(shCapped, verdu) && same(gs.ET0, g.ET0) && same(ls.SATDEF, l.SATDEF) && same(gs.RSTOM, g.RSTOM) &&
		same(gs.WIND[t], g.WIND[t]) && same(gs.SUND[t], g.SUND[t]) && same(gs.FKC, g.FKC) && same(gs.RADSUM, g.RADSUM)) {
		harnessNote("shadow-differs tag=%s zeit=%d meth=%d shadow=%v real=%v", tag, zeit, g.ETMETH, shCapped, verdu)
	}
	res.precap = precap
	if emitCase && c08Emit {
		seen := map[orcCall]bool{}
		tab := [][]interface{}{}
		for _, c := range orc.calls {
			key := orcCall{c.kind, c.a, c.b, 0}
			if c.a != c.a {
				key.a = 0
				key.kind += 100
			}
			if seen[key] {
				continue
			}
			seen[key] = true
			tab = append(tab, []interface{}{c.kind, hx(c.a), hx(c.b), hx(c.v)})
		}
		emit(jobj{"k": "et0", "in": et0in, "tab": tab, "out": jobj{
			"precap": hx(precap), "et0": hx(g.ET0), "satdef": hx(l.SATDEF), "rstom": hx(g.RSTOM), "wind": hx(g.WIND[t]),
			"sund": hx(g.SUND[t]), "fkc": hx(g.FKC), "radsum": hx(g.RADSUM), "capped": hx(verdu)}})
	}
	in["verdu"] = hx(verdu)
	in["elai"] = hx(math.Exp(-.5 * lai))
	expw := make([]float64, n)
	for i := 0; i < n; i++ {
		expw[i] = math.Exp(-prop * .1 * (float64((i+1)*10) - g.DZ.Num/2))
	}
	in["expw"] = hxs(expw)
	in["wg0"] = hxs(g.WG[0][:n])
	out := jobj{
		"nfk": hxs(l.NFK[:n]), "eva": hx(l.EVA[g.TAG.Index]), "eta": hx(g.ETA), "ev": hxs(l.EV[:n]), "fluss0": hx(g.FLUSS0),
		"lumday": g.LUMDAY, "lured": hx(g.LURED), "tp": hxs(g.TP[:n]), "gwauf": hx(l.GWAUF),
		"etrel": hx(g.ETREL), "trrel": hx(g.TRREL), "wurz": g.WURZ,
	}
	if emitCase && c08Emit {
		emit(jobj{"k": "evatra", "in": in, "out": out})
		if haveUncapped {
			emit(jobj{"k": "cap", "crop": crop, "v": hx(uncapped), "r": hx(verdu)})
		}
	}
	res.ok, res.verdu, res.crop, res.g, res.l = true, verdu, crop, g, l
	return res
}

// c08Oracle: the property on a post-Evatra state of the real code; verdu = the day's capped potential ET
func c08Oracle(where string, g *hermes.GlobalVarsMain, l *hermes.WaterSharedVars, verdu float64, crop bool) {
	c08Et0Oracle(where, g, verdu, crop)
	n := g.N
	cap := 0.6
	if crop {
		cap = 0.65
	}
	if !(verdu >= 0) {
		oracleFail("pet-negative %s verdu=%v", where, verdu)
	}
	if !(verdu <= cap) {
		oracleFail("pet-above-cap %s verdu=%v cap=%v", where, verdu, cap)
	}
	// ETA = EVMAX*REDEV: REDEV is 0 in exact arithmetic at PROZ = 0 but -0x1p-57 at binary64
	// (.05 - .05*.2/.2): R->F gap, tolerance 1e-12
	if !(g.ETA >= -1e-12) {
		oracleFail("eta-negative %s eta=%v", where, g.ETA)
	}
	sum := 0.0
	for i := 0; i < n; i++ {
		tp := g.TP[i]
		if !(tp >= 0) {
			oracleFail("tp-negative %s layer=%d tp=%v", where, i+1, tp)
		}
		sum += tp
		if float64(i+1) > float64(g.WURZ) && tp != 0 {
			oracleFail("uptake-below-roots %s layer=%d wurz=%d tp=%v", where, i+1, g.WURZ, tp)
		} else if float64(i+1) > g.GRW && tp != 0 {
			oracleFail("uptake-below-groundwater %s layer=%d grw=%v tp=%v", where, i+1, g.GRW, tp)
		}
	}
	// what leaves the soil through the surface as evaporation (EVA = ETA - rain, distributed over the layers as EV; FLUSS0 = -EVA)
	// is at most the actual evaporation ETA: needs a non-negative rain + irrigation amount
	rain := g.REGEN[g.TAG.Index]
	if !(rain >= 0 && finite(rain)) {
		oracleFail("rain-negative-or-not-finite %s regen=%v", where, rain)
	}
	sumEV := 0.0
	for i := 0; i < n; i++ {
		if !(l.EV[i] >= 0) {
			oracleFail("ev-negative %s layer=%d ev=%v", where, i+1, l.EV[i])
		}
		sumEV += l.EV[i]
	}
	if !(sumEV <= math.Max(g.ETA, 0)+1e-12) || !(-g.FLUSS0 <= math.Max(g.ETA, 0)+1e-12) {
		oracleFail("soil-evaporation-above-actual-evaporation %s sum-ev=%v surface-flux=%v eta=%v verdu=%v regen=%v", where, sumEV, g.FLUSS0, g.ETA, verdu, rain)
	}
	if !(g.ETA+sum <= verdu+1e-12) {
		oracleFail("aet-above-pet %s eta=%v sumtp=%v verdu=%v excess=%g", where, g.ETA, sum, verdu, g.ETA+sum-verdu)
	}
	// ETREL = (TPAKT+ETA)/ETCP inherits the round-off of ETA at PROZ = 0 (about -7e-18): tolerance 1e-12 below 0;
	// the upper end is clamped by the code (exact)
	if !(g.ETREL >= -1e-12 && g.ETREL <= 1) {
		oracleFail("etrel-outside-0-1 %s etrel=%v", where, g.ETREL)
	}
	// TRREL = TPAKT/TRAMAX is not clamped by the code: <= 1 in exact arithmetic, observed up to an ulp
	// above 1 at binary64 (R->F gap, tolerance 1e-9)
	if !(g.TRREL >= 0 && g.TRREL <= 1+1e-9) {
		oracleFail("trrel-outside-0-1 %s trrel=%v", where, g.TRREL)
	}
}

// the potential ET the day ends up with is finite and inside [0, cap]; the reference ET of Penman-Monteith and
// Priestley-Taylor (g.ET0, after the code's own floor) is finite and non-negative
func c08Et0Oracle(where string, g *hermes.GlobalVarsMain, verdu float64, crop bool) {
	if !finite(verdu) {
		oracleFail("pet-not-finite %s verdu=%v", where, verdu)
	}
	if (g.ETMETH == 3 || g.ETMETH == 4) && !(finite(g.ET0) && g.ET0 >= 0) {
		oracleFail("et0-negative-or-not-finite %s et0=%v", where, g.ET0)
	}
}

// every ET method on the same pre-state: replays the real Evatra with ETMETH = 1..5
func c08AllMethods(where string, gpre *hermes.GlobalVarsMain, lpre *hermes.WaterSharedVars, zeit int) {
	for m := 1; m <= 5; m++ {
		if m == gpre.ETMETH || (m == 1 && zeit == gpre.SAAT[gpre.AKF.Index]) {
			continue
		}
		g, l := *gpre, *lpre
		g.ETMETH = m
		g.VERDUNST, g.ETC0 = 0, 0
		crop := cropBranch(&g, zeit)
		hermes.Evatra(&l, &g, nil, zeit)
		w := fmt.Sprintf("%s as-meth=%d", where, m)
		c08Et0Oracle(w, &g, g.VERDUNST, crop)
		cap := 0.6
		if crop {
			cap = 0.65
		}
		if !(g.VERDUNST >= 0 && g.VERDUNST <= cap) {
			oracleFail("pet-outside-0-cap %s verdu=%v cap=%v", w, g.VERDUNST, cap)
		}
		if !(g.ETA >= -1e-12) || !(g.ETREL >= -1e-12 && g.ETREL <= 1) || !(g.TRREL >= 0 && g.TRREL <= 1+1e-9) {
			oracleFail("aet-or-ratio-outside-range %s eta=%v etrel=%v trrel=%v", w, g.ETA, g.ETREL, g.TRREL)
		}
	}
}

// after the first Water sub-step: the clamped uptake is at most the plant-available water
func c08UptakeAvail(where string, g *hermes.GlobalVarsMain, wg0 []float64) {
	for i := 0; i < g.N; i++ {
		avail := math.Max(0, (wg0[i]-g.WMIN[i])*g.DZ.Num)
		if !(g.TP[i] <= avail+1e-12) {
			oracleFail("uptake-above-available %s layer=%d tp=%v available=%v", where, i+1, g.TP[i], avail)
		}
		if !(g.TP[i] >= 0) {
			oracleFail("tp-negative-after-water %s layer=%d tp=%v", where, i+1, g.TP[i])
		}
	}
}

var c08Lats = []float64{-89.5, -80, -66.6, -45, -23.4, 0, 23.4, 40, 52.5, 60, 66.6, 70, 80, 85, 89.9}

func synthEvatra(r *rng, idx int) {
	g := hermes.NewGlobalVarsMain()
	var l hermes.WaterSharedVars
	p := genProfile(r)
	for p.N < 3 {
		p = genProfile(r)
	}
	n := p.N
	g.N = n
	copy(g.W[:], p.W)
	copy(g.WMIN[:], p.WMIN)
	copy(g.PORGES[:], p.PORGES)
	copy(g.WNOR[:], p.WNOR)
	if r.chance(0.3) { // groundwater-modified field capacity differs from the norm value
		for i := n / 2; i < n; i++ {
			g.W[i] = p.PORGES[i]
		}
	}
	g.OUTN = n
	g.AKF.SetByIndex(0)
	g.SAAT[0] = 100
	if r.chance(0.5) {
		g.ERNTE[0] = 300
	} else {
		g.ERNTE[0], g.ERNTE2[0] = 0, 300
	}
	zeit := 101 + r.intn(220)
	switch r.intn(6) {
	case 0:
		zeit = 50 + r.intn(50) // before sowing
	case 1:
		zeit = 300 + r.intn(30) // after harvest
	}
	g.BEGINN = 10
	if r.chance(0.1) {
		g.BEGINN = zeit // first day: no start-of-day copy
	}
	g.INTWICK.SetByIndex(r.intn(6))
	day := 1 + r.intn(366)
	g.TAG.SetByIndex(day - 1)
	t := g.TAG.Index
	g.ETMETH = 1 + idx%5
	// weather
	g.TEMP[t] = r.between(-35, 42)
	if r.chance(0.1) {
		g.TEMP[t] = r.between(-60, -22)
	}
	g.TMIN[t] = g.TEMP[t] - r.between(0, 10)
	g.TMAX[t] = g.TEMP[t] + r.between(0, 12)
	if r.chance(0.45) {
		g.RAD[t] = 0
		g.SUND[t] = r.between(0, 18)
		if r.chance(0.2) {
			g.SUND[t] = 0
		}
	} else {
		g.RAD[t] = r.between(0.05, 16)
	}
	g.RH[t] = r.between(15, 100)
	g.VERD[t] = r.between(0, 40)
	g.WIND[t] = r.between(0, 12)
	if r.chance(0.12) {
		g.RH[t] = 100 // saturation deficit 0
	}
	if r.chance(0.1) {
		g.VERD[t] = 0
	}
	if r.chance(0.12) {
		g.WIND[t] = 0
	}
	g.ETNULL[t] = r.between(0, 14)
	if r.chance(0.1) {
		g.ETNULL[t] = -r.between(0, 3)
	}
	switch r.intn(4) {
	case 0:
		g.REGEN[t] = 0
	case 1:
		g.REGEN[t] = r.between(0, 0.3)
	case 2:
		g.REGEN[t] = r.between(0, 3)
	default:
		g.REGEN[t] = math.Round(r.between(0, 12)*100) / 100
	}
	g.LAT = c08Lats[r.intn(len(c08Lats))]
	if r.chance(0.3) {
		g.LAT = r.between(-89, 89)
	}
	g.ALTI = r.between(0, 2500)
	g.KCOA = r.between(0, 1.2)
	g.FKC = r.between(0.2, 1.5)
	g.FKB = r.between(0.2, 1.1)
	for i := 0; i < 12; i++ {
		g.FKF[i] = r.between(0.05, 0.5)
		g.FKU[i] = r.between(0.05, 0.4)
	}
	if r.chance(0.4) {
		g.WINDHI = 10
	}
	g.CTRANS = r.chance(0.5)
	g.CO2METH = r.intn(3)
	g.CO2KONZ = r.between(280, 800)
	g.MINTMP = r.between(0, 6)
	g.PROP = []float64{0.1, 0.3, 0.4, 0.6}[r.intn(4)]
	// crop state
	g.LAI = r.between(0, 8)
	if r.chance(0.15) {
		g.LAI = 0
	}
	g.WURZ = r.intn(n + 1)
	if r.chance(0.3) {
		g.WURZ = n
	}
	for i := 0; i < 21; i++ {
		g.WUDICH[i] = 0
	}
	for i := 0; i < g.WURZ; i++ {
		g.WUDICH[i] = r.between(0, 4) * math.Exp(-0.2*float64(i))
		if r.chance(0.1) {
			g.WUDICH[i] = 0
		}
	}
	if r.chance(0.2) { // stale densities below the current root depth (root depth shrank)
		for i := g.WURZ; i < n; i++ {
			g.WUDICH[i] = r.between(0, 0.5)
		}
	}
	g.GRW = float64(1 + r.intn(30))
	switch r.intn(4) {
	case 0:
		g.GRW = r.between(0.5, 25)
	case 1:
		g.GRW = float64(1 + r.intn(n))
	}
	for i := 0; i < 10; i++ {
		g.LUKRIT[i] = math.Round(r.between(0.02, 0.14)*100) / 100
	}
	g.LUMDAY = r.intn(5)
	g.LURED = r.float()
	g.ETREL, g.TRREL = r.float(), r.float()
	// water contents: regimes (WG[1] is the state the day starts from)
	regime := r.intn(6)
	for i := 0; i < n; i++ {
		var wg float64
		switch regime {
		case 0:
			wg = g.W[i] * r.between(0.9, 1.05)
		case 1:
			wg = p.WMIN[i] * r.between(0.25, 1.3)
		case 2:
			wg = r.between(p.WMIN[i]/3, p.PORGES[i])
		case 3:
			if i > n/2 {
				wg = g.W[i]
			} else {
				wg = r.between(p.WMIN[i]/3, g.W[i])
			}
		case 4: // around the NFK break points
			nf := []float64{0.0, 0.1, 0.15, 0.2, 0.3, 0.4, 0.5, 0.6, 0.75, 0.9}[r.intn(10)] + r.between(-0.02, 0.02)
			wg = p.WMIN[i] + nf*(p.WNOR[i]-p.WMIN[i])
		default: // nearly saturated top soil: air shortage
			wg = p.PORGES[i] - r.between(0, 0.06)
		}
		g.WG[1][i] = wg
		g.WG[0][i] = r.between(0, 0.5)
		if g.BEGINN == zeit {
			g.WG[0][i] = wg
		}
		g.TP[i] = r.between(0, 0.05)
		l.EV[i] = r.between(0, 0.05)
		l.NFK[i] = r.float()
	}
	g.WG[1][n] = g.WG[1][n-1]
	// regression F27: the shipped potato (examples/parameter/PARAM.K.yml) has LUKRIT = 0 in every stage; with the top
	// soil above its pore volume (field capacity above pore volume, F13) LURMAX was 0/0
	if c08Edge == "lukrit0" || idx%10 == 7 {
		for i := 0; i < 10; i++ {
			g.LUKRIT[i] = 0
		}
		if c08Edge == "lukrit0" || r.chance(0.7) {
			for i := 0; i < 3; i++ {
				g.WG[1][i] = g.PORGES[i] + 0.01
				if g.BEGINN == zeit {
					g.WG[0][i] = g.WG[1][i]
				}
			}
		}
	}
	switch c08Edge {
	case "wudichneg": // investigation only: outside the theorems' hypotheses
		if g.WURZ > 1 {
			g.WUDICH[g.WURZ-1] = -0.3
		}
	}
	where := fmt.Sprintf("synth idx=%d meth=%d", idx, g.ETMETH)
	res := evatraCase("synth", &g, &l, zeit, true, jobj{"lat": g.LAT, "day": day, "rad0": g.RAD[t] == 0})
	if !res.ok {
		return
	}
	c08Oracle(where, &res.g, &res.l, res.verdu, res.crop)
	// first Water sub-step of the day on the resulting state: the uptake clamp
	gg, ll := res.g, res.l
	wg0 := make([]float64, n)
	copy(wg0, gg.WG[0][:n])
	hermes.Water(1, 1, zeit, &gg, &ll)
	c08UptakeAvail(where, &gg, wg0)
}

// c08Trace runs one batch line in-process with the day-loop probe: Evatra is replayed on a copy of the
// "evatra-pre" state to obtain the day's potential ET exactly; the replay must agree with the real day.
func c08Trace(work, line string, lineNo int, r *rng, every int) {
	var pre struct {
		g  hermes.GlobalVarsMain
		l  hermes.WaterSharedVars
		ok bool
	}
	var wgStart [21]float64
	days, replayed, emitted, cropDays, skipped := 0, 0, 0, 0, 0
	// the day: what the Water sub-steps book as actual ET (PFTRANS, ETAG after sowing, TRAY) against the day's potential ET
	var day struct {
		ok                         bool
		verdu                      float64
		booked, sumWdt             float64
		gainPF, gainETAG, gainTRAY float64
		pf0, etag0, tray0          float64
		steps                      int
		zsr                        float64
		overflow                   bool
	}
	multiStepDays, overflowDays, fracDays, fracHighDays, dayChecked := 0, 0, 0, 0, 0
	// the season: ETC0 (potential) is zeroed at sowing, ETAG/TRAG (actual ET / transpiration booked by Water) at sowing and
	// at harvest; Nitro copies the three into the crop record at harvest
	var npre struct {
		akf              int
		etc0, etag, trag float64
	}
	harvests, fallowHarvests, negEtnullDays := 0, 0, 0
	lastHarvestZeit := -1
	maxBookedShare := 0.0
	// hypotheses of the theorems (Prop_C08.evatra_wf) observed on the real states
	hypBad, lukritZeroDays, lukritZeroWetDays, maxWurz20 := 0, 0, 0, 0
	minLupor := math.Inf(1)
	hermes.VerifProbe = func(stage string, zeit, subd int, wdt float64, g *hermes.GlobalVarsMain, w *hermes.WaterSharedVars, n *hermes.NitroSharedVars) {
		switch stage {
		case "evatra-pre":
			pre.g, pre.l, pre.ok = *g, *w, true
		case "evatra":
			days++
			wgStart = g.WG[0]
			if !pre.ok {
				return
			}
			pre.ok = false
			hypBad += c08Hypotheses(fmt.Sprintf("trace line=%d zeit=%d meth=%d", lineNo, zeit, g.ETMETH), &pre.g, g, cropBranch(&pre.g, zeit))
			em := every <= 1 || r.intn(every) == 0
			if pre.g.ETMETH == 5 && pre.g.ETNULL[pre.g.TAG.Index] < 0 { // a negative reference ET reaches the floor: always in the tie
				negEtnullDays++
				em = true
			}
			res := evatraCase("trace", &pre.g, &pre.l, zeit, em, jobj{"line": lineNo})
			where := fmt.Sprintf("trace line=%d zeit=%d meth=%d", lineNo, zeit, g.ETMETH)
			if !res.ok {
				skipped++
				return
			}
			replayed++
			if em {
				emitted++
			}
			if res.crop {
				cropDays++
				if g.N == 20 && pre.g.WURZ > maxWurz20 {
					maxWurz20 = pre.g.WURZ
				}
				lukrit := pre.g.LUKRIT[pre.g.INTWICK.Index]
				lupor := (g.PORGES[0] + g.PORGES[1] + g.PORGES[2] - g.WG[0][0] - g.WG[0][1] - g.WG[0][2]) / 3
				minLupor = math.Min(minLupor, lupor)
				if lukrit == 0 {
					lukritZeroDays++
				}
				if !(lukrit > 0) && lupor < lukrit {
					lukritZeroWetDays++
				}
			}
			// the replay is the real day
			same := res.g.ETA == g.ETA && res.g.FLUSS0 == g.FLUSS0 && res.g.TRREL == g.TRREL && res.g.ETREL == g.ETREL && res.g.TP == g.TP && res.g.WURZ == g.WURZ
			if !same && finite(g.ETA, g.FLUSS0, g.TRREL, g.ETREL) {
				harnessNote("replay-differs-from-run %s", where)
			}
			c08Oracle(where, g, w, res.verdu, res.crop)
			c08AllMethods(where, &pre.g, &pre.l, zeit)
			day.ok, day.verdu = true, res.verdu
			day.zsr, day.overflow = c08Zsr(g)
		case "steps":
			day.steps = subd
		case "water-pre":
			day.pf0, day.etag0, day.tray0 = g.PFTRANS, g.ETAG, g.TRAY
		case "water":
			if subd == 1 {
				c08UptakeAvail(fmt.Sprintf("trace line=%d zeit=%d", lineNo, zeit), g, wgStart[:g.N])
			}
			sum := 0.0
			for i := 0; i < g.N; i++ {
				sum += g.TP[i]
			}
			day.booked += (g.ETA + sum) * wdt
			day.sumWdt += wdt
			day.gainPF += g.PFTRANS - day.pf0
			day.gainETAG += g.ETAG - day.etag0
			day.gainTRAY += g.TRAY - day.tray0
		case "nitro-pre":
			npre.akf, npre.etc0, npre.etag, npre.trag = g.AKF.Index, g.ETC0, g.ETAG, g.TRAG
		case "nitro":
			if g.AKF.Index > npre.akf && npre.akf >= 1 { // harvest of a real crop: the values Nitro has just written to the crop record
				harvests++
				a := npre.akf
				if lastHarvestZeit >= 0 && g.SAAT[a]-lastHarvestZeit > 1 {
					fallowHarvests++
				}
				lastHarvestZeit = zeit
				tol := 1e-9 * (1 + math.Abs(npre.etc0))
				if !(npre.trag >= -tol && npre.trag <= npre.etag+tol && npre.etag <= npre.etc0+tol && finite(npre.etc0, npre.etag, npre.trag)) {
					oracleFail("season-aet-above-pet trace line=%d zeit=%d crop-index=%d sown=%d TraG=%v ETaG=%v ETcG=%v (cm) excess=%g",
						lineNo, zeit, a, g.SAAT[a], npre.trag, npre.etag, npre.etc0, npre.etag-npre.etc0)
				}
			}
		case "dayend":
			if day.ok {
				dayChecked++
				if day.steps > 1 {
					multiStepDays++
				}
				if day.overflow {
					overflowDays++
					if fr := day.zsr - math.Floor(day.zsr); fr > 0 {
						fracDays++
						if fr >= 0.5 {
							fracHighDays++
						}
					}
				}
				where := fmt.Sprintf("trace line=%d zeit=%d meth=%d", lineNo, zeit, g.ETMETH)
				tol := 1e-9 * (1 + math.Abs(g.PFTRANS) + math.Abs(g.ETAG) + math.Abs(g.TRAY))
				if !(day.booked <= day.verdu+tol) || !(day.gainPF <= day.verdu+tol) || !(day.gainETAG <= day.verdu+tol) || !(day.gainTRAY <= day.verdu+tol) {
					oracleFail("booked-aet-above-pet %s steps=%d sumwdt=%v zsr=%v booked=%v pftrans-gain=%v etag-gain=%v tray-gain=%v verdu=%v excess=%g",
						where, day.steps, day.sumWdt, day.zsr, day.booked, day.gainPF, day.gainETAG, day.gainTRAY, day.verdu, math.Max(day.booked, day.gainPF)-day.verdu)
				}
				if day.verdu > 0 {
					maxBookedShare = math.Max(maxBookedShare, day.booked/day.verdu)
				}
			}
			day.ok, day.booked, day.sumWdt, day.gainPF, day.gainETAG, day.gainTRAY, day.steps = false, 0, 0, 0, 0, 0, 0
		}
	}
	rr := runProject(work, splitArgs(line))
	hermes.VerifProbe = nil
	emit(jobj{"k": "c08run", "line": lineNo, "success": rr.Success, "err": rr.Err, "days": days, "replayed": replayed,
		"emitted": emitted, "crop_days": cropDays, "skipped": skipped,
		"negative_reference_et_days": negEtnullDays, "harvests": harvests, "harvests_after_a_fallow": fallowHarvests, "hyp_violations": hypBad, "max_wurz_20_layer_profiles": maxWurz20,
		"day_checked": dayChecked, "multi_step_days": multiStepDays, "rain_overflow_days": overflowDays,
		"rain_overflow_fractional_zsr_days": fracDays, "rain_overflow_zsr_fraction_ge_half_days": fracHighDays,
		"max_booked_share_of_pet": finiteOrNil(maxBookedShare),
		"lukrit_zero_days":        lukritZeroDays, "lukrit_zero_topsoil_above_pore_volume_days": lukritZeroWetDays, "min_lupor": finiteOrNil(minLupor)})
}

// c08Hypotheses: the hypotheses of the theorems (Prop_C08.evatra_wf) evaluated on a real pre-Evatra state; every test is
// written as !(ok) so that a NaN fails it.  gpost = the state after Evatra (WG[0] after the start-of-day copy).
func c08Hypotheses(where string, gpre, gpost *hermes.GlobalVarsMain, crop bool) int {
	bad := 0
	fail := func(format string, a ...interface{}) {
		bad++
		oracleFail("hypothesis-violated %s "+format, append([]interface{}{where}, a...)...)
	}
	if !(gpost.W[0] > gpost.WMIN[0]/3) || !finite(gpost.W[0], gpost.WMIN[0]) {
		fail("what=top-layer-field-capacity-not-above-dryness-limit w=%v wmin=%v", gpost.W[0], gpost.WMIN[0])
	}
	for i := 0; i < gpost.N; i++ {
		if !finite(gpost.WG[0][i], gpost.WMIN[i], gpost.W[i], gpost.WNOR[i], gpost.PORGES[i]) {
			fail("what=soil-state-not-finite layer=%d", i+1)
			break
		}
	}
	if !(finite(gpre.GRW)) {
		fail("what=groundwater-level-not-finite grw=%v", gpre.GRW)
	}
	if crop {
		for i := 0; i < gpre.N; i++ {
			if !(gpre.WUDICH[i] >= 0 && finite(gpre.WUDICH[i])) {
				fail("what=root-density-negative-or-not-finite layer=%d wudich=%v wurz=%d", i+1, gpre.WUDICH[i], gpre.WURZ)
				break
			}
		}
		if !(gpre.LAI >= 0 && finite(gpre.LAI)) { // 0 < exp(-LAI/2) <= 1
			fail("what=lai-negative-or-not-finite lai=%v", gpre.LAI)
		}
		if !(gpre.LUMDAY >= 0) {
			fail("what=air-shortage-days-negative lumday=%d", gpre.LUMDAY)
		}
		if !(gpre.WURZ >= 0 && gpre.WURZ <= gpre.N) {
			fail("what=root-depth-outside-profile wurz=%d n=%d", gpre.WURZ, gpre.N)
		}
	}
	return bad
}

// c08Zsr mirrors the sub-step demand of the day loop (run.go:499-527) on the post-Evatra state: the value of ZSR and
// whether it comes from the rain-overflow branch (rain above the cumulated free storage) rather than from the
// surface-flux classes 1, 2, 4, 8
func c08Zsr(g *hermes.GlobalVarsMain) (float64, bool) {
	pri := math.Abs(g.FLUSS0 * g.DZ.Num)
	f := 1.0
	if pri <= 5.0 {
		f = 1.0
	} else if 5.0 < pri && pri <= 10.0 {
		f = 0.5
	} else if 10.0 < pri && pri <= 15.0 {
		f = 0.25
	} else if pri > 15.0 {
		f = 0.125
	}
	zsr := 1 / f
	overflow := false
	fscs := 0.0
	var fscsum [21]float64
	for i := 0; i < g.N; i++ {
		fscs += (g.W[i] - g.WG[0][i]) * g.DZ.Num
		fscsum[i] = fscs
	}
	for i := 0; i < g.N; i++ {
		if g.REGEN[g.TAG.Index]-fscsum[i] > g.W[i]*g.DZ.Num/3 {
			v := (g.REGEN[g.TAG.Index] - fscsum[i]) / (g.W[i] * g.DZ.Num / 3)
			if v > zsr {
				zsr, overflow = v, true
			}
		}
	}
	return zsr, overflow
}

func finiteOrNil(f float64) interface{} {
	if finite(f) {
		return f
	}
	return nil
}

func c08(args []string) {
	fs := flag.NewFlagSet("c08", flag.ExitOnError)
	seed := fs.Uint64("seed", 1, "seed")
	nsynth := fs.Int("synth", 300, "synthetic Evatra cases")
	work := fs.String("work", "", "scratch copy of the examples tree (traced runs)")
	linesFile := fs.String("lines", "", "file with batch lines (traced runs)")
	every := fs.Int("every", 10, "emit about one traced day in this many as a correspondence case")
	firstLine := fs.Int("first-line", 0, "number of the first batch line (ORACLE keys)")
	edge := fs.String("edge", "", "lukrit0: every case with LUKRIT = 0 and the top soil above its pore volume (F27); wudichneg: investigation only, outside the theorems' hypotheses")
	fs.Parse(args)
	defer stdout.Flush()
	r := newRng(*seed)
	c08Edge = *edge
	{
		one := 1.0
		emit(jobj{"k": "et0consts", "c": hxs([]float64{math.Pi * one, 2 * math.Pi * one, 2 * math.Pi / 365 * one, 8. * math.Pi / 180. * one,
			24. * 60. / math.Pi * 8.20 * one, 24. / math.Pi * one})})
	}
	for i := 0; i < *nsynth; i++ {
		synthEvatra(r, i)
	}
	if *linesFile == "" {
		return
	}
	f, err := os.Open(*linesFile)
	if err != nil {
		panic(err)
	}
	sc := bufio.NewScanner(f)
	lineNo := *firstLine
	for sc.Scan() {
		line := sc.Text()
		if len(line) == 0 {
			continue
		}
		c08Trace(*work, line, lineNo, r, *every)
		lineNo++
	}
}
