// c03fout: correspondence cases for OutFileModel — the real hermes.DefaultFoutGenerator on
// files with generated old content:
//
//	F <old: - | hex> <append 0|1> <chunk hex,chunk hex,...|-> <observed hex|->
//
// (hex of "" is written as "e").  Also lists the append argument of every OpenResultFile /
// HermesOutWriter call in package hermes:   OPEN <func> <file:line> <append expr>
package main

import (
	"encoding/hex"
	"flag"
	"fmt"
	"go/ast"
	"go/parser"
	"go/token"
	"go/types"
	"os"
	"path/filepath"
	"strings"

	"github.com/zalf-rpm/Hermes2Go/hermes"
)

func init() { commands["c03fout"] = c03foutCmd }

func hexb(b []byte) string {
	if len(b) == 0 {
		return "e"
	}
	return hex.EncodeToString(b)
}

func c03foutCmd(args []string) {
	fs := flag.NewFlagSet("c03fout", flag.ExitOnError)
	seed := fs.Uint64("seed", 1, "seed")
	n := fs.Int("n", 200, "cases")
	dir := fs.String("dir", "", "scratch directory")
	repo := fs.String("repo", "", "repository (for the OPEN inventory)")
	fs.Parse(args)
	r := newRng(*seed)
	rb := func(max int) []byte {
		b := make([]byte, r.intn(max+1))
		for i := range b {
			b[i] = byte(32 + r.intn(90))
		}
		return b
	}
	for i := 0; i < *n; i++ {
		p := filepath.Join(*dir, fmt.Sprintf("f%d.res", i))
		os.Remove(p)
		old := "-"
		if r.intn(5) > 0 {
			o := rb(24)
			if err := os.WriteFile(p, o, 0600); err != nil {
				fmt.Fprintln(os.Stderr, err)
				os.Exit(1)
			}
			old = hexb(o)
		}
		app := r.intn(4) == 0
		w, err := hermes.DefaultFoutGenerator(p, app)
		if err != nil {
			fmt.Fprintln(os.Stderr, err)
			os.Exit(1)
		}
		var chunks []string
		for k := r.intn(4); k > 0; k-- {
			c := rb(10)
			switch r.intn(3) {
			case 0:
				w.Write(string(c))
			case 1:
				w.WriteBytes(c)
			default:
				if len(c) > 0 {
					c = c[:1]
					w.WriteRune(rune(c[0]))
				}
			}
			chunks = append(chunks, hexb(c))
		}
		w.Close()
		got, err := os.ReadFile(p)
		if err != nil {
			fmt.Fprintln(os.Stderr, err)
			os.Exit(1)
		}
		a := 0
		if app {
			a = 1
		}
		cs := "-"
		if len(chunks) > 0 {
			cs = strings.Join(chunks, ",")
		}
		fmt.Printf("F %s %d %s %s\n", old, a, cs, hexb(got))
		os.Remove(p)
	}
	twoHandles(r, *dir, *n/6+8)
	if *repo != "" {
		openInventory(filepath.Join(*repo, "hermes"))
	}
}

// twoHandles: 2-3 writers of DefaultFoutGenerator open on one path at the same time, interleaved.
//
//	H <old v:n|-> <events O<h>:<append> W<h>:<v>:<n> ...> | <observed v:n,v:n,...|->
//
// A W event is a write that reaches the operating system: a chunk of >= 4096 bytes handed to an
// empty bufio buffer goes out at once, a small last chunk goes out at Close.
func twoHandles(r *rng, dir string, n int) {
	rleOf := func(b []byte) string {
		if len(b) == 0 {
			return "-"
		}
		var parts []string
		i := 0
		for i < len(b) {
			j := i
			for j < len(b) && b[j] == b[i] {
				j++
			}
			parts = append(parts, fmt.Sprintf("%d:%d", b[i], j-i))
			i = j
		}
		return strings.Join(parts, ",")
	}
	for c := 0; c < n; c++ {
		p := filepath.Join(dir, fmt.Sprintf("h%d.res", c))
		os.Remove(p)
		old := "-"
		if r.intn(2) == 0 {
			o := make([]byte, 1+r.intn(9000))
			v := byte(1 + r.intn(200))
			for i := range o {
				o[i] = v
			}
			os.WriteFile(p, o, 0600)
			old = rleOf(o)
		}
		nh := 2 + r.intn(2)
		same := r.intn(2) == 0 // identical writers (the repeated batch line)
		appendAll := r.intn(6) == 0
		type hstate struct {
			w      hermes.OutWriter
			big    int // big chunks still to write
			small  int // size of the final small chunk (0 = none)
			v      byte
			opened bool
			done   bool
		}
		hs := make([]*hstate, nh)
		nbig, small := r.intn(3), r.intn(3000)
		for i := range hs {
			hs[i] = &hstate{big: nbig, small: small, v: 65}
			if !same {
				hs[i].big, hs[i].small, hs[i].v = r.intn(3), r.intn(3000), byte(66+i)
			}
		}
		var evs []string
		for {
			var live []int
			for i, h := range hs {
				if !h.done {
					live = append(live, i)
				}
			}
			if len(live) == 0 {
				break
			}
			i := live[r.intn(len(live))]
			h := hs[i]
			switch {
			case !h.opened:
				w, err := hermes.DefaultFoutGenerator(p, appendAll)
				if err != nil {
					fmt.Fprintln(os.Stderr, err)
					os.Exit(1)
				}
				h.w, h.opened = w, true
				a := 0
				if appendAll {
					a = 1
				}
				evs = append(evs, fmt.Sprintf("O%d:%d", i, a))
			case h.big > 0:
				nb := 4096 + r.intn(1500)
				if same {
					nb = 4096 + 100*h.big
				}
				b := make([]byte, nb)
				vv := h.v + byte(h.big) // the k-th chunk of every identical writer carries the same value
				for k := range b {
					b[k] = vv
				}
				h.w.WriteBytes(b)
				h.big--
				evs = append(evs, fmt.Sprintf("W%d:%d:%d", i, vv, nb))
			default:
				if h.small > 0 {
					b := make([]byte, h.small)
					for k := range b {
						b[k] = h.v
					}
					h.w.WriteBytes(b)
					evs = append(evs, fmt.Sprintf("W%d:%d:%d", i, h.v, h.small))
				}
				h.w.Close()
				h.done = true
			}
		}
		got, _ := os.ReadFile(p)
		fmt.Printf("H %s %s | %s\n", old, strings.Join(evs, " "), rleOf(got))
		os.Remove(p)
	}
}

func openInventory(dir string) {
	fset := token.NewFileSet()
	ents, _ := os.ReadDir(dir)
	for _, e := range ents {
		n := e.Name()
		if e.IsDir() || !strings.HasSuffix(n, ".go") || strings.HasSuffix(n, "_test.go") || hasVerifConstraint(filepath.Join(dir, n)) {
			continue
		}
		f, err := parser.ParseFile(fset, filepath.Join(dir, n), nil, parser.SkipObjectResolution)
		if err != nil {
			fmt.Fprintln(os.Stderr, err)
			os.Exit(1)
		}
		for _, d := range f.Decls {
			fd, ok := d.(*ast.FuncDecl)
			if !ok || fd.Body == nil {
				continue
			}
			ast.Inspect(fd.Body, func(nd ast.Node) bool {
				ce, ok := nd.(*ast.CallExpr)
				if !ok || len(ce.Args) != 2 {
					return true
				}
				se, ok := ce.Fun.(*ast.SelectorExpr)
				if !ok || (se.Sel.Name != "OpenResultFile" && se.Sel.Name != "HermesOutWriter") {
					return true
				}
				q := fset.Position(ce.Pos())
				fmt.Printf("OPEN %s %s:%d %s\n", fd.Name.Name, filepath.Base(q.Filename), q.Line,
					strings.ReplaceAll(types.ExprString(ce.Args[1]), " ", ""))
				return true
			})
		}
	}
}
