package main

import (
	"bufio"
	"flag"
	"os"

	"github.com/zalf-rpm/Hermes2Go/hermes"
)

func init() { commands["c04"] = c04Cmd }

// c04Cmd (C04 and C05) runs batch lines of python-generated scratch projects in-process
// (working dir = a tree shaped like /repo/examples) and emits one JSON object per line:
//
//	{"line":i,"success":b,"err":s,"days":[[ZEIT,TAG.Index,J,JTAG],...],"echo":[[TEMPdaily,TMINdaily,TMAXdaily,RHdaily,RADdaily,WINDdaily,REGENdaily],...]}
//
// The per-day values are taken by the verif probe at the end of every simulated day
// (-probe; C04).  Without -probe only the run result is emitted: C05 reads what the run
// wrote into its V*/Y*/C* result files.
func c04Cmd(args []string) {
	fs := flag.NewFlagSet("c04", flag.ExitOnError)
	work := fs.String("work", ".", "scratch tree (project/, weather/, parameter/)")
	linesFile := fs.String("lines", "", "file with batch lines")
	probe := fs.Bool("probe", false, "record the calendar state and the weather echo of every day")
	fs.Parse(args)
	defer stdout.Flush()
	f, err := os.Open(*linesFile)
	if err != nil {
		panic(err)
	}
	sc := bufio.NewScanner(f)
	sc.Buffer(make([]byte, 1<<20), 1<<20)
	lineNo := 0
	for sc.Scan() {
		line := sc.Text()
		if len(line) == 0 {
			continue
		}
		var days [][]int
		var echo [][]string
		if *probe {
			hermes.VerifProbe = func(stage string, zeit, subd int, wdt float64, g *hermes.GlobalVarsMain, w *hermes.WaterSharedVars, n *hermes.NitroSharedVars) {
				if stage != "dayend" {
					return
				}
				days = append(days, []int{zeit, g.TAG.Index, g.J, g.JTAG})
				echo = append(echo, hxs([]float64{g.TEMPdaily, g.TMINdaily, g.TMAXdaily, g.RHdaily, g.RADdaily, g.WINDdaily, g.REGENdaily}))
			}
		}
		res := runProject(*work, splitArgs(line))
		hermes.VerifProbe = nil
		o := jobj{"line": lineNo, "success": res.Success, "err": res.Err}
		if *probe {
			o["days"] = days
			o["echo"] = echo
		}
		emit(o)
		stdout.Flush()
		lineNo++
	}
}
