package main

import (
	"bufio"
	"encoding/json"
	"flag"
	"os"
	"reflect"
	"strconv"
	"strings"

	"github.com/zalf-rpm/Hermes2Go/hermes"
)

func init() { commands["c04"] = c04Cmd }

// c04Cmd (C04 and C05) runs batch lines of python-generated scratch projects in-process
// (working dir = a tree shaped like /repo/examples) and emits one JSON object per line:
//
//	{"line":i,"success":b,"err":s,"days":[[ZEIT,TAG.Index,J,JTAG],...],"echo":[[TEMPdaily,TMINdaily,TMAXdaily,RHdaily,RADdaily,WINDdaily,REGENdaily],...],
//	 "opt":[[VERD[TAG],SUND[TAG],ETNULL[TAG]] before Evatra,...]}
//
// The per-day values are taken by the verif probe at the end of every simulated day
// (-probe; C04).  Without -probe only the run result is emitted: C05 reads what the run
// wrote into its V*/Y*/C* result files.
func c04Cmd(args []string) {
	fs := flag.NewFlagSet("c04", flag.ExitOnError)
	work := fs.String("work", ".", "scratch tree (project/, weather/, parameter/)")
	linesFile := fs.String("lines", "", "file with batch lines")
	probe := fs.Bool("probe", false, "record the calendar state and the weather echo of every day")
	varsFile := fs.String("vars", "", "json list of [name, sub, idx1, idx2]: state variables read (by the harness' own reflection) at the end of every day")
	fs.Parse(args)
	var vars [][]interface{}
	if *varsFile != "" {
		b, err := os.ReadFile(*varsFile)
		if err != nil {
			panic(err)
		}
		if err := json.Unmarshal(b, &vars); err != nil {
			panic(err)
		}
	}
	defer stdout.Flush()
	f, err := os.Open(*linesFile)
	if err != nil {
		panic(err)
	}
	sc := bufio.NewScanner(f)
	sc.Buffer(make([]byte, 1<<20), 1<<20)
	lineNo := 0
	var session *hermes.HermesSession
	defer func() {
		if session != nil {
			session.Close()
		}
	}()
	for sc.Scan() {
		line := sc.Text()
		if len(line) == 0 {
			continue
		}
		var days [][]int
		var echo [][]string
		var vals [][]string
		var opt [][]string
		if *probe {
			hermes.VerifProbe = func(stage string, zeit, subd int, wdt float64, g *hermes.GlobalVarsMain, w *hermes.WaterSharedVars, n *hermes.NitroSharedVars) {
				if stage == "evatra-pre" {
					// the optional columns of the day (saturation deficit, sunshine hours, reference evapotranspiration) as Evatra gets them
					i := g.TAG.Index
					opt = append(opt, hxs([]float64{g.VERD[i], g.SUND[i], g.ETNULL[i]}))
					return
				}
				if stage != "dayend" {
					return
				}
				days = append(days, []int{zeit, g.TAG.Index, g.J, g.JTAG})
				echo = append(echo, hxs([]float64{g.TEMPdaily, g.TMINdaily, g.TMAXdaily, g.RHdaily, g.RADdaily, g.WINDdaily, g.REGENdaily}))
				if vars != nil {
					vals = append(vals, readVars(g, vars))
				}
			}
		}
		// a line starting with "+" runs in the session (file pool) of the line before
		shared := strings.HasPrefix(line, "+")
		line = strings.TrimPrefix(line, "+")
		if !shared || session == nil {
			if session != nil {
				session.Close()
			}
			session = hermes.NewHermesSession()
		}
		res := c04RunInSession(session, *work, splitArgs(line))
		hermes.VerifProbe = nil
		o := jobj{"line": lineNo, "success": res.Success, "err": res.Err}
		if *probe {
			o["days"] = days
			o["echo"] = echo
			o["opt"] = opt
			if vars != nil {
				o["vals"] = vals
			}
		}
		emit(o)
		stdout.Flush()
		lineNo++
	}
}

// readVars resolves name[.sub][idx1][idx2] on the run state with reflection code of the harness (independent of
// hermes.LoadHermesOutputConfig) and renders float64 exactly (hex), int in decimal, string as is; "?" = not resolvable
func readVars(g *hermes.GlobalVarsMain, vars [][]interface{}) []string {
	out := make([]string, len(vars))
	root := reflect.ValueOf(g).Elem()
	for k, v := range vars {
		out[k] = "?"
		name, _ := v[0].(string)
		sub, _ := v[1].(string)
		i1f, _ := v[2].(float64)
		i2f, _ := v[3].(float64)
		i1, i2 := int(i1f), int(i2f)
		f := root.FieldByName(name)
		if !f.IsValid() {
			continue
		}
		if f.Kind() == reflect.Struct {
			f = f.FieldByName(sub)
			if !f.IsValid() {
				continue
			}
		}
		if f.Kind() == reflect.Array || f.Kind() == reflect.Slice {
			if i1 >= f.Len() {
				continue
			}
			f = f.Index(i1)
			if f.Kind() == reflect.Array {
				if i2 >= f.Len() {
					continue
				}
				f = f.Index(i2)
			}
		}
		switch f.Kind() {
		case reflect.Float64:
			out[k] = hx(f.Float())
		case reflect.Int:
			out[k] = strconv.FormatInt(f.Int(), 10)
		case reflect.String:
			out[k] = f.String()
		}
	}
	return out
}

// c04RunInSession is runProject of common.go on a session the caller keeps (several runs of one session share its file pool)
func c04RunInSession(session *hermes.HermesSession, workdir string, args []string) runResult {
	out := make(chan *hermes.RunReturn, 1)
	logs := make(chan string, 1000)
	done := make(chan struct{})
	var collected []string
	go func() {
		for l := range logs {
			collected = append(collected, l)
		}
		close(done)
	}()
	session.Run(workdir, args, "[0]", out, logs)
	res := <-out
	close(logs)
	<-done
	rr := runResult{Success: res.Success, Logs: collected}
	if res.Err != nil {
		rr.Err = res.Err.Error()
	}
	return rr
}
