// c11tex: runs batch lines one by one IN-PROCESS through the real session.Run (hence the real
// Input / Hydro) with panics recovered, so one case cannot kill the harness:
//
//	CASE <i>                       printed before line i is run
//	T <i> ok|error|panic <message> outcome of line i
//
// A log.Fatal inside the library still ends the harness: the driver sees the last CASE
// without its T line and restarts with -skip.
package main

import (
	"bufio"
	"flag"
	"fmt"
	"os"
	"strings"

	"github.com/zalf-rpm/Hermes2Go/hermes"
)

func init() { commands["c11tex"] = c11texCmd }

func c11texCmd(args []string) {
	fs := flag.NewFlagSet("c11tex", flag.ExitOnError)
	dir := fs.String("dir", ".", "copy of the examples folder (becomes the working directory)")
	batch := fs.String("batch", "", "batch file")
	skip := fs.Int("skip", 0, "first line to run")
	fs.Parse(args)
	if err := os.Chdir(*dir); err != nil {
		fmt.Fprintln(os.Stderr, err)
		os.Exit(2)
	}
	f, err := os.Open(*batch)
	if err != nil {
		fmt.Fprintln(os.Stderr, err)
		os.Exit(2)
	}
	var lines []string
	sc := bufio.NewScanner(f)
	for sc.Scan() {
		if len(sc.Text()) > 0 {
			lines = append(lines, sc.Text())
		}
	}
	f.Close()
	session := hermes.NewHermesSession()
	logout := make(chan string, 64)
	go func() {
		for range logout {
		}
	}()
	for i, line := range lines {
		if i < *skip {
			continue
		}
		fmt.Printf("CASE %d\n", i)
		out := make(chan *hermes.RunReturn, 1)
		outcome, msg := "", ""
		func() {
			defer func() {
				if r := recover(); r != nil {
					outcome, msg = "panic", fmt.Sprint(r)
				}
			}()
			session.Run(*dir, strings.Fields(line), fmt.Sprintf("[%d]", i), out, logout)
		}()
		if outcome == "" {
			select {
			case res := <-out:
				if res.Success {
					outcome = "ok"
				} else {
					outcome, msg = "error", fmt.Sprint(res.Err)
				}
			default:
				outcome, msg = "panic", "no result"
			}
		}
		fmt.Printf("T %d %s %s\n", i, outcome, strings.ReplaceAll(msg, "\n", " "))
	}
	session.Close()
}
