package main

import (
	"fmt"
	"bufio"
	"flag"
	"math"
	"os"
	"reflect"
	"unsafe"

	"github.com/zalf-rpm/Hermes2Go/hermes"
)

func init() {
	commands["c10"] = c10Cmd
	commands["c10dueng"] = c10DuengCmd
}

// c10Cmd runs batch lines in-process (working dir = scratch copy of the examples tree with generated
// projects) with the day-loop probe and emits, per line,
//   {"k":"init",...}  the event arrays as Input left them (first -slots slots), BEGINN, ENDE
//   {"k":"ev",...}    one record per cursor advance: kind fert|till|irr|harv, day, sub-step, slot, state jumps
//   {"k":"run",...}   success/error, end cursors, counts of unexplained state jumps
// The fertiliser payload is also checked directly (property statement on the real code): Nitro is re-run
// on a copy of the pre-state to which the slot's split was added by hand and whose cursor was advanced;
// the result must equal the real post-state bit for bit ("replay").
func c10Cmd(args []string) {
	fs := flag.NewFlagSet("c10", flag.ExitOnError)
	work := fs.String("work", ".", "scratch copy of the examples tree")
	linesFile := fs.String("lines", "", "file with batch lines")
	slots := fs.Int("slots", 40, "array slots to dump")
	fs.Parse(args)
	defer stdout.Flush()
	f, err := os.Open(*linesFile)
	if err != nil {
		panic(err)
	}
	sc := bufio.NewScanner(f)
	sc.Buffer(make([]byte, 1<<20), 1<<20)
	lineNo := 0
	// consecutive lines carrying the same token vsession=<id> run one after the other in ONE session (shared file pool etc.)
	var sess *hermes.HermesSession
	sessID := ""
	for sc.Scan() {
		line := sc.Text()
		if len(line) == 0 {
			continue
		}
		id := ""
		for _, t := range splitArgs(line) {
			if len(t) > 9 && t[:9] == "vsession=" {
				id = t[9:]
			}
		}
		if id != sessID {
			if sess != nil {
				sess.Close()
				sess = nil
			}
			sessID = id
			if id != "" {
				sess = hermes.NewHermesSession()
			}
		}
		c10Line(*work, line, lineNo, *slots, sess)
		lineNo++
	}
	if sess != nil {
		sess.Close()
	}
}

// c10Mute sets the unexported g.managementConfig of a COPY of the state to nil, so that a replayed
// Nitro call does not write into the run's management log (WriteManagementEvent accepts a nil receiver)
func c10Mute(g *hermes.GlobalVarsMain) bool {
	fld := reflect.ValueOf(g).Elem().FieldByName("managementConfig")
	if !fld.IsValid() || fld.Kind() != reflect.Ptr {
		return false
	}
	*(*unsafe.Pointer)(unsafe.Pointer(fld.UnsafeAddr())) = nil
	return true
}

func c10ints(a []int) []int { r := make([]int, len(a)); copy(r, a); return r }

func c10same(a, b float64) bool { return math.Float64bits(a) == math.Float64bits(b) }

func c10Line(work, line string, lineNo, slots int, sess *hermes.HermesSession) {
	var (
		inited                             bool
		preG                               hermes.GlobalVarsMain
		preN                               hermes.NitroSharedVars
		havePre                            bool
		ndg0, ntil0, akf0                  int
		dsumm0, nh40, nfos0, naos0, nfert0 float64
		nbrEnd, c1End                      = 0, 0.0
		haveEnd                            bool
		days, regenUnexpl, dsummUnexpl     int
		dsummEnd, umsEnd                   float64
		overnight                          int
		overnightFirst                     []jobj
		nitroOther                         int
	)
	hermes.VerifProbe = func(stage string, zeit, subd int, wdt float64, g *hermes.GlobalVarsMain, w *hermes.WaterSharedVars, n *hermes.NitroSharedVars) {
		switch stage {
		case "evatra-pre":
			if !inited {
				inited = true
				m := slots
				frucht := make([]int, m)
				for i := 0; i < m; i++ {
					frucht[i] = int(g.FRUCHT[i])
				}
				ztbr := make([]int, m)
				breg := make([]float64, m)
				brkz := make([]float64, m)
				for i := 0; i < m && i < len(g.ZTBR); i++ {
					ztbr[i], breg[i], brkz[i] = g.ZTBR[i], g.BREG[i], g.BRKZ[i]
				}
				emit(jobj{"k": "init", "line": lineNo, "beginn": g.BEGINN, "ende": g.ENDE, "zeit": zeit,
					"ztdg": c10ints(g.ZTDG[:m]), "ndir": hxs(g.NDIR[:m]), "nh4n": hxs(g.NH4N[:m]), "nsas": hxs(g.NSAS[:m]), "nlas": hxs(g.NLAS[:m]),
					"dgart": append([]string{}, g.DGART[:m]...),
					"einte": c10ints(g.EINTE[1 : m+1]), "eint": hxs(g.EINT[:m]), "tilart": c10ints(g.TILART[:m]),
					"ztbr": ztbr, "breg": hxs(breg), "brkz": hxs(brkz),
					"saat": c10ints(g.SAAT[:m]), "ernte": c10ints(g.ERNTE[:m]), "frucht": frucht,
					"dungszen": hx(g.DUNGSZEN), "depos": hx(g.DEPOS), "dt": hx(g.DT.Num),
					"autofert": g.AUTOFERT, "autoirri": g.AUTOIRRI, "automan": g.AUTOMAN, "autohar": g.AUTOHAR})
				nbrEnd = 1
			}
			days++
			// between the end of a day and the start of the next one nothing may touch the fertiliser sums (applied mineral N
			// DSUMM, released part UMS); the only documented reset is a measurement day (run.go:476-487)
			if haveEnd && (!c10same(g.DSUMM, dsummEnd) || !c10same(g.UMS, umsEnd)) {
				messToday := false
				for _, mz := range g.MESS {
					if mz == zeit && mz != 0 {
						messToday = true
					}
				}
				if !messToday {
					overnight++
					if len(overnightFirst) < 3 {
						overnightFirst = append(overnightFirst, jobj{"zeit": zeit, "dsumm": []string{hx(dsummEnd), hx(g.DSUMM)}, "ums": []string{hx(umsEnd), hx(g.UMS)}})
					}
				}
			}
			// irrigation block (run.go:454-468) ran since the last "dayend"
			fired := g.NBR != nbrEnd
			regenPre, regenPost := g.REGENdaily, g.REGEN[g.TAG.Index]
			if fired {
				slot := nbrEnd - 1
				mess := false
				for _, mz := range g.MESS {
					if mz == zeit && mz != 0 {
						mess = true
					}
				}
				emit(jobj{"k": "ev", "line": lineNo, "kind": "irr", "zeit": zeit, "subd": 0, "slot": slot, "adv": g.NBR - nbrEnd,
					"regen_pre": hx(regenPre), "regen_post": hx(regenPost), "effirr": hx(g.EffectiveIRRIG),
					"c1_prev": hx(c1End), "c1_post": hx(g.C1[0]), "c1_usable": haveEnd && !mess})
			} else if !c10same(regenPre, regenPost) {
				regenUnexpl++
			}
		case "nitro-pre":
			ndg0, ntil0, akf0 = g.NDG.Index, g.NTIL.Index, g.AKF.Index
			dsumm0, nh40, nfos0, naos0, nfert0 = g.DSUMM, g.NH4Sum, g.NFOS[0], g.NAOS[0], g.NFERTSIM
			havePre = false
			if !g.AUTOFERT && zeit == g.ZTDG[g.NDG.Index]+1 {
				preG, preN, havePre = *g, *n, true
			}
		case "nitro":
			harvest := g.AKF.Index != akf0
			if g.NDG.Index != ndg0 {
				replay := "skipped"
				if havePre && !harvest && zeit != preG.ERNTE[preG.AKF.Index] {
					gg, ll := preG, preN
					c := gg.NDG.Index
					// the property's statement, applied by hand
					gg.NFOS[0] += gg.NSAS[c]
					gg.NAOS[0] += gg.NLAS[c]
					gg.DSUMM += gg.NDIR[c]
					gg.NFERTSIM += gg.NDIR[c]
					gg.NH4Sum += gg.NH4N[c]
					gg.NDG.Inc()
					if c10Mute(&gg) {
						var ln hermes.NitroBBBSharedVars
						var hp hermes.HFilePath
						var out hermes.CropOutputVars
						_, err := hermes.Nitro(wdt, subd, zeit, &gg, &ll, &ln, &hp, &out)
						ok := err == nil && c10same(gg.DSUMM, g.DSUMM) && c10same(gg.NH4Sum, g.NH4Sum) && c10same(gg.NFERTSIM, g.NFERTSIM) &&
							gg.NDG.Index == g.NDG.Index && gg.NTIL.Index == g.NTIL.Index
						for i := 0; i < 21 && ok; i++ {
							ok = c10same(gg.NFOS[i], g.NFOS[i]) && c10same(gg.NAOS[i], g.NAOS[i]) && c10same(gg.C1[i], g.C1[i])
						}
						if ok {
							replay = "ok"
						} else {
							replay = "differs"
						}
					} else {
						replay = "no-mute"
					}
				} else if !havePre {
					replay = "no-pre-state"
				}
				emit(jobj{"k": "ev", "line": lineNo, "kind": "fert", "zeit": zeit, "subd": subd, "slot": ndg0, "adv": g.NDG.Index - ndg0,
					"dsumm": []string{hx(dsumm0), hx(g.DSUMM)}, "nh4": []string{hx(nh40), hx(g.NH4Sum)},
					"nfos0": []string{hx(nfos0), hx(g.NFOS[0])}, "naos0": []string{hx(naos0), hx(g.NAOS[0])},
					"nfertsim": []string{hx(nfert0), hx(g.NFERTSIM)},
					"harvest": harvest, "replay": replay})
			} else if !harvest && !g.AUTOFERT && (!c10same(dsumm0, g.DSUMM) || !c10same(nh40, g.NH4Sum)) {
				dsummUnexpl++
			}
			if g.NTIL.Index != ntil0 {
				emit(jobj{"k": "ev", "line": lineNo, "kind": "till", "zeit": zeit, "subd": subd, "slot": ntil0, "adv": g.NTIL.Index - ntil0})
			}
			if harvest {
				// the event arrays must come out of a harvest call as they went in (the harvest writes ZTDG[AKF] only for the
				// organic fertiliser of automatic management)
				emit(jobj{"k": "ev", "line": lineNo, "kind": "harv", "zeit": zeit, "subd": subd, "slot": akf0, "adv": g.AKF.Index - akf0,
					"ztdg": c10ints(g.ZTDG[:slots]), "einte": c10ints(g.EINTE[1 : slots+1])})
			}
			if subd != 1 {
				nitroOther++
			}
		case "dayend":
			nbrEnd, c1End, haveEnd = g.NBR, g.C1[0], true
			dsummEnd, umsEnd = g.DSUMM, g.UMS
		}
	}
	res := c10RunRecover(work, line, sess)
	hermes.VerifProbe = nil
	emit(jobj{"k": "run", "line": lineNo, "success": res.Success, "err": res.Err, "days": days, "substeps_gt1": nitroOther,
		"regen_unexplained": regenUnexpl, "dsumm_unexplained": dsummUnexpl, "overnight_changes": overnight, "overnight_first": overnightFirst})
}

// c10DuengCmd: kernel tie for dueng — every row name of the fertiliser table (plus an unknown name) x
// generated quantities through hermes.VerifDueng; prints name, DGMG and the four results exactly.
func c10DuengCmd(args []string) {
	fs := flag.NewFlagSet("c10dueng", flag.ExitOnError)
	root := fs.String("root", ".", "examples tree (parameter/FERTILIZ.TXT below it)")
	seed := fs.Uint64("seed", 1, "seed")
	per := fs.Int("per", 6, "quantities per name")
	fs.Parse(args)
	defer stdout.Flush()
	r := newRng(*seed)
	session := hermes.NewHermesSession()
	defer session.Close()
	hp := hermes.NewHermesFilePath(*root, "none", "0", "", "")
	fp, err := os.Open(*root + "/parameter/FERTILIZ.TXT")
	if err != nil {
		panic(err)
	}
	var names []string
	sc := bufio.NewScanner(fp)
	first := true
	for sc.Scan() {
		t := splitArgs(sc.Text())
		if first || len(t) < 7 {
			first = false
			continue
		}
		names = append(names, t[0])
	}
	fp.Close()
	names = append(names, "XXQ")
	g := hermes.NewGlobalVarsMain()
	g.Session = session
	var l hermes.InputSharedVars
	for _, nm := range names {
		for k := 0; k < *per; k++ {
			i := 1 + r.intn(250)
			var q float64
			switch k {
			case 0:
				q = 0
			case 1:
				q = float64(1 + r.intn(400))
			case 2:
				q = float64(1+r.intn(400)) * float64(1+r.intn(200)) / 100
			default:
				q = r.between(0.01, 500)
			}
			g.DGART[i] = nm
			l.DGMG[i] = q
			g.NDIR[i], g.NH4N[i], g.NSAS[i], g.NLAS[i] = 0, 0, 0, 0
			hermes.VerifDueng(i, &g, &l, &hp)
			emit(jobj{"k": "dueng", "name": nm, "dgmg": hx(q), "ndir": hx(g.NDIR[i]), "nh4n": hx(g.NH4N[i]), "nsas": hx(g.NSAS[i]), "nlas": hx(g.NLAS[i])})
		}
	}
}

// c10RunRecover runs one batch line; a panic inside the simulator ends that run only (reported as its error)
func c10RunRecover(work, line string, sess *hermes.HermesSession) (res runResult) {
	defer func() {
		if r := recover(); r != nil {
			res = runResult{Success: false, Err: fmt.Sprintf("panic: %v", r)}
		}
	}()
	if sess == nil {
		return runProject(work, splitArgs(line))
	}
	out := make(chan *hermes.RunReturn, 1)
	logs := make(chan string, 1000)
	done := make(chan struct{})
	go func() {
		for range logs {
		}
		close(done)
	}()
	sess.Run(work, splitArgs(line), "[0]", out, logs)
	r := <-out
	close(logs)
	<-done
	res = runResult{Success: r.Success}
	if r.Err != nil {
		res.Err = r.Err.Error()
	}
	return res
}
