package main

import (
	"flag"
	"math"

	"github.com/zalf-rpm/Hermes2Go/hermes"
)

func init() { commands["c09dl"] = c09DlCmd }

// c09DlCmd runs the real hermes.CalculateDayLenght on a latitude x day grid (all latitudes strictly between the poles,
// incl. the polar circles and the twilight limits) and prints, per point, the intermediate values mirrored from
// solar.go:18-27 (declination terms, the three clamped ratios = arguments of math.Asin, Go's asin values) together with
// the observed DL, DLE, DLP, and evaluates the property 0 <= DL, DLE, DLP <= 24 (NaN-safe) on the real function.
func c09DlCmd(args []string) {
	fs := flag.NewFlagSet("c09dl", flag.ExitOnError)
	seed := fs.Uint64("seed", 1, "seed")
	n := fs.Int("n", 600, "random grid points in addition to the fixed ones")
	fs.Parse(args)
	defer stdout.Flush()
	r := newRng(*seed)
	lats := []float64{-89.9, -75, -66.56, -60.5, -58.6, -45, -23.44, 0, 23.44, 45, 52.6732, 55, 58, 58.6, 59, 60.5, 62, 66, 66.56, 69.65, 75, 80, 89, 89.9}
	days := []float64{1, 15, 80, 81, 100, 150, 171, 172, 173, 200, 264, 265, 266, 300, 340, 354, 355, 356, 365, 366}
	type pt struct{ tag, lat float64 }
	pts := []pt{}
	for _, la := range lats {
		for _, d := range days {
			pts = append(pts, pt{d, la})
		}
	}
	for i := 0; i < *n; i++ {
		la := r.between(-89.99, 89.99)
		if r.chance(0.5) {
			la = math.Round(la*100) / 100
		}
		pts = append(pts, pt{float64(1 + r.intn(366)), la})
	}
	for _, p := range pts {
		tag, lat := p.tag, p.lat
		DL, DLE, DLP, _, _, _, DEC := hermes.CalculateDayLenght(tag, lat)
		for _, v := range []struct {
			n string
			v float64
		}{{"DL", DL}, {"DLE", DLE}, {"DLP", DLP}} {
			if !(v.v >= 0 && v.v <= 24) {
				oracleFail("daylength-invalid:%s lat=%v day=%v value=%v", v.n, lat, tag, v.v)
			}
		}
		// mirror of solar.go:18-27
		dec := 0.409 * math.Sin(2*math.Pi/365*tag-1.39) * 180 / math.Pi
		SINLD := math.Sin(dec*math.Pi/180.) * math.Sin(lat*math.Pi/180.)
		COSLD := math.Cos(dec*math.Pi/180.) * math.Cos(lat*math.Pi/180.)
		s8 := math.Sin(8. * math.Pi / 180.)
		s6 := math.Sin(-6. * math.Pi / 180.)
		a0 := hermes.Limit(SINLD/COSLD, 1, -1)
		a1 := hermes.Limit((-s8+SINLD)/COSLD, 1, -1)
		a2 := hermes.Limit((-s6+SINLD)/COSLD, 1, -1)
		emit(jobj{"k": "dl", "tag": tag, "lat": lat, "dec_ok": sameF(dec, DEC), "sinld": hx(SINLD), "cosld": hx(COSLD), "s8": hx(s8), "s6": hx(s6),
			"pi": hx(math.Pi), "a0": hx(a0), "a1": hx(a1), "a2": hx(a2), "v0": hx(math.Asin(a0)), "v1": hx(math.Asin(a1)), "v2": hx(math.Asin(a2)),
			"o_dl": hx(DL), "o_dle": hx(DLE), "o_dlp": hx(DLP)})
	}
}
