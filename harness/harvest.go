package main

// harvest branch of Nitro (nitro.go:286-312) + resid (nitro.go:842-927): hermes.Nitro is called on a harvest day with a
// generated CROP_N.TXT; inputs and observables of HarvestModel.harvest are emitted as {"k":"harv"} cases.

import (
	"fmt"
	"math"
	"os"
	"path/filepath"
	"strconv"
	"strings"

	"github.com/zalf-rpm/Hermes2Go/hermes"
)

var harvWork string // scratch root (c02 -work); no harvest cases without it
var harvCount int

// fixed-width row of CROP_N.TXT: name 0-2, K_S 4-6, TM 8-11, N_HEG 13-17, S_HEG 19-23, N_NEG 25-29, SNEG 31-34, SWur 36-39, Nfas 41-44, Sfas 46-49
func cropNRow(name, ks, nheg, nneg, swur, nfas string) string {
	return fmt.Sprintf("%-3s %3s 0.86 %5s 00.12 %5s 0.09 %4s %4s 0.00 generated", name, ks, nheg, nneg, swur, nfas)
}

func pf(s string) float64 {
	v, err := strconv.ParseFloat(strings.TrimSpace(s), 64)
	if err != nil {
		panic(err)
	}
	return v
}

func harvCase(tag string, r *rng, g *hermes.GlobalVarsMain, l *hermes.NitroSharedVars, wdt float64, zeit int) {
	if harvWork == "" {
		return
	}
	harvCount++
	n := g.N
	// the crop's row and some other rows; the crop's row first, in the middle or last, the file with or without a final newline
	ksS := []string{"2.0", "1.3", "0.0", ".15", "999", "0.5", "1.0", ".63"}[r.intn(8)]
	nhegS := []string{"04.10", "01.00", "00.45", "01.50", "00.35", "02.60", "03.30", "00.18"}[r.intn(8)]
	nnegS := []string{"00.80", "01.00", "00.00", "00.50", "00.20", "00.55", "00.38", "01.50"}[r.intn(8)]
	swurS := []string{"0.10", "0.16", "0.00", "0.25", "1.00", "0.05"}[r.intn(6)]
	nfasS := []string{"0.67", "0.20", "0.00", "0.60", "0.25", "1.00", "0.40"}[r.intn(7)]
	dauer := r.chance(0.3)
	crops := []string{"WW", "SM", "ZR", "WRA", "K", "SOY", "OA"}
	if dauer {
		crops = []string{"AA", "GR", "GRE"}
	}
	crop := crops[r.intn(len(crops))]
	rows := []string{"KuA K_S TM_  N_HEG S_HEG N_NEG SNEG SWur Nfas Sfas "}
	others := []string{cropNRow("AB", "2.0", "04.10", "00.80", "0.10", "0.67"), cropNRow("LUP", "1.9", "04.50", "00.80", "0.10", "0.67"),
		cropNRow("CCM", "1.3", "01.00", "01.00", "0.10", "0.20")}
	pos := r.intn(len(others) + 1)
	for i, o := range others {
		if i == pos {
			rows = append(rows, cropNRow(crop, ksS, nhegS, nnegS, swurS, nfasS))
		}
		rows = append(rows, o)
	}
	if pos == len(others) {
		rows = append(rows, cropNRow(crop, ksS, nhegS, nnegS, swurS, nfasS))
	}
	text := strings.Join(rows, "\n")
	if r.chance(0.5) {
		text += "\n"
	}
	pdir := filepath.Join(harvWork, "harv", "parameter")
	os.MkdirAll(pdir, 0o755)
	if err := os.WriteFile(filepath.Join(pdir, "CROP_N.TXT"), []byte(text), 0o644); err != nil {
		panic(err)
	}
	hp := hermes.NewHermesFilePath(filepath.Join(harvWork, "harv"), "hp", "0", "", filepath.Join(harvWork, "harv", "R"))
	g.Session = hermes.NewHermesSession()
	defer g.Session.Close()
	g.Kalender = hermes.KalenderConverter(hermes.DateDElong, ".")
	g.DATEFORMAT = hermes.DateDElong
	g.IZM = 0
	g.AUTOFERT, g.AUTOMAN = false, false
	g.NDG.SetByIndex(0)
	g.ZTDG[0] = zeit + 1000
	g.NTIL.SetByIndex(0)
	g.EINTE[0], g.EINTE[1] = zeit+1000, zeit+1001
	first := r.chance(0.08)
	idx := 1
	if first {
		idx = 0
	}
	g.AKF.SetByIndex(idx)
	g.SAAT[idx], g.ERNTE[idx], g.ERNTE2[idx] = zeit-200, zeit, zeit
	g.SAAT[idx+1], g.SAAT2[idx+1], g.ERNTE[idx+1], g.ERNTE2[idx+1] = zeit+100, zeit+100, zeit+300, zeit+300
	g.FRUCHT[idx] = g.ToCropType(crop)
	g.FRUCHT[idx+1] = g.ToCropType("WW")
	g.DAUERKULT = dauer
	keepCrop := dauer && r.chance(0.7)
	if keepCrop {
		g.FRUCHT[idx+1] = g.FRUCHT[idx] // a permanent crop goes on: its N is not reset
	}
	jn := []float64{0, 0, 1, 1, 2, 0.5, 0.3, 0.8, 0.05}[r.intn(9)]
	g.JN[idx] = jn
	g.ODU[idx] = 0
	g.PESUM = r.between(0, 400)
	if r.chance(0.1) {
		g.PESUM = 0
	}
	g.OBMAS = r.between(0, 20000)
	g.GEHOB = r.between(0.005, 0.05)
	g.YORGAN, g.YIFAK = 0, 0.5
	g.NAKT, g.NALTOS = 0.2, 5000
	g.WURZ = r.intn(minInt(n, 12) + 1)
	left := 1.0
	for i := 0; i < g.WURZ; i++ {
		g.WUANT[i] = left * r.between(0.1, 0.6)
		left -= g.WUANT[i]
	}
	k := minInt(n, 14)
	for z := 0; z < k; z++ {
		g.NFOS[z], g.NAOS[z] = r.between(0, 60), r.between(0, 3000)
	}
	for z := 0; z < n; z++ {
		g.DN[z] = 0
		g.PE[z] = 0 // the transport step that follows in the same call credits no uptake: the crop's N is observable
	}
	g.SCHNORR = 0
	in := jobj{"jn": hx(jn), "dauer": dauer, "aa": crop == "AA", "pesum": hx(g.PESUM), "obmas": hx(g.OBMAS), "gehob": hx(g.GEHOB),
		"kostro": hx(pf(ksS)), "nernt": hx(pf(nhegS)), "nkopp": hx(pf(nnegS)), "nwura": hx(pf(swurS)), "nfast": hx(pf(nfasS)),
		"first": first, "wuant": hxs(g.WUANT[:g.WURZ]), "nfos": hxs(g.NFOS[:k]), "naos": hxs(g.NAOS[:k]), "dsumm": hx(g.DSUMM),
		"crop": crop, "row": pos, "rows": len(others) + 1, "final_newline": strings.HasSuffix(text, "\n")}
	pesum0 := g.PESUM
	sumF0, sumA0 := sumN(g.NFOS[:k]), sumN(g.NAOS[:k])
	var ln hermes.NitroBBBSharedVars
	var out hermes.CropOutputVars
	_, err := hermes.Nitro(wdt, 1, zeit, g, l, &ln, &hp, &out)
	if err != nil {
		oracleFail("harvest-run-error tag=%s err=%v", tag, err)
		return
	}
	// C07 oracles, independent of the model: pools finite and not below their values before the harvest; what they gain
	// does not exceed the crop's N for an annual crop; the crop record's residue figure is within [0, crop N]
	gain := (sumN(g.NFOS[:k]) - sumF0) + (sumN(g.NAOS[:k]) - sumA0)
	for z := 0; z < k; z++ {
		if math.IsNaN(g.NFOS[z]) || math.IsInf(g.NFOS[z], 0) || math.IsNaN(g.NAOS[z]) || math.IsInf(g.NAOS[z], 0) || g.NFOS[z] < 0 || g.NAOS[z] < 0 {
			oracleFail("harvest-pool-not-finite-or-negative tag=%s crop=%s jn=%v layer=%d nfos=%v naos=%v", tag, crop, jn, z+1, g.NFOS[z], g.NAOS[z])
			break
		}
	}
	if gain < -1e-9*(1+sumF0+sumA0) {
		oracleFail("harvest-removes-organic-n tag=%s crop=%s jn=%v gain=%v", tag, crop, jn, gain)
	}
	if !dauer && !first && gain > pesum0+1e-9*(1+sumF0+sumA0) {
		oracleFail("harvest-residues-exceed-crop-n tag=%s crop=%s jn=%v gain=%v crop-n=%v", tag, crop, jn, gain, pesum0)
	}
	if first && gain != 0 {
		oracleFail("harvest-first-entry-books-residues tag=%s crop=%s gain=%v", tag, crop, gain)
	}
	emit(jobj{"k": "harv", "tag": tag, "in": in, "out": jobj{"nfos": hxs(g.NFOS[:k]), "naos": hxs(g.NAOS[:k]), "dsumm": hx(g.DSUMM),
		"nresid": hx(out.Nresid), "nagb": hx(out.Nagb), "pesum_kept": keepCrop && jn != 0 && jn != 1, "pesum": hx(g.PESUM)}})
}

// the simulated dressing of the fertiliser prognosis (dung.go): exported, called directly
func progCase(tag string, r *rng) {
	g := hermes.NewGlobalVarsMain()
	zeit := 30000
	g.PROGNOS = zeit - 1 - r.intn(3)
	g.AKF.SetByIndex(1)
	g.ERNTE[1] = zeit + 100
	g.ENDE = 0
	g.WG[0][0] = r.between(0.03, 0.45)
	g.C1[0] = r.between(0, 120)
	if r.chance(0.3) {
		g.C1[0] = r.between(0, 5)
	}
	g.DUNGBED = r.between(0, 80)
	dtgesn := r.between(0, 8)
	sumdiff, trnsum := r.between(0, 4), r.between(0, 3)
	if r.chance(0.25) {
		dtgesn = r.between(20, 200) // a large uncovered demand: the concentration cap decides
	}
	if r.chance(0.15) {
		sumdiff = dtgesn // supply covers the demand
	}
	c10, dung0 := g.C1[0], g.DUNGBED
	hermes.SimulateFertilizationAfterPrognose(zeit, dtgesn, sumdiff, trnsum, &g)
	if !(g.C1[0] >= c10) || !(g.DUNGBED >= dung0) || math.IsNaN(g.C1[0]) {
		oracleFail("prognosis-dressing-removes-n tag=%s c1-before=%v after=%v booked-before=%v after=%v demand=%v supply=%v water=%v", tag, c10, g.C1[0], dung0, g.DUNGBED, dtgesn, sumdiff+trnsum, g.WG[0][0])
	}
	emit(jobj{"k": "prog", "tag": tag, "in": jobj{"c10": hx(c10), "dtgesn": hx(dtgesn), "angebot": hx(sumdiff + trnsum), "wg0": hx(g.WG[0][0]),
		"dz": hx(g.DZ.Num), "dungbed": hx(dung0)}, "out": jobj{"c1": hx(g.C1[0]), "dungbed": hx(g.DUNGBED)}})
}

func minInt(a, b int) int {
	if a < b {
		return a
	}
	return b
}
