package main

import (
	"fmt"
	"bufio"
	"flag"
	"os"

	"github.com/zalf-rpm/Hermes2Go/hermes"
)

func init() { commands["c16"] = c16Cmd }

// c16Cmd runs batch lines in-process with the day-loop probe and emits, per line,
//   {"k":"init"}   rotation arrays and automation windows as Input left them
//   {"k":"sow"}    one record per day on which the automatic sowing block could act (window open or about to)
//   {"k":"hdec"}   automatic harvest decision of a day (every change, and the days around the latest date)
//   {"k":"harv"}   crop cursor advance (harvest executed)
//   {"k":"airr"}   automatic irrigation: the state the decision was taken on (layers, rain, forecast, stage window), fired?, amount
//   {"k":"af"}     automatic fertilisation call: inputs of nitro.go:73-226 (NDOY/NDEM, stage, temperatures, rain, C1, organic slots),
//                  DSUMM/NFERTSIM/NDOY/ZTDG after, Nitro replay with the organic split added by hand
//   {"k":"final"}  rotation arrays at the end of the run
//   {"k":"run"}    success / error
func c16Cmd(args []string) {
	fs := flag.NewFlagSet("c16", flag.ExitOnError)
	work := fs.String("work", ".", "scratch copy of the examples tree")
	linesFile := fs.String("lines", "", "file with batch lines")
	slots := fs.Int("slots", 12, "rotation entries to dump")
	fs.Parse(args)
	defer stdout.Flush()
	f, err := os.Open(*linesFile)
	if err != nil {
		panic(err)
	}
	sc := bufio.NewScanner(f)
	sc.Buffer(make([]byte, 1<<20), 1<<20)
	lineNo := 0
	for sc.Scan() {
		line := sc.Text()
		if len(line) == 0 {
			continue
		}
		c16Line(*work, line, lineNo, *slots)
		lineNo++
	}
}

func c16Arrays(g *hermes.GlobalVarsMain, m int) jobj {
	frucht := make([]int, m)
	for i := 0; i < m; i++ {
		frucht[i] = int(g.FRUCHT[i])
	}
	return jobj{"saat": c10ints(g.SAAT[:m]), "saat1": c10ints(g.SAAT1[:m]), "saat2": c10ints(g.SAAT2[:m]),
		"ernte": c10ints(g.ERNTE[:m]), "ernte2": c10ints(g.ERNTE2[:m]), "frucht": frucht,
		"irrst1": hxs(g.IRRST1[:m]), "irrst2": hxs(g.IRRST2[:m]), "irrmax": hxs(g.IRRMAX[:m]),
		"irrlow": hxs(g.IRRLOW[:m]), "irrdep": hxs(g.IRRDEP[:m]),
		"ndem1": hxs(g.NDEM1[:m]), "ndem2": hxs(g.NDEM2[:m]), "ndem3": hxs(g.NDEM3[:m]),
		"odu": hxs(g.ODU[:m]), "orgtime": append([]string{}, g.ORGTIME[:m]...), "orgdoy": c10ints(g.ORGDOY[:m]),
		"dgart": append([]string{}, g.DGART[:m]...), "ztdg": c10ints(g.ZTDG[:m]),
		"ndir": hxs(g.NDIR[:m]), "nh4n": hxs(g.NH4N[:m]), "nsas": hxs(g.NSAS[:m]), "nlas": hxs(g.NLAS[:m])}
}

func c16Project(line string) string {
	for _, t := range splitArgs(line) {
		if len(t) > 8 && t[:8] == "project=" {
			return t[8:]
		}
	}
	return ""
}

// c16pick: deterministic 1-in-n sampling of days
func c16pick(lineNo, zeit, n int) bool {
	return (uint32(zeit)*2654435761+uint32(lineNo)*40503)%uint32(n) == 0
}

func c16Line(work, line string, lineNo, slots int) {
	var (
		inited             bool
		nbrEnd             = 1
		sa0, akfE          int
		e0, e20, ns0, ns20 int
		akfW, saW          int
		haveW              bool
		henv               jobj
		akfN               int
		afPre              jobj
		afHave             bool
		afDsumm, afNfert   float64
		afNdoy             [3]float64
		afZtdg             int
		hFire, sFire       bool
		preG               hermes.GlobalVarsMain
		preN               hermes.NitroSharedVars
		havePre            bool
		ztdgK              int
		skipG              hermes.GlobalVarsMain
		skipN              hermes.NitroSharedVars
		haveSkip           bool
		tEinte, tNtil, tS  int
		tE                 int
		tHave              bool
		last               jobj
		days               int
	)
	hermes.VerifProbe = func(stage string, zeit, subd int, wdt float64, g *hermes.GlobalVarsMain, w *hermes.WaterSharedVars, n *hermes.NitroSharedVars) {
		k := g.AKF.Index
		ti := g.TAG.Index
		switch stage {
		case "evatra-pre":
			if !inited {
				inited = true
				o := c16Arrays(g, slots)
				o["k"], o["line"], o["beginn"], o["ende"] = "init", lineNo, g.BEGINN, g.ENDE
				o["automan"], o["autofert"], o["autoirri"], o["autohar"] = g.AUTOMAN, g.AUTOFERT, g.AUTOIRRI, g.AUTOHAR
				emit(o)
			}
			days++
			if g.AUTOIRRI {
				fired := g.NBR != nbrEnd
				inWin := g.SAAT[k] > 0 && zeit > g.SAAT[k] && g.INTWICK.Num >= g.IRRST1[k] && g.INTWICK.Num < g.IRRST2[k]+1
				if fired || (inWin && c16pick(lineNo, zeit, 20)) || c16pick(lineNo, zeit, 90) {
					// the state the decision of run.go:415-447 was taken on (rain of the day before any irrigation was added)
					nl := g.N
					if nl > 12 {
						nl = 12
					}
					o := jobj{"k": "airr", "line": lineNo, "zeit": zeit, "akf": k, "saat": g.SAAT[k], "intwick": hx(g.INTWICK.Num),
						"irrst1": hx(g.IRRST1[k]), "irrst2": hx(g.IRRST2[k]), "irrmax": hx(g.IRRMAX[k]), "irrlow": hx(g.IRRLOW[k]),
						"irrdep": hx(g.IRRDEP[k]), "wurzmax": g.WURZMAX, "regen": hx(g.REGENdaily), "dz": hx(g.DZ.Num),
						"rain1": hx(g.REGEN[ti+1]), "rain2": hx(g.REGEN[ti+2]),
						"wg0": hxs(g.WG[0][:nl]), "w": hxs(g.W[:nl]), "wmin": hxs(g.WMIN[:nl]),
						"fired": fired, "adv": g.NBR - nbrEnd, "regen_post": hx(g.REGEN[ti])}
					if fired {
						o["amount"], o["ztbr"] = hx(g.BREG[g.NBR-2]), g.ZTBR[g.NBR-2]
					}
					emit(o)
				}
			}
		case "evatra":
			sa0, akfE = g.SAAT[k], k
		case "steps":
			if g.AUTOMAN && g.AKF.Num > 1 && k == akfE && (sa0 == 0 || g.SAAT[k] != sa0) && ((zeit >= g.SAAT1[k]-2 && zeit <= g.SAAT2[k]+1) || g.SAAT[k] != sa0) {
				nw := int(g.TSLWINDOW[k])
				temps := []float64{}
				if nw >= 0 && ti-nw >= 0 {
					for I := 1; I <= nw; I++ {
						temps = append(temps, g.TEMP[ti-I])
					}
				}
				rp := 0.0
				if ti >= 1 {
					rp = g.REGEN[ti-1]
				}
				emit(jobj{"k": "sow", "line": lineNo, "zeit": zeit, "akf": k, "before": sa0, "after": g.SAAT[k],
					"saat1": g.SAAT1[k], "saat2": g.SAAT2[k], "prev": g.ERNTE[k-1],
					"tagnum": hx(g.TAG.Num), "tagidx": ti, "window": hx(g.TSLWINDOW[k]), "temps": hxs(temps), "temp": hx(g.TEMP[ti]),
					"tjahrsum": hx(g.TJAHRSUM), "tjahr": hx(g.TJAHR[k]), "tslmin": hx(g.TSLMIN[k]), "tslmax": hx(g.TSLMAX[k]),
					"wg00": hx(g.WG[0][0]), "regen": hx(g.REGEN[ti]), "regen_prev": hx(rp), "dz": hx(g.DZ.Num),
					"wmin0": hx(g.WMIN[0]), "wnor0": hx(g.WNOR[0]), "minmoi": hx(g.MINMOI[k]), "maxmoi": hx(g.MAXMOI[k])})
			}
		case "water":
			if subd == 1 {
				akfW, saW, haveW = k, g.SAAT[k], true
				e0, e20, ns0, ns20 = g.ERNTE[k], g.ERNTE2[k], g.SAAT[k+1], g.SAAT2[k+1]
				// state the harvest test of crop.go:183-199 is taken on (PhytoOut runs next)
				ii := g.INTWICK.Index
				henv = nil
				if ii >= 0 && ii < 9 {
					r1, r2, r3 := 0.0, 0.0, 0.0
					if ti >= 3 {
						r1, r2, r3 = g.REGEN[ti-1], g.REGEN[ti-2], g.REGEN[ti-3]
					}
					henv = jobj{"sum0": hx(g.SUM[0]), "tsum0": hx(g.TSUM[0]), "num": int(g.INTWICK.Num), "sum": hx(g.SUM[ii]), "tsum": hx(g.TSUM[ii]),
						"tsum_next": hx(g.TSUM[ii+1]), "wg00": hx(g.WG[0][0]), "regen": hx(g.REGEN[ti]), "dz": hx(g.DZ.Num),
						"wmin0": hx(g.WMIN[0]), "wnor0": hx(g.WNOR[0]), "minhmoi": hx(g.MINHMOI[k]), "maxhmoi": hx(g.MAXHMOI[k]),
						"tagnum": hx(g.TAG.Num), "r1": hx(r1), "r2": hx(r2), "r3": hx(r3), "rainlim": hx(g.RAINLIM[k]), "rainact": hx(g.RAINACT[k])}
				}
			}
		case "nitro-pre":
			if subd == 1 && haveW && k == akfW {
				called := g.AKF.Num > 1 && saW > 0 && zeit >= saW && zeit <= e20
				changed := g.ERNTE[k] != e0 || g.ERNTE2[k] != e20 || g.SAAT[k+1] != ns0 || g.SAAT2[k+1] != ns20
				if changed || (g.AUTOHAR && called && e0 == 0 && (zeit >= e20-2 || (g.INTWICK.Index >= 2 && c16pick(lineNo, zeit, 8)))) {
					o := jobj{"k": "hdec", "line": lineNo, "zeit": zeit, "akf": k, "called": called,
						"e": []int{e0, e20, g.ERNTE[k], g.ERNTE2[k]}, "next": []int{ns0, ns20, g.SAAT[k+1], g.SAAT2[k+1]}}
					if henv != nil {
						o["env"] = henv
					}
					emit(o)
				}
			}
			akfN, ztdgK = k, g.ZTDG[k]
			tHave = false
			if subd == 1 && g.NTIL.Index+1 < 200 {
				// state the tillage block of nitro.go:231-281 works on (SAAT/ERNTE of the current entry after the day's crop growth)
				tEinte, tNtil, tS, tE, tHave = g.EINTE[g.NTIL.Index+1], g.NTIL.Index, g.SAAT[k], g.ERNTE[k], true
			}
			afHave, havePre = false, false
			haveSkip = false
			if subd == 1 && k >= 1 && zeit == g.ERNTE[k] && g.AUTOMAN && g.SAAT2[k+1] <= zeit && g.ODU[k] == 1 && g.ORGTIME[k] == "H" {
				skipG, skipN, haveSkip = *g, *n, true
			}
			if g.AUTOFERT && subd == 1 {
				t5 := make([]float64, 5)
				if ti >= 4 {
					for i := 0; i < 5; i++ {
						t5[i] = g.TEMP[ti-i]
					}
				}
				rp := 0.0
				if ti >= 1 {
					rp = g.REGEN[ti-1]
				}
				prevH, curS := false, false
				zp := 0
				pp, pc := []float64{0, 0, 0}, []float64{g.NSAS[k], g.NLAS[k], g.NDIR[k]}
				if k >= 1 {
					prevH = g.ODU[k-1] == 1 && g.ORGTIME[k-1] == "H"
					curS = g.ODU[k] == 1 && g.ORGTIME[k-1] == "S"
					zp = g.ZTDG[k-1]
					pp = []float64{g.NSAS[k-1], g.NLAS[k-1], g.NDIR[k-1]}
				}
				afPre = jobj{"k": "af", "line": lineNo, "zeit": zeit, "akf": k, "saat": g.SAAT[k], "intwick": hx(g.INTWICK.Num), "tagnum": hx(g.TAG.Num),
					"t5": hxs(t5), "regen": hx(g.REGEN[ti]), "regen_prev": hx(rp), "regen_next": hx(g.REGEN[ti+1]),
					"c1": hxs(g.C1[:9]), "wurz": g.WURZ, "ndem": []string{hx(g.NDEM1[k]), hx(g.NDEM2[k]), hx(g.NDEM3[k])},
					"ndoy": []string{hx(g.NDOY1[k]), hx(g.NDOY2[k]), hx(g.NDOY3[k])},
					"prev_h": prevH, "ztdg_prev": zp, "pay_prev": hxs(pp), "cur_s": curS, "orgdoy": g.ORGDOY[k], "pay_cur": hxs(pc), "ztdg": g.ZTDG[k],
					"pools": []string{hx(g.NFOS[0]), hx(g.NAOS[0]), hx(g.DSUMM), hx(g.C1[0]), hx(g.NFERTSIM)}}
				afHave = true
				afDsumm, afNfert, afZtdg = g.DSUMM, g.NFERTSIM, g.ZTDG[k]
				afNdoy = [3]float64{g.NDOY1[k], g.NDOY2[k], g.NDOY3[k]}
				// is an organic application due in this call?  (integer logic of nitro.go:74-76, 90-96)
				hFire = prevH && zeit == zp
				sFire = false
				if g.SAAT[k] > 0 && zeit >= g.SAAT[k] && curS {
					zt := g.ZTDG[k]
					if zeit == g.SAAT[k] {
						zt = zeit + g.ORGDOY[k]
					}
					sFire = zeit == zt
				}
				if (hFire || sFire) && zeit != g.ERNTE[k] {
					preG, preN, havePre = *g, *n, true
				}
			}
		case "nitro":
			if tHave && g.AKF.Index-akfN < 2 && (tEinte != 0 || g.EINTE[tNtil+1] != 0) &&
				(g.EINTE[tNtil+1] != tEinte || g.NTIL.Index != tNtil || zeit >= tEinte-1 && zeit <= tEinte+1) {
				emit(jobj{"k": "till", "line": lineNo, "zeit": zeit, "saat": tS, "ernte": tE, "einte": tEinte, "autohar": g.AUTOHAR,
					"einte_after": g.EINTE[tNtil+1], "fired": g.NTIL.Index != tNtil, "depth": hx(g.EINT[tNtil])})
			}
			if g.AKF.Index != akfN {
				kk := akfN
				o := jobj{"k": "harv", "line": lineNo, "zeit": zeit, "subd": subd, "akf": kk, "adv": g.AKF.Index - kk,
					"org_h": g.ODU[kk] == 1 && g.ORGTIME[kk] == "H", "orgdoy": g.ORGDOY[kk], "saat2_next": g.SAAT2[kk+1], "automan": g.AUTOMAN,
					"ztdg_before": ztdgK, "ztdg_after": g.ZTDG[kk], "einte_next": g.EINTE[g.NTIL.Index+1]}
				if haveSkip && g.AKF.Index-kk == 2 {
					// crop skip: re-run the harvest call on a copy of the pre-state in which the next entry's window is still
					// open (no skip); the skip must add exactly NLAS[k] to NAOS[0] and NDIR[k] to DSUMM and leave NFOS[0] alone
					gg, ll := skipG, skipN
					gg.SAAT2[kk+1] = zeit + 1
					if c10Mute(&gg) {
						var ln hermes.NitroBBBSharedVars
						var out hermes.CropOutputVars
						hp := hermes.NewHermesFilePath(work, c16Project(line), "0", "", "")
						_, err := hermes.Nitro(wdt, subd, zeit, &gg, &ll, &ln, &hp, &out)
						if err == nil && gg.AKF.Index-kk == 1 {
							o["skip"] = jobj{"noskip": []string{hx(gg.NAOS[0]), hx(gg.DSUMM), hx(gg.NFOS[0])}, "real": []string{hx(g.NAOS[0]), hx(g.DSUMM), hx(g.NFOS[0])},
								"pay": []string{hx(g.NSAS[kk]), hx(g.NLAS[kk]), hx(g.NDIR[kk])}}
						} else {
							o["skip"] = jobj{"error": true}
						}
					}
				}
				emit(o)
			} else if afHave {
				changed := !c10same(g.NFERTSIM, afNfert) || !c10same(g.DSUMM, afDsumm) || g.ZTDG[k] != afZtdg ||
					!c10same(g.NDOY1[k], afNdoy[0]) || !c10same(g.NDOY2[k], afNdoy[1]) || !c10same(g.NDOY3[k], afNdoy[2])
				gate := g.SAAT[k] > 0 && zeit >= g.SAAT[k]
				if changed || hFire || sFire || (gate && c16pick(lineNo, zeit, 25)) || c16pick(lineNo, zeit, 120) {
					afPre["post"] = []string{hx(g.DSUMM), hx(g.NFERTSIM), hx(g.NDOY1[k]), hx(g.NDOY2[k]), hx(g.NDOY3[k])}
					afPre["ztdg_post"] = g.ZTDG[k]
					afPre["h_fire"], afPre["s_fire"] = hFire, sFire
					replay := "none"
					if havePre {
						// property statement applied by hand on a copy of the pre-state, organic branch disabled, Nitro re-run:
						// must reproduce the real post-state bit for bit
						gg, ll := preG, preN
						if hFire {
							gg.NFOS[0] += gg.NSAS[k-1]
							gg.NAOS[0] += gg.NLAS[k-1]
							gg.DSUMM += gg.NDIR[k-1]
							gg.ODU[k-1] = 0
						}
						if sFire {
							gg.NFOS[0] += gg.NSAS[k]
							gg.NAOS[0] += gg.NLAS[k]
							gg.C1[0] += gg.NDIR[k]
							if gg.C1[0] < 0 {
								gg.C1[0] = 0
							}
							gg.ODU[k] = 0
						}
						if c10Mute(&gg) {
							var ln hermes.NitroBBBSharedVars
							var hp hermes.HFilePath
							var out hermes.CropOutputVars
							_, err := hermes.Nitro(wdt, subd, zeit, &gg, &ll, &ln, &hp, &out)
							ok := err == nil && c10same(gg.DSUMM, g.DSUMM) && c10same(gg.NFERTSIM, g.NFERTSIM)
							for i := 0; i < 21 && ok; i++ {
								ok = c10same(gg.NFOS[i], g.NFOS[i]) && c10same(gg.NAOS[i], g.NAOS[i]) && c10same(gg.C1[i], g.C1[i])
							}
							if ok {
								replay = "ok"
							} else {
								replay = "differs"
							}
						} else {
							replay = "no-mute"
						}
					}
					afPre["replay"] = replay
					emit(afPre)
				}
			}
		case "dayend":
			nbrEnd = g.NBR
			last = c16Arrays(g, slots)
		}
	}
	res := c16RunRecover(work, line)
	hermes.VerifProbe = nil
	if last != nil {
		last["k"], last["line"] = "final", lineNo
		emit(last)
	}
	emit(jobj{"k": "run", "line": lineNo, "success": res.Success, "err": res.Err, "days": days})
}

// c16RunRecover runs one batch line; a panic inside the simulator ends that run only (reported as its error)
func c16RunRecover(work, line string) (res runResult) {
	defer func() {
		if r := recover(); r != nil {
			res = runResult{Success: false, Err: fmt.Sprintf("panic: %v", r)}
		}
	}()
	return runProject(work, splitArgs(line))
}
