package main

import (
	"bufio"
	"flag"
	"os"

	"github.com/zalf-rpm/Hermes2Go/hermes"
)

func init() { commands["c16"] = c16Cmd }

// c16Cmd runs batch lines in-process with the day-loop probe and emits, per line,
//   {"k":"init"}   rotation arrays and automation windows as Input left them
//   {"k":"sow"}    one record per day on which the automatic sowing block could act (window open or about to)
//   {"k":"hdec"}   automatic harvest decision of a day (every change, and the days around the latest date)
//   {"k":"harv"}   crop cursor advance (harvest executed)
//   {"k":"airr"}   automatic irrigation applied: stage window, IRRMAX, deficit recomputed from the probed state, amount
//   {"k":"an"}     automatic N: NFERTSIM before/after a Nitro call and the three (demand, Nmin) candidates
//   {"k":"final"}  rotation arrays at the end of the run
//   {"k":"run"}    success / error
func c16Cmd(args []string) {
	fs := flag.NewFlagSet("c16", flag.ExitOnError)
	work := fs.String("work", ".", "scratch copy of the examples tree")
	linesFile := fs.String("lines", "", "file with batch lines")
	slots := fs.Int("slots", 12, "rotation entries to dump")
	fs.Parse(args)
	defer stdout.Flush()
	f, err := os.Open(*linesFile)
	if err != nil {
		panic(err)
	}
	sc := bufio.NewScanner(f)
	sc.Buffer(make([]byte, 1<<20), 1<<20)
	lineNo := 0
	for sc.Scan() {
		line := sc.Text()
		if len(line) == 0 {
			continue
		}
		c16Line(*work, line, lineNo, *slots)
		lineNo++
	}
}

func c16Arrays(g *hermes.GlobalVarsMain, m int) jobj {
	frucht := make([]int, m)
	for i := 0; i < m; i++ {
		frucht[i] = int(g.FRUCHT[i])
	}
	return jobj{"saat": c10ints(g.SAAT[:m]), "saat1": c10ints(g.SAAT1[:m]), "saat2": c10ints(g.SAAT2[:m]),
		"ernte": c10ints(g.ERNTE[:m]), "ernte2": c10ints(g.ERNTE2[:m]), "frucht": frucht,
		"irrst1": hxs(g.IRRST1[:m]), "irrst2": hxs(g.IRRST2[:m]), "irrmax": hxs(g.IRRMAX[:m]),
		"irrlow": hxs(g.IRRLOW[:m]), "irrdep": hxs(g.IRRDEP[:m]),
		"ndem1": hxs(g.NDEM1[:m]), "ndem2": hxs(g.NDEM2[:m]), "ndem3": hxs(g.NDEM3[:m])}
}

func c16Line(work, line string, lineNo, slots int) {
	var (
		inited             bool
		nbrEnd             = 1
		sa0, akfE          int
		e0, e20, ns0, ns20 int
		akfW, saW          int
		haveW              bool
		akfN               int
		nfert0             float64
		cand               [3][2]float64
		last               jobj
		days               int
	)
	hermes.VerifProbe = func(stage string, zeit, subd int, wdt float64, g *hermes.GlobalVarsMain, w *hermes.WaterSharedVars, n *hermes.NitroSharedVars) {
		k := g.AKF.Index
		switch stage {
		case "evatra-pre":
			if !inited {
				inited = true
				o := c16Arrays(g, slots)
				o["k"], o["line"], o["beginn"], o["ende"] = "init", lineNo, g.BEGINN, g.ENDE
				o["automan"], o["autofert"], o["autoirri"], o["autohar"] = g.AUTOMAN, g.AUTOFERT, g.AUTOIRRI, g.AUTOHAR
				emit(o)
			}
			days++
			if g.NBR != nbrEnd && g.AUTOIRRI {
				// recompute the deficit of run.go:419-440 from the probed state (rain of the day before the irrigation was added)
				regen := g.REGENdaily
				NFKSUM, DEFZSUM := 0.0, 0.0
				maxdepth := g.WURZMAX
				if int(g.IRRDEP[k]) < maxdepth {
					maxdepth = int(g.IRRDEP[k])
				}
				for I := 1; I <= maxdepth; I++ {
					index := I - 1
					var NFK, DEFZ float64
					if I == 1 {
						NFK = (g.WG[0][index] + (regen / g.DZ.Num) - g.WMIN[index]) / (g.W[index] - g.WMIN[index])
						DEFZ = (g.W[index] - g.WG[0][index] - (regen / g.DZ.Num)) * 100
					} else {
						NFK = (g.WG[0][index] - g.WMIN[index]) / (g.W[index] - g.WMIN[index])
						DEFZ = (g.W[index] - g.WG[0][index]) * 100
					}
					if NFK < 0 {
						NFK = 0
					}
					if NFK > 1 {
						NFK = 1
						DEFZ = 0
					}
					NFKSUM = NFKSUM + NFK
					DEFZSUM = DEFZSUM + DEFZ
				}
				emit(jobj{"k": "airr", "line": lineNo, "zeit": zeit, "akf": k, "saat": g.SAAT[k], "intwick": hx(g.INTWICK.Num),
					"irrst1": hx(g.IRRST1[k]), "irrst2": hx(g.IRRST2[k]), "irrmax": hx(g.IRRMAX[k]), "defzsum": hx(DEFZSUM),
					"amount": hx(g.BREG[g.NBR-2]), "ztbr": g.ZTBR[g.NBR-2], "adv": g.NBR - nbrEnd,
					"regen_pre": hx(regen), "regen_post": hx(g.REGEN[g.TAG.Index])})
			}
		case "evatra":
			sa0, akfE = g.SAAT[k], k
		case "steps":
			if g.AUTOMAN && g.AKF.Num > 1 && k == akfE && (sa0 == 0 || g.SAAT[k] != sa0) && ((zeit >= g.SAAT1[k]-2 && zeit <= g.SAAT2[k]+1) || g.SAAT[k] != sa0) {
				emit(jobj{"k": "sow", "line": lineNo, "zeit": zeit, "akf": k, "before": sa0, "after": g.SAAT[k],
					"saat1": g.SAAT1[k], "saat2": g.SAAT2[k], "prev": g.ERNTE[k-1]})
			}
		case "water":
			if subd == 1 {
				akfW, saW, haveW = k, g.SAAT[k], true
				e0, e20, ns0, ns20 = g.ERNTE[k], g.ERNTE2[k], g.SAAT[k+1], g.SAAT2[k+1]
			}
		case "nitro-pre":
			if subd == 1 && haveW && k == akfW {
				called := g.AKF.Num > 1 && saW > 0 && zeit >= saW && zeit <= e20
				changed := g.ERNTE[k] != e0 || g.ERNTE2[k] != e20 || g.SAAT[k+1] != ns0 || g.SAAT2[k+1] != ns20
				if changed || (g.AUTOHAR && called && e0 == 0 && zeit >= e20-2) {
					emit(jobj{"k": "hdec", "line": lineNo, "zeit": zeit, "akf": k, "called": called,
						"e": []int{e0, e20, g.ERNTE[k], g.ERNTE2[k]}, "next": []int{ns0, ns20, g.SAAT[k+1], g.SAAT2[k+1]}})
				}
			}
			akfN, nfert0 = k, g.NFERTSIM
			if g.AUTOFERT && subd == 1 {
				nmin30 := 0.0
				for i := 0; i < 3; i++ {
					nmin30 = nmin30 + g.C1[i]
				}
				nminw := 0.0
				wz := g.WURZ
				if wz > 9 {
					wz = 9
				}
				for i := 0; i < wz; i++ {
					nminw = nminw + g.C1[i]
				}
				cand = [3][2]float64{{g.NDEM1[k], nmin30}, {g.NDEM2[k], nminw}, {g.NDEM3[k], nminw}}
			}
		case "nitro":
			if g.AKF.Index != akfN {
				emit(jobj{"k": "harv", "line": lineNo, "zeit": zeit, "subd": subd, "akf": akfN, "adv": g.AKF.Index - akfN})
			} else if g.AUTOFERT && !c10same(g.NFERTSIM, nfert0) {
				emit(jobj{"k": "an", "line": lineNo, "zeit": zeit, "subd": subd, "akf": akfN, "pre": hx(nfert0), "post": hx(g.NFERTSIM),
					"cand": [][]string{{hx(cand[0][0]), hx(cand[0][1])}, {hx(cand[1][0]), hx(cand[1][1])}, {hx(cand[2][0]), hx(cand[2][1])}}})
			}
		case "dayend":
			nbrEnd = g.NBR
			last = c16Arrays(g, slots)
		}
	}
	res := runProject(work, splitArgs(line))
	hermes.VerifProbe = nil
	if last != nil {
		last["k"], last["line"] = "final", lineNo
		emit(last)
	}
	emit(jobj{"k": "run", "line": lineNo, "success": res.Success, "err": res.Err, "days": days})
}
