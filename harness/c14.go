package main

import (
	"bufio"
	"encoding/json"
	"flag"
	"fmt"
	"math"
	"os"
	"os/exec"
	"path/filepath"
	"reflect"
	"strconv"
	"strings"

	"github.com/zalf-rpm/Hermes2Go/hermes"
)

func init() { commands["c14"] = c14 }

// c14 schema                      one JSON line per field of hermes.Config (reflection over the type and over
//                                 NewDefaultConfig()): name, yaml key, reflect kind, Go type, default
// c14 cases -seed S -n N -dir D   generated (project file, batch line) cases run through the REAL readConfig
//                                 (hermes.VerifReadConfig); one JSON line per case; "ORACLE ..." lines for every
//                                 deviation from the precedence rule evaluated directly on the real results
type c14Field struct {
	Name, Yaml, Kind, Type string
	Default               interface{}
}

type c14Case struct {
	ID      int               `json:"id"`
	Group   int               `json:"group"` // cases of one group differ only in the order of their tokens
	Root    string            `json:"root"`
	HasFile bool              `json:"hasfile"`
	File    [][2]interface{}  `json:"file"`   // (field, decoded value the file gives)
	Tokens  []string          `json:"tokens"` // the batch line after strings.Fields
	Hist    [][]string        `json:"hist"`   // batch lines run before (real Run, child process) on the same project, which starts WITHOUT config.yml
	Kind    string            `json:"kind"`   // random | sweep (one key in the file, none on the line) | seq
	PF      map[string]string `json:"pf"`     // strconv.ParseFloat of every argument value: bits, "" = error
	Risky   bool              `json:"risky"`  // a numeric argument was generated malformed on purpose
	Fatal   bool              `json:"fatal"`  // readConfig ended the process (log.Fatal)
	Diff    [][2]interface{}  `json:"diff"`   // fields of the returned Config that differ from the default
	yaml    string
	typed   map[string]interface{}
}

func c14Fields() []c14Field {
	def := hermes.NewDefaultConfig()
	t := reflect.TypeOf(def)
	v := reflect.ValueOf(def)
	var out []c14Field
	for i := 0; i < t.NumField(); i++ {
		f := t.Field(i)
		tag := strings.Split(f.Tag.Get("yaml"), ",")[0]
		out = append(out, c14Field{Name: f.Name, Yaml: tag, Kind: f.Type.Kind().String(), Type: f.Type.String(), Default: c14Enc(v.Field(i))})
	}
	return out
}

// float64 -> decimal string of its bits, ints -> decimal string, string, bool
func c14Enc(v reflect.Value) interface{} {
	switch v.Kind() {
	case reflect.Float64:
		return "f" + strconv.FormatUint(math.Float64bits(v.Float()), 10)
	case reflect.Int:
		return "i" + strconv.FormatInt(v.Int(), 10)
	case reflect.String:
		return "s" + v.String()
	case reflect.Bool:
		if v.Bool() {
			return "b1"
		}
		return "b0"
	}
	return "?" + v.Kind().String()
}

var c14Switch = map[string]bool{"1": true, "0": false, "on": true, "off": false, "yes": true, "no": false, "true": true, "false": false}

func c14(args []string) {
	if len(args) > 0 && args[0] == "schema" {
		enc := json.NewEncoder(os.Stdout)
		for _, f := range c14Fields() {
			enc.Encode(f)
		}
		return
	}
	if len(args) == 2 && args[0] == "defaultyaml" {
		// the rendering of NewDefaultConfig(), by the writer Run uses for a missing config.yml
		s := hermes.NewHermesSession()
		s.WriteYamlConfig(args[1], hermes.NewDefaultConfig())
		s.Close()
		return
	}
	if len(args) > 2 && args[0] == "runline" {
		// vh c14 runline <root> tok...: the REAL Run on one batch line (ends in log.Fatal on the stub project, after
		// the configuration step); only its effect on project/p/config.yml matters
		hermes.NewHermesSession().Run(args[1], args[2:], "1", nil, nil)
		return
	}
	if len(args) == 0 || args[0] != "cases" {
		fmt.Fprintln(os.Stderr, "usage: vh c14 schema | cases -seed S -n N -dir D")
		os.Exit(2)
	}
	fs := flag.NewFlagSet("c14", flag.ExitOnError)
	seed := fs.Uint64("seed", 1, "seed")
	n := fs.Int("n", 300, "number of base cases")
	dir := fs.String("dir", "", "scratch directory")
	only := fs.Int("only", -1, "run only this case id (child process for cases expected to end in log.Fatal)")
	fs.Parse(args[1:])
	if *dir == "" {
		fmt.Fprintln(os.Stderr, "c14: -dir required")
		os.Exit(2)
	}
	fields := c14Fields()
	cases := c14Generate(newRng(*seed), fields, *n, *dir)
	w := bufio.NewWriterSize(os.Stdout, 1<<20)
	defer w.Flush()
	if null, err := os.OpenFile(os.DevNull, os.O_WRONLY, 0); err == nil {
		os.Stdout = null // Run prints progress lines ("Generate config ...") with fmt.Println
	}
	enc := json.NewEncoder(w)
	if *only >= 0 {
		c := cases[*only]
		c14Run(c, fields, w)
		enc.Encode(c)
		return
	}
	self, _ := os.Executable()
	for _, c := range cases {
		if c.Risky {
			// the real code ends the process on a malformed number: observe that in a child
			w.Flush()
			cmd := exec.Command(self, "c14", "cases", "-seed", strconv.FormatUint(*seed, 10), "-n", strconv.Itoa(*n), "-dir", *dir, "-only", strconv.Itoa(c.ID))
			out, err := cmd.Output()
			if err != nil {
				c.Fatal = true
				c14Oracle(c, fields, nil, w)
				enc.Encode(c)
			} else {
				w.Write(out)
			}
			continue
		}
		c14Run(c, fields, w)
		enc.Encode(c)
	}
}

func c14Run(c *c14Case, fields []c14Field, w *bufio.Writer) {
	proj := filepath.Join(c.Root, "project", "p")
	os.MkdirAll(proj, 0o755)
	if c.HasFile {
		os.WriteFile(filepath.Join(proj, "config.yml"), []byte(c.yaml), 0o644)
	}
	// The tie goes through the REAL hermes.Run: the verif hook VerifConfig (called by Run right after readConfig) hands
	// over the effective configuration; the probe then ends the run with a private panic value recovered here.
	session := hermes.NewHermesSession()
	if len(c.Hist) > 0 {
		self, _ := os.Executable()
		for _, line := range c.Hist {
			if c.ID%2 == 0 {
				c14ViaRun(session, c.Root, line) // same session
			} else {
				exec.Command(self, append([]string{"c14", "runline", c.Root}, line...)...).Run() // an earlier program start
			}
		}
		// the generated file must be the rendering of NewDefaultConfig(), whatever the lines said
		got, err := os.ReadFile(filepath.Join(proj, "config.yml"))
		ref := filepath.Join(c.Root, "default_rendering.yml")
		s := hermes.NewHermesSession()
		s.WriteYamlConfig(ref, hermes.NewDefaultConfig())
		s.Close()
		want, _ := os.ReadFile(ref)
		if err != nil {
			fmt.Fprintf(w, "ORACLE generated-config missing case=%d: Run did not generate config.yml; line=%q\n", c.ID, strings.Join(c.Hist[0], " "))
		} else if string(got) != string(want) {
			fmt.Fprintf(w, "ORACLE generated-config differs-from-defaults case=%d: config.yml generated by Run on a project without one is not the rendering of NewDefaultConfig(); first line=%q; generated=%q\n",
				c.ID, strings.Join(c.Hist[0], " "), c14DiffLines(string(want), string(got)))
		}
	}
	cfgp, ended := c14ViaRun(session, c.Root, c.Tokens)
	session.Close()
	if cfgp == nil {
		fmt.Fprintf(w, "ORACLE run-ended-before-configuration case=%d: %s; line=%q\n", c.ID, ended, strings.Join(c.Tokens, " "))
		c.Fatal = true
		return
	}
	cfg := *cfgp
	v := reflect.ValueOf(cfg)
	obs := map[string]interface{}{}
	for i, f := range fields {
		e := c14Enc(v.Field(i))
		obs[f.Name] = e
		if e != f.Default {
			c.Diff = append(c.Diff, [2]interface{}{f.Name, e})
		}
	}
	c14Oracle(c, fields, obs, w)
}

type c14Stop struct{}

// c14ViaRun runs one batch line through the real hermes.Run (in this goroutine) up to the configuration probe
func c14ViaRun(session *hermes.HermesSession, root string, tokens []string) (cfg *hermes.Config, ended string) {
	hermes.VerifConfig = func(c *hermes.Config, g *hermes.GlobalVarsMain) {
		cp := *c
		cfg = &cp
		panic(c14Stop{})
	}
	defer func() {
		hermes.VerifConfig = nil
		if r := recover(); r != nil {
			if _, ok := r.(c14Stop); !ok {
				cfg, ended = nil, fmt.Sprintf("panic: %v", r)
			}
		}
	}()
	out := make(chan *hermes.RunReturn, 1)
	session.Run(root, tokens, "[0]", out, nil)
	ended = "Run returned without reaching readConfig"
	select {
	case res := <-out:
		if res != nil && res.Err != nil {
			ended = "Run returned: " + res.Err.Error()
		}
	default:
	}
	return nil, ended
}

func c14DiffLines(want, got string) string {
	have := map[string]bool{}
	for _, l := range strings.Split(want, "\n") {
		have[l] = true
	}
	var d []string
	for _, l := range strings.Split(got, "\n") {
		if !have[l] {
			d = append(d, l)
		}
	}
	if len(d) > 8 {
		d = d[:8]
	}
	return strings.Join(d, " | ")
}

// the property itself on the real result: argument (parsed per kind) over file over default
func c14Oracle(c *c14Case, fields []c14Field, obs map[string]interface{}, w *bufio.Writer) {
	last := map[string]string{}
	for _, t := range c.Tokens {
		if p := strings.Split(t, "="); len(p) == 2 {
			last[p[0]] = p[1]
		}
	}
	wantFatal := false
	want := map[string]interface{}{}
	src := map[string]string{}
	for _, f := range fields {
		x, s := f.Default, "default"
		if tv, ok := c.typed[f.Name]; ok {
			x, s = tv, "file"
		}
		if a, ok := last[f.Name]; ok {
			switch f.Kind {
			case "float64":
				if v, err := strconv.ParseFloat(a, 64); err == nil {
					x, s = "f"+strconv.FormatUint(math.Float64bits(v), 10), "argument"
				} else {
					wantFatal = true
				}
			case "int":
				if v, err := strconv.ParseInt(a, 10, 64); err == nil {
					x, s = "i"+strconv.FormatInt(v, 10), "argument"
				} else {
					wantFatal = true
				}
			case "string":
				x, s = "s"+a, "argument"
			case "bool":
				if b, ok := c14Switch[a]; ok {
					s = "argument"
					if b {
						x = "b1"
					} else {
						x = "b0"
					}
				}
			}
		}
		want[f.Name], src[f.Name] = x, s
	}
	if wantFatal != c.Fatal {
		fmt.Fprintf(w, "ORACLE abort case=%d malformed-number=%v process-ended=%v line=%q\n", c.ID, wantFatal, c.Fatal, strings.Join(c.Tokens, " "))
		return
	}
	if c.Fatal {
		return
	}
	for _, f := range fields {
		x := want[f.Name]
		if f.Name == "WeatherFolder" || f.Name == "WeatherRootFolder" || f.Name == "ResultFileExt" {
			s := x.(string)
			if s == "s" || strings.HasPrefix(s, "s./") || strings.HasPrefix(s, "s.\\") {
				continue // documented fix-ups of empty / relative values
			}
		}
		if obs[f.Name] != x {
			fmt.Fprintf(w, "ORACLE precedence %s (%s) from=%s case=%d kind=%s want=%v got=%v line=%q file=%q earlier-lines=%q\n", f.Name, f.Kind, src[f.Name], c.ID, c.Kind, x, obs[f.Name],
				strings.Join(c.Tokens, " "), c.yaml, c.Hist)
		}
	}
}

func c14Generate(r *rng, fields []c14Field, n int, dir string) []*c14Case {
	pick := func(xs []string) string { return xs[r.intn(len(xs))] }
	word := func() string {
		k := r.intn(7)
		b := make([]byte, k)
		for i := range b {
			b[i] = "abcXYZ019_./%-"[r.intn(14)]
		}
		return string(b)
	}
	safeDates := []string{"05072011", "01011990", "12122050", "09101985", "11112000"}
	goodFloat := []string{"12.5", "-3", "1e3", ".5", "+7.25", "0", "360", "-99.9", "52.52", "0x1p-2", "1E-3", "100000000000000000000", "Inf", "NaN", "0.1"}
	badFloat := []string{"abc", "1,5", "", "1.2.3", "--1", "1e", "12x"}
	goodInt := []string{"12", "-4", "+3", "007", "0", "15", "2024", "9223372036854775807", "-9223372036854775808"}
	badInt := []string{"1.5", "abc", "", "9223372036854775808", "1_000", "0x10", "1e3", "+-2"}
	boolArg := []string{"1", "0", "on", "off", "yes", "no", "true", "false", "On", "TRUE", "2", "maybe", "", "ja"}
	fileFloat := []float64{0, 1.5, -99.9, 360, 1e-3, 52.52, 1e10, 3, -7, 0.13}
	fileInt := []int64{0, 1, -5, 15, 2024, 80, 1 << 40, 3}
	fileBool := []string{"1", "0", "on", "off", "yes", "no", "true", "false", "\"maybe\"", "\"On\""}
	var cases []*c14Case
	id, group := 0, 0
	for k := 0; k < n; k++ {
		c := &c14Case{Group: group, Kind: "random", PF: map[string]string{}, typed: map[string]interface{}{}}
		group++
		// ----- project file -----
		pFile := []float64{0, 0.1, 0.3, 0.8}[r.intn(4)]
		c.HasFile = r.chance(0.85)
		var y strings.Builder
		if c.HasFile {
			for _, f := range fields {
				if !r.chance(pFile) {
					continue
				}
				var typed interface{}
				switch {
				case f.Name == "EndDate":
					s := pick(safeDates)
					fmt.Fprintf(&y, "%s: \"%s\"\n", f.Name, s)
					typed = "s" + s
				case f.Type == "hermes.DateFormat":
					i := []int{1, 3}[r.intn(2)]
					fmt.Fprintf(&y, "%s: %s\n", f.Name, []string{"DateDEshort", "DateDElong", "DateENshort", "DateENlong"}[i])
					typed = "i" + strconv.Itoa(i)
				case f.Type == "hermes.GroundWaterFrom":
					i := r.intn(3)
					fmt.Fprintf(&y, "%s: %s\n", f.Name, []string{"polygonfile", "soilfile", "gwTimeSeries"}[i])
					typed = "i" + strconv.Itoa(i)
				case f.Kind == "float64":
					v := fileFloat[r.intn(len(fileFloat))]
					fmt.Fprintf(&y, "%s: %s\n", f.Name, strconv.FormatFloat(v, 'g', -1, 64))
					typed = "f" + strconv.FormatUint(math.Float64bits(v), 10)
				case f.Kind == "int":
					v := fileInt[r.intn(len(fileInt))]
					fmt.Fprintf(&y, "%s: %d\n", f.Name, v)
					typed = "i" + strconv.FormatInt(v, 10)
				case f.Kind == "string":
					s := word()
					fmt.Fprintf(&y, "%s: \"%s\"\n", f.Name, s)
					typed = "s" + s
				case f.Kind == "bool":
					s := pick(fileBool)
					fmt.Fprintf(&y, "%s: %s\n", f.Name, s)
					typed = "b0"
					if c14Switch[strings.Trim(s, "\"")] {
						typed = "b1"
					}
				default:
					continue
				}
				c.typed[f.Name] = typed
				c.File = append(c.File, [2]interface{}{f.Name, typed})
			}
			if r.chance(0.2) {
				fmt.Fprintf(&y, "NoSuchKey: 5\n") // unknown key in the file: ignored by the decoder
			}
		}
		c.yaml = y.String()
		// ----- batch line -----
		pArg := []float64{0, 0.05, 0.2, 0.6}[r.intn(4)]
		malformed := r.chance(0.12)
		distinct := true
		for _, f := range fields {
			if !r.chance(pArg) {
				continue
			}
			reps := 1
			if r.chance(0.1) {
				reps = 2 // the same key twice: the later one counts
				distinct = false
			}
			for ; reps > 0; reps-- {
				var v string
				switch {
				case f.Name == "EndDate":
					v = pick(safeDates)
				case f.Type == "hermes.DateFormat":
					v = pick([]string{"1", "3"})
				case f.Type == "hermes.GroundWaterFrom":
					v = pick([]string{"0", "1", "2"})
				case f.Kind == "float64":
					v = pick(goodFloat)
					if malformed && r.chance(0.3) {
						v = pick(badFloat)
						c.Risky = true
					}
				case f.Kind == "int":
					v = pick(goodInt)
					if malformed && r.chance(0.3) {
						v = pick(badInt)
						c.Risky = true
					}
				case f.Kind == "string":
					v = word()
				case f.Kind == "bool":
					v = pick(boolArg)
				}
				c.Tokens = append(c.Tokens, f.Name+"="+v)
			}
		}
		for j := r.intn(4); j > 0; j-- { // tokens that must be ignored
			c.Tokens = append(c.Tokens, pick([]string{"project=p", "plotNr=1", "latitude=3", "Foo=bar", "novalue", "Latitude=1=2", "=x", "StartYear", "fcode=109_120",
				"ETpot==2", "Altitude=5=", "resultfolder=RESULT/x", "c_TSUM_1=200", "soilId=075"}))
		}
		if r.chance(0.3) { // crop override arguments share the map (and the prefix "CropFile") with the configuration keys
			c.Tokens = append(c.Tokens, "CropFile=PARAM.WW", "c_TSUM_1=200", "c_MAXAMAX=50")
		}
		// the default EndDate 31122010 is no date in the month-first format: keep the pair date-safe
		{
			en := c.typed["Dateformat"] == "i3"
			hasEnd := c.typed["EndDate"] != nil
			for _, t := range c.Tokens {
				en = en || t == "Dateformat=3"
				hasEnd = hasEnd || strings.HasPrefix(t, "EndDate=")
			}
			if en && !hasEnd {
				c.Tokens = append(c.Tokens, "EndDate="+pick(safeDates))
			}
		}
		// shuffle
		for i := len(c.Tokens) - 1; i > 0; i-- {
			j := r.intn(i + 1)
			c.Tokens[i], c.Tokens[j] = c.Tokens[j], c.Tokens[i]
		}
		c.ID = id
		cases = append(cases, c)
		id++
		// siblings: the same arguments written in another order (only when every key occurs once)
		if distinct && len(c.Tokens) > 1 && r.chance(0.5) {
			for s := 0; s < 2; s++ {
				d := *c
				d.PF = map[string]string{}
				d.Tokens = append([]string(nil), c.Tokens...)
				for i := len(d.Tokens) - 1; i > 0; i-- {
					j := r.intn(i + 1)
					d.Tokens[i], d.Tokens[j] = d.Tokens[j], d.Tokens[i]
				}
				d.ID = id
				cases = append(cases, &d)
				id++
			}
		}
	}
	// ----- per-key sweep: the project file sets ONLY this key (written under its documented name = the name that
	// works on the batch line) to a non-default value, the line does not mention it: the run must use that value
	for _, f := range fields {
		c := &c14Case{Group: group, ID: id, Kind: "sweep", HasFile: true, PF: map[string]string{}, typed: map[string]interface{}{}}
		group++
		id++
		d := f.Default.(string)
		var typed, text string
		switch {
		case f.Name == "EndDate":
			typed, text = "s05072011", "\"05072011\""
		case f.Type == "hermes.DateFormat":
			typed, text = "i3", "DateENlong"
			c.Tokens = []string{"EndDate=05072011"} // the default EndDate is no month-first date
		case f.Type == "hermes.GroundWaterFrom":
			typed, text = "i2", "gwTimeSeries"
		case f.Kind == "float64":
			bits, _ := strconv.ParseUint(d[1:], 10, 64)
			v := math.Float64frombits(bits) + 1.5
			typed, text = "f"+strconv.FormatUint(math.Float64bits(v), 10), strconv.FormatFloat(v, 'g', -1, 64)
		case f.Kind == "int":
			v, _ := strconv.ParseInt(d[1:], 10, 64)
			typed, text = "i"+strconv.FormatInt(v+1, 10), strconv.FormatInt(v+1, 10)
		case f.Kind == "string":
			typed, text = d+"x", "\""+d[1:]+"x\""
		case f.Kind == "bool":
			if d == "b1" {
				typed, text = "b0", "0"
			} else {
				typed, text = "b1", "1"
			}
		default:
			continue
		}
		c.yaml = f.Name + ": " + text + "\n"
		c.typed[f.Name] = typed
		c.File = [][2]interface{}{{f.Name, typed}}
		cases = append(cases, c)
	}
	// ----- per-key sweep on the LINE, together with crop override arguments: every configuration key in turn is
	// given on a line that also carries CropFile=... and c_...=...; the run must use the line's value
	for _, f := range fields {
		c := &c14Case{Group: group, ID: id, Kind: "linesweep", PF: map[string]string{}, typed: map[string]interface{}{}}
		group++
		id++
		d := f.Default.(string)
		var text string
		switch {
		case f.Name == "EndDate":
			text = "05072011"
		case f.Type == "hermes.DateFormat":
			text = "3"
			c.Tokens = append(c.Tokens, "EndDate=05072011")
		case f.Type == "hermes.GroundWaterFrom":
			text = "2"
		case f.Kind == "float64":
			bits, _ := strconv.ParseUint(d[1:], 10, 64)
			text = strconv.FormatFloat(math.Float64frombits(bits)+2.5, 'g', -1, 64)
		case f.Kind == "int":
			v, _ := strconv.ParseInt(d[1:], 10, 64)
			text = strconv.FormatInt(v+2, 10)
		case f.Kind == "string":
			text = d[1:] + "y"
		case f.Kind == "bool":
			text = map[string]string{"b1": "off", "b0": "on"}[d]
		default:
			continue
		}
		c.Tokens = append(c.Tokens, "c_KC_2=1.1", f.Name+"="+text, "CropFile=PARAM.WW", "c_TSUM_1=200")
		cases = append(cases, c)
	}
	// ----- pairs of switches on one line, each line evaluated several times: commandlineOverride ranges over a Go map, whose
	// order differs from range to range; the repetitions of a line (one group) must all give the same configuration
	{
		var sw []c14Field
		for _, f := range fields {
			if f.Kind == "bool" {
				sw = append(sw, f)
			}
		}
		for i := range sw {
			for j := range sw {
				if i == j {
					continue
				}
				// first switch off, second on (both (i,j) and (j,i) occur)
				toks := []string{sw[i].Name + "=0", sw[j].Name + "=1"}
				for rep := 0; rep < 5; rep++ {
					c := &c14Case{Group: group, ID: id, Kind: "switchpair", PF: map[string]string{}, typed: map[string]interface{}{}}
					id++
					c.Tokens = append([]string(nil), toks...)
					if rep%2 == 1 {
						c.Tokens[0], c.Tokens[1] = c.Tokens[1], c.Tokens[0]
					}
					cases = append(cases, c)
				}
				group++
			}
		}
	}
	// ----- sequences on a project WITHOUT config.yml: earlier lines (real Run) carry overrides, this line omits some
	nseq := 6 + n/25
	for k := 0; k < nseq; k++ {
		c := &c14Case{Group: group, ID: id, Kind: "seq", PF: map[string]string{}, typed: map[string]interface{}{}}
		group++
		id++
		line := func(p float64) []string {
			t := []string{"project=p", "plotNr=1"}
			for _, f := range fields {
				if !r.chance(p) {
					continue
				}
				switch {
				case f.Name == "EndDate":
					t = append(t, "EndDate="+pick(safeDates))
				case f.Type == "hermes.DateFormat", f.Type == "hermes.GroundWaterFrom":
					t = append(t, f.Name+"=1")
				case f.Kind == "float64":
					t = append(t, f.Name+"="+pick([]string{"12.5", "-3", "1e3", "0.25", "77"}))
				case f.Kind == "int":
					t = append(t, f.Name+"="+pick([]string{"12", "4", "7", "2", "1990"}))
				case f.Kind == "string":
					t = append(t, f.Name+"=q"+word())
				case f.Kind == "bool":
					t = append(t, f.Name+"="+pick([]string{"1", "0", "on", "off"}))
				}
			}
			return t
		}
		for h := 1 + r.intn(2); h > 0; h-- {
			c.Hist = append(c.Hist, line(0.25))
		}
		c.Hist[0] = append(c.Hist[0], "ResultFileExt=frozen", "LeachingDepth=9", "AutoIrrigation=0", "NDeposition=33.5")
		c.Tokens = line(0.1)
		cases = append(cases, c)
	}
	for _, c := range cases {
		c.Root = filepath.Join(dir, fmt.Sprintf("g%05d", c.Group)) // permuted siblings share the project
		for _, need := range []string{"project=p", "plotNr=1"} {  // Run wants them; they are no configuration keys
			has := false
			for _, t := range c.Tokens {
				has = has || t == need
			}
			if !has {
				c.Tokens = append(c.Tokens, need)
			}
		}
		for _, h := range c.Hist {
			for _, t := range h {
				if p := strings.Split(t, "="); len(p) == 2 {
					if v, err := strconv.ParseFloat(p[1], 64); err == nil {
						c.PF[p[1]] = strconv.FormatUint(math.Float64bits(v), 10)
					} else {
						c.PF[p[1]] = ""
					}
				}
			}
		}
		for _, t := range c.Tokens {
			if p := strings.Split(t, "="); len(p) == 2 {
				if v, err := strconv.ParseFloat(p[1], 64); err == nil {
					c.PF[p[1]] = strconv.FormatUint(math.Float64bits(v), 10)
				} else {
					c.PF[p[1]] = ""
				}
			}
		}
	}
	return cases
}
