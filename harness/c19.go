package main

import (
	"bufio"
	"flag"
	"fmt"
	"math"
	"os"
	"strconv"
	"strings"

	"github.com/zalf-rpm/Hermes2Go/hermes"
)

func init() { commands["c19"] = c19 }

// soiltempCase runs hermes.Soiltemp on g and returns the case (inputs, oracle values with the
// arguments they were evaluated at, observed outputs).
func soiltempCase(tag string, g *hermes.GlobalVarsMain) jobj {
	n := g.N
	idx := g.TAG.Index
	pwA, pw, exA, ex := make([]float64, n), make([]float64, n), make([]float64, n), make([]float64, n)
	for i := 0; i < n; i++ {
		pwA[i] = g.WG[0][i] / g.BD[i]
		pw[i] = math.Pow(pwA[i], 1.5)
		exA[i] = (-50) * pw[i]
		ex[i] = math.Exp(exA[i])
	}
	elaiA := -g.LAI
	in := jobj{
		"tag": tag, "n": n, "lai": hx(g.LAI), "rad": hx(g.RAD[idx]), "eta": hx(g.ETA), "temp": hx(g.TEMP[idx]),
		"tmin": hx(g.TMIN[idx]), "tmax": hx(g.TMAX[idx]), "tbase": hx(g.TBASE), "dt": hx(g.DT.Num), "dz": hx(g.DZ.Num),
		"elai": hx(math.Exp(elaiA)), "bd": hxs(g.BD[:n]), "wg": hxs(g.WG[0][:n]), "hum": hxs(g.HUMUS[:n]),
		"pw": hxs(pw), "ex": hxs(ex), "tsoil0": hxs(g.TSOIL[0][:n+1]),
	}
	args := jobj{"elai": hx(elaiA), "pw": hxs(pwA), "ex": hxs(exA)}
	hermes.Soiltemp(g)
	nsum := n - 1
	if nsum < 0 {
		nsum = 0
	}
	out := jobj{
		"surf": hx(g.TSOIL[1][0]), "heatcond": hxs(g.HEATCOND[:n]), "heatcap": hxs(g.HEATCAP[:n]), "tdsum": hxs(g.TDSUM[:nsum]),
		"td": hxs(g.TD[:n+1]), "tsoil0": hxs(g.TSOIL[0][:n+1]), "tsoil1": hxs(g.TSOIL[1][:n+1]),
	}
	return jobj{"k": "soiltemp", "in": in, "args": args, "out": out}
}

// envelope of the boundary values: initial profile, TBASE, every surface value imposed so far
type envelope struct {
	lo, hi    float64
	failed    bool
	nonFinite int // first day with a non-finite layer temperature (-1: none)
	tbase     float64
}

func (e *envelope) add(vs ...float64) {
	for _, v := range vs {
		if v < e.lo {
			e.lo = v
		}
		if v > e.hi {
			e.hi = v
		}
	}
}

func newEnvelope(g *hermes.GlobalVarsMain) *envelope {
	e := &envelope{lo: math.Inf(1), hi: math.Inf(-1), nonFinite: -1, tbase: g.TBASE}
	e.add(g.TSOIL[0][:g.N+1]...)
	e.add(g.TBASE)
	return e
}

// newEnvelopeConfigured: traced runs — the lower boundary is the CONFIGURED annual mean temperature and the start
// profile is Init's linear profile between the first surface value and that temperature (init.go:16-20)
func newEnvelopeConfigured(g *hermes.GlobalVarsMain, tbase float64) *envelope {
	e := &envelope{lo: math.Inf(1), hi: math.Inf(-1), nonFinite: -1, tbase: tbase}
	e.add(g.TSOIL[0][0], tbase)
	return e
}

// check evaluates property C19 on the state after a Soiltemp call; reports the first failure of a run
func (e *envelope) check(key string, day int, g *hermes.GlobalVarsMain) {
	e.checkSurf(key, day, g, g.TSOIL[1][0])
}

// checkSurf: [surf] is the surface value admissible for that day — the imposed one, or (traced runs with a
// readable weather file) the one the weather FILE gives with a correct normalisation
func (e *envelope) checkSurf(key string, day int, g *hermes.GlobalVarsMain, surf float64) {
	e.add(surf, e.tbase)
	if e.nonFinite < 0 && !finite(g.TSOIL[0][:g.N+1]...) {
		e.nonFinite = day
	}
	if e.failed {
		return
	}
	tol := 1e-9 * (1 + math.Max(math.Abs(e.lo), math.Abs(e.hi)))
	for i := 0; i <= g.N; i++ {
		for which, v := range []float64{g.TSOIL[0][i], g.TD[i]} {
			if !finite(v) || v < e.lo-tol || v > e.hi+tol {
				e.failed = true
				oracleFail("%s day=%d array=%s layer=%d value=%v envelope=[%v,%v] bd=%v", key, day, []string{"TSOIL", "TD"}[which], i, v, e.lo, e.hi, g.BD[:g.N])
				return
			}
		}
	}
}

var classBD = []float64{1.1, 1.2, 1.3, 1.4, 1.45, 1.5, 1.55, 1.6, 1.65, 1.7, 1.75, 1.8, 1.85}

// genSoilT fills the soil part Soiltemp reads; bdMode: 0 class densities, 1 measured admissible
// (0.567..2.3), 2 anything incl. organic horizons (correspondence only), 3 constant 0.3 (F17)
func genSoilT(r *rng, g *hermes.GlobalVarsMain, bdMode int) {
	n := 1 + r.intn(20)
	if r.chance(0.3) {
		n = 20
	}
	g.N = n
	g.DT = hermes.DualType{Index: 1, Num: 1}
	g.DZ = hermes.DualType{Index: 10, Num: 10}
	i := 0
	for i < n {
		h := 1 + r.intn(6)
		var bd float64
		switch bdMode {
		case 0:
			bd = classBD[r.intn(len(classBD))]
		case 1:
			bd = math.Round(r.between(0.567, 2.3)*1000) / 1000
			if r.chance(0.15) {
				bd = 0.567
			} else if r.chance(0.15) {
				bd = 2.3
			}
		case 2:
			bd = math.Round(r.between(0.1, 2.7)*100) / 100
		default:
			bd = 0.3
		}
		hum := 0.0
		if r.chance(0.8) {
			hum = math.Round(r.between(0, 0.12)*10000) / 10000
		}
		if r.chance(0.05) {
			hum = r.between(0.1, 0.6)
		}
		for k := 0; k < h && i < n; k++ {
			g.BD[i], g.HUMUS[i] = bd, hum
			g.WG[0][i] = r.between(0.02, 0.55)
			i++
		}
	}
}

func genWeatherDay(r *rng, g *hermes.GlobalVarsMain, day int) {
	idx := day % 365
	g.TAG = hermes.DualType{Index: idx, Num: float64(idx + 1), Offset: 1}
	mean := g.TBASE + 11*math.Sin(float64(day-110)*2*math.Pi/365) + r.between(-6, 6)
	amp := r.between(0, 9)
	g.TEMP[idx], g.TMIN[idx], g.TMAX[idx] = mean, mean-amp, mean+amp
	g.RAD[idx] = r.between(0, 16)
	if r.chance(0.05) {
		g.RAD[idx] = r.between(16, 25) // surface overshoot: sqrt(0.0003*radiat) > 1
	}
	g.ETA = r.between(0, 6)
	switch r.intn(4) {
	case 0:
		g.LAI = 0
	case 1:
		g.LAI = r.between(0, 3)
	case 2:
		g.LAI = r.between(3, 7)
	}
	// water content: bounded random walk
	for i := 0; i < g.N; i++ {
		w := g.WG[0][i] + r.between(-0.03, 0.03)
		g.WG[0][i] = math.Min(0.6, math.Max(0.01, w))
	}
}

func initProfile(g *hermes.GlobalVarsMain, tmin, tmax float64) {
	// init.go:16-20
	g.TSOIL[0][0] = (tmin + tmax) / 2
	initp := (g.TSOIL[0][0] - g.TBASE) / float64(g.N)
	for i := 1; i <= g.N; i++ {
		g.TSOIL[0][i] = g.TSOIL[0][0] - initp*float64(i)
	}
}

func c19(args []string) {
	fs := flag.NewFlagSet("c19", flag.ExitOnError)
	seed := fs.Uint64("seed", 1, "seed")
	synth := fs.Int("synth", 200, "synthetic single-call cases")
	runs := fs.Int("runs", 12, "synthetic long runs (oracle)")
	days := fs.Int("days", 800, "days per synthetic long run")
	work := fs.String("work", "", "scratch copy of the examples tree (traced runs)")
	linesFile := fs.String("lines", "", "file with batch lines (traced runs)")
	every := fs.Int("every", 20, "emit about one traced Soiltemp call in this many")
	fs.Parse(args)
	defer stdout.Flush()
	r := newRng(*seed)

	// ---- synthetic single calls: all branches, all BD (the model must agree everywhere, incl. Inf/NaN)
	for c := 0; c < *synth; c++ {
		g := new(hermes.GlobalVarsMain)
		genSoilT(r, g, c%3)
		g.TBASE = r.between(4, 13)
		genWeatherDay(r, g, r.intn(365))
		tag := fmt.Sprintf("synth-bd%d", c%3)
		switch r.intn(8) {
		case 0: // bare soil, high radiation: albedo branch
			g.LAI, g.ETA = 0, r.between(0, 1)
			g.RAD[g.TAG.Index] = r.between(6, 25)
		case 1: // negative LAI: scov clamp
			g.LAI = -r.between(0, 1)
		case 2: // other grid spacing: math.Pow(DZ, 2) against DZ*DZ
			dz := []float64{5, 7.5, 10.1, 12.3456789, 20, r.between(1, 30)}[r.intn(6)]
			g.DZ = hermes.DualType{Index: int(dz), Num: dz}
			tag += "-dz"
		case 3:
			dt := []float64{0.5, 2, 0.25}[r.intn(3)]
			g.DT = hermes.DualType{Index: 1, Num: dt}
			tag += "-dt"
		}
		if r.chance(0.5) {
			initProfile(g, g.TMIN[g.TAG.Index], g.TMAX[g.TAG.Index])
		} else {
			for i := 0; i <= g.N; i++ {
				g.TSOIL[0][i] = r.between(-15, 30)
			}
		}
		emit(soiltempCase(tag, g))
	}

	// ---- synthetic long runs: property oracle (and a few sampled cases of reachable states)
	for k := 0; k < *runs+1; k++ {
		g := new(hermes.GlobalVarsMain)
		mode := k % 2
		key := fmt.Sprintf("envelope:synthetic-run-%d", k)
		if k == *runs {
			mode = 3 // F17: organic horizon, measured bulk density 0.3
			key = "bulk-density-below-0.567:input-density=0.3"
		}
		genSoilT(r, g, mode)
		if mode == 3 {
			g.N = 20
			for i := 0; i < 20; i++ {
				g.BD[i], g.HUMUS[i], g.WG[0][i] = 0.3, 0.2, 0.4
			}
		}
		g.TBASE = r.between(4, 13)
		genWeatherDay(r, g, 0)
		initProfile(g, g.TMIN[0], g.TMAX[0])
		env := newEnvelope(g)
		for d := 0; d < *days; d++ {
			genWeatherDay(r, g, d)
			if mode != 3 && r.intn(*days/3+1) == 0 {
				gg := *g
				c := soiltempCase(fmt.Sprintf("run%d-bd%d", k, mode), &gg)
				emit(c)
			}
			hermes.Soiltemp(g)
			env.check(key, d, g)
		}
		emit(jobj{"k": "synthrun", "run": k, "bdmode": mode, "n": g.N, "days": *days, "lo": env.lo, "hi": env.hi, "failed": env.failed, "first_nonfinite_day": env.nonFinite})
	}

	// ---- traced runs of real projects
	if *linesFile != "" {
		f, err := os.Open(*linesFile)
		if err != nil {
			panic(err)
		}
		sc := bufio.NewScanner(f)
		lineNo := 0
		// consecutive lines with the same "@session=<k>" token run in ONE HermesSession (batch mode)
		var sess *hermes.HermesSession
		sessKey := ""
		for sc.Scan() {
			if line := sc.Text(); len(line) > 0 {
				key := ""
				for _, t := range splitArgs(line) {
					if strings.HasPrefix(t, "@session=") {
						key = t
					}
				}
				if key != sessKey && sess != nil {
					sess.Close()
					sess = nil
				}
				if key != "" && sess == nil {
					sess = hermes.NewHermesSession()
				}
				sessKey = key
				c19TraceLine(*work, line, lineNo, r, *every, sess)
				lineNo++
			}
		}
		if sess != nil {
			sess.Close()
		}
	}
}

func sameFloats(a, b []float64) bool {
	for i := range a {
		if math.Float64bits(a[i]) != math.Float64bits(b[i]) {
			return false
		}
	}
	return true
}

// Soiltemp is called between the probes "evatra" and "steps" (run.go:497, 535, 587); nothing else
// writes TSOIL/TD/HEATCOND/HEATCAP in between: the state at "evatra" is its pre-state, at "steps" its post-state.
func c19TraceLine(work, line string, lineNo int, r *rng, every int, session *hermes.HermesSession) {
	var pre hermes.GlobalVarsMain
	var env *envelope
	havePre := false
	days, emitted := 0, 0
	minBD, maxBD := math.Inf(1), math.Inf(-1)
	var wref weatherRef
	refDays, radMissingDays, surfFails, tbaseFails, bdFails := 0, 0, 0, 0, 0
	var bd0 []float64
	confT, confFrom := 8.7, "default"
	tbaseSeen := map[uint64]float64{}
	useRef := false
	hermes.VerifProbe = func(stage string, zeit, subd int, wdt float64, g *hermes.GlobalVarsMain, w *hermes.WaterSharedVars, n *hermes.NitroSharedVars) {
		switch stage {
		case "evatra":
			pre, havePre = *g, true
			if env == nil {
				env = newEnvelopeConfigured(g, confT)
				for i := 0; i < g.N; i++ {
					minBD, maxBD = math.Min(minBD, g.BD[i]), math.Max(maxBD, g.BD[i])
				}
				// the profile hermes.Init left (init.go:16-20)
				emit(jobj{"k": "init", "line": lineNo, "n": g.N, "tmin": hx(g.TMIN[g.ITAG-1]), "tmax": hx(g.TMAX[g.ITAG-1]),
					// Init's profile runs down to the CONFIGURED annual mean temperature (config.go:120)
					"tbase": hx(confT), "tbase_from": confFrom, "g_tbase": hx(g.TBASE), "tsoil0": hxs(g.TSOIL[0][:g.N+1]),
					// what Input made of the soil file (input.go:277): the density of every 10-cm layer, and the horizons
					"bd": hxs(g.BD[:g.N]), "azho": g.AZHO, "ukt": g.UKT[:g.AZHO+1], "ld": g.LD[:g.AZHO], "bulk": hxs(g.BULK[:g.AZHO]), "stein": hxs(g.STEIN[:g.AZHO])})
			}
		case "steps":
			if !havePre {
				return
			}
			havePre = false
			days++
			gg := pre
			c := soiltempCase(fmt.Sprintf("trace-l%d", lineNo), &gg)
			n := g.N
			if !(sameFloats(gg.TSOIL[0][:n+1], g.TSOIL[0][:n+1]) && sameFloats(gg.TSOIL[1][:n+1], g.TSOIL[1][:n+1]) &&
				sameFloats(gg.TD[:n+1], g.TD[:n+1]) && sameFloats(gg.HEATCOND[:n], g.HEATCOND[:n]) && sameFloats(gg.HEATCAP[:n], g.HEATCAP[:n])) {
				emit(jobj{"k": "replaydiff", "line": lineNo, "zeit": zeit})
			}
			if every <= 1 || r.intn(every) == 0 || days <= 2 {
				emit(c)
				emitted++
			}
			// the bulk density of every 10-cm layer is the soil file's on EVERY day (nothing but Input assigns BD)
			if bd0 == nil {
				bd0 = append([]float64{}, pre.BD[:n]...)
			}
			if !sameFloats(g.BD[:n], bd0) || !sameFloats(pre.BD[:n], bd0) {
				if bdFails == 0 {
					oracleFail("bulk-density:traced-line-%d day=%d the layer densities changed during the run: first day %v, now %v", lineNo, days, bd0, g.BD[:n])
					emit(jobj{"k": "bdday", "line": lineNo, "day": days, "bd": hxs(g.BD[:n])})
				}
				bdFails++
			}
			// the lower boundary is the configured annual mean temperature, on every day
			tbaseSeen[math.Float64bits(g.TBASE)] = g.TBASE
			if !(g.TBASE == confT && g.TD[n] == confT && g.TSOIL[0][n] == confT) {
				if tbaseFails == 0 {
					oracleFail("lower-boundary:traced-line-%d day=%d configured AnnualAverageTemperature=%v (%s) but TBASE=%v TD[N]=%v TSOIL[0][N]=%v",
						lineNo, days, confT, confFrom, g.TBASE, g.TD[n], g.TSOIL[0][n])
				}
				tbaseFails++
			}
			// the surface value a correct weather normalisation allows on that day (from the weather FILE)
			surf := g.TSOIL[1][0]
			if wd, ok := wref.day(1900+pre.J, pre.TAG.Index+1); ok {
				refDays++
				temp := pre.TEMP[pre.TAG.Index]
				if wd.tavgOK {
					temp = wd.tavg
				}
				surf = surfaceRef(pre.LAI, pre.ETA, wd.par, temp, wd.tmin, wd.tmax, pre.TSOIL[0][0])
				if wd.radMissing {
					radMissingDays++
				}
				if obs := g.TSOIL[1][0]; !(math.Abs(obs-surf) <= 1e-9*(1+math.Abs(obs)+math.Abs(surf))) {
					if surfFails == 0 {
						oracleFail("surface-value:traced-line-%d day=%d date=%d-%03d surface=%v admissible=%v file: tmin=%v tmax=%v PAR=%v radiation-missing=%v; handed to Soiltemp: TMIN=%v TMAX=%v RAD=%v",
							lineNo, days, 1900+pre.J, pre.TAG.Index+1, obs, surf, wd.tmin, wd.tmax, wd.par, wd.radMissing,
							pre.TMIN[pre.TAG.Index], pre.TMAX[pre.TAG.Index], pre.RAD[pre.TAG.Index])
					}
					surfFails++
				}
			}
			// the driver names the failing input after the soil FILE of that line (input density / stones / classes)
			env.checkSurf(fmt.Sprintf("envelope:traced-line-%d", lineNo), days, g, surf)
		}
	}
	// "@every=<n>" in a batch line: sampling of that run (harness metadata, not passed on)
	var runArgs []string
	for _, t := range splitArgs(line) {
		if strings.HasPrefix(t, "@every=") {
			every, _ = strconv.Atoi(t[len("@every="):])
		} else if t == "@weather-ref=csv" { // the project reads weather/<WeatherFolder>/<fcode>.csv (layout 1)
			useRef = true
		} else if !strings.HasPrefix(t, "@") {
			runArgs = append(runArgs, t)
		}
	}
	confT, confFrom = configuredTBase(work, runArgs)
	if useRef {
		none := 999.9 // WeatherNoneValue of all example configurations, unless the batch line says otherwise
		for _, a := range runArgs {
			if strings.HasPrefix(a, "WeatherNoneValue=") {
				none, _ = strconv.ParseFloat(a[len("WeatherNoneValue="):], 64)
			}
		}
		wref = loadWeatherRef(work, runArgs, none)
		if wref == nil {
			emit(jobj{"k": "noweatherref", "line": lineNo})
		}
	}
	var res runResult
	if session != nil {
		res = c20RunInSession(session, work, runArgs, fmt.Sprintf("[%d]", lineNo))
	} else {
		res = runProject(work, runArgs)
	}
	hermes.VerifProbe = nil
	o := jobj{"k": "run", "line": lineNo, "success": res.Success, "err": res.Err, "days": days, "emitted": emitted,
		"weather_ref_days": refDays, "radiation_missing_days": radMissingDays, "surface_mismatch_days": surfFails,
		"shared_session": session != nil, "bd_changed_days": bdFails, "tbase_configured": hx(confT), "tbase_configured_value": confT, "tbase_from": confFrom, "tbase_mismatch_days": tbaseFails}
	seen := []string{}
	for _, v := range tbaseSeen {
		seen = append(seen, hx(v))
	}
	o["tbase_seen"] = seen
	if env != nil && days > 0 {
		o["lo"], o["hi"], o["failed"], o["minbd"], o["maxbd"] = env.lo, env.hi, env.failed, minBD, maxBD
	}
	emit(o)
}
