package main

import (
	"flag"
	"os"
	"path/filepath"
	"reflect"
	"sort"
	"strconv"
	"strings"

	"github.com/zalf-rpm/Hermes2Go/hermes"
)

func init() { commands["c05fmt"] = c05fmtCmd }

// c05fmtCmd is the translator of C05's tie 3: it asks the CURRENT source for its output configurations
// — the three built-in ones (hermes.NewDefaultDailyOutputConfig / NewDefaultOutputConfigYearly /
// NewDefaultCropOutputConfig in output_fmt.go) and every *out_conf.yml shipped under -examples,
// loaded by the real hermes.LoadHermesOutputConfig — and prints them as one JSON object: per
// configuration the data columns in order (format string, width, modifier, variable, indices,
// alignment, Go type of the variable by reflection) and the header lines (text, start/end column).
// The python side turns this into Coq obligations (gen/OutFmtConfigs.v) and into the expected
// rendering of every field.
func c05fmtCmd(args []string) {
	fs := flag.NewFlagSet("c05fmt", flag.ExitOnError)
	examples := fs.String("examples", "", "examples/project directory")
	fs.Parse(args)
	defer stdout.Flush()
	g := hermes.NewGlobalVarsMain()
	var crop hermes.CropOutputVars
	session := hermes.NewHermesSession()
	out := jobj{}
	out["default:daily"] = dumpCfg(hermes.NewDefaultDailyOutputConfig(&g), reflect.TypeOf(g), "g")
	out["default:yearly"] = dumpCfg(hermes.NewDefaultOutputConfigYearly(&g), reflect.TypeOf(g), "g")
	out["default:crop"] = dumpCfg(hermes.NewDefaultCropOutputConfig(&crop), reflect.TypeOf(crop), "crop")
	if *examples != "" {
		files, _ := filepath.Glob(filepath.Join(*examples, "*", "*out_conf.yml"))
		sort.Strings(files)
		for _, f := range files {
			base := filepath.Base(f)
			if strings.HasPrefix(base, "management") {
				continue
			}
			var cfg hermes.OutputConfig
			var err error
			root, rt := "g", reflect.TypeOf(g)
			if strings.Contains(base, "cropout") {
				root, rt = "crop", reflect.TypeOf(crop)
				cfg, err = hermes.LoadHermesOutputConfig(f, &crop, session)
			} else {
				cfg, err = hermes.LoadHermesOutputConfig(f, &g, session)
			}
			if err != nil {
				out["shipped:"+rel(f, *examples)] = jobj{"error": err.Error()}
				continue
			}
			out["shipped:"+rel(f, *examples)] = dumpCfg(cfg, rt, root)
		}
	}
	emit(out)
	session.Close()
	_ = os.Stdout
}

func rel(f, base string) string {
	r, err := filepath.Rel(base, f)
	if err != nil {
		return f
	}
	return r
}

func dumpCfg(c hermes.OutputConfig, root reflect.Type, rootName string) jobj {
	cols := []jobj{}
	for _, d := range c.DataColumns {
		name, sub := d.VarName, ""
		if i := strings.IndexRune(name, '.'); i >= 0 {
			name, sub = d.VarName[:i], d.VarName[i+1:]
		}
		var ty interface{} = nil
		if f, ok := root.FieldByName(name); ok {
			ty = typeDesc(f.Type)
		}
		cols = append(cols, jobj{"fmt": d.FormatStr, "width": d.Width, "mod": d.Modifier, "var": d.VarName, "name": name, "sub": sub,
			"i1": d.VarIndex1, "i2": d.VarIndex2, "align": int(d.DataAlignment), "type": ty})
	}
	heads := jobj{}
	for k, hl := range c.Headlines {
		l := []jobj{}
		for _, h := range hl {
			l = append(l, jobj{"text": h.Text, "align": int(h.ColumnAlignment), "start": h.ColStart, "end": h.ColEnd, "fill": h.FillWithCharacter})
		}
		heads[strconv.Itoa(k)] = l
	}
	return jobj{"root": rootName, "cols": cols, "heads": heads, "sep": c.SeperatorCharacter, "fillchar": c.FillCharacter, "na": c.NotAvailableValue}
}

// typeDesc: the shape WriteLine's type switch and LoadHermesOutputConfig's binding see
func typeDesc(t reflect.Type) interface{} {
	switch t.Kind() {
	case reflect.Float64:
		if t == reflect.TypeOf(float64(0)) {
			return "float"
		}
		return "named"
	case reflect.Int:
		if t == reflect.TypeOf(int(0)) {
			return "int"
		}
		return "named"
	case reflect.String:
		if t == reflect.TypeOf("") {
			return "string"
		}
		return "named"
	case reflect.Bool:
		return "bool"
	case reflect.Array:
		return jobj{"array": t.Len(), "elem": typeDesc(t.Elem())}
	case reflect.Slice:
		if t == reflect.TypeOf([]float64{}) {
			return "slicefloat"
		}
		return "slice"
	case reflect.Struct:
		fl := []interface{}{}
		for i := 0; i < t.NumField(); i++ {
			fl = append(fl, []interface{}{t.Field(i).Name, typeDesc(t.Field(i).Type)})
		}
		return jobj{"struct": fl}
	}
	return "named"
}
