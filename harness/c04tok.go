package main

import (
	"bufio"
	"encoding/json"
	"flag"
	"fmt"
	"math"
	"os"

	"github.com/zalf-rpm/Hermes2Go/hermes"
)

func init() { commands["c04tok"] = c04tokCmd }

// c04tokCmd calls the three REAL weather readers (hermes.WetterK / ReadWeatherCSV / ReadWeatherCZ,
// all exported) directly on generated files and dumps what they left in hermes.WeatherDataShared,
// plus what hermes.LoadYear hands to the run state for every stored year (JTAG, WINDHI, ALTI,
// CO2KONZ).  One case per line of the -cases file:
//
//	{"path":..,"layout":0|1|2,"nh":n,"none":x,"year":startyear or file year,"nslots":k}
//
// Output: "BEGIN i" before a case, then one JSON object.  An index panic is recovered and reported
// as class "panic"; log.Fatal ends the process — the driver sees BEGIN i without a result, records
// class "fatal" and restarts with -from i+1.
func c04tokCmd(args []string) {
	fs := flag.NewFlagSet("c04tok", flag.ExitOnError)
	casesFile := fs.String("cases", "", "json lines")
	from := fs.Int("from", 0, "first case to run")
	fs.Parse(args)
	f, err := os.Open(*casesFile)
	if err != nil {
		panic(err)
	}
	sc := bufio.NewScanner(f)
	sc.Buffer(make([]byte, 1<<20), 1<<20)
	i := -1
	for sc.Scan() {
		i++
		if i < *from || len(sc.Bytes()) == 0 {
			continue
		}
		var c struct {
			Path   string
			Layout int
			Nh     int
			None   float64
			Year   int
			Nslots int
			Preco  string // folder with preco.txt: CorrectionPrecipitation on
		}
		if err := json.Unmarshal(sc.Bytes(), &c); err != nil {
			panic(err)
		}
		fmt.Fprintf(stdout, "BEGIN %d\n", i)
		stdout.Flush()
		o := jobj{"i": i}
		func() {
			g := hermes.NewGlobalVarsMain()
			g.Session = hermes.NewHermesSession()
			g.PRECO = false
			g.LOGID = "[tok]"
			cfg := hermes.NewDefaultConfig()
			cfg.WeatherNumHeader = c.Nh
			cfg.WeatherNoneValue = c.None
			hp := hermes.HFilePath{}
			if c.Preco != "" {
				g.PRECO = true
				hp.SetPreCorrFolder(c.Preco)
			}
			n := c.Nslots
			if c.Layout == 0 {
				n = 1
			}
			s := hermes.NewWeatherDataShared(n, 360)
			defer func() {
				if r := recover(); r != nil {
					o["class"] = "panic"
					o["err"] = fmt.Sprint(r)
				}
			}()
			var e error
			switch c.Layout {
			case 0:
				e = hermes.WetterK(c.Path, c.Year, &g, &s, &hp, &cfg)
			case 1:
				e = hermes.ReadWeatherCSV(c.Path, c.Year, &g, &s, &hp, &cfg)
			default:
				e = hermes.ReadWeatherCZ(c.Path, c.Year, &g, &s, &hp, &cfg)
			}
			if e != nil {
				o["class"] = "error"
				o["err"] = e.Error()
			} else {
				o["class"] = "ok"
			}
			slots := []jobj{}
			for y := 0; y < n; y++ {
				md := s.MaxYearDays[y]
				cells := [][]string{}
				for d := 0; d < md && d < 366; d++ {
					cells = append(cells, hxs([]float64{s.TMP[y][d], s.TMI[y][d], s.TMA[y][d], s.RELF[y][d], s.RADI[y][d], s.WIN[y][d], s.REG[y][d]}))
				}
				opt := [][]string{}
				for d := 0; d < md && d < 366; d++ {
					opt = append(opt, hxs([]float64{s.SUND[y][d], s.VERD[y][d], s.ETNULL[y][d]}))
				}
				sl := jobj{"jar": s.JAR[y], "maxd": md, "cells": cells, "opt": opt}
				// what LoadYear passes on for this year
				g2 := hermes.NewGlobalVarsMain()
				g2.WINDHI, g2.ALTI, g2.CO2KONZ, g2.JTAG = -1, -1, -1, -1
				for d := 0; d < 366; d++ {
					g2.SUND[d], g2.VERD[d], g2.ETNULL[d] = math.NaN(), math.NaN(), math.NaN()
				}
				if s.JAR[y] != 0 {
					le := hermes.LoadYear(&g2, &s, s.JAR[y])
					sl["load"] = []string{hx(g2.WINDHI), hx(g2.ALTI), hx(g2.CO2KONZ)}
					sl["jtag"] = g2.JTAG
					sl["loaderr"] = le != nil
					// the arrays LoadYear filled, next to the ones it read (NaN = left untouched)
					gl := [][]string{}
					for d := 0; d < md && d < 366; d++ {
						gl = append(gl, hxs([]float64{g2.TEMP[d], g2.TMIN[d], g2.TMAX[d], g2.RH[d], g2.RAD[d], g2.WIND[d], g2.REGEN[d], g2.SUND[d], g2.VERD[d], g2.ETNULL[d]}))
					}
					sl["gload"] = gl
				}
				slots = append(slots, sl)
			}
			o["slots"] = slots
		}()
		emit(o)
		stdout.Flush()
	}
}
