(* Prop_C15.v — property C15 (soil hydraulic parameters are physically ordered for every parameter source),
   stated about PtfModel / HydroModel / WaterModel.set_fc_gw read over the reals (the F7 witness: over binary64).
   Only statements here.  The obligation over the shipped texture tables (C15_table_ordered,
   C15_table_wred_between) is generated on every run (gen/C15TablesCheck.v) and closed with C15_table_check_*. *)
From Coq Require Import ZArith Reals List Bool Ascii.
From Hermes Require Import Num RUtil WaterModel PtfModel HydroModel HydroProofs PtfProofs.
Import ListNotations.
Local Open Scope R_scope.

(* ---- pedotransfer functions: 0 < WP < FC < 1 on the whole domain (clay, silt, sand >= 5, sand <= 85, sum 100, Corg 0..6).
        On these routes the pore volume is the soil file's GPV/100: FC <= PS < 1 is an input condition. ---- *)
Theorem C15_ptf1_ordered : forall c ton sluf : R,
  0 <= c <= 6 /\ 5 <= ton /\ 5 <= sluf /\ 5 <= 100 - ton - sluf <= 85 ->
  0 < snd (ptf1 c ton sluf) /\ snd (ptf1 c ton sluf) < fst (ptf1 c ton sluf) /\ fst (ptf1 c ton sluf) < 1.
Proof. exact ptf1_ordered_lemma. Qed.

Theorem C15_ptf2_ordered : forall c ton sluf : R,
  0 <= c <= 6 /\ 5 <= ton /\ 5 <= sluf /\ 5 <= 100 - ton - sluf <= 85 ->
  0 < snd (ptf2 c ton sluf) /\ snd (ptf2 c ton sluf) < fst (ptf2 c ton sluf) /\ fst (ptf2 c ton sluf) < 1.
Proof. exact ptf2_ordered_lemma. Qed.

Theorem C15_ptf3_ordered : forall c ton sluf : R,
  0 <= c <= 6 /\ 5 <= ton /\ 5 <= sluf /\ 5 <= 100 - ton - sluf <= 85 ->
  0 < snd (ptf3 c ton sluf) /\ snd (ptf3 c ton sluf) < fst (ptf3 c ton sluf) /\ fst (ptf3 c ton sluf) < 1.
Proof. exact ptf3_ordered_lemma. Qed.

(* PTF4 takes (Corg, clay, sand) *)
Theorem C15_ptf4_ordered : forall c ton ssand : R,
  0 <= c <= 6 /\ 5 <= ton /\ 5 <= ssand <= 85 /\ 5 <= 100 - ton - ssand ->
  0 < snd (ptf4 c ton ssand) /\ snd (ptf4 c ton ssand) < fst (ptf4 c ton ssand) /\ fst (ptf4 c ton ssand) < 1.
Proof. exact ptf4_ordered_lemma. Qed.

(* ---- explicit values of the soil file (percent) ---- *)
Theorem C15_explicit_ordered : forall fka wp gpv : R,
  0 < wp -> wp < fka -> fka <= gpv -> gpv < 100 ->
  let p := route_explicit fka wp gpv in 0 < l_wmin p /\ l_wmin p < l_w p /\ l_w p <= l_porges p /\ l_porges p < 1.
Proof. exact explicit_ordered_lemma. Qed.

(* ---- texture table: scaling by (1 - stone fraction) keeps the order; the table itself is the generated obligation ---- *)
Theorem C15_stone_scaling : forall wp fc ps s : R,
  0 <= s < 1 -> 0 < wp -> wp < fc -> fc <= ps -> ps < 1 ->
  0 < wp * (1 - s) /\ wp * (1 - s) < fc * (1 - s) /\ fc * (1 - s) <= ps * (1 - s) /\ ps * (1 - s) < 1.
Proof. exact stone_scaling. Qed.

(* Hydro's corrections depend on Corg and on the level only through their threshold classes *)
Theorem C15_hydro_classes : forall (k : tkind) (grw grw' c c' : R),
  gw_class grw = gw_class grw' -> corg_class c = corg_class c' -> krr_krg k grw c = krr_krg k grw' c'.
Proof. exact hydro_classes. Qed.

(* soundness of the finite check the generated file runs over the shipped tables: for ALL real Corg, levels, stone fractions *)
Theorem C15_table_check_ordered : forall rows both bad, table_check rows both bad = true ->
  forall t ld (grw c s : R), In t both -> (1 <= ld <= 5)%Z -> 0 <= s < 1 ->
  is_bad bad (t, ld, corg_class c, gw_class grw) = false ->
  exists fk nfk pv, triple_of rows t ld = Some (fk, nfk, pv) /\
    let p := route_table (hydro t fk nfk pv grw c s) s in
    0 < l_wmin p /\ l_wmin p < l_w p /\ l_w p <= l_porges p /\ l_porges p < 1.
Proof. exact table_check_ordered. Qed.

Theorem C15_table_check_wred : forall rows both bad, table_check rows both bad = true ->
  forall t ld (grw c s : R), In t both -> (1 <= ld <= 5)%Z -> 0 <= s < 1 ->
  exists fk nfk pv, triple_of rows t ld = Some (fk, nfk, pv) /\
    let h := hydro t fk nfk pv grw c s in
    let p := route_table h s in l_wmin p < ho_wred h < l_w p.
Proof. exact table_check_wred. Qed.

(* ---- the top-layer threshold: calcWRed is handed percent at all four call sites and returns a fraction strictly between ---- *)
Theorem C15_wred_between : forall (sand : bool) (wp fc : R),
  wp < fc -> wp / 100 < calc_wred sand wp fc < fc / 100.
Proof. exact wred_between_lemma. Qed.

Theorem C15_wred_between_explicit : forall (sand : bool) (fka wp gpv : R),
  wp < fka -> let p := route_explicit fka wp gpv in l_wmin p < wred_explicit sand fka wp < l_w p.
Proof. exact wred_explicit_lemma. Qed.

(* Input with PTF = 0 decides the route per horizon (explicit values where the file gives FKA > 0, the table elsewhere — mixed
   profiles included); the first layer and WRED both come from the first horizon.  Explicit values: any stone content st
   (neither the parameters nor the threshold are scaled on that route), needs WP < FC.  Table: the hypothesis is what the
   generated C15_table_wred_between gives for every stone fraction. *)
Theorem C15_wred_between_file_route : forall (n : nat) (t : texture) (fk nfk pv : Z) (c st : R) (ukt : Z) (fka wp gpv : R)
  (r : list (fhorizon (T:=R))) (grw : R),
  let h : fhorizon (T:=R) := ((t, (fk, nfk, pv), c, st, ukt), (fka, wp, gpv)) in
  (0 < n)%nat -> (0 < ukt)%Z ->
  (if Rlt_dec 0 fka then wp < fka
   else let ho := hydro t fk nfk pv grw c st in let p := route_table ho st in l_wmin p < ho_wred ho < l_w p) ->
  let p := file_params n (h :: r) grw in
  nth 0 (P_wmin p) 0 < P_wred p < nth 0 (P_w p) 0.
Proof. exact wred_between_file_route. Qed.

(* PTF route (input.go:269) *)
Theorem C15_wred_between_fraction : forall (sand : bool) (p : lpar (T:=R)),
  l_wmin p < l_w p -> l_wmin p < wred_fraction sand p < l_w p.
Proof. exact wred_fraction_lemma. Qed.

(* after a groundwater change on the restore path WRED is recomputed from the restored top layer (run.go:402); the
   adjusted field capacity is >= the restored one (C15_gw_update_keeps_order), so WRED stays below it *)
Theorem C15_wred_between_restore : forall (sand : bool) (b : params (T:=R)) (grw : R),
  nth 0 (P_wmin b) 0 < nth 0 (P_w b) 0 ->
  let u := gw_update_restore sand b grw in
  nth 0 (P_wmin u) 0 < P_wred u /\ P_wred u < nth 0 (P_w b) 0.
Proof. exact wred_restore_lemma. Qed.

(* table route WITH stones in the first horizon (any fraction 0 <= s < 1): C15_table_check_wred above.  The instance that
   was the counterexample before the repair d7a6e7d (ULS, density class 1, 30 % stones: WRED 0.3016 > W[0] 0.273): *)
Theorem C15_wred_table_stones_instance :
  let h := hydro (T:=R) ("U", "L", "S")%char 39 26 48 10 1 (3 / 10) in
  let p := route_table h (3 / 10) in
  (0 < l_wmin p /\ l_wmin p < l_w p /\ l_w p <= l_porges p /\ l_porges p < 1) /\ l_wmin p < ho_wred h < l_w p.
Proof. exact wred_table_stones_instance. Qed.

(* ---- groundwater: below the table FC = PS (C06's lemma, for both update paths); the adjustment keeps the order ---- *)
Theorem C15_fc_below_gw_restore : forall (sand : bool) (b : params (T:=R)) (grw : R),
  length (P_w b) = length (P_porges b) ->
  let u := gw_update_restore sand b grw in
  forall i, (i < length (P_w b))%nat -> (Z.to_nat (RI.trunc_Z (grw + 1)) < S i)%nat ->
    nth i (P_w u) 0 = nth i (P_porges u) 0.
Proof. exact fc_below_gw_restore. Qed.

Theorem C15_fc_below_gw_table : forall (n : nat) (hz : list (thorizon (T:=R))) (grw : R),
  let u := gw_update_table n hz grw in
  forall i, (i < length (P_w u))%nat -> (Z.to_nat (RI.trunc_Z (grw + 1)) < S i)%nat ->
    nth i (P_w u) 0 = nth i (P_porges u) 0.
Proof. exact fc_below_gw_table. Qed.

Theorem C15_gw_update_keeps_order : forall (grw : R) (w wmin porges : list R),
  -1 <= grw -> length w = length porges ->
  (forall i, (i < length w)%nat -> nth i wmin 0 < nth i w 0 <= nth i porges 0) ->
  let w' := @set_fc_gw R RNum grw w porges in
  length w' = length w /\
  forall i, (i < length w)%nat -> nth i wmin 0 < nth i w' 0 <= nth i porges 0 /\ nth i w 0 <= nth i w' 0.
Proof. exact set_fc_gw_keeps_order_lemma. Qed.

(* ---- return to a previous level: after the first change the parameters are a function of the current level.
        upd = gw_update_restore sand backup  or  gw_update_table n horizons (run.go:376-404): neither reads the current
        parameters, so the theorem holds for any upd; day_step is run.go:375 `if g.GRW != oldGrW`. ---- *)
Theorem C15_gw_return : forall (upd : R -> params (T:=R)) (st0 : gwstate) (levels : list R) (i j : nat) (si sj : gwstate),
  nth_error (run_levels upd st0 levels) i = Some si ->
  nth_error (run_levels upd st0 levels) j = Some sj ->
  (exists k, (k <= i)%nat /\ (k <= j)%nat /\ nth k levels (s_grw st0) <> s_grw st0) ->
  nth i levels (s_grw st0) = nth j levels (s_grw st0) ->
  s_grw si = s_grw sj /\ s_par si = s_par sj.
Proof. exact gw_return_lemma. Qed.

(* ... but not relative to the initial state (F7): binary64 witness, levels 8 -> 9 -> 8 dm, layer 8 *)
Theorem C15_gw_return_initial_refuted :
  map (fun st => s_grw st) f7_states = [f7_level_a; f7_level_b; f7_level_a] /\
  nth 7 (P_w (s_par (nth 0 f7_states f7_st0))) PrimFloat.zero = f7_ps /\
  nth 7 (P_w (s_par (nth 2 f7_states f7_st0))) PrimFloat.zero = f7_fc /\
  PrimFloat.eqb f7_ps f7_fc = false.
Proof. exact gw_return_initial_witness. Qed.

(* non-vacuity of the table check: UU, density class 1 (FK 40, nFK 28, GPV 46 %) is ordered at low Corg and is one of the
   F13 classes above 4.6 % Corg (+7 vol-% on field capacity, nothing on the pore volume) *)
Example C15_table_check_runs :
  ordered_z (hydro_z ("U", "U", " ")%char 40 28 46 2 0) = true /\ ordered_z (hydro_z ("U", "U", " ")%char 40 28 46 2 5) = false.
Proof. vm_compute. split; reflexivity. Qed.

Print Assumptions C15_ptf1_ordered.
Print Assumptions C15_ptf2_ordered.
Print Assumptions C15_ptf3_ordered.
Print Assumptions C15_ptf4_ordered.
Print Assumptions C15_explicit_ordered.
Print Assumptions C15_stone_scaling.
Print Assumptions C15_hydro_classes.
Print Assumptions C15_table_check_ordered.
Print Assumptions C15_table_check_wred.
Print Assumptions C15_wred_between.
Print Assumptions C15_wred_between_explicit.
Print Assumptions C15_wred_between_file_route.
Print Assumptions C15_wred_between_fraction.
Print Assumptions C15_wred_between_restore.
Print Assumptions C15_wred_table_stones_instance.
Print Assumptions C15_fc_below_gw_restore.
Print Assumptions C15_fc_below_gw_table.
Print Assumptions C15_gw_update_keeps_order.
Print Assumptions C15_gw_return.
Print Assumptions C15_gw_return_initial_refuted.
