(* OutFileProofs.v — a result file holds exactly what its last writer wrote (OutFileModel). *)
From stdpp Require Import gmap.
From Hermes Require Import OutFileModel.

Section OutFileProofs.
  Context {path byte : Type} `{Countable path}.
  Notation bytes := (list byte).
  Notation fsys := (gmap path bytes).

  Lemma pwrite_at_end (c d : bytes) : pwrite c (length c) d = c ++ d.
  Proof.
    unfold pwrite. rewrite take_ge by lia. rewrite drop_ge by lia. now rewrite app_nil_r.
  Qed.

  Lemma write_chunks_at_end chunks : forall c : bytes,
    write_chunks c (length c) chunks = c ++ concat chunks.
  Proof.
    induction chunks as [|d r IH]; intros c; cbn.
    - now rewrite app_nil_r.
    - rewrite pwrite_at_end. replace (length c + length d) with (length (c ++ d)) by (rewrite app_length; lia).
      rewrite IH. now rewrite app_assoc.
  Qed.

  (* opening without append truncates: the file is exactly the chunks, whatever was there *)
  Lemma write_file_trunc (fs : fsys) p chunks :
    write_file false fs p chunks = <[p := concat chunks]> fs.
  Proof.
    unfold write_file, fout_open, fopen. cbn [negb].
    pose proof (write_chunks_at_end chunks []) as E. cbn [length app] in E. now rewrite E.
  Qed.

  (* opening with append keeps the old content and adds the chunks *)
  Lemma write_file_append (fs : fsys) p chunks :
    write_file true fs p chunks = <[p := default [] (fs !! p) ++ concat chunks]> fs.
  Proof.
    unfold write_file, fout_open, fopen. cbn [negb]. now rewrite write_chunks_at_end.
  Qed.

  Fixpoint last_write (ws : list (path * list bytes)) (p : path) : option (list bytes) :=
    match ws with
    | [] => None
    | w :: r => match last_write r p with
                | Some ch => Some ch
                | None => if decide (w.1 = p) then Some w.2 else None
                end
    end.

  Lemma writes_spec (ws : list (path * list bytes)) : forall (fs : fsys) p,
    foldl (fun fs pc => write_file false fs pc.1 pc.2) fs ws !! p =
    match last_write ws p with Some ch => Some (concat ch) | None => fs !! p end.
  Proof.
    induction ws as [|w r IH]; intros fs p; cbn [foldl last_write]; [reflexivity|].
    rewrite IH. destruct (last_write r p); [reflexivity|].
    rewrite write_file_trunc. destruct (decide (w.1 = p)) as [->|Hne].
    - now rewrite lookup_insert.
    - now rewrite lookup_insert_ne.
  Qed.

  Lemma do_history_flat (h : list (@run_out path byte)) : forall fs : fsys,
    do_history fs h = foldl (fun fs pc => write_file false fs pc.1 pc.2) fs (concat h).
  Proof.
    induction h as [|r h IH]; intros fs; cbn; [reflexivity|].
    unfold do_history in *. cbn. rewrite IH. unfold do_run. now rewrite foldl_app.
  Qed.

  (* C03: after ANY history of runs, started from ANY state of the result folders, every
     result file holds exactly the bytes written by the last run that wrote it (and files
     no run wrote are untouched) *)
  Theorem last_writer_wins_lemma : forall (fs : fsys) (h : list (@run_out path byte)) (p : path),
    do_history fs h !! p =
    match last_write (concat h) p with Some ch => Some (concat ch) | None => fs !! p end.
  Proof. intros fs h p. rewrite do_history_flat. apply writes_spec. Qed.

  Lemma last_write_app_Some (a b : list (path * list bytes)) p ch :
    last_write b p = Some ch -> last_write (a ++ b) p = Some ch.
  Proof. induction a as [|w a IH]; cbn; [auto|]. intros Hb. now rewrite (IH Hb). Qed.

  Lemma last_write_Some_of_elem (r : list (path * list bytes)) p :
    p ∈ r.*1 -> is_Some (last_write r p).
  Proof.
    induction r as [|w r IH]; cbn; [intros Hin; inversion Hin|].
    intros Hin. apply elem_of_cons in Hin as [->|Hin].
    - destruct (last_write r w.1); [eauto|]. rewrite decide_True by reflexivity. eauto.
    - destruct (IH Hin) as [ch ->]. eauto.
  Qed.

  (* ... hence the files a run writes do not depend on what ran before, in the same session
     or an earlier one: a run into a USED result folder leaves the same bytes as into an empty one *)
  Theorem result_independent_of_history_lemma :
    forall (fs1 fs2 : fsys) (h1 h2 : list (@run_out path byte)) (r : @run_out path byte) (p : path),
    p ∈ r.*1 ->
    do_history fs1 (h1 ++ [r]) !! p = do_history fs2 (h2 ++ [r]) !! p.
  Proof.
    intros fs1 fs2 h1 h2 r p Hin. rewrite !last_writer_wins_lemma, !concat_app. cbn. rewrite !app_nil_r.
    destruct (last_write_Some_of_elem r p Hin) as [ch Hch].
    now rewrite (last_write_app_Some (concat h1) r p ch Hch), (last_write_app_Some (concat h2) r p ch Hch).
  Qed.

  (* the truncation is what makes this true: opened without O_TRUNC (and without append) a
     shorter output leaves the tail of a longer old file in place *)
  Theorem trunc_is_needed_lemma : forall (old data : bytes),
    length data < length old ->
    write_chunks (fopen false false (Some old)).1 (fopen false false (Some old)).2 [data]
      = data ++ drop (length data) old /\
    data ++ drop (length data) old <> data.
  Proof.
    intros old data Hlt. cbn. unfold pwrite. cbn. split; [reflexivity|].
    intros E. apply (f_equal length) in E. rewrite app_length, drop_length in E. lia.
  Qed.
End OutFileProofs.
