(* DayNitroCorr.v — whole-day tie of the nitrogen path: [day_nitro] run on binary64 on the inputs recorded from a
   traced real run (harness command dayn), compared bit for bit with the real end-of-day state. *)
From Coq Require Import ZArith List Bool Floats.
From Hermes Require Import Num NitroModel DayNitroModel C01Corr.
Import ListNotations.

Record dayn_obs := {
  ob_c1_add : list float;          (* C1 at "evatra-pre" *)
  ob_dn : list float;              (* DN at "dayend" *)
  ob_c1_subs : list (list float);  (* C1 at every "nitro" probe *)
  ob_pe_taken : list float;        (* PE at the last "nitro" probe *)
  ob_c1 : list float; ob_pe : list float;
  ob_nfos : list float; ob_naos : list float; ob_minfos : list float; ob_minaos : list float;
  ob_cnt : list float;  (* PESUM AUFNASUM OUTSUM NLEAG DRAINLOSS DSUMM UMS NH4Sum NH4UMS N2onitsum N2onitDaily MINSUM CUMDENIT *)
  ob_unstable : bool;
}.

Fixpoint lists_same (a b : list (list float)) : bool :=
  match a, b with
  | [], [] => true
  | x :: r, y :: r' => floats_same x y && lists_same r r'
  | _, _ => false
  end.

(* bitmask: 1 C1 at the end of the day, 2 NFOS/NAOS, 4 MINFOS/MINAOS, 8 PE (taken / reset), 16 PESUM AUFNASUM,
   32 OUTSUM NLEAG DRAINLOSS, 64 DSUMM UMS NH4Sum NH4UMS N2onitsum N2onitDaily MINSUM, 128 CUMDENIT, 256 DN,
   512 C1 after the start-of-day additions, 1024 C1 after some sub-step, 2048 instability flag *)
Definition dayn_check (c : dayn_in (T:=float) * dayn_obs) : nat :=
  let '(x, o) := c in
  let m := day_nitro x in
  let b (ok : bool) (v : nat) := if ok then 0%nat else v in
  let g := get PrimFloat.zero (ob_cnt o) in
  (b (floats_same (dn_c1 m) (ob_c1 o)) 1 +
   b (floats_same (dn_nfos m) (ob_nfos o) && floats_same (dn_naos m) (ob_naos o)) 2 +
   b (floats_same (dn_minfos m) (ob_minfos o) && floats_same (dn_minaos m) (ob_minaos o)) 4 +
   b (floats_same (dn_pe_taken m) (ob_pe_taken o) && floats_same (dn_pe m) (ob_pe o)) 8 +
   b (floats_same [dn_pesum m; dn_aufnasum m] [g 0; g 1])%nat 16 +
   b (floats_same [dn_outsum m; dn_nleag m; dn_drainloss m] [g 2; g 3; g 4])%nat 32 +
   b (floats_same [dn_dsumm m; dn_ums m; dn_nh4sum m; dn_nh4ums m; dn_n2onitsum m; dn_n2onitdaily m; dn_minsum m]
                  [g 5; g 6; g 7; g 8; g 9; g 10; g 11] && Nat.eqb (length (ob_cnt o)) 13)%nat 64 +
   b (float_same (dn_cumdenit m) (g 12%nat)) 128 +
   b (floats_same (dn_dn m) (ob_dn o)) 256 +
   b (floats_same (dn_c1_add m) (ob_c1_add o)) 512 +
   b (lists_same (dn_c1_subs m) (ob_c1_subs o)) 1024 +
   b (Bool.eqb (dn_unstable m) (ob_unstable o)) 2048)%nat.
