(* RadiaProofs.v — lemmas about RadiaModel over the reals: the AMAX floor, the range of the light-use efficiency, and the
   light response: the daily gross assimilation of a clear and of an overcast day are >= 0 — first for oracle values in
   their ranges, then for the TRUE logarithm and exponential evaluated at the arguments the model computes. *)
From Coq Require Import ZArith Reals List Bool Lia Lra Psatz.
From Hermes Require Import Num RUtil CropModel CropProofs CropNModel CropNProofs RadiaModel.
Import ListNotations.
Local Open Scope R_scope.

Ltac rn := unfold gtb, geb in *; rsimp; unfold RI.ltb, RI.leb, RI.eqb in *; decs.

Lemma dnn a d : 0 <= a -> 0 < d -> 0 <= a / d.
Proof. intros. unfold Rdiv. apply Rmult_le_pos; [assumption | left; apply Rinv_0_lt_compat; assumption]. Qed.

(* the AMAX floor: whatever the CO2 method, temperature type and temperature *)
Lemma rd_amax_floor (x : rd_in (T:=R)) : 1 / 10 <= snd (rd_eff_amax x).
Proof.
  unfold rd_eff_amax. destruct (rd_co2_part x) as [[cocomp eff] amax3]. cbn [snd].
  match goal with |- context [if ltb ?a _ then _ else _] => generalize a end.
  intros a. rn. destruct (Rlt_dec a (1 / 10)); lra.
Qed.

Lemma rd_eff_other (x : rd_in (T:=R)) : (rd_meth x =? 1)%Z = false -> fst (rd_eff_amax x) = 5 / 10.
Proof.
  intros H. unfold rd_eff_amax, rd_co2_part. rewrite H.
  destruct (rd_meth x =? 3)%Z; cbn [fst]; unfold eff0; rn; reflexivity.
Qed.

Lemma rd_eff_meth1 (x : rd_in (T:=R)) : (rd_meth x =? 1)%Z = true -> 0 < rd_p2 x -> 175 / 10 * rd_p2 x <= rd_co2 x ->
  0 <= fst (rd_eff_amax x) <= 5 / 10.
Proof.
  intros H Hp Hc. unfold rd_eff_amax, rd_co2_part. rewrite H. cbn [fst]. unfold eff0, two. rn.
  set (c := 175 / 10 * rd_p2 x) in *. assert (0 < c) by (unfold c; lra).
  assert (Hd : 0 < rd_co2 x + 2 * c) by lra.
  assert (Hq0 : 0 <= (rd_co2 x - c) / (rd_co2 x + 2 * c)) by (apply dnn; lra).
  assert (Hq1 : (rd_co2 x - c) / (rd_co2 x + 2 * c) <= 1).
  { apply (Rmult_le_reg_r (rd_co2 x + 2 * c)); [exact Hd|]. unfold Rdiv. rewrite Rmult_assoc, Rinv_l by lra. lra. }
  split; nra.
Qed.

Lemma rd_minmax_spec (a b : R) : 0 <= a -> 0 <= b ->
  0 < fst (rd_minmax a b) /\ 0 <= snd (rd_minmax a b).
Proof.
  intros Ha Hb. unfold rd_minmax. rn.
  destruct (Rlt_dec a b); cbn [fst snd];
    match goal with |- context [Req_EM_T ?m 0] => destruct (Req_EM_T m 0) end; cbn [fst snd]; lra.
Qed.

Lemma rd_dle_eff_pos (x : rd_in (T:=R)) : 0 <= rd_dle x -> 0 < rd_dl x -> 0 < rd_dle_eff x.
Proof.
  intros H0 H1. unfold rd_dle_eff. rn.
  destruct (Req_EM_T (rd_dle x) 0); destruct (Rlt_dec 0 (rd_dl x)); cbn [andb]; lra.
Qed.

(* the light response: DGAC, DGAO >= 0 *)
Lemma rd_light_facts (x : rd_in (T:=R)) :
  0 <= rd_dle x -> 0 < rd_dl x -> 0 <= rd_drc x -> 0 <= fst (rd_eff_amax x) ->
  0 < rd_sslae x <= 1 -> 0 <= rd_lai x ->
  0 <= rd_logx x -> 0 <= rd_logy x -> 0 < rd_elai x <= 1 ->
  ro_ecarg (rd_light x) <= 0 /\ ro_eoarg (rd_light x) <= 0 /\
  (0 < rd_ec x <= 1 -> 0 < rd_eo x <= 1 -> 0 <= ro_dgac (rd_light x) /\ 0 <= ro_dgao (rd_light x)).
Proof.
  intros Hdle Hdl Hdrc Heff Hss Hlai Hlx Hly Hel.
  pose proof (rd_amax_floor x) as Ham. pose proof (rd_dle_eff_pos x Hdle Hdl) as Hd.
  unfold rd_light. destruct (rd_eff_amax x) as [eff amax]. cbn [fst snd] in *.
  set (dle := rd_dle_eff x) in *. set (ss := rd_sslae x) in *.
  rn.
  assert (Ha : 0 < amax) by lra.
  set (effe := (1 - 8 / 100) * eff).
  assert (Heffe : 0 <= effe) by (unfold effe; nra).
  (* clear day *)
  set (phch1 := ss * amax * dle * rd_logx x / (1 + rd_logx x)).
  assert (H1 : 0 <= phch1).
  { unfold phch1. apply dnn; [|lra]. repeat apply Rmult_le_pos; lra. }
  set (phch2 := (5 - ss) * amax * dle * rd_logy x / (1 + rd_logy x)).
  assert (H2 : 0 <= phch2).
  { unfold phch2. apply dnn; [|lra]. repeat apply Rmult_le_pos; lra. }
  set (phch := 95 / 100 * (phch1 + phch2) + 205 / 10).
  assert (Hph : 0 < phch) by (unfold phch; lra).
  set (phc3 := phch * (1 - rd_elai x)).
  assert (H3 : 0 <= phc3) by (unfold phc3; apply Rmult_le_pos; lra).
  set (phc4 := rd_dl x * rd_lai x * amax).
  assert (H4 : 0 <= phc4) by (unfold phc4; repeat apply Rmult_le_pos; lra).
  destruct (rd_minmax_spec phc3 phc4 H3 H4) as [Hmi Hma].
  destruct (rd_minmax phc3 phc4) as [miphc maphc]. cbn [fst snd] in Hmi, Hma.
  (* overcast day *)
  set (z := 2 / 10 * rd_drc x / (dle * 3600) * effe / (5 * amax)).
  assert (Hz : 0 <= z).
  { unfold z. apply dnn; [|lra]. apply Rmult_le_pos; [|exact Heffe]. apply dnn; [lra|lra]. }
  set (phoh1 := 5 * amax * dle * z / (1 + z)).
  assert (H5 : 0 <= phoh1).
  { unfold phoh1. apply dnn; [|lra]. apply Rmult_le_pos; [|exact Hz]. apply Rmult_le_pos; [|lra]. apply Rmult_le_pos; lra. }
  set (phoh := 9935 / 10000 * phoh1 + 11 / 10).
  assert (Hpo : 0 < phoh) by (unfold phoh; lra).
  set (pho3 := phoh * (1 - rd_elai x)).
  assert (H6 : 0 <= pho3) by (unfold pho3; apply Rmult_le_pos; lra).
  destruct (rd_minmax_spec pho3 phc4 H6 H4) as [Hmo Hmao].
  destruct (rd_minmax pho3 phc4) as [mipho mapho]. cbn [fst snd] in Hmo, Hmao.
  cbn [ro_dgac ro_dgao ro_ecarg ro_eoarg].
  assert (Hneg : forall a b, 0 <= a -> 0 < b -> - a / b <= 0).
  { intros a b Ha0 Hb0. assert (0 <= a / b) by (apply dnn; assumption). unfold Rdiv in *. lra. }
  split; [apply Hneg; assumption|]. split; [apply Hneg; assumption|].
  intros Hec Heo.
  destruct (Rlt_dec (rd_lai x - 5) 0); split; try lra; apply Rmult_le_pos; lra.
Qed.

(* the arguments of the two logarithms are >= 1 from the geometry alone *)
Lemma rd_xy_args (x : rd_in (T:=R)) :
  0 <= rd_dle x -> 0 < rd_dl x -> 0 <= rd_drc x -> 0 <= fst (rd_eff_amax x) -> 0 < rd_sslae x <= 1 ->
  1 <= ro_xarg (rd_light x) /\ 1 <= ro_yarg (rd_light x).
Proof.
  intros Hdle Hdl Hdrc Heff Hss.
  pose proof (rd_amax_floor x) as Ham. pose proof (rd_dle_eff_pos x Hdle Hdl) as Hd.
  unfold rd_light. destruct (rd_eff_amax x) as [eff amax]. cbn [fst snd] in *.
  set (dle := rd_dle_eff x) in *. set (ss := rd_sslae x) in *.
  destruct (rd_minmax _ _) as [a1 a2]. destruct (rd_minmax _ _) as [b1 b2].
  cbn [ro_xarg ro_yarg]. rn.
  assert (Ha : 0 < amax) by lra.
  assert (Heffe : 0 <= (1 - 8 / 100) * eff) by nra.
  assert (Hx : 0 <= 45 / 100 * rd_drc x / (dle * 3600) * ((1 - 8 / 100) * eff) / (ss * amax)).
  { apply dnn; [|apply Rmult_lt_0_compat; lra]. apply Rmult_le_pos; [|exact Heffe]. apply dnn; lra. }
  assert (Hy : 0 <= 55 / 100 * rd_drc x / (dle * 3600) * ((1 - 8 / 100) * eff) / ((5 - ss) * amax)).
  { apply dnn; [|apply Rmult_lt_0_compat; lra]. apply Rmult_le_pos; [|exact Heffe]. apply dnn; lra. }
  split; lra.
Qed.

Lemma ln_ge_1 a : 1 <= a -> 0 <= ln a.
Proof. intros [H| <-]; [left; rewrite <- ln_1; apply ln_increasing; lra | rewrite ln_1; lra]. Qed.

Lemma exp_nonpos a : a <= 0 -> 0 < exp a <= 1.
Proof.
  intros H. split; [apply exp_pos|]. destruct H as [H| ->]; [|rewrite exp_0; lra].
  left. rewrite <- exp_0. apply exp_increasing. exact H.
Qed.

(* with the TRUE logarithm and exponential at the arguments the model computes: DGAC, DGAO >= 0 *)
Lemma rd_light_true (x : rd_in (T:=R)) :
  0 <= rd_dle x -> 0 < rd_dl x -> 0 <= rd_drc x -> 0 <= fst (rd_eff_amax x) ->
  0 < rd_sslae x <= 1 -> 0 <= rd_lai x ->
  rd_logx x = ln (ro_xarg (rd_light x)) -> rd_logy x = ln (ro_yarg (rd_light x)) ->
  rd_elai x = exp (- (8 / 10) * rd_lai x) ->
  rd_ec x = exp (ro_ecarg (rd_light x)) -> rd_eo x = exp (ro_eoarg (rd_light x)) ->
  0 <= ro_dgac (rd_light x) /\ 0 <= ro_dgao (rd_light x).
Proof.
  intros Hdle Hdl Hdrc Heff Hss Hlai Ex Ey El Ec Eo.
  destruct (rd_xy_args x Hdle Hdl Hdrc Heff Hss) as [Hx Hy].
  assert (Hlx : 0 <= rd_logx x) by (rewrite Ex; apply ln_ge_1; exact Hx).
  assert (Hly : 0 <= rd_logy x) by (rewrite Ey; apply ln_ge_1; exact Hy).
  assert (Hel : 0 < rd_elai x <= 1) by (rewrite El; apply exp_nonpos; nra).
  destruct (rd_light_facts x Hdle Hdl Hdrc Heff Hss Hlai Hlx Hly Hel) as (Hc & Ho & Hfin).
  apply Hfin; [rewrite Ec; apply exp_nonpos; exact Hc | rewrite Eo; apply exp_nonpos; exact Ho].
Qed.


(* ==================================================================== *)
(* radia() as a whole *)

Lemma assim_maint_le (a : as_in (T:=R)) : snd (assim_of a) <= fst (assim_of a).
Proof.
  unfold assim_of. cbn [fst snd]. rsimp. unfold RI.ltb.
  match goal with |- context [Rlt_dec ?g1 (as_maint_pot a)] => destruct (Rlt_dec g1 (as_maint_pot a)) end;
    destruct (as_cold a); lra.
Qed.

(* the whole kernel with the TRUE logarithm and exponential: gross assimilation, maintenance and the net assimilation are >= 0 *)
Lemma radia_nonneg_true (x : rd_in (T:=R)) (trrel vswell maint_pot : R) (cold : bool) :
  0 <= rd_dle x -> 0 < rd_dl x -> 0 <= rd_drc x -> 0 <= fst (rd_eff_amax x) ->
  0 < rd_sslae x <= 1 -> 0 <= rd_lai x ->
  rd_logx x = ln (ro_xarg (rd_light x)) -> rd_logy x = ln (ro_yarg (rd_light x)) ->
  rd_elai x = exp (- (8 / 10) * rd_lai x) ->
  rd_ec x = exp (ro_ecarg (rd_light x)) -> rd_eo x = exp (ro_eoarg (rd_light x)) ->
  0 <= trrel -> 0 <= maint_pot -> (rd_rad x = 0 -> 0 <= rd_sund x) ->
  let '(gphot, maint) := radia_of x trrel vswell maint_pot cold in
  0 <= maint <= gphot /\ (forall aspoo, 0 <= aspoo -> 0 <= gphot + aspoo).
Proof.
  intros Hdle Hdl Hdrc Heff Hss Hlai Ex Ey El Ec Eo Ht Hm Hs.
  destruct (rd_light_true x Hdle Hdl Hdrc Heff Hss Hlai Ex Ey El Ec Eo) as [Hc Ho].
  unfold radia_of.
  set (a := {| as_rad := rd_rad x; as_sund := _; as_dle := _; as_dgac := _; as_dgao := _; as_drc := _;
               as_trrel := _; as_vswell := _; as_maint_pot := _; as_cold := _ |}).
  assert (Hd : 0 < as_dle a).
  { cbn [a as_dle]. unfold rd_light. destruct (rd_eff_amax x) as [e am].
    destruct (rd_minmax _ _) as [a1 a2]. destruct (rd_minmax _ _) as [b1 b2]. cbn [ro_dle].
    apply rd_dle_eff_pos; assumption. }
  pose proof (assim_nonneg_lemma a Hc Ho Hd Ht Hm Hs) as (H1 & H2 & H3).
  pose proof (assim_maint_le a) as H4.
  destruct (assim_of a) as [gp mt]. cbn [fst snd] in *. split; [lra | exact H3].
Qed.

(* ==================================================================== *)
(* maintenance shares *)

Lemma fold_maint (ps : list (R * R)) (a : R) :
  fold_left (fun a p => a + fst p * snd p) ps a = a + Rsum (map (fun p => fst p * snd p) ps).
Proof. revert a; induction ps as [|p r IH]; intros a; cbn [fold_left map Rsum]; [lra|]. rewrite IH. lra. Qed.

Lemma maint_sum_eq (worg mairt : list R) : maint_sum worg mairt = Rsum (map (fun p => fst p * snd p) (combine worg mairt)).
Proof. unfold maint_sum. rsimp. rewrite (fold_maint (combine worg mairt) 0). lra. Qed.

(* the organs' maintenance shares are >= 0 and sum to exactly 1 whenever the maintenance sum is positive *)
Lemma mant_shares (worg mairt : list R) :
  Forall (fun p => 0 <= fst p * snd p) (combine worg mairt) -> 0 < maint_sum worg mairt ->
  Forall (fun m => 0 <= m <= 1) (mant_of worg mairt) /\ Rsum (mant_of worg mairt) = 1.
Proof.
  intros Hp Hs. unfold mant_of. cbv zeta. set (s := maint_sum worg mairt) in *.
  assert (Es : s = Rsum (map (fun p => fst p * snd p) (combine worg mairt))) by apply maint_sum_eq.
  split.
  - assert (Hle : forall ps, Forall (fun p : R * R => 0 <= fst p * snd p) ps -> Rsum (map (fun p => fst p * snd p) ps) <= s ->
                  Forall (fun m => 0 <= m <= 1) (map (fun p => fst p * snd p / s) ps)).
    { induction ps as [|p r IH]; intros H Hb; cbn [map]; constructor.
      - inversion H as [|? ? H1 H2]; subst. cbn [map Rsum] in Hb.
        assert (0 <= Rsum (map (fun p => fst p * snd p) r)).
        { clear -H2. induction r as [|q r IH]; cbn; [lra|]. inversion H2; subst. specialize (IH H3). lra. }
        rsimp. split; [unfold Rdiv; apply Rmult_le_pos; [assumption | left; apply Rinv_0_lt_compat; assumption]|].
        apply (Rmult_le_reg_r s); [assumption|]. unfold Rdiv. rewrite Rmult_assoc, Rinv_l by lra. lra.
      - inversion H as [|? ? H1 H2]; subst. apply IH; [assumption|]. cbn [map Rsum] in Hb. lra. }
    apply Hle; [exact Hp | lra].
  - rsimp. rewrite <- (map_map (fun p : R * R => fst p * snd p) (fun x => x / s)).
    rewrite Rsum_map_div, <- Es. field. lra.
Qed.

Definition radia_example : rd_in (T:=R) :=
  {| rd_temp := 18; rd_mintmp := 4; rd_maxamax := 50; rd_co2 := 400; rd_meth := 2; rd_temptyp := 1;
     rd_rad := 9; rd_sund := 6; rd_lai := 3; rd_dl := 15; rd_dle := 13; rd_rdn := 30000; rd_drc := 25000000;
     rd_p2 := 1; rd_ktv := 1; rd_ktc := 1; rd_kto := 1; rd_cossc := 0; rd_sslae := 8 / 10;
     rd_logx := 1; rd_logy := 1 / 2; rd_elai := 1 / 10; rd_ec := 1 / 2; rd_eo := 1 / 2 |}.

Lemma radia_nonvacuous :
  let x := radia_example in
  0 <= rd_dle x /\ 0 < rd_dl x /\ 0 <= rd_drc x /\ 0 <= fst (rd_eff_amax x) /\ 0 < rd_sslae x <= 1 /\ 0 <= rd_lai x /\
  0 <= rd_logx x /\ 0 <= rd_logy x /\ 0 < rd_elai x <= 1 /\ 0 < rd_ec x <= 1 /\ 0 < rd_eo x <= 1.
Proof.
  cbv zeta. rewrite (rd_eff_other radia_example eq_refl). cbn. repeat split; lra.
Qed.
