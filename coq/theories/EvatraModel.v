(* EvatraModel.v — executable model of the STRUCTURAL part of hermes.Evatra (hermes/water.go:18-661),
   written once over the numeric interface [Num]: run on binary64 for the bit-exact correspondence,
   read over R by the theorems of property C08.  No proofs here.

   Not modelled (oracle inputs, DESIGN.md §2.1): the five ET0 formulas, stomat, the Haude factors
   (water.go:132-290, 302-462) — the model starts from the day's potential ET [ei_verdu] exactly as the
   code has it after the cap/floor step (water.go:292-297 crop, 463-468 bare soil; that step itself is
   [pot_cap] below), from e = exp(-0.5*LAI) (water.go:299) and from the exp-weights of the evaporation
   profile exp(-PROP*0.1*(10(i+1)-DZ/2)) (water.go:491).  DT = 1 (run.go never changes it): the
   factors "* g.DT.Num" (water.go:478,480,499) are exact identities at binary64 and are omitted; the
   harness checks DT = 1.  Arrays are lists of exactly N >= 3 entries (water.go:567 reads the layers
   0..2); the harness checks WURZ <= N (the loops at 525 and 602 would read stale entries otherwise).
   Operation order inside every expression follows the Go source. *)
From Coq Require Import ZArith List Bool.
From Hermes Require Import Num WaterModel.
Import ListNotations.
Local Open Scope num_scope.

Section Evatra.
  Context {T : Type} {NT : Num T}.

  Definition clamp0 (x : T) : T := if x <? zero then zero else x.
  Definition ofN (n : nat) : T := ofZ (Z.of_nat n).

  (* ---- water.go:292-297 (crop: 0.65) and 463-468 (bare soil: 0.6): cap, then floor at 0 (F8) ---- *)
  Definition pot_cap (crop : bool) (v : T) : T :=
    let c := if crop then dec 65 2 else dec 6 1 in
    let v1 := if gtb v c then c else v in
    if v1 <? zero then zero else v1.

  (* ---- water.go:74-82: share of evaporable water in the top layer ---- *)
  Definition proz_of (wg00 regen wmin0 w0 : T) : T :=
    let wob0 := wg00 + regen / DZ in
    let wob := if wob0 <? wmin0 / ofZ 3 then wmin0 / ofZ 3 else wob0 in
    let p := (wob - wmin0 / ofZ 3) / (w0 - wmin0 / ofZ 3) in
    if gtb p one then one else p.

  (* ---- water.go:83-92: reduction factor of the surface evaporation, four segments; the divisors
     (1-.33), (.33-.22), (.22-.2) are Go constant expressions: exact, then rounded once ---- *)
  Definition redev_of (p : T) : T :=
    if gtb p (dec 33 2) then one - (dec 1 1 * (one - p) / dec 67 2)
    else if gtb p (dec 22 2) then dec 9 1 - (dec 625 3 * (dec 33 2 - p) / dec 11 2)
    else if gtb p (dec 2 1) then dec 275 3 - (dec 225 3 * (dec 22 2 - p) / dec 2 2)
    else dec 5 2 - (dec 5 2 * (dec 2 1 - p) / dec 2 1).

  (* ---- water.go:93-99: NFK; index 0 is overwritten with the rain-inclusive value in EVERY
     iteration, the negative clamp applies to index i only: for N >= 2 the top value ends unclamped ---- *)
  Definition nfk_of (regen : T) (wg0 wmin wnor : list T) : list T :=
    match wg0, wmin, wnor with
    | g0 :: gr, m0 :: mr, n0 :: nr =>
        let rest := map (fun '(g, m, n) => clamp0 ((g - m) / (n - m))) (combine (combine gr mr) nr) in
        let top := (g0 + regen / DZ - m0) / (n0 - m0) in
        (match rest with [] => clamp0 top | _ => top end) :: rest
    | _, _, _ => []
    end.

  (* ---- water.go:299-301 / 470-472, 475-477: split and the second cap: (EVMAX, TRAMAX, ETCP) ---- *)
  Definition split_of (crop : bool) (verdu elai : T) : T * T * T :=
    let evmax0 := if crop then verdu * elai else verdu in
    let tramax := if crop then verdu - evmax0 else zero in
    let etcp := if crop then verdu else zero in
    let evmax := if gtb evmax0 (dec 65 2) then dec 65 2 else evmax0 in
    (evmax, tramax, etcp).

  (* ---- water.go:487-508: distribution of a positive EVA over the layers above the dryness limit ---- *)
  Definition var_of (wg wmin ew : T) : T :=
    if gtb (wg - wmin / ofZ 3) zero then (wg - wmin / ofZ 3) * ew else zero.

  Definition ev_of (eva : T) (wg0 wmin expw : list T) : list T :=
    if gtb eva zero then
      let vars := map (fun '(g, m, e) => var_of g m e) (combine (combine wg0 wmin) expw) in
      let sumvar := sum_list vars in
      map (fun v => if gtb sumvar zero then eva * v / sumvar else zero) vars
    else map (fun _ => zero) wg0.

  (* ---- water.go:526-551: reduction of the uptake / root activity as functions of NFK ---- *)
  Definition trred_of (nfk : T) : T :=
    clamp0 (if nfk <? dec 15 2 then nfk * ofZ 3
            else if nfk <? dec 3 1 then dec 45 2 + (dec 25 2 * (nfk - dec 15 2) / dec 15 2)
            else if nfk <? dec 5 1 then dec 7 1 + (dec 275 3 * (nfk - dec 3 1) / dec 2 1)
            else if nfk <? dec 75 2 then dec 975 3 + (dec 25 3 * (nfk - dec 5 1) / dec 25 2)
            else one).

  Definition wueff_of (nfk : T) : T :=
    clamp0 (if nfk <? dec 15 2 then dec 15 2 + dec 45 2 * nfk / dec 15 2
            else if nfk <? dec 3 1 then dec 6 1 + (dec 2 1 * (nfk - dec 15 2) / dec 15 2)
            else if nfk <? dec 5 1 then dec 8 1 + (dec 2 1 * (nfk - dec 3 1) / dec 2 1)
            else one).

  (* water.go:525-557: (TRRED[i], WUEFF[i]) for the 0-based layer i; zero at and below WURZ (the local
     arrays start zeroed); WUEFF zero below the groundwater table *)
  Fixpoint tables (i wurz : nat) (grw : T) (nfk : list T) : list (T * T) :=
    match nfk with
    | [] => []
    | x :: r =>
        (if Nat.ltb i wurz then
           (trred_of x, if gtb (ofN (S i)) grw then zero else wueff_of x)
         else (zero, zero)) :: tables (S i) wurz grw r
    end.

  (* one layer of the uptake computation *)
  Record rl := { rl_tp : T; rl_wu : T; rl_wd : T; rl_trred : T; rl_wg : T; rl_wmin : T }.
  Definition rl_wt (l : rl) : T := rl_wu l * rl_wd l.
  Definition rl_set_tp (l : rl) (tp : T) : rl :=
    {| rl_tp := tp; rl_wu := rl_wu l; rl_wd := rl_wd l; rl_trred := rl_trred l; rl_wg := rl_wg l; rl_wmin := rl_wmin l |}.

  (* water.go:555: WEFF = sum over i < WURZ of WUEFF[i]*WUDICH[i], accumulated from 0 *)
  Definition weff_of (wurz : nat) (ls : list rl) : T := sum_list (map rl_wt (firstn wurz ls)).

  (* ---- water.go:567-584: air shortage in the top 30 cm: (LUMDAY', LURED); a crop with critical air
     volume 0 never takes the branch (F27: LURMAX = LUPOR/LUKRIT was 0/0 for the shipped potato) ---- *)
  Definition lured_of (wg0 porges : list T) (lukrit : T) (lumday : Z) : Z * T :=
    let p i := get zero porges i in
    let g i := get zero wg0 i in
    let lupor := (p 0%nat + p 1%nat + p 2%nat - g 0%nat - g 1%nat - g 2%nat) / ofZ 3 in
    let '(ld, lr) :=
      if gtb lukrit zero && (lupor <? lukrit) then
        let ld0 := (lumday + 1)%Z in
        let ld := if (4 <? ld0)%Z then 4%Z else ld0 in
        let lupor' := if lupor <? zero then zero else lupor in
        let lurmax := lupor' / lukrit in
        (ld, one - ofZ ld / ofZ 4 * (one - lurmax))
      else (0%Z, one) in
    (ld, if gtb lr one then one else lr).

  (* ---- water.go:589-599: initial distribution of the potential transpiration; [mn] = min(WURZ, GRW),
     [i] 0-based ---- *)
  Definition tp0_of (i : nat) (mn tramax weff lured : T) (l : rl) : T :=
    if gtb (ofN (S i)) mn then zero
    else if gtb (rl_wt l) zero then tramax * rl_wu l * rl_wd l / weff * lured else zero.

  Fixpoint tp_init (i : nat) (mn tramax weff lured : T) (ls : list rl) : list rl :=
    match ls with
    | [] => []
    | l :: r => rl_set_tp l (tp0_of i mn tramax weff lured l) :: tp_init (S i) mn tramax weff lured r
    end.

  (* ---- water.go:604-622: the part of a layer's uptake that is passed downwards ---- *)
  Definition trest_of (l : rl) : T :=
    let tp := rl_tp l in
    let tdeft :=
      if gtb (tp / DZ) (rl_wg l - rl_wmin l) then
        let d0 := (tp / DZ - (rl_wg l - rl_wmin l)) * DZ in
        let d1 := if d0 <? zero then zero else d0 in
        if gtb d1 (tp / DZ) then tp / DZ else d1
      else zero in
    let tdred := tp * (one - rl_trred l) in
    let t := maxv tdred tdeft in
    if gtb t tp then tp else t.

  (* ---- water.go:602-641: the redistribution loop over the layers 1..int(min); [i] 1-based;
     returns the final TP of these layers, TPAKT and GWAUF.  The additions to the layers below change
     the list the recursion continues on, so the recursion is over [fuel] = number of layers (the list
     loses exactly one element per step: the fuel never runs out before the list does) ---- *)
  Fixpoint redis (fuel i : nat) (mn grw weffrest tpakt gwauf : T) (ls : list rl) : list T * T * T :=
    match ls, fuel with
    | l :: rest, S fuel' =>
        let wr := weffrest - rl_wt l in
        let trest := trest_of l in
        let rest' :=
          if gtb trest zero && (ofN i <? mn) && gtb wr zero then
            map (fun r => rl_set_tp r (rl_tp r + trest * rl_wu r * rl_wd r / wr)) rest
          else rest in
        let tp0 := rl_tp l - trest in
        let tp' := if tp0 <? zero then zero else tp0 in
        let tpakt' := tpakt + tp' in
        let gwauf' := if ofN i =? grw then tp' else gwauf in
        let '(tps, ta, gw) := redis fuel' (S i) mn grw wr tpakt' gwauf' rest' in
        (tp' :: tps, ta, gw)
    | _, _ => ([], tpakt, gwauf)
    end.

  Record evatra_in := {
    ei_crop : bool;         (* the crop-branch condition of water.go:132 / 523 *)
    ei_verdu : T;           (* potential ET of the day after cap and floor *)
    ei_elai : T;            (* exp(-0.5*LAI) *)
    ei_expw : list T;       (* N exp-weights of the evaporation profile *)
    ei_regen : T;
    ei_wg0 : list T; ei_wmin : list T; ei_w : list T; ei_wnor : list T; ei_porges : list T;   (* N each *)
    ei_wurz : nat; ei_wudich : list T; ei_grw : T;
    ei_lukrit : T; ei_lumday : Z; ei_lured : T; ei_etrel : T; ei_trrel : T;   (* values before the call *)
  }.

  Record evatra_out := {
    eo_nfk : list T; eo_eva : T; eo_eta : T; eo_ev : list T; eo_fluss0 : T;
    eo_lumday : Z; eo_lured : T; eo_tp : list T; eo_gwauf : T; eo_etrel : T; eo_trrel : T; eo_wurz : nat;
    (* locals of the Go function, exposed for the theorems (not observable in the state) *)
    eo_proz : T; eo_redev : T; eo_evmax : T; eo_tramax : T; eo_weff : T; eo_tp0 : list T; eo_tpakt : T;
  }.

  (* uptake phase of the crop branch: (TP0 list, TP list, TPAKT, GWAUF, WEFF) *)
  Definition uptake_struct (x : evatra_in) (nfk : list T) (tramax lured : T) : list T * list T * T * T * T :=
    let wurz := ei_wurz x in
    let grw := ei_grw x in
    let tabs := tables 0 wurz grw nfk in
    let ls0 := map (fun '(((tr, wu), wd), (g, m)) =>
                      {| rl_tp := zero; rl_wu := wu; rl_wd := wd; rl_trred := tr; rl_wg := g; rl_wmin := m |})
                   (combine (combine tabs (ei_wudich x)) (combine (ei_wg0 x) (ei_wmin x))) in
    let weff := weff_of wurz ls0 in
    let mn := minv (ofN wurz) grw in
    let ls := tp_init 0 mn tramax weff lured ls0 in
    let k := Z.to_nat (truncZ mn) in
    let '(tps, tpakt, gwauf) := redis k 1 mn grw weff zero zero (firstn k ls) in
    (map rl_tp ls, tps ++ map rl_tp (skipn k ls), tpakt, gwauf, weff).

  Definition evatra_struct (x : evatra_in) : evatra_out :=
    let regen := ei_regen x in
    let proz := proz_of (hd zero (ei_wg0 x)) regen (hd zero (ei_wmin x)) (hd zero (ei_w x)) in
    let redev := redev_of proz in
    let nfk := nfk_of regen (ei_wg0 x) (ei_wmin x) (ei_wnor x) in
    let '(evmax, tramax, etcp) := split_of (ei_crop x) (ei_verdu x) (ei_elai x) in
    let eva := evmax * redev - regen in
    let eta := evmax * redev in
    let ev := ev_of eva (ei_wg0 x) (ei_wmin x) (ei_expw x) in
    if ei_crop x then
      let '(ld, lured) := lured_of (ei_wg0 x) (ei_porges x) (ei_lukrit x) (ei_lumday x) in
      let '(tp0, tp, tpakt, gwauf, weff) := uptake_struct x nfk tramax lured in
      let etrel0 := if gtb etcp zero then (tpakt + eta) / etcp else one in
      {| eo_nfk := nfk; eo_eva := eva; eo_eta := eta; eo_ev := ev; eo_fluss0 := - eva;
         eo_lumday := ld; eo_lured := lured; eo_tp := tp; eo_gwauf := gwauf;
         eo_etrel := if gtb etrel0 one then one else etrel0;
         eo_trrel := if gtb tramax zero then tpakt / tramax else ei_trrel x;
         eo_wurz := ei_wurz x;
         eo_proz := proz; eo_redev := redev; eo_evmax := evmax; eo_tramax := tramax; eo_weff := weff;
         eo_tp0 := tp0; eo_tpakt := tpakt |}
    else
      {| eo_nfk := nfk; eo_eva := eva; eo_eta := eta; eo_ev := ev; eo_fluss0 := - eva;
         eo_lumday := ei_lumday x; eo_lured := ei_lured x; eo_tp := map (fun _ => zero) (ei_wg0 x);
         eo_gwauf := zero; eo_etrel := ei_etrel x; eo_trrel := one; eo_wurz := O;
         eo_proz := proz; eo_redev := redev; eo_evmax := evmax; eo_tramax := tramax; eo_weff := zero;
         eo_tp0 := map (fun _ => zero) (ei_wg0 x); eo_tpakt := zero |}.
End Evatra.
