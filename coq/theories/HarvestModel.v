(* HarvestModel.v — the nitrogen side of the HARVEST branch of Nitro (nitro.go:286-312) and of resid
   (nitro.go:842-927): what the crop's residues put into the organic pools.  Written once over [Num]: run on
   binary64 against hermes.Nitro called on a harvest day (HarvestCorr.v), read over R by HarvestProofs.v.
   No proofs here.

     resid   reads the crop's row of CROP_N.TXT (grain/straw ratio KOSTRO, N in the harvested product NERNT and in
             the by-product NKOPP, root share NWURA of the plant's N, fast-decomposing share NFAST) and splits the
             crop's N (PESUM) by the residue-removal code JN of the rotation entry:
               JN = 0 all residues stay, JN = 1 all above-ground residues are removed, JN = 2 the whole plant
               stays, 0 < JN < 1 that share is removed; permanent crops (DAUERKULT) have their own rules
             into DGM (above ground) and DGU (roots), both clamped at 0, and each into a fast and a slow part
     Nitro   adds the above-ground parts to the top layer, the root parts by root share WUANT over the rooted
             layers, and takes the above-ground parts (and NDI, which is 0) off the crop's N *)
From Coq Require Import ZArith List Bool.
From Hermes Require Import Num.
Import ListNotations.
Local Open Scope num_scope.

Section Harvest.
  Context {T : Type} {NT : Num T}.

  Record resid_in := {
    ri_jn : T; ri_dauer : bool; ri_aa : bool;        (* residue code of the entry; permanent crop; crop is alfalfa *)
    ri_pesum : T; ri_obmas : T; ri_gehob : T;        (* crop N, above-ground biomass, its N content *)
    ri_kostro : T; ri_nernt : T; ri_nkopp : T; ri_nwura : T; ri_nfast : T;   (* the crop's row of CROP_N.TXT *)
  }.

  Record resid_out := { ro_ndi : T; ro_nsa : T; ro_nla : T; ro_nusa : T; ro_nula : T; ro_nresid : T; ro_nagb : T }.

  Definition clamp0 (v : T) : T := if v <? zero then zero else v.

  (* nitro.go:884 / 911 *)
  Definition straw_n (x : resid_in) : T :=
    (one - ri_jn x) *
    (ri_pesum x - ri_pesum x * (one - ri_nwura x) * ri_nernt x / (ri_nernt x + ri_kostro x * ri_nkopp x)
     - ri_pesum x * ri_nwura x).

  Definition resid_split (x : resid_in) : T * T :=
    let roots := ri_pesum x * ri_nwura x in
    let '(dgm, dgu) :=
      if ri_jn x =? zero then
        (if ri_dauer x then ((ri_obmas x - ofZ 820) * ri_gehob x, zero) else (straw_n x, roots))
      else if ri_jn x =? one then
        (if ri_dauer x then (if ri_aa x then (zero, roots * dec 74 2) else (zero, roots * dec 2 1)) else (zero, roots))
      else if ri_jn x =? two then (ri_pesum x - roots, roots)
      else
        (if ri_dauer x then (ri_pesum x - ri_obmas x * ri_jn x * ri_gehob x, roots * dec 74 2) else (straw_n x, roots)) in
    (clamp0 dgm, clamp0 dgu).

  Definition resid (x : resid_in) : resid_out :=
    let '(dgm, dgu) := resid_split x in
    {| ro_ndi := zero;
       ro_nsa := dgm * ri_nfast x; ro_nusa := dgu * ri_nfast x;
       ro_nla := dgm * (one - ri_nfast x); ro_nula := dgu * (one - ri_nfast x);
       ro_nresid := dgm;
       ro_nagb := ri_pesum x - ri_pesum x * ri_nwura x |}.

  (* nitro.go:303-312: pools after the harvest; [wuant] = root shares of the first WURZ layers *)
  Fixpoint add_roots (v : T) (wuant pool : list T) : list T :=
    match wuant, pool with
    | w :: wr, p :: pr => (p + v * w) :: add_roots v wr pr
    | _, _ => pool
    end.
  Definition put_top (v : T) (pool : list T) : list T :=
    match pool with p :: pr => (p + v) :: pr | [] => [] end.

  Record harvest_in := {
    hi_resid : resid_in;
    hi_first : bool;                 (* AKF.Num = 1: the first entry's residues were booked at the start of the run *)
    hi_wuant : list T;               (* WUANT[0 .. WURZ-1] *)
    hi_nfos : list T; hi_naos : list T;
    hi_dsumm : T;
  }.
  Record harvest_out := { ho_nfos : list T; ho_naos : list T; ho_dsumm : T; ho_pesum : T; ho_res : resid_out }.

  Definition no_resid (x : resid_in) : resid_out :=
    {| ro_ndi := zero; ro_nsa := zero; ro_nla := zero; ro_nusa := zero; ro_nula := zero; ro_nresid := zero;
       ro_nagb := zero |}.

  Definition harvest (h : harvest_in) : harvest_out :=
    let r := if hi_first h then no_resid (hi_resid h) else resid (hi_resid h) in
    {| ho_nfos := add_roots (ro_nusa r) (hi_wuant h) (put_top (ro_nsa r) (hi_nfos h));
       ho_naos := add_roots (ro_nula r) (hi_wuant h) (put_top (ro_nla r) (hi_naos h));
       ho_dsumm := hi_dsumm h + ro_ndi r;
       ho_pesum := ri_pesum (hi_resid h) - (ro_nsa r + ro_nla r + ro_ndi r);
       ho_res := r |}.
  (* ---- dung.go:64-83, the simulated dressing of the fertiliser prognosis: the demand not covered by the supply is
     added to the top layer's mineral N, but not beyond a concentration of 200 mg N/l in that layer; returns the new
     C1[0] and the amount booked (BEDARF, added to DUNGBED) *)
  Definition prog_dress (c10 dtgesn angebot wg0 dz : T) : T * T :=
    if angebot <? dtgesn then
      let bed := dtgesn - angebot in
      if (c10 + bed) / (wg0 * dz) * ten <? ofZ 200 then (c10 + bed, bed)
      else
        let bed2 := ofZ 200 * wg0 * dz / ten - c10 in
        let bed3 := if bed2 <? zero then zero else bed2 in
        (c10 + bed3, bed3)
    else (c10, zero).
End Harvest.
