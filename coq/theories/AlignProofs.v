(* AlignProofs.v — C04 alignment: with every year of the window loaded completely, the record
   the day loop consumes on day ZEIT is the loaded record of the civil date of ZEIT.
   Generic in the weather source (multi-year store / per-year files), instantiated for both. *)
From Coq Require Import ZArith List Bool Lia.
From Hermes Require Import Num Util Calendar DateModel DateProofs WeatherModel WeatherProofs CtrlModel CtrlProofs.
Import ListNotations.
Open Scope Z_scope.

Section Align.
  Context {T : Type} {NT : Num T} {Src : Type}.
  Variable reload : Src -> Z -> option (Src * option (slot T)).
  Variable penman : bool.

  (* what the source delivers: for every year y0..yE a slot with all days of the year, day d of
     year y holding [rec_of y d]; [good] is an invariant of the source state *)
  Variable good : Src -> Prop.
  Variable ok : Z -> Z -> wrec T -> Prop.      (* year, day of the year, loaded (normalised) record *)
  Variables y0 yE : Z.
  Hypothesis HyE : yE <= 2099.
  Hypothesis Hreload : forall src y, good src -> y0 <= y <= yE ->
    exists src' s, reload src y = Some (src', Some s) /\ good src' /\
                   s_maxd s = ylen y /\ length (s_cells s) = 366%nat /\
                   forall d, 1 <= d <= ylen y -> ok y d (nth (Z.to_nat (d - 1)) (s_cells s) wzero).

  Notation sim := (@sim T Src).

  Definition sim_inv (m : sim) (z : Z) : Prop :=
    good (m_src m) /\ cal_inv (m_cal m) z /\ y0 <= 1900 + c_j (m_cal m) <= yE /\
    length (m_g m) = 366%nat /\
    forall i, c_tag (m_cal m) < i < c_jtag (m_cal m) ->
              exists c, nth (Z.to_nat i) (m_g m) wzero = fix_minmax c /\ ok (1900 + c_j (m_cal m)) (i + 1) c.

  Lemma after_day_inv (m : sim) z :
    sim_inv m z -> 0 <= c_tag (m_cal m) -> sim_inv (after_day penman m) z.
  Proof.
    intros (G & C & Y & L & Hg) Ht. unfold after_day.
    destruct penman; [|exact (conj G (conj C (conj Y (conj L Hg))))].
    destruct (ltb _ _); [|exact (conj G (conj C (conj Y (conj L Hg))))].
    unfold sim_inv; cbn [m_src m_g m_cal]. split; [exact G|]. split; [exact C|]. split; [exact Y|]. split.
    - rewrite upd_length. exact L.
    - intros i Hi. rewrite nth_upd_other by lia. apply Hg. exact Hi.
  Qed.

  Lemma sim_step_lemma (m : sim) z :
    sim_inv m z -> z <= jan0 (yE + 1) ->
    exists m', sim_step reload m = Some m' /\
               cal_at (m_cal m') z /\
               (exists c, echo m' = fix_minmax c /\ ok (dy (civ z)) (doy (civ z)) c) /\
               sim_inv m' (z + 1) /\ 0 <= c_tag (m_cal m').
  Proof.
    intros (G & C & Y & L & Hg) Hz.
    set (c := m_cal m) in *.
    (* the calendar part is cal_step with every year complete *)
    set (ly := fun y : Z => if (y0 <=? y) && (y <=? yE) then Some (ylen y) else None).
    assert (Hly : forall y, 1900 + c_j c <= y <= yE -> ly y = Some (ylen y)).
    { intros y Hy. unfold ly. replace (y0 <=? y) with true by (symmetry; apply Z.leb_le; lia).
      replace (y <=? yE) with true by (symmetry; apply Z.leb_le; lia). reflexivity. }
    destruct (cal_step_inv_gen ly yE c z HyE Hly C Hz ltac:(lia)) as (A & B & YE').
    assert (M : 1900 + c_j c <= 1900 + c_j (cal_step ly c)) by (apply (cal_inv_year_mono ly c z C)).
    unfold sim_step. fold c. unfold cal_step in A, B, YE', M.
    destruct (roll (c_tag c) (c_j c) (c_jtag c)) as [tag j] eqn:R.
    cbn [c_tag c_j c_jtag] in A, B, YE', M.
    destruct (tag =? 0) eqn:E0.
    - (* reload of year 1900 + j *)
      apply Z.eqb_eq in E0. subst tag.
      destruct (Hreload (m_src m) (1900 + j) G ltac:(lia)) as (src' & s & Hr & G' & Hm & Hl & Hc).
      unfold sim_reload. rewrite Hr.
      destruct s as [sj sc sm]; cbn [s_maxd s_cells] in *; subst sm.
      rewrite (Hly (1900 + j)) in A, B by lia.
      eexists. split; [reflexivity|].
      destruct A as (A1 & A2 & A3). cbn [c_tag c_j c_jtag] in A1, A2, A3.
      pose proof (ylen_pos (1900 + j)) as Hp.
      assert (Hov : forall i, 0 <= i < ylen (1900 + j) ->
                exists c, nth (Z.to_nat i) (overwrite (Z.to_nat (ylen (1900 + j))) sc (m_g m)) wzero
                = fix_minmax c /\ ok (1900 + j) (i + 1) c).
      { intros i Hi. rewrite overwrite_nth by lia. eexists. split; [reflexivity|].
        pose proof (Hc (i + 1) ltac:(lia)) as K. replace (i + 1 - 1) with i in K by lia. exact K. }
      split; [|split; [|split]].
      + unfold cal_at; cbn [m_cal c_tag c_j c_jtag]. repeat split; assumption.
      + unfold echo; cbn [m_cal m_g c_tag]. destruct (Hov 0 ltac:(lia)) as (cc & K1 & K2).
        exists cc. split; [exact K1|]. rewrite <- A1, <- A2. exact K2.
      + unfold sim_inv; cbn [m_src m_g m_cal c_tag c_j c_jtag].
        repeat split; try assumption; try apply B; try lia.
        * rewrite overwrite_length. exact L.
        * intros i Hi. apply Hov. lia.
      + cbn [m_cal c_tag]. lia.
    - (* same year, no reload *)
      apply Z.eqb_neq in E0.
      unfold roll in R. destruct (c_tag c + 1 + 1 >? c_jtag c) eqn:ER; injection R as <- <-; [lia|].
      rewrite Z.gtb_ltb in ER. apply Z.ltb_ge in ER.
      eexists. split; [reflexivity|].
      destruct A as (A1 & A2 & A3). cbn [c_tag c_j c_jtag] in A1, A2, A3.
      destruct C as (_ & _ & Ct & _).
      split; [|split; [|split]].
      + unfold cal_at; cbn [m_cal c_tag c_j c_jtag]. repeat split; assumption.
      + unfold echo; cbn [m_cal m_g c_tag]. destruct (Hg (c_tag c + 1) ltac:(lia)) as (cc & K1 & K2).
        exists cc. split; [exact K1|]. rewrite <- A2, <- A1. exact K2.
      + unfold sim_inv; cbn [m_src m_g m_cal c_tag c_j c_jtag].
        repeat split; try assumption; try apply B; try lia.
        intros i Hi. apply Hg. lia.
      + cbn [m_cal c_tag]. lia.
  Qed.

  (* the days the loop produces, aligned with the civil calendar *)
  Definition aligned (l : list (Z * cal * wrec T)) (z0 : Z) : Prop :=
    forall k z c r, nth_error l k = Some (z, c, r) ->
      z = z0 + Z.of_nat k /\ cal_at c z /\ exists cc, r = fix_minmax cc /\ ok (dy (civ z)) (doy (civ z)) cc.

  Lemma sim_days_lemma n : forall z (m : sim),
    sim_inv m z -> z + Z.of_nat n - 1 <= jan0 (yE + 1) ->
    exists l, sim_days reload penman n z m = Some l /\ length l = n /\ aligned l z.
  Proof.
    induction n as [|n IH]; intros z m I Hz.
    - exists []. split; [reflexivity|]. split; [reflexivity|].
      intros k z' c r Hn. destruct k; discriminate.
    - destruct (sim_step_lemma m z I ltac:(lia)) as (m' & S1 & A & E & I' & Ht).
      destruct (IH (z + 1) (after_day penman m')) as (l & S2 & Ln & Al).
      { apply after_day_inv; [exact I' | lia]. }
      { lia. }
      cbn [sim_days]. rewrite S1, S2. eexists. split; [reflexivity|]. split; [cbn; lia|].
      intros [|k] z' c r H.
      + cbn in H. injection H as <- <- <-. split; [lia|]. split; [exact A | exact E].
      + cbn [nth_error] in H. destruct (Al k z' c r H) as (Z1 & Z2 & Z3).
        split; [lia|]. split; [exact Z2 | exact Z3].
  Qed.

  (* whole run: initial load, start-year check, day loop *)
  Lemma alignment_lemma (src0 : Src) anjahr beginn itag ende :
    good src0 -> y0 <= anjahr <= yE ->
    1 <= beginn <= ende -> ende <= jan0 (yE + 1) ->
    dy (civ beginn) = anjahr -> doy (civ beginn) = itag ->
    exists l, run_sim reload penman src0 anjahr beginn itag ende = RunOk l /\
              length l = ndays beginn ende /\ aligned l beginn.
  Proof.
    intros G Hy Hb He Hdy Hdoy.
    assert (Hrange : 1 <= beginn <= 72684).
    { pose proof (jan0_mono (yE + 1) 2100 ltac:(lia)). rewrite jan0_2100 in *. lia. }
    destruct (civ_closed beginn Hrange) as (Ec & Hyr & Hd). rewrite Hdy, Hdoy in *.
    unfold run_sim, sim_reload.
    replace (1900 + (anjahr - 1900)) with anjahr by lia.
    destruct (Hreload src0 anjahr G Hy) as (src' & s & Hr & G' & Hm & Hl & Hc). rewrite Hr.
    destruct s as [sj sc sm]; cbn [s_maxd s_cells] in *; subst sm.
    replace (ende <? beginn) with false by (symmetry; apply Z.ltb_ge; lia).
    rewrite start_ok_civil by exact Hrange. rewrite Hdy, Z.eqb_refl. cbn [negb].
    pose proof (ylen_pos anjahr) as Hp.
    edestruct (sim_days_lemma (ndays beginn ende) beginn) as (l & S & Ln & Al); [| |rewrite S; eauto].
    - unfold sim_inv, cal_inv; cbn [m_src m_g m_cal c_tag c_j c_jtag].
      replace (1900 + (anjahr - 1900)) with anjahr by lia.
      repeat split; try assumption; try lia.
      + rewrite overwrite_length. apply repeat_length.
      + intros i Hi. rewrite overwrite_nth by (rewrite ?repeat_length; lia). eexists. split; [reflexivity|].
        pose proof (Hc (i + 1) ltac:(lia)) as K. replace (i + 1 - 1) with i in K by lia. exact K.
    - unfold ndays. lia.
  Qed.
End Align.

Lemma civ_year_mono z1 z2 : 1 <= z1 -> z1 <= z2 -> z2 <= 72684 -> dy (civ z1) <= dy (civ z2).
Proof.
  intros H1 H12 H2.
  destruct (civ_closed z1 ltac:(lia)) as (E1 & Y1 & D1).
  destruct (civ_closed z2 ltac:(lia)) as (E2 & Y2 & D2).
  destruct (Z_lt_le_dec (dy (civ z2)) (dy (civ z1))) as [L|L]; [|exact L].
  pose proof (jan0_mono (dy (civ z2) + 1) (dy (civ z1)) ltac:(lia)).
  pose proof (jan0_succ (dy (civ z2)) Y2). lia.
Qed.

Lemma civ_le_yearend z : 1 <= z <= 72684 -> z <= jan0 (dy (civ z) + 1).
Proof.
  intros H. destruct (civ_closed z H) as (E & Y & D). rewrite (jan0_succ _ Y). lia.
Qed.

Lemma kalender_year z : 1 <= z <= 72684 -> exists m d, kalender_date z = Some (dy (civ z), m, d).
Proof.
  intros H. unfold civ.
  assert (Hn : (1 <= Z.to_N z <= LAST_N)%N) by (unfold LAST_N; lia).
  destruct (day_facts _ Hn) as (K & _). rewrite Z2N.id in K by lia. eauto.
Qed.

Section Inst.
  Context {T : Type} {NT : Num T}.
  Variable raw : Z -> Z -> wrec T.       (* the series: year, day of the year -> the values of that line *)
  Variables (none : T) (corr : list T).

  (* c is the documented normalisation of the line of day d of year y *)
  Definition okrec (y d : Z) (c : wrec T) : Prop := normalised none corr y d (raw y d) c.

  (* every simulated day consumes the normalised line of its own civil date (up to LoadYear's
     tmin/tmax swap) *)
  Definition consumed_ok (l : list (Z * cal * wrec T)) (beginn : Z) : Prop :=
    forall k z c r, nth_error l k = Some (z, c, r) ->
      z = beginn + Z.of_nat k /\ cal_at c z /\
      exists cc, r = fix_minmax cc /\ okrec (dy (civ z)) (doy (civ z)) cc.

  (* multi-year layouts (CSV; CZ with its derived tavg): a file of the complete years
     ya .. ya+n-1 that covers the window *)
  Lemma alignment_multi_lemma penman ya n anjahr beginn itag ende :
    ya <= anjahr -> 1 <= beginn <= ende -> ende <= 72684 ->
    dy (civ beginn) = anjahr -> doy (civ beginn) = itag ->
    dy (civ ende) < ya + Z.of_nat n ->
    exists l, run_multi penman none corr (flat_map (block raw) (zrange ya n)) anjahr beginn itag ende = RunOk l /\
              length l = ndays beginn ende /\ consumed_ok l beginn.
  Proof.
    intros Hya Hb He Hdy Hdoy Hcover.
    set (ye := dy (civ ende)) in *.
    assert (Hye : anjahr <= ye) by (rewrite <- Hdy; apply civ_year_mono; lia).
    destruct (civ_closed ende ltac:(lia)) as (_ & Yr & _). fold ye in Yr.
    unfold run_multi. destruct (kalender_year ende ltac:(lia)) as (mm & dd & K). rewrite K. fold ye.
    unfold new_store. replace (ye - anjahr + 1 <? 0) with false by (symmetry; apply Z.ltb_ge; lia).
    destruct (loader_places_multi_lemma raw none corr anjahr (ye - anjahr + 1) ya n ltac:(lia) ltac:(lia)) as (st & R & P).
    rewrite R.
    apply (alignment_lemma (T:=T) reload_multi penman (fun s => s = st) okrec anjahr ye ltac:(lia)); auto; try lia.
    - intros src y -> Hy. destruct (P y ltac:(lia)) as (s & F & M & L & N).
      exists st, s. unfold reload_multi. rewrite F.
      split; [reflexivity|]. split; [reflexivity|]. split; [exact M|]. split; [exact L | exact N].
    - pose proof (civ_le_yearend ende ltac:(lia)). fold ye in H. exact H.
  Qed.

  (* per-year layout: every year of the window has its complete file *)
  Lemma alignment_peryear_lemma penman (fs : files) anjahr beginn itag ende :
    1 <= beginn <= ende -> ende <= 72684 ->
    dy (civ beginn) = anjahr -> doy (civ beginn) = itag ->
    (forall y, anjahr <= y <= dy (civ ende) -> file_of fs y = Some (year_recs raw y)) ->
    exists l, run_peryear penman none corr fs anjahr beginn itag ende = RunOk l /\
              length l = ndays beginn ende /\ consumed_ok l beginn.
  Proof.
    intros Hb He Hdy Hdoy Hfiles.
    set (ye := dy (civ ende)) in *.
    assert (Hye : anjahr <= ye) by (rewrite <- Hdy; apply civ_year_mono; lia).
    destruct (civ_closed ende ltac:(lia)) as (_ & Yr & _). fold ye in Yr.
    unfold run_peryear.
    apply (alignment_lemma (T:=T) (reload_year none corr) penman
             (fun src : store T * files => snd src = fs /\ length (fst src) = 1%nat /\ wf (fst src))
             okrec anjahr ye ltac:(lia)); auto; try lia.
    - intros [st fs'] y (Ef & L & W) Hy. cbn [fst snd] in *. subst fs'.
      unfold reload_year. rewrite (Hfiles y Hy).
      destruct (loader_places_year_lemma raw none corr y st L W) as (st' & s & R & L' & W' & F & M & Lc & N).
      rewrite R. exists (st', fs), s. rewrite F.
      split; [reflexivity|]. split; [cbn [fst snd]; auto|]. split; [exact M|]. split; [exact Lc | exact N].
    - cbn [fst snd]. split; [reflexivity|]. split; [reflexivity|].
      intros j Hj. cbn in Hj. assert (j = 0)%nat by lia. subst j. unfold maxd_at, slot_at.
      cbn [nth empty_slot s_cells s_maxd]. rewrite repeat_length. split; [reflexivity | lia].
    - pose proof (civ_le_yearend ende ltac:(lia)). fold ye in H. exact H.
  Qed.

  (* start INSIDE a year (multi-year layouts): the store holds the start year from day a on (a not
     after the first simulated day) and the following years completely — what
     loader_places_partial delivers for a series that begins on day a of the start year *)
  Lemma alignment_store_lemma penman (st : store T) a anjahr yE beginn itag ende :
    yE <= 2099 -> 1 <= a <= itag -> 1 <= beginn <= ende -> ende <= jan0 (yE + 1) ->
    dy (civ beginn) = anjahr -> doy (civ beginn) = itag -> anjahr <= yE ->
    (forall y, anjahr <= y <= yE ->
       exists s, find_year st y = Some s /\ s_maxd s = ylen y /\ length (s_cells s) = 366%nat /\
                 forall d, (if y =? anjahr then a else 1) <= d <= ylen y ->
                           okrec y d (nth (Z.to_nat (d - 1)) (s_cells s) wzero)) ->
    exists l, run_sim reload_multi penman st anjahr beginn itag ende = RunOk l /\
              length l = ndays beginn ende /\ consumed_ok l beginn.
  Proof.
    intros HyE Ha Hb He Hdy Hdoy Hy P.
    assert (Hrange : 1 <= beginn <= 72684).
    { pose proof (jan0_mono (yE + 1) 2100 ltac:(lia)). rewrite jan0_2100 in *. lia. }
    set (ok' := fun y d c => (y = anjahr /\ d < a) \/ okrec y d c).
    destruct (alignment_lemma (T:=T) reload_multi penman (fun s => s = st) ok' anjahr yE HyE) with
      (src0 := st) (anjahr := anjahr) (beginn := beginn) (itag := itag) (ende := ende) as (l & R & Ln & Al); auto; try lia.
    - intros src y -> Hyy. destruct (P y Hyy) as (s & F & M & L & N).
      exists st, s. unfold reload_multi. rewrite F.
      split; [reflexivity|]. split; [reflexivity|]. split; [exact M|]. split; [exact L|].
      intros d Hd. unfold ok'. destruct (Z.eqb_spec y anjahr) as [->|Hne].
      + destruct (Z_lt_le_dec d a) as [Lt|Ge]; [left; split; [reflexivity | exact Lt]|].
        right. apply N. lia.
      + right. apply N. lia.
    - exists l. split; [exact R|]. split; [exact Ln|].
      intros k z c r Hn. destruct (Al k z c r Hn) as (Z1 & Z2 & cc & Z3 & Z4).
      split; [exact Z1|]. split; [exact Z2|]. exists cc. split; [exact Z3|].
      destruct Z4 as [[Ey Hlt]|Hok]; [|exact Hok].
      (* a day of the start year is not before the first simulated day *)
      exfalso.
      assert (Hlen : (k < length l)%nat) by (apply nth_error_Some; rewrite Hn; discriminate).
      assert (Hz : beginn <= z <= 72684).
      { rewrite Ln in Hlen. unfold ndays in Hlen.
        pose proof (jan0_mono (yE + 1) 2100 ltac:(lia)). rewrite jan0_2100 in *. lia. }
      destruct (civ_closed z ltac:(lia)) as (E1 & _ & _).
      destruct (civ_closed beginn Hrange) as (E2 & _ & _).
      rewrite Ey in E1. rewrite Hdy, Hdoy in E2. lia.
  Qed.
End Inst.
