(* NitroModel.v — executable models of the nitrogen kernels of hermes/nitro.go, written over [Num]:
     nmove   (nitro.go:691-845)  convective-dispersive transport, uptake crediting, leaching/drain counters
     mineral (nitro.go:569-688)  mineralisation of the two organic pools, fertiliser dissolution, N2O
   math.Exp values are ORACLE inputs (lists supplied by the harness from the same argument formulas);
   math.Pow(DZ,2) is the constant 100.  No proofs here.  Arrays: layer arrays have N entries,
   WG0 and W have N+1 (the code reads index z+1), Q1 has N+1. *)
From Coq Require Import ZArith List Bool.
From Hermes Require Import Num.
Import ListNotations.
Local Open Scope num_scope.

Section Nmove.
  Context {T : Type} {NT : Num T}.

  Definition DZN : T := ten.
  Definition HUNDRED : T := ofZ 100.
  Definition HALF : T := dec 5 1.

  Record nmove_in := {
    ni_subd1 : bool; ni_wdt : T; ni_after_sow : bool (* zeit > SAAT *); ni_growing : bool (* SAAT <= zeit <= ERNTE2 *);
    ni_fluss0 : T; ni_dv : T; ni_draidep : nat; ni_qdrain : T; ni_outn : nat; ni_stab : T; ni_schnorr : T;
    ni_ad : list T; ni_expo : list T;      (* AD[z], exp((WG0[z]+WG0[z+1])*5) *)
    ni_wg0 : list T;                       (* N+1 *)
    ni_w : list T;                         (* N+1 *)
    ni_pe : list T; ni_c1 : list T; ni_dn : list T;
    ni_q1 : list T;                        (* N+1 (entry 0 is overwritten) *)
    ni_pesum : T; ni_aufnasum : T; ni_outsum : T; ni_nleag : T; ni_drainloss : T;
  }.

  Record nmove_out := {
    no_pe : list T; no_c1 : list T; no_q1 : list T;
    no_d : list T; no_v : list T; no_db : list T; no_disp : list T; no_konv : list T;
    no_carray : list T;                    (* N+2 *)
    no_ckonz : list T;                     (* pre-clamp new contents *)
    no_unstable : bool;
    no_pesum : T; no_aufnasum : T; no_outsum : T; no_nleag : T; no_drainloss : T;
  }.

  (* uptake clamp of one layer on sub-step 1: (PE', C1 after uptake) *)
  Definition uptake1 (pe c1 : T) : T * T :=
    let pe1 := if gtb pe (c1 - HALF) then c1 - HALF else pe in
    let pe2 := if pe1 <? zero then zero else pe1 in
    (pe2, if (c1 - pe2) <? zero then zero else c1 - pe2).

  (* folds PESUM/AUFNASUM over the layers in loop order *)
  Fixpoint credit (s : T) (pes : list T) : T :=
    match pes with [] => s | p :: r => credit (s + p) r end.

  Definition conc (wdt c1 dn wg0 : T) : T :=
    let c := (c1 + dn * wdt / two) / (wg0 * DZN * HUNDRED) in
    if c <? zero then zero else c.

  (* DISP for z1 = 1..N given neighbours; lists are the full arrays, accessed by index *)
  Definition disp_at (n : nat) (db carr : list T) (z1 : nat) : T :=
    let C i := get zero carr i in
    let DBv i := get zero db i in
    if Nat.eqb z1 1 then
      let cVar := C 1%nat - C 2%nat in
      let dbVar := - DBv 0%nat in
      dbVar * cVar / HUNDRED
    else if Nat.ltb z1 n then
      DBv (z1 - 2)%nat * (C (z1 - 1)%nat - C z1) / HUNDRED - DBv (z1 - 1)%nat * (C z1 - C (S z1)) / HUNDRED
    else
      DBv (z1 - 2)%nat * (C (z1 - 1)%nat - C z1) / HUNDRED.

  Definition konv_at (draidep : nat) (qdrain : T) (q1 carr : list T) (z : nat) : T :=
    let C i := get zero carr i in
    let Q i := get zero q1 i in
    let base :=
      if geb (Q z) zero && geb (Q (z - 1)%nat) zero then
        if Nat.eqb z draidep then (C z * Q z + C z * qdrain - C (z - 1)%nat * Q (z - 1)%nat) / DZN
        else (C z * Q z - C (z - 1)%nat * Q (z - 1)%nat) / DZN
      else if geb (Q z) zero && (Q (z - 1)%nat <? zero) then
        if Nat.ltb 1 z then
          if Nat.eqb z draidep then (C z * Q z + C z * qdrain - C z * Q (z - 1)%nat) / DZN
          else (C z * Q z - C z * Q (z - 1)%nat) / DZN
        else C z * Q z / DZN
      else if (Q z <? zero) && (Q (z - 1)%nat <? zero) then
        if Nat.ltb 1 z then (C (S z) * Q z - C z * Q (z - 1)%nat) / DZN
        else C (S z) * Q z / DZN
      else if (Q z <? zero) && geb (Q (z - 1)%nat) zero then
        (C (S z) * Q z - C (z - 1)%nat * Q (z - 1)%nat) / DZN
      else zero (* NaN fluxes: the Go code leaves the previous KONV; not reachable with finite inputs *) in
    if Nat.eqb z draidep && (Q z <? zero) then base + C z * qdrain / DZN else base.

  (* the stages of nmove, named so that proofs can refer to them *)
  Definition nm_n (x : nmove_in) : nat := length (ni_c1 x).
  Definition nm_dcoef (x : nmove_in) : list T :=
    map (fun '(ad, e, (a, b)) => dec 214 2 * (ad * e / ((a + b) / two)) * ni_wdt x)
        (combine (combine (ni_ad x) (ni_expo x)) (combine (ni_wg0 x) (tl (ni_wg0 x)))).
  Definition nm_ups (x : nmove_in) : list (T * T) :=
    map (fun '(pe, c1) => if ni_subd1 x then uptake1 pe c1 else (pe, c1)) (combine (ni_pe x) (ni_c1 x)).
  Definition nm_pe (x : nmove_in) : list T := map fst (nm_ups x).
  Definition nm_c1u (x : nmove_in) : list T := map snd (nm_ups x).
  Definition nm_carr (x : nmove_in) : list T :=
    zero :: map (fun '(c1, dn, wg0) => conc (ni_wdt x) c1 dn wg0)
                (combine (combine (nm_c1u x) (ni_dn x)) (ni_wg0 x)) ++ [zero].
  Definition nm_q1 (x : nmove_in) : list T := (ni_fluss0 x * ni_wdt x) :: tl (ni_q1 x).
  (* NB: every stage binds the stages it reads with [let] so that vm_compute evaluates them once *)
  Definition nm_v (x : nmove_in) : list T :=
    let q1 := nm_q1 x in
    let Q i := get zero q1 i in
    let Wv i := get zero (ni_w x) i in
    map (fun z0 => absv (Q (S z0) / ((Wv z0 + Wv (S z0)) * HALF))) (seq 0 (nm_n x)).
  Definition nm_db (x : nmove_in) : list T :=
    let q1 := nm_q1 x in
    let dc := nm_dcoef x in
    let v := nm_v x in
    let Q i := get zero q1 i in
    let WG i := get zero (ni_wg0 x) i in
    let wdt := ni_wdt x in
    map (fun z0 =>
           (WG z0 + WG (S z0)) / two * (get zero dc z0 + ni_dv x * get zero v z0)
           - HALF * wdt * absv (Q (S z0))
           + HALF * wdt * absv ((Q (S z0) + Q z0) / two) * get zero v z0) (seq 0 (nm_n x)).
  Definition nm_disp (x : nmove_in) : list T :=
    let db := nm_db x in
    let carr := nm_carr x in
    let n := nm_n x in
    map (fun z0 => disp_at n db carr (S z0)) (seq 0 n).
  Definition nm_konv (x : nmove_in) : list T :=
    let q1 := nm_q1 x in
    let carr := nm_carr x in
    map (fun z0 => konv_at (ni_draidep x) (ni_qdrain x) q1 carr (S z0)) (seq 0 (nm_n x)).
  Definition nm_ckonz (x : nmove_in) : list T :=
    let carr := nm_carr x in
    let disp := nm_disp x in
    let konv := nm_konv x in
    map (fun z0 => (get zero carr (S z0) * get zero (ni_wg0 x) z0 + get zero disp z0
                    - get zero konv z0) * DZN * HUNDRED) (seq 0 (nm_n x)).
  Definition nm_c1k (x : nmove_in) : list T := map (fun ck => if ck <? zero then zero else ck) (nm_ckonz x).
  Definition nm_c1 (x : nmove_in) : list T :=
    map (fun '(c, dn) => let c2 := c + dn * ni_wdt x / two in if c2 <? zero then zero else c2)
        (combine (nm_c1k x) (ni_dn x)).
  Definition nm_drainloss (x : nmove_in) : T :=
    ni_drainloss x + ni_qdrain x * get zero (nm_carr x) (ni_draidep x) / DZN * HUNDRED * DZN.
  Definition nm_add_out (x : nmove_in) (s : T) : T :=
    let carr := nm_carr x in
    let q1 := nm_q1 x in
    let db := nm_db x in
    let C i := get zero carr i in
    let Q i := get zero q1 i in
    let o := ni_outn x in
    let n := nm_n x in
    let conv_down := Q o * C o / DZN * HUNDRED * DZN in
    let conv_up := Q o * C (S o) / DZN * HUNDRED * DZN in
    let dispo := get zero db (o - 1)%nat * (C o - C (S o)) / HUNDRED * HUNDRED * DZN in
    if gtb (Q o) zero then
      (if Nat.ltb o n then s + conv_down + dispo else s + conv_down)
    else (if Nat.ltb o n then s + conv_up + dispo else s).

  Definition nmove (x : nmove_in) : nmove_out :=
    let pesum1 := if ni_subd1 x then credit (ni_pesum x) (nm_pe x) else ni_pesum x in
    let aufna1 := if ni_subd1 x then credit (ni_aufnasum x) (nm_pe x) else ni_aufnasum x in
    {| no_pe := nm_pe x; no_c1 := nm_c1 x; no_q1 := nm_q1 x; no_d := nm_dcoef x; no_v := nm_v x;
       no_db := nm_db x; no_disp := nm_disp x; no_konv := nm_konv x; no_carray := nm_carr x;
       no_ckonz := nm_ckonz x;
       no_unstable := existsb (fun ck => (ck <? zero) && (ck <? ni_stab x)) (nm_ckonz x);
       no_pesum := if ni_subd1 x && ni_growing x then pesum1 + ni_schnorr x else pesum1;
       no_aufnasum := aufna1;
       no_outsum := nm_add_out x (ni_outsum x);
       no_nleag := if ni_after_sow x then nm_add_out x (ni_nleag x) else ni_nleag x;
       no_drainloss := nm_drainloss x |}.
End Nmove.

(* denit.go:5-58 Denitr (non-"H" soils): Michaelis-Menten rate times moisture and temperature factors
   (oracles: N^2 = math.Pow(n,2), Ftheta, Ftemp), distributed over the top three layers by their share *)
Section Denit.
  Context {T : Type} {NT : Num T}.
  Record denit_in := { di_c1 : list T (* 3 *); di_nquadrat : T; di_ftheta : T; di_ftemp : T; di_cumdenit : T }.
  Record denit_out := { do_c1 : list T; do_denit : T; do_cumdenit : T }.
  Definition denitr (x : denit_in) : denit_out :=
    let c i := get zero (di_c1 x) i in
    let nit := c 0%nat + c 1%nat + c 2%nat in
    if gtb nit zero then
      let michment := (ofZ 1274 * di_nquadrat x) / (di_nquadrat x + ofZ 74) in
      let denit := michment * di_ftheta x * di_ftemp x / ofZ 1000 in
      let upd1 (ci : T) : T :=
        let fr := ci / nit in
        if gtb fr zero then (let v := ci - denit * fr in if v <? zero then zero else v) else ci in
      {| do_c1 := map upd1 (di_c1 x); do_denit := denit; do_cumdenit := di_cumdenit x + denit |}
    else {| do_c1 := di_c1 x; do_denit := zero; do_cumdenit := di_cumdenit x |}.
End Denit.

(* denit.go:60-212 Denitmo (peat soils, first horizon texture 'H'): three 30 cm blocks, each with its own rate;
   oracles per block: N^2, Ftheta, Ftemp.  Note the code pairs layer 8 with the share of layer 9 and vice versa
   (layerFraction90[1] = C1[8]/n, [2] = C1[7]/n); the model mirrors that. *)
Section Denitmo.
  Context {T : Type} {NT : Num T}.
  Record denitmo_in := { dm_c1 : list T (* 9 *); dm_nq : list T (* 3 *); dm_fth : list T; dm_fte : list T; dm_cum : T }.
  Record denitmo_out := { dmo_c1 : list T; dmo_denit : list T (* 3 *); dmo_cum : T }.
  Definition block_rate (nit nq fth fte : T) : T :=
    if gtb nit zero then (ofZ 4242 * nq) / (nq + ofZ 74) * fth * fte / ofZ 1000 else zero.
  Definition denit_layer (c fr d : T) : T :=
    if gtb fr zero then (let v := c - d * fr in if v <? zero then zero else v) else c.
  Definition denitmo (x : denitmo_in) : denitmo_out :=
    let c i := get zero (dm_c1 x) i in
    let n1 := c 0%nat + c 1%nat + c 2%nat in
    let n2 := c 3%nat + c 4%nat + c 5%nat in
    let n3 := c 6%nat + c 7%nat + c 8%nat in
    let fr (nit : T) (ci : T) := if gtb nit zero then ci / nit else zero in
    let d1 := block_rate n1 (get zero (dm_nq x) 0) (get zero (dm_fth x) 0) (get zero (dm_fte x) 0) in
    let d2 := block_rate n2 (get zero (dm_nq x) 1) (get zero (dm_fth x) 1) (get zero (dm_fte x) 1) in
    let d3 := block_rate n3 (get zero (dm_nq x) 2) (get zero (dm_fth x) 2) (get zero (dm_fte x) 2) in
    {| dmo_c1 := [denit_layer (c 0%nat) (fr n1 (c 0%nat)) d1; denit_layer (c 1%nat) (fr n1 (c 1%nat)) d1;
                  denit_layer (c 2%nat) (fr n1 (c 2%nat)) d1;
                  denit_layer (c 3%nat) (fr n2 (c 3%nat)) d2; denit_layer (c 4%nat) (fr n2 (c 4%nat)) d2;
                  denit_layer (c 5%nat) (fr n2 (c 5%nat)) d2;
                  denit_layer (c 6%nat) (fr n3 (c 6%nat)) d3; denit_layer (c 7%nat) (fr n3 (c 8%nat)) d3;
                  denit_layer (c 8%nat) (fr n3 (c 7%nat)) d3];
       dmo_denit := [d1; d2; d3];
       dmo_cum := dm_cum x + d1 + d2 + d3 |}.
End Denitmo.

(* nitro.go:248-275 tillage mixing: complete mixing of the pools down to round(depth/DZ) layers (type 1 only) *)
Section Tillage.
  Context {T : Type} {NT : Num T}.
  Fixpoint sum_first (m : nat) (s : T) (l : list T) : T :=
    match m, l with
    | S k, x :: r => sum_first k (s + x) r
    | _, _ => s
    end.
  Fixpoint set_first (m : nat) (v : T) (l : list T) : list T :=
    match m, l with
    | S k, _ :: r => v :: set_first k v r
    | _, _ => l
    end.
  (* returns the mixed pool; [mixtief] = math.Round(EINT/DZ), m = int(mixtief) *)
  Definition mix_pool (mixtief : T) (m : nat) (pool : list T) : list T :=
    set_first m (sum_first m zero pool / mixtief) pool.
  Definition mix_c1 (mixtief : T) (m : nat) (c1 : list T) : list T :=
    let v := sum_first m zero c1 / mixtief in
    set_first m (if v <? zero then zero else v) c1.
  Definition tillage_depth (eint : T) : T := roundv (eint / ten).
  (* (NFOS, NAOS, MINFOS, MINAOS, C1) after the tillage block *)
  Definition tillage_mix (eint : T) (tilart : Z) (nfos naos minfos minaos c1 : list T)
    : list T * list T * list T * list T * list T :=
    if gtb eint zero && Z.eqb tilart 1 then
      let mt := tillage_depth eint in
      let m := Z.to_nat (truncZ mt) in
      (mix_pool mt m nfos, mix_pool mt m naos, mix_pool mt m minfos, mix_pool mt m minaos, mix_c1 mt m c1)
    else (nfos, naos, minfos, minaos, c1).
End Tillage.

Section Mineral.
  Context {T : Type} {NT : Num T}.

  Record mineral_layer_in := {
    ml_tempbo : T;           (* (TD[z]+TD[z-1])/2, computed by the caller model below *)
    ml_e0 : T; ml_e1 : T;    (* oracle: exp(-8400/(T+273.16)), exp(-9800/(T+273.16)) *)
    ml_wg0 : T; ml_wnor : T; ml_wmin : T; ml_porges : T; ml_w : T;
    ml_naos : T; ml_nfos : T; ml_minaos : T; ml_minfos : T;
  }.

  Record mineral_glob := {
    mg_wred : T; mg_porges0 : T; mg_dsumm : T; mg_ums : T; mg_nh4sum : T; mg_nh4ums : T;
    mg_n2onitsum : T; mg_n2onitdaily : T; mg_minsum : T;
  }.

  Record mineral_layer_out := {
    mo_naos : T; mo_nfos : T; mo_minaos : T; mo_minfos : T; mo_dn : T; mo_dums : T; mo_dnh4ums : T;
    mo_mired : T; mo_dtotaln : T; mo_dminfos : T;
  }.

  Definition clamp01 (x : T) : T :=
    let a := if x <? zero then zero else x in if gtb a one then one else a.

  Definition fn2onit (wg0 porges : T) : T :=
    (dec 4 1 * (wg0 / porges) - dec 104 2) / (wg0 / porges - dec 104 2) * dec 16 4.

  (* one layer z (1-based); returns the layer result and the updated scalars *)
  Definition mineral_layer (z : nat) (l : mineral_layer_in) (g : mineral_glob) : mineral_layer_out * mineral_glob :=
    let wg := ml_wg0 l in
    if gtb (ml_tempbo l) zero then
      let kt0 := ofZ 4000000000 * ml_e0 l in
      let kt1 := ofZ 5600000000000 * ml_e1 l in
      let mired0 :=
        if leb wg (ml_wnor l) && geb wg (mg_wred g) then one
        else if (wg <? mg_wred g) && gtb wg (ml_wmin l) then (wg - ml_wmin l) / (mg_wred g - ml_wmin l)
        else if gtb wg (ml_wnor l) then (ml_porges l - wg) / (ml_porges l - ml_wnor l)
        else zero in
      let mired := clamp01 mired0 in
      let dt0 := kt0 * ml_naos l * mired in
      let dtotaln := if dt0 <? zero then zero else dt0 in
      let dm0 := kt1 * ml_nfos l * mired in
      let dminfos := if dm0 <? zero then zero else dm0 in
      let dums := if Nat.eqb z 1 then dec 4 1 * mired * (mg_dsumm g - mg_ums g) else zero in
      let dnh4 := if Nat.eqb z 1 then dec 4 1 * mired * (mg_nh4sum g - mg_nh4ums g) else zero in
      let n2o := (dnh4 + dtotaln + dminfos) * fn2onit wg (ml_porges l) in
      let dn := dtotaln + dminfos + dums - n2o in
      ({| mo_naos := ml_naos l - dtotaln; mo_nfos := ml_nfos l - dminfos;
          mo_minaos := ml_minaos l + dtotaln; mo_minfos := ml_minfos l + dminfos;
          mo_dn := dn; mo_dums := dums; mo_dnh4ums := dnh4; mo_mired := mired;
          mo_dtotaln := dtotaln; mo_dminfos := dminfos |},
       {| mg_wred := mg_wred g; mg_porges0 := mg_porges0 g; mg_dsumm := mg_dsumm g;
          mg_ums := mg_ums g + dums; mg_nh4sum := mg_nh4sum g; mg_nh4ums := mg_nh4ums g + dnh4;
          mg_n2onitsum := mg_n2onitsum g + n2o; mg_n2onitdaily := n2o;
          mg_minsum := mg_minsum g + dn - dums |})
    else
      let mired :=
        if Nat.eqb z 1 then
          let m0 :=
            if (wg <? ml_w l) && gtb wg (mg_wred g) then one
            else if wg <? mg_wred g then (wg - ml_wmin l) / (mg_wred g - ml_wmin l)
            else if gtb wg (ml_w l + dec 1 2) && (wg <? mg_porges0 g) then (mg_porges0 g - wg) / (mg_porges0 g - ml_w l)
            else if gtb wg (mg_porges0 g) then zero
            else one in
          if m0 <? zero then zero else m0
        else zero in
      let dums := if Nat.eqb z 1 then dec 4 1 * mired * (mg_dsumm g - mg_ums g) else zero in
      let dnh4 := if Nat.eqb z 1 then dec 4 1 * mired * (mg_nh4sum g - mg_nh4ums g) else zero in
      let n2o := dnh4 * fn2onit wg (ml_porges l) in
      ({| mo_naos := ml_naos l; mo_nfos := ml_nfos l; mo_minaos := ml_minaos l; mo_minfos := ml_minfos l;
          mo_dn := dums - n2o; mo_dums := dums; mo_dnh4ums := dnh4; mo_mired := mired;
          mo_dtotaln := zero; mo_dminfos := zero |},
       {| mg_wred := mg_wred g; mg_porges0 := mg_porges0 g; mg_dsumm := mg_dsumm g;
          mg_ums := mg_ums g + dums; mg_nh4sum := mg_nh4sum g; mg_nh4ums := mg_nh4ums g + dnh4;
          mg_n2onitsum := mg_n2onitsum g + n2o; mg_n2onitdaily := n2o;
          mg_minsum := mg_minsum g |}).

  Fixpoint mineral_layers (z : nat) (ls : list mineral_layer_in) (g : mineral_glob)
    : list mineral_layer_out * mineral_glob :=
    match ls with
    | [] => ([], g)
    | l :: r => let '(o, g1) := mineral_layer z l g in
                let '(os, g2) := mineral_layers (S z) r g1 in (o :: os, g2)
    end.

  Definition mineral (ls : list mineral_layer_in) (g : mineral_glob) := mineral_layers 1 ls g.
End Mineral.
