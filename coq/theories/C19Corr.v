(* C19Corr.v — runs SoilTempModel at binary64 on the states hermes.Soiltemp was run on and compares
   every output bit for bit; also checks that the harness evaluated the oracles (math.Exp, math.Pow)
   at exactly the arguments the model computes. *)
From Coq Require Import ZArith List Bool Floats.
From Hermes Require Import Num SoilTempModel C01Corr.
Import ListNotations.

Record soiltemp_obs := {
  ob_surf : float; ob_heatcond : list float; ob_heatcap : list float; ob_tdsum : list float;
  ob_td : list float; ob_tsoil0 : list float; ob_tsoil1 : list float;
  ob_elai_arg : float; ob_pw_args : list float; ob_ex_args : list float;
}.

Fixpoint mk_layers (bd wg hum pw ex : list float) : list (layer float) :=
  match bd, wg, hum, pw, ex with
  | b :: bd', w :: wg', h :: hum', p :: pw', e :: ex' =>
      {| l_bd := b; l_wg := w; l_hum := h; l_pw := p; l_ex := e |} :: mk_layers bd' wg' hum' pw' ex'
  | _, _, _, _, _ => []
  end.

(* bitmask of the output groups that differ:
   1 surface value, 2 HEATCOND, 4 HEATCAP, 8 TDSUM, 16 TD, 32 TSOIL[0], 64 TSOIL[1], 128 oracle arguments *)
Definition soiltemp_check (c : day_in float * list float * soiltemp_obs) : nat :=
  let '(d, t0, o) := c in
  let m := soiltemp_day d t0 in
  let b (ok : bool) (v : nat) := if ok then 0%nat else v in
  (b (float_same (o_surf m) (ob_surf o)) 1 + b (floats_same (o_heatcond m) (ob_heatcond o)) 2 +
   b (floats_same (o_heatcap m) (ob_heatcap o)) 4 + b (floats_same (o_tdsum m) (ob_tdsum o)) 8 +
   b (floats_same (o_td m) (ob_td o)) 16 + b (floats_same (o_tsoil0 m) (ob_tsoil0 o)) 32 +
   b (floats_same (o_tsoil1 m) (ob_tsoil1 o)) 64 +
   b (float_same (o_exp_lai_arg m) (ob_elai_arg o) && floats_same (o_pow_args m) (ob_pw_args o)
      && floats_same (o_exp_args m) (ob_ex_args o)) 128)%nat.

(* the profile hermes.Init leaves: (TMIN, TMAX of the start day, TBASE, N, observed TSOIL[0][0..N]) *)
Definition init_check (c : float * float * float * nat * list float) : nat :=
  let '(tmin, tmax, tbase, n, obs) := c in
  if floats_same (init_profile tmin tmax tbase n) obs then 0%nat else 1%nat.

(* the bulk density of every 10-cm layer after hermes.Input: (horizons of the generated soil file, observed g.BD[0..N-1]) *)
Definition bd_check (c : list (Z * Z * option float) * list float) : nat :=
  let '(hs, obs) := c in if floats_same (layer_bd 0%Z hs) obs then 0%nat else 1%nat.

(* TBASE of a traced run: (configured AnnualAverageTemperature, the distinct values g.TBASE had on the traced days) *)
Definition tbase_check (c : float * list float) : nat :=
  let '(conf, seen) := c in
  if forallb (fun v => float_same (tbase_of_config conf) v) seen && negb (Nat.eqb (length seen) 0) then 0%nat else 1%nat.
