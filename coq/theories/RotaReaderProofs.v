(* RotaReaderProofs.v — loader agreement for crop rotations: the text reader on the text rendering of
   an abstract rotation = the CSV reader on its CSV rendering. *)
From Coq Require Import ZArith List Bool Ascii String Lia.
From Hermes Require Import Num DateModel CropParamModel CropParamProofs SoilModel SoilProofs RotaReaderModel.
Import ListNotations.
Local Open Scope Z_scope.

Definition tok_ok (t : lstr) : Prop := t <> [] /\ forall c, In c t -> is_space c = false.

Lemma fields_aux_nospace t : forall cur rest,
  (forall c, In c t -> is_space c = false) -> fields_aux cur (t ++ rest) = fields_aux (rev t ++ cur) rest.
Proof.
  induction t as [|c t IH]; intros cur rest H; [reflexivity|].
  cbn [app fields_aux]. rewrite (H c (or_introl eq_refl)).
  rewrite IH by (intros c' Hc; apply H; now right). cbn [rev]. now rewrite <- app_assoc.
Qed.

Lemma fields_tokens (toks : list lstr) : Forall tok_ok toks ->
  fields (List.concat (map (fun t => t ++ [" "%char]) toks)) = toks.
Proof.
  unfold fields. induction toks as [|t ts IH]; intros H; [reflexivity|].
  inversion H as [|? ? [Hne Hsp] Hts]; subst.
  cbn [map List.concat]. rewrite <- app_assoc. rewrite fields_aux_nospace by exact Hsp.
  rewrite app_nil_r. cbn [app fields_aux].
  change (is_space " "%char) with true. cbv iota.
  destruct (rev t) as [|c r] eqn:E.
  - exfalso. apply Hne. apply (f_equal (@rev ascii)) in E. now rewrite rev_involutive in E.
  - rewrite <- E, rev_involutive. f_equal. now apply IH.
Qed.

Definition wf_arow (r : arow) : Prop := Forall tok_ok (txt_tokens r) /\ Forall no_comma (csv_cells r).

Lemma view_txt_csv (r : arow) : view hidx_default (txt_tokens r) = view hidx_default (csv_cells r).
Proof.
  unfold txt_tokens, csv_cells. destruct (ar_org r) as [o|]; [|reflexivity].
  destruct (ar_var r) as [|v vs]; [reflexivity|].
  destruct (ar_comment r) as [|c cs]; reflexivity.
Qed.

Lemma csv_header_idx : hidx_scan (split_on ","%char rot_csv_header) 0 hidx_default = hidx_default.
Proof. vm_compute. reflexivity. Qed.

Lemma csv_cells_nonempty r : csv_cells r <> [].
Proof. unfold csv_cells. discriminate. Qed.

Section RotaAgree.
  Context {T : Type} {NT : Num T}.

  Theorem rotation_agree_lemma : forall cent f pkt rows, Forall wf_arow rows ->
    read_rot_txt (T:=T) cent f pkt (render_rot_txt rows) = read_rot_csv cent f pkt (render_rot_csv rows).
  Proof.
    intros cent f pkt rows W. unfold read_rot_txt, read_rot_csv, render_rot_txt, render_rot_csv.
    rewrite csv_header_idx. f_equal.
    rewrite !map_app, !map_map. f_equal.
    apply map_ext_in. intros r Hr. rewrite Forall_forall in W. destruct (W r Hr) as [Wt Wc].
    unfold render_rot_txt_row, render_rot_csv_row.
    rewrite fields_tokens by exact Wt.
    rewrite split_intercalate by (auto using csv_cells_nonempty).
    apply view_txt_csv.
  Qed.
End RotaAgree.

(* ---- boolean checkers for the well-formedness of a row, and a sample rotation ---- *)
Definition tok_okb (t : lstr) : bool := negb (Nat.eqb (List.length t) 0) && forallb (fun c => negb (is_space c)) t.
Definition no_commab (t : lstr) : bool := forallb (fun c => if ascii_dec c ","%char then false else true) t.
Definition wf_arowb (r : arow) : bool := forallb tok_okb (txt_tokens r) && forallb no_commab (csv_cells r).

Lemma tok_okb_ok t : tok_okb t = true -> tok_ok t.
Proof.
  unfold tok_okb, tok_ok. intros H. apply andb_true_iff in H as [A B]. split.
  - destruct t; [discriminate|discriminate].
  - rewrite forallb_forall in B. intros c Hc. specialize (B c Hc). now destruct (is_space c).
Qed.

Lemma no_commab_ok t : no_commab t = true -> no_comma t.
Proof.
  unfold no_commab, no_comma. intros H Hin. rewrite forallb_forall in H. specialize (H _ Hin).
  destruct (ascii_dec ","%char ","%char); [discriminate|congruence].
Qed.

Lemma wf_arowb_ok r : wf_arowb r = true -> wf_arow r.
Proof.
  unfold wf_arowb, wf_arow. intros H. apply andb_true_iff in H as [A B]. split; apply Forall_forall; intros t Ht.
  - rewrite forallb_forall in A. apply tok_okb_ok, A, Ht.
  - rewrite forallb_forall in B. apply no_commab_ok, B, Ht.
Qed.

Definition sample_row (crop sow har : string) (org : option string) (var cmt : string) : arow :=
  {| ar_field := lstr_of "FLD1"; ar_crop := lstr_of crop; ar_sow := lstr_of sow; ar_har := lstr_of har;
     ar_rex := lstr_of "080"; ar_yld := lstr_of "050"; ar_org := option_map lstr_of org; ar_var := lstr_of var;
     ar_comment := lstr_of cmt |}.
Definition sample_rotation : list arow :=
  [sample_row "SM" "15051980" "19091980" (Some "0") "" "";
   sample_row "SOY" "24051981" "12091981" (Some "0") "ii" "checked";
   sample_row "SM" "27041982" "15091982" (Some "0") "" "note";       (* CSV: empty variety cell, then a comment *)
   sample_row "WW" "21041983" "02091983" None "" ""]%string.

Lemma sample_rotation_reads :
  Forall wf_arow sample_rotation /\
  exists r, read_rot_csv (T:=PrimFloat.float) 60 DElong (lstr_of "FLD1") (render_rot_csv sample_rotation) = Ok r /\
            List.length (ro_entries r) = 4%nat /\ map (fun e => str_of (re_var e)) (ro_entries r) = [""; "ii"; ""; ""]%string.
Proof.
  split.
  - unfold sample_rotation. repeat (apply Forall_cons; [apply wf_arowb_ok; vm_compute; reflexivity|]). apply Forall_nil.
  - eexists. split; [vm_compute; reflexivity|]. split; reflexivity.
Qed.
