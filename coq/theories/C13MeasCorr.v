(* C13MeasCorr.v — correspondence of MeasModel with the real ExtractMeasuredDataTxt / ExtractMeasuredDataCSV
   (harness command measstate: the exported readers are called on a prepared state): NMESS, the date, the day
   number, WG[2][0..N], WNZ[0], KNZ1..6[0], CN[1][0..N-1] — bit for bit; python's renderings of an abstract
   measurement set are compared with the Coq renderers. *)
From Coq Require Import ZArith List Bool Ascii String Floats Uint63.
From Hermes Require Import Num DateModel CropParamModel SoilModel RotaReaderModel MeasModel C13Corr C13SoilCorr C13RotaCorr.
Import ListNotations.
Local Open Scope Z_scope.

Inductive mobs := MOk (nmess : Z) (mes : string) (mess : Z) (f : list float) | MNone | MCrash.

Definition flat_meas (m : minit float) : list float := mi_wg2 m ++ [mi_wnz0 m] ++ mi_knz m ++ mi_cn1 m.

Definition meas_cmp (m : res (option (minit float))) (o : mobs) : list Z :=
  match m, o with
  | Ok (Some mi), MOk nm mes mess f =>
      (if mi_nmess mi =? nm then [] else [10000]) ++ (if leqb (mi_mes0 mi) (lstr_of mes) then [] else [10001]) ++
      (if mi_mess0 mi =? mess then [] else [10002]) ++ diff_f 0 (flat_meas mi) f
  | Ok None, MNone => []
  | Crash, MCrash => []
  | Ok _, MCrash => [77777]
  | Crash, _ => [88888]
  | _, _ => [70000]
  end.

Definition mk_amrow (id date : string) (ks : list string) (mode : string) (ws : list string) : amrow :=
  {| am_id := lstr_of id; am_date := lstr_of date; am_k := map lstr_of ks; am_mode := lstr_of mode; am_w := map lstr_of ws |}.

Inductive mcase :=
  | MLoad (file : nat) (csv : bool) (fmt cent : Z) (n : nat) (w wmin : list float) (ident : string) (o : mobs)
  | MRender (rows : list amrow) (txt csv : nat).

Definition mcase_diff (files : list (list lstr)) (c : mcase) : list Z :=
  match c with
  | MLoad f csv fm cent n w wmin ident o =>
      meas_cmp ((if csv then read_meas_csv else read_meas_txt) cent (fmt_of_z fm) n w wmin [] (lstr_of ident) (nth f files [])) o
  | MRender rows t c =>
      (if lines_eqb (render_meas_txt rows) (nth t files []) then [] else [66661]) ++
      (if lines_eqb (render_meas_csv rows) (nth c files []) then [] else [66662])
  end.

Fixpoint mmismatches_from (files : list (list lstr)) (i : nat) (cs : list mcase) : list (nat * list Z) :=
  match cs with
  | [] => []
  | c :: r => match mcase_diff files c with
              | [] => mmismatches_from files (S i) r
              | d => (i, firstn 6 d) :: mmismatches_from files (S i) r
              end
  end.
Definition mmismatches (fs : list fsrc) (cs : list mcase) : list (nat * list Z) :=
  mmismatches_from (resolve [] fs) 0 cs.

(* ---- the year of the fertiliser-prediction date: PredDateModel.langtag_year vs the real LangTagConverter ---- *)
From Hermes Require Import PredDateModel.
Fixpoint pmismatches_from (i : nat) (cs : list (Z * Z * string * Z)) : list (nat * list Z) :=
  match cs with
  | [] => []
  | (fm, cent, text, yr) :: r =>
      match langtag_year cent (fmt_of_z fm) (lstr_of text) with
      | Some y => if y =? yr then pmismatches_from (S i) r else (i, [y]) :: pmismatches_from (S i) r
      | None => (i, [88888]) :: pmismatches_from (S i) r
      end
  end.
Definition pmismatches (fs : list fsrc) (cs : list (Z * Z * string * Z)) : list (nat * list Z) := pmismatches_from 0 cs.
