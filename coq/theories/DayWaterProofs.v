(* DayWaterProofs.v — lemmas about the composed day model (DayWaterModel) read over the reals:
   Evatra's surface flux is rain' minus actual evaporation, the shapes Evatra hands to Water, the
   model's own sub-step choice covers the day exactly, and the full day balance of property C01. *)
From Coq Require Import ZArith Reals List Bool Lia Lra.
From Hermes Require Import Num RUtil Util WaterModel WaterProofs EvatraModel EvatraProofs DayWaterModel.
Import ListNotations.
Local Open Scope R_scope.

(* ---------------------------------------------------------------- *)
(* 1. EvatraModel: FLUSS0 = REGEN - ETA, for every input                *)
Lemma evatra_fluss0_lemma (x : evatra_in (T:=R)) :
  eo_fluss0 (evatra_struct x) = ei_regen x - eo_eta (evatra_struct x).
Proof.
  unfold evatra_struct.
  destruct (split_of (ei_crop x) (ei_verdu x) (ei_elai x)) as [[evmax tramax] etcp].
  destruct (ei_crop x).
  - destruct (lured_of (ei_wg0 x) (ei_porges x) (ei_lukrit x) (ei_lumday x)) as [ld lured].
    destruct (uptake_struct x _ tramax lured) as [[[[tp0 tp] tpakt] gwauf] weff].
    cbn [eo_fluss0 eo_eta]. rsimp. lra.
  - cbn [eo_fluss0 eo_eta]. rsimp. lra.
Qed.

(* ---------------------------------------------------------------- *)
(* 2. shapes of Evatra's outputs                                        *)
Lemma nfk_of_length (regen : R) (wg0 wmin wnor : list R) n :
  length wg0 = n -> length wmin = n -> length wnor = n ->
  length (@nfk_of R RNum regen wg0 wmin wnor) = n.
Proof.
  intros L1 L2 L3. destruct wg0 as [|g0 gr], wmin as [|m0 mr], wnor as [|n0 nr]; cbn in *; try lia.
  rewrite map_length, !combine_length. lia.
Qed.

Lemma ev_of_length (eva : R) (wg0 wmin expw : list R) n :
  length wg0 = n -> length wmin = n -> length expw = n ->
  length (@ev_of R RNum eva wg0 wmin expw) = n.
Proof.
  intros L1 L2 L3. unfold ev_of. destruct (gtb eva zero).
  - rewrite !map_length, !combine_length. lia.
  - rewrite map_length. exact L1.
Qed.

Lemma tables_length (wurz : nat) (grw : R) (nfk : list R) : forall i,
  length (@tables R RNum i wurz grw nfk) = length nfk.
Proof. induction nfk as [|a r IH]; intros i; cbn [tables length]; [reflexivity | rewrite IH; reflexivity]. Qed.

Lemma redis_length (mn grw : R) : forall fuel ls i W tpakt gwauf,
  (length ls <= fuel)%nat ->
  length (fst (fst (@redis R RNum fuel i mn grw W tpakt gwauf ls))) = length ls.
Proof.
  induction fuel as [|fuel IH]; intros ls i W tpakt gwauf H.
  - destruct ls; cbn in *; [reflexivity | lia].
  - destruct ls as [|l rest]; [reflexivity|]. cbn [redis].
    match goal with |- context [redis fuel ?i' mn grw ?W' ?t' ?g' ?r'] =>
      specialize (IH r' i' W' t' g'); destruct (redis fuel i' mn grw W' t' g' r') as [[tps ta] gw] end.
    cbn [fst length] in *.
    match type of IH with (length (if ?c then _ else _) <= _)%nat -> _ => destruct c end;
      [rewrite map_length in IH|]; rewrite IH by lia; reflexivity.
Qed.

Lemma uptake_struct_tp_length (x : evatra_in (T:=R)) nfk tramax lured n :
  length nfk = n -> length (ei_wudich x) = n -> length (ei_wg0 x) = n -> length (ei_wmin x) = n ->
  let '(_, tp, _, _, _) := @uptake_struct R RNum x nfk tramax lured in length tp = n.
Proof.
  intros L1 L2 L3 L4. rewrite uptake_struct_eq. cbv zeta.
  set (ls0 := ls0_of x nfk).
  assert (L0 : length ls0 = n).
  { unfold ls0, ls0_of. rewrite map_length, !combine_length, tables_length. lia. }
  set (mn := Rmin _ _). set (weff := weff_of _ ls0).
  set (ls := tp_init 0 mn tramax weff lured ls0).
  assert (Ll : length ls = n) by (unfold ls; rewrite tp_init_length; exact L0).
  set (k := Z.to_nat (RI.trunc_Z mn)).
  pose proof (redis_length mn (ei_grw x) k (firstn k ls) 1%nat weff 0 0) as HR.
  destruct (redis k 1 mn (ei_grw x) weff 0 0 (firstn k ls)) as [[tps tpakt] gwauf].
  cbn [fst] in HR. rewrite app_length, HR by (rewrite firstn_length; lia).
  unfold tps_of. rewrite map_length, firstn_length, skipn_length. lia.
Qed.

(* the hypotheses of the day theorems: N >= 1 layers, every per-layer array has N entries *)
Definition day_wf (x : day_in (T:=R)) (n : nat) : Prop :=
  (1 <= n)%nat /\ length (di_wg1 x) = n /\ length (di_wmin x) = n /\ length (di_w x) = n /\
  length (di_wnor x) = n /\ length (di_expw x) = n /\ length (di_wudich x) = n.

Lemma evatra_shapes (x : day_in (T:=R)) (regen : R) n : day_wf x n ->
  let e := evatra_struct (evatra_in_of x regen) in
  length (eo_nfk e) = n /\ length (eo_ev e) = n /\ length (eo_tp e) = n.
Proof.
  intros (Hn & Lg & Lm & Lw & Ln & Le & Ld). cbv zeta. unfold evatra_struct.
  cbn [evatra_in_of ei_crop ei_verdu ei_elai ei_expw ei_regen ei_wg0 ei_wmin ei_w ei_wnor ei_porges ei_lukrit ei_lumday].
  destruct (split_of (di_crop x) (di_verdu x) (di_elai x)) as [[evmax tramax] etcp].
  pose proof (nfk_of_length regen (di_wg1 x) (di_wmin x) (di_wnor x) n Lg Lm Ln) as HN.
  destruct (di_crop x).
  - destruct (lured_of (di_wg1 x) (di_porges x) (di_lukrit x) (di_lumday x)) as [ld lured].
    pose proof (uptake_struct_tp_length (evatra_in_of x regen) (nfk_of regen (di_wg1 x) (di_wmin x) (di_wnor x))
                  tramax lured n HN Ld Lg Lm) as HT.
    destruct (uptake_struct (evatra_in_of x regen) _ tramax lured) as [[[[tp0 tp] tpakt] gwauf] weff].
    cbn [eo_nfk eo_ev eo_tp]. repeat split; [exact HN | apply ev_of_length; assumption | exact HT].
  - cbn [eo_nfk eo_ev eo_tp]. repeat split; [exact HN | apply ev_of_length; assumption | rewrite map_length; exact Lg].
Qed.

Lemma water_in_of_wf (x : day_in (T:=R)) (regen wdt : R) n : day_wf x n ->
  wf_in (water_in_of x (evatra_struct (evatra_in_of x regen)) wdt) n.
Proof.
  intros H. pose proof (evatra_shapes x regen n H) as (L1 & L2 & L3).
  destruct H as (Hn & Lg & Lm & Lw & Ln & Le & Ld).
  unfold wf_in, water_in_of. cbn [wi_wg0 wi_tp wi_w wi_wmin wi_nfk wi_ev wi_q1].
  repeat split; try assumption.
  - rewrite app_length, L2. cbn. lia.
  - cbn [length]. rewrite map_length, Lg. reflexivity.
Qed.

(* ---------------------------------------------------------------- *)
(* 3. the model's own sub-step choice covers the day                    *)
Lemma Int_part_IZR (m : Z) (d : R) : 0 <= d < 1 -> Int_part (IZR m + d) = m.
Proof.
  intros Hd. unfold Int_part.
  rewrite <- (tech_up (IZR m + d) (m + 1)); [lia | rewrite plus_IZR; lra | rewrite plus_IZR; lra].
Qed.

Lemma Int_part_ge1 (x : R) : 1 <= x -> (1 <= Int_part x)%Z.
Proof.
  intros H. destruct (base_Int_part x) as [_ H2].
  assert (0 < IZR (Int_part x)) by lra. apply lt_IZR in H0. lia.
Qed.

(* math.Ceil of x >= 1 is an integer m >= 1 *)
Lemma ceilR_int (x : R) : 1 <= x -> exists m : Z, (1 <= m)%Z /\ RI.ceilR x = IZR m.
Proof.
  intros H. pose proof (Int_part_ge1 x H) as H1. unfold RI.ceilR.
  destruct (Req_EM_T (IZR (Int_part x)) x) as [E|E].
  - exists (Int_part x). split; [exact H1 | symmetry; exact E].
  - exists (Int_part x + 1)%Z. split; [lia | reflexivity].
Qed.

(* int(math.Round(m)) = m for an integer m >= 0 *)
Lemma round_trunc_IZR (m : Z) : (0 <= m)%Z -> RI.trunc_Z (RI.round (IZR m)) = m.
Proof.
  intros H. apply IZR_le in H. unfold RI.round.
  destruct (Rle_dec 0 (IZR m)) as [_|N]; [|lra].
  rewrite Int_part_IZR by lra. unfold RI.trunc_Z.
  destruct (Rle_dec 0 (IZR m)) as [_|N]; [|lra].
  replace (IZR m) with (IZR m + 0) by lra. apply Int_part_IZR. lra.
Qed.

Lemma steps_cover_lemma (zsr : R) : 1 <= zsr ->
  let '(k, wdt) := @steps_of R RNum (wdt_of zsr) in
  (1 <= k)%Z /\ wdt = / IZR k /\ IZR k * wdt = 1.
Proof.
  intros H. destruct (ceilR_int zsr H) as (m & Hm & Em).
  unfold steps_of, wdt_of. rsimp. cbn [ceilv roundv truncZ RNum]. rewrite Em.
  assert (Hm' : 1 <= IZR m) by (apply IZR_le; exact Hm).
  destruct (RI.ltb_spec (1 / IZR m) 1) as [Hlt|Hge].
  - replace (1 / (1 / IZR m)) with (IZR m) by (field; lra).
    rewrite round_trunc_IZR by lia.
    repeat split; [exact Hm | unfold Rdiv; lra | field; lra].
  - repeat split; [lia | lra | lra].
Qed.

Lemma zsr_max_ge (regen : R) : forall ws fs zsr, zsr <= @zsr_max R RNum regen zsr ws fs.
Proof.
  induction ws as [|w wr IH]; intros fs zsr; [cbn; lra|].
  destruct fs as [|f fr]; [cbn; lra|]. cbn [zsr_max].
  match goal with |- _ <= zsr_max regen ?z wr fr => specialize (IH fr z); set (z' := z) in * end.
  assert (zsr <= z'); [|lra].
  unfold z'. destruct (gtb _ _); [|lra]. rsimp. apply Rmax_l.
Qed.

Lemma zsr_of_ge1 (fluss0 regen : R) (w wg0 : list R) : 1 <= @zsr_of R RNum fluss0 regen w wg0.
Proof.
  unfold zsr_of. eapply Rle_trans; [|apply zsr_max_ge].
  repeat match goal with |- context [if ?c then _ else _] => destruct c end.
  all: unfold dec; rsimp.
  all: repeat match goal with |- context [IZR (10 ^ Z.of_nat ?k)] =>
         let v := eval vm_compute in (10 ^ Z.of_nat k)%Z in change (10 ^ Z.of_nat k)%Z with v end.
  all: match goal with |- 1 <= 1 / ?a => replace (1 / a) with (/ a) by (field; lra) end.
  all: try (rewrite Rinv_1; lra).
  all: match goal with |- 1 <= / (?a / ?b) => replace (/ (a / b)) with (b / a) by (field; lra); lra end.
Qed.

Lemma day_steps_lemma (x : day_in (T:=R)) :
  let o := day_water x in
  (1 <= do_steps o)%Z /\ do_wdt o = / IZR (do_steps o) /\ IZR (do_steps o) * do_wdt o = 1.
Proof.
  cbv zeta. unfold day_water.
  set (regen := day_regen x). set (e := evatra_struct _).
  pose proof (steps_cover_lemma _ (zsr_of_ge1 (eo_fluss0 e) regen (di_w x) (di_wg1 x))) as HS.
  destruct (steps_of (wdt_of (zsr_of (eo_fluss0 e) regen (di_w x) (di_wg1 x)))) as [k wdt].
  cbn [do_steps do_wdt]. exact HS.
Qed.

(* ---------------------------------------------------------------- *)
(* 4. the full day balance                                              *)
Lemma day_final_firstn n : forall outs (wg : list R),
  firstn n (day_final wg outs) = final_wg (firstn n wg) n outs.
Proof. induction outs as [|o r IH]; intros wg; cbn [day_final final_wg]; [reflexivity | apply IH]. Qed.

Lemma day_regen_R (x : day_in (T:=R)) : day_regen x = di_rain x + irrigation_of x.
Proof. unfold day_regen, irrigation_of. destruct (di_irr_due x); rsimp; lra. Qed.

(* for every number of layers n >= 1, every state and every sub-step count k >= 1 with WDT = 1/k:
   storage(end) - storage(start) = (rain + irrigation) - ETA - sum TP' - sum_k Q1_k[N] - sum_k QDRAIN_k *)
Lemma day_balance_full_lemma (x : day_in (T:=R)) (n k : nat) :
  day_wf x n ->
  let o := day_water x in
  (1 <= k)%nat -> Z.to_nat (do_steps o) = k -> do_wdt o = / INR k ->
  storage (firstn n (do_wg1 o)) - storage (di_wg1 x) =
    (di_rain x + irrigation_of x) - eo_eta (do_ev o) - Rsum (day_tp o)
    - Rsum (map (fun s => last (wo_q1 s) 0) (do_outs o))
    - Rsum (map (fun s => wo_qdrain s) (do_outs o)).
Proof.
  intros Hwf. cbv zeta. unfold day_tp, day_water.
  pose proof (day_regen_R x) as HR. set (regen := day_regen x) in *.
  pose proof (evatra_fluss0_lemma (evatra_in_of x regen)) as HF.
  pose proof (fun wdt => water_in_of_wf x regen wdt n Hwf) as HW.
  set (e := evatra_struct (evatra_in_of x regen)) in *.
  destruct (steps_of (wdt_of (zsr_of (eo_fluss0 e) regen (di_w x) (di_wg1 x)))) as [steps wdt].
  cbn [do_steps do_wdt do_outs do_wg1 do_ev]. intros Hk Hs Hwdt. rewrite Hs.
  specialize (HW wdt). set (x1 := water_in_of x e wdt) in *.
  pose proof (day_balance_lemma x1 n k HW Hk Hwdt) as HB. cbv zeta in HB.
  rewrite day_final_firstn.
  destruct Hwf as (Hn & Lg & _).
  rewrite firstn_app_exact by exact Lg.
  change (wi_wg0 x1) with (di_wg1 x) in HB. rewrite HB.
  change (wi_fluss0 x1) with (eo_fluss0 e). rewrite HF.
  change (ei_regen (evatra_in_of x regen)) with regen. rewrite HR.
  destruct k as [|k']; [lia|]. cbn [water_iter]. cbv zeta. lra.
Qed.

(* the same for the model's own choice of STEPS and WDT: no hypothesis on the sub-step count is left *)
Lemma day_balance_own_choice_lemma (x : day_in (T:=R)) (n : nat) :
  day_wf x n ->
  let o := day_water x in
  storage (firstn n (do_wg1 o)) - storage (di_wg1 x) =
    (di_rain x + irrigation_of x) - eo_eta (do_ev o) - Rsum (day_tp o)
    - Rsum (map (fun s => last (wo_q1 s) 0) (do_outs o))
    - Rsum (map (fun s => wo_qdrain s) (do_outs o)).
Proof.
  intros Hwf. cbv zeta.
  pose proof (day_steps_lemma x) as (H1 & H2 & _). cbv zeta in *.
  apply (day_balance_full_lemma x n (Z.to_nat (do_steps (day_water x))) Hwf); [lia | reflexivity|].
  rewrite H2 at 1. rewrite INR_IZR_INZ, Z2Nat.id by lia. reflexivity.
Qed.

(* non-vacuity: a 3-layer day with rain, an irrigation of 20 mm and a crop *)
Definition example_day : day_in (T:=R) :=
  {| di_rain := 1/2; di_irr_due := true; di_breg := 20;
     di_wg1 := [25/100; 28/100; 3/10]; di_ev_last := 0; di_q10 := 0;
     di_cnt := {| c_pftrans := 0; c_tray := 0; c_trag := 0; c_etag := 0; c_tp3 := 0; c_tp6 := 0; c_tp9 := 0;
                  c_draisum := 0; c_sicker := 0; c_capsum := 0; c_perg := 0; c_infilt := 0 |};
     di_crop := true; di_verdu := 4/10; di_elai := 1/2; di_expw := [9/10; 7/10; 1/2];
     di_wmin := [1/10; 1/10; 1/10]; di_w := [3/10; 3/10; 3/10]; di_wnor := [3/10; 3/10; 3/10];
     di_porges := [4/10; 4/10; 4/10]; di_wurz := 2%nat; di_wudich := [1; 1/2; 0]; di_grw := 20;
     di_lukrit := 8/100; di_lumday := 0%Z; di_lured := 1; di_etrel := 1; di_trrel := 1;
     di_draidep := 2%nat; di_draifak := 1/2; di_outn := 3%nat; di_caps := [];
     di_after_sow := true; di_after_sow_later := true; di_season_reset := false |}.

Lemma example_day_wf : day_wf example_day 3.
Proof. unfold day_wf; cbn; repeat split; auto. Qed.
