(* DayNitroModel.v — COMPOSED model of the NITROGEN path of one simulated day, written once over [Num]:
   run on binary64 for the whole-day tie (DayNitroCorr.v), read over R by the day-level theorems of
   properties C02 / C07 (Prop_C02b.v).  No proofs here.  It only composes the kernels that are tied to
   the code one by one in NitroModel — [tillage_mix], [mineral], [nmove], [denitr], [denitmo] — with the
   glue of run.go's day loop and of Nitro:

     run.go:455-461   irrigation due today: C1[0] += BRKZ*BREG*0.01 when that is > 0
     run.go:472-475   deposition: C1[0] += DEPOS/365*DT, clamp at 0
     (run.go:476-487  measurement overwrite: such days start AFTER the additions, [dy_add] = false)
     run.go:588-641   for SUBD = 1..STEPS: Water; (SUBD = 1: crop growth, writes PE, pools, PESUM); Nitro
     nitro.go:56-69   SUBD = 1, manual fertilisation due: NFOS[0] += NSAS, NAOS[0] += NLAS, DSUMM += NDIR,
                      NH4Sum += NH4N
     nitro.go:245-281 SUBD = 1, tillage due: mixing of the pools and of mineral N
     nitro.go:282-285 SUBD = 1: mineral -> DN (stays the same for all later sub-steps of the day)
     nitro.go:566     every SUBD: nmove with the day's DN, the C1/PE/counters left by the previous sub-step
                      and the Q1 / QDRAIN / FLUSS0 / WG[0] that Water produced for this sub-step
     run.go:643-645   PE := 0
     run.go:646-650   Denitmo when the first horizon's texture starts with 'H', else Denitr

   What the model does NOT contain (days on which it happens are skipped by the tie, counted by reason):
   the harvest block of Nitro (nitro.go:286-564, residue bookkeeping via resid, crop index advance), the
   automatic-fertilisation branch (nitro.go:71-233), the prognosis fertilisation inside the crop module
   (dung.go:64-80).  Inputs that other modules produce enter as explicit inputs: PE, the organic pools,
   PESUM and NLEAG as the crop module left them before Nitro of sub-step 1; per sub-step Q1, QDRAIN,
   FLUSS0 and WG[0] (from Water) with the exp oracle of the dispersion coefficient; mineral's soil
   temperatures and exp oracles; the denitrification factors (math.Pow / math.Exp values). *)
From Coq Require Import ZArith List Bool.
From Hermes Require Import Num NitroModel.
Import ListNotations.
Local Open Scope num_scope.

Section DayNitro.
  Context {T : Type} {NT : Num T}.

  (* what Water leaves for one sub-step (read at the "nitro-pre" probe) *)
  Record sub_in := {
    sb_fluss0 : T; sb_qdrain : T;
    sb_q1 : list T;      (* N+1 *)
    sb_wg0 : list T;     (* N+1 *)
    sb_expo : list T;    (* N: exp((WG0[z]+WG0[z+1])*5) *)
  }.

  (* mineral's per-layer environment (nitro.go:592-600): TD[z-1], TD[z], the two exp oracles, soil constants *)
  Record menv := {
    me_tdprev : T; me_td : T; me_e0 : T; me_e1 : T;
    me_wnor : T; me_wmin : T; me_porges : T; me_w : T;
  }.

  Record dayn_in := {
    (* start-of-day additions *)
    dy_add : bool;          (* true: [dy_c1] is the previous day's end state and the additions are applied *)
    dy_irr : bool;          (* an irrigation event fires today *)
    dy_brkz : T; dy_breg : T;
    dy_depos : T; dy_dt : T;
    (* state *)
    dy_c1 : list T;         (* N *)
    dy_nfos : list T; dy_naos : list T; dy_minfos : list T; dy_minaos : list T;   (* N each *)
    dy_pe : list T;         (* N: as PhytoOut left it *)
    dy_pesum : T; dy_aufnasum : T; dy_outsum : T; dy_nleag : T; dy_drainloss : T;
    dy_dsumm : T; dy_ums : T; dy_nh4sum : T; dy_nh4ums : T; dy_n2onitsum : T; dy_n2onitdaily : T; dy_minsum : T;
    dy_cumdenit : T;
    (* events of sub-step 1 *)
    dy_fert : bool; dy_nsas : T; dy_nlas : T; dy_ndir : T; dy_nh4n : T;
    dy_till : bool; dy_eint : T; dy_tilart : Z;
    (* mineral *)
    dy_menv : list menv;    (* IZM/10 layers *)
    dy_wred : T; dy_porges0 : T;
    (* transport: constant over the day *)
    dy_wdt : T; dy_after_sow : bool; dy_growing : bool; dy_dv : T; dy_draidep : nat; dy_outn : nat;
    dy_stab : T; dy_schnorr : T; dy_ad : list T (* N *); dy_w : list T (* N+1 *);
    dy_subs : list sub_in;  (* STEPS entries *)
    (* denitrification oracles: one entry each for Denitr, three for Denitmo *)
    dy_peat : bool; dy_nq : list T; dy_fth : list T; dy_fte : list T;
  }.

  Record dayn_out := {
    dn_c1_add : list T;     (* C1 after the start-of-day additions *)
    dn_dn : list T;         (* DN of the day *)
    dn_c1_subs : list (list T);   (* C1 after every sub-step *)
    dn_pe_taken : list T;   (* PE after the clamp of sub-step 1 = what the crop took *)
    dn_c1_nmove : list T;   (* C1 after the last sub-step, before denitrification *)
    dn_c1 : list T;         (* end of day *)
    dn_pe : list T;         (* end of day: zeros *)
    dn_nfos : list T; dn_naos : list T; dn_minfos : list T; dn_minaos : list T;
    dn_pesum : T; dn_aufnasum : T; dn_outsum : T; dn_nleag : T; dn_drainloss : T;
    dn_dsumm : T; dn_ums : T; dn_nh4sum : T; dn_nh4ums : T; dn_n2onitsum : T; dn_n2onitdaily : T; dn_minsum : T;
    dn_cumdenit : T;
    dn_unstable : bool;     (* flag left by the last sub-step *)
  }.

  (* ---- run.go:455-475 *)
  Definition irr_n (brkz breg : T) : T := brkz * breg * dec 1 2.
  Definition add_top (add irr : bool) (brkz breg depos dt : T) (c1 : list T) : list T :=
    if add then
      let c0 := get zero c1 0 in
      let irrn := irr_n brkz breg in
      let c0i := if irr && gtb irrn zero then c0 + irrn else c0 in
      let c0d := c0i + depos / ofZ 365 * dt in
      upd c1 0 (if c0d <? zero then zero else c0d)
    else c1.

  (* ---- nitro.go:58-63 *)
  Definition add_first (fire : bool) (v : T) (l : list T) : list T :=
    if fire then upd l 0 (get zero l 0 + v) else l.
  Definition add_if (fire : bool) (v s : T) : T := if fire then s + v else s.

  (* ---- nitro.go:245-281 *)
  Definition till_stage (fire : bool) (eint : T) (tilart : Z) (nfos naos minfos minaos c1 : list T) :=
    if fire then tillage_mix eint tilart nfos naos minfos minaos c1 else (nfos, naos, minfos, minaos, c1).

  (* ---- nitro.go:282-285 / 569-688: the layer inputs of mineral from the day's environment, WG[0] of sub-step 1
     and the pools as fertilisation and tillage left them *)
  Fixpoint mk_mls (envs : list menv) (wg0 naos nfos minaos minfos : list T) : list (mineral_layer_in (T:=T)) :=
    match envs with
    | [] => []
    | e :: er =>
        {| ml_tempbo := (me_td e + me_tdprev e) / two; ml_e0 := me_e0 e; ml_e1 := me_e1 e;
           ml_wg0 := hd zero wg0; ml_wnor := me_wnor e; ml_wmin := me_wmin e; ml_porges := me_porges e; ml_w := me_w e;
           ml_naos := hd zero naos; ml_nfos := hd zero nfos; ml_minaos := hd zero minaos; ml_minfos := hd zero minfos |}
        :: mk_mls er (tl wg0) (tl naos) (tl nfos) (tl minaos) (tl minfos)
    end.
  (* the first [length os] entries of a pool are replaced by mineral's results *)
  Definition put_first {A} (f : A -> T) (os : list A) (pool : list T) : list T :=
    map f os ++ skipn (length os) pool.
  (* DN[z] is written by mineral only: layers below IZM keep their initial 0 *)
  Definition dn_of (n : nat) (os : list (mineral_layer_out (T:=T))) : list T :=
    map mo_dn os ++ repeat zero (n - length os).

  (* ---- the sub-step loop as far as nitrogen sees it *)
  Record nst := {
    st_c1 : list T; st_pe : list T;
    st_pesum : T; st_aufnasum : T; st_outsum : T; st_nleag : T; st_drainloss : T;
    st_unstable : bool; st_trace : list (list T);   (* C1 after every sub-step, newest first *)
  }.

  Definition mk_nmove (x : dayn_in) (dn : list T) (first : bool) (s : sub_in) (st : nst) : nmove_in (T:=T) :=
    {| ni_subd1 := first; ni_wdt := dy_wdt x; ni_after_sow := dy_after_sow x; ni_growing := dy_growing x;
       ni_fluss0 := sb_fluss0 s; ni_dv := dy_dv x; ni_draidep := dy_draidep x; ni_qdrain := sb_qdrain s;
       ni_outn := dy_outn x; ni_stab := dy_stab x; ni_schnorr := dy_schnorr x; ni_ad := dy_ad x; ni_expo := sb_expo s;
       ni_wg0 := sb_wg0 s; ni_w := dy_w x; ni_pe := st_pe st; ni_c1 := st_c1 st; ni_dn := dn; ni_q1 := sb_q1 s;
       ni_pesum := st_pesum st; ni_aufnasum := st_aufnasum st; ni_outsum := st_outsum st; ni_nleag := st_nleag st;
       ni_drainloss := st_drainloss st |}.

  Definition sub_step (x : dayn_in) (dn : list T) (first : bool) (s : sub_in) (st : nst) : nst :=
    let o := nmove (mk_nmove x dn first s st) in
    let c1 := no_c1 o in
    {| st_c1 := c1; st_pe := no_pe o; st_pesum := no_pesum o; st_aufnasum := no_aufnasum o;
       st_outsum := no_outsum o; st_nleag := no_nleag o; st_drainloss := no_drainloss o;
       st_unstable := no_unstable o; st_trace := c1 :: st_trace st |}.

  Fixpoint sub_steps (x : dayn_in) (dn : list T) (first : bool) (subs : list sub_in) (st : nst) : nst :=
    match subs with
    | [] => st
    | s :: r => let st1 := sub_step x dn first s st in sub_steps x dn false r st1
    end.

  (* ---- run.go:646-650 *)
  Definition take3 (c1 : list T) : list T := [get zero c1 0; get zero c1 1; get zero c1 2].
  Definition denit_stage (peat : bool) (nq fth fte : list T) (c1 : list T) (cum : T) : list T * T :=
    if peat then
      let o := denitmo {| dm_c1 := firstn 9 c1; dm_nq := nq; dm_fth := fth; dm_fte := fte; dm_cum := cum |} in
      (dmo_c1 o ++ skipn 9 c1, dmo_cum o)
    else
      let o := denitr {| di_c1 := take3 c1; di_nquadrat := get zero nq 0; di_ftheta := get zero fth 0;
                         di_ftemp := get zero fte 0; di_cumdenit := cum |} in
      (firstn (length c1) (do_c1 o ++ skipn 3 c1), do_cumdenit o).

  (* ---- the day *)
  Definition day_nitro (x : dayn_in) : dayn_out :=
    let n := length (dy_c1 x) in
    let c1a := add_top (dy_add x) (dy_irr x) (dy_brkz x) (dy_breg x) (dy_depos x) (dy_dt x) (dy_c1 x) in
    let nfos1 := add_first (dy_fert x) (dy_nsas x) (dy_nfos x) in
    let naos1 := add_first (dy_fert x) (dy_nlas x) (dy_naos x) in
    let dsumm1 := add_if (dy_fert x) (dy_ndir x) (dy_dsumm x) in
    let nh4sum1 := add_if (dy_fert x) (dy_nh4n x) (dy_nh4sum x) in
    let '(nfos2, naos2, minfos2, minaos2, c1b) :=
      till_stage (dy_till x) (dy_eint x) (dy_tilart x) nfos1 naos1 (dy_minfos x) (dy_minaos x) c1a in
    let wg0 := match dy_subs x with s :: _ => sb_wg0 s | [] => [] end in
    let '(os, g) :=
      mineral (mk_mls (dy_menv x) wg0 naos2 nfos2 minaos2 minfos2)
              {| mg_wred := dy_wred x; mg_porges0 := dy_porges0 x; mg_dsumm := dsumm1; mg_ums := dy_ums x;
                 mg_nh4sum := nh4sum1; mg_nh4ums := dy_nh4ums x; mg_n2onitsum := dy_n2onitsum x;
                 mg_n2onitdaily := dy_n2onitdaily x; mg_minsum := dy_minsum x |} in
    let dn := dn_of n os in
    let st := sub_steps x dn true (dy_subs x)
                {| st_c1 := c1b; st_pe := dy_pe x; st_pesum := dy_pesum x; st_aufnasum := dy_aufnasum x;
                   st_outsum := dy_outsum x; st_nleag := dy_nleag x; st_drainloss := dy_drainloss x;
                   st_unstable := false; st_trace := [] |} in
    let c1n := st_c1 st in
    let '(c1e, cum) := denit_stage (dy_peat x) (dy_nq x) (dy_fth x) (dy_fte x) c1n (dy_cumdenit x) in
    {| dn_c1_add := c1a; dn_dn := dn; dn_c1_subs := rev (st_trace st); dn_pe_taken := st_pe st;
       dn_c1_nmove := c1n; dn_c1 := c1e; dn_pe := map (fun _ => zero) (st_pe st);
       dn_nfos := put_first mo_nfos os nfos2; dn_naos := put_first mo_naos os naos2;
       dn_minfos := put_first mo_minfos os minfos2; dn_minaos := put_first mo_minaos os minaos2;
       dn_pesum := st_pesum st; dn_aufnasum := st_aufnasum st; dn_outsum := st_outsum st; dn_nleag := st_nleag st;
       dn_drainloss := st_drainloss st;
       dn_dsumm := mg_dsumm g; dn_ums := mg_ums g; dn_nh4sum := mg_nh4sum g; dn_nh4ums := mg_nh4ums g;
       dn_n2onitsum := mg_n2onitsum g; dn_n2onitdaily := mg_n2onitdaily g; dn_minsum := mg_minsum g;
       dn_cumdenit := cum; dn_unstable := st_unstable st |}.
End DayNitro.
