(* Prop_C10.v — property C10 (scheduled management actions take effect exactly once, on time, in
   full), stated about SchedModel / RotationModel (models of hermes/input.go event readers, the
   firing tests of hermes/nitro.go and hermes/run.go, dueng).  Only statements, each closed by
   [exact lemma], and Print Assumptions.

   Reading of the property fixed in DESIGN.md: a fertilisation / tillage dated d is carried out in
   loop day d+1 ("at most one day after"), irrigation, sowing and harvest on their own date; an event
   whose exec-day is after ENDE does not fire.  The residues of the initial crop are fertiliser slot 0
   dated BEGINN.

   Class of schedules: [fits p l] — the k-th event is dated at least k days after p and every group
   of consecutive events fits into the days from its first date to its last date + 1.  It contains
   every strictly ascending schedule, same-day pairs and pairs followed by events on the next days
   (these cascade), and it excludes exactly the schedules on which the one-pass shift loop of
   input.go:669-673/701-706 leaves a date behind its predecessor: three events on one day (F18: two
   fertilisations on the start day, where slot 0 is the third) and a same-day pair reached by a
   cascade (e.g. pairs on two consecutive days) — see the [_refuted] theorems. *)
From Coq Require Import ZArith List Bool Reals Sorted.
From Coq Require String.
From Hermes Require Import Num SchedModel SchedProofs RotationModel RotationProofs.
Import ListNotations.
Open Scope Z_scope.

(* exact_once, fertiliser: every slot (0 = residues, i >= 1 = i-th kept line of the field) whose
   exec-day is <= ENDE fires exactly once (In + strictly increasing slots), in schedule order, in
   sub-step 1, on shifted-date + 1; nothing else fires — for every file content, every start/end. *)
Theorem C10_exact_once_fertiliser :
  forall (P : Type) (dflt : P) (B E : Z) (p0 : P) (ls : list (line P)) (steps : Z -> nat),
  0 < B -> (forall z, (1 <= steps z)%nat) ->
  fits B (dates (kept B (processed true ls))) ->
  exactly_once_in_order (fert_fired (rd_date (fert_read dflt B p0 ls)) steps B E)
                        (shiftL (B :: dates (kept B (processed true ls)))) 1 E 1.
Proof. exact (@c10_exact_once_fert). Qed.

(* exact_once, tillage; the second hypothesis excludes the stale slot: with no tillage of the field
   dated inside the period, the last line must not be dated BEGINN-1 *)
Theorem C10_exact_once_tillage :
  forall (P : Type) (dflt : P) (B E : Z) (ls : list (line P)) (steps : Z -> nat),
  0 < B -> (forall z, (1 <= steps z)%nat) ->
  let D := dates (kept B (processed true ls)) in
  fits (hd 0 D) (tl D) ->
  (kept B (processed true ls) = [] -> fst (tail_of dflt B (ev0 dflt) (processed true ls)) <> B - 1) ->
  exactly_once_in_order (till_fired (rd_date (till_read dflt B ls)) steps B E) (shiftL D) 1 E 1.
Proof. exact (@c10_exact_once_till). Qed.

(* exact_once, irrigation (at most one per day: strictly ascending dates): fires on its own date.
   g.BEGINN is still 0 when the irrigation file is read (input.go:320 runs before input.go:590), so
   the reader drops nothing; the theorem therefore needs every irrigation of the field dated on or
   after BEGINN (strict_from (B-1)) — see C10_prestart_irrigation_refuted *)
Theorem C10_exact_once_irrigation :
  forall (P : Type) (dflt : P) (B E : Z) (ls : list (line P)),
  0 < B ->
  let D := dates (kept 0 (processed true ls)) in
  strict_from (B - 1) D ->
  exactly_once_in_order (irr_fired (rd_date (irr_read dflt 0 ls)) B E) D 0 E 0.
Proof. exact (@c10_exact_once_irr). Qed.

(* exact_once, sowing and harvest with fixed dates: entries (s_k, e_k), k >= 1, with
   BEGINN = e_0 < s_1 < e_1 < s_2 < ...: sowing k fires on s_k, harvest k on e_k, in rotation order *)
Theorem C10_sowing_harvest :
  forall (saat ernte ernte2 : Z -> Z) (B : Z) (l : list (Z * Z)) (fuel : nat),
  0 < B -> holds saat ernte ernte2 0 ((0, B) :: l) -> chain B l ->
  rot_run saat ernte ernte2 fuel B 0 = rot_expected (B + Z.of_nat fuel - 1) 0 true ((0, B) :: l).
Proof. exact rot_fixed_dates. Qed.

(* on_time: the dates the cursor waits for are the file dates moved by 0 or 1 day, by 1 exactly when
   the date collides with its (shifted) predecessor; they are strictly increasing, so colliding events
   land on consecutive days and nothing fires early *)
Theorem C10_on_time :
  forall D : list Z, D <> [] -> fits (hd 0 D) (tl D) ->
  let Sh := shiftL D in
  length Sh = length D /\ nth 0 Sh 0 = nth 0 D 0 /\
  (forall i, (i < length D)%nat -> nth i D 0 <= nth i Sh 0 <= nth i D 0 + 1) /\
  (forall i, (S i < length D)%nat ->
     nth (S i) Sh 0 = (if nth (S i) D 0 =? nth i Sh 0 then nth (S i) D 0 + 1 else nth (S i) D 0) /\
     nth i Sh 0 < nth (S i) Sh 0).
Proof. exact c10_on_time. Qed.

Theorem C10_strictly_ascending_not_moved :
  forall D : list Z, strict_from (hd 0 D - 1) D -> shiftL D = D.
Proof. exact c10_strict_not_moved. Qed.

(* pre_start: what occupies the slots is exactly the field's lines dated >= BEGINN, in file order,
   each slot with the payload of its own line (events dated before BEGINN take no slot, so by
   exact_once they never fire and do not displace later payloads) *)
Theorem C10_pre_start_fertiliser :
  forall (P : Type) (dflt : P) (B : Z) (p0 : P) (ls : list (line P)),
  0 < B -> fits B (dates (kept B (processed true ls))) ->
  let s := fert_read dflt B p0 ls in
  (forall x, In x (kept B (processed true ls)) <-> In x (processed true ls) /\ B <= fst x) /\
  rd_n s = 1 + Z.of_nat (length (kept B (processed true ls))) /\
  (forall i, (i < length (kept B (processed true ls)))%nat ->
     rd_pay s (Z.of_nat (S i)) = snd (nth i (kept B (processed true ls)) (ev0 dflt))) /\
  rd_pay s 0 = p0.
Proof. exact (@c10_pre_start). Qed.

Theorem C10_pre_start_tillage :
  forall (P : Type) (dflt : P) (B : Z) (ls : list (line P)),
  0 < B ->
  let D := dates (kept B (processed true ls)) in
  fits (hd 0 D) (tl D) ->
  (kept B (processed true ls) = [] -> fst (tail_of dflt B (ev0 dflt) (processed true ls)) <> B - 1) ->
  let s := till_read dflt B ls in
  rd_n s = Z.of_nat (length (kept B (processed true ls))) /\
  (forall i, (i < length (kept B (processed true ls)))%nat ->
     rd_pay s (Z.of_nat i) = snd (nth i (kept B (processed true ls)) (ev0 dflt))).
Proof. exact (@c10_pre_start_till). Qed.

Theorem C10_irrigation_payload_alignment :
  forall (P : Type) (dflt : P) (ls : list (line P)),
  let s := irr_read dflt 0 ls in
  rd_n s = Z.of_nat (length (kept 0 (processed true ls))) /\
  (forall i, (i < length (kept 0 (processed true ls)))%nat ->
     rd_pay s (Z.of_nat i) = snd (nth i (kept 0 (processed true ls)) (ev0 dflt))).
Proof. exact (@c10_irr_payload). Qed.

(* payload_fert: a firing adds exactly the split of its own slot to DSUMM, NH4Sum, NFOS[0], NAOS[0]
   and advances the cursor; otherwise nothing changes *)
Theorem C10_payload_fert :
  forall (a : Z -> Z) (pay : Z -> fpay R) (z subd c : Z) (s : nstate R),
  let '(s', c') := nitro_fert a pay z subd c s in
  ((z = a c + 1 /\ subd = 1) ->
     c' = c + 1 /\
     s_dsumm s' = (s_dsumm s + p_ndir (pay c))%R /\ s_nh4sum s' = (s_nh4sum s + p_nh4n (pay c))%R /\
     s_nfos0 s' = (s_nfos0 s + p_nsas (pay c))%R /\ s_naos0 s' = (s_naos0 s + p_nlas (pay c))%R) /\
  (~ (z = a c + 1 /\ subd = 1) -> s' = s /\ c' = c).
Proof. exact c10_payload_fert. Qed.

(* ... and the split is the one given by the fertiliser table row of that name, the applied quantity
   and the global fertilisation factor (percent); a name not in the table applies nothing *)
Theorem C10_payload_amounts :
  forall (tab : list (frow R)) (fertilization amount : R) (name : String.string),
  ((forall r, In r tab -> String.eqb (f_name r) name = false) /\ fert_payload tab fertilization amount name = fpay0)
  \/
  exists r, In r tab /\ String.eqb (f_name r) name = true /\
    let q := (amount * (fertilization / 100))%R in
    let gross := (q * f_ntot r * f_ndir r)%R in
    let p := fert_payload tab fertilization amount name in
    p_ndir p = (gross * (1 - f_nh4 r * f_loss r))%R /\
    p_nh4n p = (gross * f_nh4 r * (1 - f_loss r))%R /\
    p_nsas p = ((q * f_ntot r - p_ndir p) * f_nfst r)%R /\
    p_nlas p = ((q * f_ntot r - p_ndir p) * f_nslo r)%R.
Proof. exact c10_payload_amounts. Qed.

(* payload_irr: the water enters that day's rain (REGEN += BREG/10) and its N the top layer *)
Theorem C10_payload_irr :
  forall (a : Z -> Z) (breg brkz : Z -> R) (z c : Z) (s : istate R),
  let '(s', c') := run_irr a breg brkz z c s in
  (z = a c -> c' = c + 1 /\ s_regen s' = (s_regen s + breg c / 10)%R /\
              s_c10 s' = (s_c10 s + Rmax 0 (brkz c * breg c * / 100))%R) /\
  (z <> a c -> s' = s /\ c' = c).
Proof. exact c10_payload_irr. Qed.

(* substep_safe: for every date array, the firings do not depend on the number of sub-steps of the
   days, and every firing happens in sub-step 1 *)
Theorem C10_substep_safe :
  forall (a : Z -> Z) (delta : Z) (steps steps' : Z -> nat),
  (forall z, (1 <= steps z)%nat) -> (forall z, (1 <= steps' z)%nat) ->
  forall fuel z c,
    run_days a delta steps fuel z c = run_days a delta steps' fuel z c /\
    (forall e, In e (snd (run_days a delta steps fuel z c)) -> snd (fst e) = 1).
Proof. exact c10_substep_safe. Qed.

(* F18: the statement for "ascending, at most two per day, inside the period" is false: two
   fertilisations on the start day (witness BEGINN=100, dates 100,100,150, ENDE=400) *)
Theorem C10_exact_once_refuted :
  exists (B E : Z) (ds : list Z),
    ascending ds = true /\ at_most_two_per_day ds = true /\
    (forall d, In d ds -> B <= d /\ d + 3 <= E) /\
    (length (fert_fired (rd_date (fert_read tt B tt (mk_lines ds))) one_step B E) < 1 + length ds)%nat.
Proof. exact c10_exact_once_refuted. Qed.

(* same root cause, away from the start day: a same-day pair on the day after a same-day pair
   (witness dates 200,200,201,201,300): the fourth and the fifth event never fire *)
Theorem C10_pair_after_pair_refuted :
  exists (B E : Z) (ds : list Z),
    ascending ds = true /\ at_most_two_per_day ds = true /\
    (forall d, In d ds -> B < d /\ d + 5 <= E) /\
    (length (fert_fired (rd_date (fert_read tt B tt (mk_lines ds))) one_step B E) < 1 + length ds)%nat /\
    (length (till_fired (rd_date (till_read tt B (mk_lines ds))) one_step B E) < length ds)%nat.
Proof. exact c10_pair_after_pair_refuted. Qed.

(* "actions dated before the start are ignored" is false for tillage: the last line of a field whose
   lines are all dated before the start, dated BEGINN-1, is carried out on BEGINN *)
Theorem C10_prestart_tillage_refuted :
  exists (B E : Z) (ds : list Z),
    ascending ds = true /\ (forall d, In d ds -> d < B) /\
    till_fired (rd_date (till_read tt B (mk_lines ds))) one_step B E <> [].
Proof. exact c10_prestart_tillage_refuted. Qed.

(* "actions dated before the start are ignored" is false for irrigation: an irrigation dated before
   the start is kept (BEGINN is 0 while the file is read), the cursor waits for it forever and every
   later irrigation of the field is lost (witness BEGINN=100, dates 90,150,200, ENDE=400) *)
Theorem C10_prestart_irrigation_refuted :
  exists (B E : Z) (ds : list Z),
    strict_from 0 ds /\ (exists d, In d ds /\ B <= d <= E) /\
    irr_fired (rd_date (irr_read tt 0 (mk_lines ds))) B E = [].
Proof. exact c10_prestart_irrigation_refuted. Qed.

(* non-vacuity: a same-day pair followed by an event on the next day is in the class and is carried
   out on d+1, d+2, d+3 (BEGINN = 100, residues slot 0 on 101) *)
Example C10_cascade_example :
  fits 100 [200; 200; 201] /\
  fert_fired (rd_date (fert_read tt 100 tt (mk_lines [90; 200; 200; 201]))) one_step 100 400
  = [(101, 1, 0); (201, 1, 1); (202, 1, 2); (203, 1, 3)].
Proof. exact cascade_example. Qed.

Print Assumptions C10_exact_once_fertiliser.
Print Assumptions C10_exact_once_tillage.
Print Assumptions C10_exact_once_irrigation.
Print Assumptions C10_sowing_harvest.
Print Assumptions C10_on_time.
Print Assumptions C10_strictly_ascending_not_moved.
Print Assumptions C10_pre_start_fertiliser.
Print Assumptions C10_pre_start_tillage.
Print Assumptions C10_irrigation_payload_alignment.
Print Assumptions C10_payload_fert.
Print Assumptions C10_payload_amounts.
Print Assumptions C10_payload_irr.
Print Assumptions C10_substep_safe.
Print Assumptions C10_exact_once_refuted.
Print Assumptions C10_pair_after_pair_refuted.
Print Assumptions C10_prestart_tillage_refuted.
Print Assumptions C10_prestart_irrigation_refuted.
