(* Prop_C10.v — property C10 (scheduled management actions take effect exactly once, on time, in
   full), stated about SchedModel / RotationModel (models of hermes/input.go event readers, the
   firing tests of hermes/nitro.go and hermes/run.go, dueng) — code state after /repo 1398842 (pre-start
   irrigation dropped once BEGINN is known), 0cb3a63 (shift loops make the dates strictly increasing),
   8d06013 (slot after the last tillage cleared).  Only statements, each closed by [exact lemma], and
   Print Assumptions.

   Reading of the property fixed in DESIGN.md: a fertilisation / tillage dated d is carried out in
   loop day d+1 ("at most one day after"), irrigation, sowing and harvest on their own date; an event
   whose exec-day is after ENDE does not fire.  The residues of the initial crop are fertiliser slot 0
   dated BEGINN.  exact_once holds for EVERY file content (any multiplicity per day, any order); the
   dates the cursor waits for ([shiftL]) are the least strictly increasing dates not earlier than the
   file dates (for ascending files); in the class [fits] (at most two per day, no pair reached by a
   displacement) no event moves by more than one day. *)
From Coq Require Import ZArith List Bool Reals Sorted.
From Coq Require String.
From Hermes Require Import Num SchedModel SchedProofs RotationModel RotationProofs.
Import ListNotations.
Open Scope Z_scope.

(* exact_once, fertiliser: every slot (0 = residues, i >= 1 = i-th kept line of the field) whose
   exec-day is <= ENDE fires exactly once (In + strictly increasing slots), in schedule order, in
   sub-step 1, on shifted-date + 1; nothing else fires — for every file content, every start/end,
   every sub-step count. *)
Theorem C10_exact_once_fertiliser :
  forall (P : Type) (dflt : P) (B E : Z) (p0 : P) (ls : list (line P)) (steps : Z -> nat),
  0 < B -> (forall z, (1 <= steps z)%nat) ->
  exactly_once_in_order (fert_fired (rd_date (fert_read dflt B p0 ls)) steps B E)
                        (shiftL (B :: dates (kept B (processed true ls)))) 1 E 1.
Proof. exact (@c10_exact_once_fert). Qed.

(* exact_once, tillage (BEGINN > day 1: the cleared slot holds 0) *)
Theorem C10_exact_once_tillage :
  forall (P : Type) (dflt : P) (B E : Z) (ls : list (line P)) (steps : Z -> nat),
  1 < B -> (forall z, (1 <= steps z)%nat) ->
  exactly_once_in_order (till_fired (rd_date (till_read dflt B ls)) steps B E)
                        (shiftL (dates (kept B (processed true ls)))) 1 E 1.
Proof. exact (@c10_exact_once_till). Qed.

(* exact_once, irrigation (no shift loop: at most one per day, i.e. the dates inside the period strictly
   ascending): every irrigation dated BEGINN..ENDE fires once, on its own date; those dated before are ignored *)
Theorem C10_exact_once_irrigation :
  forall (P : Type) (dflt : P) (B E : Z) (ls : list (line P)),
  0 < B ->
  let D := dates (kept B (processed true ls)) in
  strict_from (B - 1) D ->
  exactly_once_in_order (irr_fired (rd_date (irr_read dflt B ls)) B E) D 0 E 0.
Proof. exact (@c10_exact_once_irr). Qed.

(* exact_once, sowing and harvest with fixed dates: entries (s_k, e_k), k >= 1, with
   BEGINN = e_0 < s_1 < e_1 < s_2 < ...: sowing k fires on s_k, harvest k on e_k, in rotation order *)
Theorem C10_sowing_harvest :
  forall (saat ernte ernte2 : Z -> Z) (B : Z) (l : list (Z * Z)) (fuel : nat),
  0 < B -> holds saat ernte ernte2 0 ((0, B) :: l) -> chain B l ->
  rot_run saat ernte ernte2 fuel B 0 = rot_expected (B + Z.of_nat fuel - 1) 0 true ((0, B) :: l).
Proof. exact rot_fixed_dates. Qed.

(* on_time: the date an event waits for is its file date or, when that is not later than the day its
   predecessor was moved to, the day after that; strictly increasing, never earlier than the file date, so
   nothing fires early and colliding events land on consecutive days *)
Theorem C10_on_time :
  forall D : list Z, D <> [] ->
  let Sh := shiftL D in
  length Sh = length D /\ nth 0 Sh 0 = nth 0 D 0 /\
  (forall i, (i < length D)%nat -> nth i D 0 <= nth i Sh 0) /\
  (forall i, (S i < length D)%nat ->
     nth (S i) Sh 0 = (if nth (S i) D 0 <=? nth i Sh 0 then nth i Sh 0 + 1 else nth (S i) D 0) /\
     nth i Sh 0 < nth (S i) Sh 0).
Proof. exact shiftL_on_time. Qed.

(* ... these are the LEAST strictly increasing dates not earlier than the file dates *)
Theorem C10_on_time_least :
  forall (D t : list Z), D <> [] ->
  length t = length D -> strict_from (nth 0 t 0 - 1) t -> (forall i, (i < length D)%nat -> nth i D 0 <= nth i t 0) ->
  forall i, (i < length D)%nat -> nth i (shiftL D) 0 <= nth i t 0.
Proof. exact shiftL_least. Qed.

(* ... and in the class [fits] — at most two per day and no same-day pair reached by a displacement — no
   event waits for more than one day after its file date (exec-day <= date + 2 for fertiliser/tillage) *)
Theorem C10_on_time_one_day :
  forall D : list Z, D <> [] -> fits (hd 0 D) (tl D) ->
  forall i, (i < length D)%nat -> nth i (shiftL D) 0 <= nth i D 0 + 1.
Proof. exact shiftL_one_day. Qed.

Theorem C10_strictly_ascending_not_moved :
  forall D : list Z, strict_from (hd 0 D - 1) D -> shiftL D = D.
Proof. exact c10_strict_not_moved. Qed.

(* pre_start: what occupies the slots is exactly the field's lines dated >= BEGINN, in file order,
   each slot with the payload of its own line (events dated before BEGINN take no slot, so by
   exact_once they never fire and do not displace later payloads) *)
Theorem C10_pre_start_fertiliser :
  forall (P : Type) (dflt : P) (B : Z) (p0 : P) (ls : list (line P)),
  0 < B ->
  let s := fert_read dflt B p0 ls in
  (forall x, In x (kept B (processed true ls)) <-> In x (processed true ls) /\ B <= fst x) /\
  rd_n s = 1 + Z.of_nat (length (kept B (processed true ls))) /\
  (forall i, (i < length (kept B (processed true ls)))%nat ->
     rd_pay s (Z.of_nat (S i)) = snd (nth i (kept B (processed true ls)) (ev0 dflt))) /\
  rd_pay s 0 = p0.
Proof. exact (@c10_pre_start). Qed.

Theorem C10_pre_start_tillage :
  forall (P : Type) (dflt : P) (B : Z) (ls : list (line P)),
  let s := till_read dflt B ls in
  rd_n s = Z.of_nat (length (kept B (processed true ls))) /\
  (forall i, (i < length (kept B (processed true ls)))%nat ->
     rd_pay s (Z.of_nat i) = snd (nth i (kept B (processed true ls)) (ev0 dflt))) /\
  rd_date s (rd_n s) = 0.
Proof. exact (@c10_pre_start_till). Qed.

Theorem C10_pre_start_irrigation :
  forall (P : Type) (dflt : P) (B : Z) (ls : list (line P)),
  0 < B ->
  let s := irr_read dflt B ls in
  rd_n s = Z.of_nat (length (kept B (processed true ls))) /\
  (forall i, (i < length (kept B (processed true ls)))%nat ->
     rd_pay s (Z.of_nat i) = snd (nth i (kept B (processed true ls)) (ev0 dflt))) /\
  (forall j, rd_n s <= j -> rd_date s j = 0).
Proof. exact (@c10_pre_start_irr). Qed.

(* payload_fert: a firing adds exactly the split of its own slot to DSUMM, NH4Sum, NFOS[0], NAOS[0]
   and advances the cursor; otherwise nothing changes *)
Theorem C10_payload_fert :
  forall (a : Z -> Z) (pay : Z -> fpay R) (z subd c : Z) (s : nstate R),
  let '(s', c') := nitro_fert a pay z subd c s in
  ((z = a c + 1 /\ subd = 1) ->
     c' = c + 1 /\
     s_dsumm s' = (s_dsumm s + p_ndir (pay c))%R /\ s_nh4sum s' = (s_nh4sum s + p_nh4n (pay c))%R /\
     s_nfos0 s' = (s_nfos0 s + p_nsas (pay c))%R /\ s_naos0 s' = (s_naos0 s + p_nlas (pay c))%R) /\
  (~ (z = a c + 1 /\ subd = 1) -> s' = s /\ c' = c).
Proof. exact c10_payload_fert. Qed.

(* ... and the split is the one given by the fertiliser table row of that name, the applied quantity
   and the global fertilisation factor (percent); a name not in the table applies nothing *)
Theorem C10_payload_amounts :
  forall (tab : list (frow R)) (fertilization amount : R) (name : String.string),
  ((forall r, In r tab -> String.eqb (f_name r) name = false) /\ fert_payload tab fertilization amount name = fpay0)
  \/
  exists r, In r tab /\ String.eqb (f_name r) name = true /\
    let q := (amount * (fertilization / 100))%R in
    let gross := (q * f_ntot r * f_ndir r)%R in
    let p := fert_payload tab fertilization amount name in
    p_ndir p = (gross * (1 - f_nh4 r * f_loss r))%R /\
    p_nh4n p = (gross * f_nh4 r * (1 - f_loss r))%R /\
    p_nsas p = ((q * f_ntot r - p_ndir p) * f_nfst r)%R /\
    p_nlas p = ((q * f_ntot r - p_ndir p) * f_nslo r)%R.
Proof. exact c10_payload_amounts. Qed.

(* payload_irr: the water enters that day's rain (REGEN += BREG/10) and its N the top layer *)
Theorem C10_payload_irr :
  forall (a : Z -> Z) (breg brkz : Z -> R) (z c : Z) (s : istate R),
  let '(s', c') := run_irr a breg brkz z c s in
  (z = a c -> c' = c + 1 /\ s_regen s' = (s_regen s + breg c / 10)%R /\
              s_c10 s' = (s_c10 s + Rmax 0 (brkz c * breg c * / 100))%R) /\
  (z <> a c -> s' = s /\ c' = c).
Proof. exact c10_payload_irr. Qed.

(* substep_safe: for every date array, the firings do not depend on the number of sub-steps of the
   days, and every firing happens in sub-step 1 *)
Theorem C10_substep_safe :
  forall (a : Z -> Z) (delta : Z) (steps steps' : Z -> nat),
  (forall z, (1 <= steps z)%nat) -> (forall z, (1 <= steps' z)%nat) ->
  forall fuel z c,
    run_days a delta steps fuel z c = run_days a delta steps' fuel z c /\
    (forall e, In e (snd (run_days a delta steps fuel z c)) -> snd (fst e) = 1).
Proof. exact c10_substep_safe. Qed.

(* ---- organic fertiliser of automatic management and the crop-skip branch (nitro.go:73-107, 458-528) ---- *)

(* payload_org: in one automatic-fertilisation call the fast/slow organic pools of the top layer receive exactly the
   split of the fertiliser of the previous entry when its date (harvest + ORGDOY) is today, and of the current entry
   when its date (sowing + ORGDOY) is today; the after-sowing variant adds its direct N to C1[0] (floored at 0) *)
Theorem C10_payload_org :
  forall (e : af_env R) (s : af_state R),
  let s' := fst (autofert_day e s) in
  as_nfos0 s' = (as_nfos0 s + (if orgh_fires e then o_nsas (ae_pay_prev e) else 0)
                            + (if orgs_fires e s then o_nsas (ae_pay_cur e) else 0))%R /\
  as_naos0 s' = (as_naos0 s + (if orgh_fires e then o_nlas (ae_pay_prev e) else 0)
                            + (if orgs_fires e s then o_nlas (ae_pay_cur e) else 0))%R /\
  as_c10 s' = (if orgs_fires e s then Rmax 0 (as_c10 s + o_ndir (ae_pay_cur e)) else as_c10 s).
Proof. exact autofert_org_payload. Qed.

(* ... the split is the table split of the quantity given in the automan row (no fertilisation factor) *)
Theorem C10_payload_org_amounts :
  forall (tab : list (frow R)) (q : R) (name : String.string),
  ((forall r, In r tab -> String.eqb (f_name r) name = false) /\ dueng tab name q fpay0 = fpay0)
  \/
  exists r, In r tab /\ String.eqb (f_name r) name = true /\
    let gross := (q * f_ntot r * f_ndir r)%R in
    let p := dueng tab name q fpay0 in
    p_ndir p = (gross * (1 - f_nh4 r * f_loss r))%R /\
    p_nh4n p = (gross * f_nh4 r * (1 - f_loss r))%R /\
    p_nsas p = ((q * f_ntot r - p_ndir p) * f_nfst r)%R /\
    p_nlas p = ((q * f_ntot r - p_ndir p) * f_nslo r)%R.
Proof. exact c10_dueng_amounts. Qed.

(* exact_once / on_time for the after-harvest variant: with the harvest on day h and ORGDOY = d the date is h + d;
   over the [fuel] days after the harvest (while the next entry is current) it is due exactly once, on h + d, iff
   1 <= d <= fuel — with d = 0 the date is the harvest day itself, already past when the test is first made, and the
   fertiliser is never applied *)
Theorem C10_org_after_harvest_once :
  forall (h d : Z) (fuel : nat),
  orgh_days (h + d) fuel (h + 1) = if (1 <=? d) && (d <=? Z.of_nat fuel) then [h + d] else [].
Proof. exact orgh_exactly_once. Qed.

(* the crop-skip branch: at the harvest of entry k the cursor passes over entry k+1 exactly when that entry's sowing
   window has already ended, automatic sowing is on and entry k carries organic fertiliser "H"; ZTDG[k] = harvest day +
   ORGDOY[k] in either case *)
Theorem C10_crop_skip :
  forall (z k : Z) (org_h : Z -> bool) (orgdoy saat2 : Z -> Z) (automan : bool) (zt : Z),
  let '(k', zt', skipped) := harvest_cursor z k org_h orgdoy saat2 automan zt in
  zt' = (if org_h k then z + orgdoy k else zt) /\
  (skipped = true <-> (saat2 (k + 1) <= z /\ automan = true /\ org_h k = true)) /\
  k' = (if skipped then k + 2 else k + 1).
Proof. exact harvest_cursor_rule. Qed.

(* tillage with automatic harvest (fixed sowing): a tillage dated before sowing keeps its date; a tillage due while the crop is in
   the ground waits (+2 days) until the harvest is known and is then put on the day after the harvest — it never ends up inside
   (sowing, harvest] *)
Theorem C10_tillage_waits_for_harvest :
  forall (z saat ernte einte : Z) (autohar : bool) (e' : Z),
  till_adapt z saat ernte einte autohar = Some e' ->
  einte <= e' /\ ~ (0 < saat /\ saat < e' /\ e' <= ernte) /\
  (e' = einte \/ (e' = einte + 2 /\ z = einte /\ 0 < saat <= z /\ ernte = 0) \/ (e' = ernte + 1 /\ autohar = true /\ z <= ernte)).
Proof. exact till_adapt_spec. Qed.

(* regression examples (the former refutation witnesses, now carried out) *)
Example C10_two_on_start_day_fire :
  fert_fired (rd_date (fert_read tt 100 tt (mk_lines [100; 100; 150]))) one_step 100 400
  = [(101, 1, 0); (102, 1, 1); (103, 1, 2); (151, 1, 3)].
Proof. exact f18_example. Qed.

Example C10_displaced_pairs_fire :
  fert_fired (rd_date (fert_read tt 100 tt (mk_lines [200; 200; 201; 201; 300]))) one_step 100 400
  = [(101, 1, 0); (201, 1, 1); (202, 1, 2); (203, 1, 3); (204, 1, 4); (301, 1, 5)] /\
  till_fired (rd_date (till_read tt 100 (mk_lines [200; 200; 201; 201; 300]))) one_step 100 400
  = [(201, 1, 0); (202, 1, 1); (203, 1, 2); (204, 1, 3); (301, 1, 4)] /\
  till_fired (rd_date (till_read tt 100 (mk_lines [200; 200; 200]))) one_step 100 400
  = [(201, 1, 0); (202, 1, 1); (203, 1, 2)].
Proof. exact pair_after_pair_example. Qed.

Example C10_prestart_tillage_ignored :
  till_fired (rd_date (till_read tt 100 (mk_lines [90; 99]))) one_step 100 400 = [].
Proof. exact prestart_tillage_example. Qed.

Example C10_prestart_irrigation_ignored :
  irr_fired (rd_date (irr_read tt 100 (mk_lines [90; 150; 200]))) 100 400 = [(150, 0, 0); (200, 0, 1)].
Proof. exact prestart_irrigation_example. Qed.

(* a same-day pair followed by an event on the next day is in the class [fits] and is carried
   out on d+1, d+2, d+3 (BEGINN = 100, residues slot 0 on 101) *)
Example C10_cascade_example :
  fits 100 [200; 200; 201] /\
  fert_fired (rd_date (fert_read tt 100 tt (mk_lines [90; 200; 200; 201]))) one_step 100 400
  = [(101, 1, 0); (201, 1, 1); (202, 1, 2); (203, 1, 3)].
Proof. exact cascade_example. Qed.

Print Assumptions C10_exact_once_fertiliser.
Print Assumptions C10_exact_once_tillage.
Print Assumptions C10_exact_once_irrigation.
Print Assumptions C10_sowing_harvest.
Print Assumptions C10_on_time.
Print Assumptions C10_on_time_least.
Print Assumptions C10_on_time_one_day.
Print Assumptions C10_strictly_ascending_not_moved.
Print Assumptions C10_pre_start_fertiliser.
Print Assumptions C10_pre_start_tillage.
Print Assumptions C10_pre_start_irrigation.
Print Assumptions C10_payload_fert.
Print Assumptions C10_payload_amounts.
Print Assumptions C10_payload_irr.
Print Assumptions C10_substep_safe.
Print Assumptions C10_payload_org.
Print Assumptions C10_payload_org_amounts.
Print Assumptions C10_org_after_harvest_once.
Print Assumptions C10_crop_skip.
Print Assumptions C10_tillage_waits_for_harvest.
