(* ConfigProofs.v — lemmas about ConfigModel, for EVERY schema, decoded file map, ParseFloat oracle
   and batch line: precedence (argument over file over default, per-kind parsing), unknown keys
   ignored, independence of the order of map iteration and of the order of the tokens. *)
From Coq Require Import ZArith List Bool String Ascii Permutation.
From Hermes Require Import ConfigModel.
Import ListNotations.
Open Scope string_scope.

Lemma eqb_false_of_neq a b : a <> b -> (a =? b) = false.
Proof. intros H. destruct (String.eqb_spec a b); [contradiction | reflexivity]. Qed.

(* ---------------- association lists ---------------- *)
Lemma assoc_In {A} (m : list (string * A)) : NoDup (map fst m) ->
  forall n v, assoc n m = Some v <-> In (n, v) m.
Proof.
  induction m as [|[k a] r IH]; intros ND n v; cbn.
  - split; [discriminate | tauto].
  - inversion ND as [|? ? Hk ND']; subst. destruct (String.eqb_spec k n) as [->|Hne].
    + split.
      * intros E; injection E as ->. now left.
      * intros [E|Hin]; [now injection E as -> |].
        exfalso. apply Hk. change n with (fst (n, v)). now apply in_map.
    + rewrite (IH ND'). split; [tauto|]. intros [E|Hin]; [injection E as -> _; contradiction | assumption].
Qed.

Lemma assoc_perm {A} (m m' : list (string * A)) : NoDup (map fst m) -> Permutation m m' ->
  forall n, assoc n m = assoc n m'.
Proof.
  intros ND P n.
  assert (ND' : NoDup (map fst m')) by (eapply Permutation_NoDup; [apply Permutation_map; exact P | exact ND]).
  destruct (assoc n m) as [v|] eqn:E.
  - apply (assoc_In m ND) in E. symmetry. apply (assoc_In m' ND'). eapply Permutation_in; eauto.
  - destruct (assoc n m') as [v|] eqn:E'; [|reflexivity].
    apply (assoc_In m' ND') in E'. apply Permutation_sym in P.
    pose proof (Permutation_in _ P E') as Hin. apply (assoc_In m ND) in Hin. congruence.
Qed.

Lemma assoc_upsert n k v m : assoc n (upsert k v m) = if k =? n then Some v else assoc n m.
Proof.
  induction m as [|[k' v'] r IH]; cbn.
  - reflexivity.
  - destruct (String.eqb_spec k' k) as [->|Hne]; cbn.
    + destruct (String.eqb_spec k n); reflexivity.
    + rewrite IH. destruct (String.eqb_spec k' n) as [->|]; [|reflexivity].
      now rewrite (eqb_false_of_neq k n) by congruence.
Qed.

Lemma keys_upsert x k v m : In x (map fst (upsert k v m)) <-> x = k \/ In x (map fst m).
Proof.
  induction m as [|[k' v'] r IH]; cbn.
  - intuition.
  - destruct (String.eqb_spec k' k) as [->|Hne]; cbn; [intuition|]. rewrite IH. intuition.
Qed.

Lemma nodup_upsert k v m : NoDup (map fst m) -> NoDup (map fst (upsert k v m)).
Proof.
  induction m as [|[k' v'] r IH]; cbn; intros ND.
  - constructor; [intros [] | constructor].
  - inversion ND as [|? ? Hk ND']; subst. destruct (String.eqb_spec k' k) as [->|Hne]; cbn.
    + constructor; assumption.
    + constructor; [|auto]. rewrite keys_upsert. intros [E|Hin]; [congruence | contradiction].
Qed.

Lemma fold_arg tokens : forall m, NoDup (map fst m) ->
  NoDup (map fst (fold_left arg_step tokens m)) /\
  forall n, assoc n (fold_left arg_step tokens m) =
            match arg_get tokens n with Some v => Some v | None => assoc n m end.
Proof.
  induction tokens as [|t r IH]; intros m ND; cbn [fold_left arg_get].
  - split; [assumption | reflexivity].
  - assert (ND1 : NoDup (map fst (arg_step m t))).
    { unfold arg_step. destruct (token_kv t) as [[k v]|]; [now apply nodup_upsert | assumption]. }
    destruct (IH _ ND1) as [H1 H2]. split; [exact H1|]. intros n. rewrite H2.
    destruct (arg_get r n); [reflexivity|]. unfold arg_step.
    destruct (token_kv t) as [[k v]|]; [rewrite assoc_upsert; destruct (k =? n); reflexivity | reflexivity].
Qed.

Lemma arg_map_nodup tokens : NoDup (map fst (arg_map tokens)).
Proof. apply (fold_arg tokens []). constructor. Qed.

Lemma arg_map_get tokens n : assoc n (arg_map tokens) = arg_get tokens n.
Proof.
  destruct (fold_arg tokens [] ltac:(constructor)) as [_ H]. unfold arg_map. rewrite H.
  destruct (arg_get tokens n); reflexivity.
Qed.

Lemma arg_get_app a b n :
  arg_get (a ++ b) n = match arg_get b n with Some v => Some v | None => arg_get a n end.
Proof.
  induction a as [|t r IH]; cbn [app arg_get].
  - destruct (arg_get b n); reflexivity.
  - rewrite IH. destruct (arg_get b n); reflexivity.
Qed.

Lemma arg_get_kvs tokens n : NoDup (map fst (kvs tokens)) -> arg_get tokens n = assoc n (kvs tokens).
Proof.
  induction tokens as [|t r IH]; cbn [arg_get kvs flat_map]; [reflexivity|].
  fold (kvs r). intros ND.
  destruct (token_kv t) as [[k v]|]; cbn [app] in *.
  - inversion ND as [|? ? Hk ND']; subst. rewrite (IH ND'). cbn [assoc].
    destruct (String.eqb_spec k n) as [->|Hne].
    + destruct (assoc n (kvs r)) as [v'|] eqn:E; [|reflexivity].
      apply (assoc_In _ ND') in E. exfalso. apply Hk. change n with (fst (n, v')). now apply in_map.
    + destruct (assoc n (kvs r)); reflexivity.
  - rewrite (IH ND). destruct (assoc n (kvs r)); reflexivity.
Qed.

(* boolean duplicate check, to discharge NoDup for the generated schema by computation *)
Fixpoint nodupb (l : list string) : bool :=
  match l with [] => true | x :: r => negb (existsb (String.eqb x) r) && nodupb r end.

Lemma nodupb_sound l : nodupb l = true -> NoDup l.
Proof.
  induction l as [|x r IH]; cbn; intros H; [constructor|].
  apply andb_true_iff in H as [H1 H2]. constructor; [|auto].
  intros Hin. apply negb_true_iff in H1.
  assert (existsb (String.eqb x) r = true) by (apply existsb_exists; exists x; split; [assumption | apply String.eqb_refl]).
  congruence.
Qed.

(* ---------------- strings.Fields ---------------- *)
Lemma sapp_assoc (a b c : string) : ((a ++ b) ++ c = a ++ (b ++ c))%string.
Proof. induction a as [|x a IH]; cbn; [reflexivity | now rewrite IH]. Qed.
Lemma sapp_nil_r (a : string) : (a ++ "" = a)%string.
Proof. induction a as [|x a IH]; cbn; [reflexivity | now rewrite IH]. Qed.

Lemma fields_tok t : forall cur rest, no_ws t = true -> fields_aux cur (t ++ rest) = fields_aux (cur ++ t) rest.
Proof.
  induction t as [|c t IH]; intros cur rest H; cbn in H |- *.
  - now rewrite sapp_nil_r.
  - apply andb_true_iff in H as [H1 H2]. apply negb_true_iff in H1. rewrite H1.
    rewrite (IH _ rest H2), sapp_assoc. reflexivity.
Qed.

Lemma fields_ws_empty w : forall rest, all_ws w = true -> fields_aux "" (w ++ rest) = fields_aux "" rest.
Proof.
  induction w as [|c w IH]; intros rest H; cbn in H |- *; [reflexivity|].
  apply andb_true_iff in H as [H1 H2]. rewrite H1. now apply IH.
Qed.

Lemma fields_ws_tok w cur rest : all_ws w = true -> w <> ""%string -> cur <> ""%string ->
  fields_aux cur (w ++ rest) = cur :: fields_aux "" rest.
Proof.
  intros H Hw Hc. destruct w as [|c w]; [congruence|]. cbn in H |- *.
  apply andb_true_iff in H as [H1 H2]. rewrite H1. destruct cur; [congruence|].
  now rewrite (fields_ws_empty w rest H2).
Qed.

Lemma fields_render_aux pairs : Forall tok_ok (map fst pairs) -> seps_ok pairs ->
  fields_aux "" (render pairs) = map fst pairs.
Proof.
  induction pairs as [|[t sep] r IH]; intros HT HS; [reflexivity|].
  cbn [map fst] in HT. inversion HT as [|? ? [Ht Hne] HT']; subst.
  cbn [seps_ok] in HS. destruct HS as (Hs & Hn & HS').
  cbn [render map fst]. rewrite (fields_tok t "" _ Ht). cbn [append].
  destruct r as [|p r'].
  - cbn [render]. rewrite sapp_nil_r. destruct sep as [|c sep'].
    + cbn. destruct t; [congruence | reflexivity].
    + rewrite <- (sapp_nil_r (String c sep')). rewrite (fields_ws_tok _ t "" Hs ltac:(discriminate) Hne). reflexivity.
  - rewrite (fields_ws_tok sep t _ Hs (Hn ltac:(discriminate)) Hne). f_equal. now apply IH.
Qed.

(* whatever white space separates (and surrounds) the arguments, Fields returns exactly the arguments *)
Lemma fields_render_lemma : forall lead pairs, all_ws lead = true ->
  Forall tok_ok (map fst pairs) -> seps_ok pairs ->
  fields (lead ++ render pairs) = map fst pairs.
Proof.
  intros lead pairs HL HT HS. unfold fields. rewrite (fields_ws_empty lead _ HL). now apply fields_render_aux.
Qed.

Section Proofs.
  Variable pf : string -> option Z.
  Notation parse_kind := (parse_kind pf).
  Notation set_field := (set_field pf).
  Notation override := (override pf).
  Notation effective := (effective pf).

  (* ---------------- one entry ---------------- *)
  Lemma set_field_unknown k s cfg : kind_of k cfg = None -> set_field k s cfg = Some cfg.
  Proof.
    induction cfg as [|[[n kd] cur] r IH]; cbn; [reflexivity|].
    destruct (n =? k); [discriminate|]. intros H. now rewrite (IH H).
  Qed.

  Lemma set_field_kinds k s cfg : forall c, set_field k s cfg = Some c -> forall n, kind_of n c = kind_of n cfg.
  Proof.
    induction cfg as [|[[n0 kd] cur] r IH]; cbn; intros c H n.
    - now injection H as <-.
    - destruct (n0 =? k).
      + destruct (parse_kind kd s); [injection H as <- | injection H as <- | discriminate]; reflexivity.
      + destruct (ConfigModel.set_field pf k s r) as [r'|]; [|discriminate]. injection H as <-. cbn.
        now rewrite (IH r' eq_refl).
  Qed.

  Lemma set_field_get_other k s cfg : forall c, set_field k s cfg = Some c -> forall n, n <> k -> get n c = get n cfg.
  Proof.
    induction cfg as [|[[n0 kd] cur] r IH]; cbn; intros c H n Hn.
    - now injection H as <-.
    - destruct (String.eqb_spec n0 k) as [->|Hne].
      + destruct (parse_kind kd s); [injection H as <- | injection H as <- | discriminate]; cbn;
          now rewrite ?(eqb_false_of_neq k n) by congruence.
      + destruct (ConfigModel.set_field pf k s r) as [r'|]; [|discriminate]. injection H as <-. cbn.
        now rewrite (IH r' eq_refl n Hn).
  Qed.

  Lemma set_field_get_same k s cfg : forall c kd, set_field k s cfg = Some c -> kind_of k cfg = Some kd ->
    get k c = match parse_kind kd s with PSet v => Some v | _ => get k cfg end.
  Proof.
    induction cfg as [|[[n0 kd0] cur] r IH]; cbn; intros c kd H K; [discriminate|].
    destruct (String.eqb_spec n0 k) as [->|Hne].
    - injection K as <-.
      destruct (parse_kind kd0 s); [injection H as <- | injection H as <- | discriminate]; cbn;
        now rewrite String.eqb_refl.
    - destruct (ConfigModel.set_field pf k s r) as [r'|]; [|discriminate]. injection H as <-. cbn.
      rewrite (eqb_false_of_neq n0 k Hne). now apply IH.
  Qed.

  Lemma set_field_none k s cfg :
    set_field k s cfg = None <-> exists kd, kind_of k cfg = Some kd /\ parse_kind kd s = PFatal.
  Proof.
    induction cfg as [|[[n0 kd0] cur] r IH]; cbn.
    - split; [discriminate | intros (kd & H & _); discriminate].
    - destruct (n0 =? k).
      + split.
        * intros H. exists kd0. split; [reflexivity|]. destruct (parse_kind kd0 s); try discriminate; reflexivity.
        * intros (kd & E & P). injection E as <-. now rewrite P.
      + destruct (ConfigModel.set_field pf k s r) as [r'|]; cbn.
        * split; [discriminate|]. intros H. apply IH in H. discriminate.
        * split; [intros _; now apply IH | reflexivity].
  Qed.

  (* ---------------- the loop ---------------- *)
  Lemma override_kinds es : forall cfg c, override es cfg = Some c -> forall n, kind_of n c = kind_of n cfg.
  Proof.
    induction es as [|[k s] r IH]; cbn; intros cfg c H n.
    - now injection H as <-.
    - destruct (set_field k s cfg) as [c1|] eqn:E; [|discriminate].
      rewrite (IH c1 c H n). now apply (set_field_kinds k s cfg).
  Qed.

  Lemma override_get es : forall cfg c, NoDup (map fst es) -> override es cfg = Some c ->
    forall n, get n c =
      match assoc n es, kind_of n cfg with
      | Some s, Some kd => match parse_kind kd s with PSet v => Some v | _ => get n cfg end
      | _, _ => get n cfg
      end.
  Proof.
    induction es as [|[k s] r IH]; cbn [override assoc map fst]; intros cfg c ND H n.
    - now injection H as <-.
    - inversion ND as [|? ? Hk ND']; subst.
      destruct (set_field k s cfg) as [c1|] eqn:E; [|discriminate].
      rewrite (IH c1 c ND' H n). rewrite (set_field_kinds k s cfg c1 E n).
      destruct (String.eqb_spec k n) as [->|Hne].
      + assert (assoc n r = None) as ->.
        { destruct (assoc n r) as [v|] eqn:A; [|reflexivity]. apply (assoc_In _ ND') in A.
          exfalso. apply Hk. change n with (fst (n, v)). now apply in_map. }
        destruct (kind_of n cfg) as [kd|] eqn:K.
        * apply (set_field_get_same n s cfg c1 kd E K).
        * rewrite (set_field_unknown n s cfg K) in E. now injection E as <-.
      + rewrite (set_field_get_other k s cfg c1 E n) by congruence. reflexivity.
  Qed.

  Lemma override_none es : forall cfg,
    override es cfg = None <->
    exists k s kd, In (k, s) es /\ kind_of k cfg = Some kd /\ parse_kind kd s = PFatal.
  Proof.
    induction es as [|[k s] r IH]; intros cfg; cbn [override In].
    - split; [discriminate | intros (? & ? & ? & [] & _)].
    - destruct (set_field k s cfg) as [c1|] eqn:E.
      + rewrite IH. split.
        * intros (k' & s' & kd & Hin & K & P). exists k', s', kd. rewrite <- (set_field_kinds k s cfg c1 E k'). auto.
        * intros (k' & s' & kd & [Heq|Hin] & K & P).
          -- injection Heq as <- <-. assert (set_field k s cfg = None) by (apply set_field_none; eauto). congruence.
          -- exists k', s', kd. rewrite (set_field_kinds k s cfg c1 E k'). auto.
      + split; [|reflexivity]. intros _. apply set_field_none in E as (kd & K & P). exists k, s, kd. auto.
  Qed.

  Lemma override_app a b cfg :
    override (a ++ b) cfg = match override a cfg with Some c => override b c | None => None end.
  Proof.
    revert cfg. induction a as [|[k s] r IH]; intros cfg; cbn; [reflexivity|].
    destruct (set_field k s cfg); [apply IH | reflexivity].
  Qed.

  (* ---------------- defaults overlaid by the file ---------------- *)
  Lemma base_kind s f n : kind_of n (base s f) = kind_of n s.
  Proof. unfold base. induction s as [|[[n0 kd] d] r IH]; cbn; [reflexivity|]. destruct (n0 =? n); [reflexivity | apply IH]. Qed.

  Lemma base_get s f n :
    get n (base s f) = option_map (fun d => match f n with Some v => v | None => d end) (get n s).
  Proof.
    unfold base. induction s as [|[[n0 kd] d] r IH]; cbn; [reflexivity|].
    destruct (String.eqb_spec n0 n) as [->|]; [reflexivity | apply IH].
  Qed.

  (* ---------------- precedence ---------------- *)
  Lemma precedence_entries s f es : NoDup (map fst es) ->
    (effective s f es = None <->
       exists n str kd, assoc n es = Some str /\ kind_of n s = Some kd /\ parse_kind kd str = PFatal) /\
    forall cfg, effective s f es = Some cfg ->
      forall n kd d, kind_of n s = Some kd -> get n s = Some d ->
        let basev := match f n with Some v => v | None => d end in
        get n cfg = Some match assoc n es with
                         | Some str => match parse_kind kd str with PSet v => v | _ => basev end
                         | None => basev
                         end.
  Proof.
    intros ND. unfold effective. split.
    - rewrite override_none. split.
      + intros (k & str & kd & Hin & K & P). exists k, str, kd. rewrite base_kind in K.
        split; [now apply (assoc_In es ND) | auto].
      + intros (k & str & kd & A & K & P). exists k, str, kd. rewrite base_kind.
        split; [now apply (assoc_In es ND) | auto].
    - intros cfg H n kd d K G. cbv zeta.
      rewrite (override_get es _ cfg ND H n), base_kind, K, base_get, G. cbn [option_map].
      destruct (assoc n es) as [str|]; [|reflexivity]. destruct (parse_kind kd str); reflexivity.
  Qed.

  Lemma precedence_lemma : forall s f tokens es, Permutation es (arg_map tokens) ->
    (effective s f es = None <->
       exists n str kd, arg_get tokens n = Some str /\ kind_of n s = Some kd /\ parse_kind kd str = PFatal) /\
    forall cfg, effective s f es = Some cfg ->
      forall n kd d, kind_of n s = Some kd -> get n s = Some d ->
        let basev := match f n with Some v => v | None => d end in
        get n cfg = Some match arg_get tokens n with
                         | Some str => match parse_kind kd str with PSet v => v | _ => basev end
                         | None => basev
                         end.
  Proof.
    intros s f tokens es P.
    assert (ND : NoDup (map fst es)).
    { eapply Permutation_NoDup; [apply Permutation_map, Permutation_sym, P | apply arg_map_nodup]. }
    assert (A : forall n, assoc n es = arg_get tokens n).
    { intros n. rewrite (assoc_perm es (arg_map tokens) ND P n). apply arg_map_get. }
    destruct (precedence_entries s f es ND) as [H1 H2]. split.
    - rewrite H1. split; intros (n & str & kd & X & Y); exists n, str, kd; [rewrite <- A | rewrite A]; auto.
    - intros cfg H n kd d K G. specialize (H2 cfg H n kd d K G). cbv zeta in *. now rewrite <- A.
  Qed.

  (* ---------------- unknown keys ---------------- *)
  Lemma unknown_entry_lemma : forall s f es1 es2 k v, kind_of k s = None ->
    effective s f (es1 ++ (k, v) :: es2) = effective s f (es1 ++ es2).
  Proof.
    intros s f es1 es2 k v K. unfold effective. rewrite !override_app.
    destruct (ConfigModel.override pf es1 (base s f)) as [c|] eqn:E; [|reflexivity].
    cbn [ConfigModel.override].
    rewrite set_field_unknown; [reflexivity|].
    rewrite (override_kinds es1 _ c E k), base_kind. exact K.
  Qed.

  (* ---------------- order of the map iteration ---------------- *)
  Lemma set_field_comm k1 s1 k2 s2 : k1 <> k2 -> forall cfg,
    match set_field k1 s1 cfg with Some c => set_field k2 s2 c | None => None end =
    match set_field k2 s2 cfg with Some c => set_field k1 s1 c | None => None end.
  Proof.
    intros Hne. induction cfg as [|[[n kd] cur] r IH]; cbn; [reflexivity|].
    destruct (String.eqb_spec n k1) as [->|N1].
    - rewrite (eqb_false_of_neq k1 k2 Hne).
      destruct (parse_kind kd s1) eqn:P; cbn; rewrite ?(eqb_false_of_neq k1 k2 Hne);
        destruct (ConfigModel.set_field pf k2 s2 r) as [r'|]; cbn; rewrite ?String.eqb_refl, ?P; reflexivity.
    - destruct (String.eqb_spec n k2) as [->|N2].
      + destruct (parse_kind kd s2) eqn:P; cbn;
          destruct (ConfigModel.set_field pf k1 s1 r) as [r'|]; cbn;
          rewrite ?String.eqb_refl, ?P, ?(eqb_false_of_neq k2 k1) by congruence; reflexivity.
      + destruct (ConfigModel.set_field pf k1 s1 r) as [r1|] eqn:E1,
                 (ConfigModel.set_field pf k2 s2 r) as [r2|] eqn:E2; cbn;
          rewrite ?(eqb_false_of_neq n k1 N1), ?(eqb_false_of_neq n k2 N2); cbn in IH |- *;
          [rewrite IH | rewrite IH | rewrite <- IH | ]; reflexivity.
  Qed.

  Lemma override_perm es es' : Permutation es es' -> NoDup (map fst es) ->
    forall cfg, override es cfg = override es' cfg.
  Proof.
    induction 1 as [| [k s] l l' P IH | [k1 s1] [k2 s2] l | l l' l'' P1 IH1 P2 IH2]; intros ND cfg.
    - reflexivity.
    - cbn. inversion ND; subst. destruct (set_field k s cfg); [now apply IH | reflexivity].
    - cbn [map fst] in ND. inversion ND as [|? ? Hk ND']; subst.
      assert (k2 <> k1) by (intros ->; apply Hk; now left).
      cbn [ConfigModel.override].
      pose proof (set_field_comm k1 s1 k2 s2 ltac:(congruence) cfg) as C.
      destruct (set_field k1 s1 cfg) as [c1|], (set_field k2 s2 cfg) as [c2|]; cbn in C |- *;
        [rewrite C | rewrite C | rewrite <- C | ]; reflexivity.
    - rewrite (IH1 ND). apply IH2.
      eapply Permutation_NoDup; [apply Permutation_map; exact P1 | exact ND].
  Qed.

  Lemma order_entries_lemma : forall s f es es', NoDup (map fst es) -> Permutation es es' ->
    effective s f es = effective s f es'.
  Proof. intros. unfold effective. now apply override_perm. Qed.

  (* ---------------- the result depends on the entries only through the known keys ---------------- *)
  Definition known (cfg : config) (e : string * string) : bool :=
    match kind_of (fst e) cfg with Some _ => true | None => false end.

  Lemma override_filter es : forall cfg, override es cfg = override (filter (known cfg) es) cfg.
  Proof.
    induction es as [|[k s] r IH]; intros cfg; cbn [filter ConfigModel.override]; [reflexivity|].
    unfold known at 1. cbn [fst]. destruct (kind_of k cfg) eqn:K.
    - cbn [ConfigModel.override]. destruct (set_field k s cfg) as [c1|] eqn:E; [|reflexivity].
      rewrite (IH c1). f_equal. apply filter_ext. intros [k' s']. unfold known. cbn [fst].
      now rewrite (set_field_kinds k s cfg c1 E k').
    - rewrite (set_field_unknown k s cfg K). apply IH.
  Qed.

  Lemma nodup_keys_filter {A} (p : string * A -> bool) (m : list (string * A)) :
    NoDup (map fst m) -> NoDup (map fst (filter p m)).
  Proof.
    induction m as [|[k a] r IH]; cbn; intros ND; [constructor|].
    inversion ND as [|? ? Hk ND']; subst. destruct (p (k, a)); cbn; [|auto].
    constructor; [|auto]. intros Hin. apply Hk.
    apply in_map_iff in Hin as ([k' a'] & E & Hin). cbn in E. subst k'.
    apply filter_In in Hin as [Hin _]. change k with (fst (k, a')). now apply in_map.
  Qed.

  Lemma effective_ext : forall s f es1 es2, NoDup (map fst es1) -> NoDup (map fst es2) ->
    (forall n, kind_of n s <> None -> assoc n es1 = assoc n es2) ->
    effective s f es1 = effective s f es2.
  Proof.
    intros s f es1 es2 ND1 ND2 H. unfold effective.
    rewrite (override_filter es1), (override_filter es2).
    apply override_perm; [|now apply nodup_keys_filter].
    apply NoDup_Permutation.
    - eapply NoDup_map_inv. apply (nodup_keys_filter _ es1 ND1).
    - eapply NoDup_map_inv. apply (nodup_keys_filter _ es2 ND2).
    - intros [k v]. rewrite !filter_In. unfold known. cbn [fst]. rewrite base_kind.
      destruct (kind_of k s) eqn:K; [|intuition discriminate].
      rewrite <- (assoc_In es1 ND1), <- (assoc_In es2 ND2), (H k) by congruence. tauto.
  Qed.

  (* ---------------- batch-line level ---------------- *)
  Lemma tokens_ext : forall s f tokens tokens',
    (forall n, kind_of n s <> None -> arg_get tokens n = arg_get tokens' n) ->
    effective s f (arg_map tokens) = effective s f (arg_map tokens').
  Proof.
    intros s f t t' H. apply effective_ext; try apply arg_map_nodup.
    intros n K. rewrite !arg_map_get. now apply H.
  Qed.

  Lemma unknown_token_lemma : forall s f t1 t2 t,
    (token_kv t = None \/ exists k v, token_kv t = Some (k, v) /\ kind_of k s = None) ->
    effective s f (arg_map (t1 ++ t :: t2)) = effective s f (arg_map (t1 ++ t2)).
  Proof.
    intros s f t1 t2 t H. apply tokens_ext. intros n K.
    rewrite !arg_get_app. cbn [arg_get]. destruct (arg_get t2 n); [reflexivity|].
    destruct H as [-> | (k & v & -> & Kk)]; [reflexivity|].
    destruct (String.eqb_spec k n) as [->|]; [contradiction | reflexivity].
  Qed.

  Lemma order_tokens_lemma : forall s f tokens tokens',
    NoDup (map fst (kvs tokens)) -> Permutation tokens tokens' ->
    effective s f (arg_map tokens) = effective s f (arg_map tokens').
  Proof.
    intros s f t t' ND P. apply tokens_ext. intros n _.
    assert (P' : Permutation (kvs t) (kvs t')) by (unfold kvs; now apply Permutation_flat_map).
    assert (ND' : NoDup (map fst (kvs t'))).
    { eapply Permutation_NoDup; [apply Permutation_map; exact P' | exact ND]. }
    rewrite (arg_get_kvs t n ND), (arg_get_kvs t' n ND'). now apply assoc_perm.
  Qed.

  (* every iteration order of the Go map gives the result the model computes with arg_map's order *)
  Lemma any_map_order_lemma : forall s f tokens es, Permutation es (arg_map tokens) ->
    effective s f es = effective s f (arg_map tokens).
  Proof.
    intros s f tokens es P. apply order_entries_lemma; [|exact P].
    eapply Permutation_NoDup; [apply Permutation_map, Permutation_sym, P | apply arg_map_nodup].
  Qed.

  (* ---------------- the fix-ups touch three text fields only ---------------- *)
  Lemma put_get_other k v cfg n : n <> k -> get n (put k v cfg) = get n cfg.
  Proof.
    intros Hn. induction cfg as [|[[n0 kd] cur] r IH]; cbn; [reflexivity|].
    destruct (String.eqb_spec n0 k) as [->|]; cbn.
    - now rewrite (eqb_false_of_neq k n) by congruence.
    - now rewrite IH.
  Qed.

  Lemma fixup_other_lemma : forall root cfg n,
    n <> "WeatherFolder" -> n <> "WeatherRootFolder" -> n <> "ResultFileExt" ->
    get n (fixup root cfg) = get n cfg.
  Proof.
    intros root cfg n H1 H2 H3. unfold fixup.
    repeat match goal with
           | |- context [if ?b then _ else _] => destruct b
           | |- context [get n (put ?k ?v ?c)] => rewrite (put_get_other k v c n) by assumption
           end; reflexivity.
  Qed.
  (* ---------------- projects without config.yml, sequences of runs ---------------- *)
  Lemma autogen_idem s st : autogen s (Some (autogen s st)) = autogen s st.
  Proof. reflexivity. Qed.

  Lemma history_lemma : forall s runs st k es, nth_error runs k = Some es ->
    nth_error (run_seq pf s st runs) k = Some (effective s (autogen s st) es).
  Proof.
    intros s runs. induction runs as [|e r IH]; intros st k es H.
    - destruct k; discriminate.
    - destruct k as [|k]; cbn in H |- *.
      + now injection H as ->.
      + rewrite (IH (Some (autogen s st)) k es H). reflexivity.
  Qed.

  Lemma get_in_nodup s : NoDup (names s) -> forall n kd d, In (n, kd, d) s -> get n s = Some d.
  Proof.
    induction s as [|[[n0 kd0] d0] r IH]; cbn; intros ND n kd d Hin; [destruct Hin|].
    inversion ND as [|? ? Hk ND']; subst. destruct Hin as [E|Hin].
    - injection E as -> -> ->. now rewrite String.eqb_refl.
    - destruct (String.eqb_spec n0 n) as [->|]; [|now apply (IH ND' n kd d)].
      exfalso. apply Hk. unfold names. apply in_map_iff. exists (n, kd, d). split; [reflexivity | assumption].
  Qed.

  Lemma base_default_file s : NoDup (names s) -> base s (default_file s) = base s (fun _ => None).
  Proof.
    intros ND. unfold base. apply map_ext_in. intros [[n kd] d] Hin. unfold default_file.
    now rewrite (get_in_nodup s ND n kd d Hin).
  Qed.

  (* every run of a sequence on a project that had no config.yml: defaults overlaid by ITS OWN line only *)
  Lemma history_nofile_lemma : forall s runs k es, NoDup (names s) -> nth_error runs k = Some es ->
    nth_error (run_seq pf s None runs) k = Some (effective s (fun _ => None) es).
  Proof.
    intros s runs k es ND H. rewrite (history_lemma s runs None k es H). f_equal.
    unfold ConfigModel.effective. cbn [autogen]. now rewrite base_default_file.
  Qed.
  (* ---------------- the line text ---------------- *)
  Lemma glue_args_lemma : forall line, glue_args line = arg_map (fields line).
  Proof. reflexivity. Qed.

  (* two line texts whose arguments (distinct keys) are the same up to order and separated by any white space *)
  Lemma line_order_lemma : forall s f lead lead' pairs pairs',
    all_ws lead = true -> all_ws lead' = true ->
    Forall tok_ok (map fst pairs) -> Forall tok_ok (map fst pairs') -> seps_ok pairs -> seps_ok pairs' ->
    NoDup (map fst (kvs (map fst pairs))) -> Permutation (map fst pairs) (map fst pairs') ->
    line_config pf s f (lead ++ render pairs) = line_config pf s f (lead' ++ render pairs').
  Proof.
    intros s f lead lead' pairs pairs' L L' T T' S S' ND P. unfold line_config.
    rewrite !glue_args_lemma, (fields_render_lemma lead pairs L T S), (fields_render_lemma lead' pairs' L' T' S').
    now apply order_tokens_lemma.
  Qed.
  (* the requested shape: applying the line's overrides to ANY configuration, keys met in any order *)
  Lemma apply_overrides_lemma : forall l l' c, Permutation l l' -> NoDup (map fst l) ->
    override l c = override l' c.
  Proof. intros l l' c P ND. now apply override_perm. Qed.

  Lemma key_writes_own_field_lemma : forall k v c c' n, set_field k v c = Some c' -> n <> k -> get n c' = get n c.
  Proof. intros k v c c' n H Hn. now apply (set_field_get_other k v c c' H n Hn). Qed.
End Proofs.
