(* GwModel.v — executable model of the groundwater level of a day:
     hermes.GetGroundWaterLevel (hermes/soil.go:738-765), the daily update in the day loop
     (hermes/run.go:362-371) and the mean/amplitude of the polygon-file variant (hermes/input.go:73-75).
   Written once over [Num]; math.Sin is an ORACLE (its result [s] is an input; the model computes the
   argument so that the correspondence can check where the harness evaluated it).  No proofs here.

   A series is the list of (date, level) records in file order: GWTimestamps = the dates in that
   order, GWTimeSeriesValues = the Go map built by inserting the records in order (a later record with
   the same date overwrites the earlier one). *)
From Coq Require Import ZArith List Bool.
From Hermes Require Import Num.
Import ListNotations.
Local Open Scope num_scope.

Section Gw.
  Context {T : Type} {NT : Num T}.

  (* the Go map: value of the LAST record with that date *)
  Fixpoint lookup (s : list (Z * T)) (d : Z) : option T :=
    match s with
    | [] => None
    | (d', v) :: r =>
        match lookup r d with
        | Some x => Some x
        | None => if Z.eqb d' d then Some v else None
        end
    end.

  (* reading a missing key of a Go map yields 0 *)
  Definition value_of (s : list (Z * T)) (d : Z) : T :=
    match lookup s d with Some v => v | None => zero end.

  (* soil.go:746-754: prevDate / nextDate, 0 = not found; the loop stops at the first later date *)
  Fixpoint search (ts : list Z) (date prev : Z) : Z * Z :=
    match ts with
    | [] => (prev, 0%Z)
    | d :: r =>
        if Z.ltb d date then search r date d
        else if Z.ltb date d then (prev, d)
        else search r date prev
    end.

  (* soil.go:738-765; None = the error "no ground water level found" *)
  Definition level (s : list (Z * T)) (date : Z) : option T :=
    match lookup s date with
    | Some v => Some v
    | None =>
        let '(p, n) := search (map fst s) date 0%Z in
        if Z.eqb p 0 && Z.eqb n 0 then None
        else if Z.eqb p 0 then Some (value_of s n)
        else if Z.eqb n 0 then Some (value_of s p)
        else Some ((value_of s n - value_of s p) / ofZ (n - p) * ofZ (date - p) + value_of s p)
    end.

  (* ---- soil.go:692-730 ReadGroundWaterTimeSeries: the rows of the requested id, in file order, every one of
     them (a row = (id, date, level); equal consecutive levels, duplicate dates and rows of other ids in between
     make no difference); the result is the series [lookup]/[search] work on ---- *)
  Fixpoint gw_read (rows : list (Z * Z * T)) (id : Z) : list (Z * T) :=
    match rows with
    | [] => []
    | (i, d, v) :: r => if Z.eqb i id then (d, v) :: gw_read r id else gw_read r id
    end.

  (* init.go:13-14: the level before the first day; the error of an empty series is ignored (level 0) *)
  Definition gw_init_series (series : list (Z * T)) (beginn : Z) : T :=
    match level series (beginn - 2) with Some v => v | None => zero end.

  (* ---- input.go:73-75 ---- *)
  Definition gw_mean (grlo grhi : Z) : T := ofZ (grlo + grhi) / two.
  Definition gw_ampl (grlo grhi : Z) : T := ofZ (grlo - grhi) / two.

  (* ---- run.go:362-371 (and init.go:11-15) ---- *)
  Inductive gwfrom := Polygonfile | Soilfile | GWTimeSeries.

  (* math.Pi as a float64: 884279719003555 / 2^48 (exact) *)
  Definition pi64 : T := ofZ 884279719003555 / ofZ 281474976710656.
  Definition sin_arg (tag : T) (phase : Z) : T := (tag + ofZ phase) * pi64 / ofZ 180.
  Definition gw_sinus (gw ampl s : T) : T := gw - (ampl * s).
  (* config.go:126: g.GWPhase is the configured GroundWaterPhase, unchanged (the sinusoid's period is 360,
     not a year: no normalisation is applied) *)
  Definition gw_phase_of_config (configured : Z) : Z := configured.

  (* the level used on day [zeit]; [grw] = yesterday's level, [s] = math.Sin (sin_arg TAG phase);
     None = log.Fatal *)
  Definition gw_day (from : gwfrom) (grw gw ampl s : T) (series : list (Z * T)) (zeit : Z) : option T :=
    match from with
    | Polygonfile => Some (gw_sinus gw ampl s)
    | GWTimeSeries => level series zeit
    | Soilfile => Some grw
    end.
End Gw.
