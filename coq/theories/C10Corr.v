(* C10Corr.v — decoding of the observations of harness/c10.go and comparison with SchedModel:
   whole runs of the real simulator on generated event files (arrays after Input, every cursor
   advance of the run, state jumps) and the dueng kernel (bit-exact). *)
From Coq Require Import ZArith List Bool Floats Uint63 String.
From Hermes Require Import Num SchedModel.
Import ListNotations.
Open Scope Z_scope.

Definition zi (x : int) : Z := Uint63.to_Z x.
Definition one_stepf : Z -> nat := fun _ => 1%nat.

(* file line: kind 0 = first token is the field id, 1 = other tokens, 2 = no token *)
Definition mkline {P} (l : int * int * P) : line P :=
  let '(k, d, p) := l in
  if (k =? 0)%uint63 then Mine (zi d) p else if (k =? 1)%uint63 then Other else Blank.

Record c10_run := {
  r_B : int; r_E : int; r_M : int;                       (* BEGINN, ENDE, dumped slots *)
  r_fertilization : float;                               (* config Fertilization (percent) *)
  r_depos : float; r_dt : float;
  r_fert : list (int * int * (float * string));          (* kind, date, (quantity, type) *)
  r_till : list (int * int * (float * int));             (* kind, date, (depth, type) *)
  r_irr : list (int * int * (float * float));            (* kind, date, (mm, N concentration) *)
  (* observed: arrays after Input *)
  o_ztdg : list int; o_fpay : list (float * float * float * float);   (* NDIR NH4N NSAS NLAS per slot *)
  o_einte : list int; o_eint : list float; o_tilart : list int;       (* EINTE[1..], EINT[0..], TILART[0..] *)
  o_ztbr : list int; o_breg : list float; o_brkz : list float;
  (* observed: cursor advances (day, sub-step, slot) *)
  o_ffired : list (int * int * int); o_tfired : list (int * int * int); o_ifired : list (int * int * int);
  (* observed: state jumps at a fertiliser firing: slot, DSUMM before/after, NH4Sum before/after *)
  o_fjump : list (int * (float * float) * (float * float));
  (* at an irrigation: slot, REGEN before/after, C1[0] at the end of the previous day / after deposition *)
  o_ijump : list (int * (float * float) * (float * float) * bool);
  (* observed: ZTDG[0..] and EINTE[1..] after every harvest call *)
  o_harv_arrays : list (list int * list int);
  (* observed: g.DUNGSZEN as readConfig left it *)
  o_dungszen : float;
}.

Definition fsame4 (a b : float * float * float * float) : bool :=
  let '(a1, a2, a3, a4) := a in let '(b1, b2, b3, b4) := b in
  float_same a1 b1 && float_same a2 b2 && float_same a3 b3 && float_same a4 b4.

Fixpoint all2 {A B} (f : A -> B -> bool) (l : list A) (m : list B) : bool :=
  match l, m with
  | [], [] => true
  | x :: r, y :: s => f x y && all2 f r s
  | _, _ => false
  end.

Definition tab_of (n : nat) (f : Z -> Z) : list Z := map (fun i => f (Z.of_nat i)) (seq 0%nat n).
Definition tabA {A} (n : nat) (f : Z -> A) : list A := map (fun i => f (Z.of_nat i)) (seq 0%nat n).

Definition fired_same (m : list (Z * Z * Z)) (o : list (int * int * int)) : bool :=
  all2 (fun a b => let '(z, s, k) := a in let '(z', s', k') := b in
                   (z =? zi z') && (s =? zi s') && (k =? zi k')) m o.

Definition pay_of (tab : list (frow float)) (fert : float) (s : rd (float * string)) (k : Z) : fpay float :=
  if (1 <=? k) && (k <? rd_n s) then fert_payload tab fert (fst (rd_pay s k)) (snd (rd_pay s k)) else fpay0.

(* bitmask: 1 fertiliser dates, 2 fertiliser split per slot, 4 fertiliser firings, 8 tillage dates,
   16 tillage payload, 32 tillage firings, 64 irrigation arrays, 128 irrigation firings,
   256 DSUMM/NH4Sum jumps, 512 REGEN/C1[0] jumps, 1024 date arrays after a harvest call,
   2048 global fertilisation factor (config.go:114, DUNGSZEN = Fertilization / 100 of the CONFIGURED value) *)
Definition c10_check (tab : list (frow float)) (r : c10_run) : nat :=
  let B := zi (r_B r) in let E := zi (r_E r) in let M := Z.to_nat (zi (r_M r)) in
  let fs := fert_read (PrimFloat.zero, EmptyString) B (PrimFloat.zero, EmptyString) (map mkline (r_fert r)) in
  let ts := till_read (PrimFloat.zero, 0%uint63) B (map mkline (r_till r)) in
  (* read with BEGINN = 0, compacted once BEGINN is known *)
  let is := irr_read (PrimFloat.zero, PrimFloat.zero) B (map mkline (r_irr r)) in
  let b (ok : bool) (v : nat) := if ok then 0%nat else v in
  let fp := pay_of tab (r_fertilization r) fs in
  let c1 := all2 Z.eqb (tab_of M (rd_date fs)) (map zi (o_ztdg r)) in
  let c2 := all2 (fun (k : Z) o => (k =? 0) || fsame4 (let p := fp k in (p_ndir p, p_nh4n p, p_nsas p, p_nlas p)) o)
                 (map Z.of_nat (seq 0%nat M)) (o_fpay r) in
  let c3 := fired_same (fert_fired (rd_date fs) one_stepf B E) (o_ffired r) in
  let c4 := all2 Z.eqb (tab_of M (rd_date ts)) (map zi (o_einte r)) in
  let c5 := all2 float_same (tabA M (fun k => fst (rd_pay ts k))) (o_eint r) &&
            all2 (fun a c => (zi a =? zi c)) (tabA M (fun k => snd (rd_pay ts k))) (o_tilart r) in
  let c6 := fired_same (till_fired (rd_date ts) one_stepf B E) (o_tfired r) in
  let c7 := all2 Z.eqb (tab_of M (rd_date is)) (map zi (o_ztbr r)) &&
            all2 float_same (tabA M (fun k => fst (rd_pay is k))) (o_breg r) &&
            all2 float_same (tabA M (fun k => snd (rd_pay is k))) (o_brkz r) in
  let c8 := fired_same (irr_fired (rd_date is) B E) (o_ifired r) in
  let c9 := forallb (fun j => let '(k, (d0, d1), (n0, n1)) := j in
                        let p := fp (zi k) in
                        float_same (add d0 (p_ndir p)) d1 && float_same (add n0 (p_nh4n p)) n1) (o_fjump r) in
  let c10 := forallb (fun j => let '(k, (g0, g1), (c0, c1), usable) := j in
                        let s := apply_irr {| s_regen := g0; s_c10 := c0 |} (fst (rd_pay is (zi k))) (snd (rd_pay is (zi k))) in
                        float_same (s_regen s) g1 &&
                        (negb usable || float_same (deposition (r_depos r) (r_dt r) (s_c10 s)) c1)) (o_ijump r) in
  let c11 := forallb (fun h => all2 Z.eqb (tab_of M (rd_date fs)) (map zi (fst h)) &&
                              all2 Z.eqb (tab_of M (rd_date ts)) (map zi (snd h))) (o_harv_arrays r) in
  let c12 := float_same (dungszen (r_fertilization r)) (o_dungszen r) in
  (b c1 1 + b c2 2 + b c3 4 + b c4 8 + b c5 16 + b c6 32 + b c7 64 + b c8 128 + b c9 256 + b c10 512 + b c11 1024 + b c12 2048)%nat.

Fixpoint mismatches {A} (chk : A -> nat) (i : nat) (l : list A) : list (nat * nat) :=
  match l with
  | [] => []
  | c :: r => let v := chk c in
              if Nat.eqb v 0 then mismatches chk (S i) r else (i, v) :: mismatches chk (S i) r
  end.

(* dueng kernel: (name, DGMG, (NDIR, NH4N, NSAS, NLAS)) *)
Definition dueng_check (tab : list (frow float)) (c : string * float * (float * float * float * float)) : nat :=
  let '(name, dgmg, o) := c in
  let p := dueng tab name dgmg fpay0 in
  if fsame4 (p_ndir p, p_nh4n p, p_nsas p, p_nlas p) o then 0%nat else 1%nat.
