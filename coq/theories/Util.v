(* Util.v — finite-range enumeration helpers used to lift [vm_compute] sweeps over a
   stated finite domain into universally quantified statements. *)
From Coq Require Import ZArith List Bool Lia.
Import ListNotations.
Open Scope Z_scope.

(* [zrange lo n] = [lo; lo+1; ...; lo+n-1] *)
Fixpoint zrange (lo : Z) (n : nat) : list Z :=
  match n with O => [] | S k => lo :: zrange (lo + 1) k end.

Lemma zrange_In lo n x : In x (zrange lo n) <-> lo <= x < lo + Z.of_nat n.
Proof.
  revert lo; induction n as [|n IH]; intros lo; cbn [zrange In].
  - lia.
  - rewrite IH. lia.
Qed.

Lemma zrange_forall (P : Z -> bool) lo n :
  forallb P (zrange lo n) = true -> forall x, lo <= x < lo + Z.of_nat n -> P x = true.
Proof.
  intros H x Hx. rewrite forallb_forall in H. apply H. apply zrange_In. exact Hx.
Qed.

Lemma zrange_length lo n : length (zrange lo n) = n.
Proof. revert lo; induction n as [|n IH]; intros lo; cbn; [reflexivity | now rewrite IH]. Qed.

(* A counting loop over N that checks [P k x_k] along an iteration x_{k+1} = f x_k. *)
Section IterCheck.
  Context {A : Type} (f : A -> A) (x0 : A) (P : N -> A -> bool).

  Definition ic_step (s : N * A * bool) : N * A * bool :=
    let '(k, x, ok) := s in
    let x' := f x in (N.succ k, x', ok && P (N.succ k) x').

  Definition ic_run (n : N) : N * A * bool := N.iter n ic_step (0%N, x0, true).

  Definition nth_iter (n : N) : A := N.iter n f x0.

  Lemma ic_run_spec n :
    let '(k, x, ok) := ic_run n in
    k = n /\ x = nth_iter n /\
    (ok = true -> forall j, (1 <= j <= n)%N -> P j (nth_iter j) = true).
  Proof.
    induction n as [|n IH] using N.peano_ind.
    - cbn. repeat split; intros; lia.
    - unfold ic_run, nth_iter in *. rewrite !N.iter_succ.
      destruct (N.iter n ic_step (0%N, x0, true)) as [[k x] ok].
      destruct IH as [-> [-> IH]]. cbn [ic_step].
      repeat split.
      intros Hok j Hj. apply andb_true_iff in Hok as [Hok HP].
      destruct (N.eq_dec j (N.succ n)) as [->|Hne].
      + rewrite N.iter_succ. exact HP.
      + apply IH; [exact Hok | lia].
  Qed.

  Lemma ic_run_forall n :
    snd (ic_run n) = true -> forall j, (1 <= j <= n)%N -> P j (nth_iter j) = true.
  Proof.
    intros H. pose proof (ic_run_spec n) as S.
    destruct (ic_run n) as [[k x] ok]. cbn in H. destruct S as [_ [_ S]]. exact (S H).
  Qed.
End IterCheck.
