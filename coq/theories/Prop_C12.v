(* Prop_C12.v — property C12 (date conversion is a calendar-correct, order-preserving
   bijection), stated about DateModel (model of hermes/helper.go) against the civil
   calendar of Calendar.v.  This file contains only statements, each closed by
   [exact lemma], and Print Assumptions. *)
From Coq Require Import ZArith List Bool Ascii String.
From Hermes Require Import Util Calendar DateModel DateProofs.
Open Scope Z_scope.

(* day number n (1 = 1 Jan 1901 ... 72684 = 31 Dec 2099) <-> n-th civil date; the code's
   inverse recovers the date; day-of-year is the true one; the date is a valid one. *)
Theorem C12_day_number_is_civil : forall n : N,
  (1 <= n <= 72684)%N ->
  let t := civil_of_day n in
  kalender_date (Z.of_N n) = Some (dy t, dm t, dd t) /\
  masdat_num (dd t) (dm t) (dy t - 1900) = Some (doy t, Z.of_N n) /\
  1901 <= dy t <= 2099 /\ valid_date t = true.
Proof. exact day_facts. Qed.

(* every valid calendar date 1.1.1901 .. 31.12.2099 has a day number in range whose
   civil date it is (surjectivity; with the above: a bijection) *)
Theorem C12_every_date_has_its_number : forall y m d,
  1901 <= y <= 2099 -> valid_date (mkdate y m d) = true ->
  exists n, (1 <= n <= 72684)%N /\ civil_of_day n = mkdate y m d /\
            masdat_of (mkdate y m d) = Some (Z.of_N n).
Proof. exact date_is_civil. Qed.

(* number -> text -> number, all four formats, separator of length 0 or 1 (any
   character), every century split 0..100 that keeps the year unambiguous *)
Theorem C12_number_text_number : forall (f : datefmt) (sep : lstr) (cent : Z) (n : N),
  sep_ok sep -> 0 <= cent <= 100 -> (1 <= n <= 72684)%N ->
  let t := civil_of_day n in
  in_window f cent (dy t) ->
  kalender_converter f sep (Z.of_N n) = Some (render_date f sep (dy t) (dm t) (dd t)) /\
  date_converter cent f (render_date f sep (dy t) (dm t) (dd t)) = Some (doy t, Z.of_N n).
Proof. exact roundtrip_text_strong. Qed.

(* text -> number -> text *)
Theorem C12_text_number_text : forall f sep cent y m d,
  sep_ok sep -> 0 <= cent <= 100 -> 1901 <= y <= 2099 -> valid_date (mkdate y m d) = true ->
  in_window f cent y ->
  exists n, 1 <= n <= 72684 /\
    date_converter cent f (render_date f sep y m d) = Some (doy (mkdate y m d), n) /\
    kalender_converter f sep n = Some (render_date f sep y m d).
Proof. exact text_number_text_lemma. Qed.

(* consecutive calendar days map to consecutive day numbers *)
Theorem C12_consecutive : forall n : N,
  (1 <= n)%N -> (N.succ n <= 72684)%N ->
  exists a, masdat_of (civil_of_day n) = Some a /\
            masdat_of (next_day (civil_of_day n)) = Some (a + 1).
Proof. exact consecutive_lemma. Qed.

(* the code's calendar has a 29 February exactly in the years divisible by four *)
Theorem C12_leap_years : forall y,
  1901 <= y <= 2099 ->
  ((exists n, 1 <= n <= 72684 /\ kalender_date n = Some (y, 2, 29)) <-> y mod 4 = 0).
Proof. exact feb29_lemma. Qed.

(* non-vacuity: a concrete instance of every hypothesis bundle *)
Example C12_nonvacuous :
  civil_of_day 36219 = mkdate 2000 2 29 /\
  in_window DEshort 50 2000 /\ sep_ok (lstr_of ".") /\
  option_map str_of (kalender_converter DEshort (lstr_of ".") 36219) = Some "29.02.00"%string /\
  date_converter 50 DEshort (lstr_of "29.02.00") = Some (60, 36219).
Proof. vm_compute. repeat split; try discriminate; auto. Qed.

Print Assumptions C12_day_number_is_civil.
Print Assumptions C12_every_date_has_its_number.
Print Assumptions C12_number_text_number.
Print Assumptions C12_text_number_text.
Print Assumptions C12_consecutive.
Print Assumptions C12_leap_years.
