(* PoolProofs.v — coherence of the session file pool (PoolModel). *)
From stdpp Require Import gmap.
From Hermes Require Import PoolModel.

Section PoolProofs.
  Context {path bytes : Type} `{Countable path}.
  Variable disk : path -> bytes.
  Variable nilb : bytes.

  Notation get := (get disk nilb).
  Notation run_ops := (run_ops disk nilb).
  Notation pool_ok := (pool_ok disk).

  Lemma pool_ok_empty : pool_ok ∅.
  Proof. intros p b Hl. unfold pool in *. simplify_map_eq. Qed.

  Lemma get_spec pl p :
    pool_ok pl -> snd (get pl p) = disk p /\ pool_ok (fst (get pl p)).
  Proof.
    intros Hok. unfold PoolModel.get, pool in *. cbn [fst snd].
    destruct (pl !! p) as [b|] eqn:E.
    - rewrite E. cbn. split; [exact (Hok p b E) | exact Hok].
    - rewrite lookup_insert. cbn. split; [reflexivity|].
      intros q b Hq. unfold pool in *. destruct (decide (p = q)) as [->|Hne].
      + rewrite lookup_insert in Hq. congruence.
      + rewrite lookup_insert_ne in Hq by exact Hne. exact (Hok q b Hq).
  Qed.

  (* the value returned never depends on what was cached before *)
  Lemma get_value_any_pool pl1 pl2 p :
    pool_ok pl1 -> pool_ok pl2 -> snd (get pl1 p) = snd (get pl2 p).
  Proof.
    intros H1 H2. destruct (get_spec pl1 p H1) as [-> _].
    destruct (get_spec pl2 p H2) as [-> _]. reflexivity.
  Qed.

  Lemma run_ops_spec ops : forall pl,
    pool_ok pl ->
    pool_ok (fst (run_ops pl ops)) /\
    Forall (fun pb => snd pb = disk (fst pb)) (snd (run_ops pl ops)) /\
    map fst (snd (run_ops pl ops)) =
      omap (fun o => match o with OGet p => Some p | OClose => None end) ops.
  Proof.
    induction ops as [|o r IH]; intros pl Hok; cbn [PoolModel.run_ops].
    - cbn. repeat split; [exact Hok | constructor].
    - destruct o as [p|].
      + destruct (get_spec pl p Hok) as [Hv Hok1].
        destruct (get pl p) as [pl1 b] eqn:Eg. cbn [fst snd] in Hv, Hok1.
        specialize (IH pl1 Hok1).
        destruct (run_ops pl1 r) as [pl2 out] eqn:Er. cbn [fst snd] in *.
        destruct IH as (I1 & I2 & I3). repeat split.
        * exact I1.
        * constructor; [exact Hv | exact I2].
        * cbn. now rewrite I3.
      + apply (IH (close pl)). unfold close. apply pool_ok_empty.
  Qed.

  (* C03 pool_coherent: for every list of operations (= every interleaving of the Get and
     Close calls of any number of concurrent runs), started from any coherent pool (e.g. the
     empty one, or one filled by earlier runs of the session), every value a Get returns is
     the disk content of the requested path, one answer per request, in order. *)
  Theorem pool_coherent_lemma : forall (ops : list op) (pl : pool),
    pool_ok pl ->
    let out := snd (run_ops pl ops) in
    Forall (fun pb => snd pb = disk (fst pb)) out /\
    map fst out = omap (fun o => match o with OGet p => Some p | OClose => None end) ops /\
    pool_ok (fst (run_ops pl ops)).
  Proof. intros ops pl Hok. destruct (run_ops_spec ops pl Hok) as (A & B & C). auto. Qed.

  (* ... hence the answers do not depend on the cache state at the start *)
  Theorem pool_cache_irrelevant_lemma : forall (ops : list op) (pl1 pl2 : pool),
    pool_ok pl1 -> pool_ok pl2 -> snd (run_ops pl1 ops) = snd (run_ops pl2 ops).
  Proof.
    intros ops pl1 pl2 H1 H2.
    destruct (run_ops_spec ops pl1 H1) as (_ & A1 & B1).
    destruct (run_ops_spec ops pl2 H2) as (_ & A2 & B2).
    rewrite <- B2 in B1. clear B2.
    revert A1 A2 B1. generalize (snd (run_ops pl1 ops)) (snd (run_ops pl2 ops)).
    induction l as [|[p b] l IH]; intros [|[q c] l2] A1 A2 B1; cbn in B1; try discriminate; auto.
    inversion A1; inversion A2; subst. cbn in *. injection B1 as -> B1.
    f_equal; [congruence | eauto].
  Qed.
End PoolProofs.
