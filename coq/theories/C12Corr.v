(* C12Corr.v — decoding of harness observations and the mismatch function for the C12
   correspondence: the DateModel functions are run on the inputs the Go converters were
   run on and compared with the observed outputs. *)
From Coq Require Import ZArith List Bool Ascii String Uint63.
From Hermes Require Import DateModel.
Import ListNotations.
Open Scope Z_scope.

(* numeric case i (day number n = i+1): packed y*10^12 + m*10^10 + d*10^8 + zt*10^5 + mas *)
Definition num_case_ok (n : Z) (packed : int) : bool :=
  let p := Uint63.to_Z packed in
  let mas := p mod 100000 in
  let zt := (p / 100000) mod 1000 in
  let d := (p / 100000000) mod 100 in
  let m := (p / 10000000000) mod 100 in
  let y := p / 1000000000000 in
  match kalender_date n with
  | Some (y', m', d') =>
      (y' =? y) && (m' =? m) && (d' =? d) &&
      match masdat_num d m (y - 1900) with
      | Some (zt', mas') => (zt' =? zt) && (mas' =? mas)
      | None => false
      end
  | None => false
  end.

Fixpoint num_mismatches (n : Z) (l : list int) : list Z :=
  match l with
  | [] => []
  | p :: r => if num_case_ok n p then num_mismatches (n + 1) r else n :: num_mismatches (n + 1) r
  end.

(* text: nibbles, least significant first; 0-9 digits, 10 = '.', 15 = end *)
Fixpoint nibbles (fuel : nat) (z : Z) : lstr :=
  match fuel with
  | O => []
  | S k => let v := z mod 16 in
           if v =? 15 then [] else
           (if v =? 10 then "."%char else digit_char v) :: nibbles k (z / 16)
  end.

Definition fmt_of (z : Z) : datefmt :=
  match z with 0 => DEshort | 1 => DElong | 2 => ENshort | _ => ENlong end.

Definition lstr_eqb (a b : lstr) : bool :=
  if list_eq_dec ascii_dec a b then true else false.

(* A = ((fmt*2+sepi)*1000+cent)*100000+n ; B = text nibbles ; C = zt*100000+mas *)
Definition text_case_ok (c : int * int * int) : bool :=
  let '(a, b, c) := c in
  let a := Uint63.to_Z a in let c := Uint63.to_Z c in
  let n := a mod 100000 in
  let cent := (a / 100000) mod 1000 in
  let fs := a / 100000000 in
  let f := fmt_of (fs / 2) in
  let sep := if fs mod 2 =? 0 then [] else ["."%char] in
  let text := nibbles 12 (Uint63.to_Z b) in
  match kalender_converter f sep n with
  | Some s => lstr_eqb s text
  | None => false
  end &&
  match date_converter cent f text with
  | Some (zt, mas) => (zt =? c / 100000) && (mas =? c mod 100000)
  | None => false
  end.

Fixpoint text_mismatches (i : Z) (l : list (int * int * int)) : list Z :=
  match l with
  | [] => []
  | c :: r => if text_case_ok c then text_mismatches (i + 1) r else i :: text_mismatches (i + 1) r
  end.
