(* Prop_C08.v — property C08 (actual ET never exceeds potential ET; uptake only from rooted layers above
   the groundwater table), stated about EvatraModel.evatra_struct — the executable model of the structural
   part of hermes.Evatra that the correspondence check compares bit for bit with the Go code — and about
   WaterModel.uptake_layer, read over the reals.  Only statements here.

   [evatra_wf x]: 0 <= VERDU (what the cap/floor step C08_pot_cap establishes), 0 < e = exp(-LAI/2) <= 1,
   WMIN[0]/3 < W[0], WUDICH >= 0, and in the crop branch 0 <= LUMDAY (no condition on LUKRIT: after the
   repair F27 the branch that divides by it is only taken when LUKRIT > 0). *)
From Coq Require Import ZArith Reals List Bool PrimFloat SpecFloat.
From Hermes Require Import Num RUtil WaterModel WaterProofs EvatraModel EvatraProofs Et0Model Et0Proofs.
Local Open Scope R_scope.

(* the potential ET handed on by the cap/floor step (water.go:292-297, 463-468) lies in [0, 0.65] under a
   crop and in [0, 0.6] on bare soil, whatever the ET0 formula produced *)
Theorem C08_pot_cap : forall (crop : bool) (v : R), 0 <= @pot_cap R RNum crop v <= cap_of crop.
Proof. exact pot_cap_lemma. Qed.

(* ... and at binary64 the step is exact: for every input that is not NaN the result is the input, the
   cap or 0 (never a rounded value) and lies in [0, cap] *)
Theorem C08_pot_cap_binary64 : forall (crop : bool) (v : float),
  FloatOps.Prim2SF v <> S754_nan ->
  let r := @pot_cap float FloatNum crop v in
  (0 <=? r)%float = true /\ (r <=? capF crop)%float = true /\ (r = v \/ r = capF crop \/ r = 0%float).
Proof. exact pot_cap_binary64. Qed.

(* the share of evaporable water lies in [0,1] when the dryness limit of the top layer is below its field
   capacity, and the reduction factor of the surface evaporation lies in [0,1] on all four segments *)
Theorem C08_proz_range : forall wg00 regen wmin0 w0 : R,
  wmin0 / 3 < w0 -> 0 <= @proz_of R RNum wg00 regen wmin0 w0 <= 1.
Proof. exact proz_range_lemma. Qed.

Theorem C08_redev_range : forall p : R, 0 <= p <= 1 -> 0 <= @redev_of R RNum p <= 1.
Proof. exact redev_range_lemma. Qed.

(* actual evaporation and actual transpiration are non-negative and together at most the potential ET;
   the same with the sum of the per-layer uptakes that Water receives *)
Theorem C08_aet_le_pet : forall x : evatra_in (T:=R), evatra_wf x ->
  let o := evatra_struct x in
  0 <= eo_eta o /\ 0 <= eo_tpakt o /\ eo_eta o + eo_tpakt o <= ei_verdu x /\
  Forall (fun t => 0 <= t) (eo_tp o) /\ eo_eta o + Rsum (eo_tp o) <= ei_verdu x.
Proof. exact aet_le_pet_lemma. Qed.

(* the initial distribution hands out at most TRAMAX*LURED <= TRAMAX; the air-shortage factor is in [0,1] *)
Theorem C08_tp_initial : forall x : evatra_in (T:=R), evatra_wf x ->
  let o := evatra_struct x in
  Forall (fun t => 0 <= t) (eo_tp0 o) /\
  Rsum (eo_tp0 o) <= eo_tramax o * eo_lured o /\ Rsum (eo_tp0 o) <= eo_tramax o /\
  (ei_crop x = true -> 0 <= eo_lured o <= 1 /\ (0 <= eo_lumday o <= 4)%Z).
Proof. exact tp_initial_lemma. Qed.

(* the redistribution loop (water.go:602-641), for any number of layers and any start: if every layer
   starts with a non-negative uptake and weight WUEFF*WUDICH and the remaining weight sum is at most
   WEFFREST, the loop does not increase the summed uptake, keeps every layer non-negative and returns
   TPAKT = (start value) + the sum of the final uptakes *)
Theorem C08_redistribute : forall (mn grw : R) (fuel : nat) (ls : list (rl (T:=R))) (i : nat) (W tpakt gwauf : R),
  (length ls <= fuel)%nat -> Forall rl_ok ls -> Rsum (wts ls) <= W ->
  let '(tps, ta, gw) := @redis R RNum fuel i mn grw W tpakt gwauf ls in
  Rsum tps <= Rsum (tps_of ls) /\ Forall (fun t => 0 <= t) tps /\ ta = tpakt + Rsum tps /\
  length tps = length ls.
Proof. exact redis_lemma. Qed.

(* ... and inside Evatra its hypotheses hold: final uptakes non-negative, their sum at most the initial sum *)
Theorem C08_redistribute_in_evatra : forall x : evatra_in (T:=R), evatra_wf x ->
  let o := evatra_struct x in
  Forall (fun t => 0 <= t) (eo_tp o) /\ Rsum (eo_tp o) <= Rsum (eo_tp0 o) /\
  0 <= eo_tpakt o <= Rsum (eo_tp o) /\ length (eo_tp o) = length (eo_tp0 o).
Proof. exact redistribute_struct_lemma. Qed.

(* no uptake from a layer below the rooting depth or below the groundwater table, before and after the
   redistribution (i is the 0-based layer index; on bare soil WURZ = 0) *)
Theorem C08_uptake_zone : forall x : evatra_in (T:=R), evatra_wf x ->
  let o := evatra_struct x in
  forall i : nat, Rmin (IZR (Z.of_nat (eo_wurz o))) (ei_grw x) < IZR (Z.of_nat (i + 1)) ->
    nth i (eo_tp0 o) 0 = 0 /\ nth i (eo_tp o) 0 = 0.
Proof. exact uptake_zone_lemma. Qed.

(* after the clamp of Water's first sub-step the uptake of a layer is at most its plant-available water,
   and the clamp never raises a non-negative uptake *)
Theorem C08_uptake_avail : forall (x : water_in (T:=R)) (n : nat),
  wf_in x n -> wi_subd1 x = true ->
  forall i, (i < n)%nat ->
    let tp' := get 0 (wo_tp (water_step x)) i in
    tp' <= Rmax 0 (get 0 (wi_wg0 x) i - get 0 (wi_wmin x) i) * 10 /\
    (0 <= get 0 (wi_tp x) i -> 0 <= tp' <= get 0 (wi_tp x) i).
Proof. exact uptake_avail_lemma. Qed.

(* the day: what the sub-steps of Water really take out and book as actual ET (per sub-step sum TP[i]*wdt +
   ETA*wdt goes to PFTRANS, to ETAG after sowing, the TP part to TRAY).  For k >= 1 sub-steps of length 1/k -
   the shape C01_substeps_cover_day establishes for the day loop's own choice (sum of the sub-step lengths = 1) -
   the booked amount is ETA + the sum of the clamped uptakes, non-negative and at most the potential ET *)
Theorem C08_booked_le_pet : forall (e : evatra_in (T:=R)) (x : water_in (T:=R)) (n k : nat),
  evatra_wf e -> wf_in x n -> wi_subd1 x = true ->
  wi_tp x = eo_tp (evatra_struct e) -> wi_eta x = eo_eta (evatra_struct e) ->
  (1 <= k)%nat -> wi_wdt x = / INR k ->
  booked_aet k x = wi_eta x + Rsum (wo_tp (water_step x)) /\
  0 <= booked_aet k x <= ei_verdu e.
Proof. exact booked_le_pet_lemma. Qed.

(* the season (per-crop sums of the crop record).  [season_run] folds the days: ETC0 += potential ET, ETAG += booked
   actual ET, TRAG += its transpiration part; the sowing day zeroes all three, harvest records them and zeroes ETAG/TRAG
   (DayWaterModel.season_reset).  [season_stmt] (EvatraProofs.v) is the conjunction of: (1) if every day books
   0 <= transpiration <= actual <= potential, every crop record has 0 <= TraG <= ETaG <= ETcG, for every sequence of days,
   sowings and harvests; (2) a day of Evatra + k Water sub-steps of length 1/k is such a day (from C08_booked_le_pet);
   (3) the joint reset at sowing is needed: if only ETC0 is zeroed there, a fallow day followed by sowing, one day of
   growth and harvest gives ETaG > ETcG *)
Theorem C08_season_aet_le_pet : season_stmt.
Proof. exact season_stmt_lemma. Qed.

(* the evaporative flux through the soil surface is at most the actual evaporation when the rain + irrigation amount
   handed to Evatra is non-negative (EVA = ETA - REGEN, FLUSS0 = -EVA) *)
Theorem C08_surface_flux : forall x : evatra_in (T:=R),
  let o := evatra_struct x in
  eo_eva o = eo_eta o - ei_regen x /\ eo_fluss0 o = - eo_eva o /\
  (0 <= ei_regen x -> - eo_fluss0 o <= eo_eta o).
Proof. exact surface_flux_lemma. Qed.

(* the stress ratios: ETREL in [0,1] whenever it is assigned (crop branch; unchanged on bare soil);
   TRREL in [0,1] when TRAMAX > 0, unchanged when TRAMAX <= 0 in the crop branch, 1 on bare soil *)
Theorem C08_ratios : forall x : evatra_in (T:=R), evatra_wf x ->
  let o := evatra_struct x in
  (ei_crop x = true -> 0 <= eo_etrel o <= 1) /\ (ei_crop x = false -> eo_etrel o = ei_etrel x) /\
  (ei_crop x = true -> 0 < eo_tramax o -> 0 <= eo_trrel o <= 1) /\
  (ei_crop x = true -> eo_tramax o <= 0 -> eo_trrel o = ei_trrel x) /\
  (ei_crop x = false -> eo_trrel o = 1).
Proof. exact ratios_lemma. Qed.

(* non-vacuity: a 3-layer crop state with roots in two layers satisfies the hypotheses *)
Example C08_nonvacuous :
  evatra_wf {| ei_crop := true; ei_verdu := 4/10; ei_elai := 1/2; ei_expw := (1 :: 1/2 :: 1/4 :: nil);
               ei_regen := 0; ei_wg0 := (2/10 :: 2/10 :: 2/10 :: nil); ei_wmin := (1/10 :: 1/10 :: 1/10 :: nil);
               ei_w := (3/10 :: 3/10 :: 3/10 :: nil); ei_wnor := (3/10 :: 3/10 :: 3/10 :: nil);
               ei_porges := (4/10 :: 4/10 :: 4/10 :: nil); ei_wurz := 2; ei_wudich := (2 :: 1 :: 0 :: nil);
               ei_grw := 20; ei_lukrit := 8/100; ei_lumday := 0; ei_lured := 1; ei_etrel := 1; ei_trrel := 1 |}.
Proof. exact C08_example_wf. Qed.

(* ------------------------------------------------------------------------------------------------ *)
(* The potential evapotranspiration BEFORE the cap (Et0Model: the five ETpot methods of water.go:132-468,
   stomat and solar.go, with math.Exp/Log/Sin/Cos/Tan/Asin/Acos/Pow as an explicit record O of functions). *)

(* whatever the formulas and the transcendental functions return, Evatra continues with a value in
   [0, 0.65] (crop) / [0, 0.6] (bare soil) *)
Theorem C08_pet_in_range : forall (O : Orc R) (K : Consts R) (x : et0_in (T:=R)),
  0 <= @pot_cap R RNum (ti_crop x) (to_precap (@et0_struct R RNum O K x)) <= cap_of (ti_crop x).
Proof. exact pet_in_range. Qed.

(* method by method (Haude; reference ET from the file; Turc-Wendling with measured radiation; Turc-Wendling
   with radiation from sunshine hours, given EXT >= 0; Priestley-Taylor; Penman-Monteith), in the documented
   physical domain the value is non-negative already before the floor; the last two floor their reference ET
   themselves and need no fact about the functions.  [methods_nonneg_stmt] (Et0Proofs.v) is the conjunction of
   the six statements. *)
Theorem C08_et0_methods_nonneg : methods_nonneg_stmt.
Proof. exact methods_nonneg_lemma. Qed.

(* all methods at once; inside the domain and below the cap the cap/floor step is the identity *)
Theorem C08_et0_all_methods_nonneg : forall (O : Orc R) (K : Consts R) (x : et0_in (T:=R)),
  et0_domain O K x -> 0 <= to_precap (@et0_struct R RNum O K x).
Proof. exact et0_struct_nonneg. Qed.

Theorem C08_pet_unchanged_below_cap : forall (O : Orc R) (K : Consts R) (x : et0_in (T:=R)),
  et0_domain O K x -> to_precap (@et0_struct R RNum O K x) <= cap_of (ti_crop x) ->
  @pot_cap R RNum (ti_crop x) (to_precap (@et0_struct R RNum O K x)) = to_precap (@et0_struct R RNum O K x).
Proof. exact pet_unchanged_below_cap. Qed.

(* the domain bound -22 degC of Turc-Wendling is needed: at -30 degC the formula is negative (this was F8);
   the floor of the cap/floor step makes the day's potential ET 0 *)
Theorem C08_pot_nonneg_refuted : forall (O : Orc R) (K : Consts R),
  to_precap (@et0_struct R RNum O K turc_witness) < 0 /\
  @pot_cap R RNum true (to_precap (@et0_struct R RNum O K turc_witness)) = 0.
Proof. exact pot_nonneg_refuted. Qed.

(* the true functions: exp > 0, pow(v,2) > 0 for v <> 0, pow(v,w) > 0 for v > 0; the extraterrestrial radiation
   of solar.go is >= 0 for the true sin/cos/tan/acos and the exact constants at every latitude strictly between
   the poles on every day; hence Turc-Wendling without measured radiation is complete for them *)
Theorem C08_et0_true_functions : true_functions_stmt.
Proof. exact true_functions_lemma. Qed.

(* definedness of the combination formulas: the divisor of Priestley-Taylor and of Penman-Monteith, the slope of
   the saturation curve and the psychrometer term are positive (TEMP <> -237.3 degC, altitude < 45077 m, functions
   with the three facts above; RSURF >= 0 is a hypothesis: constant without CO2 response, stomat's result with it);
   the wind speed Penman-Monteith uses is at least 0.5 m/s whatever was measured *)
Theorem C08_et0_definedness : definedness_stmt.
Proof. exact definedness_lemma. Qed.

Example C08_et0_domain_nonvacuous : forall (O : Orc R) (K : Consts R),
  et0_domain O K
    {| ti_crop := true; ti_meth := 3; ti_tag := 180; ti_lat := 52; ti_alti := 50; ti_kcoa := 1; ti_fkc := 11 / 10; ti_fkb := 4 / 10;
       ti_fkf := nil; ti_fku := nil; ti_verd := 8; ti_temp := 18; ti_tmin := 12; ti_tmax := 24; ti_rad := 10; ti_sund := 9;
       ti_rh := 70; ti_wind := 3; ti_windhi := 2; ti_etnull := 4; ti_ctrans := true; ti_co2meth := 2; ti_co2konz := 400;
       ti_mintmp := 4; ti_alph := 40; ti_satbeta := 25 / 10; ti_radsum := 0; ti_rstom := 100; ti_et0 := 0; ti_satdef := 0 |}.
Proof. exact et0_domain_example. Qed.

Print Assumptions C08_pot_cap.
Print Assumptions C08_pot_cap_binary64.
Print Assumptions C08_proz_range.
Print Assumptions C08_redev_range.
Print Assumptions C08_aet_le_pet.
Print Assumptions C08_tp_initial.
Print Assumptions C08_redistribute.
Print Assumptions C08_redistribute_in_evatra.
Print Assumptions C08_uptake_zone.
Print Assumptions C08_uptake_avail.
Print Assumptions C08_booked_le_pet.
Print Assumptions C08_season_aet_le_pet.
Print Assumptions C08_surface_flux.
Print Assumptions C08_ratios.
Print Assumptions C08_pet_in_range.
Print Assumptions C08_et0_methods_nonneg.
Print Assumptions C08_et0_true_functions.
Print Assumptions C08_et0_definedness.
Print Assumptions C08_et0_all_methods_nonneg.
Print Assumptions C08_pet_unchanged_below_cap.
Print Assumptions C08_pot_nonneg_refuted.
