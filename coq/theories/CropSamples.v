(* CropSamples.v — a small complete classic crop parameter file (2 organs, 2 stages) used by the
   non-vacuity examples of Prop_C13 and Prop_C18. *)
From Coq Require Import ZArith List Bool Ascii String.
From Hermes Require Import DateModel.
Import ListNotations.
Local Open Scope Z_scope.

(* a small complete classic file: 2 organs, 2 stages *)
Definition pad65 (s : string) : lstr := let l := lstr_of s in l ++ repeat "."%char (65 - List.length l).
Definition fl (label value : string) : lstr := pad65 label ++ lstr_of value.
Definition colsline (label : string) (vals : list string) : lstr :=
  let l := lstr_of label in
  l ++ repeat "."%char (32 - List.length l) ++
  List.concat (map (fun v => " "%char :: lstr_of v ++ lstr_of "..") vals).
Definition stage_lines (k : string) (t : string) (pro dead : list string) : list lstr :=
  [pad65 ("-------- phase " ++ k); fl "tsum" t; fl "bas" "   4"; fl "vern" "   0"; fl "dayl" "   0"; fl "dlbas" "   0";
   fl "dry" "   0.7"; fl "lukrit" "   0.08"; fl "sla" "   0.002"; fl "wgmax" "   0.02";
   colsline "pro" pro; colsline "dead" dead; fl "kc" "   0.9"]%string.
Definition sample_lines : list lstr :=
  [lstr_of "crop model values"; lstr_of "crop: sample"; lstr_of "no";
   fl "amax" "   40"; fl "typ" "   1"; fl "mintmp" "   4"; fl "wumax" "   12"; fl "veloc" "   0.7"; fl "ngefkt" "   1";
   fl "ago" "   2"; fl "yield" "2.85"; fl "nbiom" "   6.0"; fl "nroot" "   2.0"; fl "nrkom" "   2";
   lstr_of "compartments   root leaf"; colsline "weights" ["00053"; "00053"]; colsline "maint" ["0.010"; "0.030"];
   fl "kcini" "   0.65"; fl "stages" "   2"]%string
  ++ stage_lines "1" "   148" ["0.500"; "0.500"]%string ["0.000"; "0.000"]%string
  ++ stage_lines "2" "   284" ["0.000"; "1.000"]%string ["0.000"; "0.020"]%string.

