(* Prop_C07.v — property C07 (nitrogen pools stay non-negative, organic/fertiliser bookkeeping is exact),
   stated about NitroModel read over the reals. *)
From Coq Require Import ZArith Reals List Bool Lra.
From Hermes Require Import Num RUtil NitroModel NitroProofs NitroRun NitroRates SoilTempModel SoilTempProofs CrossC07C19.
Local Open Scope R_scope.

(* what mineralisation removes from an organic pool is exactly what its counter gains (both temperature
   branches); the dissolved-fertiliser and nitrified-ammonium sums grow by exactly the dissolved amounts *)
Theorem C07_mineral_books : forall z (l : mineral_layer_in (T:=R)) (g : mineral_glob (T:=R)),
  let '(o, g') := mineral_layer z l g in
  mo_naos o + mo_minaos o = ml_naos l + ml_minaos l /\
  mo_nfos o + mo_minfos o = ml_nfos l + ml_minfos l /\
  mo_naos o <= ml_naos l /\ mo_nfos o <= ml_nfos l /\
  mg_ums g' = mg_ums g + mo_dums o /\ mg_nh4ums g' = mg_nh4ums g + mo_dnh4ums o /\
  mg_dsumm g' = mg_dsumm g /\ mg_nh4sum g' = mg_nh4sum g /\
  mo_dn o = (mo_minaos o - ml_minaos l) + (mo_minfos o - ml_minfos l) + mo_dums o
            - (mg_n2onitsum g' - mg_n2onitsum g).
Proof. exact mineral_layer_books. Qed.

(* organic pools stay non-negative as long as the daily rate constants (oracle values kt0, kt1) are at most 1 *)
Theorem C07_pools_nonneg : forall z (l : mineral_layer_in (T:=R)) (g : mineral_glob (T:=R)),
  0 <= ml_naos l -> 0 <= ml_nfos l ->
  0 <= 4000000000 * ml_e0 l <= 1 -> 0 <= 5600000000000 * ml_e1 l <= 1 ->
  let '(o, g') := mineral_layer z l g in 0 <= mo_naos o /\ 0 <= mo_nfos o.
Proof. exact mineral_layer_nonneg. Qed.

(* ... and that hypothesis holds for the TRUE exponential at every soil temperature up to 60 degC (the oracle values
   are exp(-8400/(T+273.16)) and exp(-9800/(T+273.16)), nitro.go:600-602; C19 keeps the soil temperature inside the
   air/surface extremes); at 65 degC the fast pool's constant exceeds 1 *)
Theorem C07_pools_nonneg_true_exp : forall z (l : mineral_layer_in (T:=R)) (g : mineral_glob (T:=R)),
  0 <= ml_naos l -> 0 <= ml_nfos l ->
  -273 < ml_tempbo l -> ml_tempbo l <= 60 ->
  ml_e0 l = exp (-8400 / (ml_tempbo l + 273.16)) -> ml_e1 l = exp (-9800 / (ml_tempbo l + 273.16)) ->
  let '(o, g') := mineral_layer z l g in 0 <= mo_naos o /\ 0 <= mo_nfos o.
Proof. exact pools_nonneg_true_exp. Qed.

(* composed with C19: in any run whose imposed surface values, TBASE and start profile lie in [lo, hi] with
   -273 < lo and hi <= 60 degC, the temperature mineral() uses for layer z on the run's last day (hence, the list of
   days being arbitrary, on EVERY day), (TD[z] + TD[z-1]) / 2, gives rate constants in [0, 1]: the hypothesis of
   C07_pools_nonneg holds throughout the run *)
Theorem C07_rates_bounded_in_run : forall (days : list (day_in R)) (t0 : list R) (tbase lo hi : R),
  Forall (fun d => alphas_ok d /\ d_tbase d = tbase) days ->
  within lo hi t0 -> lo <= tbase <= hi ->
  within lo hi (snd (run days t0)) ->
  -273 < lo -> hi <= 60 ->
  let td := fst (run days t0) in
  forall z, (1 <= z)%nat -> (z < length td)%nat ->
    let tb := (nth z td 0 + nth (z - 1) td 0) / 2 in
    0 <= 4000000000 * exp (-8400 / (tb + 273.16)) <= 1 /\
    0 <= 5600000000000 * exp (-9800 / (tb + 273.16)) <= 1.
Proof. exact rates_bounded_in_run. Qed.

Theorem C07_rate_above_one_at_65 : 1 < 5600000000000 * exp (-9800 / (65 + 273.16)).
Proof. exact kt1_true_gt_1_at_65. Qed.

(* dissolved fertiliser moves towards, and never beyond, fertiliser applied (warm branch: MIRED is clamped to [0,1]) *)
Theorem C07_dissolved_le_applied : forall z (l : mineral_layer_in (T:=R)) (g : mineral_glob (T:=R)),
  0 <= mg_ums g <= mg_dsumm g -> 0 < ml_tempbo l ->
  let '(o, g') := mineral_layer z l g in mg_ums g <= mg_ums g' <= mg_dsumm g.
Proof. exact ums_bounded_lemma. Qed.

(* the frozen branch too, given WMIN < WRED in the top layer — what C15 establishes on every parameter route
   (C15_wred_between_file_route, _fraction, _restore and the generated table check) *)
Theorem C07_dissolved_le_applied_frozen : forall z (l : mineral_layer_in (T:=R)) (g : mineral_glob (T:=R)),
  0 <= mg_ums g <= mg_dsumm g -> ml_tempbo l <= 0 ->
  ml_wmin l < mg_wred g ->
  let '(o, g') := mineral_layer z l g in mg_ums g <= mg_ums g' <= mg_dsumm g /\ mg_dsumm g' = mg_dsumm g.
Proof. exact ums_bounded_frozen. Qed.

(* EVERY reachable state of a run: whatever sequence of fertiliser events (mineral part >= 0), mineralisation calls
   (any layer, either temperature branch) and measurement overwrites / run starts (both totals reset) a run performs,
   dissolved fertiliser stays between 0 and fertiliser applied *)
Theorem C07_dissolved_le_applied_run : forall (ops : list nop) (g : mineral_glob (T:=R)),
  totals_inv g -> ops_ok g ops -> totals_inv (fold_left nstep ops g).
Proof. exact run_totals_inv. Qed.

(* the ammonium pair of the same clause, over a whole run: whatever sequence of fertiliser events (mineral and ammonium parts >= 0),
   mineralisation calls and measurement days a run performs, BOTH pairs keep their order: 0 <= dissolved <= applied and
   0 <= nitrified ammonium <= ammonium applied (so the daily nitrification and the N2O amounts it feeds are never negative) *)
Theorem C07_nitrified_le_ammonium_run : forall (ops : list nop4) (g : mineral_glob (T:=R)),
  totals_inv g /\ nh4_inv g -> ops4_ok g ops ->
  totals_inv (fold_left nstep4 ops g) /\ nh4_inv (fold_left nstep4 ops g).
Proof. exact run4_inv. Qed.

(* ... and the measurement day has to treat the two members of the ammonium pair alike: resetting the applied amount alone
   leaves the nitrified amount above it (the shape of seeded change C07-18) *)
Theorem C07_reset_ammonium_applied_only_refuted :
  exists g : mineral_glob (T:=R), totals_inv g /\ nh4_inv g /\ ~ nh4_inv (set_nh4sum g 0).
Proof. exact reset_nh4sum_only_refuted. Qed.

(* the cumulative N2O counter fed by nitrification never decreases over any such run whose mineralisation calls see a water content
   between 0 and the pore volume (so it is never negative from a start at 0), and the day's N2O amount of every call is >= 0 -
   'all cumulative N counters are finite and never negative' for the counter the one-sided reset of C07-18 drove below zero *)
Theorem C07_n2o_counter_monotone_run : forall (ops : list nop4) (g : mineral_glob (T:=R)),
  totals_inv g /\ nh4_inv g -> ops4_ok g ops -> Forall op4_wet_ok ops ->
  mg_n2onitsum g <= mg_n2onitsum (fold_left nstep4 ops g).
Proof. exact run4_n2o. Qed.

Example C07_run_nonvacuous :
  let g := {| mg_wred := 2/10; mg_porges0 := 4/10; mg_dsumm := 0; mg_ums := 0; mg_nh4sum := 0; mg_nh4ums := 0;
              mg_n2onitsum := 0; mg_n2onitdaily := 0; mg_minsum := 0 |} in
  totals_inv g /\ ops_ok g (OpFert 80 :: OpReset :: OpFert 40 :: nil).
Proof. cbv zeta. unfold totals_inv. cbn. repeat split; lra. Qed.

(* crop N uptake and fixation are credited on the first sub-step of a day and on no other:
   on sub-step 1 the uptake counters grow by exactly the (clamped) layer uptakes and the crop N sum additionally by
   the day's fixation while a crop grows; on every later sub-step both are unchanged *)
Theorem C07_credited_once : forall (x : nmove_in (T:=R)),
  let o := nmove x in
  (ni_subd1 x = true ->
     no_aufnasum o - ni_aufnasum x = Rsum (no_pe o) /\
     no_pesum o - ni_pesum x = Rsum (no_pe o) + (if ni_growing x then ni_schnorr x else 0)) /\
  (ni_subd1 x = false -> no_aufnasum o = ni_aufnasum x /\ no_pesum o = ni_pesum x).
Proof. exact uptake_once_lemma. Qed.

(* mineral N per layer never becomes negative in the transport step *)
Theorem C07_mineral_n_nonneg : forall (x : nmove_in (T:=R)) (n : nat),
  nmove_wf x n -> forall z, (z < n)%nat -> 0 <= get 0 (nm_c1 x) z.
Proof. exact c1_nonneg_lemma. Qed.

(* tillage mixing preserves every organic pool and every mineralised-amount counter summed over the mixing
   depth, for any whole number m >= 1 of mixed layers (the code mixes round(depth/10) layers) *)
Theorem C07_tillage_mixing_conserves : forall (pool : list R) (m : nat),
  (1 <= m <= length pool)%nat -> Rsum (@mix_pool R RNum (INR m) m pool) = Rsum pool.
Proof. exact mix_pool_conserves. Qed.

Print Assumptions C07_mineral_books.
Print Assumptions C07_tillage_mixing_conserves.
Print Assumptions C07_pools_nonneg.
Print Assumptions C07_pools_nonneg_true_exp.
Print Assumptions C07_rate_above_one_at_65.
Print Assumptions C07_rates_bounded_in_run.
Print Assumptions C07_dissolved_le_applied.
Print Assumptions C07_dissolved_le_applied_frozen.
Print Assumptions C07_dissolved_le_applied_run.
Print Assumptions C07_nitrified_le_ammonium_run.
Print Assumptions C07_reset_ammonium_applied_only_refuted.
Print Assumptions C07_n2o_counter_monotone_run.
Print Assumptions C07_credited_once.
Print Assumptions C07_mineral_n_nonneg.
