(* WeatherTokProofs.v — lemmas about WeatherTokModel: a line/file produced by the printers below
   (any separator runs, any accepted spelling of a decimal number, LF or CRLF) is read back as the
   record it was printed from; a line with too few fields or a non-numeric field never yields a
   record; witnesses for the lines that ARE read as a shifted record. *)
From Coq Require Import ZArith List Bool Ascii String Lia.
From Hermes Require Import Num Util Calendar DateModel DateProofs WeatherModel WeatherTokModel.
Import ListNotations.
Open Scope Z_scope.

(* ------------------------------------------------------------------ *)
(* A. Explode                                                           *)

Section Explode.
  Variable seps : list ascii.

  Definition sepfree (t : str) : Prop := forallb (fun c => negb (is_sep seps c)) t = true.
  Definition allsep (s : str) : Prop := forallb (is_sep seps) s = true.

  Lemma explode_aux_tok t : forall cur rest,
    sepfree t -> explode_aux seps cur (t ++ rest) = explode_aux seps (rev t ++ cur) rest.
  Proof.
    induction t as [|c t IH]; intros cur rest H; [reflexivity|].
    cbn in H. apply andb_true_iff in H as [Hc Ht]. apply negb_true_iff in Hc.
    cbn [app explode_aux]. rewrite Hc. rewrite IH by exact Ht. cbn [rev]. rewrite <- app_assoc. reflexivity.
  Qed.

  Lemma explode_aux_seps s : forall rest,
    allsep s -> explode_aux seps [] (s ++ rest) = explode_aux seps [] rest.
  Proof.
    induction s as [|c s IH]; intros rest H; [reflexivity|].
    cbn in H. apply andb_true_iff in H as [Hc Hs]. cbn [app explode_aux]. rewrite Hc. apply IH. exact Hs.
  Qed.

  Lemma explode_aux_close cur s rest :
    cur <> [] -> s <> [] -> allsep s ->
    explode_aux seps cur (s ++ rest) = rev cur :: explode_aux seps [] rest.
  Proof.
    intros Hc Hs Ha. destruct s as [|c s]; [contradiction|].
    cbn in Ha. apply andb_true_iff in Ha as [H1 H2]. cbn [app explode_aux]. rewrite H1.
    destruct cur; [contradiction|]. f_equal. apply explode_aux_seps. exact H2.
  Qed.

  (* a printed line: tokens, each followed by its run of separator characters *)
  Definition print_toks (toks : list (str * str)) : str := flat_map (fun p => fst p ++ snd p) toks.

  Definition tok_ok (t : str) : Prop := t <> [] /\ sepfree t.

  (* every token non-empty and free of separators, every separator run non-empty except possibly
     the one after the last token *)
  Fixpoint wf_toks (toks : list (str * str)) : Prop :=
    match toks with
    | [] => True
    | (t, s) :: r => tok_ok t /\ allsep s /\ (r <> [] -> s <> []) /\ wf_toks r
    end.

  Lemma explode_print_aux toks : wf_toks toks -> explode_aux seps [] (print_toks toks) = map fst toks.
  Proof.
    induction toks as [|[t s] r IH]; intros W; [reflexivity|].
    destruct W as ((Ht & Hf) & Hs & Hn & Wr).
    unfold print_toks. cbn [flat_map fst snd map]. rewrite <- app_assoc.
    rewrite explode_aux_tok by exact Hf. rewrite app_nil_r.
    destruct r as [|p r'].
    - cbn [flat_map]. rewrite app_nil_r.
      destruct s as [|c s].
      + cbn [explode_aux]. destruct (rev t) eqn:E; [|rewrite <- E, rev_involutive; reflexivity].
        apply (f_equal (@rev ascii)) in E. rewrite rev_involutive in E. contradiction.
      + replace (c :: s) with ((c :: s) ++ []) by apply app_nil_r.
        rewrite explode_aux_close; auto; try discriminate.
        * rewrite rev_involutive. reflexivity.
        * intros E. apply (f_equal (@rev ascii)) in E. rewrite rev_involutive in E. contradiction.
    - rewrite explode_aux_close; auto.
      + rewrite rev_involutive. f_equal. apply IH. exact Wr.
      + intros E. apply (f_equal (@rev ascii)) in E. rewrite rev_involutive in E. contradiction.
      + apply Hn. discriminate.
  Qed.

  (* Explode inverts the printer, whatever separator runs (also leading ones) were used *)
  Lemma explode_print lead toks :
    allsep lead -> wf_toks toks -> explode seps (lead ++ print_toks toks) = map fst toks.
  Proof. intros Hl W. unfold explode. rewrite explode_aux_seps by exact Hl. apply explode_print_aux. exact W. Qed.

  (* an EMPTY field cannot be expressed: the line with one token blanked explodes to the other
     tokens — one fewer, the later ones shifted to the left *)
  Lemma explode_drops_empty lead a t s b :
    allsep lead -> wf_toks (a ++ (t, s) :: b) -> s <> [] ->
    explode seps (lead ++ print_toks a ++ s ++ print_toks b) = map fst a ++ map fst b.
  Proof.
    intros Hl W Hs. unfold explode. rewrite explode_aux_seps by exact Hl.
    revert W. induction a as [|[t1 s1] a IH]; intros W.
    - cbn [app print_toks flat_map map] in *. destruct W as (_ & Ha & _ & Wb).
      rewrite explode_aux_seps by exact Ha. apply explode_print_aux. exact Wb.
    - cbn [app] in W. destruct W as ((Ht & Hf) & Hs1 & Hn & Wr).
      unfold print_toks. cbn [flat_map fst snd map app]. rewrite <- !app_assoc.
      rewrite explode_aux_tok by exact Hf. rewrite app_nil_r.
      rewrite explode_aux_close; auto.
      + rewrite rev_involutive. f_equal. fold (print_toks a). fold (print_toks b).
        rewrite app_assoc. rewrite <- app_assoc. apply IH. exact Wr.
      + intros E. apply (f_equal (@rev ascii)) in E. rewrite rev_involutive in E. contradiction.
      + apply Hn. destruct a; discriminate.
  Qed.
End Explode.

(* ------------------------------------------------------------------ *)
(* B. numbers                                                           *)

Definition alldig (s : str) : Prop := forallb is_digit s = true.

Fixpoint dnum (acc : Z) (s : str) : Z :=
  match s with
  | [] => acc
  | c :: r => dnum (acc * 10 + match digit_val c with Some d => d | None => 0 end) r
  end.

Lemma parse_digits_alldig s : forall acc, alldig s -> parse_digits acc s = Some (dnum acc s).
Proof.
  induction s as [|c s IH]; intros acc H; [reflexivity|].
  cbn in H. apply andb_true_iff in H as [Hc Hs]. unfold is_digit in Hc.
  cbn [parse_digits dnum]. destruct (digit_val c); [|discriminate]. apply IH. exact Hs.
Qed.

Lemma alldig_app a b : alldig a -> alldig b -> alldig (a ++ b).
Proof. unfold alldig. intros Ha Hb. rewrite forallb_app, Ha, Hb. reflexivity. Qed.

Lemma digit_plain c : is_digit c = true -> plain_char c = true.
Proof. intros H. unfold plain_char. rewrite H. reflexivity. Qed.

Lemma digit_not_dot c : is_digit c = true -> ch_eqb c "."%char = false.
Proof. destruct c as [[] [] [] [] [] [] [] []]; vm_compute; congruence. Qed.
Lemma digit_not_sign c : is_digit c = true -> ch_eqb c "-"%char = false /\ ch_eqb c "+"%char = false.
Proof. destruct c as [[] [] [] [] [] [] [] []]; vm_compute; split; congruence. Qed.

Lemma plain_not_space c : plain_char c = true -> is_space c = false.
Proof. destruct c as [[] [] [] [] [] [] [] []]; vm_compute; congruence. Qed.

Lemma split_dot_digits ip : alldig ip -> forall rest,
  split_dot (ip ++ "."%char :: rest) = (ip, Some rest) /\ split_dot ip = (ip, None).
Proof.
  induction ip as [|c ip IH]; intros H rest.
  - split; reflexivity.
  - cbn in H. apply andb_true_iff in H as [Hc Hs]. cbn [app split_dot].
    rewrite (digit_not_dot c Hc). destruct (IH Hs rest) as [E1 E2]. rewrite E1, E2. split; reflexivity.
Qed.

(* a decimal literal as strconv reads it: optional sign, integer digits, optional point with
   fraction digits; at least one digit *)
Record dlit := mkd { d_sign : option bool (* Some true = '-' *); d_int : str; d_frac : option str }.

Definition d_fr (d : dlit) : str := match d_frac d with Some f => f | None => [] end.

Definition dlit_ok (d : dlit) : Prop :=
  alldig (d_int d) /\ alldig (d_fr d) /\ (d_int d <> [] \/ d_fr d <> []).

Definition print_sign (o : option bool) : str :=
  match o with Some true => ["-"%char] | Some false => ["+"%char] | None => [] end.

Definition print_dlit (d : dlit) : str :=
  print_sign (d_sign d) ++ d_int d ++ match d_frac d with Some f => "."%char :: f | None => [] end.

Section DVal.
  Context {T : Type} {NT : Num T}.
  Definition dval (d : dlit) : T :=
    let v := Num.dec (dnum 0 (d_int d ++ d_fr d)) (List.length (d_fr d)) in
    match d_sign d with Some true => opp v | _ => v end.

  (* the exact path of strconv: at most 2^53 as an integer, at most 22 fraction digits *)
  Definition dlit_small (d : dlit) : Prop :=
    dnum 0 (d_int d ++ d_fr d) < 2 ^ 53 /\ (List.length (d_fr d) <= 22)%nat.

  Lemma print_dlit_plain d : dlit_ok d -> forallb plain_char (print_dlit d) = true /\ print_dlit d <> [].
  Proof.
    intros (Hi & Hf & Hne). unfold print_dlit. split.
    - rewrite !forallb_app. apply andb_true_iff. split; [destruct (d_sign d) as [[]|]; reflexivity|].
      apply andb_true_iff. split.
      + apply forallb_forall. intros c Hc. apply digit_plain. unfold alldig in Hi. rewrite forallb_forall in Hi. auto.
      + unfold d_fr in Hf. destruct (d_frac d) as [f|]; [|reflexivity]. cbn.
        apply forallb_forall. intros c Hc. apply digit_plain. unfold alldig in Hf. rewrite forallb_forall in Hf. auto.
    - unfold d_fr in Hne. destruct (d_sign d) as [[]|]; cbn; try discriminate.
      destruct (d_int d); [|discriminate]. destruct (d_frac d); [discriminate|]. destruct Hne; contradiction.
  Qed.

  Lemma split_sign_print d : dlit_ok d ->
    split_sign (print_dlit d) =
      (match d_sign d with Some true => true | _ => false end,
       d_int d ++ match d_frac d with Some f => "."%char :: f | None => [] end).
  Proof.
    intros (Hi & Hf & Hne). unfold print_dlit. destruct (d_sign d) as [[]|]; cbn [print_sign app]; try reflexivity.
    (* no sign: the first character is a digit or the point *)
    destruct (d_int d) as [|c r] eqn:E.
    - cbn [app]. destruct (d_frac d) as [f|]; reflexivity.
    - cbn in Hi. apply andb_true_iff in Hi as [Hc _]. cbn [app split_sign].
      destruct (digit_not_sign c Hc) as [A B]. rewrite A, B. reflexivity.
  Qed.

  Lemma parse_plain_print d : dlit_ok d -> dlit_small d -> parse_plain (print_dlit d) = FOk (dval d).
  Proof.
    intros Hok (Hm & Hk). pose proof Hok as (Hi & Hf & Hne).
    unfold parse_plain. rewrite split_sign_print by exact Hok.
    assert (S : split_dot (d_int d ++ match d_frac d with Some f => "."%char :: f | None => [] end) = (d_int d, d_frac d)).
    { destruct (d_frac d) as [f|].
      - apply (split_dot_digits (d_int d) Hi f).
      - rewrite app_nil_r. apply (split_dot_digits (d_int d) Hi []). }
    rewrite S. fold (d_fr d).
    assert (Hall : alldig (d_int d ++ d_fr d)) by (apply alldig_app; assumption).
    unfold digits_val. rewrite (parse_digits_alldig _ 0 Hall).
    replace (dnum 0 (d_int d ++ d_fr d) <? 2 ^ 53) with true by (symmetry; apply Z.ltb_lt; exact Hm).
    replace (Nat.leb (List.length (d_fr d)) 22) with true by (symmetry; apply Nat.leb_le; exact Hk).
    cbn [andb]. unfold dval.
    destruct (d_int d) as [|c r]; destruct (d_fr d) as [|c' r'];
      try (destruct Hne; contradiction); destruct (d_sign d) as [[]|]; reflexivity.
  Qed.

  Lemma parse_float_print d : dlit_ok d -> dlit_small d -> parse_float (print_dlit d) = FOk (dval d).
  Proof.
    intros Hok Hs. destruct (print_dlit_plain d Hok) as [Hp Hne]. unfold parse_float.
    destruct (print_dlit d) eqn:E; [contradiction|]. rewrite <- E in *. rewrite Hp. apply parse_plain_print; assumption.
  Qed.

  (* a field with a character no float spelling uses is a parse error *)
  Lemma nonnumeric_err (t : str) :
    t <> [] -> existsb (fun c => negb (float_char c)) t = true -> parse_float (T:=T) t = FErr.
  Proof.
    intros Hne H. unfold parse_float. destruct t as [|c r]; [contradiction|].
    apply existsb_exists in H as (x & Hx & Hf). apply negb_true_iff in Hf.
    assert (A : forallb float_char (c :: r) = false).
    { apply not_true_is_false. intros K. rewrite forallb_forall in K. rewrite (K x Hx) in Hf. discriminate. }
    assert (B : forallb plain_char (c :: r) = false).
    { apply not_true_is_false. intros K. rewrite forallb_forall in K.
      assert (P : plain_char x = true) by (apply K; exact Hx).
      unfold float_char in Hf. rewrite P in Hf. discriminate. }
    rewrite B, A. reflexivity.
  Qed.

  Lemma empty_err : parse_float (T:=T) [] = FErr.
  Proof. reflexivity. Qed.
End DVal.

(* TrimSpace removes the padding around a token that starts and ends with a non-space character *)
Definition allspace (p : str) : Prop := forallb is_space p = true.
Definition nospace_ends (t : str) : Prop :=
  match t with c :: _ => is_space c = false | [] => False end /\
  match rev t with c :: _ => is_space c = false | [] => False end.

Lemma ltrim_spaces p r : allspace p -> ltrim (p ++ r) = ltrim r.
Proof.
  induction p as [|c p IH]; intros H; [reflexivity|]. cbn in H. apply andb_true_iff in H as [Hc Hp].
  cbn [app ltrim]. rewrite Hc. apply IH. exact Hp.
Qed.

Lemma trim_pad p1 t p2 : nospace_ends t -> allspace p1 -> allspace p2 -> trim (p1 ++ t ++ p2) = t.
Proof.
  intros [H1 H2] A1 A2. unfold trim. rewrite ltrim_spaces by exact A1.
  destruct t as [|c r]; [contradiction|]. cbn [app ltrim]. rewrite H1.
  change (c :: r ++ p2) with ((c :: r) ++ p2). rewrite rev_app_distr.
  assert (A2' : allspace (rev p2)).
  { unfold allspace in *. apply forallb_forall. intros x Hx. rewrite forallb_forall in A2. apply A2. apply in_rev. exact Hx. }
  rewrite ltrim_spaces by exact A2'.
  destruct (rev (c :: r)) as [|e m] eqn:E; [contradiction|]. cbn [ltrim]. rewrite H2.
  rewrite <- E. apply rev_involutive.
Qed.

Lemma plain_nospace_ends t : t <> [] -> forallb plain_char t = true -> nospace_ends t.
Proof.
  intros Hne H. rewrite forallb_forall in H. split.
  - destruct t as [|c r]; [contradiction|]. apply plain_not_space. apply H. left. reflexivity.
  - destruct (rev t) as [|c r] eqn:E.
    + apply (f_equal (@rev ascii)) in E. rewrite rev_involutive in E. contradiction.
    + apply plain_not_space. apply H. apply in_rev. rewrite E. left. reflexivity.
Qed.

(* ------------------------------------------------------------------ *)
(* C. dates                                                             *)

Definition print_iso (t : date) : str := DateModel.dec (dy t) ++ "-"%char :: pad2 (dm t) ++ "-"%char :: pad2 (dd t).

Lemma parse_int_digit c r : is_digit c = true -> DateModel.parse_int (c :: r) = parse_uint (c :: r).
Proof. destruct c as [[] [] [] [] [] [] [] []]; vm_compute; try congruence; reflexivity. Qed.

Lemma parse_iso_print t :
  1901 <= dy t <= 2099 -> valid_date t = true -> parse_iso (print_iso t) = Some t.
Proof.
  intros Hy Hv. destruct (valid_bounds t Hv) as [Hm Hd].
  destruct (dec4_shape (dy t) Hy) as (c1 & c2 & c3 & c4 & E4 & D1 & _ & _ & _ & P4).
  destruct (pad2_shape (dm t) ltac:(lia)) as (m1 & m2 & Em & M1 & _ & Pm).
  destruct (pad2_shape (dd t) ltac:(lia)) as (d1 & d2 & Ed & Dd1 & _ & Pd).
  unfold print_iso. rewrite E4, Em, Ed. cbn [app parse_iso].
  rewrite parse_int_digit in P4, Pm, Pd by assumption.
  unfold num_of, digits_val. unfold parse_uint in P4, Pm, Pd.
  replace (ch_eqb "-"%char "-"%char) with true by reflexivity. cbn [andb].
  rewrite P4, Pm, Pd. destruct t as [y m d]. cbn [dy dm dd] in *. rewrite Hv. reflexivity.
Qed.

(* %03d *)
Definition pad3 (d : Z) : str :=
  if d <? 10 then "0"%char :: "0"%char :: DateModel.dec d else if d <? 100 then "0"%char :: DateModel.dec d else DateModel.dec d.
Definition print_doy (y d : Z) : str := DateModel.dec y ++ pad3 d.

Definition check_pad3 (a : Z) : bool :=
  match pad3 a with
  | [c1; c2; c3] => match num_of [c1; c2; c3] with Some v => v =? a | None => false end
  | _ => false
  end.
Lemma sweep_pad3 : forallb check_pad3 (zrange 1 366) = true.
Proof. vm_compute. reflexivity. Qed.

Lemma parse_yyyyddd_print y d :
  1901 <= y <= 2099 -> 1 <= d <= ylen y -> parse_yyyyddd (print_doy y d) = Some (y, d).
Proof.
  intros Hy Hd.
  assert (Hl : ylen y <= 366) by (unfold ylen; destruct (leap y); lia).
  destruct (dec4_shape y Hy) as (c1 & c2 & c3 & c4 & E4 & D1 & _ & _ & _ & P4).
  pose proof (zrange_forall _ _ _ sweep_pad3 d ltac:(lia)) as H3. unfold check_pad3 in H3.
  unfold print_doy. rewrite E4.
  destruct (pad3 d) as [|e1 [|e2 [|e3 [|]]]]; try discriminate.
  destruct (num_of [e1; e2; e3]) as [v|] eqn:E3; [|discriminate]. apply Z.eqb_eq in H3. subst v.
  cbn [app parse_yyyyddd]. rewrite E3.
  rewrite parse_int_digit in P4 by assumption. unfold parse_uint in P4. unfold num_of, digits_val. rewrite P4.
  replace ((1 <=? d) && (d <=? ylen y)) with true; [reflexivity|].
  symmetry. apply andb_true_iff. split; apply Z.leb_le; lia.
Qed.

(* ------------------------------------------------------------------ *)
(* D. lines                                                             *)

Lemma nth_error_firstn_lt {A} (l : list A) n i : (i < n)%nat -> nth_error (firstn n l) i = nth_error l i.
Proof.
  revert n i; induction l as [|a l IH]; intros n i H; [destruct n; destruct i; reflexivity|].
  destruct n as [|n]; [lia|]. destruct i as [|i]; [reflexivity|]. cbn. apply IH. lia.
Qed.

Section Lines.
  Context {T : Type} {NT : Num T}.

  (* a value token of the per-year layout: the literal, possibly padded with blanks *)
  Definition padded (x : str * dlit * str) : str := fst (fst x) ++ print_dlit (snd (fst x)) ++ snd x.
  Definition padded_ok (x : str * dlit * str) : Prop :=
    allspace (fst (fst x)) /\ allspace (snd x) /\ dlit_ok (snd (fst x)) /\ dlit_small (snd (fst x)).

  Lemma val_as_float_padded x : padded_ok x -> val_as_float (T:=T) (padded x) = TOk (dval (snd (fst x))).
  Proof.
    intros (A & B & Hok & Hs). unfold val_as_float, padded, trim_space.
    destruct (print_dlit_plain _ Hok) as [Hp Hne].
    rewrite trim_pad; auto; [|apply plain_nospace_ends; assumption].
    rewrite parse_float_print by assumption. reflexivity.
  Qed.

  Lemma parse_all_padded (l : list (str * dlit * str)) :
    Forall padded_ok l -> parse_all (T:=T) (map padded l) = TOk (map (fun x => dval (snd (fst x))) l).
  Proof.
    induction 1 as [|x l Hx Hl IH]; [reflexivity|].
    cbn [map parse_all]. rewrite val_as_float_padded by exact Hx. rewrite IH. reflexivity.
  Qed.

  Lemma parse_int_digits p1 jd p2 :
    allspace p1 -> allspace p2 -> jd <> [] -> alldig jd -> 0 <= dnum 0 jd <= 1000 ->
    WeatherTokModel.parse_int (trim_space (p1 ++ jd ++ p2)) = Some (dnum 0 jd).
  Proof.
    intros A B Hne Hd Hr. unfold trim_space.
    assert (Hp : forallb plain_char jd = true).
    { apply forallb_forall. intros c Hc. apply digit_plain. unfold alldig in Hd. rewrite forallb_forall in Hd. auto. }
    rewrite trim_pad; auto; [|apply plain_nospace_ends; assumption].
    unfold WeatherTokModel.parse_int. destruct jd as [|c r]; [contradiction|].
    assert (Hc : is_digit c = true) by (cbn in Hd; apply andb_true_iff in Hd as [Hc _]; exact Hc).
    unfold split_sign. destruct (digit_not_sign c Hc) as [S1 S2]. rewrite S1, S2.
    unfold digits_val. rewrite (parse_digits_alldig _ 0 Hd).
    replace ((- 2 ^ 63 <=? dnum 0 (c :: r)) && (dnum 0 (c :: r) <=? 2 ^ 63 - 1)) with true; [reflexivity|].
    symmetry. apply andb_true_iff. change (2 ^ 63) with 9223372036854775808. split; apply Z.leb_le; lia.
  Qed.

  (* ---- per-year layout: round trip of one line ---- *)
  Lemma year_line_print lead toks (vals : list (str * dlit * str)) p1 jd p2 Tlast (s : slot T) :
    allsep SEPS_YEAR lead -> wf_toks SEPS_YEAR toks ->
    List.length vals = 10%nat -> Forall padded_ok vals ->
    firstn 10 (map fst toks) = map padded vals ->
    nth_error (map fst toks) 10 = Some (p1 ++ jd ++ p2) ->
    allspace p1 -> allspace p2 -> jd <> [] -> alldig jd ->
    dnum 0 jd = Tlast + 1 -> 0 <= Tlast -> Tlast + 1 <= 366 ->
    year_line (lead ++ print_toks toks) Tlast s
    = TOk (Tlast + 1, put_slot s (s_jar s) (Tlast + 1) (year_rec (map (fun x => dval (snd (fst x))) vals))).
  Proof.
    intros Hl W Hn Hv Hf Hj A B Hne Hd Hval H0 H366.
    unfold year_line. rewrite explode_print by assumption. rewrite Hj.
    rewrite parse_int_digits by (auto; lia). rewrite Hval, Z.eqb_refl. cbn [negb].
    rewrite Hf, parse_all_padded by exact Hv.
    replace (Tlast + 1 >? 366) with false by (symmetry; rewrite Z.gtb_ltb; apply Z.ltb_ge; lia).
    reflexivity.
  Qed.

  (* ---- per-year layout: malformed lines ---- *)
  Lemma year_line_too_few line Tlast (s : slot T) :
    (List.length (explode SEPS_YEAR line) <= 10)%nat -> year_line line Tlast s = TPanic.
  Proof.
    intros H. unfold year_line. replace (nth_error (explode SEPS_YEAR line) 10) with (@None str); [reflexivity|].
    symmetry. apply nth_error_None. exact H.
  Qed.

  Lemma parse_all_fatal (l : list str) t :
    In t l -> parse_float (T:=T) (trim_space t) = FErr -> forall v, parse_all (T:=T) l <> TOk v.
  Proof.
    induction l as [|x l IH]; intros Hin He v; [contradiction|].
    cbn [parse_all]. destruct Hin as [->|Hin].
    - unfold val_as_float. rewrite He. discriminate.
    - destruct (val_as_float x); try discriminate.
      destruct (parse_all l) eqn:E; try discriminate. exfalso. exact (IH Hin He _ eq_refl).
  Qed.

  (* a non-numeric value column never yields a record (log.Fatal, unless an earlier check ends the
     read first) *)
  Lemma year_line_nonnumeric line Tlast (s : slot T) t i :
    (i < 10)%nat -> nth_error (explode SEPS_YEAR line) i = Some t -> parse_float (T:=T) (trim_space t) = FErr ->
    forall x, year_line line Tlast s <> TOk x.
  Proof.
    intros Hi Hn He x. unfold year_line.
    destruct (nth_error (explode SEPS_YEAR line) 10); [|discriminate].
    destruct (WeatherTokModel.parse_int (trim_space s0)); [|discriminate].
    destruct (negb (Tlast + 1 =? z)); [discriminate|].
    assert (Hin : In t (firstn 10 (explode SEPS_YEAR line))).
    { apply nth_error_In with (n := i). rewrite nth_error_firstn_lt by exact Hi. exact Hn. }
    destruct (parse_all (firstn 10 (explode SEPS_YEAR line))) eqn:E; try discriminate.
    exfalso. exact (parse_all_fatal _ t Hin He _ E).
  Qed.

  (* ---- multi-year layouts ---- *)
  Lemma pfield_print (toks : list str) i d :
    nth_error toks i = Some (print_dlit d) -> dlit_ok d -> dlit_small d -> pfield (T:=T) toks i = PV (dval d).
  Proof. intros Hn Hok Hs. unfold pfield. rewrite Hn, parse_float_print by assumption. reflexivity. Qed.

  Lemma collect_PX (l : list (pf (T:=T))) : In PX l -> collect l = TPanic.
  Proof.
    induction l as [|p l IH]; intros H; [contradiction|]. cbn [collect].
    destruct H as [->|H]; [reflexivity|]. rewrite (IH H). destruct p; reflexivity.
  Qed.

  Lemma collect_PE (l : list (pf (T:=T))) : In PE l -> forall v, collect l <> TOk v.
  Proof.
    induction l as [|p l IH]; intros H v; [contradiction|]. cbn [collect].
    destruct H as [->|H].
    - destruct (collect l); discriminate.
    - destruct p; try discriminate; destruct (collect l) eqn:E; try discriminate; exfalso; exact (IH H _ eq_refl).
  Qed.
End Lines.

Section MultiLines.
  Context {T : Type} {NT : Num T}.
  Variable none : T.

  (* header of a CSV file with the eight standard columns in ANY order, any further columns *)
  Definition csv_header (id itmin itavg itmax iprec irad iwind irh : nat) : header :=
    mkh (Some id) None (Some itmin) (Some itavg) (Some itmax) (Some iprec) (Some irad) (Some iwind) (Some irh) None None None.

  Lemma csv_line_print sy lead toks t id itmin itavg itmax iprec irad iwind irh
        dtmin dtavg dtmax dprec drad dwind drh :
    allsep SEPS_CSV lead -> wf_toks SEPS_CSV toks ->
    1901 <= dy t <= 2099 -> valid_date t = true -> sy <= dy t ->
    nth_error (map fst toks) id = Some (print_iso t) ->
    nth_error (map fst toks) itmin = Some (print_dlit dtmin) -> nth_error (map fst toks) itavg = Some (print_dlit dtavg) ->
    nth_error (map fst toks) itmax = Some (print_dlit dtmax) -> nth_error (map fst toks) iprec = Some (print_dlit dprec) ->
    nth_error (map fst toks) irad = Some (print_dlit drad) -> nth_error (map fst toks) iwind = Some (print_dlit dwind) ->
    nth_error (map fst toks) irh = Some (print_dlit drh) ->
    Forall (fun d => dlit_ok d /\ dlit_small d) [dtmin; dtavg; dtmax; dprec; drad; dwind; drh] ->
    csv_line none (csv_header id itmin itavg itmax iprec irad iwind irh) sy (lead ++ print_toks toks)
    = IRec (dy t, doy t, mkw (dval dtavg) (dval dtmin) (dval dtmax) (dval drh) (dval drad) (dval dwind) (dval dprec)) None.
  Proof.
    intros Hl W Hy Hv Hs Nd N1 N2 N3 N4 N5 N6 N7 F.
    repeat match goal with H : Forall _ (_ :: _) |- _ => inversion H; clear H; subst end.
    repeat match goal with H : dlit_ok _ /\ dlit_small _ |- _ => destruct H end.
    unfold csv_line, csv_header. rewrite explode_print by assumption.
    cbn [col h_date_iso h_wind h_prec h_rad h_tmax h_tmin h_tavg h_rh h_sun h_verd opt_field].
    rewrite Nd, parse_iso_print by assumption.
    replace (dy t <? sy) with false by (symmetry; apply Z.ltb_ge; lia).
    rewrite (pfield_print _ iwind dwind), (pfield_print _ iprec dprec), (pfield_print _ irad drad),
            (pfield_print _ itmax dtmax), (pfield_print _ itmin dtmin), (pfield_print _ itavg dtavg),
            (pfield_print _ irh drh) by assumption.
    reflexivity.
  Qed.

  Definition cz_header (id itmin itmax irad iprec iwind irh : nat) : header :=
    mkh None (Some id) (Some itmin) None (Some itmax) (Some iprec) (Some irad) (Some iwind) (Some irh) None None None.

  Lemma cz_line_print sy lead toks y d id itmin itmax irad iprec iwind irh dtmin dtmax drad dprec dwind drh :
    allsep SEPS_CZ lead -> wf_toks SEPS_CZ toks ->
    1901 <= y <= 2099 -> 1 <= d <= ylen y -> sy <= y ->
    nth_error (map fst toks) id = Some (print_doy y d) ->
    nth_error (map fst toks) itmin = Some (print_dlit dtmin) -> nth_error (map fst toks) itmax = Some (print_dlit dtmax) ->
    nth_error (map fst toks) irad = Some (print_dlit drad) -> nth_error (map fst toks) iprec = Some (print_dlit dprec) ->
    nth_error (map fst toks) iwind = Some (print_dlit dwind) -> nth_error (map fst toks) irh = Some (print_dlit drh) ->
    Forall (fun d => dlit_ok d /\ dlit_small d) [dtmin; dtmax; drad; dprec; dwind; drh] ->
    cz_line none (cz_header id itmin itmax irad iprec iwind irh) sy (lead ++ print_toks toks)
    = IRec (cz_rec y d (mkw zero (dval dtmin) (dval dtmax) (dval drh) (dval drad) (dval dwind) (dval dprec))) None.
  Proof.
    intros Hl W Hy Hd Hs Nd N1 N2 N3 N4 N5 N6 F.
    repeat match goal with H : Forall _ (_ :: _) |- _ => inversion H; clear H; subst end.
    repeat match goal with H : dlit_ok _ /\ dlit_small _ |- _ => destruct H end.
    unfold cz_line, cz_header. rewrite explode_print by assumption.
    cbn [col h_date_doy h_wind h_prec h_rad h_tmax h_tmin h_rh h_sun h_verd h_co2 opt_field].
    rewrite Nd, parse_yyyyddd_print by assumption.
    replace (y <? sy) with false by (symmetry; apply Z.ltb_ge; lia).
    rewrite (pfield_print _ iwind dwind), (pfield_print _ iprec dprec), (pfield_print _ irad drad),
            (pfield_print _ itmax dtmax), (pfield_print _ itmin dtmin), (pfield_print _ irh drh) by assumption.
    reflexivity.
  Qed.

  (* too few fields: a required column index beyond the tokens of the line is an index panic (or the
     line is skipped because of its date) — never a record *)
  Lemma csv_line_too_few h sy line i :
    In i [col (h_wind h); col (h_prec h); col (h_tmax h); col (h_tmin h); col (h_tavg h); col (h_rh h)] ->
    (List.length (explode SEPS_CSV line) <= i)%nat ->
    forall r c, csv_line none h sy line <> IRec r c.
  Proof.
    intros Hin Hlen r c. unfold csv_line.
    destruct (nth_error (explode SEPS_CSV line) (col (h_date_iso h))); [|discriminate].
    destruct (parse_iso s); [|discriminate]. destruct (dy d <? sy); [discriminate|].
    rewrite collect_PX; [discriminate|].
    assert (PXi : pfield (T:=T) (explode SEPS_CSV line) i = PX).
    { unfold pfield. replace (nth_error (explode SEPS_CSV line) i) with (@None str); [reflexivity|].
      symmetry. apply nth_error_None. exact Hlen. }
    cbn [In] in Hin. cbn [app].
    repeat (destruct Hin as [<-|Hin]; [rewrite PXi; clear; auto 12 using in_eq, in_cons, in_or_app|]); try contradiction.
    all: try (right; right; apply in_or_app; right; rewrite PXi; auto 8 using in_eq, in_cons).
  Qed.

  (* non-numeric field in a required column: the read returns its error (or panics on a missing
     index first) — never a record *)
  Lemma csv_line_nonnumeric h sy line i t :
    In i [col (h_wind h); col (h_prec h); col (h_tmax h); col (h_tmin h); col (h_tavg h); col (h_rh h)] ->
    nth_error (explode SEPS_CSV line) i = Some t -> parse_float (T:=T) t = FErr ->
    forall r c, csv_line none h sy line <> IRec r c.
  Proof.
    intros Hin Hn He r c. unfold csv_line.
    destruct (nth_error (explode SEPS_CSV line) (col (h_date_iso h))); [|discriminate].
    destruct (parse_iso s); [|discriminate]. destruct (dy d <? sy); [discriminate|].
    assert (PEi : pfield (T:=T) (explode SEPS_CSV line) i = PE) by (unfold pfield; rewrite Hn, He; reflexivity).
    match goal with |- context [collect ?l] => assert (Hl : In PE l) end.
    { cbn [In] in Hin. cbn [app].
      repeat (destruct Hin as [<-|Hin]; [rewrite PEi; clear; auto 12 using in_eq, in_cons, in_or_app|]); try contradiction.
      all: try (right; right; apply in_or_app; right; rewrite PEi; auto 8 using in_eq, in_cons). }
    destruct (collect _) eqn:E; try discriminate. exfalso. exact (collect_PE _ Hl _ E).
  Qed.

  Lemma collect_ok_iff (l : list (pf (T:=T))) v : collect l = TOk v <-> l = map PV v.
  Proof.
    revert v; induction l as [|p l IH]; intros v.
    - cbn. split; intros H; [injection H as <-; reflexivity | destruct v; [reflexivity | discriminate]].
    - cbn [collect]. split.
      + intros H. destruct p as [x| | |]; try discriminate;
          destruct (collect l) as [l'| | | |] eqn:E; try discriminate.
        injection H as <-. cbn. f_equal. apply IH. reflexivity.
      + intros H. destruct v as [|x v]; [discriminate|]. cbn in H. injection H as -> Hl.
        apply IH in Hl. rewrite Hl. reflexivity.
  Qed.

  Lemma collect_panic_iff (l : list (pf (T:=T))) : collect l = TPanic <-> In PX l.
  Proof.
    split; [|apply collect_PX].
    induction l as [|p l IH]; [discriminate|]. cbn [collect]. intros H.
    destruct p as [x| | |]; try (left; reflexivity); right; apply IH;
      destruct (collect l) as [l'|l'| | |]; try reflexivity; discriminate.
  Qed.

  (* CHARACTERISATION of what the CSV reader does with a line, in terms of the tokens Explode
     leaves (an empty field leaves none: explode_drops_empty).  With a date that parses and is not
     before the start year:
       index panic   <->  a required column index is beyond the tokens;
       a record      <->  every required column index holds a token strconv accepts — the record
                          is made of the tokens AT THE HEADER'S INDICES, whichever columns they
                          were written for.  So a line that lost a field is read as a record shifted
                          by one column exactly when enough numeric tokens remain (surplus columns,
                          or a decimal comma that added one); otherwise it panics or returns the
                          parse error. *)
  Lemma csv_line_characterised sy line id itmin itavg itmax iprec irad iwind irh dt t :
    let toks := explode SEPS_CSV line in
    let h := csv_header id itmin itavg itmax iprec irad iwind irh in
    nth_error toks id = Some dt -> parse_iso dt = Some t -> sy <= dy t ->
    (forall vtmin vtavg vtmax vprec vrad vwind vrh,
       csv_line none h sy line = IRec (dy t, doy t, mkw vtavg vtmin vtmax vrh vrad vwind vprec) None <->
       (pfield toks iwind = PV vwind /\ pfield toks iprec = PV vprec /\ pfield toks irad = PV vrad /\
        pfield toks itmax = PV vtmax /\ pfield toks itmin = PV vtmin /\ pfield toks itavg = PV vtavg /\
        pfield toks irh = PV vrh)) /\
    (csv_line none h sy line = IPanic <->
       exists i, In i [iwind; iprec; irad; itmax; itmin; itavg; irh] /\ (List.length toks <= i)%nat).
  Proof.
    intros toks h Hd Hp Hs.
    assert (U : csv_line none h sy line =
                match collect [pfield toks iwind; pfield toks iprec; pfield toks irad; pfield toks itmax;
                               pfield toks itmin; pfield toks itavg; pfield toks irh] with
                | TPanic => IPanic | TUnk => IUnk | TErr _ => IErr | TFatal => IUnk
                | TOk v => match v with
                           | [wind; prec; rad; tmax; tmin; tavg; rh] => IRec (dy t, doy t, mkw tavg tmin tmax rh rad wind prec) None
                           | wind :: prec :: rad :: tmax :: tmin :: tavg :: rh :: _ => IRec (dy t, doy t, mkw tavg tmin tmax rh rad wind prec) None
                           | _ => IUnk
                           end
                end).
    { unfold csv_line, h, csv_header. fold toks.
      cbn [col h_date_iso h_wind h_prec h_rad h_tmax h_tmin h_tavg h_rh h_sun h_verd opt_field app].
      rewrite Hd, Hp. replace (dy t <? sy) with false by (symmetry; apply Z.ltb_ge; lia).
      destruct (collect _) as [v| | | |]; try reflexivity.
      destruct v as [|a [|b [|c [|d [|e [|f [|g [|x v]]]]]]]]; reflexivity. }
    split.
    - intros vtmin vtavg vtmax vprec vrad vwind vrh. rewrite U. split.
      + intros H. destruct (collect _) as [v| | | |] eqn:E; try discriminate.
        apply collect_ok_iff in E.
        destruct v as [|a [|b [|c [|d [|e [|f [|g [|x v]]]]]]]]; try discriminate.
        injection E as E1 E2 E3 E4 E5 E6 E7. injection H as -> -> -> -> -> -> ->.
        repeat split; assumption.
      + intros (A & B & C & D & E & F & G). rewrite A, B, C, D, E, F, G. reflexivity.
    - rewrite U. split.
      + intros H. destruct (collect _) as [v| | | |] eqn:E; try discriminate.
        * destruct v as [|a [|b [|c [|d [|e [|f [|g [|x v]]]]]]]]; discriminate.
        * apply collect_panic_iff in E.
          assert (K : forall i, pfield (T:=T) toks i = PX -> (List.length toks <= i)%nat).
          { intros i Hi. unfold pfield in Hi. destruct (nth_error toks i) eqn:N.
            - destruct (parse_float s); discriminate.
            - apply nth_error_None. exact N. }
          cbn [In] in E.
          repeat (destruct E as [E|E]; [eexists; split; [|apply K; exact E]; cbn; tauto|]). contradiction.
      + intros (i & Hi & Hlen).
        assert (PXi : pfield (T:=T) toks i = PX).
        { unfold pfield. replace (nth_error toks i) with (@None str); [reflexivity|]. symmetry. apply nth_error_None. exact Hlen. }
        rewrite collect_PX; [reflexivity|].
        cbn [In] in Hi |- *. repeat (destruct Hi as [<-|Hi]; [rewrite PXi; tauto|]). contradiction.
  Qed.

  (* a line whose date text does not parse is SKIPPED (zero time, year 1 < start year): no error *)
  Lemma csv_bad_date_skipped h sy line dt :
    nth_error (explode SEPS_CSV line) (col (h_date_iso h)) = Some dt -> parse_iso dt = None ->
    csv_line none h sy line = ISkip.
  Proof. intros H1 H2. unfold csv_line. rewrite H1, H2. reflexivity. Qed.
End MultiLines.

(* ------------------------------------------------------------------ *)
(* E. files                                                             *)

Definition nolf (l : str) : Prop := forallb (fun c => negb (ch_eqb c LF)) l = true.
(* a line of a file: no LF inside, not ending in CR (that CR would be taken for the line end) *)
Definition line_ok (l : str) : Prop :=
  nolf l /\ match rev l with c :: _ => ch_eqb c CR = false | [] => True end.
Definition eol_ok (e : str) : Prop := e = [LF] \/ e = [CR; LF].

Lemma scan_aux_line l : forall cur rest, nolf l -> scan_lines_aux cur (l ++ rest) = scan_lines_aux (rev l ++ cur) rest.
Proof.
  induction l as [|c l IH]; intros cur rest H; [reflexivity|].
  cbn in H. apply andb_true_iff in H as [Hc Hl]. apply negb_true_iff in Hc.
  cbn [app scan_lines_aux]. rewrite Hc, IH by exact Hl. cbn [rev]. rewrite <- app_assoc. reflexivity.
Qed.

Lemma drop_cr_line l : line_ok l -> rev (drop_cr (rev l)) = l /\ rev (drop_cr (CR :: rev l)) = l.
Proof.
  intros [_ H]. split.
  - unfold drop_cr. destruct (rev l) as [|c r] eqn:E.
    + apply (f_equal (@rev ascii)) in E. rewrite rev_involutive in E. subst. reflexivity.
    + rewrite H. rewrite <- E. apply rev_involutive.
  - cbn. apply rev_involutive.
Qed.

(* ScanLines inverts "every line followed by LF or CRLF" *)
Lemma scan_lines_print lines eol :
  Forall line_ok lines -> eol_ok eol -> scan_lines (List.concat (map (fun l => l ++ eol) lines)) = lines.
Proof.
  intros F E. unfold scan_lines. induction F as [|l ls Hl Hls IH]; [reflexivity|].
  cbn [map List.concat]. rewrite <- app_assoc. rewrite scan_aux_line by apply Hl. rewrite app_nil_r.
  destruct (drop_cr_line l Hl) as [D1 D2].
  destruct E as [->| ->]; cbn [app scan_lines_aux].
  - replace (ch_eqb LF LF) with true by reflexivity. rewrite D1. f_equal. exact IH.
  - replace (ch_eqb CR LF) with false by reflexivity. replace (ch_eqb LF LF) with true by reflexivity.
    rewrite D2. f_equal. exact IH.
Qed.

(* ... also when the last line has no line end *)
Lemma scan_lines_print_open lines eol last :
  Forall line_ok lines -> eol_ok eol -> line_ok last -> last <> [] ->
  scan_lines (List.concat (map (fun l => l ++ eol) lines) ++ last) = lines ++ [last].
Proof.
  intros F E Hl Hne. unfold scan_lines. induction F as [|l ls Hl' Hls IH].
  - cbn [map List.concat app]. rewrite <- (app_nil_r last) at 1. rewrite scan_aux_line by apply Hl.
    rewrite app_nil_r. cbn [scan_lines_aux]. destruct (drop_cr_line last Hl) as [D1 _].
    destruct (rev last) eqn:R; [|rewrite D1; reflexivity].
    apply (f_equal (@rev ascii)) in R. rewrite rev_involutive in R. contradiction.
  - cbn [map List.concat]. rewrite <- !app_assoc. rewrite scan_aux_line by apply Hl'. rewrite app_nil_r.
    destruct (drop_cr_line l Hl') as [D1 D2].
    destruct E as [->| ->]; cbn [app scan_lines_aux].
    + replace (ch_eqb LF LF) with true by reflexivity. rewrite D1. f_equal. apply IH.
    + replace (ch_eqb CR LF) with false by reflexivity. replace (ch_eqb LF LF) with true by reflexivity.
      rewrite D2. f_equal. apply IH.
Qed.

Section Files.
  Context {T : Type} {NT : Num T}.

  (* what a well-formed line of day-of-year column Tv and values r does in the per-year loop *)
  Definition line_spec (l : str) (Tv : Z) (r : wrec T) : Prop :=
    forall Tlast (s : slot T),
      year_line l Tlast s =
        if negb (Tlast + 1 =? Tv) then TErr (Tlast, s)
        else if Tv >? 366 then TPanic else TOk (Tv, put_slot s (s_jar s) Tv r).

  Lemma year_line_print_spec lead toks (vals : list (str * dlit * str)) p1 jd p2 :
    allsep SEPS_YEAR lead -> wf_toks SEPS_YEAR toks ->
    List.length vals = 10%nat -> Forall padded_ok vals ->
    firstn 10 (map fst toks) = map padded vals ->
    nth_error (map fst toks) 10 = Some (p1 ++ jd ++ p2) ->
    allspace p1 -> allspace p2 -> jd <> [] -> alldig jd -> 0 <= dnum 0 jd <= 1000 ->
    line_spec (lead ++ print_toks toks) (dnum 0 jd) (year_rec (map (fun x => dval (snd (fst x))) vals)).
  Proof.
    intros Hl W Hn Hv Hf Hj A B Hne Hd Hr Tlast s.
    unfold year_line. rewrite explode_print by assumption. rewrite Hj.
    rewrite parse_int_digits by auto.
    destruct (negb (Tlast + 1 =? dnum 0 jd)); [reflexivity|].
    rewrite Hf, parse_all_padded by exact Hv. reflexivity.
  Qed.

  (* the per-year loop over well-formed lines is the record-level loop *)
  Lemma year_lines_spec ls (recs : list (Z * wrec T)) :
    Forall2 (fun l x => line_spec l (fst x) (snd x)) ls recs ->
    forall Tlast (s : slot T),
      year_lines ls Tlast s =
        match wk_loop recs Tlast s with
        | Some (s', true) => TOk s' | Some (s', false) => TErr s' | None => TPanic
        end.
  Proof.
    induction 1 as [|l [Tv r] ls recs Hl Hr IH]; intros Tlast s; [reflexivity|].
    cbn [year_lines wk_loop fst snd] in *. rewrite (Hl Tlast s).
    destruct (negb (Tlast + 1 =? Tv)); [reflexivity|].
    destruct (Tv >? 366); [reflexivity|]. apply IH.
  Qed.

  (* a per-year file of [n] arbitrary header lines (n <> 3) and well-formed data lines, LF or CRLF:
     WetterK at character level = WetterK at record level *)
  Lemma wetterk_text_print none corr year hdr body (recs : list (Z * wrec T)) eol (st : store T) :
    Z.of_nat (List.length hdr) <> 3 ->
    Forall line_ok (hdr ++ body) -> eol_ok eol ->
    Forall2 (fun l x => line_spec l (fst x) (snd x)) body recs ->
    wetterk_text none corr (Z.of_nat (List.length hdr)) year (Some (List.concat (map (fun l => l ++ eol) (hdr ++ body)))) st
    = match wetterk none corr year (Some recs) st with
      | Some (st', true) => TOk (st', no_meta)
      | Some (st', false) => TErr (st', no_meta)
      | None => TPanic
      end.
  Proof.
    intros H3 Fl E F2. unfold wetterk_text, wetterk.
    rewrite scan_lines_print by assumption.
    replace (Z.of_nat (List.length hdr) =? 3) with false by (symmetry; apply Z.eqb_neq; exact H3).
    rewrite Nat2Z.id.
    assert (S : forall (a b : list str), skip_lines (List.length a) (a ++ b) = Some b).
    { induction a as [|x a IH]; intros b; [reflexivity|]. cbn. apply IH. }
    rewrite S. rewrite (year_lines_spec body recs F2).
    destruct (wk_loop recs 0 _) as [[s' []]|]; reflexivity.
  Qed.

  (* the loop of the multi-year readers over the items of well-formed lines is the record-level loop *)
  Definition item_of (sy : Z) (r : mrec T) : item T :=
    if fst (fst r) <? sy then ISkip else IRec r None.

  Lemma rm_items_recs sy (recs : list (mrec T)) : forall Tv yrz first (st : store T) cur co2s,
    match rm_items sy (map (item_of sy) recs) Tv yrz first st cur co2s, rm_loop sy recs Tv yrz first st with
    | TOk (st1, y1, _), Some (st2, y2) => st1 = st2 /\ y1 = y2
    | TErr _, None => True
    | _, _ => False
    end.
  Proof.
    induction recs as [|[[y yd] r] recs IH]; intros Tv yrz first st cur co2s.
    - cbn. split; reflexivity.
    - cbn [map rm_items rm_loop]. unfold item_of at 1. cbn [fst].
      destruct (y <? sy) eqn:Ey; [apply IH|].
      destruct (negb first && (yd =? 1) && negb (prev_year_ok st yrz y)); [exact I|].
      destruct first.
      + destruct (negb (yd =? yd)); [exact I|].
        destruct (1 >? Z.of_nat (List.length st)); [split; reflexivity | apply IH].
      + destruct (yd =? 1).
        * destruct (negb (yd =? 1)); [exact I|].
          destruct (yrz + 1 >? Z.of_nat (List.length st)); [split; reflexivity | apply IH].
        * destruct (negb (yd =? Tv + 1)); [exact I|].
          destruct (yrz >? Z.of_nat (List.length st)); [split; reflexivity | apply IH].
  Qed.

  (* a multi-year file: header line, [numheader - 1] further header lines, well-formed data lines *)
  Lemma multi_text_print none cz corr numheader sy nslots hl hdr body (recs : list (mrec T)) eol :
    numheader = Z.of_nat (List.length hdr) + 1 -> (cz = true \/ numheader <> 3) ->
    Forall line_ok (hl :: hdr ++ body) -> eol_ok eol -> 0 <= nslots ->
    map (if cz then cz_line none (read_header hl) sy else csv_line none (read_header hl) sy) body = map (item_of sy) recs ->
    match multi_text none cz corr numheader sy nslots (Some (List.concat (map (fun l => l ++ eol) (hl :: hdr ++ body)))),
          read_multi none corr sy nslots recs with
    | TOk (st1, m, _), Some st2 => st1 = st2 /\ m = no_meta
    | TErr _, None => True
    | _, _ => False
    end.
  Proof.
    intros Hn Hc Fl E H0 Hm. unfold multi_text, read_multi, new_store.
    replace (nslots <? 0) with false by (symmetry; apply Z.ltb_ge; lia).
    rewrite scan_lines_print by assumption.
    assert (B : (negb cz && (numheader =? 3)) = false).
    { destruct Hc as [->|Hc]; [reflexivity|]. replace (numheader =? 3) with false by (symmetry; apply Z.eqb_neq; exact Hc).
      apply andb_false_r. }
    rewrite B.
    replace (Z.to_nat (numheader - 1)) with (List.length hdr) by lia.
    assert (S : forall (a b : list str), skip_lines (List.length a) (a ++ b) = Some b).
    { induction a as [|x a IH]; intros b; [reflexivity|]. cbn. apply IH. }
    rewrite S, Hm.
    pose proof (rm_items_recs sy recs 0 0 true (repeat empty_slot (Z.to_nat nslots)) None []) as K.
    destruct (rm_items sy (map (item_of sy) recs) 0 0 true (repeat empty_slot (Z.to_nat nslots)) None [])
      as [[[st1 y1] c1]|[[st1 y1] c1]| | |];
      destruct (rm_loop sy recs 0 0 true (repeat empty_slot (Z.to_nat nslots))) as [[st2 y2]|]; try contradiction.
    - destruct K as [-> ->]. split; reflexivity.
    - exact I.
  Qed.
End Files.

Lemma scan_lines_both lines eol :
  Forall line_ok lines -> eol_ok eol ->
  scan_lines (List.concat (map (fun l => l ++ eol) lines)) = lines /\
  forall last, line_ok last -> last <> [] ->
    scan_lines (List.concat (map (fun l => l ++ eol) lines) ++ last) = lines ++ [last].
Proof. intros F E. split; [exact (scan_lines_print lines eol F E) | intros; apply scan_lines_print_open; assumption]. Qed.
