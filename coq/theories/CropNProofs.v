(* CropNProofs.v — lemmas about CropNModel and the organ update read over the reals:
   positivity of GEHMIN / GEHMAX, explicit positivity of every denominator under the code's own guards,
   GEHOB / WUGEH >= 0 when the root share of the uptake is <= 1 (and the refuting witness F24 when it is not),
   uptake <= supply, conservation of dry matter in the partitioning and in the organ update. *)
From Coq Require Import ZArith Reals List Bool Lia Lra Psatz.
From Interval Require Import Tactic.
From Hermes Require Import Num RUtil CropModel CropProofs CropNModel.
Import ListNotations.
Local Open Scope R_scope.

Lemma ndecR (m : Z) (k : nat) : @ndec R RNum m k = - (IZR m / IZR (10 ^ Z.of_nat k)).
Proof. reflexivity. Qed.

Ltac ndecs := repeat match goal with
  | |- context [@ndec R RNum ?m ?k] =>
      let v := eval vm_compute in (10 ^ Z.of_nat k)%Z in change (@ndec R RNum m k) with (- (IZR m / IZR v))
  | H : context [@ndec R RNum ?m ?k] |- _ =>
      let v := eval vm_compute in (10 ^ Z.of_nat k)%Z in change (@ndec R RNum m k) with (- (IZR m / IZR v)) in H
  end.

(* ==================================================================== *)
(* 6. GEHMIN / GEHMAX                                                    *)

(* what the formulas need from the oracle values: positive; for the squared-deficit function 2 also <= 1;
   function 5 takes its start value from the parameter RGA *)
Definition nc_oracle_ok (x : nc_in (T:=R)) : Prop :=
  0 < nc_o1 x /\ 0 < nc_o2 x /\ (nc_fkt x = 2%Z -> nc_o1 x <= 1 /\ nc_o2 x <= 1) /\ (nc_fkt x = 5%Z -> 0 < nc_rga x).

Lemma ncontent_some_fkt (x : nc_in (T:=R)) v : ncontent x = Some v -> (1 <= nc_fkt x <= 9)%Z.
Proof.
  unfold ncontent. destruct (nc_fkt x) as [|q|q]; try discriminate.
  destruct (Pos.leb q 9) eqn:L; [apply Pos.leb_le in L; lia|].
  apply Pos.leb_gt in L. intros E. exfalso.
  repeat (destruct q as [q|q|]; try discriminate; try lia).
Qed.

Lemma ncontent_pos_lemma (x : nc_in (T:=R)) (mn mx : R) :
  nc_oracle_ok x -> ncontent x = Some (mn, mx) -> 0 < mn /\ 0 < mx.
Proof.
  intros (H1 & H2 & H3 & H5) E. pose proof (ncontent_some_fkt x _ E) as HF.
  assert (HF' : (nc_fkt x = 1 \/ nc_fkt x = 2 \/ nc_fkt x = 3 \/ nc_fkt x = 4 \/ nc_fkt x = 5 \/ nc_fkt x = 6 \/
                 nc_fkt x = 7 \/ nc_fkt x = 8 \/ nc_fkt x = 9)%Z) by lia.
  unfold ncontent in E.
  repeat (destruct HF' as [F|HF']); try rename HF' into F; rewrite F in *;
    try (specialize (H3 eq_refl)); try (specialize (H5 eq_refl));
    repeat match type of E with context [if ?c then _ else _] => destruct c end;
    inversion E; subst; clear E; unfold sq; decs; rsimp; try nra; try lra.
Qed.

(* real analysis: the exponential of a non-positive argument lies in (0, 1]; a power of a positive base is positive *)
Lemma exp_nonpos_range (a : R) : a <= 0 -> 0 < exp a <= 1.
Proof.
  intros H. split; [apply exp_pos|].
  destruct H as [H|H]; [|subst; rewrite exp_0; lra].
  pose proof (exp_increasing _ _ H) as E. rewrite exp_0 in E. lra.
Qed.

Lemma rpower_pos (b e : R) : 0 < Rpower b e.
Proof. unfold Rpower. apply exp_pos. Qed.

(* math.Log(1 - math.Sqrt2/2) *)
Lemma lg_bound : -123 / 100 < ln (1 - sqrt 2 / 2) < -122 / 100.
Proof. split; interval. Qed.

(* in the declining branch every exponential of the N-content functions has a non-positive argument *)
Lemma nc_args_nonpos_lemma (x : nc_in (T:=R)) :
  0 <= nc_phyllo x -> 0 <= nc_obmas x -> 0 <= nc_worg3 x -> nc_lg x < -122 / 100 ->
  (nc_fkt x = 8%Z -> 200 < nc_tendsum x) ->
  (nc_fkt x = 1 \/ nc_fkt x = 4 \/ nc_fkt x = 6 \/ nc_fkt x = 8 \/ nc_fkt x = 9)%Z ->
  fst (nc_args x) <= 0 /\ snd (nc_args x) <= 0.
Proof.
  intros Hp Ho Hw Hl H8 HF. unfold nc_args.
  assert (D : nc_fkt x = 8%Z -> 0 < nc_dvkor x).
  { intros F. specialize (H8 F). unfold nc_dvkor. rsimp.
    apply Rdiv_lt_0_compat; [lra|]. apply Rdiv_lt_0_compat; lra. }
  destruct HF as [F|[F|[F|[F|F]]]]; rewrite F; try (specialize (D F));
    try destruct (nc_wrsg x); ndecs; rsimp; cbn [fst snd]; unfold Rdiv; split; nra.
Qed.

Lemma neg_div_nonpos (a c : R) : 0 <= a -> 0 < c -> - a / c <= 0.
Proof. intros Ha Hc. assert (0 < / c) by (apply Rinv_0_lt_compat; exact Hc). unfold Rdiv. nra. Qed.

Lemma nc_args_nonpos_2_lemma (x : nc_in (T:=R)) :
  nc_fkt x = 2%Z -> nc_lg x < -122 / 100 ->
  (263 <= nc_phyllo x -> fst (nc_args x) <= 0) /\ (142 <= nc_phyllo x -> snd (nc_args x) <= 0).
Proof.
  intros F Hl. unfold nc_args. rewrite F. decs. rsimp. cbn [fst snd].
  split; intros Hp; apply neg_div_nonpos; try lra; nra.
Qed.

(* ==================================================================== *)
(* 7. WUGEH / GEHOB                                                      *)

Definition nq_guard (x : nq_in (T:=R)) : R := nq_obmas x - nq_obalt x + nq_wumas x - nq_wumalt x.
Definition nq_uptake (x : nq_in (T:=R)) : R := if nq_zrk x then nq_sumpe x else nq_sumpe x + nq_nfix x.
Definition nq_shoot (x : nq_in (T:=R)) : R := if nq_zrk x then nq_obmas x + nq_worg3 x else nq_obmas x.

(* every division of crop.go:741-763 has a positive denominator under the guards the code itself evaluates
   (WUMAS > WUMALT, OBMAS-OBALT+WUMAS-WUMALT > 0) and non-negative masses *)
Lemma nq_denominators_lemma (x : nq_in (T:=R)) :
  0 <= nq_wumalt x -> 0 <= nq_worg3 x ->
  nq_wumalt x < nq_wumas x -> 0 < nq_guard x ->
  0 < nq_wumas x /\
  0 < (if nq_zrk x then nq_obmas x + nq_worg3 x - nq_obalt x + nq_wumas x - nq_wumalt x
       else nq_obmas x - nq_obalt x + nq_wumas x - nq_wumalt x).
Proof. unfold nq_guard. intros. split; [lra|]. destruct (nq_zrk x); lra. Qed.

(* the new root N amount never exceeds what the crop holds, provided the share is <= 1 *)
Lemma wugeh_amount (x : nq_in (T:=R)) :
  0 <= nq_wumalt x -> 0 <= nq_wugeh x -> 0 <= nq_worg3 x -> 0 <= nq_uptake x ->
  nq_wumalt x * nq_wugeh x <= nq_pesum x ->
  (nq_wumalt x < nq_wumas x -> 5 / 1000 * nq_wumas x <= nq_pesum x + nq_uptake x) ->
  (nq_wumalt x < nq_wumas x -> nq_guard x <= 0 -> nq_wumas x * nq_wugeh x <= nq_pesum x + nq_uptake x) ->
  (nq_wumalt x < nq_wumas x -> 0 < nq_guard x -> root_share x <= 1) ->
  nq_wumas x * wugeh_of x <= nq_pesum x + nq_uptake x /\
  (nq_wumalt x < nq_wumas x -> 5 / 1000 <= wugeh_of x) /\ 0 <= wugeh_of x.
Proof.
  intros Hwa Hwg Hw3 HU Hold Hfloor Hstay Hshare. unfold wugeh_of. rsimp.
  destruct (RI.ltb_spec (nq_wumalt x) (nq_wumas x)) as [Hgrow|Hgrow].
  - specialize (Hfloor Hgrow). specialize (Hstay Hgrow). specialize (Hshare Hgrow).
    assert (Hwm : 0 < nq_wumas x) by lra.
    set (w1 := if RI.ltb 0 (nq_obmas x - nq_obalt x + nq_wumas x - nq_wumalt x) then _ else _).
    assert (Hw1 : nq_wumas x * w1 <= nq_pesum x + nq_uptake x).
    { unfold w1. fold (nq_guard x).
      destruct (RI.ltb_spec 0 (nq_guard x)) as [Hg|Hg].
      - specialize (Hshare Hg). unfold nq_uptake in *.
        destruct (nq_zrk x); unfold Rdiv; rewrite (Rmult_comm (nq_wumas x)), Rmult_assoc, Rinv_l by lra; nra.
      - apply Hstay. lra. }
    decs. rsimp.
    assert (Hmin : nq_wumas x * Rmin w1 (nq_wgmax x) <= nq_pesum x + nq_uptake x).
    { pose proof (Rmin_l w1 (nq_wgmax x)). nra. }
    destruct (RI.ltb_spec (Rmin w1 (nq_wgmax x)) (5 / 1000)) as [Hf|Hf].
    + split; [lra|]. split; intros; lra.
    + split; [exact Hmin|]. split; intros; lra.
  - split; [|split; [intros; lra|exact Hwg]].
    assert (nq_wumas x * nq_wugeh x <= nq_wumalt x * nq_wugeh x) by nra. lra.
Qed.

Lemma nquota_nonneg_lemma (x : nq_in (T:=R)) :
  0 <= nq_wumalt x -> 0 <= nq_wugeh x -> 0 <= nq_worg3 x -> 0 <= nq_uptake x ->
  0 < nq_shoot x -> 0 < nq_wumas x ->
  nq_wumalt x * nq_wugeh x <= nq_pesum x ->
  (nq_wumalt x < nq_wumas x -> 5 / 1000 * nq_wumas x <= nq_pesum x + nq_uptake x) ->
  (nq_wumalt x < nq_wumas x -> nq_guard x <= 0 -> nq_wumas x * nq_wugeh x <= nq_pesum x + nq_uptake x) ->
  (nq_wumalt x < nq_wumas x -> 0 < nq_guard x -> root_share x <= 1) ->
  0 <= fst (nquota x) /\ 0 <= snd (nquota x).
Proof.
  intros Hwa Hwg Hw3 HU Hsh Hwm Hold Hfloor Hstay Hshare.
  destruct (wugeh_amount x Hwa Hwg Hw3 HU Hold Hfloor Hstay Hshare) as (Ha & _ & Hn).
  unfold nquota. unfold nq_uptake, nq_shoot in *.
  destruct (nq_zrk x); rsimp.
  - set (geh := (nq_pesum x + nq_sumpe x - nq_wumas x * wugeh_of x) / (nq_obmas x + nq_worg3 x)).
    assert (Hg : 0 <= geh).
    { unfold geh, Rdiv. apply Rmult_le_pos; [lra|]. apply Rlt_le, Rinv_0_lt_compat. exact Hsh. }
    assert (Hgm : geh * (nq_obmas x + nq_worg3 x) = nq_pesum x + nq_sumpe x - nq_wumas x * wugeh_of x).
    { unfold geh, Rdiv. rewrite Rmult_assoc, Rinv_l by lra. lra. }
    destruct (RI.ltb_spec (geh * (nq_obmas x + nq_worg3 x)) (nq_obalt x * nq_gehalt x)); cbn [fst snd]; split; try assumption.
    replace (nq_pesum x + nq_sumpe x - (nq_obmas x + nq_worg3 x) * geh) with (nq_wumas x * wugeh_of x) by lra.
    unfold Rdiv. rewrite Rmult_comm, <- Rmult_assoc, Rinv_l by lra. lra.
  - cbn [fst snd]. split; [|exact Hn].
    unfold Rdiv. apply Rmult_le_pos; [lra|]. apply Rlt_le, Rinv_0_lt_compat. exact Hsh.
Qed.

(* the correction of the root concentration for beet / potato (crop.go:758-760) is the identity in exact arithmetic *)
Lemma zrk_correction_noop_lemma (x : nq_in (T:=R)) :
  nq_zrk x = true -> nq_obmas x + nq_worg3 x <> 0 -> nq_wumas x <> 0 -> snd (nquota x) = wugeh_of x.
Proof.
  intros Hz Ho Hw. unfold nquota. rewrite Hz. rsimp.
  match goal with |- context [RI.ltb ?a ?b] => destruct (RI.ltb a b) end; cbn [snd]; [|reflexivity].
  unfold Rdiv. field. split; assumption.
Qed.

(* F24: when the shoot shrinks while the root grows the share exceeds 1 and GEHOB turns negative although every
   other hypothesis holds *)
Definition f24_witness : nq_in (T:=R) :=
  {| nq_zrk := false; nq_wumalt := 1000; nq_obalt := 100; nq_gehalt := 2 / 100; nq_wumas := 1002; nq_obmas := 99; nq_worg3 := 0;
     nq_wugeh := 1 / 100; nq_wgmax := 2 / 100; nq_pesum := 12; nq_sumpe := 3; nq_nfix := 0 |}.

Lemma f24_refuted_lemma :
  let x := f24_witness in
  0 <= nq_wumalt x /\ 0 <= nq_wugeh x /\ 0 <= nq_uptake x /\ 0 < nq_shoot x /\ 0 < nq_wumas x /\
  nq_wumalt x * nq_wugeh x <= nq_pesum x /\ 5 / 1000 * nq_wumas x <= nq_pesum x + nq_uptake x /\
  nq_wumalt x < nq_wumas x /\ 0 < nq_guard x /\
  root_share x = 2 /\ fst (nquota x) < 0.
Proof.
  cbv zeta. unfold f24_witness, nq_uptake, nq_shoot, nq_guard, nquota, wugeh_of, root_share; cbn [nq_zrk nq_wumalt nq_obalt nq_gehalt
    nq_wumas nq_obmas nq_worg3 nq_wugeh nq_wgmax nq_pesum nq_sumpe nq_nfix].
  decs. rsimp. cbn [fst].
  repeat (split; [lra|]).
  destruct (RI.ltb_spec 1000 1002); [|lra].
  destruct (RI.ltb_spec 0 (99 - 100 + 1002 - 1000)); [|lra].
  replace ((1002 - 1000) / (99 - 100 + 1002 - 1000)) with 2 by field.
  replace ((1000 * (1 / 100) + 2 * (3 + 0)) / 1002) with (16 / 1002) by field.
  assert (Hm : Rmin (16 / 1002) (2 / 100) = 16 / 1002) by (apply Rmin_left; lra). rewrite Hm.
  destruct (RI.ltb_spec (16 / 1002) (5 / 1000)); [lra|].
  replace ((12 + 3 + 0 - 1002 * (16 / 1002)) / 99) with (-1 / 99) by field. lra.
Qed.

(* ==================================================================== *)
(* uptake against the supply of the soil                                 *)

Lemma pe_layer_le_supply (d T S m df c : R) :
  0 <= m -> 0 <= df -> pe_layer d T S m df c <= m + df.
Proof.
  intros Hm Hd. unfold pe_layer. decs. rsimp.
  destruct (RI.ltb_spec 0 d) as [Hd0|Hd0]; [|lra].
  set (p := if RI.leb d T then _ else _).
  assert (Hp : 0 <= p <= m + df).
  { unfold p. destruct (RI.leb_spec d T) as [E1|E1].
    - assert (0 < T) by lra.
      assert (0 <= d * m / T <= m); [|lra].
      split; [unfold Rdiv; apply Rmult_le_pos; [nra|apply Rlt_le, Rinv_0_lt_compat; lra]|].
      apply (Rmult_le_reg_r T); [lra|]. unfold Rdiv. rewrite Rmult_assoc, Rinv_l by lra. nra.
    - destruct (RI.ltb_spec (d - T) S) as [E2|E2]; [|lra].
      assert (0 < S) by lra.
      assert (0 <= (d - T) * df / S <= df); [|lra].
      split; [unfold Rdiv; apply Rmult_le_pos; [nra|apply Rlt_le, Rinv_0_lt_compat; lra]|].
      apply (Rmult_le_reg_r S); [lra|]. unfold Rdiv. rewrite Rmult_assoc, Rinv_l by lra. nra. }
  destruct (RI.ltb_spec (c - 75 / 100) p).
  - destruct (RI.ltb_spec (c - 75 / 100) 0); lra.
  - destruct (RI.ltb_spec p 0); lra.
Qed.

(* the two divisions of the per-layer uptake are guarded by the branch conditions themselves *)
Lemma pe_denominators_lemma (d T S : R) :
  0 < d -> (d <= T -> 0 < T) /\ (T < d -> d - T < S -> 0 < S).
Proof. intros. split; intros; lra. Qed.

(* ==================================================================== *)
(* 8. partitioning of the assimilates                                    *)

Lemma organ_rates_growth (x : organ_in (T:=R)) s i : fst (organ_rates x s i) = growth_rate x i.
Proof. unfold organ_rates, growth_rate. destruct (gtb _ _); reflexivity. Qed.

(* entries [idx] of an organ array *)
Definition col (l : list R) (idx : list nat) : list R := map (fun i => cg l i) idx.

(* what the organs [idx] receive together = 0.7 * GTW * REDUK * (interpolated sum of their shares) - their maintenance *)
Lemma growth_sum_lemma (x : organ_in (T:=R)) (idx : list nat) :
  oi_sumk x / oi_tsumk x <= 1 ->
  Rsum (map (growth_rate x) idx) =
    7 / 10 * oi_gtw x * oi_reduk x *
      (Rsum (col (oi_pro_lo x) idx) + (Rsum (col (oi_pro_hi x) idx) - Rsum (col (oi_pro_lo x) idx)) * (oi_sumk x / oi_tsumk x))
    - Rsum (col (oi_mterm x) idx).
Proof.
  intros Hr. unfold col. induction idx as [|i idx IH]; cbn [map Rsum]; [unfold Rdiv; ring|].
  rewrite IH. unfold growth_rate.
  destruct (gtb _ _) eqn:E; [apply gtbR in E; rsimp; lra|].
  decs. rsimp. unfold Rdiv. ring.
Qed.

(* ... all of 0.7 * GTW * REDUK when the shares of both table rows sum to 1 *)
Lemma partition_conservation_lemma (x : organ_in (T:=R)) (idx : list nat) :
  oi_sumk x / oi_tsumk x <= 1 ->
  Rsum (col (oi_pro_lo x) idx) = 1 -> Rsum (col (oi_pro_hi x) idx) = 1 ->
  Rsum (map (growth_rate x) idx) + Rsum (col (oi_mterm x) idx) = 7 / 10 * oi_gtw x * oi_reduk x /\
  (* growth incl. maintenance + growth respiration + assimilate pool = GTW *)
  (Rsum (map (growth_rate x) idx) + Rsum (col (oi_mterm x) idx)) + 3 / 10 * oi_gtw x * oi_reduk x
    + aspoo_of (oi_gtw x) (oi_reduk x) = oi_gtw x.
Proof.
  intros Hr Hlo Hhi. rewrite (growth_sum_lemma x idx Hr), Hlo, Hhi. unfold aspoo_of. rsimp. set (r := oi_sumk x / oi_tsumk x). clearbody r. split; nra.
Qed.

(* ==================================================================== *)
(* dry matter in the organ update                                        *)

(* dead mass handed on to organ i >= 4 from the three organs before it (crop.go:472) *)
Definition transfer_of (x : organ_in (T:=R)) (s : organ_st (T:=R)) (i : nat) : R :=
  if Nat.ltb i 3 then 0
  else if oi_last x then 0
  else 3 / 10 * (cg (os_dgorg s) (i - 1) * oi_dt x + cg (os_dgorg s) (i - 2) * oi_dt x + cg (os_dgorg s) (i - 3) * oi_dt x).

(* mass created by the floor of organs 1-3 (crop.go:466-469: the organ is set to 0.1 kg/ha) *)
Definition floor_of (x : organ_in (T:=R)) (s : organ_st (T:=R)) (i : nat) (gorg dgorg : R) : R :=
  if Nat.ltb i 3 then
    if gtb (cg (os_worg s) i + (gorg - dgorg) * oi_dt x) (dec 1 13) then 0 else 1 / 10
  else 0.

Lemma organ_mass_balance (x : organ_in (T:=R)) s i gorg dgorg :
  oi_dt x <> 0 ->
  fst (organ_mass x s i gorg dgorg) =
    cg (os_worg s) i + gorg * oi_dt x - snd (organ_mass x s i gorg dgorg) * oi_dt x
    + transfer_of x s i + floor_of x s i gorg dgorg.
Proof.
  intros Hdt. unfold organ_mass, transfer_of, floor_of.
  destruct (Nat.ltb i 3).
  - destruct (gtb _ _); cbn [fst snd]; decs; rsimp; [lra|]. field. exact Hdt.
  - destruct (oi_last x).
    + match goal with |- context [ltb ?w zero] => destruct (ltb w zero) end; cbn [fst snd]; rsimp; [|lra].
      field. exact Hdt.
    + match goal with |- context [ltb ?w zero] => destruct (ltb w zero) end; cbn [fst snd]; decs; rsimp; [|lra].
      field. exact Hdt.
Qed.

Lemma floor_of_range (x : organ_in (T:=R)) s i gorg dgorg : 0 <= floor_of x s i gorg dgorg <= 1 / 10.
Proof. unfold floor_of. destruct (Nat.ltb i 3); [destruct (gtb _ _)|]; lra. Qed.

(* the organ update with a ledger of the mass that does not come from growth minus death *)
Definition created_of (x : organ_in (T:=R)) (s : organ_st (T:=R)) (i : nat) : R * R :=
  let '(gorg, dg0) := organ_rates x s i in (transfer_of x s i, floor_of x s i gorg dg0).

Definition ledger_step (x : organ_in (T:=R)) (sc : organ_st (T:=R) * (R * R)) (i : nat) : organ_st * (R * R) :=
  let '(s, (tr, fl)) := sc in
  (organ_step x s i, (tr + fst (created_of x s i), fl + snd (created_of x s i))).

Definition organs_ledger (x : organ_in (T:=R)) (s : organ_st (T:=R)) : organ_st * (R * R) :=
  fold_left (ledger_step x) (seq 0 (oi_nrkom x))
    ({| os_worg := os_worg s; os_gorg := os_gorg s; os_dgorg := os_dgorg s; os_wdorg := os_wdorg s;
        os_lai := lai_floor (os_lai s); os_pesum := os_pesum s |}, (0, 0)).

Lemma ledger_fst (x : organ_in (T:=R)) (l : list nat) sc :
  fst (fold_left (ledger_step x) l sc) = fold_left (organ_step x) l (fst sc).
Proof.
  revert sc; induction l as [|i l IH]; intros [s [tr fl]]; cbn [fold_left]; [reflexivity|].
  rewrite IH. reflexivity.
Qed.

Lemma organ_step_fields (x : organ_in (T:=R)) s i :
  oi_dt x <> 0 ->
  (i < length (os_worg s))%nat -> (i < length (os_gorg s))%nat -> (i < length (os_dgorg s))%nat ->
  let s1 := organ_step x s i in
  length (os_worg s1) = length (os_worg s) /\ length (os_gorg s1) = length (os_gorg s) /\
  length (os_dgorg s1) = length (os_dgorg s) /\
  (forall j, j <> i -> cg (os_worg s1) j = cg (os_worg s) j /\ cg (os_gorg s1) j = cg (os_gorg s) j /\
                       cg (os_dgorg s1) j = cg (os_dgorg s) j) /\
  cg (os_worg s1) i = cg (os_worg s) i + cg (os_gorg s1) i * oi_dt x - cg (os_dgorg s1) i * oi_dt x
                      + fst (created_of x s i) + snd (created_of x s i).
Proof.
  intros Hdt Hw Hg Hd. unfold created_of, organ_step.
  destruct (organ_rates x s i) as [gorg dg0].
  pose proof (organ_mass_balance x s i gorg dg0 Hdt) as Hb.
  destruct (organ_mass x s i gorg dg0) as [w' dg]. cbn [fst snd os_worg os_gorg os_dgorg] in *.
  rewrite !upd_length. repeat split; try reflexivity.
  - unfold cg. apply get_upd_other. auto.
  - unfold cg. apply get_upd_other. auto.
  - unfold cg. apply get_upd_other. auto.
  - unfold cg in *. rewrite !get_upd_same by assumption. exact Hb.
Qed.

Lemma ledger_fold (x : organ_in (T:=R)) (n a : nat) (s : organ_st) (tr fl : R) :
  oi_dt x <> 0 ->
  (a + n <= length (os_worg s))%nat -> (a + n <= length (os_gorg s))%nat -> (a + n <= length (os_dgorg s))%nat ->
  let '(s', (tr', fl')) := fold_left (ledger_step x) (seq a n) (s, (tr, fl)) in
  (forall j, ~ (a <= j < a + n)%nat ->
     cg (os_worg s') j = cg (os_worg s) j /\ cg (os_gorg s') j = cg (os_gorg s) j /\ cg (os_dgorg s') j = cg (os_dgorg s) j) /\
  Rsum (col (os_worg s') (seq a n)) =
    Rsum (col (os_worg s) (seq a n)) + oi_dt x * Rsum (col (os_gorg s') (seq a n)) - oi_dt x * Rsum (col (os_dgorg s') (seq a n))
    + (tr' - tr) + (fl' - fl) /\
  fl <= fl' <= fl + INR n / 10 /\
  (oi_last x = true -> tr' = tr) /\ ((a + n <= 3)%nat -> tr' = tr).
Proof.
  intros Hdt. revert a s tr fl; induction n as [|n IH]; intros a s tr fl Hw Hg Hd; cbn [seq fold_left].
  - cbn. repeat split; try lra.
  - cbn [ledger_step].
    destruct (organ_step_fields x s a Hdt ltac:(lia) ltac:(lia) ltac:(lia)) as (Lw & Lg & Ld & Hoth & Hsame).
    specialize (IH (S a) (organ_step x s a) (tr + fst (created_of x s a)) (fl + snd (created_of x s a))
                   ltac:(rewrite Lw; lia) ltac:(rewrite Lg; lia) ltac:(rewrite Ld; lia)).
    destruct (fold_left (ledger_step x) (seq (S a) n) _) as [s' [tr' fl']].
    destruct IH as (Hout & Hsum & Hfl & Hlast & Hsmall).
    assert (Hfr : 0 <= snd (created_of x s a) <= 1 / 10).
    { unfold created_of. destruct (organ_rates x s a). cbn [snd]. apply floor_of_range. }
    assert (Htr3 : (a < 3)%nat -> fst (created_of x s a) = 0).
    { intros H3. unfold created_of. destruct (organ_rates x s a). cbn [fst]. unfold transfer_of.
      destruct (Nat.ltb_spec a 3); [reflexivity|lia]. }
    assert (Htrl : oi_last x = true -> fst (created_of x s a) = 0).
    { intros HL. unfold created_of. destruct (organ_rates x s a). cbn [fst]. unfold transfer_of. rewrite HL.
      destruct (Nat.ltb a 3); reflexivity. }
    split; [|split; [|split; [|split]]].
    + intros j Hj. destruct (Hout j ltac:(lia)) as (A & B & C). destruct (Hoth j ltac:(lia)) as (A' & B' & C').
      rewrite A, B, C. auto.
    + destruct (Hout a ltac:(lia)) as (A & B & C).
      assert (Hext : forall (f f' : list R), (forall j, j <> a -> cg f' j = cg f j) ->
                 col f' (seq (S a) n) = col f (seq (S a) n)).
      { intros f f' H. unfold col. apply map_ext_in. intros j Hj. apply in_seq in Hj. apply H. lia. }
      cbn [col map Rsum]. fold (col (os_worg s') (seq (S a) n)). fold (col (os_worg s) (seq (S a) n)).
      fold (col (os_gorg s') (seq (S a) n)). fold (col (os_dgorg s') (seq (S a) n)).
      rewrite Hsum, A, B, C, Hsame.
      rewrite (Hext (os_worg s) (os_worg (organ_step x s a))) by (intros j Hj; apply (Hoth j Hj)).
      ring.
    + rewrite S_INR. lra.
    + intros HL. rewrite (Hlast HL), (Htrl HL). lra.
    + intros H3. rewrite (Hsmall ltac:(lia)), (Htr3 ltac:(lia)). lra.
Qed.

(* Conservation of dry matter in the daily organ update, for every stage, table and state: the organs' mass
   changes by growth minus death, plus the dead mass handed on to organs 4-5 ([tr], only before the last stage),
   plus 0.1 kg/ha for every organ 1-3 that hit its floor ([fl]) *)
Lemma dry_matter_lemma (x : organ_in (T:=R)) (s : organ_st (T:=R)) :
  oi_dt x <> 0 ->
  (oi_nrkom x <= length (os_worg s))%nat -> (oi_nrkom x <= length (os_gorg s))%nat -> (oi_nrkom x <= length (os_dgorg s))%nat ->
  let '(s', (tr, fl)) := organs_ledger x s in
  let idx := seq 0 (oi_nrkom x) in
  s' = organs_day x s /\
  Rsum (col (os_worg s') idx) =
    Rsum (col (os_worg s) idx) + oi_dt x * Rsum (col (os_gorg s') idx) - oi_dt x * Rsum (col (os_dgorg s') idx) + tr + fl /\
  0 <= fl <= INR (oi_nrkom x) / 10 /\
  (oi_last x = true -> tr = 0) /\ ((oi_nrkom x <= 3)%nat -> tr = 0) /\
  (forall i, (i < oi_nrkom x)%nat -> cg (os_gorg s') i = growth_rate x i).
Proof.
  intros Hdt Hw Hg Hd. unfold organs_ledger.
  set (s0 := {| os_worg := os_worg s; os_gorg := os_gorg s; os_dgorg := os_dgorg s; os_wdorg := os_wdorg s;
                os_lai := lai_floor (os_lai s); os_pesum := os_pesum s |}).
  pose proof (ledger_fold x (oi_nrkom x) 0 s0 0 0 Hdt Hw Hg Hd) as H.
  pose proof (ledger_fst x (seq 0 (oi_nrkom x)) (s0, (0, 0))) as Hf.
  destruct (fold_left (ledger_step x) (seq 0 (oi_nrkom x)) (s0, (0, 0))) as [s' [tr fl]].
  cbn [fst] in Hf. destruct H as (Hout & Hsum & Hfl & Hlast & Hsmall).
  split; [exact Hf|]. split; [cbn [os_worg s0] in Hsum; rewrite Hsum; ring|].
  split; [lra|]. split; [intros HL; rewrite (Hlast HL); reflexivity|]. split; [intros H3; apply Hsmall; lia|].
  (* the stored growth rates are the partition formula *)
  intros i Hi. subst s'. unfold organs_day. fold s0.
  clear - Hi Hg. revert Hi.
  assert (G : forall n a s1, (a + n <= length (os_gorg s1))%nat -> forall k, (a <= k < a + n)%nat ->
              cg (os_gorg (fold_left (organ_step x) (seq a n) s1)) k = growth_rate x k).
  { induction n as [|n IH]; intros a s1 Hlen k Hk; [lia|]. cbn [seq fold_left].
    assert (Lg : length (os_gorg (organ_step x s1 a)) = length (os_gorg s1)).
    { unfold organ_step. destruct (organ_rates x s1 a) as [r r0]. destruct (organ_mass x s1 a r r0). cbn. apply upd_length. }
    destruct (Nat.eq_dec k a) as [->|Hne].
    - assert (K : forall m b s2, (a < b)%nat -> cg (os_gorg (fold_left (organ_step x) (seq b m) s2)) a = cg (os_gorg s2) a).
      { induction m as [|m IHm]; intros b s2 Hb; [reflexivity|]. cbn [seq fold_left]. rewrite IHm by lia.
        unfold organ_step. destruct (organ_rates x s2 b) as [r r0]. destruct (organ_mass x s2 b r r0). cbn [os_gorg].
        unfold cg. apply get_upd_other. lia. }
      rewrite K by lia. unfold organ_step. pose proof (organ_rates_growth x s1 a) as Hr.
      destruct (organ_rates x s1 a) as [gorg dg0]. destruct (organ_mass x s1 a gorg dg0). cbn [os_gorg fst] in *.
      unfold cg. rewrite get_upd_same by lia. exact Hr.
    - apply IH; [rewrite Lg; lia|lia]. }
  intros Hi. apply G; cbn [os_gorg s0]; lia.
Qed.

(* the above-ground mass is positive after the update when one of organs 1-3 the crop has belongs to it:
   the denominator of GEHOB (crop.go:757, 762) *)
Lemma organ_mass_pos_low (x : organ_in (T:=R)) s i gorg dgorg : (i < 3)%nat -> 0 < fst (organ_mass x s i gorg dgorg).
Proof.
  intros Hi. unfold organ_mass. destruct (Nat.ltb_spec i 3); [|lia].
  destruct (gtb _ _) eqn:E; cbn [fst].
  - apply gtbR in E. revert E. decs. rsimp. intros E.
    assert (0 < 1 / 10000000000000) by (apply Rdiv_lt_0_compat; lra). lra.
  - decs. lra.
Qed.

Lemma organs_day_worg_pos (x : organ_in (T:=R)) (s : organ_st (T:=R)) (i : nat) :
  (i < oi_nrkom x)%nat -> (i < 3)%nat -> (oi_nrkom x <= length (os_worg s))%nat ->
  0 < cg (os_worg (organs_day x s)) i.
Proof.
  intros Hi H3 Hlen. unfold organs_day.
  set (s0 := {| os_worg := os_worg s; os_gorg := os_gorg s; os_dgorg := os_dgorg s; os_wdorg := os_wdorg s;
                os_lai := lai_floor (os_lai s); os_pesum := os_pesum s |}).
  assert (K : forall m b s2, (i < b)%nat -> cg (os_worg (fold_left (organ_step x) (seq b m) s2)) i = cg (os_worg s2) i).
  { induction m as [|m IHm]; intros b s2 Hb; [reflexivity|]. cbn [seq fold_left]. rewrite IHm by lia.
    apply organ_step_worg_other. lia. }
  assert (G : forall n a s1, (a + n <= length (os_worg s1))%nat -> (a <= i < a + n)%nat ->
              0 < cg (os_worg (fold_left (organ_step x) (seq a n) s1)) i).
  { induction n as [|n IH]; intros a s1 Hl Hk; [lia|]. cbn [seq fold_left].
    destruct (Nat.eq_dec i a) as [<-|Hne].
    - rewrite K by lia. unfold organ_step. destruct (organ_rates x s1 i) as [gorg dg0].
      pose proof (organ_mass_pos_low x s1 i gorg dg0 H3) as Hp.
      destruct (organ_mass x s1 i gorg dg0). cbn [os_worg fst] in *. unfold cg. rewrite get_upd_same by lia. exact Hp.
    - apply IH; [rewrite organ_step_len; lia|lia]. }
  apply G; cbn [os_worg s0]; lia.
Qed.

Lemma obmas_of_ge (worg : list R) (above : list nat) (acc : R) :
  (forall i, 0 <= cg worg i) -> acc <= fold_left (fun a komp => a + cg worg (komp - 1)) above acc.
Proof.
  intros Hn. revert acc; induction above as [|a l IH]; intros acc; cbn [fold_left]; [lra|].
  eapply Rle_trans; [|apply IH]. specialize (Hn (a - 1)%nat). lra.
Qed.

(* OBMAS > 0: the denominator of GEHOB *)
Lemma obmas_pos_lemma (worg : list R) (above : list nat) :
  (forall i, 0 <= cg worg i) -> (exists a, In a above /\ 0 < cg worg (a - 1)) -> 0 < obmas_of worg above.
Proof.
  intros Hn (a & Ha & Hp). unfold obmas_of. rsimp.
  assert (G : forall l acc, In a l -> acc < fold_left (fun a0 komp => a0 + cg worg (komp - 1)) l acc).
  { induction l as [|b l IH]; intros acc Hin; [destruct Hin|]. cbn [fold_left]. destruct Hin as [->|Hin].
    - eapply Rlt_le_trans; [|apply obmas_of_ge; exact Hn]. lra.
    - eapply Rle_lt_trans; [|apply IH; exact Hin]. specialize (Hn (b - 1)%nat). lra. }
  apply G. exact Ha.
Qed.

(* ==================================================================== *)
(* partition tables as they stand in the crop parameter files             *)

(* entry (m, k) = m / 10^k, brought to six decimals *)
Definition scale6 (e : Z * nat) : option Z :=
  if Nat.leb (snd e) 6 then Some (fst e * 10 ^ Z.of_nat (6 - snd e))%Z else None.

Fixpoint row_sum6 (r : list (Z * nat)) : option Z :=
  match r with
  | [] => Some 0%Z
  | e :: t => match scale6 e, row_sum6 t with Some a, Some b => Some (a + b)%Z | _, _ => None end
  end.

(* a row of shares: every entry >= 0, the entries sum to exactly 1 *)
Definition row_ok (r : list (Z * nat)) : bool :=
  match row_sum6 r with
  | Some s => (s =? 1000000)%Z && forallb (fun e => (0 <=? fst e)%Z) r
  | None => false
  end.
Definition row_zero (r : list (Z * nat)) : bool := forallb (fun e => (fst e =? 0)%Z) r.

(* a partition table: all rows are rows of shares; only the last stage (senescence) may be all zero instead *)
Definition table_ok (t : list (list (Z * nat))) : bool :=
  match rev t with
  | [] => false
  | lastr :: init => forallb row_ok init && (row_ok lastr || row_zero lastr)
  end.

(* a death-rate table: every entry in [0, 1) *)
Definition dead_ok (t : list (list (Z * nat))) : bool :=
  forallb (forallb (fun e => match scale6 e with Some z => (0 <=? z)%Z && (z <? 1000000)%Z | None => false end)) t.

Lemma scale6_R (e : Z * nat) (z : Z) : scale6 e = Some z -> @dec R RNum (fst e) (snd e) = IZR z / 1000000.
Proof.
  destruct e as [m k]. unfold scale6. cbn [fst snd].
  do 7 (destruct k as [|k]; [intros H; cbn in H; inversion H; subst; clear H; rewrite decR;
                             let v := eval vm_compute in (10 ^ Z.of_nat 0)%Z in idtac;
                             match goal with |- context [IZR (10 ^ Z.of_nat ?kk)] =>
                               let v := eval vm_compute in (10 ^ Z.of_nat kk)%Z in change (10 ^ Z.of_nat kk)%Z with v end;
                             rewrite ?mult_IZR; unfold Rdiv; field|]).
  cbn. discriminate.
Qed.

Lemma row_sum6_R (r : list (Z * nat)) (s : Z) : row_sum6 r = Some s -> Rsum (dec_row r) = IZR s / 1000000.
Proof.
  revert s; induction r as [|e t IH]; intros s; cbn [row_sum6 dec_row map Rsum].
  - intros H; inversion H. unfold Rdiv. cbn. lra.
  - destruct (scale6 e) as [a|] eqn:Ea; [|discriminate]. destruct (row_sum6 t) as [b|] eqn:Eb; [|discriminate].
    intros H; inversion H; subst. rewrite (scale6_R e a Ea). fold (dec_row (T:=R) t). rewrite (IH b eq_refl).
    rewrite plus_IZR. unfold Rdiv. lra.
Qed.

Lemma row_ok_lemma (r : list (Z * nat)) :
  row_ok r = true -> Rsum (dec_row r) = 1 /\ Forall (fun v => 0 <= v) (dec_row (T:=R) r).
Proof.
  unfold row_ok. destruct (row_sum6 r) as [s|] eqn:E; [|discriminate].
  intros H. apply andb_true_iff in H as [H1 H2]. apply Z.eqb_eq in H1. subst s. split.
  - rewrite (row_sum6_R r _ E). unfold Rdiv. lra.
  - clear E. induction r as [|e t IH]; cbn [dec_row map]; [constructor|].
    cbn [forallb] in H2. apply andb_true_iff in H2 as [Ha Hb]. constructor; [|apply IH; exact Hb].
    apply Z.leb_le in Ha. rewrite decR. apply Rmult_le_pos; [apply (IZR_le 0); exact Ha|].
    apply Rlt_le, Rinv_0_lt_compat. apply (IZR_lt 0). apply Z.pow_pos_nonneg; lia.
Qed.

Lemma table_ok_rows (t : list (list (Z * nat))) (k : nat) :
  table_ok t = true -> (S k < length t)%nat -> row_ok (nth k t []) = true.
Proof.
  unfold table_ok. destruct (rev t) as [|lastr init] eqn:E; [discriminate|].
  intros H Hk. apply andb_true_iff in H as [H _].
  assert (Ht : t = rev init ++ [lastr]).
  { rewrite <- (rev_involutive t), E. reflexivity. }
  subst t. rewrite app_length, rev_length in Hk. cbn in Hk.
  rewrite app_nth1 by (rewrite rev_length; lia).
  rewrite forallb_forall in H. apply H. apply (proj2 (in_rev init _)). apply nth_In. rewrite rev_length. lia.
Qed.

Lemma col_all (l : list R) : col l (seq 0 (length l)) = l.
Proof.
  apply nth_ext with (d := 0) (d' := 0); [unfold col; rewrite map_length, seq_length; reflexivity|].
  intros n Hn. unfold col in *. rewrite map_length, seq_length in Hn.
  set (f := fun i => cg l i).
  rewrite (nth_indep (map f (seq 0 (length l))) 0 (f 0%nat)) by (rewrite map_length, seq_length; exact Hn).
  rewrite (map_nth f (seq 0 (length l)) 0%nat n). rewrite seq_nth by exact Hn. reflexivity.
Qed.

(* Conservation of the partitioned assimilates for a stage k of a table whose rows k-1 and k are rows of shares
   (for a checked table: every stage 1 <= k < number of stages - 1, and the last one too unless it is the zero row) *)
Lemma table_partition_lemma (t : list (list (Z * nat))) (dead : list (list R)) (k n : nat) (x : organ_in (T:=R)) :
  row_ok (nth (k - 1) t []) = true -> row_ok (nth k t []) = true ->
  length (nth (k - 1) t []) = n -> length (nth k t []) = n ->
  oi_sumk x / oi_tsumk x <= 1 ->
  let x' := organ_in_of_tables (dec_table t) dead k x in
  Rsum (map (growth_rate x') (seq 0 n)) + Rsum (col (oi_mterm x) (seq 0 n)) = 7 / 10 * oi_gtw x * oi_reduk x /\
  (Rsum (map (growth_rate x') (seq 0 n)) + Rsum (col (oi_mterm x) (seq 0 n))) + 3 / 10 * oi_gtw x * oi_reduk x
    + aspoo_of (oi_gtw x) (oi_reduk x) = oi_gtw x.
Proof.
  intros Hlo Hhi Llo Lhi Hr x'.
  assert (R1 : forall j, table_row (dec_table (T:=R) t) j = dec_row (nth j t [])).
  { intros j. unfold table_row, dec_table. change (@nil R) with (dec_row (T:=R) []). apply map_nth. }
  assert (Len : forall r, length (dec_row (T:=R) r) = length r) by (intros r; unfold dec_row; apply map_length).
  apply (partition_conservation_lemma x' (seq 0 n)); subst x'; cbn [organ_in_of_tables oi_sumk oi_tsumk oi_pro_lo oi_pro_hi].
  - exact Hr.
  - rewrite R1. rewrite <- Llo, <- (Len (nth (k - 1) t [])), col_all. apply row_ok_lemma. exact Hlo.
  - rewrite R1. rewrite <- Lhi, <- (Len (nth k t [])), col_all. apply row_ok_lemma. exact Hhi.
Qed.

(* ==================================================================== *)
(* 9. daily assimilation                                                 *)

(* GPHOT >= 0 and MAINT >= 0 when the sunshine duration handed to radia() is not negative (with radiation data the
   cloud fraction is clamped to [0,1] and no such hypothesis is needed) *)
Lemma assim_nonneg_lemma (x : as_in (T:=R)) :
  0 <= as_dgac x -> 0 <= as_dgao x -> 0 < as_dle x -> 0 <= as_trrel x -> 0 <= as_maint_pot x ->
  (as_rad x = 0 -> 0 <= as_sund x) ->
  0 <= fst (assim_of x) /\ 0 <= snd (assim_of x) /\
  (forall aspoo, 0 <= aspoo -> 0 <= fst (assim_of x) + aspoo).
Proof.
  intros Hc Ho Hd Ht Hm Hs.
  assert (HD : 0 <= assim_dtga x).
  { unfold assim_dtga. rsimp. destruct (RI.eqb_spec (as_rad x) 0) as [E|E].
    - specialize (Hs E).
      set (sund := if RI.ltb (as_dle x) (as_sund x) then as_dle x else as_sund x).
      assert (Hsd : 0 <= sund <= as_dle x).
      { unfold sund. destruct (RI.ltb_spec (as_dle x) (as_sund x)); lra. }
      assert (Hq : 0 <= sund / as_dle x <= 1).
      { split; [unfold Rdiv; apply Rmult_le_pos; [lra|apply Rlt_le, Rinv_0_lt_compat; lra]|].
        apply (Rmult_le_reg_r (as_dle x)); [lra|]. unfold Rdiv. rewrite Rmult_assoc, Rinv_l by lra. lra. }
      nra.
    - decs. rsimp.
      set (fov0 := (as_drc x - 1000000 * as_rad x * 1) / (8 / 10 * as_drc x)).
      set (fov1 := if RI.ltb 1 fov0 then 1 else fov0).
      assert (H1 : fov1 <= 1) by (unfold fov1; destruct (RI.ltb_spec 1 fov0); lra).
      destruct (RI.ltb_spec fov1 0); nra. }
  assert (HG : 0 <= assim_dtga x * 30 / 44) by (unfold Rdiv; nra).
  unfold assim_of. rsimp. set (g0 := assim_dtga x * 30 / 44) in *.
  set (g1 := if RI.ltb (as_trrel x) (as_vswell x) then g0 * as_trrel x else g0).
  assert (H1 : 0 <= g1) by (unfold g1; destruct (RI.ltb (as_trrel x) (as_vswell x)); nra).
  set (mt := if RI.ltb g1 (as_maint_pot x) then g1 else as_maint_pot x).
  assert (H2 : 0 <= mt) by (unfold mt; destruct (RI.ltb g1 (as_maint_pot x)); lra).
  cbn [fst snd]. destruct (as_cold x); repeat split; try lra; intros; lra.
Qed.

(* ... and the hypothesis is needed: a missing-value marker -99.9 h handed on as sunshine duration gives GPHOT < 0 *)
Lemma assim_negative_witness :
  let x := {| as_rad := 0; as_sund := -999 / 10; as_dle := 14; as_dgac := 400; as_dgao := 150; as_drc := 1;
              as_trrel := 1; as_vswell := 1; as_maint_pot := 20; as_cold := false |} in
  0 <= as_dgac x /\ 0 <= as_dgao x /\ 0 < as_dle x /\ 0 <= as_trrel x /\ 0 <= as_maint_pot x /\ fst (assim_of x) < 0.
Proof.
  cbv zeta. unfold assim_of, assim_dtga; cbn [as_rad as_sund as_dle as_dgac as_dgao as_drc as_trrel as_vswell as_maint_pot as_cold].
  rsimp. repeat (split; [lra|]).
  destruct (RI.eqb_spec 0 0); [|lra]. destruct (RI.ltb_spec 14 (-999 / 10)); [lra|].
  destruct (RI.ltb_spec 1 1); [lra|]. cbn [fst]. lra.
Qed.

(* ==================================================================== *)
(* 10. day lengths                                                       *)

Lemma limit1_range (v : R) : -1 <= limit1 v <= 1.
Proof.
  unfold limit1. rsimp. destruct (RI.ltb_spec 1 v); [lra|].
  match goal with |- context [RI.ltb v ?m] => destruct (RI.ltb_spec v m) end; lra.
Qed.

(* every day length lies in [0, 24] h as soon as the oracle value lies in [-pi/2, pi/2] ... *)
Lemma dl_hours_range (pi v : R) : 0 < pi -> - (pi / 2) <= v <= pi / 2 -> 0 <= dl_hours pi v <= 24.
Proof.
  intros Hp Hv. unfold dl_hours. rsimp. unfold two. rsimp.
  split.
  - unfold Rdiv. apply Rmult_le_pos; [nra|]. apply Rlt_le, Rinv_0_lt_compat. exact Hp.
  - apply (Rmult_le_reg_r pi); [exact Hp|]. unfold Rdiv. rewrite Rmult_assoc, Rinv_l by lra. nra.
Qed.

(* ... which the true arcsine delivers for EVERY argument the model passes (the clamp comes after the shift), for every
   latitude and day: 0 <= DL, DLE, DLP <= 24 *)
Lemma daylengths_range_lemma (sinld cosld s8 s6 : R) :
  let a := dl_args {| dl_sinld := sinld; dl_cosld := cosld; dl_s8 := s8; dl_s6 := s6; dl_pi := PI; dl_v0 := 0; dl_v1 := 0; dl_v2 := 0 |} in
  let x := {| dl_sinld := sinld; dl_cosld := cosld; dl_s8 := s8; dl_s6 := s6; dl_pi := PI;
              dl_v0 := asin (fst (fst a)); dl_v1 := asin (snd (fst a)); dl_v2 := asin (snd a) |} in
  (-1 <= fst (fst a) <= 1 /\ -1 <= snd (fst a) <= 1 /\ -1 <= snd a <= 1) /\
  (0 <= fst (fst (daylengths x)) <= 24 /\ 0 <= snd (fst (daylengths x)) <= 24 /\ 0 <= snd (daylengths x) <= 24).
Proof.
  cbv zeta. unfold dl_args, daylengths. cbn [fst snd dl_sinld dl_cosld dl_s8 dl_s6 dl_pi dl_v0 dl_v1 dl_v2].
  split; [repeat split; apply limit1_range|].
  repeat split; apply dl_hours_range; try apply PI_RGT_0; try apply asin_bound.
Qed.

(* ==================================================================== *)
(* 11. season means                                                      *)

(* the mean of per-day factors in [0,1] over the days between sowing and harvest is in [0,1], for every positive number
   of days and at most that many summed days (the crop does not emerge on the sowing day itself) *)
Lemma season_mean_range_lemma (vs : list R) (saat ernte : Z) :
  Forall (fun v => 0 <= v <= 1) vs -> (saat < ernte)%Z -> (Z.of_nat (length vs) <= ernte - saat)%Z ->
  0 <= season_mean (Rsum vs) saat ernte <= 1.
Proof.
  intros Hv Hd Hl. unfold season_mean. rsimp.
  assert (Hs : 0 <= Rsum vs <= INR (length vs)).
  { clear Hl. induction Hv as [|v l Hv0 _ IH]; [cbn; lra|]. cbn [Rsum length]. rewrite S_INR. lra. }
  assert (Hn : 0 < IZR (ernte - saat)) by (apply (IZR_lt 0); lia).
  assert (Hle : INR (length vs) <= IZR (ernte - saat)) by (rewrite INR_IZR_INZ; apply IZR_le; exact Hl).
  split.
  - unfold Rdiv. apply Rmult_le_pos; [lra|]. apply Rlt_le, Rinv_0_lt_compat. exact Hn.
  - apply (Rmult_le_reg_r (IZR (ernte - saat))); [exact Hn|]. unfold Rdiv. rewrite Rmult_assoc, Rinv_l by lra. lra.
Qed.

(* dividing by a difference of day-of-year numbers instead is wrong for crops that grow across the turn of the year *)
Lemma season_mean_doy_witness :
  let sow_doy := 278%Z in let harvest_doy := 213%Z in
  @div R RNum 150 (ofZ (harvest_doy - sow_doy)) < 0.
Proof. cbv zeta. rsimp. change (278)%Z with 278%Z. replace (IZR (213 - 278)) with (-65) by (rewrite minus_IZR; lra). lra. Qed.

(* ==================================================================== *)
(* stage days of the crop record                                         *)

Section StageDays.
  Context {T : Type} {NT : Num T}.

  Definition dev_clean (s : stage_st (T:=T)) : Prop := forall j, (st_k s < j)%nat -> nth j (st_dev s) 0%Z = 0%Z.

  Lemma stage_step_dev_clean (x : stage_in (T:=T)) (s : stage_st (T:=T)) : dev_clean s -> dev_clean (stage_step x s).
  Proof.
    intros H. unfold stage_step, stage_inc, stage_advance. cbn [st_k st_sum st_dev].
    destruct (_ && _ && (Z.of_nat (st_k s) + 1 <? si_nrentw x)%Z); cbn [st_k st_sum st_dev];
      destruct (_ && _); intros j Hj; cbn [st_k st_dev st_sum st_dates st_phyllo] in *.
    - rewrite nth_upd_other by lia. apply H. lia.
    - rewrite nth_upd_other by lia. apply H. lia.
    - apply H. exact Hj.
    - apply H. exact Hj.
  Qed.

  (* After the per-crop reset at sowing (all stage days 0) the stage day of every stage the crop has NOT reached is still 0
     after any sequence of days: a crop record never shows a stage day this crop did not produce *)
  Lemma stage_days_lemma (xs : list (stage_in (T:=T))) (s : stage_st (T:=T)) :
    dev_clean s -> dev_clean (stage_run xs s).
  Proof.
    revert s; induction xs as [|x r IH]; intros s H; cbn [stage_run]; [exact H|].
    apply IH. apply stage_step_dev_clean. exact H.
  Qed.
End StageDays.
