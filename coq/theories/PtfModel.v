(* PtfModel.v — the four pedotransfer functions (hermes/input.go:1112-1149) and calcWRed (hermes/init.go:100-109),
   written once over Num: at FloatNum they run and are compared bit for bit with hermes.PTF1..PTF4 /
   hermes.VerifCalcWRed; at RNum they are what Prop_C15 speaks about.
   Every decimal literal of the Go source is `dec m k` (= m / 10^k, one correctly rounded division = the
   binary64 constant the Go compiler emits).  Go evaluates a + b - c ... left to right, no fused multiply-add
   on amd64.  math.Pow(x, 2) and math.Pow(x, 3) (pure Go on amd64: square-and-multiply on the Frexp mantissa)
   equal x*x and x*(x*x); this is not assumed but checked bit for bit by the correspondence run on every case. *)
From Coq Require Import ZArith List Bool.
From Hermes Require Import Num.
Import ListNotations.

Section Ptf.
  Context {T : Type} {NT : Num T}.
  Local Open Scope num_scope.
  Local Notation "'#' m '/' k" := (dec m k) (at level 9, m at level 0, k at level 0).

  (* PTF by Toth 2015 (input.go:1113-1117): arguments organic carbon %, clay %, silt % *)
  Definition ptf1 (c ton sluf : T) : T * T :=
    let u := one / (c + one) in
    let fc := #2449/4 - #1887/4 * u + #4527/6 * ton + #1535/6 * sluf + #1442/6 * sluf * u
              - #511/7 * sluf * ton + #8676/7 * ton * u in
    let wmin := #9878/5 + #2127/6 * ton - #8366/7 * sluf - #767/4 * u + #3853/8 * sluf * ton
                + #233/5 * ton * u + #9498/7 * sluf * u in
    (fc, wmin).

  (* PTF by Batjes for pF 2.5 (input.go:1120-1124) *)
  Definition ptf2 (c ton sluf : T) : T * T :=
    ((#46/2 * ton + #3045/4 * sluf + #20703/4 * c) / ofZ 100,
     (#3624/4 * ton + #117/3 * sluf + #16054/4 * c) / ofZ 100).

  (* PTF by Batjes for pF 1.7 (input.go:1127-1132) *)
  Definition ptf3 (c ton sluf : T) : T * T :=
    ((#6681/4 * ton + #2614/4 * sluf + #2215/3 * c) / ofZ 100,
     (#3624/4 * ton + #117/3 * sluf + #16054/4 * c) / ofZ 100).

  (* PTF by Rawls et al. 2003 (input.go:1135-1149): arguments organic carbon %, clay %, sand %.
     The wilting-point polynomial is mirrored as written, including `0.104875*zet2*0.0159857*ix*zet2`. *)
  Definition ptf4 (c ton ssand : T) : T * T :=
    let ix := - #837531/6 + #430183/6 * c in
    let ix2 := ix * ix in
    let ix3 := ix * (ix * ix) in
    let yps := - #140744/5 + #661969/7 * ton in
    let yps2 := yps * yps in
    let yps3 := yps * (yps * yps) in
    let zet := - #151866/5 + #393284/7 * ssand in
    let zet2 := zet * zet in
    let zet3 := zet * (zet * zet) in
    let fc := (#297528/4 + #103544/4 *
      (#461615/7 + #290955/6 * ix - #496845/7 * ix2 + #704802/8 * ix3 + #269101/6 * yps
       - #176528/6 * ix * yps + #543138/7 * ix2 * yps + #1982/4 * yps2 - #60699/6 * yps3
       - #320249/6 * zet - #111693/7 * ix2 * zet + #14104/5 * yps * zet + #657345/7 * ix * yps * zet
       - #102026/6 * yps2 * zet - #4012/5 * zet2 + #160838/6 * ix * zet2 - #121392/6 * yps * zet2
       - #61667/6 * zet3)) / ofZ 100 in
    let wmin := (#142568/4 + #736318/5 *
      (#6865/5 + #108713/6 * ix - #157225/7 * ix2 + #102805/8 * ix3 + #886569/6 * yps
       - #223581/6 * ix * yps + #126379/7 * ix2 * yps + #135266/7 * ix * yps2 - #334434/7 * yps3
       - #535182/7 * zet - #354271/7 * ix * zet - #261313/8 * ix2 * zet - #154563/6 * yps * zet
       - #160219/7 * ix * yps * zet - #400606/7 * yps2 * zet - #104875/6 * zet2 * #159857/7 * ix * zet2
       - #671656/7 * yps * zet2 - #260699/7 * zet3)) / ofZ 100 in
    (fc, wmin).

  Definition ptf (k : Z) (c ton x : T) : T * T :=
    match k with
    | 1%Z => ptf1 c ton x | 2%Z => ptf2 c ton x | 3%Z => ptf3 c ton x | _ => ptf4 c ton x
    end.

  (* calcWRed (init.go:102-109): arguments in PERCENT, result a fraction; sand = (BART[0][0] == 'S') *)
  Definition calc_wred (sand : bool) (wp fc : T) : T :=
    (if sand then wp + #6/1 * (fc - wp) else wp + #66/2 * (fc - wp)) / ofZ 100.
End Ptf.
