(* C14Corr.v — decoding of harness observations and the mismatch function for the C14 correspondence:
   ConfigModel.read_config is run on the (project file, batch line) the real readConfig was run on
   (hermes.VerifReadConfig) and compared with every scalar field of the Config it returned, or with
   the fact that it ended the process.  The schema is the generated one (gen/ConfigSchema.v). *)
From Coq Require Import ZArith List Bool String.
From Hermes Require Import ConfigModel.
Import ListNotations.
Open Scope string_scope.

Record case := mk_case {
  c_root : string;                         (* hp.rootPath *)
  c_hasfile : bool;                        (* a config.yml exists before the first run *)
  c_file : list (string * value);          (* what the project file gives, decoded *)
  c_hist : list (list string);             (* batch lines run (real Run) on the same project before this one *)
  c_tokens : list string;                  (* the batch line after strings.Fields *)
  c_pf : list (string * option Z);         (* strconv.ParseFloat of every argument value *)
  c_obs : option (list (string * value))   (* None: log.Fatal; Some: fields differing from the defaults *)
}.

Definition pf_of (tbl : list (string * option Z)) (s : string) : option Z :=
  match assoc s tbl with Some r => r | None => None end.

Definition value_eqb (a b : value) : bool :=
  match a, b with
  | VFloat x, VFloat y => (x =? y)%Z
  | VInt x, VInt y => (x =? y)%Z
  | VStr x, VStr y => (x =? y)%string
  | VBool x, VBool y => Bool.eqb x y
  | _, _ => false
  end.

Fixpoint fields_ok (diff : list (string * value)) (cfg : config) (s : schema) : bool :=
  match cfg, s with
  | [], [] => true
  | (n, _, v) :: r, (n', _, d) :: r' =>
      (n =? n') && value_eqb v (match assoc n diff with Some v' => v' | None => d end) && fields_ok diff r r'
  | _, _ => false
  end.

Definition case_ok (s : schema) (c : case) : bool :=
  match read_config_seq (pf_of (c_pf c)) (c_root c) s
          (if c_hasfile c then Some (fun k => assoc k (c_file c)) else None) (c_hist c) (c_tokens c), c_obs c with
  | None, None => true
  | Some cfg, Some diff =>
      fields_ok diff cfg s &&
      forallb (fun e : string * value => match kind_of (fst e) s with Some _ => true | None => false end) diff
  | _, _ => false
  end.

Fixpoint mismatches (s : schema) (i : Z) (l : list case) : list Z :=
  match l with
  | [] => []
  | c :: r => if case_ok s c then mismatches s (i + 1) r else i :: mismatches s (i + 1) r
  end.

(* tokeniser cases: a stub batch line (bytes) and what the real hermes2go answered for it:
   the crop parameter name of "invalid crop parameter name: X", "" for "arguments required", "?" otherwise *)
Fixpoint string_of_codes (l : list Z) : string :=
  match l with [] => EmptyString | c :: r => String (Ascii.ascii_of_N (Z.to_N c)) (string_of_codes r) end.

Definition drop2 (s : string) : string := match s with String _ (String _ r) => r | _ => s end.

Definition tok_case_ok (c : list Z * string) : bool :=
  let '(codes, observed) := c in
  let m := glue_args (string_of_codes codes) in
  match assoc "project" m, assoc "plotNr" m with
  | Some _, Some _ =>
      match crop_view m with
      | [] => observed =? "?"
      | names => existsb (fun e : string * string => drop2 (fst e) =? observed) names
      end
  | _, _ => observed =? ""
  end.

Fixpoint tok_mismatches (i : Z) (l : list (list Z * string)) : list Z :=
  match l with
  | [] => []
  | c :: r => if tok_case_ok c then tok_mismatches (i + 1) r else i :: tok_mismatches (i + 1) r
  end.
