(* NitroProofs.v — C02/C07 lemmas about NitroModel read over the reals. *)
From Coq Require Import ZArith Reals List Bool Lia Lra.
From Hermes Require Import Num RUtil NitroModel.
Import ListNotations.
Local Open Scope R_scope.

Lemma gebR a b : @geb R RNum a b = true <-> b <= a.
Proof. unfold geb. cbn. destruct (RI.leb_spec b a); split; intros; try lra; congruence. Qed.
Lemma gebR_false a b : @geb R RNum a b = false <-> a < b.
Proof. unfold geb. cbn. destruct (RI.leb_spec b a); split; intros; try lra; congruence. Qed.

(* ---------------- telescoping over seq ---------------- *)
Lemma Rsum_seq_telescope (f : nat -> R) n s :
  Rsum (map (fun z0 => f (S z0) - f z0) (seq s n)) = f (s + n)%nat - f s.
Proof.
  revert s; induction n as [|n IH]; intros s; cbn [seq map Rsum].
  - rewrite Nat.add_0_r. lra.
  - rewrite IH. replace (S s + n)%nat with (s + S n)%nat by lia. lra.
Qed.

Lemma Rsum_seq_telescope_rev (f : nat -> R) n s :
  Rsum (map (fun z0 => f z0 - f (S z0)) (seq s n)) = f s - f (s + n)%nat.
Proof.
  revert s; induction n as [|n IH]; intros s; cbn [seq map Rsum].
  - rewrite Nat.add_0_r. lra.
  - rewrite IH. replace (S s + n)%nat with (s + S n)%nat by lia. lra.
Qed.

Lemma Rsum_seq_single (a : R) d n s :
  Rsum (map (fun z0 => if Nat.eqb (S z0) d then a else 0) (seq s n))
  = if (Nat.ltb s d && Nat.leb d (s + n))%bool then a else 0.
Proof.
  revert s; induction n as [|n IH]; intros s; cbn [seq map Rsum].
  - destruct (Nat.ltb_spec s d), (Nat.leb_spec d (s + 0)); cbn; try lra; lia.
  - rewrite IH.
    destruct (Nat.eqb_spec (S s) d), (Nat.ltb_spec (S s) d), (Nat.leb_spec d (S s + n)),
             (Nat.ltb_spec s d), (Nat.leb_spec d (s + S n)); cbn; try lra; lia.
Qed.

Lemma Rsum_map_plus {A} (f g : A -> R) l :
  Rsum (map (fun x => f x + g x) l) = Rsum (map f l) + Rsum (map g l).
Proof. induction l as [|x l IH]; cbn; [lra | rewrite IH; lra]. Qed.

Lemma Rsum_map_ext {A} (f g : A -> R) l : (forall x, In x l -> f x = g x) -> Rsum (map f l) = Rsum (map g l).
Proof.
  induction l as [|x l IH]; intros H; cbn; [reflexivity|].
  rewrite (H x (or_introl eq_refl)), IH; [reflexivity|]. intros y Hy. apply H. right. exact Hy.
Qed.

Lemma Rsum_map_le {A} (f g : A -> R) l : (forall x, In x l -> f x <= g x) -> Rsum (map f l) <= Rsum (map g l).
Proof.
  induction l as [|x l IH]; intros H; cbn; [lra|].
  pose proof (H x (or_introl eq_refl)). assert (Rsum (map f l) <= Rsum (map g l)) by (apply IH; intros; apply H; right; auto). lra.
Qed.

Lemma Rsum_map_nonneg {A} (f : A -> R) l : (forall x, In x l -> 0 <= f x) -> 0 <= Rsum (map f l).
Proof.
  induction l as [|x l IH]; intros H; cbn; [lra|].
  pose proof (H x (or_introl eq_refl)). assert (0 <= Rsum (map f l)) by (apply IH; intros; apply H; right; auto). lra.
Qed.

Lemma Rsum_map_scal {A} (c : R) (f : A -> R) l : Rsum (map (fun x => f x * c) l) = Rsum (map f l) * c.
Proof. induction l as [|x l IH]; cbn; [lra | rewrite IH; lra]. Qed.

(* ---------------- convective term: interface fluxes ---------------- *)
(* N flux through the lower boundary of layer z (z >= 1), 0 at the surface *)
Definition Fint (q1 carr : list R) (z : nat) : R :=
  match z with
  | O => 0
  | _ => if RI.leb 0 (get 0 q1 z) then get 0 carr z * get 0 q1 z else get 0 carr (S z) * get 0 q1 z
  end.

Lemma konv_interface draidep qdrain q1 carr z :
  (1 <= z)%nat -> get 0 carr 0 = 0 -> (get 0 q1 0 < 0 -> qdrain = 0) ->
  @konv_at R RNum draidep qdrain q1 carr z * 10 =
    Fint q1 carr z - Fint q1 carr (z - 1) + (if Nat.eqb z draidep then get 0 carr z * qdrain else 0).
Proof.
  intros Hz HC0 HQD. unfold konv_at, Fint. rsimp. unfold geb. rsimp.
  change (@DZN R RNum) with 10.
  destruct z as [|z]; [lia|]. cbn [Nat.sub]. rewrite Nat.sub_0_r.
  set (Qz := get 0 q1 (S z)). set (Qp := get 0 q1 z).
  set (Cz := get 0 carr (S z)). set (Cn := get 0 carr (S (S z))). set (Cp := get 0 carr z).
  destruct (RI.leb_spec 0 Qz) as [Hz0|Hz0]; destruct (RI.ltb_spec Qz 0) as [Hz1|Hz1]; try lra;
  destruct (RI.leb_spec 0 Qp) as [Hp0|Hp0]; destruct (RI.ltb_spec Qp 0) as [Hp1|Hp1]; try lra;
  cbn [andb]; destruct (Nat.eqb (S z) draidep); cbn [andb];
  destruct z as [|z']; cbn [Nat.ltb Nat.leb];
  try (unfold Cp; rewrite HC0); try lra;
  try (rewrite (HQD Hp1); lra).
Qed.

Lemma Fint_pos q1 carr z : (1 <= z)%nat ->
  Fint q1 carr z = if RI.leb 0 (get 0 q1 z) then get 0 carr z * get 0 q1 z else get 0 carr (S z) * get 0 q1 z.
Proof. destruct z; [lia | reflexivity]. Qed.

Lemma Fint_ext q1 carr z : Fint q1 carr z =
  match z with O => 0 | _ => if RI.leb 0 (get 0 q1 z) then get 0 carr z * get 0 q1 z else get 0 carr (S z) * get 0 q1 z end.
Proof. reflexivity. Qed.

Lemma konv_sum draidep qdrain q1 carr n :
  get 0 carr 0 = 0 -> (get 0 q1 0 < 0 -> qdrain = 0) ->
  Rsum (map (fun z0 => @konv_at R RNum draidep qdrain q1 carr (S z0) * 10) (seq 0 n))
  = Fint q1 carr n + (if (Nat.ltb 0 draidep && Nat.leb draidep n)%bool then get 0 carr draidep * qdrain else 0).
Proof.
  intros HC0 HQD.
  rewrite (Rsum_map_ext _ (fun z0 => (Fint q1 carr (S z0) - Fint q1 carr z0)
                                    + (if Nat.eqb (S z0) draidep then get 0 carr draidep * qdrain else 0))).
  - rewrite Rsum_map_plus, (Rsum_seq_telescope (Fint q1 carr)), Rsum_seq_single. cbn [Nat.add Fint]. lra.
  - intros z0 _. rewrite konv_interface by (try lia; assumption). cbn [Nat.sub]. rewrite Nat.sub_0_r.
    destruct (Nat.eqb_spec (S z0) draidep) as [<-|]; lra.
Qed.

(* ---------------- dispersive term telescopes to zero (n >= 2) ---------------- *)
Definition Gint (db carr : list R) (z : nat) : R :=   (* interface z | z+1, 1 <= z <= n-1; 0 outside *)
  get 0 db (z - 1) * (get 0 carr z - get 0 carr (S z)) / 100.

Lemma disp_sum (db carr : list R) n :
  (2 <= n)%nat ->
  Rsum (map (fun z0 => @disp_at R RNum n db carr (S z0)) (seq 0 n)) = 0.
Proof.
  intros Hn.
  set (H := fun z => if (Nat.ltb 0 z && Nat.ltb z n)%bool then Gint db carr z else 0).
  rewrite (Rsum_map_ext _ (fun z0 => H z0 - H (S z0))).
  - rewrite (Rsum_seq_telescope_rev H n 0). cbn [Nat.add].
    unfold H. rewrite (Nat.ltb_irrefl n), (Nat.ltb_irrefl 0), andb_false_r. cbn [andb]. lra.
  - intros z0 Hin. apply in_seq in Hin. unfold disp_at, H, Gint. rsimp.
    change (@HUNDRED R RNum) with 100.
    assert (E1 : forall a b, Nat.ltb a b = true <-> (a < b)%nat) by (intros; apply Nat.ltb_lt).
    assert (E2 : forall a b, Nat.ltb a b = false <-> (b <= a)%nat) by (intros; apply Nat.ltb_ge).
    destruct z0 as [|z0].
    + cbn [Nat.eqb Nat.sub].
      rewrite (proj2 (E2 0%nat 0%nat)), (proj2 (E1 0%nat 1%nat)), (proj2 (E1 1%nat n)) by lia. cbn [andb]. lra.
    + cbn [Nat.eqb Nat.sub]. rewrite !Nat.sub_0_r.
      rewrite (proj2 (E1 0%nat (S z0))), (proj2 (E1 (S z0) n)), (proj2 (E1 0%nat (S (S z0)))) by lia. cbn [andb].
      destruct (Nat.ltb_spec (S (S z0)) n) as [Hlt|Hge]; lra.
Qed.

(* ---------------- list <-> index bookkeeping ---------------- *)
Lemma get_map_seq (f : nat -> R) n i : (i < n)%nat -> get 0 (map f (seq 0 n)) i = f i.
Proof.
  intros Hi. unfold get. rewrite (nth_indep _ 0 (f 0%nat)) by (rewrite map_length, seq_length; exact Hi).
  rewrite map_nth, seq_nth by exact Hi. reflexivity.
Qed.

Lemma Rsum_as_seq (l : list R) : Rsum l = Rsum (map (fun i => get 0 l i) (seq 0 (length l))).
Proof.
  induction l as [|x l IH]; [reflexivity|].
  cbn [length seq map Rsum]. rewrite <- seq_shift, map_map. unfold get at 1. cbn [nth].
  rewrite IH. f_equal.
Qed.

Lemma get_map {A} (f : A -> R) (d : A) l i : (i < length l)%nat -> get 0 (map f l) i = f (nth i l d).
Proof.
  intros Hi. unfold get. rewrite (nth_indep _ 0 (f d)) by (rewrite map_length; exact Hi). apply map_nth.
Qed.

Lemma nth_combine' {A B} (l1 : list A) (l2 : list B) da db i :
  (i < length l1)%nat -> (i < length l2)%nat -> nth i (combine l1 l2) (da, db) = (nth i l1 da, nth i l2 db).
Proof.
  revert l2 i; induction l1 as [|a l1 IH]; intros [|b l2] [|i] H1 H2; cbn in *; try lia; auto.
  apply IH; lia.
Qed.

(* ---------------- the transport step: balance with explicit clamp slack ---------------- *)
Definition nmove_wf (x : nmove_in (T:=R)) (n : nat) : Prop :=
  (2 <= n)%nat /\ length (ni_c1 x) = n /\ length (ni_pe x) = n /\ length (ni_dn x) = n /\
  length (ni_ad x) = n /\ length (ni_expo x) = n /\ length (ni_wg0 x) = S n /\ length (ni_w x) = S n /\
  length (ni_q1 x) = S n /\ ni_outn x = n /\
  (forall z, (z < n)%nat -> 0 < get 0 (ni_wg0 x) z) /\
  (ni_fluss0 x * ni_wdt x < 0 -> ni_qdrain x = 0).

Lemma uptake1_ge (pe c1 : R) : c1 - fst (@uptake1 R RNum pe c1) <= snd (uptake1 pe c1).
Proof.
  unfold uptake1. cbn [fst snd]. rsimp. unfold gtb. rsimp.
  repeat match goal with |- context [RI.ltb ?a ?b] => destruct (RI.ltb_spec a b) end; lra.
Qed.

Lemma conc_ge (wdt c1 dn wg : R) : 0 < wg -> c1 + dn * wdt / 2 <= @conc R RNum wdt c1 dn wg * wg * 1000.
Proof.
  intros Hwg. unfold conc. rsimp. change (@DZN R RNum) with 10. change (@HUNDRED R RNum) with 100. unfold two. rsimp.
  set (X := c1 + dn * wdt / 2).
  assert (HX : X / (wg * 10 * 100) * wg * 1000 = X) by (field; lra).
  destruct (RI.ltb_spec (X / (wg * 10 * 100)) 0) as [Hneg|Hpos]; [|lra].
  assert (X < 0).
  { apply Rmult_lt_compat_r with (r := wg * 10 * 100) in Hneg; [|lra].
    replace (X / (wg * 10 * 100) * (wg * 10 * 100)) with X in Hneg by (field; lra). lra. }
  lra.
Qed.

(* ---------------- the transport step ---------------- *)
Section Balance.
  Variable x : nmove_in (T:=R).
  Variable n : nat.
  Hypothesis Hwf : nmove_wf x n.

  Let Hn : (2 <= n)%nat := proj1 Hwf.
  Lemma wf_lens : length (ni_c1 x) = n /\ length (ni_pe x) = n /\ length (ni_dn x) = n /\
                  length (ni_wg0 x) = S n /\ length (ni_q1 x) = S n /\ ni_outn x = n /\ nm_n x = n.
  Proof. pose proof Hwf as (_ & K1 & K2 & K3 & K4 & K5 & K6 & K7 & K8 & K9 & _). unfold nm_n. repeat split; assumption. Qed.

  Lemma ups_length : length (nm_ups x) = n.
  Proof. destruct wf_lens as (A & B & _). unfold nm_ups. rewrite map_length, combine_length. lia. Qed.

  Lemma c1u_length : length (nm_c1u x) = n.
  Proof. unfold nm_c1u. rewrite map_length. apply ups_length. Qed.

  Lemma carr_0 : get 0 (nm_carr x) 0 = 0.
  Proof. reflexivity. Qed.

  Lemma carr_S z : (z < n)%nat ->
    get 0 (nm_carr x) (S z) = conc (ni_wdt x) (get 0 (nm_c1u x) z) (get 0 (ni_dn x) z) (get 0 (ni_wg0 x) z).
  Proof.
    intros Hz. destruct wf_lens as (A & B & C & D & _). unfold nm_carr. unfold get at 1. cbn [nth].
    rewrite app_nth1 by (rewrite map_length, !combine_length, c1u_length; lia).
    match goal with |- nth z ?l 0 = _ => change (nth z l 0) with (get 0 l z) end.
    rewrite (get_map _ (0, 0, 0)) by (rewrite !combine_length, c1u_length; lia).
    rewrite (nth_combine' _ _ (0, 0) 0) by (rewrite ?combine_length, ?c1u_length; lia).
    rewrite (nth_combine' _ _ 0 0) by (rewrite ?c1u_length; lia). reflexivity.
  Qed.

  Lemma carr_last : get 0 (nm_carr x) (S n) = 0.
  Proof.
    destruct wf_lens as (A & B & C & D & _). unfold nm_carr, get. cbn [nth].
    rewrite app_nth2; rewrite map_length, !combine_length, c1u_length;
      replace (Nat.min (Nat.min n (length (ni_dn x))) (length (ni_wg0 x))) with n by lia; [|lia].
    rewrite Nat.sub_diag. reflexivity.
  Qed.

  Lemma q1_0 : get 0 (nm_q1 x) 0 = ni_fluss0 x * ni_wdt x.
  Proof. reflexivity. Qed.

  (* sum of the pre-clamp new contents *)
  Lemma ckonz_sum :
    Rsum (nm_ckonz x) =
      Rsum (map (fun z0 => get 0 (nm_carr x) (S z0) * get 0 (ni_wg0 x) z0 * 1000) (seq 0 n))
      - 100 * (Fint (nm_q1 x) (nm_carr x) n
               + (if (Nat.ltb 0 (ni_draidep x) && Nat.leb (ni_draidep x) n)%bool
                  then get 0 (nm_carr x) (ni_draidep x) * ni_qdrain x else 0)).
  Proof.
    destruct wf_lens as (A & B & C & D & E & F & G).
    pose proof Hwf as (_ & _ & _ & _ & _ & _ & _ & _ & _ & _ & _ & HQD).
    unfold nm_ckonz. rewrite G. rsimp. change (@DZN R RNum) with 10. change (@HUNDRED R RNum) with 100.
    rewrite (Rsum_map_ext _ (fun z0 =>
               get 0 (nm_carr x) (S z0) * get 0 (ni_wg0 x) z0 * 1000
               + (get 0 (nm_disp x) z0 * 1000 + (- 100) * (get 0 (nm_konv x) z0 * 10)))) by (intros; lra).
    rewrite Rsum_map_plus. rewrite (Rsum_map_plus (fun z0 => get 0 (nm_disp x) z0 * 1000)).
    rewrite (Rsum_map_scal 1000 (fun z0 => get 0 (nm_disp x) z0)).
    rewrite (Rsum_map_ext (fun z0 => -100 * (get 0 (nm_konv x) z0 * 10))
                          (fun z0 => (konv_at (ni_draidep x) (ni_qdrain x) (nm_q1 x) (nm_carr x) (S z0) * 10) * (-100))).
    2:{ intros z0 Hin. apply in_seq in Hin. unfold nm_konv. rewrite G, get_map_seq by lia. lra. }
    rewrite (Rsum_map_scal (-100) (fun z0 => konv_at (ni_draidep x) (ni_qdrain x) (nm_q1 x) (nm_carr x) (S z0) * 10)).
    rewrite konv_sum by (try exact carr_0; rewrite q1_0; exact HQD).
    rewrite (Rsum_map_ext (fun z0 => get 0 (nm_disp x) z0) (fun z0 => disp_at n (nm_db x) (nm_carr x) (S z0))).
    2:{ intros z0 Hin. apply in_seq in Hin. unfold nm_disp. rewrite G, get_map_seq by lia. reflexivity. }
    rewrite disp_sum by exact Hn. lra.
  Qed.

  (* explicit clamp slack: each term is what a non-negativity clamp added *)
  Definition slack_uptake : R :=
    Rsum (map (fun z => get 0 (nm_c1u x) z - (get 0 (ni_c1 x) z - (if ni_subd1 x then get 0 (nm_pe x) z else 0))) (seq 0 n)).
  Definition slack_conc : R :=
    Rsum (map (fun z => get 0 (nm_carr x) (S z) * get 0 (ni_wg0 x) z * 1000
                        - (get 0 (nm_c1u x) z + get 0 (ni_dn x) z * ni_wdt x / 2)) (seq 0 n)).
  Definition slack_ckonz : R :=
    Rsum (map (fun z => get 0 (nm_c1k x) z - get 0 (nm_ckonz x) z) (seq 0 n)).
  Definition slack_final : R :=
    Rsum (map (fun z => get 0 (nm_c1 x) z - (get 0 (nm_c1k x) z + get 0 (ni_dn x) z * ni_wdt x / 2)) (seq 0 n)).

  Lemma ups_nth z : (z < n)%nat ->
    nth z (nm_ups x) (0, 0) = if ni_subd1 x then uptake1 (get 0 (ni_pe x) z) (get 0 (ni_c1 x) z)
                              else (get 0 (ni_pe x) z, get 0 (ni_c1 x) z).
  Proof.
    intros Hz. destruct wf_lens as (A & B & _). unfold nm_ups.
    assert (G : forall {A B} (f : A -> B) d d' l i, (i < length l)%nat -> nth i (map f l) d' = f (nth i l d)).
    { intros A0 B0 f d d' l i Hi. rewrite (nth_indep _ d' (f d)) by (rewrite map_length; exact Hi). apply map_nth. }
    rewrite (G _ _ _ (0, 0)) by (rewrite combine_length; lia).
    rewrite (nth_combine' _ _ 0 0) by lia. reflexivity.
  Qed.

  Lemma slack_uptake_nonneg : 0 <= slack_uptake.
  Proof.
    unfold slack_uptake. apply Rsum_map_nonneg.
    intros z Hin. apply in_seq in Hin.
    unfold nm_c1u, nm_pe. rewrite (get_map snd (0, 0)), ?(get_map fst (0, 0)) by (rewrite ups_length; lia).
    rewrite ups_nth by lia. destruct (ni_subd1 x); cbn [fst snd]; [|lra].
    pose proof (uptake1_ge (get 0 (ni_pe x) z) (get 0 (ni_c1 x) z)). lra.
  Qed.

  Lemma slack_conc_nonneg : 0 <= slack_conc.
  Proof.
    unfold slack_conc. apply Rsum_map_nonneg.
    intros z Hin. apply in_seq in Hin. rewrite carr_S by lia.
    pose proof Hwf as (_ & _ & _ & _ & _ & _ & _ & _ & _ & _ & Hpos & _).
    pose proof (conc_ge (ni_wdt x) (get 0 (nm_c1u x) z) (get 0 (ni_dn x) z) (get 0 (ni_wg0 x) z) (Hpos z ltac:(lia))). lra.
  Qed.

  Lemma ckonz_length : length (nm_ckonz x) = n.
  Proof. destruct wf_lens as (_ & _ & _ & _ & _ & _ & G). unfold nm_ckonz. rewrite map_length, seq_length. exact G. Qed.

  Lemma slack_ckonz_nonneg : 0 <= slack_ckonz.
  Proof.
    unfold slack_ckonz. apply Rsum_map_nonneg.
    intros z Hin. apply in_seq in Hin. unfold nm_c1k.
    rewrite (get_map _ 0) by (rewrite ckonz_length; lia). fold (get 0 (nm_ckonz x) z). rsimp.
    destruct (RI.ltb_spec (get 0 (nm_ckonz x) z) 0); lra.
  Qed.

  Lemma c1k_length : length (nm_c1k x) = n.
  Proof. unfold nm_c1k. rewrite map_length. apply ckonz_length. Qed.

  Lemma c1_nth z : (z < n)%nat ->
    get 0 (nm_c1 x) z = let c2 := get 0 (nm_c1k x) z + get 0 (ni_dn x) z * ni_wdt x / 2 in
                        if RI.ltb c2 0 then 0 else c2.
  Proof.
    intros Hz. destruct wf_lens as (A & B & C & _). unfold nm_c1.
    rewrite (get_map _ (0, 0)) by (rewrite combine_length, c1k_length; lia).
    rewrite (nth_combine' _ _ 0 0) by (rewrite ?c1k_length; lia). reflexivity.
  Qed.

  Lemma slack_final_nonneg : 0 <= slack_final.
  Proof.
    unfold slack_final. apply Rsum_map_nonneg.
    intros z Hin. apply in_seq in Hin. rewrite c1_nth by lia. cbv zeta.
    destruct (RI.ltb_spec (get 0 (nm_c1k x) z + get 0 (ni_dn x) z * ni_wdt x / 2) 0); lra.
  Qed.

  Lemma c1_length : length (nm_c1 x) = n.
  Proof. destruct wf_lens as (A & B & C & _). unfold nm_c1. rewrite map_length, combine_length, c1k_length. lia. Qed.

  Lemma pe_length : length (nm_pe x) = n.
  Proof. unfold nm_pe. rewrite map_length. apply ups_length. Qed.

  (* leaching and drain counters at OUTN = N *)
  Lemma outsum_delta : nm_add_out x (ni_outsum x) - ni_outsum x = 100 * Fint (nm_q1 x) (nm_carr x) n.
  Proof.
    destruct wf_lens as (A & B & C & D & E & F & G).
    unfold nm_add_out. cbv zeta. rewrite F, G, Nat.ltb_irrefl.
    rewrite Fint_pos by lia. rsimp. unfold gtb. rsimp.
    change (@DZN R RNum) with 10. change (@HUNDRED R RNum) with 100.
    destruct (RI.ltb_spec 0 (get 0 (nm_q1 x) n)) as [Hp|Hp];
      destruct (RI.leb_spec 0 (get 0 (nm_q1 x) n)) as [Hq|Hq]; try lra.
    - assert (E0 : get 0 (nm_q1 x) n = 0) by lra. rewrite E0. lra.
    - rewrite carr_last. lra.
  Qed.

  Lemma drainloss_delta :
    nm_drainloss x - ni_drainloss x =
      100 * (if (Nat.ltb 0 (ni_draidep x) && Nat.leb (ni_draidep x) n)%bool
             then get 0 (nm_carr x) (ni_draidep x) * ni_qdrain x else 0).
  Proof.
    unfold nm_drainloss. rsimp. change (@DZN R RNum) with 10. change (@HUNDRED R RNum) with 100.
    destruct (Nat.ltb_spec 0 (ni_draidep x)) as [Hd|Hd]; cbn [andb].
    - destruct (Nat.leb_spec (ni_draidep x) n) as [Hle|Hgt]; [field|].
      assert (E : get 0 (nm_carr x) (ni_draidep x) = 0).
      { destruct (Nat.eq_dec (ni_draidep x) (S n)) as [->|Hne]; [apply carr_last|].
        destruct wf_lens as (A & B & C & D & _). unfold get. apply nth_overflow.
        unfold nm_carr. cbn [length]. rewrite app_length, map_length, !combine_length, c1u_length. cbn [length]. lia. }
      rewrite E. lra.
    - replace (ni_draidep x) with 0%nat by lia. rewrite carr_0. lra.
  Qed.

  (* C02: the transport step's balance, with the non-negativity clamps made explicit *)
  Lemma nmove_balance_lemma :
    Rsum (nm_c1 x) =
      Rsum (ni_c1 x) - (if ni_subd1 x then Rsum (nm_pe x) else 0) + Rsum (ni_dn x) * ni_wdt x
      - (nm_add_out x (ni_outsum x) - ni_outsum x) - (nm_drainloss x - ni_drainloss x)
      + (slack_uptake + slack_conc + slack_ckonz + slack_final).
  Proof.
    destruct wf_lens as (A & B & C & D & E & F & G).
    rewrite outsum_delta, drainloss_delta.
    rewrite (Rsum_as_seq (nm_c1 x)), c1_length.
    rewrite (Rsum_as_seq (ni_c1 x)), A.
    rewrite (Rsum_as_seq (ni_dn x)), C.
    assert (Epe : (if ni_subd1 x then Rsum (nm_pe x) else 0)
                  = Rsum (map (fun z => if ni_subd1 x then get 0 (nm_pe x) z else 0) (seq 0 n))).
    { destruct (ni_subd1 x); [rewrite (Rsum_as_seq (nm_pe x)), pe_length; reflexivity | rewrite Rsum_map_zero; reflexivity]. }
    rewrite Epe.
    pose proof ckonz_sum as HCK. rewrite (Rsum_as_seq (nm_ckonz x)), ckonz_length in HCK.
    unfold slack_uptake, slack_conc, slack_ckonz, slack_final.
    (* everything is a sum over seq 0 n: combine them *)
    set (S1 := Rsum (map (fun i => get 0 (nm_c1 x) i) (seq 0 n))).
    set (Sc1 := Rsum (map (fun i => get 0 (ni_c1 x) i) (seq 0 n))).
    set (Sdn := Rsum (map (fun i => get 0 (ni_dn x) i) (seq 0 n))).
    set (Spe := Rsum (map (fun z => if ni_subd1 x then get 0 (nm_pe x) z else 0) (seq 0 n))).
    set (Sck := Rsum (map (fun i => get 0 (nm_ckonz x) i) (seq 0 n))) in *.
    set (Scw := Rsum (map (fun z0 => get 0 (nm_carr x) (S z0) * get 0 (ni_wg0 x) z0 * 1000) (seq 0 n))) in *.
    assert (L1 : Rsum (map (fun z => get 0 (nm_c1u x) z - (get 0 (ni_c1 x) z - (if ni_subd1 x then get 0 (nm_pe x) z else 0))) (seq 0 n))
                 = Rsum (map (fun z => get 0 (nm_c1u x) z) (seq 0 n)) - Sc1 + Spe).
    { unfold Sc1, Spe. generalize (seq 0 n). induction l as [|a l IH]; cbn [map Rsum]; [lra | rewrite IH; lra]. }
    assert (L2 : Rsum (map (fun z => get 0 (nm_carr x) (S z) * get 0 (ni_wg0 x) z * 1000
                                     - (get 0 (nm_c1u x) z + get 0 (ni_dn x) z * ni_wdt x / 2)) (seq 0 n))
                 = Scw - Rsum (map (fun z => get 0 (nm_c1u x) z) (seq 0 n)) - Sdn * ni_wdt x / 2).
    { unfold Scw, Sdn. generalize (seq 0 n). induction l as [|a l IH]; cbn [map Rsum]; [lra | rewrite IH; lra]. }
    assert (L3 : Rsum (map (fun z => get 0 (nm_c1k x) z - get 0 (nm_ckonz x) z) (seq 0 n))
                 = Rsum (map (fun z => get 0 (nm_c1k x) z) (seq 0 n)) - Sck).
    { unfold Sck. generalize (seq 0 n). induction l as [|a l IH]; cbn [map Rsum]; [lra | rewrite IH; lra]. }
    assert (L4 : Rsum (map (fun z => get 0 (nm_c1 x) z - (get 0 (nm_c1k x) z + get 0 (ni_dn x) z * ni_wdt x / 2)) (seq 0 n))
                 = S1 - Rsum (map (fun z => get 0 (nm_c1k x) z) (seq 0 n)) - Sdn * ni_wdt x / 2).
    { unfold S1, Sdn. generalize (seq 0 n). induction l as [|a l IH]; cbn [map Rsum]; [lra | rewrite IH; lra]. }
    rewrite L1, L2, L3, L4. lra.
  Qed.

  Lemma slack_nonneg : 0 <= slack_uptake + slack_conc + slack_ckonz + slack_final.
  Proof.
    pose proof slack_uptake_nonneg. pose proof slack_conc_nonneg.
    pose proof slack_ckonz_nonneg. pose proof slack_final_nonneg. lra.
  Qed.
End Balance.

(* ---------------- instability flag ---------------- *)
Lemma unstable_iff (x : nmove_in (T:=R)) :
  ni_stab x <= 0 ->
  (no_unstable (nmove x) = true <-> exists ck, In ck (nm_ckonz x) /\ ck < ni_stab x).
Proof.
  intros Hs. cbn [no_unstable nmove]. rewrite existsb_exists. split.
  - intros (ck & Hin & H). exists ck. split; [exact Hin|].
    apply andb_true_iff in H as [_ H]. apply ltbR in H. exact H.
  - intros (ck & Hin & H). exists ck. split; [exact Hin|].
    apply andb_true_iff. split; apply ltbR; rsimp; lra.
Qed.

(* ---------------- uptake and fixation are credited on the first sub-step only ---------------- *)
Lemma credit_sum (s : R) (pes : list R) : @credit R RNum s pes = s + Rsum pes.
Proof. revert s; induction pes as [|p r IH]; intros s; cbn [credit Rsum]; [lra | rewrite IH; rsimp; lra]. Qed.

Lemma uptake_once_lemma (x : nmove_in (T:=R)) :
  let o := nmove x in
  (ni_subd1 x = true ->
     no_aufnasum o - ni_aufnasum x = Rsum (no_pe o) /\
     no_pesum o - ni_pesum x = Rsum (no_pe o) + (if ni_growing x then ni_schnorr x else 0)) /\
  (ni_subd1 x = false -> no_aufnasum o = ni_aufnasum x /\ no_pesum o = ni_pesum x).
Proof.
  cbv zeta. cbn [no_aufnasum no_pesum no_pe nmove]. split; intros Hs; rewrite Hs; cbn [andb].
  - rewrite !credit_sum. destruct (ni_growing x); rsimp; split; lra.
  - split; reflexivity.
Qed.

(* ---------------- mineralisation bookkeeping (C07) ---------------- *)
Lemma clamp01_range (v : R) : 0 <= @clamp01 R RNum v <= 1.
Proof.
  unfold clamp01, gtb. rsimp.
  repeat match goal with |- context [RI.ltb ?a ?b] => destruct (RI.ltb_spec a b) end; lra.
Qed.

(* what leaves an organic pool is what its mineralised-amount counter gains; pools stay non-negative when the
   daily rate constants are at most 1; dissolved fertiliser moves towards, and never beyond, the amount applied *)
Lemma mineral_layer_books z (l : mineral_layer_in (T:=R)) (g : mineral_glob (T:=R)) :
  let '(o, g') := mineral_layer z l g in
  mo_naos o + mo_minaos o = ml_naos l + ml_minaos l /\
  mo_nfos o + mo_minfos o = ml_nfos l + ml_minfos l /\
  mo_naos o <= ml_naos l /\ mo_nfos o <= ml_nfos l /\
  mg_ums g' = mg_ums g + mo_dums o /\ mg_nh4ums g' = mg_nh4ums g + mo_dnh4ums o /\
  mg_dsumm g' = mg_dsumm g /\ mg_nh4sum g' = mg_nh4sum g /\
  (* net mineralisation + dissolved fertiliser - N2O = the source term handed to the transport *)
  mo_dn o = (mo_minaos o - ml_minaos l) + (mo_minfos o - ml_minfos l) + mo_dums o
            - (mg_n2onitsum g' - mg_n2onitsum g).
Proof.
  unfold mineral_layer. rsimp.
  destruct (RI.ltb 0 (ml_tempbo l)); lazy beta iota zeta; cbn [mo_naos mo_minaos mo_nfos mo_minfos mo_dn mo_dums mo_dnh4ums mg_ums mg_nh4ums mg_dsumm mg_nh4sum mg_n2onitsum].
  - set (mired := clamp01 _).
    repeat match goal with |- context [RI.ltb ?a 0] => destruct (RI.ltb_spec a 0) end; repeat split; try lra.
  - repeat split; lra.
Qed.

Lemma pool_step_nonneg (k a m : R) : 0 <= k <= 1 -> 0 <= m <= 1 -> 0 <= a -> 0 <= a - k * a * m.
Proof.
  intros Hk Hm Ha. assert (0 <= k * m <= 1) by nra.
  replace (a - k * a * m) with (a * (1 - k * m)) by ring. apply Rmult_le_pos; lra.
Qed.

Lemma mineral_layer_nonneg z (l : mineral_layer_in (T:=R)) (g : mineral_glob (T:=R)) :
  0 <= ml_naos l -> 0 <= ml_nfos l ->
  0 <= 4000000000 * ml_e0 l <= 1 -> 0 <= 5600000000000 * ml_e1 l <= 1 ->
  let '(o, g') := mineral_layer z l g in 0 <= mo_naos o /\ 0 <= mo_nfos o.
Proof.
  intros Ha Hf H0 H1. unfold mineral_layer. rsimp.
  destruct (RI.ltb 0 (ml_tempbo l)); lazy beta iota zeta; cbn [mo_naos mo_nfos]; [|split; assumption].
  pose proof (clamp01_range
    (if (RI.leb (ml_wg0 l) (ml_wnor l) && geb (ml_wg0 l) (mg_wred g))%bool then 1
     else if (RI.ltb (ml_wg0 l) (mg_wred g) && gtb (ml_wg0 l) (ml_wmin l))%bool
          then (ml_wg0 l - ml_wmin l) / (mg_wred g - ml_wmin l)
          else if gtb (ml_wg0 l) (ml_wnor l) then (ml_porges l - ml_wg0 l) / (ml_porges l - ml_wnor l) else 0)) as Hm.
  set (mired := clamp01 _) in *.
  repeat match goal with |- context [RI.ltb ?a 0] => destruct (RI.ltb_spec a 0) end; split; try lra;
    apply pool_step_nonneg; assumption.
Qed.

Lemma ums_bounded_lemma z (l : mineral_layer_in (T:=R)) (g : mineral_glob (T:=R)) :
  0 <= mg_ums g <= mg_dsumm g -> 0 < ml_tempbo l ->
  let '(o, g') := mineral_layer z l g in mg_ums g <= mg_ums g' <= mg_dsumm g.
Proof.
  intros Hu Ht. unfold mineral_layer. rsimp.
  destruct (RI.ltb_spec 0 (ml_tempbo l)) as [_|Hc]; [|lra]. lazy beta iota zeta. cbn [mg_ums].
  pose proof (clamp01_range
    (if (RI.leb (ml_wg0 l) (ml_wnor l) && geb (ml_wg0 l) (mg_wred g))%bool then 1
     else if (RI.ltb (ml_wg0 l) (mg_wred g) && gtb (ml_wg0 l) (ml_wmin l))%bool
          then (ml_wg0 l - ml_wmin l) / (mg_wred g - ml_wmin l)
          else if gtb (ml_wg0 l) (ml_wnor l) then (ml_porges l - ml_wg0 l) / (ml_porges l - ml_wnor l) else 0)) as Hm.
  set (mired := clamp01 _) in *.
  assert (Hd : @dec R RNum 4 1 = 4 / 10) by (unfold dec; cbn; lra).
  destruct (Nat.eqb z 1); rewrite ?Hd; split; try lra; nra.
Qed.

(* ---------------- denitrification (C02/C07) ---------------- *)
Lemma denitr_books (x : denit_in (T:=R)) :
  length (di_c1 x) = 3%nat -> Forall (fun c => 0 <= c) (di_c1 x) ->
  let o := denitr x in
  Forall (fun c => 0 <= c) (do_c1 o) /\
  (* the counter gains at least what the three layers lose: the clamp can only leave N in the soil *)
  Rsum (di_c1 x) - (do_cumdenit o - di_cumdenit x) <= Rsum (do_c1 o) /\
  (0 <= do_denit o -> Rsum (do_c1 o) <= Rsum (di_c1 x)).
Proof.
  intros L HF. destruct (di_c1 x) as [|c0 [|c1 [|c2 [|]]]] eqn:E; try (cbn in L; lia).
  inversion HF as [|? ? H0 HF1]; subst. inversion HF1 as [|? ? H1 HF2]; subst. inversion HF2 as [|? ? H2 _]; subst.
  unfold denitr. rewrite E. unfold get. cbn [nth]. rsimp. unfold gtb. rsimp.
  set (nit := c0 + c1 + c2).
  destruct (RI.ltb_spec 0 nit) as [Hn|Hn].
  2:{ cbn [do_c1 do_cumdenit do_denit Rsum]. repeat split; try lra. exact HF. }
  cbn [do_c1 do_cumdenit do_denit map Rsum].
  set (dn := _ / 1000).
  assert (Hfr : forall c, 0 <= c -> c / nit * nit = c) by (intros; field; lra).
  assert (Hsum : c0 / nit + c1 / nit + c2 / nit = 1) by (unfold nit; field; unfold nit in Hn; lra).
  assert (F0 : 0 <= c0 / nit) by (unfold Rdiv; apply Rmult_le_pos; [lra | left; apply Rinv_0_lt_compat; lra]).
  assert (F1 : 0 <= c1 / nit) by (unfold Rdiv; apply Rmult_le_pos; [lra | left; apply Rinv_0_lt_compat; lra]).
  assert (F2 : 0 <= c2 / nit) by (unfold Rdiv; apply Rmult_le_pos; [lra | left; apply Rinv_0_lt_compat; lra]).
  repeat match goal with |- context [RI.ltb ?a ?b] => destruct (RI.ltb_spec a b) end;
    (split; [repeat (apply Forall_cons; [lra|]); apply Forall_nil | split; [nra | intros Hd; nra]]).
Qed.

Lemma c1_nonneg_lemma (x : nmove_in (T:=R)) (n : nat) :
  nmove_wf x n -> forall z, (z < n)%nat -> 0 <= get 0 (nm_c1 x) z.
Proof.
  intros Hwf z Hz. rewrite (c1_nth x n Hwf z Hz). cbv zeta.
  destruct (RI.ltb_spec (get 0 (nm_c1k x) z + get 0 (ni_dn x) z * ni_wdt x / 2) 0); lra.
Qed.

(* ---------------- Denitmo (peat soils): the counter gains at least what the soil loses ---------------- *)
Lemma denit_layer_bounds (c fr d : R) :
  0 <= c -> 0 <= fr -> 0 <= @denit_layer R RNum c fr d /\ c - d * fr <= denit_layer c fr d /\
  (0 <= d -> denit_layer c fr d <= c).
Proof.
  intros Hc Hfr. unfold denit_layer, gtb. rsimp.
  destruct (RI.ltb_spec 0 fr); [destruct (RI.ltb_spec (c - d * fr) 0)|]; repeat split; intros; try lra; try nra;
    assert (fr = 0) by lra; subst; lra.
Qed.

Definition frac_of (nit v : R) : R := if RI.ltb 0 nit then v / nit else 0.

Lemma block_sum (a b c d : R) (swap : bool) :
  0 <= a -> 0 <= b -> 0 <= c -> (a + b + c <= 0 -> d = 0) ->
  let n := a + b + c in
  let fb := if swap then frac_of n c else frac_of n b in
  let fc := if swap then frac_of n b else frac_of n c in
  0 <= @denit_layer R RNum a (frac_of n a) d /\ 0 <= @denit_layer R RNum b fb d /\ 0 <= @denit_layer R RNum c fc d /\
  n - d <= @denit_layer R RNum a (frac_of n a) d + @denit_layer R RNum b fb d + @denit_layer R RNum c fc d.
Proof.
  intros Ha Hb Hc Hd n fb fc.
  assert (Hf : forall v, 0 <= v -> 0 <= frac_of n v).
  { intros v Hv. unfold frac_of. destruct (RI.ltb_spec 0 n); [|lra].
    unfold Rdiv. apply Rmult_le_pos; [lra | left; apply Rinv_0_lt_compat; lra]. }
  pose proof (denit_layer_bounds a (frac_of n a) d Ha (Hf a Ha)) as (A0 & A1 & _).
  pose proof (denit_layer_bounds b fb d Hb ltac:(unfold fb; destruct swap; auto)) as (B0 & B1 & _).
  pose proof (denit_layer_bounds c fc d Hc ltac:(unfold fc; destruct swap; auto)) as (C0 & C1 & _).
  repeat split; try assumption.
  assert (Hs : d * frac_of n a + d * fb + d * fc = (if RI.ltb 0 n then d else 0)).
  { unfold fb, fc, frac_of. destruct (RI.ltb_spec 0 n) as [Hp|Hp].
    - destruct swap; unfold n in *; field; lra.
    - destruct swap; lra. }
  destruct (RI.ltb_spec 0 n) as [Hp|Hp]; unfold n in *.
  - lra.
  - rewrite (Hd ltac:(lra)) in *. lra.
Qed.

Lemma block_rate_zero (nit nq fth fte : R) : nit <= 0 -> @block_rate R RNum nit nq fth fte = 0.
Proof. intros H. unfold block_rate, gtb. rsimp. destruct (RI.ltb_spec 0 nit); [lra | reflexivity]. Qed.

Lemma denitmo_books (x : denitmo_in (T:=R)) :
  length (dm_c1 x) = 9%nat -> Forall (fun c => 0 <= c) (dm_c1 x) ->
  let o := denitmo x in
  Forall (fun c => 0 <= c) (dmo_c1 o) /\
  Rsum (dm_c1 x) - (dmo_cum o - dm_cum x) <= Rsum (dmo_c1 o).
Proof.
  intros L HF.
  destruct (dm_c1 x) as [|c0 [|c1 [|c2 [|c3 [|c4 [|c5 [|c6 [|c7 [|c8 [|]]]]]]]]]] eqn:E; try (cbn in L; lia).
  repeat match goal with H : Forall _ (_ :: _) |- _ => inversion H; clear H; subst end.
  unfold denitmo. rewrite E. unfold get. cbn [nth]. cbv zeta. cbn [dmo_c1 dmo_cum Rsum]. unfold gtb. rsimp.
  set (d1 := block_rate (c0 + c1 + c2) _ _ _). set (d2 := block_rate (c3 + c4 + c5) _ _ _).
  set (d3 := block_rate (c6 + c7 + c8) _ _ _).
  pose proof (block_sum c0 c1 c2 d1 false ltac:(assumption) ltac:(assumption) ltac:(assumption)
                (fun H => block_rate_zero _ _ _ _ H)) as (A0 & A1 & A2 & AS).
  pose proof (block_sum c3 c4 c5 d2 false ltac:(assumption) ltac:(assumption) ltac:(assumption)
                (fun H => block_rate_zero _ _ _ _ H)) as (B0 & B1 & B2 & BS).
  pose proof (block_sum c6 c7 c8 d3 true ltac:(assumption) ltac:(assumption) ltac:(assumption)
                (fun H => block_rate_zero _ _ _ _ H)) as (C0 & C1 & C2 & CS).
  cbv zeta in *. unfold frac_of in *.
  split; [repeat (apply Forall_cons; [assumption|]); apply Forall_nil | lra].
Qed.

(* ---------------- tillage mixing conserves every pool over the mixing depth ---------------- *)
Lemma sum_first_spec m : forall (s : R) l, (m <= length l)%nat -> @sum_first R RNum m s l = s + Rsum (firstn m l).
Proof.
  induction m as [|m IH]; intros s l Hm; [cbn; lra|].
  destruct l as [|x r]; [cbn in Hm; lia|]. cbn [sum_first firstn Rsum]. rewrite IH by (cbn in Hm; lia). rsimp. lra.
Qed.

Lemma set_first_sum m : forall (v : R) l, (m <= length l)%nat ->
  Rsum (@set_first R m v l) = INR m * v + Rsum (skipn m l) /\ length (set_first m v l) = length l.
Proof.
  induction m as [|m IH]; intros v l Hm; [cbn; split; [lra|reflexivity]|].
  destruct l as [|x r]; [cbn in Hm; lia|]. cbn [set_first skipn Rsum length].
  destruct (IH v r ltac:(cbn in Hm; lia)) as [E L]. rewrite E, L, S_INR. split; [lra|reflexivity].
Qed.

Lemma mix_pool_conserves (pool : list R) m :
  (1 <= m <= length pool)%nat -> Rsum (@mix_pool R RNum (INR m) m pool) = Rsum pool.
Proof.
  intros Hm. unfold mix_pool. destruct (set_first_sum m (sum_first m zero pool / INR m)%num pool ltac:(lia)) as [E _].
  rewrite E, sum_first_spec by lia. rsimp.
  assert (INR m <> 0) by (apply not_0_INR; lia).
  rewrite <- (firstn_skipn m pool) at 3. rewrite Rsum_app. field. assumption.
Qed.

Lemma mix_c1_only_adds (c1 : list R) m :
  (1 <= m <= length c1)%nat -> Rsum c1 <= Rsum (@mix_c1 R RNum (INR m) m c1) /\
  (Forall (fun c => 0 <= c) c1 -> Rsum (@mix_c1 R RNum (INR m) m c1) = Rsum c1).
Proof.
  intros Hm. unfold mix_c1. cbv zeta.
  assert (HI : INR m <> 0) by (apply not_0_INR; lia). assert (0 < INR m) by (apply lt_0_INR; lia).
  set (v := (sum_first m zero c1 / INR m)%num).
  assert (Ev : v = Rsum (firstn m c1) / INR m) by (unfold v; rewrite sum_first_spec by lia; rsimp; f_equal; lra).
  assert (Esum : Rsum c1 = INR m * v + Rsum (skipn m c1)).
  { rewrite Ev. rewrite <- (firstn_skipn m c1) at 1. rewrite Rsum_app. field. assumption. }
  rsimp. destruct (RI.ltb_spec v 0) as [Hneg|Hpos].
  - destruct (set_first_sum m 0 c1 ltac:(lia)) as [E _]. rewrite E. split.
    + nra.
    + intros HF. exfalso.
      assert (0 <= Rsum (firstn m c1)).
      { clear -HF. revert m. induction HF as [|x l Hx HF IH]; intros [|m]; cbn; try lra. specialize (IH m). lra. }
      rewrite Ev in Hneg. apply Rmult_lt_compat_r with (r := INR m) in Hneg; [|assumption].
      unfold Rdiv in Hneg. rewrite Rmult_assoc, Rinv_l in Hneg by assumption. lra.
  - destruct (set_first_sum m v c1 ltac:(lia)) as [E _]. rewrite E. split; [lra | intros _; lra].
Qed.
