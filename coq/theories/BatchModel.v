(* BatchModel.v — executable model of
     src/calcHermesBatch/calchermesbatch.go   (-size, -list, lineCounter)   and of
     src/hermes2go/hermes_main.go             (batch-file reading, -lines a-b, dispatch loop filter).
   No proofs here.  Go uint64/int values are unbounded Z (line counts stay far below 2^63; for
   non-negative operands Go's / and % are Z.div / Z.modulo = Z.quot / Z.rem).  A log.Fatal is [None].
   A byte is a Z (10 = '\n', 13 = '\r'); nothing below depends on bytes being < 256. *)
From Coq Require Import ZArith List Bool Lia.
Import ListNotations.
Open Scope Z_scope.

Notation byte := Z (only parsing).
Definition LF : byte := 10.
Definition CR : byte := 13.
Definition len {A} (l : list A) : Z := Z.of_nat (length l).

(* ------------------------------------------------------------------------------------------ *)
(* calchermesbatch.go:47-54   -size: if lines/numNodes == 0 { Print(lines) } else { Print(numNodes) }
   (numNodes = 0 is an integer-divide panic in Go; the property speaks about K >= 1) *)
Definition jobsize (L K : Z) : Z := if L / K =? 0 then L else K.

(* calchermesbatch.go:59-66   for i := 1; i <= lines; i++ { "%d-%d", i, i } *)
Fixpoint singles (i : Z) (n : nat) : list (Z * Z) :=
  match n with O => [] | S k => (i, i) :: singles (i + 1) k end.

(* calchermesbatch.go:68-84   for i := 1; i <= numNodes; i++ { if i <= rest {..+1} else {..} } *)
Fixpoint slices (i : Z) (n : nat) (sizePerSlice rest lastSlice : Z) : list (Z * Z) :=
  match n with
  | O => []
  | S k =>
      if i <=? rest
      then (lastSlice + 1, lastSlice + sizePerSlice + 1)
             :: slices (i + 1) k sizePerSlice rest (lastSlice + sizePerSlice + 1)
      else (lastSlice + 1, lastSlice + sizePerSlice)
             :: slices (i + 1) k sizePerSlice rest (lastSlice + sizePerSlice)
  end.

(* calchermesbatch.go:55-87   -list *)
Definition partition (L K : Z) : list (Z * Z) :=
  if L / K =? 0 then singles 1 (Z.to_nat L)
  else slices 1 (Z.to_nat K) (L / K) (L mod K) 0.

(* ------------------------------------------------------------------------------------------ *)
(* hermes_main.go:99-120   "-lines a-b": firstLine > lastLine is log.Fatal; endLine = lastLine;
   startLine = firstLine - 1.  (The text side — fmt "%d-%d", Explode on '-', ParseUint — is
   exercised on the real binaries, not modelled.) *)
Definition lines_arg (r : Z * Z) : option (Z * Z) :=
  let '(a, b) := r in if b <? a then None else Some (a - 1, b).

(* hermes_main.go:202-231   for i, line := range configLines {
       if i < startLine { continue }; if numberOfLines > 0 && i >= numberOfLines { break }; run "[i]" line }
   result: the (log id, line) pairs that are started, in order *)
Fixpoint dispatch {A} (i startLine numberOfLines : Z) (configLines : list A) : list (Z * A) :=
  match configLines with
  | [] => []
  | line :: r =>
      if i <? startLine then dispatch (i + 1) startLine numberOfLines r
      else if (0 <? numberOfLines) && (numberOfLines <=? i) then []
      else (i, line) :: dispatch (i + 1) startLine numberOfLines r
  end.

Definition executed {A} (r : Z * Z) (configLines : list A) : option (list (Z * A)) :=
  match lines_arg r with
  | Some (s, e) => Some (dispatch 0 s e configLines)
  | None => None
  end.

(* [indexed i l] = [(i, l0); (i+1, l1); ...] : every line once, with its log id *)
Fixpoint indexed {A} (i : Z) (l : list A) : list (Z * A) :=
  match l with [] => [] | x :: r => (i, x) :: indexed (i + 1) r end.

(* all ranges executed one after the other (None if any -lines argument is rejected) *)
Fixpoint executed_all {A} (rs : list (Z * Z)) (configLines : list A) : option (list (Z * A)) :=
  match rs with
  | [] => Some []
  | r :: rest =>
      match executed r configLines, executed_all rest configLines with
      | Some x, Some y => Some (x ++ y)
      | _, _ => None
      end
  end.

(* ------------------------------------------------------------------------------------------ *)
(* Specification of the batch-file reader, hermes_main.go:63-69:
     bufio.Scanner with ScanLines (split at '\n', strip ONE trailing '\r', a final unterminated
     non-empty rest is a line too) and  if len(line) > 0 { append }.
   [pr] is the current partial line, reversed. *)
Definition frev (l : list byte) : list byte := rev_append l [].   (* = rev l, linear time *)
Definition dropCR_rev (pr : list byte) : list byte :=
  match pr with
  | c :: t => if c =? CR then frev t else frev pr
  | [] => []
  end.

Fixpoint scan_lines (pr : list byte) (l : list byte) : list (list byte) :=
  match l with
  | [] => match pr with [] => [] | _ => [dropCR_rev pr] end
  | c :: r => if c =? LF then dropCR_rev pr :: scan_lines [] r else scan_lines (c :: pr) r
  end.

Definition nonempty (x : list byte) : bool := match x with [] => false | _ => true end.

Definition nonempty_lines (file : list byte) : list (list byte) :=
  filter nonempty (scan_lines [] file).

(* the unterminated rest at the end of the file (reversed) *)
Fixpoint tail_line (pr : list byte) (l : list byte) : list byte :=
  match l with
  | [] => pr
  | c :: r => if c =? LF then tail_line [] r else tail_line (c :: pr) r
  end.

(* "LF or CRLF line endings": every '\r' is immediately followed by '\n' *)
Fixpoint cr_only_before_lf (l : list byte) : bool :=
  match l with
  | [] => true
  | c :: r =>
      (if c =? CR then match r with d :: _ => d =? LF | [] => false end else true)
      && cr_only_before_lf r
  end.

(* ------------------------------------------------------------------------------------------ *)
(* calchermesbatch.go:104-148   lineCounter.
   state = (count, distanceCarryForward, prevNotCarageReturn).
   The inner loop works on the slice s = buf[startIndex:c]:
     bytes.Index(s, "\n") = index   <->   cut_lf s = Some (before, after), index = len before,
       buf[startIndex+index-1] = last before,  buf[startIndex+index+1 : c] = after,
       startIndex+index+1 < c  <->  after <> []
     index = -1                     <->   cut_lf s = None,  buf[c-1] = last s *)
Fixpoint cut_lf (s : list byte) : option (list byte * list byte) :=
  match s with
  | [] => None
  | c :: r =>
      if c =? LF then Some ([], r)
      else match cut_lf r with
           | Some (b, a) => Some (c :: b, a)
           | None => None
           end
  end.

Definition cstate := (Z * Z * bool)%type.

(* one run of  for ok := true; ok; ok = index != -1 && startIndex < c { ... }  (lines 118-135);
   fuel = number of bytes of the chunk bounds the number of iterations; out of fuel = None *)
Fixpoint scan_slice (fuel : nat) (st : cstate) (s : list byte) : option cstate :=
  match fuel with
  | O => None
  | S f =>
      let '(count, carry, pnc) := st in
      match cut_lf s with
      | Some (before, after) =>
          let index := len before in
          let distance := carry + index + 1 in                            (* :122 *)
          let pnc := if 0 <? index then negb (last before 0 =? CR) else pnc in   (* :124-126 *)
          let count :=
            if ((1 <? distance) && pnc) || ((2 <? distance) && negb pnc)   (* :127 *)
            then count + 1 else count in
          let st' := (count, 0, pnc) in                                   (* :123 carry := 0 *)
          match after with
          | [] => Some st'                                                (* startIndex = c *)
          | _ => scan_slice f st' after
          end
      | None => Some (count, len s, negb (last s 0 =? CR))               (* :131-132 *)
      end
  end.

(* one r.Read that returned the bytes [ch]  (lines 112-136: if c > 0 {...}) *)
Definition go_chunk (st : option cstate) (ch : list byte) : option cstate :=
  match st with
  | None => None
  | Some st => match ch with [] => Some st | _ => scan_slice (length ch) st ch end
  end.

(* the reads return [chunks] one after the other, then (0, io.EOF)  (lines 137-143) *)
Definition count_lines (chunks : list (list byte)) : option Z :=
  match fold_left go_chunk chunks (Some (0, 0, true)) with
  | Some (count, carry, _) => Some (if 0 <? carry then count + 1 else count)
  | None => None
  end.

(* os.File.Read on a regular file with a buffer of B bytes: full buffers, then the rest *)
Fixpoint chunks_fuel (fuel B : nat) (l : list byte) : list (list byte) :=
  match fuel with
  | O => []
  | S f => match l with [] => [] | _ => firstn B l :: chunks_fuel f B (skipn B l) end
  end.
Definition chunks_of (B : nat) (l : list byte) : list (list byte) := chunks_fuel (length l) B l.

(* general read pattern the proof covers: every read but the last returns at least m bytes *)
Fixpoint reads_ge (m : Z) (chunks : list (list byte)) : Prop :=
  match chunks with
  | [] => True
  | c :: r => (r <> [] -> m <= len c) /\ reads_ge m r
  end.

(* ------------------------------------------------------------------------------------------ *)
(* vocabulary of the cover statement: the ranges start right after [s], every range is non-empty,
   every next range starts right after the previous one ends, the last one ends at [e]
   (s = 0, e = L: first = 1, last = L, contiguous, pairwise disjoint) *)
Fixpoint contiguous (s : Z) (rs : list (Z * Z)) (e : Z) : Prop :=
  match rs with
  | [] => s = e
  | (a, b) :: r => a = s + 1 /\ a <= b /\ contiguous b r e
  end.

(* ------------------------------------------------------------------------------------------ *)
(* hermes_main.go:37-149   the command line is consumed option by option, left to right; every
   option assigns its own variables.  [OBatch dir lines]: -batch f, f already read through the
   reader specification above (lines = its non-empty lines, appended to configLines; dir = the
   file's directory, taken as working directory only if none is set yet).  The three forms of
   -lines: "a-b" (a > b: log.Fatal), "a-end", "N".  Strings (-module, -workingdir) are opaque Z. *)
Record pstate {A : Type} := mk_pstate {
  p_lines : list A;       (* configLines *)
  p_start : Z;            (* startLine, initially 0 *)
  p_end : Z;              (* endLine, initially -1 *)
  p_conc : Z;             (* concurrentOperations, initially 10 *)
  p_log : bool;           (* writeLogoutput *)
  p_module : Z;           (* module, initially "single" = 0; "batch" = 1 *)
  p_wd : option Z         (* workingDir, None = "" *)
}.
Arguments pstate : clear implicits.
Arguments mk_pstate {A}.

Inductive opt {A : Type} :=
| OBatch (dir : Z) (lines : list A)
| OLinesRange (a b : Z) | OLinesFrom (a : Z) | OLinesFirst (n : Z)
| OConcurrent (c : Z) | OLogoutput | OModule (m : Z) | OWorkingdir (w : Z).
Arguments opt : clear implicits.

Definition opt_kind {A} (o : opt A) : nat :=
  match o with
  | OBatch _ _ => 0 | OLinesRange _ _ | OLinesFrom _ | OLinesFirst _ => 1
  | OConcurrent _ => 2 | OLogoutput => 3 | OModule _ => 4 | OWorkingdir _ => 5
  end%nat.

Definition pinit {A} : pstate A := mk_pstate [] 0 (-1) 10 false 0 None.

Definition parse_step {A} (st : pstate A) (o : opt A) : option (pstate A) :=
  let '(mk_pstate ls s e c lg m wd) := st in
  match o with
  | OBatch dir lines =>                                                          (* :44-78 *)
      Some (mk_pstate (ls ++ lines) s e c lg m (match wd with None => Some dir | Some w => Some w end))
  | OLinesRange a b => if b <? a then None else Some (mk_pstate ls (a - 1) b c lg m wd)   (* :101-120 *)
  | OLinesFrom a => Some (mk_pstate ls (a - 1) e c lg m wd)                      (* "a-end": endLine untouched *)
  | OLinesFirst n => Some (mk_pstate ls s n c lg m wd)                           (* :121-129 *)
  | OConcurrent c' => Some (mk_pstate ls s e c' lg m wd)                         (* :90-97 *)
  | OLogoutput => Some (mk_pstate ls s e c true m wd)                            (* :133 *)
  | OModule m' => Some (mk_pstate ls s e c lg m' wd)                             (* :40-42 *)
  | OWorkingdir w => Some (mk_pstate ls s e c lg m (Some w))                     (* :79-88 *)
  end.

Fixpoint parse_opts_from {A} (st : pstate A) (opts : list (opt A)) : option (pstate A) :=
  match opts with
  | [] => Some st
  | o :: r => match parse_step st o with Some st' => parse_opts_from st' r | None => None end
  end.
Definition parse_opts {A} (opts : list (opt A)) : option (pstate A) := parse_opts_from pinit opts.

(* what one program start executes (module batch): the dispatch loop on the parsed values *)
Definition cmd_executed {A} (opts : list (opt A)) : option (list (Z * A)) :=
  match parse_opts opts with
  | Some st => Some (dispatch 0 (p_start st) (p_end st) (p_lines st))
  | None => None
  end.
