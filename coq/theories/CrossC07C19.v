(* CrossC07C19.v — composition of C19 (soil temperature stays inside the envelope of the values imposed) with C07
   (organic pools stay non-negative while the daily rate constants are at most 1): in any run whose imposed surface
   values, TBASE and start profile lie in [lo, hi] with -273 < lo and hi <= 60 degC, on EVERY day the temperature
   mineral() uses for layer z, (TD[z] + TD[z-1]) / 2 (nitro.go:593), gives rate constants in [0, 1] for the true
   exponential — so the hypothesis of C07_pools_nonneg holds on every day of the run. *)
From Coq Require Import Reals List Lra Lia.
From Hermes Require Import Num RUtil SoilTempModel SoilTempProofs NitroRates.
Import ListNotations.
Local Open Scope R_scope.

Lemma within_nth lo hi l i : within lo hi l -> (i < length l)%nat -> lo <= nth i l 0 <= hi.
Proof.
  intros H Hi. unfold within in H. rewrite Forall_forall in H. apply H. apply nth_In. exact Hi.
Qed.

Lemma rates_bounded_in_run (days : list (day_in R)) (t0 : list R) (tbase lo hi : R) :
  Forall (fun d => alphas_ok d /\ d_tbase d = tbase) days ->
  within lo hi t0 -> lo <= tbase <= hi ->
  within lo hi (snd (run days t0)) ->
  -273 < lo -> hi <= 60 ->
  let td := fst (run days t0) in
  forall z, (1 <= z)%nat -> (z < length td)%nat ->
    let tb := (nth z td 0 + nth (z - 1) td 0) / 2 in
    0 <= 4000000000 * exp (-8400 / (tb + 273.16)) <= 1 /\
    0 <= 5600000000000 * exp (-9800 / (tb + 273.16)) <= 1.
Proof.
  intros HF Ht0 Htb Hs Hlo Hhi td z Hz1 Hz tb.
  pose proof (run_envelope_lemma days t0 tbase lo hi HF Ht0 Htb Hs) as HW.
  fold td in HW.
  pose proof (within_nth lo hi td z HW Hz) as H1.
  pose proof (within_nth lo hi td (z - 1) HW ltac:(lia)) as H2.
  assert (Hb : lo <= tb <= hi) by (unfold tb; lra).
  split; [apply kt0_true_le_1 | apply kt1_true_le_1]; lra.
Qed.
