(* Prop_C06.v — property C06 (soil water content stays within physical bounds), stated about
   WaterModel / the groundwater field-capacity model read over the reals.  Only statements here. *)
From Coq Require Import ZArith Reals List Bool PrimFloat.
From Hermes Require Import Num RUtil WaterModel WaterProofs WaterBounds WaterDayBounds EvatraModel EvatraProofs DayWaterModel DayWaterProofs DayBounds.
Local Open Scope R_scope.
Set Warnings "-inexact-float".

(* upper bound, every sub-step, every layer: at most field capacity plus the capillary-rise term the
   sub-step applied to that layer (the overflow cascade precedes the capillary addition) *)
Theorem C06_upper_bound : forall (x : water_in (T:=R)) (n : nat),
  wf_in x n ->
  let o := water_step x in
  forall i, (i < n)%nat ->
    get 0 (wo_wg1 o) i <= get 0 (wi_w x) i
      + (if Nat.eqb (S i) (wo_caplay o) then wo_capterm o / 10 else 0).
Proof. exact upper_bound_lemma. Qed.

(* lower bound, one sub-step: if after the root uptake every layer still holds at least its dryness
   limit (one third of the wilting point), it does so at the end of the sub-step *)
Theorem C06_lower_bound_substep : forall (x : water_in (T:=R)) (n : nat),
  wf_in x n -> params_ok x ->
  Forall2 (fun w0 wmin => wmin / 3 * 10 <= w0) (snd (uptake_phase x)) (wi_wmin x) ->
  let o := water_step x in
  forall i, (i < n)%nat -> get 0 (wi_wmin x) i / 3 <= get 0 (wo_wg1 o) i.
Proof. exact lower_bound_lemma. Qed.

(* ... and on the first sub-step of a day that hypothesis follows from the state alone: the uptake clamp
   never takes a layer that starts at or above its dryness limit below it *)
Theorem C06_uptake_keeps_limit : forall (x : water_in (T:=R)) (n : nat),
  wf_in x n -> wi_subd1 x = true -> 0 <= wi_wdt x <= 1 ->
  Forall (fun wmin => 0 <= wmin) (wi_wmin x) ->
  Forall2 (fun wg0 wmin => wmin / 3 <= wg0) (wi_wg0 x) (wi_wmin x) ->
  Forall2 (fun w0 wmin => wmin / 3 * 10 <= w0) (snd (uptake_phase x)) (wi_wmin x).
Proof. exact uptake_first_lower. Qed.

(* below the groundwater table field capacity equals pore volume; layers above the table keep theirs *)
Theorem C06_fc_below_gw : forall (grw : R) (w porges : list R),
  length w = length porges ->
  let first := Z.to_nat (RI.trunc_Z (grw + 1)) in
  let w' := @set_fc_gw R RNum grw w porges in
  forall i, (i < length w)%nat ->
    ((first < S i)%nat -> nth i w' 0 = nth i porges 0) /\
    ((S i < first)%nat -> nth i w' 0 = nth i w 0).
Proof. exact fc_below_gw_lemma. Qed.

(* binary64, for every float input (NaN included): after the overflow cascade a layer's storage is either exactly
   the clamp value W*DZ or a value x with not (W < x/DZ), x/DZ being literally the reported water content *)
Theorem C06_upper_bound_binary64 : forall (ls : list (PrimFloat.float * PrimFloat.float)) carry hc q1s,
  length q1s = length ls ->
  Forall2 (fun w1' (p : PrimFloat.float * PrimFloat.float) =>
             w1' = PrimFloat.mul (snd p) (@DZ PrimFloat.float FloatNum) \/
             PrimFloat.ltb (snd p) (PrimFloat.div w1' (@DZ PrimFloat.float FloatNum)) = false)
          (fst (@cascade PrimFloat.float FloatNum carry hc ls q1s)) ls.
Proof. exact cascade_upper_binary64. Qed.

(* the WHOLE DAY on days without net evaporation (FLUSS0 >= 0), any number of sub-steps: a layer that starts the day at
   or above its dryness limit ends EVERY sub-step at or above it.  The uptake clamp acts on sub-step 1 only; the
   induction carries "storage >= limit + clamped uptake still to come".  Hypothesis on the parameters: the clamped
   uptake of the day, less one sub-step, fits between field capacity and the dryness limit (observed on every traced day) *)
Theorem C06_lower_bound_day_nonevap : forall (x : water_in (T:=R)) (n k : nat),
  wf_in x n -> params_ok x -> 0 <= wi_fluss0 x -> wi_subd1 x = true ->
  INR (S k) * wi_wdt x <= 1 ->
  Forall (fun wmin => 0 <= wmin) (wi_wmin x) ->
  Forall (fun tp => 0 <= tp) (wi_tp x) ->
  Forall2 (fun wg0 wmin => wmin / 3 <= wg0) (wi_wg0 x) (wi_wmin x) ->
  (forall i, (i < n)%nat ->
     nth i (wo_tp (water_step x)) 0 * (1 - wi_wdt x) <= (nth i (wi_w x) 0 - nth i (wi_wmin x) 0 / 3) * 10) ->
  Forall (fun o => forall i, (i < n)%nat -> nth i (wi_wmin x) 0 / 3 <= get 0 (wo_wg1 o) i) (water_iter (S k) x).
Proof. exact day_lower_nonevap_lemma. Qed.

(* the same for the COMPOSED day (irrigation glue, Evatra, the model's own sub-step choice, all Water sub-steps):
   composition of C08 (Evatra's uptake is non-negative), C01 (the chosen sub-steps cover exactly one day) and the
   induction above; [evatra_wf] is the input class of the C08 theorems *)
Theorem C06_lower_bound_day_composed : forall (x : day_in (T:=R)) (n : nat),
  day_wf x n ->
  evatra_wf (evatra_in_of x (day_regen x)) ->
  let o := day_water x in
  0 <= eo_fluss0 (do_ev o) ->
  0 <= di_draifak x <= 1 -> Forall (fun c => 0 <= c) (di_caps x) ->
  Forall (fun wmin => 0 <= wmin) (di_wmin x) ->
  Forall2 (fun w wmin => wmin / 3 <= w) (di_w x) (di_wmin x) ->
  Forall2 (fun wg0 wmin => wmin / 3 <= wg0) (di_wg1 x) (di_wmin x) ->
  (forall i, (i < n)%nat ->
     nth i (day_tp o) 0 * (1 - do_wdt o) <= (nth i (di_w x) 0 - nth i (di_wmin x) 0 / 3) * 10) ->
  Forall (fun o' => forall i, (i < n)%nat -> nth i (di_wmin x) 0 / 3 <= get 0 (wo_wg1 o') i) (do_outs o).
Proof. exact day_lower_composed_lemma. Qed.

(* the upper bound at EVERY sub-step of the composed day, unconditionally (only the array shapes): field capacity plus
   the capillary term that sub-step applied to that layer *)
Theorem C06_upper_bound_day_composed : forall (x : day_in (T:=R)) (n : nat),
  day_wf x n ->
  let o := day_water x in
  Forall (fun o' => forall i, (i < n)%nat ->
            get 0 (wo_wg1 o') i <= get 0 (di_w x) i
              + (if Nat.eqb (S i) (wo_caplay o') then wo_capterm o' / 10 else 0))
         (do_outs o).
Proof. exact day_upper_composed_lemma. Qed.

(* days WITH net evaporation: for a freely chosen evaporation profile the day-level bound is false (binary64, the
   semantics the code runs; the same input is replayed on the real kernel on every run).  Evatra's own profile
   (shares proportional to the water above the limit) is checked on every traced day and in a directed search. *)
Theorem C06_lower_bound_day_evap_refuted :
  PrimFloat.leb (0.003 / 3)%float 0.0035%float = true /\
  PrimFloat.leb (0.3 + 0.253 + 0.044)%float 0.6%float = true /\
  PrimFloat.leb (0.003 / 3)%float (third_layer_after 1) = true /\
  PrimFloat.ltb (third_layer_after 2) (0.003 / 3)%float = true.
Proof. exact evap_day_refuted_lemma. Qed.

Print Assumptions C06_upper_bound.
Print Assumptions C06_lower_bound_day_nonevap.
Print Assumptions C06_lower_bound_day_composed.
Print Assumptions C06_upper_bound_day_composed.
Print Assumptions C06_lower_bound_day_evap_refuted.
Print Assumptions C06_upper_bound_binary64.
Print Assumptions C06_lower_bound_substep.
Print Assumptions C06_uptake_keeps_limit.
Print Assumptions C06_fc_below_gw.
