(* C11Corr.v — correspondence of LongdayModel with hermes.LangTagConverter: the harness
   evaluates hermes.CalculateDayLenght for TAG = 1..367 at a latitude (the oracle values),
   calls the real LangTag and prints (TAG, P1, P2); the model is run on the same oracle. *)
From Coq Require Import ZArith Bool List String.
From Hermes Require Import LongdayModel TextureModel.
Import ListNotations.
Local Open Scope Z_scope.

Record lcase := LCase {
  lc_days14 : list Z;      (* days 1..367 with DL > 14 *)
  lc_days16 : list Z;      (* days 1..367 with DL > 16 *)
  lc_year : Z;             (* anjahr resp. progja *)
  lc_obs : Z * Z * Z }.    (* what LangTag returned *)

Definition mem (l : list Z) (d : Z) : bool := existsb (Z.eqb d) l.

Definition lcase_ok (c : lcase) : bool :=
  match langtag (mem (lc_days14 c)) (mem (lc_days16 c)) (year_offset (lc_year c)) 366 with
  | Some (tag, p1, p2, n) =>
      let '(t', p1', p2') := lc_obs c in
      (tag =? t') && (p1 =? p1') && (p2 =? p2') && (n <=? 367) &&
      ((tag =? 0) || (n =? tag))
  | None => false
  end.

Fixpoint lmismatches (i : Z) (l : list lcase) : list Z :=
  match l with
  | [] => []
  | c :: r => if lcase_ok c then lmismatches (i + 1) r else i :: lmismatches (i + 1) r
  end.

(* ---- texture path: one case = one soil profile (raw codes as written in the soil file, top
   to bottom) run through the real Input/Hydro (session.Run in-process, panics recovered);
   observed: 0 = run completed, 1 = run error about the texture, 2 = the process/goroutine died *)
Record tcase := TCase { tc_raws : list string; tc_obs : Z }.

Definition outcome_code (o : outcome) : Z :=
  match o with Accepted => 0 | RunError => 1 | ProcessDies => 2 end.

Definition tcase_ok (parcap hypar : list string) (c : tcase) : bool :=
  outcome_code (profile_outcome parcap hypar (tc_raws c)) =? tc_obs c.

Fixpoint tmismatches (parcap hypar : list string) (i : Z) (l : list tcase) : list Z :=
  match l with
  | [] => []
  | c :: r => if tcase_ok parcap hypar c then tmismatches parcap hypar (i + 1) r
              else i :: tmismatches parcap hypar (i + 1) r
  end.
