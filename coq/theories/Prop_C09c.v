(* Prop_C09c.v — property C09, third layer: the development-RATE block of hermes.PhytoOut (crop.go:238-289),
   vern() and root(), which Prop_C09 / Prop_C09b took as oracle inputs, stated about DevModel — the executable
   model the correspondence check compares bit for bit with traced PhytoOut transitions (vernalisation days,
   FV, FP, devprog, potential rooting depth).  Remaining oracles: the photoperiodic day length (sin/cos/asin)
   and the power / exponential inside root().  Only statements here. *)
From Coq Require Import ZArith Reals List Bool.
From Hermes Require Import Num RUtil CropModel CropProofs DevModel DevProofs RootDistModel RootDistProofs SupplyModel SupplyProofs Et0Model.
Import ListNotations.

(* "development never runs backwards", with the factors COMPUTED by the model of the code instead of assumed
   (any numeric type, hence also binary64; any temperatures, parameters, stress factors, day lengths): over the
   days of a crop cycle in calendar order the stage index never decreases, neither at the end nor after any
   prefix, and the dates recorded for the stages reached are in non-decreasing order. *)
Theorem C09_dev_run_stage_monotone :
  forall (T : Type) (NT : Num T) (xs : list (dev_in (T:=T))) (s : dev_st (T:=T)) (z : Z),
  dates_ok (ds_stage s) z -> days_from z (length (st_dates (ds_stage s))) (map (@di_stage T) xs) ->
  let s' := ds_stage (dev_run xs s) in
  (st_k (ds_stage s) <= st_k s')%nat /\
  (forall ys zs, xs = ys ++ zs -> (st_k (ds_stage (dev_run ys s)) <= st_k s')%nat) /\
  (forall i j, (i <= j <= st_k s')%nat -> (nth i (st_dates s') 0 <= nth j (st_dates s') 0)%Z).
Proof. exact (@dev_monotone_lemma). Qed.

(* the development run IS a stage run (Prop_C09) over inputs whose three factor fields are the computed ones *)
Theorem C09_dev_run_is_stage_run :
  forall (T : Type) (NT : Num T) (xs : list (dev_in (T:=T))) (s : dev_st (T:=T)),
  ds_stage (dev_run xs s) = stage_run (dev_trace xs s) (ds_stage s).
Proof. exact (@dev_run_stage). Qed.

Local Open Scope R_scope.

(* vernalisation: the daily effect lies in [0,1] for EVERY mean temperature (the seven-branch chain of vern()
   leaves no temperature without a value in range); with a non-negative time step the accumulated
   vernalisation days never decrease and the factor FV lies in [0,1], for every threshold VSCHWELL *)
Theorem C09_vernalisation_range : forall t vt dt vschwell : R,
  0 <= vern_eff t <= 1 /\
  (0 <= dt -> vt <= fst (dev_fv t vt dt vschwell) /\ 0 <= snd (dev_fv t vt dt vschwell) <= 1).
Proof. exact (fun t vt dt vs => conj (vern_eff_range t) (dev_fv_spec t vt dt vs)). Qed.

(* day-length factor: FP lies in [0,1] for every photoperiod and every parameter pair (long-day crops DAYL > 0,
   short-day crops DAYL < 0, day-neutral 0), even where the code divides by DAYL - DLBAS = 0 over R *)
Theorem C09_daylength_factor_range : forall dlp dayl dlbas : R, 0 <= dev_fp dlp dayl dlbas <= 1.
Proof. exact dev_fp_range. Qed.

(* stress acceleration: devprog >= 1 for every state (development is never slowed down by it), and <= 2 while
   the two stress factors are in [0,1] *)
Theorem C09_devprog_range : forall (b : bool) (reduk trrel dry lured : R),
  1 <= dev_prog b reduk trrel dry lured /\
  (0 <= reduk <= 1 -> 0 <= trrel <= 1 -> dev_prog b reduk trrel dry lured <= 2).
Proof. exact (fun b r t d l => conj (dev_prog_ge1 b r t d l) (dev_prog_le2 b r t d l)). Qed.

(* over ANY run of days with non-negative time steps, the state carried from day to day: the vernalisation days
   and the phyllochron temperature sum (the argument of root() and of the N-uptake limit) never decrease *)
Theorem C09_dev_run_sums_monotone : forall (xs : list (dev_in (T:=R))) (s : dev_st (T:=R)),
  Forall (fun x => 0 <= si_dt (di_stage x)) xs ->
  ds_verntage s <= ds_verntage (dev_run xs s) /\
  st_phyllo (ds_stage s) <= st_phyllo (ds_stage (dev_run xs s)).
Proof. exact dev_run_mono. Qed.

(* root(): for ANY value p of the power oracle Qrez >= 0.022, so the potential rooting depth 4.5/Qrez is positive
   and at most 4.5/0.022 = 204.5 cm — finite whatever the temperature sum and root velocity; the cumulative root
   share of a layer lies in [0,100) for every exponential value in (0,1] and grows with depth *)
Theorem C09_root_function_range : forall p : R,
  22 / 1000 <= root_qrez p /\ 0 < pot_root_depth (root_qrez p) <= 4500 / 22 /\
  (forall e, 0 < e <= 1 -> 0 <= root_cum e < 100) /\
  (forall e1 e2, e2 <= e1 -> root_cum e1 <= root_cum e2).
Proof. exact (fun p => conj (root_qrez_ge p) (conj (root_depth_range p) (conj root_cum_range root_cum_mono))). Qed.

(* root() with the TRUE power and exponential: the potential rooting depth never decreases when the temperature
   sum grows (root velocity >= 0, any Tsumbase) — together with C09_dev_run_sums_monotone: it never decreases
   from day to day between sowing and harvest *)
Theorem C09_root_depth_monotone_true : forall veloc tb t1 t2 : R, 0 <= veloc -> t1 <= t2 ->
  pot_root_depth (root_qrez (root_pow_true veloc tb t1)) <= pot_root_depth (root_qrez (root_pow_true veloc tb t2)).
Proof. exact root_depth_true_mono. Qed.

(* root distribution (crop.go:583-636), for EVERY number of rooted layers: the root radius is positive in every layer
   (the guard for layers >= 20 included), the root length density of every layer is >= 0, and for exponentials that
   form a falling chain (true of exp(-Qrez*depth), last statement) the root shares of the layers are >= 0 and sum to
   1 - exp(-Qrez*rooting depth), a number in [0,1) *)
Theorem C09_root_distribution : forall (zrk : bool) (wumas pi dz : R) (es : list (R * R)),
  (forall i : Z, 0 < wrad zrk i) /\
  (0 < pi -> 0 < dz -> Forall (fun d => 0 <= d) (map fst (root_dist zrk wumas pi dz es))) /\
  (chained 1 es ->
   let shares := map snd (root_dist zrk wumas pi dz es) in
   Forall (fun s => 0 <= s) shares /\ Rsum shares = 1 - last_hi es 1 /\ 0 <= Rsum shares < 1) /\
  (forall q n, 0 <= q -> 0 <= dz -> chained 1 (es_true q dz 1 n)).
Proof.
  exact (fun zrk wumas pi dz es => conj (wrad_pos zrk) (conj (root_dist_dense zrk wumas pi dz es)
          (conj (root_dist_shares zrk wumas pi dz es) (fun q n Hq Hd => es_true_chained_1 q dz n Hq Hd)))).
Qed.

(* dead roots (crop.go:563-568, 633-636): the N of the roots that died today is >= 0 while the root N concentration is,
   no pool of any layer decreases by it, and what the fast and slow pools of ALL rooted layers receive together lies
   between 0 and that amount — the crop module hands the soil no more N than the roots lost (the input C07 takes as given) *)
Theorem C09_dead_root_n : forall (zrk : bool) (wumas wumalt wugeh pi dz : R) (es : list (R * R)),
  0 <= wugeh -> chained 1 es ->
  let wumm := dead_root_n wumas wumalt wugeh in
  let shares := map snd (root_dist zrk wumas pi dz es) in
  0 <= wumm /\
  (forall share pool, 0 <= share -> pool <= dead_root_to_pool wumm share pool) /\
  0 <= Rsum (map (fun s => dead_root_to_pool wumm s 0 + dead_root_to_pool wumm s 0) shares) <= wumm.
Proof.
  exact (fun zrk wumas wumalt wugeh pi dz es Hw Hc =>
           conj (dead_root_n_nonneg wumas wumalt wugeh Hw)
             (conj (fun share pool Hs => dead_root_pool_mono _ share pool (dead_root_n_nonneg wumas wumalt wugeh Hw) Hs)
                   (dead_root_balance zrk wumas wumalt wugeh pi dz es Hw Hc))).
Qed.

(* what the soil receives from the crop on an ordinary growth day (crop.go:492-497, 657-661), for every number of layers and organs:
   the fast and slow pools of the top layer gain TOGETHER exactly the 70 % of the dead leaves' and stems' N that the crop's N sum loses
   (0.56 + 0.14 = 0.7: nothing is created between crop and soil), neither pool decreases, and over all layers the pools gain
   0.7 * (N of dead leaves and stems) + WUMM * (sum of the root shares) and nothing else *)
Theorem C09_pool_inputs : forall (dgorgs : list R) (gehalt dt wumm f0 a0 : R) (shares nfos naos : list R),
  fst (leaf_to_pools dgorgs gehalt dt f0 a0) + snd (leaf_to_pools dgorgs gehalt dt f0 a0) = f0 + a0 + 7 / 10 * Rsum dgorgs * gehalt * dt /\
  (0 <= gehalt -> 0 <= dt -> Forall (fun d => 0 <= d) dgorgs ->
     f0 <= fst (leaf_to_pools dgorgs gehalt dt f0 a0) /\ a0 <= snd (leaf_to_pools dgorgs gehalt dt f0 a0)) /\
  ((0 < length nfos)%nat -> length nfos = length naos -> (length shares <= length nfos)%nat ->
     let '(f, a) := pools_after dgorgs gehalt dt wumm shares nfos naos in
     Rsum f + Rsum a = Rsum nfos + Rsum naos + 7 / 10 * Rsum dgorgs * gehalt * dt + wumm * Rsum shares).
Proof.
  exact (fun dgorgs gehalt dt wumm f0 a0 shares nfos naos =>
           conj (leaf_to_pools_sum dgorgs gehalt dt f0 a0)
             (conj (leaf_to_pools_mono dgorgs gehalt dt f0 a0) (pools_after_sum dgorgs gehalt dt wumm shares nfos naos))).
Qed.

(* crop coefficient (crop.go:138-139, 293-307): the development progress used for the interpolation lies in [0,1] for a temperature sum
   >= 0 and a positive stage requirement, the coefficient FKC that Evatra multiplies the reference ET with is a convex combination of two
   tabulated values - it lies between them, so it is >= 0 for every crop file with non-negative kc entries (the hypothesis the C08
   theorems on potential ET start from), before emergence as well as in every later stage *)
Theorem C09_crop_coefficient : forall (b : bool) (kcini kp kk sum tsum : R),
  0 <= sum -> 0 < tsum ->
  0 <= relint_of sum tsum <= 1 /\
  (let r := relint_of sum tsum in
   (if b then Rmin kcini kk else Rmin kp kk) <= fkc_of b kcini kp kk r <= (if b then Rmax kcini kk else Rmax kp kk)) /\
  (0 <= kcini -> 0 <= kp -> 0 <= kk -> 0 <= fkc_of b kcini kp kk (relint_of sum tsum)) /\
  (sum <= tsum -> 0 <= kcini -> 0 <= kk -> 0 <= fkc_pre kcini kk sum tsum).
Proof.
  exact (fun b kcini kp kk sum tsum Hs Ht =>
           conj (relint_range sum tsum Hs Ht)
             (conj (fkc_between b kcini kp kk _ (relint_range sum tsum Hs Ht))
               (conj (fkc_nonneg b kcini kp kk _ (relint_range sum tsum Hs Ht))
                     (fun Hl => fkc_pre_nonneg kcini kk sum tsum (conj Hs Hl) Ht)))).
Qed.

(* ... which is the domain hypothesis '0 <= FKC' of the C08 theorems on potential evapotranspiration (Et0Proofs.et0_domain): for an Evatra
   input whose crop coefficient is the one PhytoOut computed from a crop file with non-negative kc entries, it holds *)
Theorem C09_crop_coefficient_feeds_C08 : forall (x : et0_in (T:=R)) (b : bool) (kcini kp kk sum tsum : R),
  0 <= sum -> 0 < tsum -> 0 <= kcini -> 0 <= kp -> 0 <= kk ->
  ti_fkc x = fkc_of b kcini kp kk (relint_of sum tsum) -> 0 <= ti_fkc x.
Proof. exact (fun x b kcini kp kk sum tsum Hs Ht H1 H2 H3 E => eq_ind_r (fun v => 0 <= v) (fkc_nonneg b kcini kp kk _ (relint_range sum tsum Hs Ht) H1 H2 H3) E). Qed.

(* N supply terms (crop.go:662-699), until round 9 mirrored in the harness and handed to the uptake model as oracle values: the mass
   flow with the transpiration stream is >= 0 in every layer (TP, C1 >= 0, WG > 0), the diffusion coefficient is >= 0, the diffusive
   supply has the sign of (N concentration of the soil solution - 14 mg/l) - towards the root above the threshold, away from it
   below (the uptake clamps of Prop_C09 floor the sum) -, and the uptake limit per unit root length lies in its positive range while
   the phyllochron sum is inside the season *)
Theorem C09_supply_terms :
  (forall zrk (pi dz dt : R) ls, 0 < dz -> 0 <= dt ->
     Forall (fun l => 0 <= sl_tp l /\ 0 <= sl_c1 l /\ 0 < sl_wg l) ls ->
     Forall (fun m => 0 <= m) (map fst (supply zrk pi dz dt ls))) /\
  (forall ad e wg : R, 0 <= ad -> 0 < e -> 0 < wg -> 0 <= dcoef_of ad e wg) /\
  (forall d wg pi wr c1 wud dt : R, 0 <= d -> 0 < wg -> 0 < pi -> 0 < wr -> 0 <= wud -> 0 <= dt ->
     (14 / 1000000 <= c1 / 1000 / wg -> 0 <= diff_of d wg pi wr c1 wud dt) /\
     (c1 / 1000 / wg <= 14 / 1000000 -> diff_of d wg pi wr c1 wud dt <= 0)) /\
  (forall (c : maxup_class) (phyllo tendsum : R), 0 <= phyllo ->
     match c with
     | MxVeg => phyllo <= 7560 -> 0 < maxup_of c phyllo tendsum <= 9145 / 100000
     | MxOther => phyllo <= 2600 -> 0 <= maxup_of c phyllo tendsum <= 3145 / 100000
     | MxSM => 0 < tendsum -> phyllo <= tendsum -> 64 / 1000 <= maxup_of c phyllo tendsum <= 74 / 1000
     | MxZR => 0 < tendsum -> phyllo <= tendsum -> 4645 / 100000 <= maxup_of c phyllo tendsum <= 5645 / 100000
     end).
Proof. exact (conj supply_mass_nonneg (conj dcoef_nonneg (conj diff_sign maxup_range))). Qed.

(* the two together, over a whole crop cycle: on any run of days with a non-negative time step and a sane top soil (water content >= 0,
   emergence threshold 0.3*(W-WMIN)+WMIN > 0) the argument of root() - phyllochron sum + emergence sum - never decreases, and with the
   true power and exponential the potential rooting depth never decreases from day to day (root velocity >= 0) *)
Theorem C09_rooting_depth_monotone_run : forall (veloc tb : R) (xs : list (dev_in (T:=R))) (s : dev_st (T:=R)),
  0 <= veloc -> Forall day_sane xs ->
  let ts (d : dev_st (T:=R)) := st_phyllo (ds_stage d) + cg (st_sum (ds_stage d)) 0 in
  ts s <= ts (dev_run xs s) /\
  pot_root_depth (root_qrez (root_pow_true veloc tb (ts s))) <= pot_root_depth (root_qrez (root_pow_true veloc tb (ts (dev_run xs s)))).
Proof. exact (fun veloc tb xs s Hv H => conj (dev_run_tempsum xs s H) (dev_run_root_depth veloc tb xs s Hv H)). Qed.

(* non-vacuity: a winter-wheat day (4 degC, 20 vernalisation days so far, threshold 50, 14 h photoperiod against
   DAYL 20 / DLBAS 7) has all three factors strictly inside their ranges *)
Example C09c_nonvacuous :
  vern_eff 4 = 1 - 2 / 10 * (4 - 3) / 4 /\ 0 < snd (dev_fv 4 20 1 50) < 1 /\ 0 < dev_fp 14 20 7 < 1 /\
  1 < dev_prog false (1/2) 1 0 1.
Proof. exact dev_nonvacuous. Qed.

Print Assumptions C09_dev_run_stage_monotone.
Print Assumptions C09_dev_run_is_stage_run.
Print Assumptions C09_vernalisation_range.
Print Assumptions C09_daylength_factor_range.
Print Assumptions C09_devprog_range.
Print Assumptions C09_dev_run_sums_monotone.
Print Assumptions C09_root_function_range.
Print Assumptions C09_root_depth_monotone_true.
Print Assumptions C09_root_distribution.
Print Assumptions C09_dead_root_n.
Print Assumptions C09_supply_terms.
Print Assumptions C09_pool_inputs.
Print Assumptions C09_crop_coefficient.
Print Assumptions C09_crop_coefficient_feeds_C08.
Print Assumptions C09_rooting_depth_monotone_run.
