(* Prop_C09c.v — property C09, third layer: the development-RATE block of hermes.PhytoOut (crop.go:238-289),
   vern() and root(), which Prop_C09 / Prop_C09b took as oracle inputs, stated about DevModel — the executable
   model the correspondence check compares bit for bit with traced PhytoOut transitions (vernalisation days,
   FV, FP, devprog, potential rooting depth).  Remaining oracles: the photoperiodic day length (sin/cos/asin)
   and the power / exponential inside root().  Only statements here. *)
From Coq Require Import ZArith Reals List Bool.
From Hermes Require Import Num RUtil CropModel CropProofs DevModel DevProofs.
Import ListNotations.

(* "development never runs backwards", with the factors COMPUTED by the model of the code instead of assumed
   (any numeric type, hence also binary64; any temperatures, parameters, stress factors, day lengths): over the
   days of a crop cycle in calendar order the stage index never decreases, neither at the end nor after any
   prefix, and the dates recorded for the stages reached are in non-decreasing order. *)
Theorem C09_dev_run_stage_monotone :
  forall (T : Type) (NT : Num T) (xs : list (dev_in (T:=T))) (s : dev_st (T:=T)) (z : Z),
  dates_ok (ds_stage s) z -> days_from z (length (st_dates (ds_stage s))) (map (@di_stage T) xs) ->
  let s' := ds_stage (dev_run xs s) in
  (st_k (ds_stage s) <= st_k s')%nat /\
  (forall ys zs, xs = ys ++ zs -> (st_k (ds_stage (dev_run ys s)) <= st_k s')%nat) /\
  (forall i j, (i <= j <= st_k s')%nat -> (nth i (st_dates s') 0 <= nth j (st_dates s') 0)%Z).
Proof. exact (@dev_monotone_lemma). Qed.

(* the development run IS a stage run (Prop_C09) over inputs whose three factor fields are the computed ones *)
Theorem C09_dev_run_is_stage_run :
  forall (T : Type) (NT : Num T) (xs : list (dev_in (T:=T))) (s : dev_st (T:=T)),
  ds_stage (dev_run xs s) = stage_run (dev_trace xs s) (ds_stage s).
Proof. exact (@dev_run_stage). Qed.

Local Open Scope R_scope.

(* vernalisation: the daily effect lies in [0,1] for EVERY mean temperature (the seven-branch chain of vern()
   leaves no temperature without a value in range); with a non-negative time step the accumulated
   vernalisation days never decrease and the factor FV lies in [0,1], for every threshold VSCHWELL *)
Theorem C09_vernalisation_range : forall t vt dt vschwell : R,
  0 <= vern_eff t <= 1 /\
  (0 <= dt -> vt <= fst (dev_fv t vt dt vschwell) /\ 0 <= snd (dev_fv t vt dt vschwell) <= 1).
Proof. exact (fun t vt dt vs => conj (vern_eff_range t) (dev_fv_spec t vt dt vs)). Qed.

(* day-length factor: FP lies in [0,1] for every photoperiod and every parameter pair (long-day crops DAYL > 0,
   short-day crops DAYL < 0, day-neutral 0), even where the code divides by DAYL - DLBAS = 0 over R *)
Theorem C09_daylength_factor_range : forall dlp dayl dlbas : R, 0 <= dev_fp dlp dayl dlbas <= 1.
Proof. exact dev_fp_range. Qed.

(* stress acceleration: devprog >= 1 for every state (development is never slowed down by it), and <= 2 while
   the two stress factors are in [0,1] *)
Theorem C09_devprog_range : forall (b : bool) (reduk trrel dry lured : R),
  1 <= dev_prog b reduk trrel dry lured /\
  (0 <= reduk <= 1 -> 0 <= trrel <= 1 -> dev_prog b reduk trrel dry lured <= 2).
Proof. exact (fun b r t d l => conj (dev_prog_ge1 b r t d l) (dev_prog_le2 b r t d l)). Qed.

(* over ANY run of days with non-negative time steps, the state carried from day to day: the vernalisation days
   and the phyllochron temperature sum (the argument of root() and of the N-uptake limit) never decrease *)
Theorem C09_dev_run_sums_monotone : forall (xs : list (dev_in (T:=R))) (s : dev_st (T:=R)),
  Forall (fun x => 0 <= si_dt (di_stage x)) xs ->
  ds_verntage s <= ds_verntage (dev_run xs s) /\
  st_phyllo (ds_stage s) <= st_phyllo (ds_stage (dev_run xs s)).
Proof. exact dev_run_mono. Qed.

(* root(): for ANY value p of the power oracle Qrez >= 0.022, so the potential rooting depth 4.5/Qrez is positive
   and at most 4.5/0.022 = 204.5 cm — finite whatever the temperature sum and root velocity; the cumulative root
   share of a layer lies in [0,100) for every exponential value in (0,1] and grows with depth *)
Theorem C09_root_function_range : forall p : R,
  22 / 1000 <= root_qrez p /\ 0 < pot_root_depth (root_qrez p) <= 4500 / 22 /\
  (forall e, 0 < e <= 1 -> 0 <= root_cum e < 100) /\
  (forall e1 e2, e2 <= e1 -> root_cum e1 <= root_cum e2).
Proof. exact (fun p => conj (root_qrez_ge p) (conj (root_depth_range p) (conj root_cum_range root_cum_mono))). Qed.

(* root() with the TRUE power and exponential: the potential rooting depth never decreases when the temperature
   sum grows (root velocity >= 0, any Tsumbase) — together with C09_dev_run_sums_monotone: it never decreases
   from day to day between sowing and harvest *)
Theorem C09_root_depth_monotone_true : forall veloc tb t1 t2 : R, 0 <= veloc -> t1 <= t2 ->
  pot_root_depth (root_qrez (root_pow_true veloc tb t1)) <= pot_root_depth (root_qrez (root_pow_true veloc tb t2)).
Proof. exact root_depth_true_mono. Qed.

(* non-vacuity: a winter-wheat day (4 degC, 20 vernalisation days so far, threshold 50, 14 h photoperiod against
   DAYL 20 / DLBAS 7) has all three factors strictly inside their ranges *)
Example C09c_nonvacuous :
  vern_eff 4 = 1 - 2 / 10 * (4 - 3) / 4 /\ 0 < snd (dev_fv 4 20 1 50) < 1 /\ 0 < dev_fp 14 20 7 < 1 /\
  1 < dev_prog false (1/2) 1 0 1.
Proof. exact dev_nonvacuous. Qed.

Print Assumptions C09_dev_run_stage_monotone.
Print Assumptions C09_dev_run_is_stage_run.
Print Assumptions C09_vernalisation_range.
Print Assumptions C09_daylength_factor_range.
Print Assumptions C09_devprog_range.
Print Assumptions C09_dev_run_sums_monotone.
Print Assumptions C09_root_function_range.
Print Assumptions C09_root_depth_monotone_true.
