(* CropParamModel.v — executable model of hermes/cropparam.go (no proofs here):
     state_of_classic   ReadCropParamClassic          cropparam.go:217-405  (fixed columns, byte level)
     convert            ConvertCropParamClassicToYml  cropparam.go:407-618  (classic lines -> YAML record)
     state_of_yaml      ReadCropParamYml              cropparam.go:101-214  (decoded record -> state)
   plus helper.go ValAsFloat / TryValAsFloat / ValAsInt (strings.TrimSpace + strconv).
   A file is the list of its lines (bufio.ScanLines: split at LF, one trailing CR dropped), a line
   is a list of BYTES (Go slices strings by byte).  A log.Fatal / panic is [None].
   Numbers: a decimal text "ddd.ddd" is the value [dec m k] = m / 10^k (one correctly rounded
   division, which is what strconv.ParseFloat returns for <= 15 significant digits); the model is
   polymorphic in the number type [T] (binary64 for the correspondence, anything for the theorems),
   so "same text" is "same value" without any float reasoning.
   The YAML codec itself is not modelled: [crop_rec] is the decoded record.
   Not modelled (-> [None], reported by the correspondence if the code accepts it): exponent / hex /
   inf / nan syntax of ParseFloat, non-ASCII white space, rune-vs-byte indexing of the initial-weight
   line when it contains multi-byte characters before column 70. *)
From Coq Require Import ZArith List Bool Ascii String Lia.
From Hermes Require Import Num DateModel.
Import ListNotations.
Local Open Scope Z_scope.

Notation "'let?' x ':=' e 'in' k" := (match e with Some x => k | None => None end)
  (at level 200, x pattern, e at level 100, k at level 200, right associativity).

(* ------------------------------------------------------------------ *)
(* text primitives                                                      *)

(* s[a:] ; panics when a > len s *)
Definition from (a : nat) (l : lstr) : option lstr :=
  if Nat.leb a (List.length l) then Some (skipn a l) else None.
(* s[a:b] (a <= b) ; panics when b > len s *)
Definition subs (a b : nat) (l : lstr) : option lstr :=
  if Nat.leb b (List.length l) then Some (slice a b l) else None.

(* strings.Fields for ASCII white space *)
Fixpoint fields_aux (cur : lstr) (l : lstr) : list lstr :=
  match l with
  | [] => match cur with [] => [] | _ => [rev cur] end
  | c :: r => if is_space c
              then match cur with [] => fields_aux [] r | _ => rev cur :: fields_aux [] r end
              else fields_aux (c :: cur) r
  end.
Definition fields (l : lstr) : list lstr := fields_aux [] l.

Fixpoint has_prefix (p l : lstr) : bool :=
  match p, l with
  | [], _ => true
  | a :: p', b :: l' => if ascii_dec a b then has_prefix p' l' else false
  | _ :: _, [] => false
  end.

(* strings.Split(s, "=") : always at least one element *)
Fixpoint split_at (sep : ascii) (cur : lstr) (l : lstr) : list lstr :=
  match l with
  | [] => [rev cur]
  | c :: r => if ascii_dec c sep then rev cur :: split_at sep [] r else split_at sep (c :: cur) r
  end.
Definition split_on (sep : ascii) (l : lstr) : list lstr := split_at sep [] l.

(* decimal syntax [+-]ddd[.ddd] with at least one digit: (negative, mantissa, fraction digits) *)
Fixpoint scan_digits (acc : Z) (n : nat) (l : lstr) : Z * nat * lstr :=
  match l with
  | c :: r => match digit_val c with
              | Some d => scan_digits (acc * 10 + d) (S n) r
              | None => (acc, n, l)
              end
  | [] => (acc, n, [])
  end.

Definition parse_dec (l : lstr) : option (bool * Z * nat) :=
  let '(neg, r) := match l with
                   | "-"%char :: r => (true, r)
                   | "+"%char :: r => (false, r)
                   | _ => (false, l)
                   end in
  let '(m1, n1, r1) := scan_digits 0 0 r in
  match r1 with
  | [] => if Nat.eqb n1 0 then None else Some (neg, m1, O)
  | "."%char :: r2 =>
      let '(m2, n2, r3) := scan_digits m1 0 r2 in
      match r3 with
      | [] => if Nat.eqb (n1 + n2) 0 then None else Some (neg, m2, n2)
      | _ => None
      end
  | _ => None
  end.

Fixpoint map_opt {A B} (f : A -> option B) (l : list A) : option (list B) :=
  match l with
  | [] => Some []
  | x :: r => let? y := f x in let? ys := map_opt f r in Some (y :: ys)
  end.

Fixpoint mapi_aux {A B} (f : nat -> A -> B) (i : nat) (l : list A) : list B :=
  match l with [] => [] | x :: r => f i x :: mapi_aux f (S i) r end.
Definition mapi {A B} (f : nat -> A -> B) (l : list A) : list B := mapi_aux f O l.

(* a Go array of length n given by its entries *)
Definition tab {A} (n : nat) (f : nat -> A) : list A := map f (seq 0 n).

Definition ztn (z : Z) : nat := Z.to_nat z.

Section Model.
  Context {T : Type} {NT : Num T}.

  (* helper.go:44 ValAsFloat (Fatal = None), helper.go:54 TryValAsFloat (error = None) *)
  Definition val_as_float (l : lstr) : option T :=
    match parse_dec (trim l) with
    | Some (neg, m, k) => Some (if neg then opp (Num.dec m k) else Num.dec m k)
    | None => None
    end.

  (* ---------------------------------------------------------------- *)
  (* the decoded YAML record (cropparam.go:16-63); names do not reach the state, only their count *)
  Record stage_rec := {
    st_bbch : Z; st_tsum : T; st_bas : T; st_vschwell : T; st_dayl : T; st_dlbas : T; st_dryswell : T;
    st_lukrit : T; st_laifkt : T; st_wgmax : T; st_pro : list T; st_dead : list T; st_kc : T }.

  Record crop_rec := {
    r_maxamax : T; r_temptyp : Z; r_mintmp : T; r_wumaxpf : T; r_veloc : T; r_ngefkt : Z;
    r_rga : T; r_rgb : T; r_suborgan : Z; r_ago : list Z; r_yorgan : Z; r_yifak : T;
    r_initbiom : T; r_initroot : T; r_nrkom : Z; r_nnames : nat; r_dauerkult : bool; r_legum : bool;
    r_worg : list T; r_mairt : list T; r_kcini : T; r_nrentw : Z; r_stages : list stage_rec }.

  (* the part of GlobalVarsMain / CropSharedVars the readers and the override write *)
  Record crop_state := {
    MAXAMAX : T; temptyp : Z; MINTMP : T; WUMAXPF : T; VELOC : T; NGEFKT : Z; RGA : T; RGB : T;
    SubOrgan : Z; AGO : list Z; YORGAN : Z; YIFAK : T; NRKOM : Z; DAUERKULT : bool; LEGUM : bool;
    STAGEDAYS : list Z;            (* DOUBLE ASIP BLUET REIF ENDPRO (dung.go:59 ResetStages) *)
    PHYLLO : T; VERNTAGE : T; SUM : list T; DEV : list Z; PRO : list (list T); DEAD : list (list T);
    TROOTSUM : T; GEHOB : T; WUGEH : T; WORG : list T; MAIRT : list T; WDORG : list T;
    kcini : T; NRENTW : Z; tendsum : T; useBBCH : bool; ENDBBCH : list T;
    TSUM : list T; BAS : list T; VSCHWELL : list T; DAYL : list T; DLBAS : list T; DRYSWELL : list T;
    LUKRIT : list T; LAIFKT : list T; WGMAX : list T; kc : list T }.

  (* cropparam.go:620 CheckPROSum — only logs; returned for the record *)
  Definition pro_row_ok (last : bool) (row : list T) : bool :=
    let s := sum_list row in
    ltb (absv (sub s one)) (Num.dec 1 4) || (last && ltb (absv s) (Num.dec 1 4)).
  Fixpoint check_pro_rows (n : nat) (rows : list (list T)) : bool :=
    match n, rows with
    | O, _ => true
    | S k, row :: r => pro_row_ok (Nat.eqb k 0) row && check_pro_rows k r
    | S _, [] => false
    end.
  Definition check_pro_sum (s : crop_state) : bool := check_pro_rows (ztn (NRENTW s)) (PRO s).

  (* entry i of a [10]float64 stage array after the stage loop: the value of stage i if there is one *)
  Definition stage_entry {A} (sts : list stage_rec) (f : stage_rec -> A) (old : list A) (d : A) (i : nat) : A :=
    match nth_error sts i with Some st => f st | None => nth i old d end.
  (* entry (i, j) of a [10][5]float64 table: reset block (cropparam.go:146-167 / 307-328: rows 0,1
     survive for a perennial crop), then the first NRKOM columns of the rows of the stages *)
  Definition part_entry (sts : list stage_rec) (f : stage_rec -> list T) (nk : nat) (dauer : bool)
      (old : list (list T)) (i j : nat) : T :=
    let base := if dauer && Nat.ltb i 2 then nth j (nth i old []) zero else zero in
    match nth_error sts i with
    | Some st => match nth_error (firstn nk (f st)) j with Some v => v | None => base end
    | None => base
    end.
  Definition organ_entry (vals : list T) (nk : nat) (old : list T) (i : nat) : T :=
    match nth_error (firstn nk vals) i with Some v => v | None => nth i old zero end.

  (* ---------------------------------------------------------------- *)
  (* the state both readers build from the values they have read (the assignments of the Go code
     collapse to one record because every target is written once; arrays have their Go lengths) *)
  Definition build_state (cont : bool) (s0 : crop_state)
      (maxamax : T) (ttyp : Z) (mintmp wumaxpf veloc : T) (ngefkt : Z) (rga rgb : T) (suborgan : Z)
      (ago : list Z) (yorgan : Z) (yifak : T) (nrkom : Z) (dauer legum : bool)
      (initbiom initroot : T) (worg mairt : list T) (kcini_ : T) (nrentw : Z) (sts : list stage_rec)
      : crop_state :=
    let keep := dauer && cont in
    let nk := ztn nrkom in
    {| MAXAMAX := maxamax; temptyp := ttyp; MINTMP := mintmp; WUMAXPF := wumaxpf;
       VELOC := div veloc (ofZ 200);
       NGEFKT := ngefkt; RGA := rga; RGB := rgb; SubOrgan := suborgan; AGO := ago;
       YORGAN := yorgan; YIFAK := yifak; NRKOM := nrkom; DAUERKULT := dauer; LEGUM := legum;
       STAGEDAYS := tab 5 (fun i => if dauer then nth i (STAGEDAYS s0) 0 else 0);
       PHYLLO := if dauer then PHYLLO s0 else zero;
       VERNTAGE := if dauer then VERNTAGE s0 else zero;
       SUM := tab 10 (fun i => if dauer && Nat.ltb i 2 then nth i (SUM s0) zero else zero);
       DEV := tab 10 (fun i => if dauer then nth i (DEV s0) 0 else 0);
       PRO := tab 10 (fun i => tab 5 (part_entry sts st_pro nk dauer (PRO s0) i));
       DEAD := tab 10 (fun i => tab 5 (part_entry sts st_dead nk dauer (DEAD s0) i));
       TROOTSUM := zero;
       GEHOB := if keep then GEHOB s0 else div initbiom (ofZ 100);
       WUGEH := if keep then WUGEH s0 else div initroot (ofZ 100);
       WORG := tab 5 (fun i => if keep then nth i (WORG s0) zero else organ_entry worg nk (WORG s0) i);
       MAIRT := tab 10 (organ_entry mairt nk (MAIRT s0));
       WDORG := tab 10 (fun i => if Nat.ltb i nk then zero else nth i (WDORG s0) zero);
       kcini := kcini_; NRENTW := nrentw;
       tendsum := fold_left add (map st_tsum sts) zero;
       useBBCH := existsb (fun st => 0 <? st_bbch st) sts;
       ENDBBCH := tab 10 (stage_entry sts (fun st => ofZ (st_bbch st)) (ENDBBCH s0) zero);
       TSUM := tab 10 (stage_entry sts st_tsum (TSUM s0) zero);
       BAS := tab 10 (stage_entry sts st_bas (BAS s0) zero);
       VSCHWELL := tab 10 (stage_entry sts st_vschwell (VSCHWELL s0) zero);
       DAYL := tab 10 (stage_entry sts st_dayl (DAYL s0) zero);
       DLBAS := tab 10 (stage_entry sts st_dlbas (DLBAS s0) zero);
       DRYSWELL := tab 10 (stage_entry sts st_dryswell (DRYSWELL s0) zero);
       LUKRIT := tab 10 (stage_entry sts st_lukrit (LUKRIT s0) zero);
       LAIFKT := tab 10 (stage_entry sts st_laifkt (LAIFKT s0) zero);
       WGMAX := tab 10 (stage_entry sts st_wgmax (WGMAX s0) zero);
       kc := tab 10 (stage_entry sts st_kc (kc s0) zero) |}.

  (* ---------------------------------------------------------------- *)
  (* ReadCropParamYml, cropparam.go:101-214 *)
  Definition ago_ok (nrkom : Z) (ago : list Z) : bool :=
    forallb (fun o => (1 <=? o) && (o <=? nrkom)) ago.
  Definition stage_long_enough (nk : nat) (st : stage_rec) : bool :=
    Nat.leb nk (List.length (st_pro st)) && Nat.leb nk (List.length (st_dead st)).

  Definition state_of_yaml (cont : bool) (r : crop_rec) (s0 : crop_state) : option crop_state :=
    let nk := ztn (r_nrkom r) in
    let ne := ztn (r_nrentw r) in
    if 5 <? r_nrkom r then None else                                  (* :129 *)
    if negb (ago_ok (r_nrkom r) (r_ago r)) then None else             (* :134 *)
    if 10 <? r_nrentw r then None else                                (* :142 *)
    if negb (r_nrkom r =? Z.of_nat (r_nnames r)) then None else       (* :170 *)
    if negb (r_nrkom r =? Z.of_nat (List.length (r_worg r))) then None else
    if negb (r_nrkom r =? Z.of_nat (List.length (r_mairt r))) then None else
    if negb (Nat.leb ne (List.length (r_stages r))) then None else    (* index out of range :195 *)
    let sts := firstn ne (r_stages r) in
    if negb (forallb (stage_long_enough nk) sts) then None else       (* index out of range :207 *)
    Some (build_state cont s0 (r_maxamax r) (r_temptyp r) (r_mintmp r) (r_wumaxpf r) (r_veloc r)
            (r_ngefkt r) (r_rga r) (r_rgb r) (r_suborgan r) (r_ago r) (r_yorgan r) (r_yifak r)
            (r_nrkom r) (r_dauerkult r) (r_legum r) (r_initbiom r) (r_initroot r)
            (r_worg r) (r_mairt r) (r_kcini r) (r_nrentw r) sts).

  (* ---------------------------------------------------------------- *)
  (* reading the classic layout *)
  Definition ln (lines : list lstr) (k : nat) : option lstr := nth_error lines k.   (* LineInut: EOF = Fatal *)

  Definition f65 (l : lstr) : option T := let? s := from 65 l in val_as_float s.
  Definition i65 (l : lstr) : option Z := let? s := from 65 l in val_as_int s.

  (* LINE[25+8*(i+1) : 30+8*(i+1)] for i = 0 .. n-1 *)
  Fixpoint cols (n : nat) (i : nat) (l : lstr) : option (list T) :=
    match n with
    | O => Some []
    | S k => let? s := subs (25 + 8 * (i + 1)) (30 + 8 * (i + 1)) l in
             let? v := val_as_float s in
             let? r := cols k (S i) l in Some (v :: r)
    end.

  (* the "a=", "b=", "org=" tokens of the N-function line (:259-277 / :480-494); a later token of the
     same kind overwrites an earlier one *)
  Definition tok_val (pre : lstr) (tok : lstr) : option lstr :=
    if has_prefix pre tok then nth_error (split_on "="%char tok) 1 else None.

  Fixpoint scan_tokens (toks : list lstr) (a b : option T) (org : option Z)
      : option (option T * option T * option Z) :=
    match toks with
    | [] => Some (a, b, org)
    | t :: r =>
        let? a' := match tok_val (lstr_of "a=") t with
                   | Some v => let? x := val_as_float v in Some (Some x)
                   | None => Some a end in
        let? b' := match tok_val (lstr_of "b=") t with
                   | Some v => let? x := val_as_float v in Some (Some x)
                   | None => Some b end in
        let? org' := match tok_val (lstr_of "org=") t with
                     | Some v => let? w := from 1 v in let? x := val_as_int w in Some (Some x)
                     | None => Some org end in
        scan_tokens r a' b' org'
    end.

  Definition nfun_tokens (ngefkt : Z) (l : lstr) : option (option T * option T * option Z) :=
    if ngefkt =? 5 then scan_tokens (fields l) None None None else Some (None, None, None).

  (* above-ground organs :282-288 : every byte of the trimmed text is one organ number *)
  Definition read_ago (l : lstr) : option (list Z) :=
    let? s := from 65 l in map_opt (fun c => val_as_int [c]) (trim s).

  Definition byte_is (l : lstr) (k : nat) (c : ascii) : option bool :=
    let? x := nth_error l k in Some (if ascii_dec x c then true else false).

  (* BBCH code of a stage headline: classic reader (:352-360, strict) vs converter (:544-552) *)
  Definition read_bbch (strict : bool) (l : lstr) : Z :=
    if Nat.ltb 65 (List.length l) then
      match val_as_float (skipn 65 l) with
      | Some v => if strict then (if leb zero v && ltb v (ofZ 100) then truncZ v else 0) else truncZ v
      | None => 0
      end
    else 0.

  (* the 13 lines of stage i start at line 19 + 13 i *)
  Definition read_stage (strict : bool) (nk : nat) (lines : list lstr) (i : nat) : option stage_rec :=
    let b := (19 + 13 * i)%nat in
    let? h := ln lines b in
    let bbch := read_bbch strict h in
    let? l4 := ln lines (b + 1) in let? tsum := f65 l4 in
    let? l5 := ln lines (b + 2) in let? bas := f65 l5 in
    let? l6 := ln lines (b + 3) in let? vs := f65 l6 in
    let? l7 := ln lines (b + 4) in let? dayl := f65 l7 in
    let? l7b := ln lines (b + 5) in let? dlbas := f65 l7b in
    let? l8 := ln lines (b + 6) in let? dry := f65 l8 in
    let? l8b := ln lines (b + 7) in let? luk := f65 l8b in
    let? l8c := ln lines (b + 8) in let? lai := f65 l8c in
    let? l8d := ln lines (b + 9) in let? wg := f65 l8d in
    let? l9 := ln lines (b + 10) in
    let? l9b := ln lines (b + 11) in
    let? pro := cols nk 0 l9 in
    let? dead := cols nk 0 l9b in
    let? l9c := ln lines (b + 12) in let? kc_ := f65 l9c in
    Some {| st_bbch := bbch; st_tsum := tsum; st_bas := bas; st_vschwell := vs; st_dayl := dayl;
            st_dlbas := dlbas; st_dryswell := dry; st_lukrit := luk; st_laifkt := lai; st_wgmax := wg;
            st_pro := pro; st_dead := dead; st_kc := kc_ |}.

  Fixpoint read_stages (strict : bool) (nk : nat) (lines : list lstr) (n : nat) (i : nat)
      : option (list stage_rec) :=
    match n with
    | O => Some []
    | S k => let? st := read_stage strict nk lines i in
             let? r := read_stages strict nk lines k (S i) in Some (st :: r)
    end.

  (* interleaved PRO/DEAD columns of the classic reader (:393-398) fail together; the array
     bounds of the Go state: WORG [5], PRO [10][5], stage arrays [10] *)

  (* ReadCropParamClassic, cropparam.go:217-405 *)
  Definition state_of_classic (cont : bool) (lines : list lstr) (s0 : crop_state) : option crop_state :=
    let? l0 := ln lines 3 in let? maxamax := f65 l0 in
    let? l0b := ln lines 4 in let? ttyp := i65 l0b in
    let? l01 := ln lines 5 in let? mintmp := f65 l01 in
    let? l02 := ln lines 6 in let? wumaxpf := f65 l02 in
    let? l03 := ln lines 7 in let? rtveloc := f65 l03 in
    let? l04 := ln lines 8 in let? ngefkt := i65 l04 in
    let? toks := nfun_tokens ngefkt l04 in
    let '(ta, tb, torg) := toks in
    if match torg with Some o => 5 <? o | None => false end then None else      (* :272 *)
    let? l05 := ln lines 9 in let? ago := read_ago l05 in
    let? l05b := ln lines 10 in
    let? sy := subs 65 66 l05b in let? yorgan := val_as_int sy in
    let? sf := from 66 l05b in let? yifak := val_as_float sf in
    let? l06 := ln lines 11 in
    let? l06b := ln lines 12 in
    let? l1 := ln lines 13 in let? nrkom := i65 l1 in
    let? _ := ln lines 14 in
    let? l1b := ln lines 15 in
    let? dauer := byte_is l1b 32 "D"%char in
    let? legum := byte_is l1b 40 "L"%char in
    let keep := dauer && cont in
    let nk := ztn nrkom in
    let? initbiom := if keep then Some zero else f65 l06 in
    let? initroot := if keep then Some zero else f65 l06b in
    let? l1c := ln lines 16 in
    if 10 <? nrkom then None else                       (* MAIRT[i], WDORG[i] : [10]float64 *)
    if negb keep && (5 <? nrkom) then None else         (* WORG[i] : [5]float64 *)
    let? worg := if keep then Some [] else cols nk 0 l1b in
    let? mairt := cols nk 0 l1c in
    let? l1d := ln lines 17 in let? kcini_ := f65 l1d in
    let? l2 := ln lines 18 in let? nrentw := i65 l2 in
    let ne := ztn nrentw in
    if (10 <? nrentw) then None else                    (* TSUM[i] : [10]float64 *)
    if Nat.ltb 0 ne && (5 <? nrkom) then None else      (* PRO[i][L] : [10][5]float64 *)
    let? sts := read_stages true nk lines ne 0 in
    Some (build_state cont s0 maxamax ttyp mintmp wumaxpf rtveloc ngefkt
            (match ta with Some v => v | None => RGA s0 end)
            (match tb with Some v => v | None => RGB s0 end)
            (match torg with Some v => v | None => SubOrgan s0 end)
            ago yorgan yifak nrkom dauer legum initbiom initroot worg mairt kcini_ nrentw sts).

  (* the converter's final PRO check (:603-615): an error, no record *)
  Fixpoint conv_pro_ok (sts : list stage_rec) : bool :=
    match sts with
    | [] => true
    | st :: r => pro_row_ok (match r with [] => true | _ => false end) (st_pro st) && conv_pro_ok r
    end.

  (* ConvertCropParamClassicToYml, cropparam.go:407-601: everything before the final PRO check *)
  Definition convert_core (lines : list lstr) : option crop_rec :=
    let? _ := ln lines 0 in let? _ := ln lines 1 in let? _ := ln lines 2 in
    let? l0 := ln lines 3 in let? maxamax := f65 l0 in
    let? l0b := ln lines 4 in let? ttyp := i65 l0b in
    let? l01 := ln lines 5 in let? mintmp := f65 l01 in
    let? l02 := ln lines 6 in let? wumaxpf := f65 l02 in
    let? l03 := ln lines 7 in let? veloc := f65 l03 in
    let? l04 := ln lines 8 in let? ngefkt := i65 l04 in
    let? toks := nfun_tokens ngefkt l04 in
    let '(ta, tb, torg) := toks in
    let? l05 := ln lines 9 in let? ago := read_ago l05 in
    let? l05b := ln lines 10 in
    let? sy := subs 65 66 l05b in let? yorgan := val_as_int sy in
    let? sf := from 66 l05b in let? yifak := val_as_float sf in
    let? l06 := ln lines 11 in let? initbiom := f65 l06 in
    let? l06b := ln lines 12 in let? initroot := f65 l06b in
    let? l1 := ln lines 13 in let? nrkom := i65 l1 in
    let? names := ln lines 14 in
    let nk := ztn nrkom in
    (* CompartmentNames[1 : NRKOM+1] of strings.Fields(line) *)
    if (nrkom <? 0) || negb (Nat.leb (nk + 1) (List.length (fields names))) then None else
    let? l1b := ln lines 15 in
    let? dauer := byte_is l1b 32 "D"%char in
    let? legum := byte_is l1b 40 "L"%char in
    let? l1c := ln lines 16 in
    let? worg := cols nk 0 l1b in
    let? mairt := cols nk 0 l1c in
    let? l1d := ln lines 17 in let? kcini_ := f65 l1d in
    let? l2 := ln lines 18 in let? nrentw := i65 l2 in
    let? sts := read_stages false nk lines (ztn nrentw) 0 in
    Some {| r_maxamax := maxamax; r_temptyp := ttyp; r_mintmp := mintmp; r_wumaxpf := wumaxpf;
            r_veloc := veloc; r_ngefkt := ngefkt;
            r_rga := match ta with Some v => v | None => zero end;
            r_rgb := match tb with Some v => v | None => zero end;
            r_suborgan := match torg with Some v => v | None => 0 end;
            r_ago := ago; r_yorgan := yorgan; r_yifak := yifak; r_initbiom := initbiom;
            r_initroot := initroot; r_nrkom := nrkom; r_nnames := nk; r_dauerkult := dauer;
            r_legum := legum; r_worg := worg; r_mairt := mairt; r_kcini := kcini_;
            r_nrentw := nrentw; r_stages := sts |}.

  (* ConvertCropParamClassicToYml, cropparam.go:407-618 *)
  Definition convert (lines : list lstr) : option crop_rec :=
    let? r := convert_core lines in
    if negb (conv_pro_ok (r_stages r)) then None else Some r.
End Model.

Arguments stage_rec T : clear implicits.
Arguments crop_rec T : clear implicits.
Arguments crop_state T : clear implicits.
