(* Prop_C03.v — property C03 (results are deterministic and independent of scheduling),
   stated about PoolModel (hermes/path.go FilePool) and DispatchModel
   (src/hermes2go/hermes_main.go doConcurrentBatchRun).  Only statements, each closed by
   [exact lemma], and Print Assumptions.  The generated obligation shared_state_inert
   (inventory of package-level / session state, regenerated from /repo on every run) is
   checked by lib/props/c03.py in gen/SharedStateCheck.v.

   PARTIAL: goroutine interleavings at the memory-model level (data races) are not
   expressible in these models; they are covered by race-detector runs of the real binary
   only (supporting evidence, not proof). *)
From stdpp Require Import gmap.
From Hermes Require Import PoolModel PoolProofs DispatchModel DispatchProofs OutFileModel OutFileProofs HandleModel HandleProofs.

(* every value returned by any interleaving (= any list, the mutex serialises) of Get and
   Close calls equals the disk content of the requested path; invariant: pool ⊆ disk *)
Theorem C03_pool_coherent :
  forall (path bytes : Type) `{Countable path} (disk : path -> bytes) (nilb : bytes)
         (ops : list (@op path)) (pl : gmap path bytes),
  pool_ok disk pl ->
  let out := snd (run_ops disk nilb pl ops) in
  Forall (fun pb => snd pb = disk (fst pb)) out /\
  map fst out = omap (fun o => match o with OGet p => Some p | OClose => None end) ops /\
  pool_ok disk (fst (run_ops disk nilb pl ops)).
Proof. exact @pool_coherent_lemma. Qed.

(* ... whether or not shared files were already cached by earlier runs of the session *)
Theorem C03_pool_cache_irrelevant :
  forall (path bytes : Type) `{Countable path} (disk : path -> bytes) (nilb : bytes)
         (ops : list (@op path)) (pl1 pl2 : gmap path bytes),
  pool_ok disk pl1 -> pool_ok disk pl2 ->
  snd (run_ops disk nilb pl1 ops) = snd (run_ops disk nilb pl2 ops).
Proof. exact @pool_cache_irrelevant_lemma. Qed.

(* for every c >= 1 and every maximal schedule: the started indices are exactly the lines of
   [startLine, stop) once each, in file order; never more than c active runs; every
   schedule is bounded (termination), a maximal one exists, and a maximal one has exactly
   2 transitions per line (+ one per file read) and leaves nothing to do *)
Theorem C03_dispatch_exact_once :
  forall (path bytes L R : Type) `{Countable path} (disk : path -> bytes) (nilb : bytes)
         (run_prog : L -> @prog path bytes R) (err : R -> bool)
         (c : nat) (startLine numberOfLines : Z) (lines : list L) (pl0 : gmap path bytes),
  1 <= c -> pool_ok disk pl0 ->
  let b := select_lines startLine numberOfLines 0 lines in
  let s0 := init b pl0 in
  (forall i l, (i, l) ∈ b <->
     (0 <= i /\ startLine <= i /\ (0 < numberOfLines -> i < numberOfLines) /\
      lines !! Z.to_nat i = Some l)%Z) /\
  NoDup b.*1 /\
  (forall tr s, exec disk nilb run_prog err c s0 tr s ->
     length tr <= tot (cost disk run_prog) b /\ length (active s) <= c) /\
  (exists tr s, exec disk nilb run_prog err c s0 tr s /\ stuck disk nilb run_prog err c s) /\
  (forall tr s, exec disk nilb run_prog err c s0 tr s -> stuck disk nilb run_prog err c s ->
     starts tr = b.*1 /\
     length (finishes tr) = length b /\
     rl (results s) ≡ₚ b /\
     todo s = [] /\ active s = [] /\
     length tr = 2 * length b + tot (fun x => reads disk (run_prog x.2)) b).
Proof. exact @dispatch_exact_once_lemma. Qed.

(* with each run a function of its own batch line and of file contents only, the
   (line, result) pairs are the same for any two maximal schedules, any two concurrency
   levels, any permutation of the batch lines and any two initial cache states *)
Theorem C03_results_schedule_independent :
  forall (path bytes L R : Type) `{Countable path} (disk : path -> bytes) (nilb : bytes)
         (run_prog : L -> @prog path bytes R) (err : R -> bool)
         (c1 c2 : nat) (b1 b2 : list (Z * L)) (pl1 pl2 : gmap path bytes) tr1 s1 tr2 s2,
  1 <= c1 -> 1 <= c2 -> pool_ok disk pl1 -> pool_ok disk pl2 -> b1.*2 ≡ₚ b2.*2 ->
  exec disk nilb run_prog err c1 (init b1 pl1) tr1 s1 -> stuck disk nilb run_prog err c1 s1 ->
  exec disk nilb run_prog err c2 (init b2 pl2) tr2 s2 -> stuck disk nilb run_prog err c2 s2 ->
  (fun x => (x.1.2, x.2)) <$> results s1 ≡ₚ (fun x => (x.1.2, x.2)) <$> results s2 /\
  (forall i l v, (i, l, v) ∈ results s1 -> v = eval disk (run_prog l)) /\
  (forall i l v, (i, l, v) ∈ results s2 -> v = eval disk (run_prog l)).
Proof. exact @results_schedule_independent_lemma. Qed.

(* the executable scheduler that the correspondence runs produces maximal schedules only *)
Theorem C03_scheduler_sound :
  forall (path bytes L R : Type) `{Countable path} (disk : path -> bytes) (nilb : bytes)
         (run_prog : L -> @prog path bytes R) (err : R -> bool)
         (c fuel : nat) (rnd : N) (s : @st path bytes L R _ _) tr s',
  sim disk nilb run_prog err c fuel rnd s [] = Some (tr, s') ->
  exec disk nilb run_prog err c s tr s' /\ stuck disk nilb run_prog err c s'.
Proof. exact @sim_maximal_lemma. Qed.

(* result files (hermes/path.go DefaultFoutGenerator: not append => O_TRUNC): after ANY history
   of runs, from ANY initial state of the result folders, a file holds exactly the bytes of
   the last run that wrote it *)
Theorem C03_last_writer_wins :
  forall (path byte : Type) `{Countable path} (fs : gmap path (list byte))
         (h : list (@run_out path byte)) (p : path),
  do_history fs h !! p =
  match last_write (concat h) p with Some ch => Some (concat ch) | None => fs !! p end.
Proof. exact @last_writer_wins_lemma. Qed.

(* ... so the files a run writes are the same whatever ran before it, in this or an earlier
   session (used result folder = empty result folder) *)
Theorem C03_result_independent_of_history :
  forall (path byte : Type) `{Countable path} (fs1 fs2 : gmap path (list byte))
         (h1 h2 : list (@run_out path byte)) (r : @run_out path byte) (p : path),
  p ∈ r.*1 ->
  do_history fs1 (h1 ++ [r]) !! p = do_history fs2 (h2 ++ [r]) !! p.
Proof. exact @result_independent_of_history_lemma. Qed.

(* the model distinguishes the flags: without O_TRUNC a shorter output keeps the old tail *)
Theorem C03_trunc_is_needed :
  forall (byte : Type) (old data : list byte),
  length data < length old ->
  write_chunks (fopen false false (Some old)).1 (fopen false false (Some old)).2 [data]
    = data ++ drop (length data) old /\
  data ++ drop (length data) old <> data.
Proof. exact @trunc_is_needed_lemma. Qed.

(* the same batch line repeated in one batch (same result folder), -concurrent >= 2: any number
   of writers of the same content on one file, each opened truncating and writing at its own
   offset, in ANY interleaving of opens and writes, from ANY prior content: when all have
   written everything the file is exactly that content *)
Theorem C03_identical_writers :
  forall (byte : Type) (zero : byte) (d : list byte) (f0 : @hfile byte) (tr : list wevent) (s : @wstate byte),
  wexec zero d (WState f0 (fun _ => None)) tr s ->
  opened s -> (forall i o, offs s i = Some o -> o = N.of_nat (length d)) ->
  file_bytes (wfile s) = d.
Proof. exact @identical_writers_lemma. Qed.

(* the model distinguishes the flags: with O_APPEND|O_TRUNC two such writers double the file *)
Theorem C03_append_flag_doubles :
  forall (byte : Type) (zero : byte) (d : list byte), d <> [] ->
  let '(f1, ha) := hopen zero true true (empty_file zero) in
  let '(f2, hb) := hopen zero true true f1 in
  let '(f3, _) := hwrite zero f2 ha d in
  let '(f4, _) := hwrite zero f3 hb d in
  flen f4 = (2 * N.of_nat (length d))%N /\ file_bytes f4 <> d.
Proof. exact @append_flag_doubles_lemma. Qed.

(* non-vacuity: a concrete batch (5 lines, one failing, concurrency 2): the executable
   scheduler yields a maximal schedule of 15 transitions with summary [3] *)
Example C03_nonvacuous :
  let run_prog := fun l : Z => Read 1%positive (fun _ : Z => Done (bool_decide (l = 2%Z))) in
  exists tr s,
    sim (fun _ : positive => 0%Z) 0%Z run_prog (fun v : bool => v) 2 40 12345%N
        (init (select_lines 0 (-1) 0 [0; 1; 0; 2; 1]%Z) ∅) [] = Some (tr, s) /\
    length tr = 15 /\ summary s = [3%Z] /\ starts tr = [0; 1; 2; 3; 4]%Z.
Proof. vm_compute. eexists _, _. repeat split. Qed.

Print Assumptions C03_pool_coherent.
Print Assumptions C03_pool_cache_irrelevant.
Print Assumptions C03_dispatch_exact_once.
Print Assumptions C03_results_schedule_independent.
Print Assumptions C03_scheduler_sound.
Print Assumptions C03_last_writer_wins.
Print Assumptions C03_result_independent_of_history.
Print Assumptions C03_trunc_is_needed.
Print Assumptions C03_identical_writers.
Print Assumptions C03_append_flag_doubles.
