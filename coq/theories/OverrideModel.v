(* OverrideModel.v — executable model of hermes/crop_calibration.go (no proofs here):
     parse_overrides   ParseCropOverwrites        :313-387  (keys c_NAME, c_NAME_i, c_NAME_i_j)
     valid             isValidCropOverwrite       :189-310
     apply             OverwriteCropParameters    :67-186   (validation first, then the assignments)
   and of "the same edit in the crop file": [edit_rec] on the decoded YAML record, [edit_lines] on
   the classic fixed-column file.
   Go keeps the parsed override in maps; every map entry is written to its own variable, so the
   loops over the maps are order independent and are modelled pointwise: the new value of a target
   is the override value for that target if there is one.  Two batch keys for one target
   (c_TSUM_1 and c_TSUM_01) make Go's result depend on map order; the model takes the first. *)
From Coq Require Import ZArith List Bool Ascii String Lia.
From Hermes Require Import Num DateModel CropParamModel.
Import ListNotations.
Local Open Scope Z_scope.

Inductive pname :=
  | MAXAMAX_ | MINTMP_ | WUMAXPF_ | VELOC_ | YIFAK_ | INITCONCNBIOM_ | INITCONCNROOT_
  | TSUM_ | BAS_ | VSCHWELL_ | DAYL_ | DLBAS_ | DRYSWELL_ | LUKRIT_ | LAIFKT_ | WGMAX_ | KC_
  | PRO_ | DEAD_.

Definition pname_eqb (a b : pname) : bool :=
  match a, b with
  | MAXAMAX_, MAXAMAX_ | MINTMP_, MINTMP_ | WUMAXPF_, WUMAXPF_ | VELOC_, VELOC_ | YIFAK_, YIFAK_
  | INITCONCNBIOM_, INITCONCNBIOM_ | INITCONCNROOT_, INITCONCNROOT_ | TSUM_, TSUM_ | BAS_, BAS_
  | VSCHWELL_, VSCHWELL_ | DAYL_, DAYL_ | DLBAS_, DLBAS_ | DRYSWELL_, DRYSWELL_ | LUKRIT_, LUKRIT_
  | LAIFKT_, LAIFKT_ | WGMAX_, WGMAX_ | KC_, KC_ | PRO_, PRO_ | DEAD_, DEAD_ => true
  | _, _ => false
  end.

Definition all_names : list (string * pname) :=
  [("MAXAMAX", MAXAMAX_); ("MINTMP", MINTMP_); ("WUMAXPF", WUMAXPF_); ("VELOC", VELOC_); ("YIFAK", YIFAK_);
   ("INITCONCNBIOM", INITCONCNBIOM_); ("INITCONCNROOT", INITCONCNROOT_); ("TSUM", TSUM_); ("BAS", BAS_);
   ("VSCHWELL", VSCHWELL_); ("DAYL", DAYL_); ("DLBAS", DLBAS_); ("DRYSWELL", DRYSWELL_); ("LUKRIT", LUKRIT_);
   ("LAIFKT", LAIFKT_); ("WGMAX", WGMAX_); ("KC", KC_); ("PRO", PRO_); ("DEAD", DEAD_)]%string.

Definition lstr_eqb (a b : lstr) : bool := if list_eq_dec ascii_dec a b then true else false.

(* isValidCropParameter :45 *)
Definition pname_of (l : lstr) : option pname :=
  option_map snd (find (fun p => lstr_eqb (lstr_of (fst p)) l) all_names).

Section Model.
  Context {T : Type} {NT : Num T}.

  (* CropOverwrite :55 — entries in the order they were parsed *)
  Record cropow := {
    ow_base : list (pname * T);
    ow_stage : list (pname * Z * T);
    ow_part : list (pname * Z * Z * T) }.

  Definition ow_empty : cropow := {| ow_base := []; ow_stage := []; ow_part := [] |}.

  (* one batch key/value pair; None = error return / Fatal (the run does not start) *)
  Definition parse_one (o : cropow) (key value : lstr) : option cropow :=
    if negb (has_prefix (lstr_of "c_") key) then Some o else
    let? v := val_as_float value in                               (* :333 *)
    let parts := split_on "_"%char key in
    let? nm := nth_error parts 1 in
    let? p := pname_of nm in                                      (* :339 *)
    match parts with
    | [_; _] => Some {| ow_base := ow_base o ++ [(p, v)]; ow_stage := ow_stage o; ow_part := ow_part o |}
    | [_; _; si] =>
        let? i := val_as_int si in
        if (i <? 1) || (9 <? i) then None else                    (* :352 *)
        Some {| ow_base := ow_base o; ow_stage := ow_stage o ++ [(p, i, v)]; ow_part := ow_part o |}
    | [_; _; si; sj] =>
        let? i := val_as_int si in
        if (i <? 1) || (9 <? i) then None else                    (* :365 *)
        let? j := val_as_int sj in
        if (j <? 1) || (5 <? j) then None else                    (* :371 *)
        Some {| ow_base := ow_base o; ow_stage := ow_stage o; ow_part := ow_part o ++ [(p, i, j, v)] |}
    | _ => None                                                   (* :380 *)
    end.

  Fixpoint parse_overrides_from (o : cropow) (args : list (lstr * lstr)) : option cropow :=
    match args with
    | [] => Some o
    | (k, v) :: r => let? o' := parse_one o k v in parse_overrides_from o' r
    end.
  Definition parse_overrides (args : list (lstr * lstr)) : option cropow := parse_overrides_from ow_empty args.

  (* ---- lookups (Go: map access) ---- *)
  Definition look_base (o : cropow) (p : pname) : option T :=
    option_map snd (find (fun e => pname_eqb (fst e) p) (ow_base o)).
  Definition look_stage (o : cropow) (p : pname) (i : Z) : option T :=
    option_map snd (find (fun e => pname_eqb (fst (fst e)) p && (snd (fst e) =? i)) (ow_stage o)).
  Definition look_part (o : cropow) (p : pname) (i j : Z) : option T :=
    option_map snd (find (fun e => pname_eqb (fst (fst (fst e))) p && (snd (fst (fst e)) =? i) && (snd (fst e) =? j))
                         (ow_part o)).
  Definition has_stage_key (o : cropow) (p : pname) : bool :=
    existsb (fun e => pname_eqb (fst (fst e)) p) (ow_stage o).

  (* ---- isValidCropOverwrite :189-310 ---- *)
  Definition between (lo hi v : T) : bool := leb lo v && leb v hi.      (* not (v < lo || v > hi) *)
  Definition nlt (a b : T) : bool := negb (ltb a b).
  Definition ngt (a b : T) : bool := negb (ltb b a).
  Definition nle (a b : T) : bool := negb (leb a b).
  Definition nge (a b : T) : bool := negb (leb b a).

  (* the Go conditions are written as rejections: value <= 0 || value > 100 etc. *)
  Definition base_ok (p : pname) (v : T) : bool :=
    match p with
    | MAXAMAX_ => nle v zero && ngt v (ofZ 100)
    | MINTMP_ => nle v (ofZ (-30)) && nge v (ofZ 50)
    | WUMAXPF_ => nle v zero && ngt v (ofZ 20)
    | VELOC_ => nle v zero && ngt v one
    | YIFAK_ => nlt v zero && ngt v one
    | INITCONCNBIOM_ | INITCONCNROOT_ => nlt v zero && ngt v (ofZ 100)
    | _ => true                                    (* any other valid name as a base key: ignored *)
    end.
  Definition stage_ok (ne : Z) (p : pname) (i : Z) (v : T) : bool :=
    (1 <=? i) && (i <=? ne) &&
    match p with
    | TSUM_ => nle v zero && ngt v (ofZ 10000)          (* :220 value <= 0 || value > 10000 (F29) *)
    | BAS_ => nlt v (ofZ (-10)) && ngt v (ofZ 40)
    | VSCHWELL_ => nlt v zero && ngt v (ofZ 100)
    | DAYL_ | DLBAS_ => nlt v (ofZ (-24)) && ngt v (ofZ 24)
    | DRYSWELL_ | LUKRIT_ => nlt v zero && ngt v one
    | LAIFKT_ | WGMAX_ => nlt v zero && ngt v (ofZ 100)
    | KC_ => nle v zero
    | _ => false                                   (* :277 invalid crop parameter name *)
    end.
  Definition part_ok (nk ne : Z) (p : pname) (i j : Z) (v : T) : bool :=
    (1 <=? i) && (i <=? ne) && (1 <=? j) && (j <=? nk) &&
    match p with
    | PRO_ | DEAD_ => nlt v zero && ngt v one
    | _ => false                                   (* :304 *)
    end.

  Definition valid (o : cropow) (nk ne : Z) : bool :=
    forallb (fun e => base_ok (fst e) (snd e)) (ow_base o) &&
    forallb (fun e => stage_ok ne (fst (fst e)) (snd (fst e)) (snd e)) (ow_stage o) &&
    forallb (fun e => part_ok nk ne (fst (fst (fst e))) (snd (fst (fst e))) (snd (fst e)) (snd e)) (ow_part o).

  (* ---- OverwriteCropParameters :67-186 ---- *)
  Definition orelse {A} (x : option A) (d : A) : A := match x with Some v => v | None => d end.

  Definition upd_stage (o : cropow) (p : pname) (l : list T) : list T :=
    mapi (fun i old => orelse (look_stage o p (Z.of_nat i + 1)) old) l.
  Definition upd_part (o : cropow) (p : pname) (M : list (list T)) : list (list T) :=
    mapi (fun i row => mapi (fun j old => orelse (look_part o p (Z.of_nat i + 1) (Z.of_nat j + 1)) old) row) M.

  Definition apply (cont : bool) (o : cropow) (s : crop_state T) : crop_state T :=
    if negb (valid o (NRKOM s) (NRENTW s)) then s else                  (* :71 *)
    let keep := DAUERKULT s && cont in
    let tsum' := upd_stage o TSUM_ (TSUM s) in
    {| MAXAMAX := orelse (look_base o MAXAMAX_) (MAXAMAX s);
       temptyp := temptyp s;
       MINTMP := orelse (look_base o MINTMP_) (MINTMP s);
       WUMAXPF := orelse (look_base o WUMAXPF_) (WUMAXPF s);
       VELOC := match look_base o VELOC_ with Some v => div v (ofZ 200) | None => VELOC s end;   (* :91 *)
       NGEFKT := NGEFKT s; RGA := RGA s; RGB := RGB s; SubOrgan := SubOrgan s; AGO := AGO s;
       YORGAN := YORGAN s;
       YIFAK := orelse (look_base o YIFAK_) (YIFAK s);
       NRKOM := NRKOM s; DAUERKULT := DAUERKULT s; LEGUM := LEGUM s; STAGEDAYS := STAGEDAYS s;
       PHYLLO := PHYLLO s; VERNTAGE := VERNTAGE s; SUM := SUM s; DEV := DEV s;
       PRO := upd_part o PRO_ (PRO s);
       DEAD := upd_part o DEAD_ (DEAD s);
       TROOTSUM := TROOTSUM s;
       GEHOB := match look_base o INITCONCNBIOM_ with                                   (* :96-101 *)
                | Some v => if keep then GEHOB s else div v (ofZ 100) | None => GEHOB s end;
       WUGEH := match look_base o INITCONCNROOT_ with
                | Some v => if keep then WUGEH s else div v (ofZ 100) | None => WUGEH s end;
       WORG := WORG s; MAIRT := MAIRT s; WDORG := WDORG s; kcini := kcini s; NRENTW := NRENTW s;
       tendsum := if has_stage_key o TSUM_                                              (* :116-120 *)
                  then fold_left add (firstn (ztn (NRENTW s)) tsum') zero else tendsum s;
       useBBCH := useBBCH s; ENDBBCH := ENDBBCH s;
       TSUM := tsum';
       BAS := upd_stage o BAS_ (BAS s);
       VSCHWELL := upd_stage o VSCHWELL_ (VSCHWELL s);
       DAYL := upd_stage o DAYL_ (DAYL s);
       DLBAS := upd_stage o DLBAS_ (DLBAS s);
       DRYSWELL := upd_stage o DRYSWELL_ (DRYSWELL s);
       LUKRIT := upd_stage o LUKRIT_ (LUKRIT s);
       LAIFKT := upd_stage o LAIFKT_ (LAIFKT s);
       WGMAX := upd_stage o WGMAX_ (WGMAX s);
       kc := upd_stage o KC_ (kc s) |}.

  (* :68 the override is addressed to one crop parameter file: CropFile must EQUAL the base name of the
     file just read (filepath.Base: the part after the last '/'); any other crop of the rotation is untouched *)
  Definition base_name (path : lstr) : lstr := last (split_on "/"%char path) [].
  Definition applies_to (target file : lstr) : bool := lstr_eqb target (base_name file).
  Definition apply_to (cont : bool) (target : lstr) (o : cropow) (file : lstr) (s : crop_state T) : crop_state T :=
    if applies_to target file then apply cont o s else s.

  (* ---- the same edit in the decoded YAML record ---- *)
  Definition edit_stage (o : cropow) (i : nat) (st : stage_rec T) : stage_rec T :=
    let k := Z.of_nat i + 1 in
    {| st_bbch := st_bbch st;
       st_tsum := orelse (look_stage o TSUM_ k) (st_tsum st);
       st_bas := orelse (look_stage o BAS_ k) (st_bas st);
       st_vschwell := orelse (look_stage o VSCHWELL_ k) (st_vschwell st);
       st_dayl := orelse (look_stage o DAYL_ k) (st_dayl st);
       st_dlbas := orelse (look_stage o DLBAS_ k) (st_dlbas st);
       st_dryswell := orelse (look_stage o DRYSWELL_ k) (st_dryswell st);
       st_lukrit := orelse (look_stage o LUKRIT_ k) (st_lukrit st);
       st_laifkt := orelse (look_stage o LAIFKT_ k) (st_laifkt st);
       st_wgmax := orelse (look_stage o WGMAX_ k) (st_wgmax st);
       st_pro := mapi (fun j old => orelse (look_part o PRO_ k (Z.of_nat j + 1)) old) (st_pro st);
       st_dead := mapi (fun j old => orelse (look_part o DEAD_ k (Z.of_nat j + 1)) old) (st_dead st);
       st_kc := orelse (look_stage o KC_ k) (st_kc st) |}.

  Definition edit_rec (o : cropow) (r : crop_rec T) : crop_rec T :=
    {| r_maxamax := orelse (look_base o MAXAMAX_) (r_maxamax r); r_temptyp := r_temptyp r;
       r_mintmp := orelse (look_base o MINTMP_) (r_mintmp r);
       r_wumaxpf := orelse (look_base o WUMAXPF_) (r_wumaxpf r);
       r_veloc := orelse (look_base o VELOC_) (r_veloc r);
       r_ngefkt := r_ngefkt r; r_rga := r_rga r; r_rgb := r_rgb r; r_suborgan := r_suborgan r;
       r_ago := r_ago r; r_yorgan := r_yorgan r;
       r_yifak := orelse (look_base o YIFAK_) (r_yifak r);
       r_initbiom := orelse (look_base o INITCONCNBIOM_) (r_initbiom r);
       r_initroot := orelse (look_base o INITCONCNROOT_) (r_initroot r);
       r_nrkom := r_nrkom r; r_nnames := r_nnames r; r_dauerkult := r_dauerkult r; r_legum := r_legum r;
       r_worg := r_worg r; r_mairt := r_mairt r; r_kcini := r_kcini r; r_nrentw := r_nrentw r;
       r_stages := mapi (edit_stage o) (r_stages r) |}.
End Model.

Arguments cropow T : clear implicits.

(* ------------------------------------------------------------------ *)
(* the same edit in the classic file: one override entry, the value given by its decimal TEXT
   (what stands on the batch line); text written after three blanks at column 65 (66 for the yield
   fraction, which follows the organ digit), or right-aligned into the 5 columns of an organ *)
Definition set_line (lines : list lstr) (k : nat) (l : lstr) : list lstr :=
  mapi (fun i old => if Nat.eqb i k then l else old) lines.

Definition blanks (n : nat) : lstr := repeat " "%char n.

Definition edit_at65 (l : lstr) (text : lstr) : lstr := firstn 65 l ++ blanks 3 ++ text.
Definition edit_at66 (l : lstr) (text : lstr) : lstr := firstn 66 l ++ text.
Definition edit_cols (l : lstr) (j : nat) (text : lstr) : lstr :=
  let a := (25 + 8 * j)%nat in
  firstn a l ++ blanks (5 - List.length text) ++ text ++ skipn (a + 5) l.

Definition base_line (p : pname) : option nat :=
  match p with
  | MAXAMAX_ => Some 3%nat | MINTMP_ => Some 5%nat | WUMAXPF_ => Some 6%nat | VELOC_ => Some 7%nat
  | YIFAK_ => Some 10%nat | INITCONCNBIOM_ => Some 11%nat | INITCONCNROOT_ => Some 12%nat
  | _ => None
  end.
Definition stage_off (p : pname) : option nat :=
  match p with
  | TSUM_ => Some 1%nat | BAS_ => Some 2%nat | VSCHWELL_ => Some 3%nat | DAYL_ => Some 4%nat
  | DLBAS_ => Some 5%nat | DRYSWELL_ => Some 6%nat | LUKRIT_ => Some 7%nat | LAIFKT_ => Some 8%nat
  | WGMAX_ => Some 9%nat | KC_ => Some 12%nat
  | _ => None
  end.
Definition part_off (p : pname) : option nat :=
  match p with PRO_ => Some 10%nat | DEAD_ => Some 11%nat | _ => None end.

(* i, j are the 1-based stage and organ of the key (0 = absent) *)
Definition edit_lines (lines : list lstr) (p : pname) (i j : nat) (text : lstr) : option (list lstr) :=
  match base_line p, stage_off p, part_off p with
  | Some k, _, _ =>
      let? l := nth_error lines k in
      Some (set_line lines k (match p with YIFAK_ => edit_at66 l text | _ => edit_at65 l text end))
  | None, Some d, _ =>
      let k := (19 + 13 * (i - 1) + d)%nat in
      let? l := nth_error lines k in Some (set_line lines k (edit_at65 l text))
  | None, None, Some d =>
      let k := (19 + 13 * (i - 1) + d)%nat in
      let? l := nth_error lines k in
      if Nat.ltb 5 (List.length text) || Nat.ltb (List.length l) (25 + 8 * j + 5) then None
      else Some (set_line lines k (edit_cols l j text))
  | None, None, None => None
  end.
