(* RUtil.v — sums over lists of reals and small list facts used by the kernel proofs. *)
From Coq Require Import Reals List Lra Lia Bool.
From Hermes Require Import Num.
Import ListNotations.
Local Open Scope R_scope.

Fixpoint Rsum (l : list R) : R := match l with [] => 0 | x :: r => x + Rsum r end.

Lemma Rsum_app a b : Rsum (a ++ b) = Rsum a + Rsum b.
Proof. induction a as [|x a IH]; cbn; [lra | rewrite IH; lra]. Qed.

Lemma Rsum_map_zero {A} (l : list A) : Rsum (map (fun _ => 0) l) = 0.
Proof. induction l as [|x l IH]; cbn; [reflexivity | rewrite IH; lra]. Qed.

Lemma Rsum_map_scale (c : R) (l : list R) : Rsum (map (fun x => x * c) l) = Rsum l * c.
Proof. induction l as [|x l IH]; cbn; [lra | rewrite IH; lra]. Qed.

Lemma Rsum_map_div (c : R) (l : list R) : Rsum (map (fun x => x / c) l) = Rsum l / c.
Proof. induction l as [|x l IH]; cbn; [unfold Rdiv; lra | rewrite IH; unfold Rdiv; lra]. Qed.

Lemma last_cons_ne {A} (x : A) (l : list A) d : l <> [] -> last (x :: l) d = last l d.
Proof. destruct l; [congruence | reflexivity]. Qed.

Lemma last_map_const {A} (l : list A) (c d : R) : l <> [] -> last (map (fun _ => c) l) d = c.
Proof.
  induction l as [|x l IH]; [congruence|]. intros _. destruct l as [|y l]; [reflexivity|].
  cbn [map] in *. rewrite last_cons_ne by discriminate. apply IH. discriminate.
Qed.

Lemma Rsum_upd (l : list R) i v : (i < length l)%nat ->
  Rsum (upd l i v) = Rsum l - get 0 l i + v.
Proof.
  revert i; induction l as [|x l IH]; intros [|i] H; cbn in *; try lia; try lra.
  rewrite IH by lia. unfold get. lra.
Qed.

(* the reals instance unfolded *)
Ltac rsimp :=
  cbn [add sub mul div opp zero one absv maxv minv ofZ ltb leb eqb RNum gtb geb ten two] in *.

Lemma ltbR a b : @ltb R RNum a b = true <-> a < b.
Proof. cbn. destruct (RI.ltb_spec a b); split; intros; try lra; congruence. Qed.
Lemma ltbR_false a b : @ltb R RNum a b = false <-> b <= a.
Proof. cbn. destruct (RI.ltb_spec a b); split; intros; try lra; congruence. Qed.
Lemma gtbR a b : @gtb R RNum a b = true <-> b < a.
Proof. unfold gtb. apply ltbR. Qed.
Lemma gtbR_false a b : @gtb R RNum a b = false <-> a <= b.
Proof. unfold gtb. apply ltbR_false. Qed.
