(* Prop_C05.v — property C05 (output records: one per day, year and harvested crop, complete, in
   order; one field per configured column), stated about CtrlModel (model of the output triggers
   of hermes/run.go, nitro.go and of WriteLine in output_fmt.go) against the civil calendar of
   Calendar.v.  Only statements, each closed by [exact lemma], and Print Assumptions.

   [run_events ly k OUTDAY ERNTE StartYear BEGINN ITAG ENDE] = the events (Daily z | Annual z | Crop k)
   of a run; [civ z] = civil date of day number z; [jan0 y + d] = day number of day d of year y;
   [in_step] = the hypotheses under which the calendar is in lock-step (C04): ITAG is the day of
   the year of BEGINN and every year is loaded with all its days. *)
From Coq Require Import ZArith List Bool Sorted.
From Hermes Require Import Util Calendar DateModel CtrlModel CtrlProofs OutFmtModel OutFmtProofs.
Import ListNotations.
Open Scope Z_scope.

(* daily file: exactly the days BEGINN..ENDE whose day number is a multiple of the interval,
   in increasing order, each once *)
Theorem C05_daily_records : forall ly k outday ernte anjahr beginn itag ende ev,
  1 <= k -> beginn <= ende ->
  run_events ly k outday ernte anjahr beginn itag ende = Some ev ->
  daily_of ev = filter (fun z => Z.rem z k =? 0) (zrange beginn (ndays beginn ende)).
Proof. exact daily_records_lemma. Qed.

Theorem C05_daily_order : forall ly k outday ernte anjahr beginn itag ende ev,
  1 <= k -> beginn <= ende ->
  run_events ly k outday ernte anjahr beginn itag ende = Some ev ->
  StronglySorted Z.lt (daily_of ev).
Proof. exact daily_sorted_lemma. Qed.

(* interval 1: one record for every day of the window; consecutive day numbers are consecutive
   civil dates (next_day knows 29 February) *)
Theorem C05_daily_dates : forall ly outday ernte anjahr beginn itag ende ev,
  0 <= beginn <= ende ->
  run_events ly 1 outday ernte anjahr beginn itag ende = Some ev ->
  daily_of ev = zrange beginn (ndays beginn ende) /\
  forall z, beginn <= z -> civ (z + 1) = next_day (civ z).
Proof. exact daily_dates_lemma. Qed.

(* yearly file: the record days are the days of the window whose day of the year is OUTDAY ... *)
Theorem C05_annual_records : forall ly k outday ernte anjahr beginn itag ende ev,
  beginn <= ende -> in_step ly anjahr beginn itag ende ->
  run_events ly k outday ernte anjahr beginn itag ende = Some ev ->
  annual_of ev = filter (fun z => doy (civ z) =? outday) (zrange beginn (ndays beginn ende)).
Proof. exact annual_records_lemma. Qed.

(* ... i.e. exactly one per civil year whose day OUTDAY lies in the window, none else, none twice *)
Theorem C05_annual_one_per_year : forall ly k outday ernte anjahr beginn itag ende ev,
  beginn <= ende -> in_step ly anjahr beginn itag ende -> 1 <= outday <= 365 ->
  run_events ly k outday ernte anjahr beginn itag ende = Some ev ->
  (forall y, 1901 <= y <= 2099 -> beginn <= jan0 y + outday <= ende ->
     In (jan0 y + outday) (annual_of ev)) /\
  (forall z, In z (annual_of ev) ->
     beginn <= z <= ende /\ doy (civ z) = outday /\ z = jan0 (dy (civ z)) + outday) /\
  NoDup (annual_of ev).
Proof. exact annual_one_per_year_lemma. Qed.

(* F16 — "on the configured annual date" is FALSE of the code: OUTDAY is a day of the year taken in
   the end year; annual date 31 Oct, end year 1981: the record of 1980 is dated 30 Oct *)
Theorem C05_annual_on_date_refuted :
  exists b ev z,
    bounds_of 1 1 1980 31 12 1981 31 10 = Some b /\
    run_events (fun y => Some (ylen y)) 1 (b_outday b) [b_beginn b] 1980 (b_beginn b) (b_itag b) (b_ende b) = Some ev /\
    In z (annual_of ev) /\ civ z = mkdate 1980 10 30 /\ (dm (civ z), dd (civ z)) <> (10, 31).
Proof. exact annual_on_date_refuted_lemma. Qed.

(* ENDE is moved to the day after the annual date of the end year when the end date does not
   lie after it; in either case the record day of the end year is inside the run *)
Theorem C05_ende_extension : forall ende ye d,
  1 <= d ->
  let e := ende_ext ende (jan0 ye + d) in
  ende <= e /\ jan0 ye + outday_of d <= e /\ (jan0 ye + d < ende -> e = ende) /\
  (ende <= jan0 ye + d -> e = jan0 ye + d + 1).
Proof. exact ende_extension_lemma. Qed.

(* crop file: the rotation entries 2..m whose harvest day is not after ENDE, in rotation order,
   each once *)
Theorem C05_crop_records : forall ly k outday ernte anjahr beginn itag ende ev,
  1 <= beginn <= ende -> increasing ernte -> nth 0 ernte 0 = beginn ->
  run_events ly k outday ernte anjahr beginn itag ende = Some ev ->
  crop_of ev = crop_spec ernte ende /\ NoDup (crop_of ev).
Proof. exact crop_records_lemma. Qed.

(* every record has as many fields as the configuration has columns, in both styles, when all
   columns are of a supported kind ... *)
Theorem C05_field_count : forall (A : Type) (render : vref -> A) cols,
  forallb supported cols = true ->
  length (fields render cols) = length cols /\
  forall csv, exists fs, write_line csv render cols = Some fs /\ length fs = length cols.
Proof. exact @field_count_lemma. Qed.

(* ... and the supported kinds are: float64, int, string, []float64, elements of one- and two-
   dimensional arrays of those (any index: out of range binds the NaValue text), the same inside
   a struct-typed field; an unknown variable name binds the NaValue text *)
Theorem C05_supported_kinds : forall t sub i1 i2,
  kind_ok t sub = true -> supported (bind (Some t) sub i1 i2) = true.
Proof. exact bind_supported_lemma. Qed.

Theorem C05_unknown_variable : forall sub i1 i2, supported (bind None sub i1 i2) = true.
Proof. exact unbound_supported_lemma. Qed.

(* outside "supported" (bool, named integer types, whole arrays/structs): the column loses its
   field and the fixed-width style writes no record at all *)
Theorem C05_unsupported_kind : forall (A : Type) (render : vref -> A) a b,
  forallb supported a = true -> forallb supported b = true ->
  length (fields render (a ++ ROther :: b)) = (length a + length b)%nat /\
  write_line false render (a ++ ROther :: b) = None.
Proof. exact @unsupported_loses_field. Qed.

(* header lines.  CSV style: a header line of 1..n cells has n fields (n = number of columns), so for
   every configuration that passes [oconfig_ok] — re-proved for the built-in and the shipped ones on
   every run, gen/OutFmtCheck.v — every header line and EVERY record has exactly n fields *)
Theorem C05_header_count_csv : forall ncells ncols, 1 <= ncells <= ncols -> csv_header_fields ncells ncols = ncols.
Proof. exact csv_header_count. Qed.

Theorem C05_header_and_record_counts : forall o : oconfig,
  oconfig_ok o = true ->
  let cols := map col_of (o_cols o) in
  let n := List.length cols in
  (forall cells, In cells (o_heads o) -> csv_header_fields (Z.of_nat (List.length cells)) (Z.of_nat n) = Z.of_nat n) /\
  (forall (A : Type) (render : vref -> A), exists fs, write_line true render (map c_ref cols) = Some fs /\ List.length fs = n).
Proof. exact csv_counts_lemma. Qed.

(* the limiting case: more header cells than columns gives a header line longer than the records *)
Theorem C05_header_too_many_cells : forall ncells ncols, 0 <= ncols < ncells -> csv_header_fields ncells ncols = ncells.
Proof. exact csv_header_too_many. Qed.

(* fixed-width style: with cells in order inside the columns, every header cell starts exactly at the
   first character of its first data column and the header line is not longer than a record line *)
Theorem C05_header_cells_aligned : forall widths cells,
  Forall (fun w => 0 <= w) widths -> cells <> [] ->
  hcells_ok (Z.of_nat (List.length widths)) 0 cells = true ->
  hermes_header widths cells =
    (arr widths (Z.to_nat (h_end (List.last cells (mkhc 0 0 0 0)))), map (fun c => arr widths (Z.to_nat (h_start c - 1))) cells) /\
  fst (hermes_header widths cells) <= record_width widths.
Proof. exact hermes_header_aligned_lemma. Qed.

(* CSV style, text columns (text is not quoted): a record made of separator-free fields splits into
   exactly one field per column; a field containing the separator gives more.  That the texts the
   source can put into a text column are separator-free is re-proved over the source on every run
   (gen/OutFmtStrings.v, text_sources_sepfree) *)
Theorem C05_csv_fields_exact : forall sep (fields : list lstr),
  fields <> [] -> Forall (fun f => count_char sep f = 0%nat) fields ->
  split_count sep (csv_join sep fields) = List.length fields.
Proof. exact csv_fields_exact. Qed.

Theorem C05_csv_field_with_separator : forall sep (fields : list lstr) f,
  In f fields -> (0 < count_char sep f)%nat -> (List.length fields < split_count sep (csv_join sep fields))%nat.
Proof. exact csv_field_with_separator. Qed.

(* a used result folder: the V / Y / C files are truncated when a run opens them, so after any
   sequence of runs they hold the header lines and records of the LAST run only *)
Theorem C05_result_file_is_last_run : forall (A : Type) (runs : list (list A)) (file last : list A),
  after_runs file (runs ++ [last]) = last.
Proof. exact @after_runs_last. Qed.

(* ... which a writer that does not truncate would not give (old tail kept) *)
Theorem C05_no_truncation_refuted :
  exists old new : list nat, write_run_keep old new <> new /\ write_run old new = new.
Proof. exact keep_tail_refuted_lemma. Qed.

(* non-vacuity: a concrete run satisfying every hypothesis bundle: 28 Dec 1983 .. 5 Jan 1985,
   interval 7, annual date 1 Mar (end year 1985), rotation harvests 28.12.1983, 1.8.1984, 1.9.1985 *)
Example C05_nonvacuous :
  exists b ev,
    bounds_of 28 12 1983 5 1 1985 1 3 = Some b /\
    in_step (fun y => Some (ylen y)) 1983 (b_beginn b) (b_itag b) (b_ende b) /\
    increasing [b_beginn b; 30529; 30925] /\
    run_events (fun y => Some (ylen y)) 7 (b_outday b) [b_beginn b; 30529; 30925] 1983 (b_beginn b) (b_itag b) (b_ende b) = Some ev /\
    length (daily_of ev) = 61%nat /\ annual_of ev = [30375; 30741] /\ crop_of ev = [2] /\
    b_ende b = 30742 /\ kind_ok (TArray 3 (TArray 21 TFloat)) 0 = true.
Proof.
  eexists. eexists. split; [vm_compute; reflexivity|].
  split.
  { unfold in_step. split; [vm_compute; congruence|]. split; [vm_compute; congruence|].
    split; [vm_compute; reflexivity|]. intros y _. reflexivity. }
  split; [vm_compute; repeat split; reflexivity|].
  split; [vm_compute; reflexivity|].
  vm_compute. repeat split; reflexivity.
Qed.

Print Assumptions C05_daily_records.
Print Assumptions C05_daily_order.
Print Assumptions C05_daily_dates.
Print Assumptions C05_annual_records.
Print Assumptions C05_annual_one_per_year.
Print Assumptions C05_annual_on_date_refuted.
Print Assumptions C05_ende_extension.
Print Assumptions C05_crop_records.
Print Assumptions C05_field_count.
Print Assumptions C05_supported_kinds.
Print Assumptions C05_unknown_variable.
Print Assumptions C05_unsupported_kind.
Print Assumptions C05_header_count_csv.
Print Assumptions C05_header_and_record_counts.
Print Assumptions C05_header_too_many_cells.
Print Assumptions C05_header_cells_aligned.
Print Assumptions C05_result_file_is_last_run.
Print Assumptions C05_no_truncation_refuted.
Print Assumptions C05_csv_fields_exact.
Print Assumptions C05_csv_field_with_separator.
