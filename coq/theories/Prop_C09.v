(* Prop_C09.v — property C09 (crop state stays valid and development never runs backwards), stated about
   CropModel — the executable models of the decision / clamp fragments of hermes.PhytoOut that the
   correspondence check compares bit for bit with traced transitions of the real code.  PARTIAL: the
   photosynthesis / respiration / N-content functions are oracle inputs (explicit arguments) and the
   validity of the tissue N concentrations is covered by the run-time oracle only.  Only statements here. *)
From Coq Require Import ZArith Reals List Bool.
From Hermes Require Import Num RUtil CropModel CropProofs.
Import ListNotations.

(* Development (any numeric type, hence also binary64; any temperatures, oracle factors, parameters):
   over the days of a crop cycle taken in calendar order the stage index never decreases — neither at
   the end nor after any prefix of the days — and the dates recorded for the stages 0..k
   (0 = sowing) are in non-decreasing order. *)
Theorem C09_stage_monotone_partial :
  forall (T : Type) (NT : Num T) (xs : list (stage_in (T:=T))) (s : stage_st (T:=T)) (z : Z),
  dates_ok s z -> days_from z (length (st_dates s)) xs ->
  let s' := stage_run xs s in
  (st_k s <= st_k s')%nat /\
  (forall ys zs, xs = ys ++ zs -> (st_k (stage_run ys s) <= st_k s')%nat) /\
  (forall i j, (i <= j <= st_k s')%nat -> (nth i (st_dates s') 0 <= nth j (st_dates s') 0)%Z).
Proof. exact (@stage_monotone_lemma). Qed.

Local Open Scope R_scope.

(* Organs (reals; any growth rates, death rates, parameters): after the daily update every organ the crop
   has is >= 0 whatever it was before, the others are untouched — so WORG[i] >= 0 is preserved for all i —
   LAI is >= 0, and the assimilate pool is >= 0 for 0 <= REDUK <= 1 and GTW >= 0. *)
Theorem C09_organs_nonneg_partial : forall (x : organ_in (T:=R)) (s : organ_st (T:=R)),
  (oi_nrkom x <= length (os_worg s))%nat ->
  let s' := organs_day x s in
  (forall i, (i < oi_nrkom x)%nat -> 0 <= get 0 (os_worg s') i) /\
  (forall i, (oi_nrkom x <= i)%nat -> get 0 (os_worg s') i = get 0 (os_worg s) i) /\
  ((forall i, 0 <= get 0 (os_worg s) i) -> forall i, 0 <= get 0 (os_worg s') i) /\
  0 <= os_lai s' /\
  (forall gtw reduk, 0 <= gtw -> 0 <= reduk <= 1 -> 0 <= aspoo_of gtw reduk).
Proof. exact organs_nonneg_lemma. Qed.

(* N stress factor: for every oracle value 0 < e < 1 of the exponential ... *)
Theorem C09_reduk_range_partial : forall (gehob gehmin : R) (ngefkt1 : bool) (e : R),
  0 < e < 1 -> 0 <= reduk_of gehob gehmin ngefkt1 e <= 1.
Proof. exact reduk_range_lemma. Qed.

(* ... the real exponential is such a value on the whole branch that uses it (AUX in (0,1)) ... *)
Theorem C09_exp_aux_range : forall aux : R, 0 < aux < 1 -> 0 < exp (1 + 1 / (aux - 1)) < 1.
Proof. exact exp_aux_range. Qed.

(* ... so with the true exponential REDUK is in [0,1] for every N content and every critical content *)
Theorem C09_reduk_range_exp_partial : forall (gehob gehmin : R) (ngefkt1 : bool),
  0 <= reduk_of gehob gehmin ngefkt1 (exp (reduk_arg gehob gehmin (reduk_minin ngefkt1))) <= 1.
Proof. exact reduk_exp_lemma. Qed.

(* Rooting depth: for every positive value of the root function, every soil limit and crop factor,
   profile of n >= 1 layers of thickness 0 < dz <= 12 cm (the code uses 10):
   1 <= WURZ <= min(N, max(1, round(WURZMAX*WUMAXPF/11))) *)
Theorem C09_root_limit_partial : forall (wurzmax n : Z) (wumaxpf qrez dz : R),
  (1 <= n)%Z -> 0 < qrez -> 0 < dz <= 12 ->
  let m := Z.min n (Z.max 1 (roundZ (IZR wurzmax * (wumaxpf / 11)))) in
  (1 <= root_depth wurzmax n wumaxpf qrez dz <= m)%Z.
Proof. exact root_limit_lemma. Qed.

(* N uptake: the demand of a day is at most 6 kg N/ha per day; the uptake from every layer is >= 0 and
   leaves at least 0.75 kg N/ha in the layer (or is 0); fixation lies in [0, 0.74 * demand] whenever the
   summed uptake does not exceed the demand *)
Theorem C09_uptake_clamps_partial : forall x : uptake_in (T:=R),
  0 <= ui_dt x ->
  let '(pe, nfix) := uptake_day x in
  uptake_demand x <= 6 * ui_dt x /\
  Forall2 (fun p c => 0 <= p <= Rmax 0 (c - 75 / 100)) pe (firstn (length pe) (ui_c1 x)) /\
  (0 <= uptake_demand x -> sum_list pe <= uptake_demand x -> 0 <= nfix <= 74 / 100 * uptake_demand x).
Proof. exact uptake_clamps_lemma. Qed.

(* ... and with non-negative mass-flow and diffusion supplies the summed uptake of the day is at most the demand *)
Theorem C09_uptake_total_partial : forall (d : R) (mass diff c1 : list R),
  0 < d -> Forall (fun m => 0 <= m) mass -> Forall (fun m => 0 <= m) diff -> length diff = length mass ->
  Rsum (pe_layers d (Rsum mass) (Rsum diff) mass diff c1) <= d.
Proof. exact uptake_total_lemma. Qed.

(* non-vacuity: a freshly sown crop and two consecutive days satisfy the hypotheses of the stage theorem *)
Example C09_nonvacuous :
  let s := {| st_k := 0; st_sum := [0; 0; 0; 0; 0; 0; 0; 0; 0; 0]; st_dev := [0; 0; 0; 0; 0; 0; 0; 0; 0; 0]%Z;
              st_dates := [100; 0; 0; 0; 0; 0; 0; 0; 0; 0]%Z; st_phyllo := 0 |} in
  let day z := {| si_tsum := [100; 200; 300; 300; 300; 300; 0; 0; 0; 0]; si_bas := [1; 1; 1; 1; 1; 1; 0; 0; 0; 0];
                  si_nrentw := 6; si_doy := z; si_zeit := z; si_temp := 15; si_wg00 := 3 / 10; si_w0 := 3 / 10;
                  si_wmin0 := 1 / 10; si_dt := 1; si_fv := 1; si_fp := 1; si_devprog := 1 |} in
  dates_ok s 100 /\ days_from 100 (length (st_dates s)) [day 101%Z; day 102%Z].
Proof. exact c09_nonvacuous_lemma. Qed.

Print Assumptions C09_stage_monotone_partial.
Print Assumptions C09_organs_nonneg_partial.
Print Assumptions C09_reduk_range_partial.
Print Assumptions C09_exp_aux_range.
Print Assumptions C09_reduk_range_exp_partial.
Print Assumptions C09_root_limit_partial.
Print Assumptions C09_uptake_clamps_partial.
Print Assumptions C09_uptake_total_partial.
