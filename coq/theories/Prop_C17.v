(* Prop_C17.v — property C17 (cluster partitioning executes every batch line exactly once),
   stated about BatchModel (model of src/calcHermesBatch/calchermesbatch.go and of the batch
   reader / -lines filter of src/hermes2go/hermes_main.go).  Only statements, each closed by
   [exact lemma], examples by computation, and Print Assumptions. *)
From Coq Require Import ZArith List Bool Permutation.
From Hermes Require Import BatchModel BatchProofs.
Import ListNotations.
Open Scope Z_scope.

(* cover — for EVERY line count L >= 1 and node count K >= 1 (unbounded):
   the number of printed ranges is the reported job-array size; the ranges start at line 1, are
   non-empty, each starts right after its predecessor ends, the last ends at L (hence pairwise
   disjoint); and handing every range to the simulator's -lines option starts every one of the L
   lines exactly once, in order (log ids 0..L-1), whatever the lines are. *)
Theorem C17_cover : forall L K, 1 <= L -> 1 <= K ->
  len (partition L K) = jobsize L K /\
  contiguous 0 (partition L K) L /\
  forall (A : Type) (lines : list A), len lines = L ->
    executed_all (partition L K) lines = Some (indexed 0 lines).
Proof. exact cover_lemma. Qed.

(* what [contiguous] gives: every line number 1..L lies in exactly one range *)
Theorem C17_each_line_in_one_range : forall L K x, 1 <= L -> 1 <= K -> 1 <= x <= L ->
  exists pre a b post, partition L K = pre ++ (a, b) :: post /\ a <= x <= b /\
    (forall a' b', In (a', b') pre -> b' < x) /\ (forall a' b', In (a', b') post -> x < a').
Proof. exact each_line_lemma. Qed.

(* count — for EVERY buffer size B >= 2 (the tool uses 32768; the design asked for B >= 3) and EVERY
   file in which '\r' occurs only immediately before '\n' (LF or CRLF line endings; blank lines,
   missing final newline, lines of any length allowed): the calculator's line count is the number of
   lines the simulator keeps (bufio.ScanLines, len > 0). *)
Theorem C17_count : forall (B : nat) (file : list Z), (2 <= B)%nat ->
  cr_only_before_lf file = true ->
  count_lines (chunks_of B file) = Some (len (nonempty_lines file)).
Proof. exact count_lemma. Qed.

(* the same for arbitrary bytes (stray '\r' anywhere) and any read pattern in which every read but
   the last returns at least 2 bytes; the single excluded shape is a file whose unterminated last
   line is exactly one '\r' (see C17_count_lone_cr below) *)
Theorem C17_count_any_bytes : forall chunks : list (list Z),
  reads_ge 2 chunks -> tail_line [] (concat chunks) <> [CR] ->
  count_lines chunks = Some (len (nonempty_lines (concat chunks))).
Proof. exact count_general. Qed.

(* calculator and simulator together on one batch file *)
Theorem C17_end_to_end : forall (B : nat) (file : list Z) (K : Z), (2 <= B)%nat -> 1 <= K ->
  cr_only_before_lf file = true ->
  let lines := nonempty_lines file in
  1 <= len lines ->
  exists L, count_lines (chunks_of B file) = Some L /\
    len (partition L K) = jobsize L K /\ contiguous 0 (partition L K) L /\
    executed_all (partition L K) lines = Some (indexed 0 lines).
Proof. exact end_to_end. Qed.

(* order of the command-line options — the simulator consumes its options left to right; for every command
   line that carries each option at most once, the parsed batch lines, line range, concurrency, log switch,
   module and working directory do not depend on the order in which the options are written ... *)
Theorem C17_options_order_independent : forall (A : Type) (o o' : list (opt A)),
  NoDup (map opt_kind o) -> Permutation o o' -> parse_opts o = parse_opts o'.
Proof. exact options_order_lemma. Qed.

(* ... and a command line with -batch f and -lines a-b anywhere among its options executes exactly the range *)
Theorem C17_range_any_option_order : forall (A : Type) (opts : list (opt A)) d lines a b,
  NoDup (map opt_kind opts) -> In (OBatch d lines) opts -> In (OLinesRange a b) opts ->
  cmd_executed opts = executed (a, b) lines.
Proof. exact cmd_range_lemma. Qed.

(* the hypotheses are needed (model-level witnesses, replayed on the real tools by the check):
   - a file ending in an unterminated lone '\r' ("a\n\r"): the calculator counts 2, the simulator keeps 1;
   - reads of one byte ("abc" | "\r" | "\n" with B = 1 after the first read): the line is lost. *)
Example C17_count_lone_cr :
  count_lines (chunks_of (Z.to_nat 32768) [97; 10; 13]) = Some 2 /\ len (nonempty_lines [97; 10; 13]) = 1.
Proof. vm_compute. split; reflexivity. Qed.

Example C17_count_short_reads :
  count_lines [[97; 98; 99]; [13]; [10]] = Some 0 /\ len (nonempty_lines [97; 98; 99; 13; 10]) = 1.
Proof. vm_compute. split; reflexivity. Qed.

(* non-vacuity: 7 lines on 3 nodes (and on 9 nodes), a CRLF file with blank lines read with B = 4 *)
Example C17_nonvacuous :
  partition 7 3 = [(1, 3); (4, 5); (6, 7)] /\ jobsize 7 3 = 3 /\
  partition 2 9 = [(1, 1); (2, 2)] /\ jobsize 2 9 = 2 /\
  executed (4, 5) [70; 71; 72; 73; 74; 75; 76] = Some [(3, 73); (4, 74)] /\
  let file := [97; 13; 10; 13; 10; 10; 98; 99; 13; 10; 100] in
  cr_only_before_lf file = true /\ nonempty_lines file = [[97]; [98; 99]; [100]] /\
  count_lines (chunks_of 4 file) = Some 3.
Proof. vm_compute. repeat split; reflexivity. Qed.

Print Assumptions C17_cover.
Print Assumptions C17_each_line_in_one_range.
Print Assumptions C17_count.
Print Assumptions C17_count_any_bytes.
Print Assumptions C17_end_to_end.
Print Assumptions C17_options_order_independent.
Print Assumptions C17_range_any_option_order.
