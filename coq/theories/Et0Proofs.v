(* Et0Proofs.v — C08 lemmas about Et0Model (the potential evapotranspiration BEFORE the cap) read over
   the reals.  The transcendental functions are an arbitrary record [O : Orc R]; a lemma names the facts it
   needs about them ([orc_ok]); [real_orc_ok] shows that the true functions have these facts. *)
From Coq Require Import ZArith Reals List Bool Lia Lra.
From Hermes Require Import Num RUtil WaterModel EvatraModel EvatraProofs Et0Model.
Import ListNotations.
Local Open Scope R_scope.

Ltac rnum0 := unfold floor0, gtb in *; rsimp; unfold RI.ltb, RI.leb, RI.eqb in *; decsimp; rewrite ?if_sb in *.

Section Facts.
  Variable O : Orc R.
  Variable K : Consts R.

  Lemma floor0_nonneg (v : R) : 0 <= @floor0 R RNum v.
  Proof. unfold floor0. rsimp. unfold RI.ltb. destruct (Rlt_dec v 0); lra. Qed.

  Lemma get_nonneg (l : list R) (i : nat) : Forall (fun v => 0 <= v) l -> 0 <= get 0 l i.
  Proof.
    intros H. unfold get. revert i. induction H as [|a l Ha Hl IH]; intros [|i]; cbn; try lra. apply IH.
  Qed.

  Lemma mul3_nonneg a b c : 0 <= a -> 0 <= b -> 0 <= c -> 0 <= a * b * c.
  Proof. intros. apply Rmult_le_pos; [apply Rmult_le_pos|]; assumption. Qed.

  (* the crop coefficient a method multiplies with: FKC under a crop, FKB on bare soil (methods 2-5) *)
  Definition kc_of (x : et0_in (T:=R)) : R := if ti_crop x then ti_fkc x else ti_fkb x.

  (* ---------------------------------------------------------------- *)
  (* 1 Haude: saturation deficit and monthly factors are non-negative  *)
  Lemma et0_haude_nonneg (x : et0_in (T:=R)) :
    0 <= ti_verd x -> Forall (fun v => 0 <= v) (ti_fkf x) -> Forall (fun v => 0 <= v) (ti_fku x) ->
    0 <= to_precap (@et0_haude R RNum x).
  Proof.
    intros Hv Hf Hu. unfold et0_haude, keep. cbn [to_precap]. rnum0.
    apply mul3_nonneg; [assumption | | lra].
    destruct (ti_crop x); apply get_nonneg; assumption.
  Qed.

  (* 5 reference ET from the weather file *)
  Lemma et0_file_nonneg (x : et0_in (T:=R)) :
    0 <= ti_etnull x -> 0 <= kc_of x -> 0 <= to_precap (@et0_file R RNum x).
  Proof.
    intros He Hk. unfold et0_file, keep, kc_of in *. cbn [to_precap]. rnum0.
    apply mul3_nonneg; [assumption | destruct (ti_crop x); assumption | lra].
  Qed.

  (* ---------------------------------------------------------------- *)
  (* 2 Turc-Wendling: non-negative from -22 degC upwards; the three divisors are positive there        *)
  Lemma glob_of_nonneg (ext sund dl : R) : 0 <= ext -> 0 <= sund -> 0 <= @glob_of R RNum ext sund dl.
  Proof.
    intros He Hs. unfold glob_of. rnum0. destruct (Rlt_dec 0 dl) as [Hd|Hd].
    - apply Rmult_le_pos; [assumption|].
      assert (0 <= 55 / 100 * sund / dl) by (apply div_nonneg; [apply Rmult_le_pos; lra | assumption]). lra.
    - apply Rmult_le_pos; lra.
  Qed.

  Lemma turc_term_nonneg (a temp den kc : R) :
    0 <= a -> -22 <= temp -> 0 < den -> 0 <= kc -> 0 <= a * (temp + 22) / den * kc * (1 / 10).
  Proof.
    intros Ha Ht Hd Hk. apply mul3_nonneg; [|assumption|lra].
    apply div_nonneg; [apply Rmult_le_pos; lra | assumption].
  Qed.

  Lemma et0_turc_rad_nonneg (x : et0_in (T:=R)) :
    0 < ti_rad x -> 0 <= ti_kcoa x -> -22 <= ti_temp x -> 0 <= kc_of x ->
    0 <= to_precap (@et0_turc R RNum O K x) /\ 0 < 150 * (ti_temp x + 123).
  Proof.
    intros Hr Hk Ht Hc. unfold et0_turc, keep, kc_of in *. cbn [to_precap]. rnum0.
    destruct (Rlt_dec 0 (ti_rad x)); [|lra]. split; [|lra].
    apply turc_term_nonneg; try lra; destruct (ti_crop x); assumption.
  Qed.

  (* without measured radiation the global radiation comes from the sunshine hours and the extraterrestrial
     radiation EXT of solar.go; EXT >= 0 is a HYPOTHESIS here (it holds for the true trigonometric functions,
     which is not proved; the check observes it on every case) *)
  Lemma et0_turc_sunshine_nonneg (x : et0_in (T:=R)) :
    ti_rad x <= 0 -> 0 <= d_EXT (@day_length R RNum O K (IZR (ti_tag x)) (ti_lat x)) -> 0 <= ti_sund x ->
    0 <= ti_kcoa x -> -22 <= ti_temp x -> 0 <= kc_of x ->
    0 <= to_precap (@et0_turc R RNum O K x) /\
    0 < (if ti_crop x then 150 * (ti_temp x - 1 + 123) else 150 * (ti_temp x + 123)).
  Proof.
    intros Hr He Hs Hk Ht Hc. unfold et0_turc, keep, kc_of in *. cbn [to_precap]. rnum0.
    destruct (Rlt_dec 0 (ti_rad x)); [lra|].
    set (d := day_length O K (IZR (ti_tag x)) (ti_lat x)) in *.
    assert (Hg : 0 <= @glob_of R RNum (d_EXT d * 100) (ti_sund x) (d_DL d)).
    { apply glob_of_nonneg; [apply Rmult_le_pos; lra | assumption]. }
    split; [|destruct (ti_crop x); lra].
    apply turc_term_nonneg; try lra; destruct (ti_crop x); try assumption; lra.
  Qed.

  (* ---------------------------------------------------------------- *)
  (* 4 Priestley-Taylor, 3 Penman-Monteith: the code floors the reference ET at 0 itself, so the value
     before the cap is non-negative whatever the oracle functions return                                *)
  Lemma et0_pt_nonneg (x : et0_in (T:=R)) :
    0 <= kc_of x ->
    0 <= to_et0 (@et0_pt R RNum O K x) /\ 0 <= to_precap (@et0_pt R RNum O K x).
  Proof.
    intros Hc. unfold et0_pt, kc_of in *. cbv zeta. cbn [to_precap to_et0].
    match goal with |- 0 <= floor0 ?v /\ _ => pose proof (floor0_nonneg v) as Hf; set (e := floor0 v) in * end.
    split; [assumption|]. rsimp. decsimp.
    apply mul3_nonneg; [assumption | destruct (ti_crop x); assumption | lra].
  Qed.

  Lemma et0_pm_nonneg (x : et0_in (T:=R)) :
    0 <= kc_of x ->
    0 <= to_et0 (@et0_pm R RNum O K x) /\ 0 <= to_precap (@et0_pm R RNum O K x).
  Proof.
    intros Hc. unfold et0_pm, kc_of in *. cbv zeta.
    destruct (if ti_crop x then _ else _) as [[rstom sund'] radsum'].
    cbn [to_precap to_et0].
    match goal with |- 0 <= floor0 ?v /\ _ => pose proof (floor0_nonneg v) as Hf; set (e := floor0 v) in * end.
    split; [assumption|]. rsimp. decsimp.
    apply mul3_nonneg; [assumption | destruct (ti_crop x); assumption | lra].
  Qed.

  (* ---------------------------------------------------------------- *)
  (* all methods: the documented physical domain                       *)
  Definition et0_domain (x : et0_in (T:=R)) : Prop :=
    0 <= ti_fkc x /\ 0 <= ti_fkb x /\
    ((ti_meth x = 1)%Z -> 0 <= ti_verd x /\ Forall (fun v => 0 <= v) (ti_fkf x) /\ Forall (fun v => 0 <= v) (ti_fku x)) /\
    ((ti_meth x = 5)%Z -> 0 <= ti_etnull x) /\
    ((ti_meth x = 2)%Z ->
       -22 <= ti_temp x /\ 0 <= ti_kcoa x /\
       (ti_rad x <= 0 -> 0 <= ti_sund x /\ 0 <= d_EXT (@day_length R RNum O K (IZR (ti_tag x)) (ti_lat x)))).

  Lemma et0_struct_nonneg (x : et0_in (T:=R)) :
    et0_domain x -> 0 <= to_precap (@et0_struct R RNum O K x).
  Proof.
    intros (Hc & Hb & H1 & H5 & H2).
    assert (Hk : 0 <= kc_of x) by (unfold kc_of; destruct (ti_crop x); assumption).
    unfold et0_struct.
    destruct (Z.eqb_spec (ti_meth x) 1) as [E1|_].
    { destruct (H1 E1) as (A & B & C). apply et0_haude_nonneg; assumption. }
    destruct (Z.eqb_spec (ti_meth x) 2) as [E2|_].
    { destruct (H2 E2) as (A & B & C). destruct (Rlt_dec 0 (ti_rad x)) as [Hr|Hr].
      - apply et0_turc_rad_nonneg; assumption.
      - destruct (C ltac:(lra)) as [C1 C2]. apply et0_turc_sunshine_nonneg; try assumption; lra. }
    destruct (Z.eqb_spec (ti_meth x) 5) as [E5|_].
    { apply et0_file_nonneg; [apply H5; assumption | assumption]. }
    destruct (Z.eqb_spec (ti_meth x) 4) as [E4|_]. { apply et0_pt_nonneg; assumption. }
    destruct (Z.eqb_spec (ti_meth x) 3) as [E3|_]. { apply et0_pm_nonneg; assumption. }
    unfold keep. cbn [to_precap]. rsimp. lra.
  Qed.

  (* whatever the formulas and the oracle functions return, the value Evatra continues with lies in
     [0, 0.65] under a crop and in [0, 0.6] on bare soil *)
  Lemma pet_in_range (x : et0_in (T:=R)) :
    0 <= @pot_cap R RNum (ti_crop x) (to_precap (@et0_struct R RNum O K x)) <= cap_of (ti_crop x).
  Proof. apply pot_cap_lemma. Qed.

  (* ... and inside the domain and below the cap the cap/floor step does not change the value *)
  Lemma pet_unchanged_below_cap (x : et0_in (T:=R)) :
    et0_domain x -> to_precap (@et0_struct R RNum O K x) <= cap_of (ti_crop x) ->
    @pot_cap R RNum (ti_crop x) (to_precap (@et0_struct R RNum O K x)) = to_precap (@et0_struct R RNum O K x).
  Proof. intros Hd Hc. apply pot_cap_id. split; [apply et0_struct_nonneg; assumption | assumption]. Qed.

  (* ---------------------------------------------------------------- *)
  (* definedness: the divisors of the two combination formulas are positive *)
  Record orc_ok : Prop := {
    ok_exp_pos : forall v, 0 < o_exp O v;
    ok_pow_sq : forall v, v <> 0 -> 0 < o_pow O v 2;
    ok_pow_pos : forall v w, 0 < v -> 0 < o_pow O v w;
  }.

  Lemma deltsat_pos (t : R) : orc_ok -> t + 2373 / 10 <> 0 -> 0 < @deltsat_of R RNum O t.
  Proof.
    intros [He Hs Hp] Ht. unfold deltsat_of, satp_a. rsimp. unfold two. rsimp. decsimp.
    assert (0 < o_pow O (t + 2373 / 10) 2) by (apply Hs; assumption).
    assert (0 < o_exp O (1727 / 100 * t / (t + 2373 / 10))) by apply He.
    apply Rdiv_lt_0_compat; [|assumption]. apply Rmult_lt_0_compat; [lra|]. apply Rmult_lt_0_compat; [lra | assumption].
  Qed.

  Lemma psych_pos (alti : R) : orc_ok -> alti < 293 / (65 / 10000) ->
    0 < 665 / 1000000 * @atmpress_of R RNum O alti.
  Proof.
    intros [He Hs Hp] Ha. unfold atmpress_of. rsimp. decsimp.
    assert (0 < (293 - 65 / 10000 * alti) / 293).
    { apply Rdiv_lt_0_compat; [|lra]. assert (65 / 10000 * alti < 293); [|lra].
      apply (Rmult_lt_compat_l (65 / 10000)) in Ha; [|lra]. unfold Rdiv in *.
      replace (65 * / 10000 * (293 * / (65 * / 10000))) with 293 in Ha by (field). lra. }
    pose proof (Hp _ (526 / 100) H).
    apply Rmult_lt_0_compat; [lra|]. apply Rmult_lt_0_compat; [lra | assumption].
  Qed.

  Lemma pt_den_pos (x : et0_in (T:=R)) :
    orc_ok -> ti_temp x + 2373 / 10 <> 0 -> ti_alti x < 293 / (65 / 10000) -> 0 < @pt_den R RNum O x.
  Proof.
    intros Ho Ht Ha. unfold pt_den. pose proof (deltsat_pos _ Ho Ht). pose proof (psych_pos _ Ho Ha).
    rsimp. decsimp. lra.
  Qed.

  Lemma pm_terms_pos (t alti : R) :
    orc_ok -> t + 2373 / 10 <> 0 -> alti < 293 / (65 / 10000) ->
    0 < @deltsat_of R RNum O t /\ 0 < 665 / 1000000 * @atmpress_of R RNum O alti.
  Proof. intros Ho Ht Ha. exact (conj (deltsat_pos t Ho Ht) (psych_pos alti Ho Ha)). Qed.

  (* the wind speed Penman-Monteith uses is at least 0.5 m/s, whatever was measured *)
  Lemma wind2m_floor (x : et0_in (T:=R)) : 5 / 10 <= @wind2m R RNum O x.
  Proof.
    unfold wind2m. cbv zeta. rnum0. unfold two. rsimp.
    destruct (Req_EM_T (ti_windhi x) 2); match goal with |- context [Rlt_dec ?a ?b] => destruct (Rlt_dec a b) end; lra.
  Qed.

  Lemma pm_den_pos (deltsat psych rsurf wind : R) :
    0 < deltsat -> 0 < psych -> 0 <= rsurf -> 0 <= wind -> 0 < @pm_den R RNum deltsat psych rsurf wind.
  Proof.
    intros Hd Hp Hr Hw. unfold pm_den. rsimp.
    assert (0 <= rsurf / 208 * wind) by (apply Rmult_le_pos; [apply div_nonneg; lra | assumption]).
    assert (0 < psych * (1 + rsurf / 208 * wind)) by (apply Rmult_lt_0_compat; lra). lra.
  Qed.
End Facts.

(* ---------------------------------------------------------------- *)
(* the true functions satisfy [orc_ok]                                *)
Definition rpow (v w : R) : R :=
  if Rlt_dec 0 v then Rpower v w else if Req_EM_T w 2 then v * v else if Req_EM_T w 4 then (v * v) * (v * v) else 0.

Definition real_orc : Orc R :=
  {| o_exp := exp; o_log := ln; o_sin := sin; o_cos := cos; o_tan := tan; o_asin := asin; o_acos := acos;
     o_pow := rpow |}.

Lemma real_orc_ok : orc_ok real_orc.
Proof.
  constructor; cbn.
  - apply exp_pos.
  - intros v Hv. unfold rpow. destruct (Rlt_dec 0 v) as [H|H].
    + unfold Rpower. apply exp_pos.
    + destruct (Req_EM_T 2 2); [|congruence]. assert (v < 0) by lra. nra.
  - intros v w Hv. unfold rpow. destruct (Rlt_dec 0 v); [unfold Rpower; apply exp_pos | lra].
Qed.

(* ---------------------------------------------------------------- *)
(* F8: below -22 degC the Turc-Wendling value is negative before the floor (witness inside every other
   bound of the domain: -30 degC, radiation 5, coast factor 1, crop coefficient 1); the floor of the
   cap/floor step (the repair of F8) turns it into 0                                                   *)
Definition turc_witness : et0_in (T:=R) :=
  {| ti_crop := true; ti_meth := 2; ti_tag := 20; ti_lat := 52; ti_alti := 50; ti_kcoa := 1; ti_fkc := 1; ti_fkb := 1;
     ti_fkf := []; ti_fku := []; ti_verd := 0; ti_temp := -30; ti_tmin := -35; ti_tmax := -25; ti_rad := 5; ti_sund := 0;
     ti_rh := 80; ti_wind := 2; ti_windhi := 2; ti_etnull := 0; ti_ctrans := false; ti_co2meth := 0; ti_co2konz := 360;
     ti_mintmp := 0; ti_alph := 40; ti_satbeta := 25 / 10; ti_radsum := 0; ti_rstom := 0; ti_et0 := 0; ti_satdef := 0 |}.

Lemma pot_nonneg_refuted (O : Orc R) (K : Consts R) :
  to_precap (@et0_struct R RNum O K turc_witness) < 0 /\
  @pot_cap R RNum true (to_precap (@et0_struct R RNum O K turc_witness)) = 0.
Proof.
  assert (H : to_precap (@et0_struct R RNum O K turc_witness) = (5 * 200 + 93 * 1) * (-30 + 22) / (150 * (-30 + 123)) * 1 * (1 / 10)).
  { unfold et0_struct, turc_witness. cbn [ti_meth Z.eqb Pos.eqb]. unfold et0_turc, keep. cbn [to_precap ti_crop ti_fkc ti_temp ti_rad ti_kcoa].
    rnum0. destruct (Rlt_dec 0 5); [reflexivity | lra]. }
  rewrite H. split; [lra|].
  unfold pot_cap. rnum0. case_lt; lra.
Qed.

(* non-vacuity of the domain: a temperate summer day under Penman-Monteith *)
Lemma et0_domain_example (O : Orc R) (K : Consts R) :
  et0_domain O K
    {| ti_crop := true; ti_meth := 3; ti_tag := 180; ti_lat := 52; ti_alti := 50; ti_kcoa := 1; ti_fkc := 11 / 10; ti_fkb := 4 / 10;
       ti_fkf := []; ti_fku := []; ti_verd := 8; ti_temp := 18; ti_tmin := 12; ti_tmax := 24; ti_rad := 10; ti_sund := 9;
       ti_rh := 70; ti_wind := 3; ti_windhi := 2; ti_etnull := 4; ti_ctrans := true; ti_co2meth := 2; ti_co2konz := 400;
       ti_mintmp := 4; ti_alph := 40; ti_satbeta := 25 / 10; ti_radsum := 0; ti_rstom := 100; ti_et0 := 0; ti_satdef := 0 |}.
Proof. unfold et0_domain. cbn. repeat split; try lra; intros; discriminate. Qed.

(* ---------------------------------------------------------------- *)
(* the extraterrestrial radiation of solar.go is non-negative for the TRUE trigonometric functions and
   the exact constants, at every latitude strictly between the poles and on every day                  *)
Definition realK : Consts R :=
  {| k_pi := PI; k_2pi := 2 * PI; k_2pi_365 := 2 * PI / 365; k_8pi_180 := 8 * PI / 180;
     k_sc := 24 * 60 / PI * (82 / 10); k_24_pi := 24 / PI |}.

Definition gsc (h : R) : R := sin h - h * cos h.

Lemma gsc_deriv (t : R) : derivable_pt_lim gsc t (t * sin t).
Proof.
  unfold gsc.
  replace (t * sin t) with (cos t - (1 * cos t + id t * (- sin t))) by (unfold id; ring).
  change (fun h => sin h - h * cos h) with (sin - (id * cos))%F.
  apply derivable_pt_lim_minus; [apply derivable_pt_lim_sin|].
  apply derivable_pt_lim_mult; [apply derivable_pt_lim_id | apply derivable_pt_lim_cos].
Qed.

Lemma gsc_derivable : derivable gsc.
Proof. intros t. exists (t * sin t). apply gsc_deriv. Qed.

Lemma gsc_nonneg (h : R) : 0 <= h <= PI -> 0 <= gsc h.
Proof.
  intros [H0 H1]. destruct (Req_dec h 0) as [->|Hne]. { unfold gsc. rewrite sin_0. lra. }
  assert (Hpi := PI_RGT_0).
  assert (Hinc : gsc 0 <= gsc h).
  { apply (derive_increasing_interv_var 0 PI gsc gsc_derivable Hpi); try lra.
    intros t Ht. rewrite (derive_pt_eq_0 gsc t (t * sin t) (gsc_derivable t) (gsc_deriv t)).
    apply Rmult_le_pos; [lra|]. apply sin_ge_0; lra. }
  unfold gsc in Hinc at 1. rewrite sin_0 in Hinc. lra.
Qed.

Lemma ext_core (a b : R) : 0 < b ->
  let sha := acos (@limit R RNum (- (a / b)) 1 (-1)) in
  0 <= sha * a + b * sin sha.
Proof.
  intros Hb. cbv zeta. unfold limit, gtb. rsimp. unfold RI.ltb.
  assert (Hpi := PI_RGT_0).
  destruct (Rlt_dec 1 (- (a / b))) as [Hhi|Hhi].
  - rewrite acos_1, sin_0. lra.
  - destruct (Rlt_dec (- (a / b)) (-1)) as [Hlo|Hlo].
    + replace (-1) with (- (1)) by lra. rewrite acos_opp, acos_1, Rminus_0_r, sin_PI.
      assert (1 < a / b) by lra.
      assert (b < a). { apply (Rmult_lt_compat_r b) in H; [|lra]. unfold Rdiv in H. rewrite Rmult_assoc, Rinv_l in H; lra. }
      nra.
    + set (c := - (a / b)) in *. assert (Hc : -1 <= c <= 1) by lra.
      pose proof (acos_bound c) as Hb2. pose proof (cos_acos c Hc) as Hcos.
      pose proof (gsc_nonneg (acos c) Hb2) as Hg. unfold gsc in Hg. rewrite Hcos in Hg.
      assert (Ha : a = - c * b). { unfold c. field. lra. }
      rewrite Ha. nra.
Qed.

Lemma ext_nonneg_real (tag lat : R) : -90 < lat < 90 ->
  0 <= d_EXT (@day_length R RNum real_orc realK tag lat).
Proof.
  intros Hl. unfold day_length. cbv zeta. cbn [d_EXT]. unfold deg2rad. cbn [o_sin o_cos o_tan o_acos real_orc k_pi k_sc k_2pi k_2pi_365 realK].
  rsimp. decsimp. assert (Hpi := PI_RGT_0). assert (Hpi2 := PI2_3_2).
  set (s := sin (2 * PI / 365 * tag - 139 / 100)).
  assert (Hs : -1 <= s <= 1) by apply SIN_bound.
  assert (Hd : 409 / 1000 * s * 180 / PI * PI / 180 = 409 / 1000 * s) by (field; lra).
  rewrite Hd. set (dr := 409 / 1000 * s) in *. set (lr := lat * PI / 180).
  assert (Hlr : - (PI / 2) < lr < PI / 2).
  { assert (E : lr = PI * (lat / 180)) by (unfold lr; field).
    assert (- (1 / 2) < lat / 180 < 1 / 2) by lra. rewrite E. split; nra. }
  assert (Hdr : - (PI / 2) < dr < PI / 2) by (unfold dr; lra).
  assert (Hcl : 0 < cos lr) by (apply cos_gt_0; lra).
  assert (Hcd : 0 < cos dr) by (apply cos_gt_0; lra).
  assert (Hb : 0 < cos dr * cos lr) by (apply Rmult_lt_0_compat; assumption).
  assert (Hq : - tan lr * tan dr = - (sin dr * sin lr / (cos dr * cos lr))).
  { unfold tan. field. lra. }
  rewrite Hq.
  pose proof (ext_core (sin dr * sin lr) (cos dr * cos lr) Hb) as Hcore. cbv zeta in Hcore.
  pose proof (COS_bound (2 * PI * tag / 365)) as Hcb.
  assert (Hsc : 0 < 24 * 60 / PI * (82 / 10) * (1 + 33 / 1000 * cos (2 * PI * tag / 365))).
  { apply Rmult_lt_0_compat; [|lra]. apply Rmult_lt_0_compat; [|lra]. apply Rdiv_lt_0_compat; lra. }
  apply div_nonneg; [|lra]. apply Rmult_le_pos; [lra | exact Hcore].
Qed.

(* Turc-Wendling without measured radiation, with the true functions: complete *)
Lemma et0_turc_sunshine_nonneg_real (x : et0_in (T:=R)) :
  ti_rad x <= 0 -> -90 < ti_lat x < 90 -> 0 <= ti_sund x -> 0 <= ti_kcoa x -> -22 <= ti_temp x ->
  0 <= kc_of x -> 0 <= to_precap (@et0_turc R RNum real_orc realK x).
Proof.
  intros Hr Hl Hs Hk Ht Hc.
  apply (et0_turc_sunshine_nonneg real_orc realK x Hr (ext_nonneg_real _ _ Hl) Hs Hk Ht Hc).
Qed.

(* ---------------------------------------------------------------- *)
(* bundles for Prop_C08 (one Print Assumptions each)                  *)
Definition methods_nonneg_stmt : Prop :=
  (forall x : et0_in (T:=R),
     0 <= ti_verd x -> Forall (fun v => 0 <= v) (ti_fkf x) -> Forall (fun v => 0 <= v) (ti_fku x) ->
     0 <= to_precap (@et0_haude R RNum x)) /\
  (forall x : et0_in (T:=R), 0 <= ti_etnull x -> 0 <= kc_of x -> 0 <= to_precap (@et0_file R RNum x)) /\
  (forall (O : Orc R) (K : Consts R) (x : et0_in (T:=R)),
     0 < ti_rad x -> 0 <= ti_kcoa x -> -22 <= ti_temp x -> 0 <= kc_of x ->
     0 <= to_precap (@et0_turc R RNum O K x) /\ 0 < 150 * (ti_temp x + 123)) /\
  (forall (O : Orc R) (K : Consts R) (x : et0_in (T:=R)),
     ti_rad x <= 0 -> 0 <= d_EXT (@day_length R RNum O K (IZR (ti_tag x)) (ti_lat x)) -> 0 <= ti_sund x ->
     0 <= ti_kcoa x -> -22 <= ti_temp x -> 0 <= kc_of x ->
     0 <= to_precap (@et0_turc R RNum O K x) /\
     0 < (if ti_crop x then 150 * (ti_temp x - 1 + 123) else 150 * (ti_temp x + 123))) /\
  (forall (O : Orc R) (K : Consts R) (x : et0_in (T:=R)),
     0 <= kc_of x -> 0 <= to_et0 (@et0_pt R RNum O K x) /\ 0 <= to_precap (@et0_pt R RNum O K x)) /\
  (forall (O : Orc R) (K : Consts R) (x : et0_in (T:=R)),
     0 <= kc_of x -> 0 <= to_et0 (@et0_pm R RNum O K x) /\ 0 <= to_precap (@et0_pm R RNum O K x)).

Lemma methods_nonneg_lemma : methods_nonneg_stmt.
Proof.
  unfold methods_nonneg_stmt. repeat split.
  - exact et0_haude_nonneg.
  - exact et0_file_nonneg.
  - intros. apply et0_turc_rad_nonneg; assumption.
  - intros. apply (et0_turc_rad_nonneg O K x); assumption.
  - intros. apply et0_turc_sunshine_nonneg; assumption.
  - intros. apply (et0_turc_sunshine_nonneg O K x); assumption.
  - intros. apply et0_pt_nonneg; assumption.
  - intros. apply et0_pt_nonneg; assumption.
  - intros. apply et0_pm_nonneg; assumption.
  - intros. apply et0_pm_nonneg; assumption.
Qed.

Definition true_functions_stmt : Prop :=
  orc_ok real_orc /\
  (forall tag lat : R, -90 < lat < 90 -> 0 <= d_EXT (@day_length R RNum real_orc realK tag lat)) /\
  (forall x : et0_in (T:=R),
     ti_rad x <= 0 -> -90 < ti_lat x < 90 -> 0 <= ti_sund x -> 0 <= ti_kcoa x -> -22 <= ti_temp x ->
     0 <= kc_of x -> 0 <= to_precap (@et0_turc R RNum real_orc realK x)).

Lemma true_functions_lemma : true_functions_stmt.
Proof. exact (conj real_orc_ok (conj ext_nonneg_real et0_turc_sunshine_nonneg_real)). Qed.

Definition definedness_stmt : Prop :=
  (forall (O : Orc R) (x : et0_in (T:=R)),
     orc_ok O -> ti_temp x + 2373 / 10 <> 0 -> ti_alti x < 293 / (65 / 10000) -> 0 < @pt_den R RNum O x) /\
  (forall deltsat psych rsurf wind : R,
     0 < deltsat -> 0 < psych -> 0 <= rsurf -> 0 <= wind -> 0 < @pm_den R RNum deltsat psych rsurf wind) /\
  (forall (O : Orc R) (t alti : R),
     orc_ok O -> t + 2373 / 10 <> 0 -> alti < 293 / (65 / 10000) ->
     0 < @deltsat_of R RNum O t /\ 0 < 665 / 1000000 * @atmpress_of R RNum O alti) /\
  (forall (O : Orc R) (x : et0_in (T:=R)), 5 / 10 <= @wind2m R RNum O x).

Lemma definedness_lemma : definedness_stmt.
Proof. exact (conj pt_den_pos (conj pm_den_pos (conj pm_terms_pos wind2m_floor))). Qed.
