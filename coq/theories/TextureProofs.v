(* TextureProofs.v — validation of a texture code agrees with the table look-up of Hydro
   (TextureModel), for every pair of tables satisfying the computable condition tables_wf. *)
From Coq Require Import List Bool String Ascii Arith Lia.
From Hermes Require Import TextureModel.
Import ListNotations.

Lemma pair_ind {A} (P : list A -> Prop) :
  P [] -> (forall a, P [a]) -> (forall a b r, P r -> P (a :: b :: r)) -> forall l, P l.
Proof.
  intros H0 H1 H2 l. assert (H : P l /\ forall a, P (a :: l)).
  { induction l as [|x l [IHa IHb]]; [split; auto|]. split; [apply IHb|]. intros a. apply H2. exact IHa. }
  exact (proj1 H).
Qed.

Lemma parcap_lookup_in_keys lines code :
  parcap_lookup lines code = true -> In code (pair_keys lines).
Proof.
  revert lines.
  apply (pair_ind (fun lines => parcap_lookup lines code = true -> In code (pair_keys lines)));
    [cbn; intros H; discriminate H | intros a; cbn; intros H; discriminate H | intros a b r IH; cbn [parcap_lookup pair_keys]].
  destruct (Nat.ltb (String.length a) 3); [intros H; discriminate H|].
  destruct (String.eqb_spec (upper (substring 0 3 a)) code) as [->|Hne].
  - intros _. now left.
  - intros H. right. exact (IH H).
Qed.

Lemma existsb_eqb_In code l : existsb (String.eqb code) l = true <-> In code l.
Proof.
  rewrite existsb_exists. split.
  - intros (x & Hin & E). apply String.eqb_eq in E. now subst.
  - intros Hin. exists code. split; [exact Hin | apply String.eqb_refl].
Qed.

(* C11: "validation accepts a code iff the table look-up finds it" *)
Theorem texture_validation_iff_lookup_lemma : forall (parcap hypar : list string),
  tables_wf parcap hypar = true ->
  forall code, validate parcap code = true <-> lookup parcap hypar code = true.
Proof.
  intros parcap hypar Hwf code. unfold tables_wf in Hwf.
  apply andb_true_iff in Hwf as [H1 H2]. rewrite forallb_forall in H1, H2. split.
  - intros Hv. unfold validate in Hv. apply existsb_eqb_In in Hv. exact (H1 _ Hv).
  - intros Hl. pose proof Hl as Hl'. unfold lookup in Hl'. apply andb_true_iff in Hl' as [Hp _].
    apply parcap_lookup_in_keys in Hp. specialize (H2 _ Hp). rewrite Hl in H2. exact H2.
Qed.

Lemma last_some_In {A} (l : list A) c : last (map Some l) None = Some c -> In c l.
Proof.
  induction l as [|x l IH]; cbn; [discriminate|].
  destruct l as [|y l]; cbn in *.
  - intros E. injection E as ->. now left.
  - intros E. right. exact (IH E).
Qed.

(* hence a profile that passes the validation never makes Hydro run off a table: the
   outcome of the texture path is a run error or acceptance, never the death of the process *)
Theorem texture_path_never_kills_lemma : forall (parcap hypar : list string),
  tables_wf parcap hypar = true ->
  forall raws, profile_outcome parcap hypar raws <> ProcessDies /\
    (profile_outcome parcap hypar raws = Accepted <->
     exists codes, normalize_all raws = Some codes /\
                   forall c, In c codes -> lookup parcap hypar c = true).
Proof.
  intros parcap hypar Hwf raws. unfold profile_outcome.
  destruct (normalize_all raws) as [codes|]; [|split; [discriminate|]; split; [discriminate|]; intros (c & E & _); discriminate].
  destruct (forallb (validate parcap) codes) eqn:Ev.
  - rewrite forallb_forall in Ev.
    assert (Hall : forall c, In c codes -> lookup parcap hypar c = true).
    { intros c Hc. apply (texture_validation_iff_lookup_lemma parcap hypar Hwf). exact (Ev c Hc). }
    assert (Hpl : profile_lookup parcap hypar codes = true).
    { unfold profile_lookup. apply andb_true_iff. split.
      - apply forallb_forall. intros c Hc. specialize (Hall c Hc). unfold lookup in Hall.
        apply andb_true_iff in Hall. tauto.
      - destruct (last (map Some codes) None) as [c|] eqn:El; [|reflexivity].
        apply last_some_In in El. specialize (Hall c El). unfold lookup in Hall.
        apply andb_true_iff in Hall. tauto. }
    rewrite Hpl. split; [discriminate|]. split; [|reflexivity]. intros _. exists codes. auto.
  - split; [discriminate|]. split; [discriminate|]. intros (cs & E & Hall). injection E as <-.
    exfalso. assert (forallb (validate parcap) codes = true); [|congruence].
    apply forallb_forall. intros c Hc. apply (texture_validation_iff_lookup_lemma parcap hypar Hwf). auto.
Qed.
