(* Calendar.v — the civil (proleptic Gregorian) calendar, written independently of
   HERMES' algorithms.  This is the SPEC side of C12/C04/C05: the n-th day after
   31 Dec 1900 is obtained by iterating [next_day]; nothing here mentions month-offset
   tables or the (Y-1)/4 trick the code uses. *)
From Coq Require Import ZArith List Bool Lia.
Import ListNotations.
Open Scope Z_scope.

Definition leap (y : Z) : bool :=
  (y mod 4 =? 0) && (negb (y mod 100 =? 0) || (y mod 400 =? 0)).

Definition mlen (y m : Z) : Z :=
  match m with
  | 1 => 31 | 2 => if leap y then 29 else 28 | 3 => 31 | 4 => 30 | 5 => 31 | 6 => 30
  | 7 => 31 | 8 => 31 | 9 => 30 | 10 => 31 | 11 => 30 | 12 => 31 | _ => 0
  end.

Definition ylen (y : Z) : Z := if leap y then 366 else 365.

Record date := mkdate { dy : Z; dm : Z; dd : Z }.

Definition date_eqb (a b : date) : bool :=
  (dy a =? dy b) && (dm a =? dm b) && (dd a =? dd b).

Definition valid_date (t : date) : bool :=
  (1 <=? dm t) && (dm t <=? 12) && (1 <=? dd t) && (dd t <=? mlen (dy t) (dm t)).

Definition next_day (t : date) : date :=
  if dd t <? mlen (dy t) (dm t) then mkdate (dy t) (dm t) (dd t + 1)
  else if dm t <? 12 then mkdate (dy t) (dm t + 1) 1
  else mkdate (dy t + 1) 1 1.

(* true day of the year: 1 + number of days since 1 January of the same year *)
Fixpoint days_before_month (y : Z) (m : nat) : Z :=
  match m with O => 0 | S k => days_before_month y k + mlen y (Z.of_nat (S k)) end.

Definition doy (t : date) : Z := days_before_month (dy t) (Z.to_nat (dm t - 1)) + dd t.

(* the civil date numbered n: day 1 = 1 Jan 1901 = first successor of 31 Dec 1900 *)
Definition day0 : date := mkdate 1900 12 31.
Definition civil_of_day (n : N) : date := N.iter n next_day day0.

(* number of days 1 Jan 1901 .. 31 Dec 2099 inclusive *)
Definition LAST_DAY : Z := 72684.

Lemma date_eqb_eq a b : date_eqb a b = true <-> a = b.
Proof.
  destruct a as [y m d], b as [y' m' d']; unfold date_eqb; cbn.
  rewrite !andb_true_iff, !Z.eqb_eq. split.
  - intros [[-> ->] ->]; reflexivity.
  - intros H; inversion H; auto.
Qed.

Lemma mlen_le31 y m : mlen y m <= 31.
Proof.
  unfold mlen.
  repeat match goal with |- context [match ?x with _ => _ end] => destruct x end; lia.
Qed.
